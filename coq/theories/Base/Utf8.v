(* Base/Utf8.v — bytes.decode("utf-8", errors="replace") as CPython does it (maximal-subpart
   replacement), and urllib.parse.unquote on str.  Modelled library behaviour (not gffutils
   code): tied to the running interpreter by the correspondence, never proved "correct". *)
From GV Require Import Base.Prelude.
Open Scope N_scope.

Definition REPL : N := 65533.
Definition is_cont (b : N) : bool := (128 <=? b) && (b <=? 191).
Definition in_rng (lo hi b : N) : bool := (lo <=? b) && (b <=? hi).

(* second-byte range for a 3- or 4-byte lead *)
Definition second_ok (lead b : N) : bool :=
  if lead =? 224 then in_rng 160 191 b
  else if lead =? 237 then in_rng 128 159 b
  else if lead =? 240 then in_rng 144 191 b
  else if lead =? 244 then in_rng 128 143 b
  else is_cont b.

Fixpoint utf8_decode (bs : list N) : str :=
  match bs with
  | [] => []
  | b :: r =>
    if b <? 128 then b :: utf8_decode r
    else if in_rng 194 223 b then
      match r with
      | c1 :: r1 => if is_cont c1 then ((b - 192) * 64 + (c1 - 128)) :: utf8_decode r1
                    else REPL :: utf8_decode r
      | [] => [REPL]
      end
    else if in_rng 224 239 b then
      match r with
      | c1 :: r1 =>
        if second_ok b c1 then
          match r1 with
          | c2 :: r2 => if is_cont c2 then ((b - 224) * 4096 + (c1 - 128) * 64 + (c2 - 128)) :: utf8_decode r2
                        else REPL :: utf8_decode r1
          | [] => [REPL]
          end
        else REPL :: utf8_decode r
      | [] => [REPL]
      end
    else if in_rng 240 244 b then
      match r with
      | c1 :: r1 =>
        if second_ok b c1 then
          match r1 with
          | c2 :: r2 =>
            if is_cont c2 then
              match r2 with
              | c3 :: r3 => if is_cont c3 then
                              ((b - 240) * 262144 + (c1 - 128) * 4096 + (c2 - 128) * 64 + (c3 - 128)) :: utf8_decode r3
                            else REPL :: utf8_decode r2
              | [] => [REPL]
              end
            else REPL :: utf8_decode r1
          | [] => [REPL]
          end
        else REPL :: utf8_decode r
      | [] => [REPL]
      end
    else REPL :: utf8_decode r
  end.

(* ---- urllib.parse.unquote ---- *)
Definition is_hex (c : N) : bool := in_rng 48 57 c || in_rng 65 70 c || in_rng 97 102 c.
Definition hexval (c : N) : N :=
  if in_rng 48 57 c then c - 48 else if in_rng 65 70 c then c - 55 else c - 87.

(* tokens: a byte (from an ASCII run, literal or %XX-decoded) or a literal non-ASCII character *)
Inductive tok := TByte (b : N) | TChar (c : N).

Fixpoint unq_tokens (s : str) : list tok :=
  match s with
  | [] => []
  | c :: rest =>
    if c =? 37 then
      match rest with
      | h :: l :: rest' => if is_hex h && is_hex l then TByte (hexval h * 16 + hexval l) :: unq_tokens rest'
                           else TByte 37 :: unq_tokens rest
      | _ => TByte 37 :: unq_tokens rest
      end
    else if c <? 128 then TByte c :: unq_tokens rest
    else TChar c :: unq_tokens rest
  end.

(* decode maximal runs of bytes *)
Fixpoint decode_tokens (ts : list tok) (run : list N) : str :=
  match ts with
  | [] => utf8_decode (rev run)
  | TByte b :: ts' => decode_tokens ts' (b :: run)
  | TChar c :: ts' => utf8_decode (rev run) ++ c :: decode_tokens ts' []
  end.

Definition unquote (s : str) : str := decode_tokens (unq_tokens s) [].
