(* Base/Prelude.v — shared definitions: strings as code-point lists, packing of
   string literals for the correspondence files, result type, small list tools.
   Stdlib only. *)
From Coq Require Export ZArith NArith List Bool Lia.
From Coq Require Import Strings.Byte.
Export ListNotations.

(* A Python str is a list of Unicode code points. *)
Definition str := list N.

Fixpoint str_eqb (a b : str) : bool :=
  match a, b with
  | [], [] => true
  | x :: a', y :: b' => N.eqb x y && str_eqb a' b'
  | _, _ => false
  end.

Lemma str_eqb_eq a b : str_eqb a b = true <-> a = b.
Proof.
  revert b; induction a as [|x a IH]; intros [|y b]; simpl; split; intros H;
    try reflexivity; try discriminate.
  - apply andb_prop in H as [H1 H2]. apply N.eqb_eq in H1. apply IH in H2. congruence.
  - inversion H; subst. rewrite N.eqb_refl. simpl. apply IH. reflexivity.
Qed.

Lemma str_eqb_refl a : str_eqb a a = true.
Proof. apply str_eqb_eq. reflexivity. Qed.

Lemma str_eqb_neq a b : str_eqb a b = false <-> a <> b.
Proof.
  split.
  - intros H E. apply str_eqb_eq in E. congruence.
  - intros H. destruct (str_eqb a b) eqn:E; [|reflexivity]. apply str_eqb_eq in E. contradiction.
Qed.

(* Generic list equality from an element equality. *)
Fixpoint list_eqb {A} (eqb : A -> A -> bool) (a b : list A) : bool :=
  match a, b with
  | [], [] => true
  | x :: a', y :: b' => eqb x y && list_eqb eqb a' b'
  | _, _ => false
  end.

Lemma list_eqb_eq {A} (eqb : A -> A -> bool) :
  (forall x y, eqb x y = true <-> x = y) ->
  forall a b, list_eqb eqb a b = true <-> a = b.
Proof.
  intros Heq a; induction a as [|x a IH]; intros [|y b]; simpl; split; intros H;
    try reflexivity; try discriminate.
  - apply andb_prop in H as [H1 H2]. apply Heq in H1. apply IH in H2. congruence.
  - inversion H; subst. apply andb_true_intro. split; [apply Heq; reflexivity| apply IH; reflexivity].
Qed.

Definition option_eqb {A} (eqb : A -> A -> bool) (a b : option A) : bool :=
  match a, b with
  | None, None => true
  | Some x, Some y => eqb x y
  | _, _ => false
  end.

Definition pair_eqb {A B} (ea : A -> A -> bool) (eb : B -> B -> bool) (a b : A * B) : bool :=
  ea (fst a) (fst b) && eb (snd a) (snd b).

(* ---- string literals for generated files --------------------------------
   Generated .v files (translator output, correspondence cases) write a Python str as a Coq
   string literal "..."%bs: printable ASCII 0x20..0x7D except the double quote stands for
   itself, every other code point is written ~XXXXXX (six hex digits).  [U] decodes it to
   the list of code points.  A native string literal is an order of magnitude cheaper for
   coqc to read than a list of numerals. *)
Inductive bstr := BS (l : list Byte.byte).
Definition bs_parse (l : list Byte.byte) : bstr := BS l.
Definition bs_print (b : bstr) : list Byte.byte := match b with BS l => l end.
Declare Scope bstr_scope.
Delimit Scope bstr_scope with bs.
String Notation bstr bs_parse bs_print : bstr_scope.

Definition hexv (b : Byte.byte) : N :=
  let n := Byte.to_N b in
  if N.leb 97 n then n - 87 else if N.leb 65 n then n - 55 else n - 48.

Fixpoint unesc (l : list Byte.byte) : str :=
  match l with
  | [] => []
  | Byte.x7e :: a :: b :: c :: d :: e :: f :: rest =>
      (hexv a * 1048576 + hexv b * 65536 + hexv c * 4096 + hexv d * 256 + hexv e * 16 + hexv f)%N :: unesc rest
  | x :: rest => Byte.to_N x :: unesc rest
  end.

Definition U (b : bstr) : str := match b with BS l => unesc l end.

(* ---- results of operations that can raise in Python ------------------- *)
Inductive err := ENotFound | EDuplicate | EValue | EIntegrity | EType | EIndex | EKey | EAttr | EAssert | EOther.

Definition err_eqb (a b : err) : bool :=
  match a, b with
  | ENotFound, ENotFound | EDuplicate, EDuplicate | EValue, EValue
  | EIntegrity, EIntegrity | EType, EType | EIndex, EIndex | EKey, EKey
  | EAttr, EAttr | EAssert, EAssert | EOther, EOther => true
  | _, _ => false
  end.

Inductive result (A : Type) := Ok (a : A) | Err (e : err).
Arguments Ok {A}. Arguments Err {A}.

Definition bind {A B} (r : result A) (f : A -> result B) : result B :=
  match r with Ok a => f a | Err e => Err e end.

Definition result_eqb {A} (eqb : A -> A -> bool) (a b : result A) : bool :=
  match a, b with
  | Ok x, Ok y => eqb x y
  | Err e, Err e' => err_eqb e e'
  | _, _ => false
  end.

(* ---- verdict codes returned to the harness ----------------------------
     0        in domain, implementation = model (= spec by the theorems)
     1        outside the property's domain: ignored (recorded as drift)
     2        inside a known-finding class but the implementation meets the spec
     100 + k  inside known-finding class Fk and the implementation shows the
              recorded deviation
     -1       in-domain mismatch: a concrete failing input                    *)
Definition V_OK : Z := 0.
Definition V_OUT : Z := 1.
Definition V_FIXED : Z := 2.
Definition V_KNOWN (k : Z) : Z := 100 + k.
Definition V_BAD : Z := (-1).

(* small helpers *)
Definition zlist_eqb := list_eqb Z.eqb.
Definition lstr_eqb := list_eqb str_eqb.

Fixpoint mem_str (x : str) (l : list str) : bool :=
  match l with [] => false | y :: l' => str_eqb x y || mem_str x l' end.

Lemma mem_str_In x l : mem_str x l = true <-> In x l.
Proof.
  induction l as [|y l IH]; simpl; [split; [discriminate|contradiction]|].
  rewrite orb_true_iff, IH, str_eqb_eq. split; intros [H|H]; auto.
Qed.

Fixpoint memZ (x : Z) (l : list Z) : bool :=
  match l with [] => false | y :: l' => Z.eqb x y || memZ x l' end.

Lemma memZ_In x l : memZ x l = true <-> In x l.
Proof.
  induction l as [|y l IH]; simpl; [split; [discriminate|contradiction]|].
  rewrite orb_true_iff, IH, Z.eqb_eq. split; intros [H|H]; auto.
Qed.
