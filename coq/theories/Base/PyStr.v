(* Base/PyStr.v — the CPython str operations gffutils uses, over code-point lists.
   Definitions only (executable); lemmas are in Proofs/SplitJoin.v. *)
From GV Require Import Base.Prelude.
Open Scope N_scope.

Fixpoint is_prefix (p s : str) : bool :=
  match p, s with
  | [], _ => true
  | _ :: _, [] => false
  | a :: p', b :: s' => N.eqb a b && is_prefix p' s'
  end.

Definition startswith (s p : str) : bool := is_prefix p s.

(* s.split(sep) for a non-empty sep: leftmost, non-overlapping.  [skip] counts the
   remaining characters of a separator that has just been matched. *)
Fixpoint split_go (sep : str) (skip : nat) (cur s : str) : list str :=
  match s with
  | [] => [rev cur]
  | c :: s' =>
    match skip with
    | Datatypes.S k => split_go sep k cur s'
    | O => if is_prefix sep s then rev cur :: split_go sep (length sep - 1) [] s'
           else split_go sep 0 (c :: cur) s'
    end
  end.
Definition split (sep s : str) : list str := split_go sep 0 [] s.

Fixpoint join (sep : str) (parts : list str) : str :=
  match parts with
  | [] => []
  | [p] => p
  | p :: ps => p ++ sep ++ join sep ps
  end.

Definition mem_char (c : N) (s : str) : bool := existsb (N.eqb c) s.

(* Unicode whitespace as str.isspace()/str.strip() see it (table checked exhaustively against
   CPython by the harness, see props/pystr_tables) *)
Definition is_space (c : N) : bool :=
  ((9 <=? c) && (c <=? 13)) || ((28 <=? c) && (c <=? 32)) || (c =? 133) || (c =? 160)
  || (c =? 5760) || ((8192 <=? c) && (c <=? 8202)) || (c =? 8232) || (c =? 8233)
  || (c =? 8239) || (c =? 8287) || (c =? 12288).

Fixpoint lstrip_by (p : N -> bool) (s : str) : str :=
  match s with
  | [] => []
  | c :: s' => if p c then lstrip_by p s' else s
  end.
Definition rstrip_by (p : N -> bool) (s : str) : str := rev (lstrip_by p (rev s)).
Definition strip_by (p : N -> bool) (s : str) : str := rstrip_by p (lstrip_by p s).

Definition strip (s : str) : str := strip_by is_space s.
Definition rstrip_chars (chars s : str) : str := rstrip_by (fun c => mem_char c chars) s.

(* line.rstrip("\n\r") *)
Definition rstrip_nl (s : str) : str := rstrip_chars [10; 13] s.

(* s.split(None, maxsplit): runs of whitespace separate; at most maxsplit splits; once
   maxsplit is reached the remainder is kept as is apart from its leading whitespace. *)
Fixpoint take_word (s : str) (acc : str) : str * str :=
  match s with
  | [] => (rev acc, [])
  | c :: s' => if is_space c then (rev acc, s) else take_word s' (c :: acc)
  end.

Fixpoint split_ws_go (fuel : nat) (maxsplit : nat) (s : str) : list str :=
  match fuel with
  | O => []
  | Datatypes.S f =>
    let s1 := lstrip_by is_space s in
    match s1 with
    | [] => []
    | _ =>
      match maxsplit with
      | O => [s1]
      | Datatypes.S m => let '(w, rest) := take_word s1 [] in w :: split_ws_go f m rest
      end
    end
  end.
Definition split_ws (maxsplit : nat) (s : str) : list str := split_ws_go (Datatypes.S (length s)) maxsplit s.

(* decimal int() / str() on the canonical form: optional '-', digits, no leading zeros needed *)
Definition is_digit (c : N) : bool := (48 <=? c) && (c <=? 57).

Fixpoint digits_val (s : str) (acc : Z) : option Z :=
  match s with
  | [] => Some acc
  | c :: s' => if is_digit c then digits_val s' (acc * 10 + Z.of_N (c - 48))%Z else None
  end.

(* int(s) for s made of ASCII digits with an optional leading '-' (the canonical forms the
   grammar produces); anything else is outside the modelled domain: None *)
Definition int_of_str (s : str) : option Z :=
  match s with
  | [] => None
  | 45 :: d :: r => option_map Z.opp (digits_val (d :: r) 0%Z)
  | _ => digits_val s 0%Z
  end.

Fixpoint pos_digits (fuel : nat) (n : Z) (acc : str) : str :=
  match fuel with
  | O => acc
  | Datatypes.S f =>
    let acc' := (Z.to_N (n mod 10) + 48) :: acc in
    if (n <? 10)%Z then acc' else pos_digits f (n / 10)%Z acc'
  end.

Definition str_of_int (n : Z) : str :=
  if (n <? 0)%Z then 45 :: pos_digits (Datatypes.S (Z.to_nat (Z.log2 (- n)))) (- n)%Z []
  else pos_digits (Datatypes.S (Z.to_nat (Z.log2 n))) n [].

(* code-point order = sqlite BINARY collation on UTF-8 = Python str ordering *)
Fixpoint str_ltb (a b : str) : bool :=
  match a, b with
  | [], [] => false
  | [], _ :: _ => true
  | _ :: _, [] => false
  | x :: a', y :: b' => if x <? y then true else if y <? x then false else str_ltb a' b'
  end.
Definition str_leb (a b : str) : bool := negb (str_ltb b a).

Definition find_char (c : N) (s : str) : bool := mem_char c s.

(* s.replace(old_char, "") for single characters *)
Definition remove_char (c : N) (s : str) : str := filter (fun x => negb (N.eqb x c)) s.

Definition ascii_lower (c : N) : N := if (65 <=? c) && (c <=? 90) then c + 32 else c.
