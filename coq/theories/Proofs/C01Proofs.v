(* Proofs/C01Proofs.v — import fidelity: a file-level dialect that fits a line prints it back
   (keep_order=True) and parses it faithfully through the supplied-dialect path; composition over
   whole files. *)
From GV Require Import Base.Prelude Base.PyStr Base.Utf8 Base.WordTable Model.DB Model.Parser Model.Grammar Model.Dialect
  Proofs.SplitJoin Proofs.StrLemmas Proofs.IntStr Proofs.C08Proofs Proofs.C08Round Proofs.C07Parse Proofs.C07Proofs.
Open Scope N_scope.

Lemma sorted_b_spec {A} (key : A -> N) l : sorted_b key l = true -> sorted_by key l.
Proof.
  induction l as [|x t IH]; [intros _; exact I|]. cbn [sorted_b sorted_by]. intros H. apply andb_prop in H as [H1 H2].
  split; [|apply IH; exact H2]. destruct t; [exact I|]. apply N.leb_le. exact H1.
Qed.

Record fits_spec (st : style) (a : attrs) (D : dialect) : Prop := {
  fs_fmt : d_fmt D = style_fmt st; fs_kvsep : d_kvsep D = style_kvsep st; fs_quoted : d_quoted D = style_quoted st;
  fs_trailing : d_trailing D = st_trailing st; fs_leading : d_leading D = false; fs_mvsep : d_mvsep D = [COMMA];
  fs_fsep : if Nat.ltb 1 (nparts st a) then d_fsep D = st_fsep st else fsep_ok (d_fsep D) = true;
  fs_repeated : multi a = true -> d_repeated D = st_repeated st;
  fs_sorted : sorted_by (fun it : str * list str => order_key (d_order D) (fst it)) (style_items st a) }.

Lemma fits_prop st a D : fits st a D = true -> fits_spec st a D.
Proof.
  unfold fits. intros H.
  apply andb_prop in H as [H H9]. apply andb_prop in H as [H H8]. apply andb_prop in H as [H H7]. apply andb_prop in H as [H H6].
  apply andb_prop in H as [H H5]. apply andb_prop in H as [H H4]. apply andb_prop in H as [H H3]. apply andb_prop in H as [H1 H2].
  constructor.
  - apply str_eqb_eq. exact H1.
  - apply str_eqb_eq. exact H2.
  - apply Bool.eqb_prop. exact H3.
  - apply Bool.eqb_prop. exact H4.
  - apply negb_true_iff. exact H5.
  - apply str_eqb_eq. exact H6.
  - destruct (Nat.ltb 1 (nparts st a)); [apply str_eqb_eq|]; exact H7.
  - intros Hm. rewrite Hm in H8. simpl in H8. apply Bool.eqb_prop in H8. exact H8.
  - apply sorted_b_spec. exact H9.
Qed.

Lemma render_part_fits st a D it : fits_spec st a D -> it_ok (st_kv st) it ->
  render_part D false it = part (st_kv st) it.
Proof.
  intros F [Hk [Hv _]]. destruct it as [k rvs]. cbn [fst snd] in *.
  unfold render_part, part, vstring. rewrite (fs_fmt _ _ _ F), (fs_kvsep _ _ _ F), (fs_mvsep _ _ _ F), (fs_quoted _ _ _ F).
  unfold style_fmt, style_kvsep, style_quoted. cbn [fst snd].
  destruct rvs as [|rv rvs].
  - destruct (st_kv st); reflexivity.
  - assert (J : join [COMMA] (rv :: rvs) <> []) by (apply join_rv_nonempty; [discriminate|exact Hv]).
    destruct (join [COMMA] (rv :: rvs)) as [|c j] eqn:E; [congruence|].
    destruct (st_kv st); reflexivity.
Qed.

Lemma join_fsep_fits st a D (ps : list str) : fits_spec st a D -> length ps = nparts st a ->
  join (d_fsep D) ps = join (st_fsep st) ps.
Proof.
  intros F L. pose proof (fs_fsep _ _ _ F) as H. destruct (Nat.ltb 1 (nparts st a)) eqn:E; [rewrite H; reflexivity|].
  apply join_short. apply Nat.ltb_ge in E. lia.
Qed.

(* printing with ANY fitting dialect (keep_order=True) gives the column back *)
Theorem l_print_fits st a D : wf_attrs st a = true -> fits_spec st a D ->
  reconstruct to_quote a D true false = render_attrs st a.
Proof.
  intros Hwf F. apply wf_attrs_spec in Hwf as [Hfs [Hnd [Hit Hfirst]]].
  destruct a as [|kv0 a0]; [reflexivity|].
  pose proof (items_ok st (kv0 :: a0) Hit) as Hok.
  unfold reconstruct, render_attrs. set (a := kv0 :: a0) in *. set (kv := st_kv st) in *.
  assert (Hattr : (if str_eqb (d_fmt D) GFF3 then map (fun it => (fst it, map (quote to_quote) (snd it))) a else a) = ritems kv a).
  { rewrite (fs_fmt _ _ _ F). unfold style_fmt. fold kv. destruct kv eqn:Ekv.
    - reflexivity.
    - change (str_eqb GTF GFF3) with false. cbv iota. symmetry. apply ritems_id. discriminate.
    - change (str_eqb GFF3 GFF3) with true. cbv iota. rewrite ritems_id by discriminate.
      rewrite <- (map_id a) at 2. apply map_ext_in. intros [k vs] Hin. cbn [fst snd]. f_equal.
      rewrite <- (map_id vs) at 2. apply map_ext_in. intros v Hv. apply quote_id.
      destruct (Hit _ Hin) as [_ Hvals _]. cbn [snd] in Hvals. rewrite forallb_forall in Hvals. specialize (Hvals v Hv).
      unfold val_ok in Hvals. fold kv in Hvals. rewrite Ekv in Hvals. apply andb_prop in Hvals as [_ Hvals]. apply andb_prop in Hvals as [Hvals _].
      exact Hvals. }
  rewrite Hattr.
  assert (Hitems : (if d_repeated D then expand_repeated (ritems kv a) else ritems kv a) = ritems kv (style_items st a)).
  { unfold style_items. destruct (multi a) eqn:Em.
    - rewrite (fs_repeated _ _ _ F Em). destruct (st_repeated st); [symmetry; apply ritems_expand|reflexivity].
    - rewrite (expand_not_multi a Em). assert (Em' : multi (ritems kv a) = false) by (rewrite (multi_ritems (fun _ => true)); exact Em).
      rewrite (expand_not_multi _ Em'). destruct (d_repeated D), (st_repeated st); reflexivity. }
  rewrite Hitems.
  assert (Hsorted : sorted_by (fun it : str * list str => order_key (d_order D) (fst it)) (ritems kv (style_items st a))).
  { pose proof (fs_sorted _ _ _ F) as S. clear - S. unfold ritems. induction (style_items st a) as [|x t IH]; [exact I|].
    cbn [map sorted_by] in *. destruct S as [S1 S2]. split; [|apply IH; exact S2]. destruct t; [exact I|exact S1]. }
  rewrite (sort_sorted _ _ Hsorted).
  assert (Hparts : map (render_part D false) (ritems kv (style_items st a)) = map (render_item st) (style_items st a)).
  { rewrite render_items_parts. fold kv. apply map_ext_in. intros it Hin. apply (render_part_fits st a D it F). apply Hok. exact Hin. }
  rewrite Hparts.
  rewrite (join_fsep_fits st a D) by (try exact F; rewrite map_length; reflexivity).
  rewrite (fs_trailing _ _ _ F). destruct (st_trailing st); [reflexivity|rewrite app_nil_r; reflexivity].
Qed.

(* ---------- the supplied-dialect path of the parser on a rendered column ---------- *)
Lemma rstrip_semi_join J : J <> [] -> last J 0 <> SEMI -> rstrip_chars [SEMI] (J ++ [SEMI]) = J.
Proof.
  intros Hne Hl. unfold rstrip_chars, rstrip_by. rewrite rev_app_distr. cbn [rev app lstrip_by mem_char existsb].
  rewrite N.eqb_refl. cbn [orb].
  change (rev (lstrip_by (fun c => existsb (N.eqb c) [SEMI]) (rev J))) with (rstrip_by (fun c => mem_char c [SEMI]) J).
  apply rstrip_by_id; [exact Hne|]. cbn [mem_char existsb]. rewrite (neqb_false _ _ Hl). reflexivity.
Qed.

Lemma rstrip_semi_none J : J <> [] -> last J 0 <> SEMI -> rstrip_chars [SEMI] J = J.
Proof.
  intros Hne Hl. unfold rstrip_chars. apply rstrip_by_id; [exact Hne|]. cbn [mem_char existsb]. rewrite (neqb_false _ _ Hl). reflexivity.
Qed.

Lemma dset_same k v : forall q, dget k q = Some v -> dset k v q = q.
Proof.
  induction q as [|[k' v'] q IH]; simpl; [discriminate|]. destruct (str_eqb k k') eqn:E.
  - intros H. inversion H. reflexivity.
  - intros H. rewrite IH by exact H. reflexivity.
Qed.

Lemma dget_dset_new k q : dhas k q = false -> dget k (dset k [] q) = Some [].
Proof.
  intros H. rewrite (dset_new k [] q H). rewrite dget_app_notin by exact H. simpl. rewrite str_eqb_refl. reflexivity.
Qed.

Definition ext_gtf (p : str) : str * str :=
  let pieces := split [SP] (strip p) in (hd [] pieces, join [SP] (tl pieces)).

Lemma with_key_vals_gtf D ps : d_fmt D = GTF -> d_leading D = false -> d_kvsep D = [SP] -> with_key_vals D ps = map ext_gtf ps.
Proof.
  intros Hf Hl Hk. unfold with_key_vals. rewrite Hf. change (str_eqb GTF GFF3) with false. cbv iota. rewrite Hl, Hk.
  generalize true as first. induction ps as [|p ps IH]; intros first; [reflexivity|].
  cbn [map]. rewrite andb_false_r. unfold ext_gtf. f_equal. apply IH.
Qed.

Lemma ext_gtf_part kv it : kv <> KvEq -> it_ok kv it -> ext_gtf (part kv it) = (fst it, vstring kv (snd it)).
Proof.
  intros Hkv Hok. rewrite <- (ext_sp_part kv it Hkv Hok). unfold ext_sp, ext_gtf.
  pose proof (part_hd kv it Hok) as Hh. destruct (ascii_word_not _ Hh) as [Hsemi _].
  destruct (part kv it) as [|c p'] eqn:E; [reflexivity|]. cbn [hd] in Hsemi. rewrite (neqb_false _ _ Hsemi). reflexivity.
Qed.

Lemma key_val_sp_part it : it_ok KvSpaceBare it ->
  key_val [SP] (split [SP] (part KvSpaceBare it)) = (fst it, vstring KvSpaceBare (snd it)).
Proof.
  intros [Hk _]. unfold part, vstring. cbn [is_spq kvchar].
  assert (K : ~ In SP (fst it)) by (apply word_key_free; [exact Hk|simpl; auto]).
  destruct (snd it) as [|v vs] eqn:E.
  - rewrite split1_nosep by exact K. reflexivity.
  - apply key_val_part. exact K.
Qed.

Lemma with_step_item st a D q it : fits_spec st a D -> it_ok (st_kv st) it ->
  with_step D q (fst it, vstring (st_kv st) (snd it)) = add q it.
Proof.
  intros F [Hk [Hv Hq]]. destruct it as [key rvs]. cbn [fst snd] in *. unfold with_step, add. cbn [fst snd].
  rewrite (fs_quoted _ _ _ F). unfold style_quoted, vstring.
  set (q' := if dhas key q then q else dset key [] q).
  assert (Hval : (if match st_kv st with KvSpaceQuoted => true | _ => false end
                  then match strip_quotes (if is_spq (st_kv st) then DQ :: join [COMMA] rvs ++ [DQ] else join [COMMA] rvs) with
                       | Some v => v | None => (if is_spq (st_kv st) then DQ :: join [COMMA] rvs ++ [DQ] else join [COMMA] rvs) end
                  else (if is_spq (st_kv st) then DQ :: join [COMMA] rvs ++ [DQ] else join [COMMA] rvs)) = join [COMMA] rvs).
  { destruct (st_kv st); cbn [is_spq]; [reflexivity|rewrite strip_quotes_quoted; reflexivity|reflexivity]. }
  rewrite Hval. destruct rvs as [|rv rvs].
  - cbn [join]. unfold dappend.
    assert (G : dget key q' = match dget key q with Some o => Some o | None => Some [] end).
    { unfold q', dhas. destruct (dget key q) eqn:E; [exact E|]. apply dget_dset_new. unfold dhas. rewrite E. reflexivity. }
    rewrite G. destruct (dget key q) eqn:E.
    + rewrite app_nil_r. symmetry. apply dset_same. unfold q', dhas. rewrite E. exact E.
    + cbn [app]. symmetry. apply dset_same. rewrite G. reflexivity.
  - destruct (join [COMMA] (rv :: rvs)) as [|c j] eqn:Ej.
    { exfalso. revert Ej. apply join_rv_nonempty; [discriminate|exact Hv]. }
    rewrite <- Ej. rewrite split_comma_rvs by (try discriminate; exact Hv). reflexivity.
Qed.

Lemma fold_add_expanded' : forall m acc, NoDup (map fst m) -> (forall k, In k (map fst m) -> dhas k acc = false) ->
  fold_left add (expand_repeated m) acc = acc ++ m.
Proof.
  induction m as [|[k vs] m IH]; intros acc Hnd Hacc.
  - simpl. rewrite app_nil_r. reflexivity.
  - inversion Hnd as [|? ? Hk Hnd']; subst.
    assert (Hk0 : dhas k acc = false) by (apply Hacc; left; reflexivity).
    assert (Hrest : forall k', In k' (map fst m) -> dhas k' (acc ++ [(k, vs)]) = false).
    { intros k' Hk'. rewrite dhas_app. rewrite (Hacc k') by (right; exact Hk'). simpl.
      unfold dhas. simpl. destruct (str_eqb k' k) eqn:E; [|reflexivity].
      apply str_eqb_eq in E. subst. contradiction. }
    unfold expand_repeated. cbn [flat_map]. fold (expand_repeated m). rewrite fold_left_app. cbn [fst snd].
    destruct vs as [|v1 [|v2 vs]].
    + simpl fold_left at 2. rewrite add_new by exact Hk0. rewrite IH by assumption. rewrite <- app_assoc. reflexivity.
    + simpl fold_left at 2. rewrite add_new by exact Hk0. rewrite IH by assumption. rewrite <- app_assoc. reflexivity.
    + change (map (fun v => (k, [v])) (v1 :: v2 :: vs)) with ((k, [v1]) :: map (fun v => (k, [v])) (v2 :: vs)).
      cbn [fold_left]. rewrite (add_new k acc [v1] Hk0).
      rewrite fold_singletons by exact Hk0. change ([v1] ++ v2 :: vs) with (v1 :: v2 :: vs). rewrite IH by assumption. rewrite <- app_assoc. reflexivity.
Qed.

Theorem l_parse_with_fits st a D : wf_attrs st a = true -> fits_spec st a D ->
  split_with D (render_attrs st a) = Ok a.
Proof.
  intros Hwf F. apply wf_attrs_spec in Hwf as [Hfs [Hnd [Hit Hfirst]]].
  destruct a as [|kv0 a0]; [reflexivity|]. unfold render_attrs. set (a := kv0 :: a0) in *.
  pose proof (items_ok st a Hit) as Hok. remember (st_kv st) as kv eqn:Hkv.
  set (items := ritems kv (style_items st a)) in *.
  pose proof (parts_ok_items kv items Hok) as Hp.
  assert (Hine : items <> []).
  { unfold items, ritems. intros E. apply map_eq_nil in E. revert E. apply style_items_nonempty. }
  rewrite render_items_parts. rewrite <- Hkv. fold items. set (ps := map (part kv) items) in *.
  assert (Hpne : ps <> []) by (intros E; apply map_eq_nil in E; contradiction).
  set (J := join (st_fsep st) ps).
  assert (HJ : J <> []).
  { unfold J. destruct ps as [|p1 ps'] eqn:Eps; [congruence|]. apply join_nonempty. apply (Hp p1). left. reflexivity. }
  assert (HJl : last J 0 <> SEMI) by (apply joined_last_not_semi; assumption).
  assert (Hwfd : wf_dialect D = true).
  { unfold wf_dialect. rewrite (fs_kvsep _ _ _ F). pose proof (fs_fsep _ _ _ F) as Hf.
    assert (Hfo : fsep_ok (d_fsep D) = true) by (destruct (Nat.ltb 1 (nparts st a)); [rewrite Hf; exact Hfs|exact Hf]).
    destruct (fsep_ok_decomp _ Hfo) as [pre [post [E _]]]. rewrite E. unfold style_kvsep. destruct pre, (st_kv st); reflexivity. }
  unfold split_with.
  destruct (J ++ (if st_trailing st then [SEMI] else [])) as [|c0 S0] eqn:ES.
  { exfalso. destruct J; [congruence|discriminate]. }
  rewrite <- ES. rewrite Hwfd. cbn [negb]. cbv iota.
  assert (Hs : (if d_trailing D then rstrip_chars [SEMI] (J ++ (if st_trailing st then [SEMI] else []))
                else J ++ (if st_trailing st then [SEMI] else [])) = J).
  { rewrite (fs_trailing _ _ _ F). destruct (st_trailing st); [apply rstrip_semi_join; assumption|apply app_nil_r]. }
  rewrite Hs.
  assert (Hlen : length ps = nparts st a).
  { unfold ps, items, nparts, style_items, ritems. rewrite !map_length. reflexivity. }
  assert (Hsplit : split (d_fsep D) J = ps).
  { pose proof (fs_fsep _ _ _ F) as Hf. unfold J. destruct (Nat.ltb 1 (nparts st a)) eqn:E.
    - rewrite Hf. destruct (fsep_ok_decomp _ Hfs) as [pre [post [Es Hpre]]]. rewrite Es.
      apply (split_join pre post SEMI Hpre); [exact Hpne|apply parts_ok_notin; exact Hp].
    - apply Nat.ltb_ge in E. destruct ps as [|p1 [|p2 ps']]; [congruence| |simpl in Hlen; lia]. cbn [join].
      destruct (fsep_ok_decomp _ Hf) as [pre [post [Es Hpre]]]. rewrite Es. apply split_nosep. apply (Hp p1). left. reflexivity. }
  rewrite Hsplit.
  assert (Hkvs : with_key_vals D ps = map (fun it => (fst it, vstring kv (snd it))) items).
  { unfold ps, items. destruct kv eqn:Ekv.
    - unfold with_key_vals. rewrite (fs_fmt _ _ _ F), (fs_kvsep _ _ _ F). unfold style_fmt, style_kvsep. rewrite <- Hkv.
      change (str_eqb GFF3 GFF3) with true. cbv iota. rewrite map_map. apply map_ext_in. intros it Hin.
      apply (ext_eq_part it). apply Hok. exact Hin.
    - rewrite with_key_vals_gtf; [| rewrite (fs_fmt _ _ _ F); unfold style_fmt; rewrite <- Hkv; reflexivity
                                   | exact (fs_leading _ _ _ F)
                                   | rewrite (fs_kvsep _ _ _ F); unfold style_kvsep; rewrite <- Hkv; reflexivity].
      rewrite map_map. apply map_ext_in. intros it Hin. apply ext_gtf_part; [discriminate|]. apply Hok. exact Hin.
    - unfold with_key_vals. rewrite (fs_fmt _ _ _ F), (fs_kvsep _ _ _ F). unfold style_fmt, style_kvsep. rewrite <- Hkv.
      change (str_eqb GFF3 GFF3) with true. cbv iota. rewrite map_map. apply map_ext_in. intros it Hin.
      apply key_val_sp_part. apply Hok. exact Hin. }
  rewrite Hkvs.
  assert (Hfold : forall its acc, (forall it, In it its -> it_ok kv it) ->
            fold_left (with_step D) (map (fun it => (fst it, vstring kv (snd it))) its) acc = fold_left add its acc).
  { induction its as [|it its IH]; intros acc Hits; [reflexivity|]. cbn [map fold_left].
    rewrite Hkv. rewrite (with_step_item st a D acc it F) by (rewrite <- Hkv; apply Hits; left; reflexivity). rewrite <- Hkv. apply IH. intros x Hx. apply Hits. right. exact Hx. }
  rewrite (Hfold items [] Hok).
  assert (Hadd : fold_left add items [] = ritems kv a).
  { assert (Hnd' : NoDup (map fst (ritems kv a))) by (rewrite ritems_keys; exact Hnd).
    unfold items, style_items. destruct (st_repeated st).
    - rewrite ritems_expand. rewrite fold_add_expanded'; [reflexivity|exact Hnd'|reflexivity].
    - rewrite fold_add_plain; [reflexivity|exact Hnd'|reflexivity]. }
  rewrite Hadd. f_equal. unfold unquote_quals. rewrite (fs_fmt _ _ _ F). unfold style_fmt. rewrite <- Hkv. destruct kv eqn:Ekv.
  - change (str_eqb GFF3 GFF3) with true. cbv iota. apply unq_qmap.
  - change (str_eqb GTF GFF3) with false. cbv iota. apply ritems_id. discriminate.
  - change (str_eqb GFF3 GFF3) with true. cbv iota.
    rewrite ritems_id by discriminate. rewrite <- (map_id a) at 2. apply map_ext_in. intros [k vs] Hin. cbn [fst snd]. f_equal.
    rewrite <- (map_id vs) at 2. apply map_ext_in. intros v Hv. apply unquote_nopct.
    destruct (Hit _ Hin) as [_ Hvals _]. cbn [snd] in Hvals. rewrite forallb_forall in Hvals. specialize (Hvals v Hv).
    unfold val_ok in Hvals. rewrite <- Hkv in Hvals. apply andb_prop in Hvals as [_ Hvals]. apply andb_prop in Hvals as [Hvals _].
    apply (free_of_spec _ _ _ Hvals). exact pct_in_tq'.
Qed.

(* ---------- whole lines and whole files ---------- *)
From GV Require Import Model.File.

Section FileProofs.
  Variable isw : N -> bool.
  Hypothesis Hw : forall c, ascii_word c = true -> isw c = true.
  Hypothesis Heq : isw EQ = false.
  Hypothesis Hsp : isw SP = false.

  Definition with_dialect (f : feature) (D : dialect) (ko sv : bool) : feature :=
    mkFeature (f_seqid f) (f_source f) (f_ftype f) (f_start f) (f_end f) (f_score f) (f_strand f) (f_frame f)
              (f_attrs f) (f_extra f) D ko sv.

  Theorem l_parse_line_with st f D ko : wf_feature st f = true -> fits_spec st (f_attrs f) D ->
    feature_from_line isw (render_line st f) (Some D) ko = Ok (with_dialect f D ko false).
  Proof.
    intros Hwf F. pose proof (fields_clean st f Hwf) as Hclean.
    pose proof (wf_feature_spec st f Hwf) as [_ [_ [_ [_ [_ [_ [Ha _]]]]]]].
    unfold feature_from_line, render_line.
    rewrite rstrip_nl_clean.
    2:{ intros c Hin. apply In_join in Hin as [Hin|[fld [Hf Hc]]].
        - destruct Hin as [Hin|[]]. subst c. split; discriminate.
        - pose proof (Hclean fld c Hf Hc) as Hn. unfold ctl in Hn. split; intros E; apply Hn; auto. }
    assert (Hsplit : split [TAB] (join [TAB] (render_fields st f)) = render_fields st f).
    { apply (split_join [] [] TAB (@in_nil N TAB)); [unfold render_fields; discriminate|].
      intros fld Hf Hc. apply (Hclean fld TAB Hf Hc). left. reflexivity. }
    rewrite Hsplit. unfold render_fields, feature_of_fields. cbn [app nth_str nth skipn].
    rewrite (l_parse_with_fits st (f_attrs f) D Ha F). rewrite !coord_roundtrip. reflexivity.
  Qed.

  Theorem l_print_line_with st f D : wf_feature st f = true -> fits_spec st (f_attrs f) D ->
    feature_str to_quote (with_dialect f D true false) = render_line st f.
  Proof.
    intros Hwf F. pose proof (wf_feature_spec st f Hwf) as [_ [_ [_ [_ [_ [_ [Ha _]]]]]]].
    unfold feature_str, render_line, render_fields, with_dialect.
    cbn [f_seqid f_source f_ftype f_start f_end f_score f_strand f_frame f_attrs f_extra f_dialect f_keep_order f_sort_values].
    rewrite (l_print_fits st (f_attrs f) D Ha F).
    destruct (f_extra f) as [|e ex] eqn:E; [rewrite app_nil_r; reflexivity|].
    apply join_nested; discriminate.
  Qed.

  Lemma sequence_map_ok {A B} (g : A -> result B) (h : A -> B) : forall l, (forall x, In x l -> g x = Ok (h x)) ->
    sequence (map g l) = Ok (map h l).
  Proof.
    induction l as [|x l IH]; intros H; [reflexivity|]. cbn [map sequence]. rewrite (H x) by (left; reflexivity).
    rewrite IH by (intros y Hy; apply H; right; exact Hy). reflexivity.
  Qed.

  (* the vote sees every inspected line exactly as C07 says *)
  Lemma line_voter_rendered st f : wf_feature st f = true -> canonical st f ->
    line_voter_of isw (render_line st f) = Ok (mkVoter (map fst (f_attrs f)) (canon_dialect st (f_attrs f))).
  Proof.
    intros Hwf Hcan. unfold line_voter_of.
    pose proof (wf_feature_spec st f Hwf) as [_ [_ [_ [_ [_ [_ [_ [_ [Hko Hsv]]]]]]]]].
    assert (E : feature_from_line isw (render_line st f) None false = Ok (with_dialect f (f_dialect f) false false)).
    { pose proof (fields_clean st f Hwf) as Hclean.
      pose proof (wf_feature_spec st f Hwf) as [_ [_ [_ [_ [_ [_ [Ha _]]]]]]].
      unfold feature_from_line, render_line. rewrite rstrip_nl_clean.
      2:{ intros c Hin. apply In_join in Hin as [Hin|[fld [Hf Hc]]].
          - destruct Hin as [Hin|[]]. subst c. split; discriminate.
          - pose proof (Hclean fld c Hf Hc) as Hn. unfold ctl in Hn. split; intros E; apply Hn; auto. }
      assert (Hsplit : split [TAB] (join [TAB] (render_fields st f)) = render_fields st f).
      { apply (split_join [] [] TAB (@in_nil N TAB)); [unfold render_fields; discriminate|].
        intros fld Hf Hc. apply (Hclean fld TAB Hf Hc). left. reflexivity. }
      rewrite Hsplit. unfold render_fields, feature_of_fields. cbn [app nth_str nth skipn].
      rewrite (l_parse_attrs isw Hw Heq Hsp st (f_attrs f) Ha). rewrite !coord_roundtrip. rewrite Hcan. reflexivity. }
    rewrite E. cbn [with_dialect f_attrs f_dialect]. rewrite Hcan. reflexivity.
  Qed.

  Lemma In_firstn {A} (x : A) : forall n l, In x (firstn n l) -> In x l.
  Proof.
    induction n as [|n IH]; intros l H; [destruct H|]. destruct l as [|y l]; [destruct H|]. simpl in H.
    destruct H as [H|H]; [left; exact H|right; apply IH; exact H].
  Qed.

  Definition window_voters (st : style) (n : nat) (fs : list feature) : list voter :=
    map (fun f => mkVoter (map fst (f_attrs f)) (canon_dialect st (f_attrs f))) (firstn (S n) fs).

  Definition chosen (st : style) (cfg : icfg) (fs : list feature) : dialect :=
    match c_supplied cfg with Some D => D | None => choose_dialect (window_voters st (c_checklines cfg) fs) end.

  Lemma file_dialect_rendered st cfg fs : (forall f, In f fs -> wf_feature st f = true /\ canonical st f) ->
    file_dialect isw cfg (map (render_line st) fs) = Ok (chosen st cfg fs).
  Proof.
    intros Hall. unfold file_dialect, chosen. destruct (c_supplied cfg); [reflexivity|].
    rewrite firstn_map, map_map.
    rewrite (sequence_map_ok _ (fun f => mkVoter (map fst (f_attrs f)) (canon_dialect st (f_attrs f)))); [reflexivity|].
    intros f Hf. apply In_firstn in Hf. destruct (Hall f Hf) as [A B]. apply line_voter_rendered; assumption.
  Qed.

  (* IMPORT FIDELITY: every line of a file written in one style is stored once, in order, with its
     columns, attributes and extras; with keep_order it prints back byte for byte *)
  Theorem l_import_fidelity st cfg fs :
    (forall f, In f fs -> wf_feature st f = true /\ canonical st f) ->
    (forall f, In f fs -> fits_spec st (f_attrs f) (chosen st cfg fs)) ->
    import_model isw cfg (map (render_line st) fs)
      = Ok (chosen st cfg fs, map (fun f => with_dialect f (chosen st cfg fs) (c_keep_order cfg) (c_sort_values cfg)) fs).
  Proof.
    intros Hall Hfits. unfold import_model. rewrite (file_dialect_rendered st cfg fs Hall). set (D := chosen st cfg fs) in *.
    rewrite map_map.
    rewrite (sequence_map_ok _ (fun f => with_dialect f D false false)).
    - rewrite map_map. reflexivity.
    - intros f Hf. apply l_parse_line_with; [apply Hall; exact Hf|apply Hfits; exact Hf].
  Qed.

  Theorem l_import_prints_back st cfg fs :
    (forall f, In f fs -> wf_feature st f = true /\ canonical st f) ->
    (forall f, In f fs -> fits_spec st (f_attrs f) (chosen st cfg fs)) ->
    c_keep_order cfg = true -> c_sort_values cfg = false ->
    forall D stored, import_model isw cfg (map (render_line st) fs) = Ok (D, stored) ->
    printed to_quote stored = map (render_line st) fs.
  Proof.
    intros Hall Hfits Hko Hsv D stored H. rewrite (l_import_fidelity st cfg fs Hall Hfits) in H. inversion H; subst.
    unfold printed. rewrite map_map. apply map_ext_in. intros f Hf. rewrite Hko, Hsv.
    apply (l_print_line_with st f); [apply Hall; exact Hf|apply Hfits; exact Hf].
  Qed.

  (* re-importing the printed features gives the same content *)
  Theorem l_reimport st cfg fs :
    (forall f, In f fs -> wf_feature st f = true /\ canonical st f) ->
    (forall f, In f fs -> fits_spec st (f_attrs f) (chosen st cfg fs)) ->
    c_keep_order cfg = true -> c_sort_values cfg = false ->
    forall D stored, import_model isw cfg (map (render_line st) fs) = Ok (D, stored) ->
    import_model isw cfg (printed to_quote stored) = Ok (D, stored).
  Proof.
    intros Hall Hfits Hko Hsv D stored H.
    rewrite (l_import_prints_back st cfg fs Hall Hfits Hko Hsv D stored H). exact H.
  Qed.
End FileProofs.
