(* Proofs/C15Proofs.v — interfeatures yields exactly one feature per consecutive same-seqid pair
   with at least one base between, with the stated geometry, type, strand and attributes;
   splice sites are the two-base ends of those gaps. *)
From GV Require Import Base.Prelude Base.PyStr Model.Bins Model.DB Model.Parser Model.Query Model.Import Model.Attrs Model.Inter.
From Coq Require Import ZifyBool.
Open Scope Z_scope.

(* what the property says about the feature [o] built for the consecutive pair (a, b) *)
Definition id_joined (a : attrs) : attrs :=
  match dget IDk a with Some ((_ :: _ :: _) as ids) => dset IDk [join [DASH] ids] a | _ => a end.

Definition gap_spec (c : icfg) (ab : row * row) (o : row) : Prop :=
  let '(a, b) := ab in
  exists e s, r_end a = Some e /\ r_start b = Some s /\
    r_start o = Some (e + 1) /\ r_end o = Some (s - 1) /\ r_seqid o = r_seqid a /\
    r_ftype o = (match ic_newft c with Some t => t | None => INTER ++ r_ftype a ++ [USC] ++ r_ftype b end) /\
    r_strand o = (if str_eqb (r_strand a) (r_strand b) then r_strand b else [46%N]) /\
    r_source o = DERIVED /\ r_bin o = feature_bin (Some (e + 1)) (Some (s - 1)) /\
    exists m, (if ic_merge c then merge_attributes (ic_numeric c) (r_attrs a) (r_attrs b) else Ok []) = Ok m /\
              r_attrs o = id_joined (fold_left (fun d kv => dset (fst kv) (snd kv) d) (ic_update c) m).

Lemma str_eqb_sym a b : str_eqb a b = str_eqb b a.
Proof.
  destruct (str_eqb a b) eqn:E; symmetry.
  - apply str_eqb_eq in E. subst. apply str_eqb_refl.
  - apply str_eqb_neq. apply str_eqb_neq in E. congruence.
Qed.

Lemma gap_feature_some c first last f g : gap_feature c first last f = Ok (Some g) -> r_seqid first = r_seqid last ->
  gap_spec c (last, f) g /\ exists e s, r_end last = Some e /\ r_start f = Some s /\ (1 <? s - e) = true.
Proof.
  unfold gap_feature, gap_spec. intros H Hs.
  destruct (r_end last) as [le|]; [|discriminate]. destruct (r_start f) as [fs|]; [|discriminate].
  destruct (fs - 1 <? le + 1) eqn:E; [discriminate|].
  destruct (if ic_merge c then merge_attributes (ic_numeric c) (r_attrs last) (r_attrs f) else Ok []) as [m|e] eqn:M; [|discriminate].
  inversion H; subst g; clear H. split.
  - exists le, fs. cbn. repeat split; try reflexivity; try assumption.
    exists m. split; [reflexivity|]. unfold id_joined. reflexivity.
  - exists le, fs. repeat split; try reflexivity. lia.
Qed.

Lemma gap_feature_none c first last f : gap_feature c first last f = Ok None ->
  exists e s, r_end last = Some e /\ r_start f = Some s /\ (1 <? s - e) = false.
Proof.
  unfold gap_feature. destruct (r_end last) as [le|]; [|discriminate]. destruct (r_start f) as [fs|]; [|discriminate].
  destruct (fs - 1 <? le + 1) eqn:E.
  - intros _. exists le, fs. repeat split; try reflexivity. lia.
  - destruct (if ic_merge c then _ else _); discriminate.
Qed.

Lemma inter_go_exact c : forall fs first last out, r_seqid first = r_seqid last ->
  inter_go c first last fs = Ok out -> Forall2 (gap_spec c) (gaps (last :: fs)) out.
Proof.
  induction fs as [|f fs IH]; intros first last out Hs H.
  - cbn in H. inversion H. constructor.
  - cbn [inter_go] in H. cbn [gaps]. rewrite (str_eqb_sym (r_seqid last) (r_seqid f)).
    destruct (str_eqb (r_seqid f) (r_seqid last)) eqn:Es; cbn [negb andb] in *.
    + destruct (gap_feature c first last f) as [[g|]|e] eqn:G; try discriminate.
      * destruct (inter_go c first f fs) as [l|e] eqn:R; [|discriminate]. inversion H; subst out.
        destruct (gap_feature_some c first last f g G Hs) as [Sp [e [s [A [B C]]]]]. rewrite A, B, C. cbn [app].
        constructor; [exact Sp|]. apply (IH first f l); [|exact R].
        apply str_eqb_eq in Es. congruence.
      * destruct (inter_go c first f fs) as [l|e] eqn:R; [|discriminate]. inversion H; subst out.
        destruct (gap_feature_none c first last f G) as [e [s [A [B C]]]]. rewrite A, B, C. cbn [app].
        apply (IH first f l); [|exact R]. apply str_eqb_eq in Es. congruence.
    + cbn [app]. apply (IH f f out); [reflexivity|exact H].
Qed.

(* interfeatures = exactly the gaps, in order, each built as the property says *)
Theorem l_inter_exact c fs out : interfeatures c fs = Ok out -> Forall2 (gap_spec c) (gaps fs) out.
Proof.
  destruct fs as [|f fs]; cbn [interfeatures].
  - intros H. inversion H. constructor.
  - apply inter_go_exact. reflexivity.
Qed.

(* the gaps: a consecutive pair counts exactly when both sit on one seqid and at least one base
   lies between (previous.end + 1 <= next.start - 1); touching, overlapping or nested pairs and
   pairs across a change of seqid give nothing *)
Theorem l_gaps_unfold a b l : gaps (a :: b :: l) =
  (if str_eqb (r_seqid a) (r_seqid b) && match r_end a, r_start b with Some e, Some s => e + 1 <=? s - 1 | _, _ => false end
   then [(a, b)] else []) ++ gaps (b :: l).
Proof.
  cbn [gaps]. destruct (r_end a) as [e|]; destruct (r_start b) as [s|]; try reflexivity.
  replace (e + 1 <=? s - 1) with (1 <? s - e) by lia. reflexivity.
Qed.

Lemma gaps_length : forall fs, (length (gaps fs) <= Nat.pred (length fs))%nat.
Proof.
  induction fs as [|a fs IH]; [simpl; lia|]. destruct fs as [|b fs]; [simpl; lia|].
  rewrite l_gaps_unfold, app_length. change (Nat.pred (length (a :: b :: fs))) with (S (length fs)).
  change (Nat.pred (length (b :: fs))) with (length fs) in IH.
  destruct (str_eqb (r_seqid a) (r_seqid b) && _); cbn [length]; lia.
Qed.

Lemma Forall2_len {A B} (R : A -> B -> Prop) l1 l2 : Forall2 R l1 l2 -> length l1 = length l2.
Proof. induction 1; simpl; congruence. Qed.

(* N features give at most N-1 interfeatures *)
Theorem l_count_le c fs out : interfeatures c fs = Ok out -> (length out <= Nat.pred (length fs))%nat.
Proof.
  intros H. apply l_inter_exact in H. apply Forall2_len in H. rewrite <- H. apply gaps_length.
Qed.

(* ---------- splice sites ---------- *)
Theorem l_site_labels :
  site_type true PLUSs = FIVE /\ site_type false PLUSs = THREE /\
  site_type true MINUSs = THREE /\ site_type false MINUSs = FIVE /\
  (forall s, s <> PLUSs -> s <> MINUSs -> site_type true s = SPLICE /\ site_type false s = SPLICE).
Proof.
  repeat split; try reflexivity; unfold site_type;
    assert (A : str_eqb s PLUSs = false) by (apply str_eqb_neq; assumption);
    assert (B : str_eqb s MINUSs = false) by (apply str_eqb_neq; assumption); rewrite A, B; reflexivity.
Qed.

Definition site_of (left : bool) (ft : str) (i s : row) : Prop :=
  exists si ei id0 rest, r_start i = Some si /\ r_end i = Some ei /\ dget IDk (r_attrs i) = Some (id0 :: rest) /\
    r_start s = Some (if left then si else ei - 1) /\ r_end s = Some (if left then si + 1 else ei) /\
    r_ftype s = r_ftype i /\ r_seqid s = r_seqid i /\ r_strand s = r_strand i /\
    r_attrs s = dset IDk [ft ++ [USC] ++ id0] (r_attrs i) /\
    r_bin s = feature_bin (r_start s) (r_end s).      (* the bin of the two-base site, not of the intron it was cut from *)

Theorem l_splice_sites left tstrand merge numeric exons sites :
  splice_side left tstrand merge numeric exons = Ok sites ->
  exists introns, interfeatures (mkICfg (Some (site_type left tstrand)) merge numeric []) exons = Ok introns /\
                  Forall2 (site_of left (site_type left tstrand)) introns sites.
Proof.
  unfold splice_side. destruct (interfeatures _ exons) as [introns|e]; [|discriminate].
  intros H. exists introns. split; [reflexivity|]. revert sites H.
  induction introns as [|i introns IH]; intros sites H.
  - cbn in H. inversion H. constructor.
  - cbn [fold_right] in H.
    destruct (fold_right _ (Ok []) introns) as [l|e] eqn:R; [|discriminate].
    destruct (dget IDk (r_attrs i)) as [[|id0 rest]|] eqn:D; try discriminate.
    destruct (r_start i) as [si|] eqn:S; [|discriminate]. destruct (r_end i) as [ei|] eqn:E; [|discriminate].
    destruct left; inversion H; subst sites; (constructor; [|apply IH; reflexivity]);
      exists si, ei, id0, rest; cbn; repeat split; auto.
Qed.
