(* Proofs/C07Parse.v — the inference path of the parser inverts the writer's rendering:
   split_infer (render_attrs st a) = (a, canon_dialect st a) for every style and every
   well-formed attribute list (all sizes, all unicode values). *)
From GV Require Import Base.Prelude Base.PyStr Base.Utf8 Base.WordTable Model.DB Model.Parser Model.Grammar
  Proofs.SplitJoin Proofs.StrLemmas Proofs.C08Proofs Proofs.C08Round.
Open Scope N_scope.

(* ---------- rendered values and parts ---------- *)
Definition rvals (kv : kvstyle) (vs : list str) : list str :=
  match kv with KvEq => map (quote to_quote) vs | _ => vs end.
Definition ritems (kv : kvstyle) (items : attrs) : attrs := map (fun it => (fst it, rvals kv (snd it))) items.

Definition is_spq (kv : kvstyle) : bool := match kv with KvSpaceQuoted => true | _ => false end.

Definition vstring (kv : kvstyle) (rvs : list str) : str :=
  if is_spq kv then DQ :: join [COMMA] rvs ++ [DQ] else join [COMMA] rvs.

Definition kvchar (kv : kvstyle) : N := match kv with KvEq => EQ | _ => SP end.

Definition part (kv : kvstyle) (it : str * list str) : str :=
  match kv, snd it with
  | KvSpaceQuoted, _ => fst it ++ SP :: vstring kv (snd it)
  | _, [] => fst it
  | _, _ => fst it ++ kvchar kv :: vstring kv (snd it)
  end.

Lemma render_item_part st it : render_item st it = part (st_kv st) (fst it, rvals (st_kv st) (snd it)).
Proof.
  destruct it as [k vs]. unfold render_item, part, vstring, rvals. cbn [fst snd].
  destruct (st_kv st); cbn [is_spq kvchar].
  - destruct vs; reflexivity.
  - reflexivity.
  - destruct vs; reflexivity.
Qed.

Lemma ritems_expand kv a : ritems kv (expand_repeated a) = expand_repeated (ritems kv a).
Proof.
  unfold ritems, expand_repeated. induction a as [|[k vs] a IH]; [reflexivity|].
  cbn [flat_map map fst snd]. rewrite map_app. rewrite IH. f_equal.
  destruct vs as [|v1 [|v2 vs]].
  - destruct kv; reflexivity.
  - destruct kv; reflexivity.
  - destruct kv; cbn [rvals map]; rewrite ?map_map; reflexivity.
Qed.

Lemma ritems_keys kv a : map fst (ritems kv a) = map fst a.
Proof. unfold ritems. rewrite map_map. reflexivity. Qed.

(* ---------- conditions on a rendered item ---------- *)
Definition rv_ok (v : str) : Prop :=
  v <> [] /\ ~ In COMMA v /\ ~ In SEMI v /\ is_space (hd 0 v) = false /\ is_space (last v 0) = false.

Definition word_key (k : str) : Prop := k <> [] /\ forall c, In c k -> ascii_word c = true.

Definition it_ok (kv : kvstyle) (it : str * list str) : Prop :=
  word_key (fst it) /\ (forall v, In v (snd it) -> rv_ok v) /\
  (is_spq kv = false -> strip_quotes (join [COMMA] (snd it)) = None).

Lemma ascii_word_not c : ascii_word c = true -> c <> SEMI /\ c <> SP /\ c <> EQ /\ c <> COMMA /\ c <> DQ /\ is_space c = false.
Proof.
  unfold ascii_word. intros H.
  assert (Hc : (48 <= c <= 57 \/ 65 <= c <= 90 \/ c = 95 \/ 97 <= c <= 122)%N).
  { repeat (apply orb_prop in H as [H|H]); try (apply andb_prop in H as [H1 H2]; apply N.leb_le in H1; apply N.leb_le in H2);
      try apply N.eqb_eq in H; lia. }
  unfold SEMI, SP, EQ, COMMA, DQ. repeat split; try lia.
  apply space_range. lia.
Qed.

Lemma word_key_free k c : word_key k -> In c [SEMI; SP; EQ; COMMA; DQ] -> ~ In c k.
Proof.
  intros [_ Hk] Hc Hin. destruct (ascii_word_not c (Hk c Hin)) as [A [B [C [D [E _]]]]].
  simpl in Hc. intuition.
Qed.

Lemma word_key_hd k : word_key k -> ascii_word (hd 0 k) = true.
Proof. intros [Hne Hk]. destruct k; [congruence|]. apply Hk. left. reflexivity. Qed.

Lemma word_key_last k : word_key k -> ascii_word (last k 0) = true.
Proof. intros [Hne Hk]. apply Hk. apply last_In. exact Hne. Qed.

(* join of ok values *)
Lemma join_rv_nonempty rvs : rvs <> [] -> (forall v, In v rvs -> rv_ok v) -> join [COMMA] rvs <> [].
Proof.
  intros Hne Hv. destruct rvs as [|v rvs]; [congruence|]. apply join_nonempty. apply (Hv v). left. reflexivity.
Qed.

Lemma join_rv_no_semi rvs : (forall v, In v rvs -> rv_ok v) -> ~ In SEMI (join [COMMA] rvs).
Proof.
  intros Hv Hin. apply In_join in Hin as [Hin|[p [Hp Hc]]].
  - destruct Hin as [Hin|[]]. discriminate.
  - destruct (Hv p Hp) as [_ [_ [H _]]]. contradiction.
Qed.

Lemma join_hd sep : forall p ps d, p <> [] -> hd d (join sep (p :: ps)) = hd d p.
Proof. intros p ps d Hp. destruct ps; [reflexivity|]. rewrite join_cons by discriminate. apply hd_app_ne. exact Hp. Qed.

Lemma join_last sep : forall ps d, ps <> [] -> (forall p, In p ps -> p <> []) -> last (join sep ps) d = last (last ps []) d.
Proof.
  induction ps as [|p ps IH]; intros d Hne Hp; [congruence|]. destruct ps as [|p2 ps]; [reflexivity|].
  rewrite join_cons by discriminate.
  assert (J : join sep (p2 :: ps) <> []) by (apply join_nonempty; apply Hp; right; left; reflexivity).
  rewrite app_assoc. rewrite last_app_ne by exact J. rewrite IH; [reflexivity|discriminate|].
  intros q Hq. apply Hp. right. exact Hq.
Qed.

Lemma join_rv_last rvs : rvs <> [] -> (forall v, In v rvs -> rv_ok v) -> is_space (last (join [COMMA] rvs) 0) = false.
Proof.
  intros Hne Hv. rewrite join_last; [|exact Hne|intros p Hp; apply (Hv p Hp)].
  apply (Hv (last rvs [])). apply last_In. exact Hne.
Qed.

(* ---------- a part: characters, first, last ---------- *)
Lemma part_nonempty kv it : it_ok kv it -> part kv it <> [].
Proof.
  intros [[Hne _] _]. unfold part. destruct kv, (snd it); try exact Hne; destruct (fst it); try congruence; discriminate.
Qed.

Lemma part_no_semi kv it : it_ok kv it -> ~ In SEMI (part kv it).
Proof.
  intros [Hk [Hv _]] Hin.
  assert (K : ~ In SEMI (fst it)) by (apply word_key_free; [exact Hk|left; reflexivity]).
  assert (J : ~ In SEMI (join [COMMA] (snd it))) by (apply join_rv_no_semi; exact Hv).
  unfold part, vstring in Hin. destruct kv; cbn [is_spq kvchar] in Hin.
  - destruct (snd it) eqn:E; [contradiction|]. apply in_app_or in Hin as [Hin|[Hin|Hin]]; [contradiction|discriminate|contradiction].
  - apply in_app_or in Hin as [Hin|[Hin|[Hin|Hin]]]; [contradiction|discriminate|discriminate|].
    apply in_app_or in Hin as [Hin|[Hin|[]]]; [contradiction|discriminate].
  - destruct (snd it) eqn:E; [contradiction|]. apply in_app_or in Hin as [Hin|[Hin|Hin]]; [contradiction|discriminate|contradiction].
Qed.

Lemma part_hd kv it : it_ok kv it -> ascii_word (hd 0 (part kv it)) = true.
Proof.
  intros [Hk _]. pose proof (word_key_hd _ Hk) as H. destruct Hk as [Hne _].
  unfold part. destruct kv, (snd it); try exact H; rewrite hd_app_ne by exact Hne; exact H.
Qed.

Lemma part_last kv it : it_ok kv it -> is_space (last (part kv it) 0) = false.
Proof.
  intros [Hk [Hv _]].
  assert (K : is_space (last (fst it) 0) = false) by (apply ascii_word_not; apply word_key_last; exact Hk).
  unfold part, vstring. destruct kv; cbn [is_spq kvchar].
  - destruct (snd it) as [|v vs] eqn:E; [exact K|]. rewrite <- E in *.
    assert (J : join [COMMA] (snd it) <> []) by (apply join_rv_nonempty; [rewrite E; discriminate|exact Hv]).
    change (fst it ++ EQ :: join [COMMA] (snd it)) with (fst it ++ [EQ] ++ join [COMMA] (snd it)).
    rewrite app_assoc. rewrite last_app_ne by exact J. apply join_rv_last; [rewrite E; discriminate|exact Hv].
  - change (fst it ++ SP :: DQ :: join [COMMA] (snd it) ++ [DQ]) with (fst it ++ (SP :: DQ :: join [COMMA] (snd it)) ++ [DQ]).
    rewrite app_assoc. rewrite last_last. reflexivity.
  - destruct (snd it) as [|v vs] eqn:E; [exact K|]. rewrite <- E in *.
    assert (J : join [COMMA] (snd it) <> []) by (apply join_rv_nonempty; [rewrite E; discriminate|exact Hv]).
    change (fst it ++ SP :: join [COMMA] (snd it)) with (fst it ++ [SP] ++ join [COMMA] (snd it)).
    rewrite app_assoc. rewrite last_app_ne by exact J. apply join_rv_last; [rewrite E; discriminate|exact Hv].
Qed.

(* ---------- choosing the field separator ---------- *)
Definition parts_ok (ps : list str) : Prop :=
  forall p, In p ps -> p <> [] /\ ~ In SEMI p /\ hd 0 p <> SP /\ last p 0 <> SP /\ hd 0 p <> SEMI.

Lemma bigram_join_false a b sep : forall ps,
  (forall p, In p ps -> p <> [] /\ bigram a b p = false /\ (last p 0 =? a) && (hd 0 sep =? b) = false
                        /\ (last sep 0 =? a) && (hd 0 p =? b) = false) ->
  sep <> [] -> bigram a b sep = false ->
  bigram a b (join sep ps) = false.
Proof.
  intros ps Hp Hsep Hbs. induction ps as [|p ps IH]; [reflexivity|]. destruct ps as [|p2 ps].
  - simpl. apply (Hp p). left. reflexivity.
  - rewrite join_cons by discriminate.
    assert (IH' : bigram a b (join sep (p2 :: ps)) = false) by (apply IH; intros q Hq; apply Hp; right; exact Hq).
    destruct (Hp p (or_introl eq_refl)) as [Hne [Hb [Hl _]]].
    destruct (Hp p2 (or_intror (or_introl eq_refl))) as [Hne2 [_ [_ Hh2]]].
    rewrite bigram_app. rewrite Hb. cbn [orb].
    rewrite bigram_app. rewrite Hbs, IH'. cbn [orb].
    assert (E1 : match sep with [] => false | _ :: _ => last sep 0 =? a end = (last sep 0 =? a)) by (destruct sep; [congruence|reflexivity]).
    assert (E2 : match join sep (p2 :: ps) with [] => false | d :: _ => d =? b end = (hd 0 p2 =? b)).
    { rewrite <- (join_hd sep p2 ps 0 Hne2). destruct (join sep (p2 :: ps)) eqn:E; [|reflexivity].
      exfalso. revert E. apply join_nonempty. exact Hne2. }
    rewrite E1, E2, Hh2. cbn [orb].
    assert (E3 : match p with [] => false | _ :: _ => last p 0 =? a end = (last p 0 =? a)) by (destruct p; [congruence|reflexivity]).
    assert (E4 : match sep ++ join sep (p2 :: ps) with [] => false | d :: _ => d =? b end = (hd 0 sep =? b)).
    { destruct sep; [congruence|reflexivity]. }
    rewrite E3, E4. exact Hl.
Qed.

Lemma neqb_false a b : a <> b -> (a =? b) = false.
Proof. apply N.eqb_neq. Qed.

(* [SP;SEMI] does not occur in a ";" or "; " join of ok parts; [SEMI;SP] does not occur in a ";" join *)
Lemma no_sp_semi_join sep ps : parts_ok ps -> sep = [SEMI] \/ sep = [SEMI; SP] ->
  bigram SP SEMI (join sep ps) = false.
Proof.
  intros Hp Hs. apply bigram_join_false.
  - intros p Hin. destruct (Hp p Hin) as [Hne [Hns [Hh [Hl Hh2]]]]. split; [exact Hne|]. split.
    + apply bigram_false_notin_r. exact Hns.
    + split.
      * rewrite (neqb_false _ _ Hl). reflexivity.
      * rewrite (neqb_false _ _ Hh2). apply andb_false_r.
  - destruct Hs; subst; discriminate.
  - destruct Hs; subst; reflexivity.
Qed.

Lemma no_semi_sp_join ps : parts_ok ps -> bigram SEMI SP (join [SEMI] ps) = false.
Proof.
  intros Hp. apply bigram_join_false.
  - intros p Hin. destruct (Hp p Hin) as [Hne [Hns [Hh [Hl Hh2]]]]. split; [exact Hne|]. split.
    + apply bigram_false_notin_l. exact Hns.
    + split.
      * cbn [hd]. change (SEMI =? SP) with false. apply andb_false_r.
      * rewrite (neqb_false _ _ Hh). apply andb_false_r.
  - discriminate.
  - reflexivity.
Qed.

Lemma parts_ok_notin ps : parts_ok ps -> forall p, In p ps -> ~ In SEMI p.
Proof. intros H p Hp. apply (H p Hp). Qed.

Lemma sj_semi l : l <> [] -> (forall p, In p l -> ~ In SEMI p) -> split [SEMI] (join [SEMI] l) = l.
Proof. exact (split_join [] [] SEMI (@in_nil N SEMI) l). Qed.
Lemma sj_semi_sp l : l <> [] -> (forall p, In p l -> ~ In SEMI p) -> split [SEMI; SP] (join [SEMI; SP] l) = l.
Proof. exact (split_join [] [SP] SEMI (@in_nil N SEMI) l). Qed.
Lemma sp_notin_semi : ~ In SEMI [SP].
Proof. intros [A|[]]; discriminate. Qed.
Lemma sj_sp_semi_sp l : l <> [] -> (forall p, In p l -> ~ In SEMI p) -> split [SP; SEMI; SP] (join [SP; SEMI; SP] l) = l.
Proof. exact (split_join [SP] [SP] SEMI sp_notin_semi l). Qed.
Lemma nb_sp_semi s : bigram SP SEMI s = false -> split [SP; SEMI; SP] s = [s].
Proof. exact (split_no_bigram SP SEMI [] [SP] s). Qed.
Lemma nb_semi_sp s : bigram SEMI SP s = false -> split [SEMI; SP] s = [s].
Proof. exact (split_no_bigram SEMI SP [] [] s). Qed.

Lemma choose_sep_multi sep p1 p2 ps : fsep_ok sep = true -> parts_ok (p1 :: p2 :: ps) ->
  choose_sep (join sep (p1 :: p2 :: ps)) = (Some sep, p1 :: p2 :: ps).
Proof.
  intros Hs Hp. set (l := p1 :: p2 :: ps) in *.
  assert (Hl : l <> []) by discriminate.
  pose proof (parts_ok_notin l Hp) as Hn.
  unfold fsep_ok in Hs. apply orb_prop in Hs as [Hs|Hs]; [apply orb_prop in Hs as [Hs|Hs]|]; apply str_eqb_eq in Hs; subst sep.
  - (* ";" *)
    unfold choose_sep.
    rewrite nb_sp_semi by (apply no_sp_semi_join; [exact Hp|left; reflexivity]).
    rewrite nb_semi_sp by (apply no_semi_sp_join; exact Hp).
    rewrite (sj_semi l Hl Hn). reflexivity.
  - (* "; " *)
    unfold choose_sep.
    rewrite nb_sp_semi by (apply no_sp_semi_join; [exact Hp|right; reflexivity]).
    rewrite (sj_semi_sp l Hl Hn). reflexivity.
  - (* " ; " *)
    unfold choose_sep. rewrite (sj_sp_semi_sp l Hl Hn). reflexivity.
Qed.

Lemma choose_sep_single p : ~ In SEMI p -> choose_sep p = (None, [p]).
Proof.
  intros Hp. unfold choose_sep.
  rewrite (split_nosep [SP] [SP] SEMI p Hp : split [SP; SEMI; SP] p = [p]).
  rewrite (split_nosep [] [SP] SEMI p Hp : split [SEMI; SP] p = [p]).
  rewrite (split_nosep [] [] SEMI p Hp : split [SEMI] p = [p]). reflexivity.
Qed.

(* ---------- reading one part back ---------- *)
Definition ext_eq (p : str) : str * str := key_val [EQ] (split [EQ] p).
Definition ext_sp (p : str) : str * str :=
  let p := match p with c :: p' => if c =? SEMI then p' else p | [] => p end in
  let pieces := split [SP] (strip p) in (hd [] pieces, join [SP] (tl pieces)).

Lemma ext_eq_part it : it_ok KvEq it -> ext_eq (part KvEq it) = (fst it, vstring KvEq (snd it)).
Proof.
  intros [Hk _]. unfold ext_eq, part, vstring. cbn [is_spq kvchar].
  assert (K : ~ In EQ (fst it)) by (apply word_key_free; [exact Hk|simpl; auto]).
  destruct (snd it) as [|v vs] eqn:E.
  - rewrite split1_nosep by exact K. reflexivity.
  - apply key_val_part. exact K.
Qed.

Lemma ext_sp_part kv it : kv <> KvEq -> it_ok kv it -> ext_sp (part kv it) = (fst it, vstring kv (snd it)).
Proof.
  intros Hkv Hok. pose proof Hok as [Hk _].
  assert (K : ~ In SP (fst it)) by (apply word_key_free; [exact Hk|simpl; auto]).
  pose proof (part_nonempty kv it Hok) as Hne. pose proof (part_hd kv it Hok) as Hh. pose proof (part_last kv it Hok) as Hl.
  destruct (ascii_word_not _ Hh) as [Hsemi [_ [_ [_ [_ Hsp]]]]].
  unfold ext_sp.
  replace (match part kv it with [] => part kv it | c :: p' => if c =? SEMI then p' else part kv it end) with (part kv it).
  2:{ destruct (part kv it) as [|c p'] eqn:E; [reflexivity|]. cbn [hd] in Hsemi. rewrite (neqb_false _ _ Hsemi). reflexivity. }
  unfold strip. rewrite strip_by_id by assumption.
  assert (G : forall rest, (hd [] (split [SP] (fst it ++ SP :: rest)), join [SP] (tl (split [SP] (fst it ++ SP :: rest)))) = (fst it, rest)).
  { intros rest. rewrite split1_head by exact K. cbn [hd tl]. rewrite join_split1. reflexivity. }
  unfold part, vstring. destruct kv; [congruence| |]; cbn [is_spq kvchar].
  - apply G.
  - destruct (snd it) as [|v vs] eqn:E.
    + rewrite split1_nosep by exact K. reflexivity.
    + apply G.
Qed.

(* ---------- one step of the inference fold ---------- *)
Lemma strip_quotes_vstring kv rvs : (is_spq kv = false -> strip_quotes (join [COMMA] rvs) = None) ->
  match strip_quotes (vstring kv rvs) with Some v => (v, true) | None => (vstring kv rvs, false) end
  = (join [COMMA] rvs, is_spq kv).
Proof.
  intros H. unfold vstring. destruct (is_spq kv).
  - rewrite strip_quotes_quoted. reflexivity.
  - rewrite H by reflexivity. reflexivity.
Qed.

Lemma dset_new k v q : dhas k q = false -> dset k v q = q ++ [(k, v)].
Proof. intros H. rewrite <- (app_nil_r q) at 1. rewrite dset_app_notin by exact H. reflexivity. Qed.

Lemma dappend_last k cur vs q : dhas k q = false -> dappend k vs (q ++ [(k, cur)]) = q ++ [(k, cur ++ vs)].
Proof.
  intros H. unfold dappend. rewrite dget_app_notin by exact H. simpl. rewrite str_eqb_refl.
  rewrite dset_app_notin by exact H. simpl. rewrite str_eqb_refl. reflexivity.
Qed.

Lemma no_leading_space rvs : (forall v, In v rvs -> rv_ok v) ->
  existsb (fun i => match i with c :: _ => c =? SP | [] => false end) rvs = false.
Proof.
  intros Hv. match goal with |- ?X = false => destruct X eqn:E; [|reflexivity] end. apply existsb_exists in E as [v [Hin E]].
  destruct (Hv v Hin) as [Hne [_ [_ [Hh _]]]]. destruct v as [|c v]; [discriminate|]. apply N.eqb_eq in E. subst c.
  cbn [hd] in Hh. discriminate.
Qed.

Lemma split_comma_rvs rvs : rvs <> [] -> (forall v, In v rvs -> rv_ok v) -> split [COMMA] (join [COMMA] rvs) = rvs.
Proof.
  intros Hne Hv. apply (split_join [] [] COMMA (@in_nil N COMMA)); [exact Hne|]. intros p Hp. apply (Hv p Hp).
Qed.

Lemma step_new kv S key rvs : it_ok kv (key, rvs) -> dhas key (i_quals S) = false ->
  (i_repeated S = false \/ (length rvs <= 1)%nat) ->
  infer_step S (key, vstring kv rvs) =
  mkI (i_quals S ++ [(key, rvs)]) (i_repeated S) (i_quoted S || is_spq kv) (i_order S ++ [key]).
Proof.
  intros [Hk [Hv Hq]] Hd Hr. cbn [fst snd] in *.
  unfold infer_step. rewrite Hd. rewrite orb_false_r. rewrite (dset_new key [] _ Hd).
  assert (SQ : match strip_quotes (vstring kv rvs) with Some v => (v, true) | None => (vstring kv rvs, i_quoted S) end
               = (join [COMMA] rvs, i_quoted S || is_spq kv)).
  { unfold vstring. destruct (is_spq kv) eqn:Es.
    - rewrite strip_quotes_quoted. rewrite orb_true_r. reflexivity.
    - rewrite Hq by reflexivity. rewrite orb_false_r. reflexivity. }
  rewrite SQ. destruct rvs as [|v rvs].
  - reflexivity.
  - destruct (join [COMMA] (v :: rvs)) as [|c j] eqn:Ej.
    { exfalso. revert Ej. apply join_rv_nonempty; [discriminate|exact Hv]. }
    rewrite <- Ej. destruct (i_repeated S) eqn:Er.
    + destruct Hr as [Hr|Hr]; [discriminate|]. destruct rvs; [|simpl in Hr; lia].
      cbn [join]. rewrite dappend_last by exact Hd. reflexivity.
    + rewrite split_comma_rvs by (try discriminate; exact Hv). rewrite no_leading_space by exact Hv.
      rewrite dappend_last by exact Hd. reflexivity.
Qed.

Lemma step_old kv S q1 key cur v : i_quals S = q1 ++ [(key, cur)] -> dhas key q1 = false -> it_ok kv (key, [v]) ->
  infer_step S (key, vstring kv [v]) =
  mkI (q1 ++ [(key, cur ++ [v])]) true (i_quoted S || is_spq kv) (i_order S ++ [key]).
Proof.
  intros Eq Hd [Hk [Hv Hq]]. cbn [fst snd] in *. unfold infer_step. rewrite Eq. rewrite dhas_app_single. rewrite orb_true_r.
  assert (SQ : match strip_quotes (vstring kv [v]) with Some x => (x, true) | None => (vstring kv [v], i_quoted S) end
               = (v, i_quoted S || is_spq kv)).
  { unfold vstring. destruct (is_spq kv) eqn:Es.
    - rewrite strip_quotes_quoted. rewrite orb_true_r. reflexivity.
    - cbn [join] in *. rewrite Hq by reflexivity. rewrite orb_false_r. reflexivity. }
  rewrite SQ. destruct (Hv v (or_introl eq_refl)) as [Hne _]. destruct v as [|c v]; [congruence|].
  rewrite dappend_last by exact Hd. reflexivity.
Qed.

(* ---------- the fold over all parts ---------- *)
Definition ext (kv : kvstyle) : str -> str * str := match kv with KvEq => ext_eq | _ => ext_sp end.

Lemma ext_part kv it : it_ok kv it -> ext kv (part kv it) = (fst it, vstring kv (snd it)).
Proof.
  intros H. destruct kv; cbn [ext]; [apply ext_eq_part; exact H|apply ext_sp_part; [discriminate|exact H]..].
Qed.

Definition nonempty_b {A} (l : list A) : bool := match l with [] => false | _ => true end.

Lemma fold_plain kv : forall m S, NoDup (map fst m) -> (forall k, In k (map fst m) -> dhas k (i_quals S) = false) ->
  i_repeated S = false -> (forall it, In it m -> it_ok kv it) ->
  fold_left infer_step (map (ext kv) (map (part kv) m)) S
  = mkI (i_quals S ++ m) false (i_quoted S || (is_spq kv && nonempty_b m)) (i_order S ++ map fst m).
Proof.
  induction m as [|[k vs] m IH]; intros S Hnd Hfresh Hrep Hok.
  - simpl. rewrite andb_false_r, orb_false_r, !app_nil_r. destruct S; simpl in *; subst; reflexivity.
  - inversion Hnd as [|? ? Hk Hnd']; subst. cbn [map fold_left].
    rewrite ext_part by (apply Hok; left; reflexivity). cbn [fst snd].
    rewrite (step_new kv S k vs); [|apply Hok; left; reflexivity|apply Hfresh; left; reflexivity|left; exact Hrep].
    cbn [fst snd]. rewrite IH.
    + cbn [i_quals i_quoted i_order i_repeated]. rewrite <- !app_assoc. cbn [app nonempty_b]. rewrite andb_true_r.
      f_equal. destruct (i_quoted S), (is_spq kv), (nonempty_b m); reflexivity.
    + exact Hnd'.
    + cbn [i_quals]. intros k' Hk'. rewrite dhas_app. rewrite (Hfresh k') by (right; exact Hk'). simpl.
      unfold dhas. simpl. destruct (str_eqb k' k) eqn:E; [|reflexivity]. apply str_eqb_eq in E. subst. contradiction.
    + exact Hrep.
    + intros it Hit. apply Hok. right. exact Hit.
Qed.

Lemma fold_singles kv k : forall vs S q1 cur, i_quals S = q1 ++ [(k, cur)] -> dhas k q1 = false ->
  (forall v, In v vs -> it_ok kv (k, [v])) ->
  fold_left infer_step (map (ext kv) (map (part kv) (map (fun v => (k, [v])) vs))) S
  = mkI (q1 ++ [(k, cur ++ vs)]) (match vs with [] => i_repeated S | _ => true end)
        (i_quoted S || (is_spq kv && nonempty_b vs)) (i_order S ++ map (fun _ => k) vs).
Proof.
  induction vs as [|v vs IH]; intros S q1 cur Eq Hd Hok.
  - simpl. rewrite andb_false_r, orb_false_r, !app_nil_r. destruct S; simpl in *; subst; reflexivity.
  - cbn [map fold_left]. rewrite ext_part by (apply Hok; left; reflexivity). cbn [fst snd].
    rewrite (step_old kv S q1 k cur v Eq Hd) by (apply Hok; left; reflexivity).
    rewrite (IH _ q1 (cur ++ [v])); [|reflexivity|exact Hd|intros v' Hv'; apply Hok; right; exact Hv'].
    cbn [i_quals i_quoted i_order i_repeated nonempty_b]. rewrite <- !app_assoc. cbn [app]. rewrite andb_true_r.
    f_equal; [destruct vs; reflexivity|]. destruct (i_quoted S), (is_spq kv), (nonempty_b vs); reflexivity.
Qed.

Definition multi_b (vs : list str) : bool := match vs with _ :: _ :: _ => true | _ => false end.

Lemma multi_cons k vs m : multi ((k, vs) :: m) = multi_b vs || multi m.
Proof. reflexivity. Qed.

Lemma fold_expanded kv : forall m S, NoDup (map fst m) -> (forall k, In k (map fst m) -> dhas k (i_quals S) = false) ->
  (forall it, In it (expand_repeated m) -> it_ok kv it) ->
  fold_left infer_step (map (ext kv) (map (part kv) (expand_repeated m))) S
  = mkI (i_quals S ++ m) (i_repeated S || multi m) (i_quoted S || (is_spq kv && nonempty_b m))
        (i_order S ++ map fst (expand_repeated m)).
Proof.
  induction m as [|[k vs] m IH]; intros S Hnd Hfresh Hok.
  - simpl. rewrite andb_false_r, !orb_false_r, !app_nil_r. destruct S; reflexivity.
  - inversion Hnd as [|? ? Hk Hnd']; subst.
    assert (Hk0 : dhas k (i_quals S) = false) by (apply Hfresh; left; reflexivity).
    assert (Hrest : forall q', (forall k', In k' (map fst m) -> dhas k' (i_quals S ++ [(k, q')]) = false)).
    { intros q' k' Hk'. rewrite dhas_app. rewrite (Hfresh k') by (right; exact Hk'). simpl.
      unfold dhas. simpl. destruct (str_eqb k' k) eqn:E; [|reflexivity]. apply str_eqb_eq in E. subst. contradiction. }
    unfold expand_repeated in *. cbn [flat_map fst snd] in *. fold (expand_repeated m) in *.
    rewrite !map_app, fold_left_app.
    assert (Hok' : forall it, In it (expand_repeated m) -> it_ok kv it) by (intros it Hit; apply Hok; apply in_or_app; right; exact Hit).
    rewrite multi_cons.
    destruct vs as [|v1 [|v2 vs]].
    + cbn [map fold_left]. rewrite ext_part by (apply Hok; left; reflexivity). cbn [fst snd].
      rewrite (step_new kv S k []); [|apply Hok; left; reflexivity|exact Hk0|right; simpl; lia].
      cbn [fst snd]. rewrite IH; [|exact Hnd'|apply Hrest|exact Hok'].
      cbn [i_quals i_quoted i_order i_repeated multi_b nonempty_b]. rewrite <- !app_assoc. cbn [app orb]. rewrite andb_true_r.
      f_equal. destruct (i_quoted S), (is_spq kv), (nonempty_b m); reflexivity.
    + cbn [map fold_left]. rewrite ext_part by (apply Hok; left; reflexivity). cbn [fst snd].
      rewrite (step_new kv S k [v1]); [|apply Hok; left; reflexivity|exact Hk0|right; simpl; lia].
      cbn [fst snd]. rewrite IH; [|exact Hnd'|apply Hrest|exact Hok'].
      cbn [i_quals i_quoted i_order i_repeated multi_b nonempty_b]. rewrite <- !app_assoc. cbn [app orb]. rewrite andb_true_r.
      f_equal. destruct (i_quoted S), (is_spq kv), (nonempty_b m); reflexivity.
    + change (map (fun v => (k, [v])) (v1 :: v2 :: vs)) with ((k, [v1]) :: map (fun v => (k, [v])) (v2 :: vs)) in *.
      set (T := map (fun v : str => (k, [v])) (v2 :: vs)) in *.
      cbn [map fold_left]. rewrite ext_part by (apply Hok; left; reflexivity). cbn [fst snd].
      rewrite (step_new kv S k [v1]); [|apply Hok; left; reflexivity|exact Hk0|right; simpl; lia].
      subst T.
      rewrite (fold_singles kv k (v2 :: vs) _ (i_quals S) [v1]); [|reflexivity|exact Hk0|].
      2:{ intros v' Hv'. apply Hok. apply in_or_app. left. right. apply (in_map (fun v : str => (k, [v]))). exact Hv'. }
      rewrite IH; [|exact Hnd'|apply Hrest|exact Hok'].
      cbn [i_quals i_quoted i_order i_repeated multi_b nonempty_b]. rewrite <- !app_assoc. cbn [app orb map].
      rewrite andb_true_r, orb_true_r. rewrite map_map. cbn [fst].
      f_equal. destruct (i_quoted S), (is_spq kv), (nonempty_b m); reflexivity.
Qed.
