(* Proofs/C03Ids.v — the ids of the derived rows are pairwise distinct: the pair list is sorted by gene, so each gene
   is written once; transcripts are distinct when every transcript has one gene. *)
From GV Require Import Base.Prelude Base.PyStr Model.Bins Model.DB Model.Parser Model.Import Model.GtfSpec
  Proofs.C03Proofs Proofs.C03End.
Open Scope Z_scope.

(* ---------- str_ltb is a strict total order ---------- *)
Lemma str_ltb_irrefl : forall a, str_ltb a a = false.
Proof. induction a as [|x a IH]; [reflexivity|]. cbn [str_ltb]. rewrite N.ltb_irrefl. exact IH. Qed.

Lemma str_ltb_trans : forall a b c, str_ltb a b = true -> str_ltb b c = true -> str_ltb a c = true.
Proof.
  induction a as [|x a IH]; intros [|y b] [|z c] H1 H2; cbn [str_ltb] in *; try discriminate; try reflexivity.
  destruct (N.ltb_spec x y) as [A|A].
  - destruct (N.ltb_spec y z) as [B|B].
    + replace (x <? z)%N with true by (symmetry; apply N.ltb_lt; lia). reflexivity.
    + destruct (N.ltb_spec z y) as [C|C]; [discriminate|]. assert (y = z) by lia. subst.
      replace (x <? z)%N with true by (symmetry; apply N.ltb_lt; lia). reflexivity.
  - destruct (N.ltb_spec y x) as [A'|A']; [discriminate|]. assert (x = y) by lia. subst.
    destruct (N.ltb_spec y z) as [B|B]; [reflexivity|].
    destruct (N.ltb_spec z y) as [C|C]; [discriminate|]. apply (IH b c); assumption.
Qed.

Lemma str_ltb_total : forall a b, str_ltb a b = false -> str_ltb b a = false -> a = b.
Proof.
  induction a as [|x a IH]; intros [|y b] H1 H2; cbn [str_ltb] in *; try discriminate; try reflexivity.
  destruct (N.ltb_spec x y) as [A|A]; [discriminate|]. destruct (N.ltb_spec y x) as [B|B]; [discriminate|].
  assert (x = y) by lia. subst. f_equal. apply IH; assumption.
Qed.

Definition sle (a b : str) : Prop := str_ltb b a = false.        (* a <= b *)
Lemma sle_refl a : sle a a. Proof. apply str_ltb_irrefl. Qed.
Lemma sle_trans a b c : sle a b -> sle b c -> sle a c.
Proof.
  unfold sle. intros H1 H2. destruct (str_ltb c a) eqn:E; [|reflexivity]. exfalso.
  (* c < a, a <= b, b <= c *)
  destruct (str_ltb a b) eqn:Eab.
  - assert (X : str_ltb c b = true) by (apply (str_ltb_trans c a b); assumption). congruence.
  - assert (a = b) by (apply str_ltb_total; assumption). subst. congruence.
Qed.
Lemma sle_antisym a b : sle a b -> sle b a -> a = b.
Proof. unfold sle. intros H1 H2. apply str_ltb_total; assumption. Qed.

(* ---------- the pair list is sorted by gene ---------- *)
Fixpoint gsorted (l : list str) : Prop :=
  match l with [] => True | x :: r => (forall y, In y r -> sle x y) /\ gsorted r end.

Lemma insert_pair_In x : forall l y, In y (insert_pair x l) <-> y = x \/ In y l.
Proof.
  induction l as [|z l IH]; intros y; cbn [insert_pair].
  - cbn. intuition.
  - destruct (str_ltb (snd x) (snd z)); cbn [In]; [intuition|]. rewrite IH. intuition.
Qed.

Lemma insert_pair_sorted x : forall l, gsorted (map snd l) -> gsorted (map snd (insert_pair x l)).
Proof.
  induction l as [|z l IH]; intros H; cbn [insert_pair map gsorted].
  - split; [intros y []|exact I].
  - cbn [map gsorted] in H. destruct H as [Hz Hs]. destruct (str_ltb (snd x) (snd z)) eqn:E.
    + cbn [map gsorted]. split; [|split; assumption].
      intros y [<-|Hy].
      * unfold sle. destruct (str_ltb (snd z) (snd x)) eqn:E2; [|reflexivity].
        assert (X : str_ltb (snd x) (snd x) = true) by (apply (str_ltb_trans _ (snd z)); assumption).
        rewrite str_ltb_irrefl in X. discriminate.
      * apply (sle_trans _ (snd z)); [|apply Hz; exact Hy].
        unfold sle. destruct (str_ltb (snd z) (snd x)) eqn:E2; [|reflexivity].
        assert (X : str_ltb (snd x) (snd x) = true) by (apply (str_ltb_trans _ (snd z)); assumption).
        rewrite str_ltb_irrefl in X. discriminate.
    + cbn [map gsorted]. split; [|apply IH; exact Hs].
      intros y Hy. apply in_map_iff in Hy as [p [<- Hp]]. apply insert_pair_In in Hp as [->|Hp].
      * exact E.
      * apply Hz. apply in_map. exact Hp.
Qed.

Lemma sort_pairs_sorted : forall l, gsorted (map snd (fold_right insert_pair [] l)).
Proof. induction l as [|x l IH]; [exact I|]. cbn [fold_right]. apply insert_pair_sorted. exact IH. Qed.

Lemma sort_pairs_In : forall l y, In y (fold_right insert_pair [] l) <-> In y l.
Proof.
  induction l as [|x l IH]; intros y; [reflexivity|]. cbn [fold_right In]. rewrite insert_pair_In, IH. intuition.
Qed.

Lemma sort_pairs_nodup : forall l, NoDup l -> NoDup (fold_right insert_pair [] l).
Proof.
  induction l as [|x l IH]; intros H; [constructor|]. inversion H as [|? ? Hni Hnd]; subst. cbn [fold_right].
  specialize (IH Hnd). revert IH. assert (Hx : ~ In x (fold_right insert_pair [] l)) by (rewrite sort_pairs_In; exact Hni).
  revert Hx. generalize (fold_right insert_pair [] l) as m. induction m as [|z m IHm]; intros Hx Hm; cbn [insert_pair].
  - constructor; [intros []|constructor].
  - destruct (str_ltb (snd x) (snd z)).
    + constructor; assumption.
    + inversion Hm as [|? ? Hz Hm']; subst. constructor.
      * rewrite insert_pair_In. intros [->|X]; [apply Hx; left; reflexivity|contradiction].
      * apply IHm; [intros X; apply Hx; right; exact X|exact Hm'].
Qed.

(* ---------- genes written by derive ---------- *)
Fixpoint emitted (last : option str) (gs : list str) : list str :=
  match gs with
  | [] => []
  | gn :: r => (if match last with Some l => str_eqb l gn | None => false end then [] else [gn]) ++ emitted (Some gn) r
  end.

Lemma emitted_sorted : forall gs l, gsorted gs -> (forall y, In y gs -> sle l y) ->
  NoDup (emitted (Some l) gs) /\ forall e, In e (emitted (Some l) gs) -> In e gs /\ e <> l.
Proof.
  induction gs as [|gn r IH]; intros l Hs Hl; cbn [emitted].
  - split; [constructor|intros e []].
  - cbn [gsorted] in Hs. destruct Hs as [Hg Hr]. destruct (IH gn Hr Hg) as [N E].
    destruct (str_eqb l gn) eqn:El.
    + apply str_eqb_eq in El. subst gn. cbn [app]. split; [exact N|].
      intros e He. destruct (E e He) as [A B]. split; [right; exact A|exact B].
    + apply str_eqb_neq in El. cbn [app]. split.
      * constructor; [|exact N]. intros X. destruct (E gn X) as [_ B]. congruence.
      * intros e [<-|He]; [split; [left; reflexivity|congruence]|].
        destruct (E e He) as [A B]. split; [right; exact A|]. intros ->.
        (* e = l would give l in r with gn <= l and l <= gn, so gn = l *)
        apply El. apply sle_antisym; [apply Hl; left; reflexivity|apply Hg; exact A].
Qed.

Lemma emitted_none_sorted gs : gsorted gs -> NoDup (emitted None gs) /\ forall e, In e (emitted None gs) -> In e gs.
Proof.
  destruct gs as [|gn r]; intros H; cbn [emitted]; [split; [constructor|intros e []]|].
  cbn [gsorted] in H. destruct H as [Hg Hr]. destruct (emitted_sorted r gn Hr Hg) as [N E]. cbn [app]. split.
  - constructor; [|exact N]. intros X. destruct (E gn X) as [_ B]. congruence.
  - intros e [<-|He]; [left; reflexivity|right; apply E; exact He].
Qed.

(* ---------- the ids of the derived rows ---------- *)
Section Ids.
  Variables (g : gtfcfg) (st : ist).
  Hypothesis Ne : str_eqb (g_gkey g) (g_tkey g) = false.

  Definition ids_spec (ps : list (str * str)) (last : option str) : list str :=
    (fix go (ps : list (str * str)) (last : option str) : list str :=
       match ps with
       | [] => []
       | (t, gn) :: r =>
           (if g_no_transcripts g then [] else [t]) ++
           (if g_no_genes g then [] else if match last with Some l => str_eqb l gn | None => false end then [] else
            match extent g st gn with Some _ => [gn] | None => [] end) ++
           go r (Some gn)
       end) ps last.

  Lemma derive_ids : forall ps last ds, derive g st ps last = Ok ds -> map (did g) ds = ids_spec ps last.
  Proof.
    induction ps as [|[t gn] ps IH]; intros last ds H.
    - inversion H; subst. reflexivity.
    - apply derive_inv in H as (a & b & c & Ha & Hb & Hc & ->). rewrite !map_app. rewrite (IH _ _ Hc).
      change (ids_spec ((t, gn) :: ps) last) with
        ((if g_no_transcripts g then [] else [t]) ++
         (if g_no_genes g then [] else if match last with Some l => str_eqb l gn | None => false end then [] else
            match extent g st gn with Some _ => [gn] | None => [] end) ++
         ids_spec ps (Some gn)).
      f_equal; [|f_equal].
      + unfold d_tr in Ha. destruct (g_no_transcripts g); [inversion Ha; reflexivity|].
        destruct (extent g st t) as [x|]; [|discriminate]. inversion Ha; subst. cbn [map]. rewrite did_t by exact Ne. reflexivity.
      + unfold d_ge in Hb. destruct (g_no_genes g); [inversion Hb; reflexivity|].
        destruct (match last with Some l => str_eqb l gn | None => false end); [inversion Hb; reflexivity|].
        destruct (extent g st gn) as [x|]; [|inversion Hb; reflexivity]. inversion Hb; subst. cbn [map]. rewrite did_g. reflexivity.
  Qed.

  Lemma ids_spec_In : forall ps last e, In e (ids_spec ps last) ->
    In e (map fst ps) \/ In e (emitted last (map snd ps)).
  Proof.
    induction ps as [|[t gn] ps IH]; intros last e H; [contradiction|].
    change (ids_spec ((t, gn) :: ps) last) with
      ((if g_no_transcripts g then [] else [t]) ++
       (if g_no_genes g then [] else if match last with Some l => str_eqb l gn | None => false end then [] else
            match extent g st gn with Some _ => [gn] | None => [] end) ++
       ids_spec ps (Some gn)) in H.
    cbn [map fst snd emitted]. apply in_app_or in H as [H|H]; [|apply in_app_or in H as [H|H]].
    - destruct (g_no_transcripts g); [contradiction|]. destruct H as [<-|[]]. left. left. reflexivity.
    - destruct (g_no_genes g); [contradiction|]. right. apply in_or_app. left.
      destruct (match last with Some l => str_eqb l gn | None => false end); [contradiction|].
      destruct (extent g st gn); [exact H|contradiction].
    - destruct (IH _ _ H) as [A|A]; [left; right; exact A|right; apply in_or_app; right; exact A].
  Qed.

  Lemma ids_spec_nodup : forall ps last, NoDup (map fst ps) -> NoDup (emitted last (map snd ps)) ->
    (forall t gn, In t (map fst ps) -> In gn (map snd ps) -> t <> gn) -> NoDup (ids_spec ps last).
  Proof.
    induction ps as [|[t gn] ps IH]; intros last Ht Hg Hd; [constructor|].
    change (ids_spec ((t, gn) :: ps) last) with
      ((if g_no_transcripts g then [] else [t]) ++
       (if g_no_genes g then [] else if match last with Some l => str_eqb l gn | None => false end then [] else
            match extent g st gn with Some _ => [gn] | None => [] end) ++
       ids_spec ps (Some gn)).
    cbn [map fst snd emitted] in *. inversion Ht as [|? ? Htn Ht']; subst.
    assert (Hg' : NoDup (emitted (Some gn) (map snd ps))).
    { destruct (match last with Some l => str_eqb l gn | None => false end); cbn [app] in Hg; [exact Hg|inversion Hg; assumption]. }
    assert (Hrest : NoDup (ids_spec ps (Some gn))).
    { apply IH; [exact Ht'|exact Hg'|]. intros t' gn' A B. apply Hd; right; assumption. }
    assert (Emem : forall e, In e (emitted (Some gn) (map snd ps)) -> In e (map snd ps)).
    { clear. generalize (Some gn) as l. induction (map snd ps) as [|x r IHr]; intros l e H; [contradiction|].
      cbn [emitted] in H. apply in_app_or in H as [H|H].
      - destruct (match l with Some l0 => str_eqb l0 x | None => false end); [contradiction|]. destruct H as [<-|[]]. left. reflexivity.
      - right. apply (IHr _ _ H). }
    (* the gene part *)
    assert (Hgene : NoDup ((if g_no_genes g then [] else if match last with Some l => str_eqb l gn | None => false end then [] else
            match extent g st gn with Some _ => [gn] | None => [] end)
                           ++ ids_spec ps (Some gn))).
    { destruct (g_no_genes g); [exact Hrest|].
      destruct (match last with Some l => str_eqb l gn | None => false end) eqn:El; [exact Hrest|].
      destruct (extent g st gn); [|exact Hrest].
      cbn [app]. constructor; [|exact Hrest]. intros X. apply ids_spec_In in X as [X|X].
      - apply (Hd gn gn); [right; exact X|left; reflexivity|reflexivity].
      - cbn [app] in Hg. inversion Hg; contradiction. }
    destruct (g_no_transcripts g); [exact Hgene|]. cbn [app]. constructor; [|exact Hgene].
    intros X. apply in_app_or in X as [X|X].
    - destruct (g_no_genes g); [contradiction|].
      destruct (match last with Some l => str_eqb l gn | None => false end); [contradiction|].
      destruct (extent g st gn); [|contradiction]. destruct X as [<-|[]].
      apply (Hd gn gn); [left; reflexivity|left; reflexivity|reflexivity].
    - apply ids_spec_In in X as [X|X]; [contradiction|].
      apply (Hd t t); [left; reflexivity|right; apply Emem; exact X|reflexivity].
  Qed.
End Ids.

(* the pair list of the importer: sorted by gene, no repeated pair *)
Lemma dedup_pairs_In : forall l x, In x (dedup_pairs l) <-> In x l.
Proof.
  induction l as [|y l IH]; intros x; [reflexivity|]. cbn [dedup_pairs].
  destruct (existsb (pair_eqb2 y) l) eqn:E.
  - rewrite IH. split; [intros H; right; exact H|]. intros [<-|H]; [|exact H].
    apply existsb_exists in E as [z [Hz Ez]]. unfold pair_eqb2 in Ez. apply andb_prop in Ez as [A B].
    apply str_eqb_eq in A. apply str_eqb_eq in B. destruct y, z. cbn in *. subst. exact Hz.
  - cbn [In]. rewrite IH. reflexivity.
Qed.

Theorem l_tg_pairs_sorted g st : gsorted (map snd (tg_pairs g st)).
Proof. unfold tg_pairs. apply sort_pairs_sorted. Qed.

(* every transcript has one gene + transcript ids differ from gene ids  ==>  the derived ids are pairwise distinct *)
Theorem l_derived_ids_nodup g st ds : str_eqb (g_gkey g) (g_tkey g) = false ->
  derive g st (tg_pairs g st) None = Ok ds ->
  NoDup (map fst (tg_pairs g st)) ->
  (forall t gn, In t (map fst (tg_pairs g st)) -> In gn (map snd (tg_pairs g st)) -> t <> gn) ->
  NoDup (map (did g) ds).
Proof.
  intros Ne Hd Ht Hdis. rewrite (derive_ids g st Ne _ _ _ Hd). apply ids_spec_nodup; [exact Ht| |exact Hdis].
  apply emitted_none_sorted. apply l_tg_pairs_sorted.
Qed.
