(* Proofs/IntStr.v — str(int) / int(str) on canonical decimals: round trip, digits only. *)
From GV Require Import Base.Prelude Base.PyStr.
From Coq Require Import ZifyBool ZifyN ZifyNat.
Ltac Zify.zify_post_hook ::= Z.to_euclidean_division_equations.
Open Scope Z_scope.

Definition all_digits (s : str) : Prop := forall c, In c s -> is_digit c = true.

Lemma digit_char n : 0 <= n < 10 -> is_digit (Z.to_N n + 48)%N = true /\ Z.of_N ((Z.to_N n + 48) - 48)%N = n.
Proof. intros H. unfold is_digit. split; lia. Qed.

Lemma digits_val_app : forall s t a, digits_val (s ++ t) a =
  match digits_val s a with Some v => digits_val t v | None => None end.
Proof.
  induction s as [|c s IH]; intros t a; simpl; [reflexivity|].
  destruct (is_digit c); [apply IH|reflexivity].
Qed.

Lemma pos_digits_S f n acc : pos_digits (S f) n acc =
  if n <? 10 then (Z.to_N (n mod 10) + 48)%N :: acc else pos_digits f (n / 10) ((Z.to_N (n mod 10) + 48)%N :: acc).
Proof. reflexivity. Qed.

(* the digits produced for n, in front of [rest] *)
Lemma pos_digits_spec : forall f n rest, 0 <= n < 2 * 2 ^ Z.of_nat f ->
  exists ds, pos_digits (S f) n rest = ds ++ rest /\ ds <> [] /\ all_digits ds /\
             forall a, digits_val ds a = Some (a * 10 ^ Z.of_nat (length ds) + n).
Proof.
  induction f as [|f IH]; intros n rest Hn.
  - (* n < 2 *) rewrite pos_digits_S. assert (L : (n <? 10) = true) by (simpl in Hn; lia). rewrite L.
    exists [(Z.to_N (n mod 10) + 48)%N]. split; [reflexivity|]. split; [discriminate|].
    assert (Hm : n mod 10 = n) by (simpl in Hn; lia).
    destruct (digit_char (n mod 10)) as [D1 D2]; [lia|]. split.
    + intros c [E|[]]. subst c. exact D1.
    + intros a. cbn [digits_val length]. rewrite D1, D2. f_equal. change (10 ^ Z.of_nat 1) with 10. lia.
  - rewrite pos_digits_S. destruct (n <? 10) eqn:L.
    + exists [(Z.to_N (n mod 10) + 48)%N]. split; [reflexivity|]. split; [discriminate|].
      assert (Hm : n mod 10 = n) by lia.
      destruct (digit_char (n mod 10)) as [D1 D2]; [lia|]. split.
      * intros c [E|[]]. subst c. exact D1.
      * intros a. cbn [digits_val length]. rewrite D1, D2. f_equal. change (10 ^ Z.of_nat 1) with 10. lia.
    + assert (Hq : 0 <= n / 10 < 2 * 2 ^ Z.of_nat f).
      { rewrite Nat2Z.inj_succ, Z.pow_succ_r in Hn by lia.
        assert (0 < 2 ^ Z.of_nat f) by (apply Z.pow_pos_nonneg; lia). lia. }
      destruct (IH (n / 10) ((Z.to_N (n mod 10) + 48)%N :: rest) Hq) as [ds [E [Hne [Hd Hv]]]].
      exists (ds ++ [(Z.to_N (n mod 10) + 48)%N]). split; [rewrite E, <- app_assoc; reflexivity|].
      split; [destruct ds; discriminate|].
      destruct (digit_char (n mod 10)) as [D1 D2]; [lia|]. split.
      * intros c Hc. apply in_app_or in Hc as [Hc|[Hc|[]]]; [apply Hd; exact Hc|subst c; exact D1].
      * intros a. rewrite digits_val_app, Hv. cbn [digits_val]. rewrite D1, D2. f_equal.
        rewrite app_length. cbn [length]. rewrite Nat.add_1_r, Nat2Z.inj_succ, Z.pow_succ_r by lia. lia.
Qed.

Lemma log2_fuel n : 0 <= n -> 0 <= n < 2 * 2 ^ Z.of_nat (Z.to_nat (Z.log2 n)).
Proof.
  intros H. rewrite Z2Nat.id by apply Z.log2_nonneg.
  destruct (Z.eq_dec n 0) as [E|E]; [subst; simpl; lia|].
  pose proof (Z.log2_spec n ltac:(lia)) as [_ S]. rewrite Z.pow_succ_r in S by apply Z.log2_nonneg. lia.
Qed.

Lemma str_of_nonneg n : 0 <= n -> exists ds, str_of_int n = ds /\ ds <> [] /\ all_digits ds /\
  digits_val ds 0 = Some n.
Proof.
  intros H. unfold str_of_int. assert (L : (n <? 0) = false) by lia. rewrite L.
  destruct (pos_digits_spec (Z.to_nat (Z.log2 n)) n [] (log2_fuel n H)) as [ds [E [Hne [Hd Hv]]]].
  exists ds. rewrite E, app_nil_r. split; [reflexivity|]. split; [exact Hne|]. split; [exact Hd|].
  rewrite Hv. f_equal; lia.
Qed.

Theorem int_str_roundtrip n : int_of_str (str_of_int n) = Some n.
Proof.
  destruct (Z.ltb_spec n 0) as [Hneg|Hpos].
  - unfold str_of_int. assert (L : (n <? 0) = true) by lia. rewrite L.
    assert (Hn : 0 <= - n) by lia.
    destruct (pos_digits_spec (Z.to_nat (Z.log2 (- n))) (- n) [] (log2_fuel _ Hn)) as [ds [E [Hne [Hd Hv]]]].
    rewrite E, app_nil_r. destruct ds as [|d r]; [congruence|]. unfold int_of_str. rewrite Hv. simpl. f_equal. lia.
  - destruct (str_of_nonneg n Hpos) as [ds [E [Hne [Hd Hv]]]]. rewrite E. unfold int_of_str.
    destruct ds as [|d r]; [congruence|].
    assert (Hd0 : is_digit d = true) by (apply Hd; left; reflexivity).
    destruct r as [|d2 r2].
    + destruct (N.eqb_spec d 45) as [E45|_]; [subst d; discriminate|]. destruct d as [|p]; [exact Hv|].
      repeat (destruct p as [p|p|]; try exact Hv).
    + destruct (N.eq_dec d 45) as [E45|N45]; [subst d; discriminate|].
      destruct d as [|p]; [exact Hv|]. repeat (destruct p as [p|p|]; try exact Hv); try congruence.
Qed.

Lemma str_of_int_inj a b : str_of_int a = str_of_int b -> a = b.
Proof.
  intros H. pose proof (int_str_roundtrip a) as A. rewrite H, int_str_roundtrip in A. congruence.
Qed.

(* the decimal form of a non-negative number contains no underscore (nor any non-digit) *)
Lemma str_of_nonneg_no_char n c : 0 <= n -> is_digit c = false -> ~ In c (str_of_int n).
Proof.
  intros Hn Hc Hin. destruct (str_of_nonneg n Hn) as [ds [E [_ [Hd _]]]]. rewrite E in Hin.
  specialize (Hd c Hin). congruence.
Qed.
