(* Proofs/C17Numeric.v — numeric_sort=True: the values of a key, when all of them are decimals, come out in
   non-decreasing numeric order (ties by the string), and are the same values *)
From GV Require Import Base.Prelude Base.PyStr Model.Bins Model.DB Model.Parser Model.Import Model.Attrs.
From Coq Require Import Sorting.Permutation Sorting.Sorted.
Open Scope Z_scope.

Definition num_leP (a b : (Z * nat) * str) : Prop := num_le a b = true.

Lemma pow10_pos k : 0 < 10 ^ Z.of_nat k.
Proof. apply Z.pow_pos_nonneg; lia. Qed.

Lemma dec_cmp_antisym m1 k1 m2 k2 : dec_cmp m2 k2 m1 k1 = CompOpp (dec_cmp m1 k1 m2 k2).
Proof. unfold dec_cmp. apply Z.compare_antisym. Qed.

Lemma str_cmp_antisym : forall a b, str_cmp b a = CompOpp (str_cmp a b).
Proof.
  induction a as [|x a IH]; destruct b as [|y b]; cbn [str_cmp]; try reflexivity.
  rewrite (N.compare_antisym x y). destruct (N.compare x y); cbn [CompOpp]; [apply IH|reflexivity|reflexivity].
Qed.

Lemma num_le_total a b : num_le a b = false -> num_le b a = true.
Proof.
  unfold num_le. rewrite (dec_cmp_antisym (fst (fst a)) (snd (fst a)) (fst (fst b)) (snd (fst b))).
  destruct (dec_cmp (fst (fst a)) (snd (fst a)) (fst (fst b)) (snd (fst b))); cbn [CompOpp]; try discriminate; try reflexivity.
  rewrite (str_cmp_antisym (snd a) (snd b)). destruct (str_cmp (snd a) (snd b)); cbn [CompOpp]; try discriminate; reflexivity.
Qed.

Lemma num_insert_perm x l : Permutation (num_insert x l) (x :: l).
Proof.
  induction l as [|y l IH]; cbn [num_insert]; [reflexivity|]. destruct (num_le x y); [reflexivity|].
  rewrite IH. apply perm_swap.
Qed.

Lemma num_insert_sorted x l : Sorted num_leP l -> Sorted num_leP (num_insert x l).
Proof.
  induction l as [|y l IH]; intros S; cbn [num_insert]; [repeat constructor|].
  destruct (num_le x y) eqn:E; [constructor; [exact S|constructor; exact E]|].
  apply Sorted_inv in S as [S Hy]. constructor; [apply IH; exact S|].
  destruct l as [|z l]; cbn [num_insert].
  - constructor. apply num_le_total. exact E.
  - destruct (num_le x z); constructor; [apply num_le_total; exact E|]. apply HdRel_inv in Hy. exact Hy.
Qed.

Lemma num_sort_spec l : Permutation (fold_right num_insert [] l) l /\ Sorted num_leP (fold_right num_insert [] l).
Proof.
  induction l as [|x l [P S]]; cbn [fold_right]; [split; constructor|]. split.
  - rewrite num_insert_perm. constructor. exact P.
  - apply num_insert_sorted. exact S.
Qed.

Lemma all_dec_snd : forall vs l, all_dec vs = Some l -> map snd l = vs /\ forall x, In x l -> classify (snd x) = Dec (fst (fst x)) (snd (fst x)).
Proof.
  induction vs as [|v vs IH]; intros l H; cbn [all_dec] in H.
  - inversion H. split; [reflexivity|intros x []].
  - destruct (classify v) as [m k| |] eqn:C; try discriminate. destruct (all_dec vs) as [l'|]; [|discriminate].
    inversion H; subst l. destruct (IH l' eq_refl) as [A B]. split; [cbn; rewrite A; reflexivity|].
    intros x [<-|Hx]; [exact C|apply B; exact Hx].
Qed.

Lemma num_le_dec_le x y : classify (snd x) = Dec (fst (fst x)) (snd (fst x)) -> classify (snd y) = Dec (fst (fst y)) (snd (fst y)) ->
  num_le x y = true -> dec_le (snd x) (snd y).
Proof.
  intros Cx Cy H. unfold dec_le. rewrite Cx, Cy. unfold num_le, dec_cmp in H.
  destruct (Z.compare (fst (fst x) * 10 ^ Z.of_nat (snd (fst y))) (fst (fst y) * 10 ^ Z.of_nat (snd (fst x)))) eqn:E.
  - apply Z.compare_eq_iff in E. rewrite E. apply Z.le_refl.
  - apply Z.compare_lt_iff in E. apply Z.lt_le_incl. exact E.
  - discriminate.
Qed.

Lemma dec_le_trans a b c : dec_le a b -> dec_le b c -> dec_le a c.
Proof.
  unfold dec_le. destruct (classify a) as [m1 k1| |]; try contradiction. destruct (classify b) as [m2 k2| |]; try contradiction.
  destruct (classify c) as [m3 k3| |]; try contradiction. intros H1 H2.
  pose proof (pow10_pos k1) as P1. pose proof (pow10_pos k2) as P2. pose proof (pow10_pos k3) as P3.
  set (p1 := 10 ^ Z.of_nat k1) in *. set (p2 := 10 ^ Z.of_nat k2) in *. set (p3 := 10 ^ Z.of_nat k3) in *.
  apply (Z.mul_le_mono_pos_r _ _ p2 P2).
  apply (Z.le_trans _ (m2 * p1 * p3)).
  - replace (m1 * p3 * p2) with (m1 * p2 * p3) by ring. apply Z.mul_le_mono_pos_r; assumption.
  - replace (m2 * p1 * p3) with (m2 * p3 * p1) by ring. replace (m3 * p1 * p2) with (m3 * p2 * p1) by ring.
    apply Z.mul_le_mono_pos_r; assumption.
Qed.

(* numeric_sort=True on a key all of whose values are decimals: the result holds exactly the distinct values, in
   non-decreasing numeric order *)
Theorem l_numeric_sorted vs l out : all_dec (as_set vs) = Some l -> sort_values true vs = Ok out ->
  Permutation out (as_set vs) /\ StronglySorted dec_le out.
Proof.
  intros A H. unfold sort_values in H. cbn [negb] in H.
  destruct (existsb _ (as_set vs)); [discriminate|]. rewrite A in H. inversion H; subst out; clear H.
  destruct (all_dec_snd _ _ A) as [E C]. destruct (num_sort_spec l) as [P S]. split.
  - rewrite <- E. apply Permutation_map. exact P.
  - assert (C' : forall x, In x (fold_right num_insert [] l) -> classify (snd x) = Dec (fst (fst x)) (snd (fst x))).
    { intros x Hx. apply C. eapply Permutation_in; [exact P|exact Hx]. }
    apply Sorted_StronglySorted; [intros a b c; apply dec_le_trans|].
    clear -S C'. induction S as [|x l' S IH Hx]; cbn [map]; constructor.
    + apply IH. intros y Hy. apply C'. right. exact Hy.
    + destruct Hx as [|y l'' Hxy]; cbn [map]; constructor.
      apply num_le_dec_le; [apply C'; left; reflexivity|apply C'; right; left; reflexivity|exact Hxy].
Qed.

Lemma all_dec_some : forall s, (forall v, In v s -> exists m k, classify v = Dec m k) -> exists l, all_dec s = Some l.
Proof.
  induction s as [|v s IH]; intros H; [exists []; reflexivity|].
  destruct (H v (or_introl eq_refl)) as [m [k C]]. destruct (IH (fun x Hx => H x (or_intror Hx))) as [l E].
  exists (((m, k), v) :: l). cbn [all_dec]. rewrite C, E. reflexivity.
Qed.

Lemma merge_attributes_values numeric a1 a2 m : merge_attributes numeric a1 a2 = Ok m ->
  forall k vs, In (k, vs) m -> exists vs0, sort_values numeric vs0 = Ok vs.
Proof.
  unfold merge_attributes. set (d := fold_left _ a1 _). clearbody d. revert m.
  induction d as [|kv d IH]; intros m H k vs Hin; cbn [fold_right] in H.
  - inversion H; subst. destruct Hin.
  - destruct (sort_values numeric (snd kv)) as [vs1|e] eqn:S; [|destruct (fold_right _ _ d); discriminate].
    destruct (fold_right _ (Ok []) d) as [l|e] eqn:R; [|discriminate]. inversion H; subst m.
    destruct Hin as [E|Hin]; [inversion E; subst; exists (snd kv); exact S|]. exact (IH l eq_refl k vs Hin).
Qed.

(* merge_attributes(..., numeric_sort=True): every value list that consists of decimals only is in non-decreasing numeric order *)
Theorem l_merge_numeric_ascending a1 a2 m k vs : merge_attributes true a1 a2 = Ok m -> In (k, vs) m ->
  (forall v, In v vs -> exists n d, classify v = Dec n d) -> StronglySorted dec_le vs.
Proof.
  intros H Hin Hdec. destruct (merge_attributes_values true a1 a2 m H k vs Hin) as [vs0 S].
  destruct (all_dec (as_set vs0)) as [l|] eqn:A.
  - exact (proj2 (l_numeric_sorted vs0 l vs A S)).
  - exfalso. unfold sort_values in S. cbn [negb] in S. destruct (existsb _ (as_set vs0)); [discriminate|]. rewrite A in S.
    inversion S; subst vs. destruct (all_dec_some _ Hdec) as [l E]. congruence.
Qed.
