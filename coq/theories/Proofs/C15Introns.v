(* Proofs/C15Introns.v — create_introns / create_splice_sites: per transcript exactly the gaps between its start-ordered exons *)
From GV Require Import Base.Prelude Base.PyStr Model.Bins Model.DB Model.Parser Model.Import Model.Query Model.Order Model.Inter
  Model.Introns Proofs.C11Proofs Proofs.C15Proofs.
From Coq Require Import Sorting.Permutation Sorting.Sorted.
Open Scope Z_scope.

Lemma collect_ok {A} : forall (l : list (result (list A))) out, collect l = Ok out ->
  exists outs, out = concat outs /\ Forall2 (fun r o => r = Ok o) l outs.
Proof.
  induction l as [|[x|e] l IH]; intros out H; cbn [collect] in H.
  - inversion H. exists []. split; [reflexivity|constructor].
  - destruct (collect l) as [r|e] eqn:E; [|discriminate]. inversion H; subst out.
    destruct (IH r eq_refl) as [outs [-> F]]. exists (x :: outs). split; [reflexivity|constructor; [reflexivity|exact F]].
  - discriminate.
Qed.

Lemma Forall2_imp {A B} (P Q : A -> B -> Prop) : (forall a b, P a b -> Q a b) -> forall l l', Forall2 P l l' -> Forall2 Q l l'.
Proof. intros H l l' F. induction F; constructor; auto. Qed.

Lemma Forall2_map_l {A B C} (f : A -> B) (P : B -> C -> Prop) : forall l l', Forall2 P (map f l) l' -> Forall2 (fun a c => P (f a) c) l l'.
Proof. induction l as [|a l IH]; intros l' H; inversion H; subst; constructor; auto. Qed.

(* the exons of a transcript: its level-1 children of the exon type, each once, by ascending start *)

Theorem l_exons_of st e t :
  Permutation (exons_of st e t) (filter (fun r => str_eqb (r_ftype r) e) (children1 st (r_id t))) /\
  StronglySorted start_le (exons_of st e t).
Proof.
  unfold exons_of, by_start. set (l := filter _ _). split.
  - assert (E : map o_row (map (fun r => mkORow r [] [] 0) l) = l).
    { rewrite map_map. cbn [o_row]. apply map_id. }
    rewrite <- E at 2. apply Permutation_map. apply l_sort_perm.
  - pose proof (l_sort_sorted (directed [KStart] false) (map (fun r => mkORow r [] [] 0) l)) as S.
    induction S as [|a l' S IH Hall]; cbn [map]; constructor; [exact IH|].
    apply Forall_forall. intros b Hb. apply in_map_iff in Hb as [ob [<- Hob]].
    pose proof (proj1 (Forall_forall _ _) Hall ob Hob) as L. unfold leP in L.
    apply (proj1 (l_single_key_meaning KStart false a ob)) in L. exact L.
Qed.

Theorem l_create_introns st v e c out : create_introns st v e c = Ok out ->
  exists outs, out = concat outs /\
    Forall2 (fun t o => Forall2 (gap_spec c) (gaps (exons_of st e t)) o) (transcripts st v) outs.
Proof.
  intros H. unfold create_introns in H. destruct (collect_ok _ _ H) as [outs [-> F]]. exists outs. split; [reflexivity|].
  apply Forall2_map_l in F. revert F. apply Forall2_imp. intros t o Ht. apply l_inter_exact. exact Ht.
Qed.

(* N - 1 introns for a transcript whose N >= 1 exons are pairwise separated by at least one base on one seqid *)
Theorem l_create_splice_sites st v e merge numeric out : create_splice_sites st v e merge numeric = Ok out ->
  exists lefts rights, out = concat lefts ++ concat rights /\
    Forall2 (fun t o => splice_side true (r_strand t) merge numeric (exons_of st e t) = Ok o) (transcripts st v) lefts /\
    Forall2 (fun t o => splice_side false (r_strand t) merge numeric (exons_of st e t) = Ok o) (transcripts st v) rights.
Proof.
  intros H. unfold create_splice_sites in H. destruct (collect_ok _ _ H) as [outs [-> F]].
  apply Forall2_app_inv_l in F as [lefts [rights [FL [FR ->]]]]. exists lefts, rights.
  rewrite concat_app. split; [reflexivity|]. apply Forall2_map_l in FL. apply Forall2_map_l in FR. split; assumption.
Qed.

(* the N - 1 law: exons on one seqid, each separated from the next by at least one base *)
Lemma gaps_separated : forall fs, separated fs -> length (gaps fs) = Nat.pred (length fs).
Proof.
  induction fs as [|a [|b l] IH]; intros S; [reflexivity|reflexivity|].
  destruct S as [Hs [[e [s [He [Hst Hlt]]]] S']]. specialize (IH S').
  change (gaps (a :: b :: l)) with ((if str_eqb (r_seqid a) (r_seqid b) &&
          match r_end a, r_start b with Some e, Some s => 1 <? s - e | _, _ => false end
       then [(a, b)] else []) ++ gaps (b :: l)).
  rewrite Hs, str_eqb_refl, He, Hst. replace (1 <? s - e) with true by (symmetry; apply Z.ltb_lt; lia).
  cbn [andb app length]. rewrite IH. reflexivity.
Qed.

Theorem l_introns_count c fs out : separated fs -> interfeatures c fs = Ok out -> length out = Nat.pred (length fs).
Proof.
  intros S H. pose proof (l_inter_exact c fs out H) as F. rewrite <- (gaps_separated fs S).
  symmetry. clear -F. induction F; cbn; congruence.
Qed.
