(* Proofs/C17Proofs.v — attribute container laws, JSON storage form relative to the json oracle,
   merge_attributes = per-key sorted duplicate-free union, equality/hash through the printed line. *)
From GV Require Import Base.Prelude Base.PyStr Model.Bins Model.DB Model.Parser Model.Import Model.Attrs Model.Container
  Proofs.C05Proofs Proofs.C08Round.
From Coq Require Import Permutation.
Open Scope Z_scope.

(* ---------- container ---------- *)
Lemma cget_cset_same k v d : cget k (cset k v d) = Some v.
Proof.
  induction d as [|[k' v'] d IH]; simpl.
  - rewrite str_eqb_refl. reflexivity.
  - destruct (str_eqb k k') eqn:E; simpl; rewrite E; [reflexivity|exact IH].
Qed.

Lemma cget_cset_other k k' v d : str_eqb k k' = false -> cget k (cset k' v d) = cget k d.
Proof.
  intros E. induction d as [|[k2 v2] d IH]; simpl.
  - rewrite E. reflexivity.
  - destruct (str_eqb k' k2) eqn:E2; simpl.
    + apply str_eqb_eq in E2. subst k2. rewrite E. reflexivity.
    + destruct (str_eqb k k2); [reflexivity|exact IH].
Qed.

(* whatever is set — scalar, list or tuple — what is stored is a sequence: a scalar becomes a one-item list *)
Theorem l_set_scalar d k s : cget k (setitem d k (VStr s)) = Some (SList [s]).
Proof. apply cget_cset_same. Qed.
Theorem l_set_list d k l : cget k (setitem d k (VList l)) = Some (SList l).
Proof. apply cget_cset_same. Qed.
Theorem l_set_tuple d k l : cget k (setitem d k (VTuple l)) = Some (STuple l).
Proof. apply cget_cset_same. Qed.
Theorem l_set_other d k k' v : str_eqb k k' = false -> cget k (setitem d k' v) = cget k d.
Proof. apply cget_cset_other. Qed.

(* the switch only changes how one-item lists are viewed; it never changes what is stored *)
Theorem l_view_switch v : view true v = view false v \/ exists x, v = SList [x] /\ view true v = VList [x] /\ view false v = VStr x.
Proof.
  destruct v as [l|l]; [|left; reflexivity]. destruct l as [|x [|y l]]; [left; reflexivity| |left; reflexivity].
  right. exists x. repeat split.
Qed.

Theorem l_with_list_is_stored v : match view true v with VList l => seq_of v = l | VTuple l => seq_of v = l | VStr _ => False end.
Proof. destruct v as [l|l]; [destruct l as [|x [|y l]]|]; reflexivity. Qed.

(* ---------- JSON storage form ---------- *)
Lemma fold_dset_id : forall (obj acc : attrs), NoDup (map fst obj) -> (forall k, In k (map fst obj) -> dhas k acc = false) ->
  fold_left (fun d kv => dset (fst kv) (snd kv) d) obj acc = acc ++ obj.
Proof.
  induction obj as [|[k v] obj IH]; intros acc Hnd Hacc; simpl.
  - rewrite app_nil_r. reflexivity.
  - inversion Hnd as [|? ? Hk Hnd']; subst.
    assert (E : dset k v acc = acc ++ [(k, v)]).
    { rewrite <- (app_nil_r acc) at 1. rewrite dset_app_notin by (apply Hacc; left; reflexivity). reflexivity. }
    rewrite E, IH.
    + rewrite <- app_assoc. reflexivity.
    + exact Hnd'.
    + intros k' Hk'. rewrite dhas_app. rewrite (Hacc k') by (right; exact Hk'). simpl.
      unfold dhas. simpl. destruct (str_eqb k' k) eqn:E2; [|reflexivity]. apply str_eqb_eq in E2. subst. contradiction.
Qed.

Section Json.
  Variable json : Type.
  Variables (dumps : attrs -> json) (loads : json -> option attrs).
  (* the json library's contract on str -> list-of-str dicts (what simplejson documents; observed by the correspondence) *)
  Hypothesis Hround : forall a, loads (dumps a) = Some a.

  (* attributes -> stored JSON text -> attributes is the identity, key order included *)
  Theorem l_json_identity a : NoDup (map fst a) -> unjsonify json loads (jsonify json dumps a) = Some a.
  Proof.
    intros Hnd. unfold unjsonify, jsonify. rewrite Hround. f_equal.
    rewrite fold_dset_id; [reflexivity|exact Hnd|reflexivity].
  Qed.
End Json.

(* ---------- merge_attributes ---------- *)
Lemma num_insert_perm x l : Permutation (num_insert x l) (x :: l).
Proof.
  induction l as [|y l IH]; simpl; [apply Permutation_refl|]. destruct (num_le x y); [apply Permutation_refl|].
  eapply Permutation_trans; [apply perm_skip; exact IH|apply perm_swap].
Qed.

Lemma num_sort_perm l : Permutation (fold_right num_insert [] l) l.
Proof.
  induction l as [|x l IH]; simpl; [apply Permutation_refl|].
  eapply Permutation_trans; [apply num_insert_perm|apply perm_skip; exact IH].
Qed.

Lemma all_dec_snd : forall vs l, all_dec vs = Some l -> map snd l = vs.
Proof.
  induction vs as [|v vs IH]; intros l H; simpl in H.
  - inversion H. reflexivity.
  - destruct (classify v); try discriminate. destruct (all_dec vs) as [l'|]; [|discriminate].
    inversion H; subst. simpl. f_equal. apply IH. reflexivity.
Qed.

(* the values of one key after sorting: the same set, without repeats (numeric or not) *)
Lemma sort_values_spec numeric vs l : sort_values numeric vs = Ok l -> Permutation l (as_set vs).
Proof.
  unfold sort_values. destruct numeric; cbn [negb].
  - destruct (existsb _ (as_set vs)); [discriminate|].
    destruct (all_dec (as_set vs)) as [dl|] eqn:E.
    + intros H. inversion H; subst. apply all_dec_snd in E.
      eapply Permutation_trans; [apply Permutation_map; apply num_sort_perm|]. rewrite E. apply Permutation_refl.
    + intros H. inversion H. apply Permutation_refl.
  - intros H. inversion H. apply Permutation_refl.
Qed.

Lemma sort_values_plain vs : sort_values false vs = Ok (as_set vs).
Proof. reflexivity. Qed.

(* the dictionary before the per-key sort *)
Definition premerge (a1 a2 : attrs) : attrs :=
  fold_left (fun d kv => if dhas (fst kv) a2 then dappend (fst kv) (snd kv) d else d) a1
            (fold_left (fun d kv => dset (fst kv) (snd kv) d) a2 a1).

Lemma vals_dset k k' v m : vals k (dset k' v m) = if str_eqb k k' then v else vals k m.
Proof.
  unfold vals. destruct (str_eqb k k') eqn:E.
  - apply str_eqb_eq in E. subst. rewrite dget_dset_same. reflexivity.
  - rewrite dget_dset_other by exact E. reflexivity.
Qed.

Lemma vals_update k : forall (a2 m : attrs), NoDup (map fst a2) ->
  vals k (fold_left (fun d kv => dset (fst kv) (snd kv) d) a2 m) = if dhas k a2 then vals k a2 else vals k m.
Proof.
  induction a2 as [|[k2 v2] a2 IH]; intros m Hnd; simpl; [reflexivity|].
  inversion Hnd as [|? ? Hk Hnd']; subst. rewrite IH by exact Hnd'. rewrite vals_dset.
  unfold dhas, vals. simpl. destruct (str_eqb k k2) eqn:E.
  - apply str_eqb_eq in E. subst k2.
    assert (G : dget k a2 = None).
    { destruct (dget k a2) eqn:G; [|reflexivity]. exfalso. apply Hk.
      clear -G. induction a2 as [|[k' v'] a2 IH]; [discriminate|]. simpl in *. destruct (str_eqb k k') eqn:E.
      - apply str_eqb_eq in E. left. congruence.
      - right. apply IH. exact G. }
    rewrite G. reflexivity.
  - reflexivity.
Qed.

Lemma vals_cons k k1 (v1 : list str) (a : attrs) : vals k ((k1, v1) :: a) = if str_eqb k k1 then v1 else vals k a.
Proof. unfold vals. simpl. destruct (str_eqb k k1); reflexivity. Qed.

Lemma vals_absent k (a : attrs) : ~ In k (map fst a) -> vals k a = [].
Proof.
  intros Hk. unfold vals. destruct (dget k a) eqn:G; [|reflexivity]. exfalso. apply Hk.
  clear -G. induction a as [|[k' v'] a IH]; [discriminate|]. simpl in *. destruct (str_eqb k k') eqn:E.
  - apply str_eqb_eq in E. left. congruence.
  - right. apply IH. exact G.
Qed.

Lemma vals_extend k (a2 : attrs) : forall (a1 m : attrs), NoDup (map fst a1) ->
  forall v, In v (vals k (fold_left (fun d kv => if dhas (fst kv) a2 then dappend (fst kv) (snd kv) d else d) a1 m)) <->
            In v (vals k m) \/ (dhas k a2 = true /\ In v (vals k a1)).
Proof.
  induction a1 as [|[k1 v1] a1 IH]; intros m Hnd v.
  - simpl. unfold vals at 2. simpl. tauto.
  - cbn [fold_left fst snd]. inversion Hnd as [|? ? Hk Hnd']; subst. rewrite IH by exact Hnd'. rewrite vals_cons.
    destruct (str_eqb k k1) eqn:E.
    + apply str_eqb_eq in E. subst k1. rewrite (vals_absent k a1 Hk). destruct (dhas k a2) eqn:D.
      * rewrite vals_dappend, str_eqb_refl, in_app_iff. split.
        -- intros [[A|A]|[_ []]]; auto.
        -- intros [A|[_ A]]; auto.
      * split.
        -- intros [A|[A _]]; [auto|discriminate].
        -- intros [A|[A _]]; [auto|discriminate].
    + destruct (dhas k1 a2).
      * rewrite vals_dappend, E. reflexivity.
      * reflexivity.
Qed.

Theorem l_premerge_union a1 a2 k v : NoDup (map fst a1) -> NoDup (map fst a2) ->
  In v (vals k (premerge a1 a2)) <-> In v (vals k a1) \/ In v (vals k a2).
Proof.
  intros H1 H2. unfold premerge. rewrite vals_extend by exact H1. rewrite vals_update by exact H2.
  destruct (dhas k a2) eqn:D.
  - split; [intros [A|[_ A]]; auto|intros [A|A]; auto].
  - assert (G : vals k a2 = []) by (unfold vals; unfold dhas in D; destruct (dget k a2); [discriminate|reflexivity]).
    rewrite G. split; [intros [A|[A _]]; [auto|discriminate]|intros [A|[]]; auto].
Qed.

Lemma merge_sorted_spec numeric : forall (d m : attrs),
  fold_right (fun kv acc => match sort_values numeric (snd kv), acc with
                            | Ok vs, Ok l => Ok ((fst kv, vs) :: l) | Err e, _ => Err e | _, Err e => Err e end) (Ok []) d = Ok m ->
  map fst m = map fst d /\ forall k v, In v (vals k m) <-> In v (vals k d).
Proof.
  induction d as [|[k0 vs0] d IH]; intros m H; simpl in H.
  - inversion H. split; [reflexivity|tauto].
  - destruct (sort_values numeric vs0) as [svs|e] eqn:S; [|discriminate].
    destruct (fold_right _ (Ok []) d) as [l|e] eqn:R; [|discriminate]. inversion H; subst m.
    destruct (IH l eq_refl) as [A B]. split; [simpl; f_equal; exact A|].
    intros k v. unfold vals. simpl. destruct (str_eqb k k0).
    + apply sort_values_spec in S. split; intros Hin.
      * apply (Permutation_in _ S) in Hin. apply (proj1 (as_set_In v vs0)). exact Hin.
      * apply (Permutation_in _ (Permutation_sym S)). apply (proj2 (as_set_In v vs0)). exact Hin.
    + apply B.
Qed.

(* per key: exactly the union of both arguments' values *)
Theorem l_merge_attributes_union numeric a1 a2 m : NoDup (map fst a1) -> NoDup (map fst a2) ->
  merge_attributes numeric a1 a2 = Ok m ->
  forall k v, In v (vals k m) <-> In v (vals k a1) \/ In v (vals k a2).
Proof.
  intros H1 H2 H k v. unfold merge_attributes in H. fold (premerge a1 a2) in H.
  destruct (merge_sorted_spec numeric _ _ H) as [_ B]. rewrite B. apply l_premerge_union; assumption.
Qed.

(* without numeric_sort every value list is the sorted duplicate-free set *)
Theorem l_merge_attributes_sorted a1 a2 : exists m, merge_attributes false a1 a2 = Ok m /\
  m = map (fun kv => (fst kv, as_set (snd kv))) (premerge a1 a2).
Proof.
  unfold merge_attributes. fold (premerge a1 a2). induction (premerge a1 a2) as [|[k vs] d IH].
  - eexists. split; reflexivity.
  - destruct IH as [m [A B]]. cbn [fold_right fst snd map]. rewrite sort_values_plain, A.
    eexists. split; [reflexivity|]. rewrite B. reflexivity.
Qed.

(* ---------- equality and hash ---------- *)
Theorem l_eq_iff_print tq f g : feature_eq tq f g = true <-> feature_str tq f = feature_str tq g.
Proof. unfold feature_eq. apply str_eqb_eq. Qed.

Theorem l_hash_coherent (H : str -> Z) tq f g : feature_eq tq f g = true -> feature_hash H tq f = feature_hash H tq g.
Proof. intros E. apply l_eq_iff_print in E. unfold feature_hash. rewrite E. reflexivity. Qed.
