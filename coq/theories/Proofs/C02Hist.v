(* Proofs/C02Hist.v — "in create_db and in update alike": over every history of imports into one database (create_db,
   then any number of update() calls) under ANY of the five strategies ('replace' included, since the repair of F23),
   the level-2 rows are exactly the compositions of two level-1 rows that start at a stored feature. *)
From GV Require Import Base.Prelude Base.PyStr Model.Bins Model.DB Model.Parser Model.Import Model.Hier
  Proofs.C02Proofs Proofs.C04Proofs.
Open Scope Z_scope.

Definition grows (st st' : ist) : Prop :=
  (forall i, In i (map r_id (s_rows st)) -> In i (map r_id (s_rows st'))) /\
  (forall x, In x (s_rels st) -> In x (s_rels st')) /\
  (forall x, In x (s_rels st') -> In x (s_rels st) \/ rel_level x = 1).

Lemma grows_refl st : grows st st.
Proof. repeat split; auto. Qed.
Lemma grows_trans a b c : grows a b -> grows b c -> grows a c.
Proof.
  intros [A1 [A2 A3]] [B1 [B2 B3]]. repeat split; auto.
  intros x Hx. destruct (B3 x Hx) as [H|H]; [|right; exact H]. exact (A3 x H).
Qed.

Lemma closed2_grows st st' : closed2 st -> grows st st' -> closed2 st'.
Proof.
  intros Hc [_ [G2 G3]] x z H. destruct (G3 _ H) as [H0|H0]; [|discriminate H0].
  destruct (Hc x z H0) as [y [A B]]. exists y. split; apply G2; assumption.
Qed.
Lemma levels12_grows st st' : levels12 st -> grows st st' -> levels12 st'.
Proof. intros Hl [_ [_ G3]] x H. destruct (G3 _ H) as [H0|H0]; [apply Hl; exact H0|left; exact H0]. Qed.

Section Hist.
  Variable call : nat -> row -> option str.

  Definition out_state (o : outcome) : ist := match o with OSkip s => s | OStored s _ => s end.

  Lemma create_unique_grows st f b o : create_unique st f b = Ok o ->
    (forall i, In i (map r_id (s_rows st)) -> In i (map r_id (s_rows (out_state o)))) /\ s_rels (out_state o) = s_rels st.
  Proof.
    unfold create_unique. destruct (fresh_auto _ _ _ _) as [[nid a]|]; [|discriminate]. intros H. inversion H; subst.
    cbn [out_state s_rows s_rels]. split; [|reflexivity]. intros i Hi. rewrite map_app. apply in_or_app. left. exact Hi.
  Qed.

  Lemma store_grows strat force spec st f0 o : strat <> SReplace -> store call strat force spec st f0 = Ok o ->
    (forall i, In i (map r_id (s_rows st)) -> In i (map r_id (s_rows (out_state o)))) /\ s_rels (out_state o) = s_rels st.
  Proof.
    intros Hs. unfold store. destruct (id_handler call spec f0 (s_auto st)) as [[id a]|]; [|discriminate].
    cbn [s_rows s_rels s_dups]. destruct (has_id id (s_rows st)) eqn:Hh.
    - destruct strat; cbn [do_merge]; try discriminate; try congruence.
      + intros H. inversion H; subst. cbn. split; auto.
      + intros H. apply create_unique_grows in H. cbn [s_rows s_rels] in H. exact H.
      + cbn [s_rows s_rels s_dups s_auto r_id set_bin set_id].
        destruct (rev (filter _ _)) as [|target rest].
        * intros H. apply create_unique_grows in H. cbn [s_rows s_rels] in H. exact H.
        * intros H. inversion H; subst. cbn [out_state s_rows s_rels]. split; [|reflexivity].
          intros i Hi. rewrite ids_update; [exact Hi|]. intros r. rewrite r_id_fold_setf. reflexivity.
    - intros H. inversion H; subst. cbn [out_state s_rows s_rels]. split; [|reflexivity].
      intros i Hi. rewrite map_app. apply in_or_app. left. exact Hi.
  Qed.

  Lemma step_grows strat force spec st f0 st' : strat <> SReplace -> step_gff call strat force spec st f0 = Ok st' -> grows st st'.
  Proof.
    intros Hs. unfold step_gff. destruct (store call strat force spec st f0) as [o|] eqn:E; [|discriminate].
    destruct (store_grows _ _ _ _ _ _ Hs E) as [G1 G2]. destruct o as [s|s id]; cbn [out_state] in *.
    - intros H. inversion H; subst. repeat split; auto; rewrite G2; auto.
    - replace (is_replace strat) with false by (destruct strat; try reflexivity; congruence). cbn [andb].
      intros H. inversion H; subst. cbn [s_rows s_rels]. repeat split; [exact G1| |].
      + intros x Hx. apply add_rels_In. left. rewrite G2. exact Hx.
      + intros x Hx. apply add_rels_In in Hx as [Hx|Hx]; [left; rewrite <- G2; exact Hx|].
        apply in_map_iff in Hx as [p [<- _]]. right. reflexivity.
  Qed.

  Lemma run_grows strat force spec : strat <> SReplace -> forall fs st st',
    run_steps (step_gff call strat force spec) fs st = Ok st' -> grows st st'.
  Proof.
    intros Hs. induction fs as [|f fs IH]; intros st st' H; cbn [run_steps] in H.
    - inversion H; subst. apply grows_refl.
    - destruct (step_gff call strat force spec st f) as [s1|] eqn:E; [|discriminate].
      apply (grows_trans st s1 st'); [apply (step_grows _ _ _ _ _ _ Hs E)|apply IH; exact H].
  Qed.

  (* 'replace': rows keep their ids; the links that go are exactly the replaced version's level-1 parent links and the
     level-2 rows ending at it or running through it - which is what keeps closed2 *)
  Lemma step_replace_closed force spec st f0 st' : step_gff call SReplace force spec st f0 = Ok st' ->
    closed2 st -> levels12 st -> closed2 st' /\ levels12 st'.
  Proof.
    intros H Hc Hl. unfold step_gff, store in H.
    destruct (id_handler call spec f0 (s_auto st)) as [[id a]|]; [|discriminate].
    cbn [s_rows s_rels s_dups s_auto] in H. destruct (has_id id (s_rows st)) eqn:Hh.
    - cbn [do_merge is_replace andb s_rows s_rels s_dups s_auto r_id set_bin set_id] in H. rewrite Hh in H.
      inversion H; subst st'. clear H. cbn [s_rels]. split.
      + intros x z Hin. apply add_rels_In in Hin as [Hin|Hin]; [|apply in_map_iff in Hin as [p [E _]]; discriminate E].
        apply filter_In in Hin as [Hin Ft]. apply filter_In in Hin as [Hin F1].
        destruct (Hc x z Hin) as [y [A B]].
        unfold through_links in Ft. cbn [rel_level rel_child rel_parent] in Ft. change (2 =? 2) with true in Ft. cbn [andb] in Ft.
        apply negb_true_iff in Ft. apply orb_false_iff in Ft as [Fz Fthrough].
        assert (Hz : z <> id) by (intros ->; rewrite str_eqb_refl in Fz; discriminate).
        assert (Hy : y <> id).
        { intros ->. assert (X1 : mem_str x (map rel_parent (filter (fun y0 => str_eqb (rel_child y0) id && (rel_level y0 =? 1)) (s_rels st))) = true).
          { apply mem_str_In. apply in_map_iff. exists (mkRel x id 1). split; [reflexivity|]. apply filter_In. split; [exact A|].
            cbn. rewrite str_eqb_refl. reflexivity. }
          assert (X2 : mem_str z (map rel_child (filter (fun y0 => str_eqb (rel_parent y0) id && (rel_level y0 =? 1)) (s_rels st))) = true).
          { apply mem_str_In. apply in_map_iff. exists (mkRel id z 1). split; [reflexivity|]. apply filter_In. split; [exact B|].
            cbn. rewrite str_eqb_refl. reflexivity. }
          rewrite X1, X2 in Fthrough. discriminate. }
        exists y. split; apply add_rels_In; left; apply filter_In.
        * split; [apply filter_In; split; [exact A|]|reflexivity]. cbn. apply negb_true_iff. apply andb_false_iff. left. apply str_eqb_neq. exact Hy.
        * split; [apply filter_In; split; [exact B|]|reflexivity]. cbn. apply negb_true_iff. apply andb_false_iff. left. apply str_eqb_neq. exact Hz.
      + intros x Hin. apply add_rels_In in Hin as [Hin|Hin]; [|apply in_map_iff in Hin as [p [<- _]]; left; reflexivity].
        apply filter_In in Hin as [Hin _]. apply filter_In in Hin as [Hin _]. apply Hl. exact Hin.
    - cbn [is_replace andb] in H. rewrite Hh in H. cbn [andb] in H. inversion H; subst st'. clear H. cbn [s_rels s_rows]. split.
      + intros x z Hin. apply add_rels_In in Hin as [Hin|Hin]; [|apply in_map_iff in Hin as [p [E _]]; discriminate E].
        destruct (Hc x z Hin) as [y [A B]]. exists y. split; apply add_rels_In; left; assumption.
      + intros x Hin. apply add_rels_In in Hin as [Hin|Hin]; [apply Hl; exact Hin|apply in_map_iff in Hin as [p [<- _]]; left; reflexivity].
  Qed.

  Lemma step_closed strat force spec st f0 st' : step_gff call strat force spec st f0 = Ok st' ->
    closed2 st -> levels12 st -> closed2 st' /\ levels12 st'.
  Proof.
    intros H Hc Hl. assert (D : strat = SReplace \/ strat <> SReplace) by (destruct strat; auto; right; discriminate).
    destruct D as [->|Hs]; [apply (step_replace_closed _ _ _ _ _ H Hc Hl)|].
    pose proof (step_grows _ _ _ _ _ _ Hs H) as G. split; [apply (closed2_grows _ _ Hc G)|apply (levels12_grows _ _ Hl G)].
  Qed.

  Lemma run_closed strat force spec : forall fs st st', run_steps (step_gff call strat force spec) fs st = Ok st' ->
    closed2 st -> levels12 st -> closed2 st' /\ levels12 st'.
  Proof.
    induction fs as [|f fs IH]; intros st st' H Hc Hl; cbn [run_steps] in H.
    - inversion H; subst. auto.
    - destruct (step_gff call strat force spec st f) as [s1|] eqn:E; [|discriminate].
      destruct (step_closed _ _ _ _ _ _ E Hc Hl) as [A B]. apply (IH s1 st' H A B).
  Qed.

  Lemma update_relations_mono st st' : update_relations_gff st = Ok st' ->
    s_rows st' = s_rows st /\ forall x, In x (s_rels st) -> In x (s_rels st').
  Proof.
    unfold update_relations_gff. destruct (read_pairs (grand_pairs st)) as [ps|]; [|discriminate]. intros H. inversion H; subst.
    cbn [s_rows s_rels]. split; [reflexivity|]. intros x Hx. apply add_rels_In. left. exact Hx.
  Qed.

  (* one import (create_db or update) *)
  Theorem l_import_closed strat force spec fs st st' :
    import_gff call strat force spec fs st = Ok st' -> closed2 st -> levels12 st -> clean_state st' ->
    closed2 st' /\ complete2 st' /\ levels12 st'.
  Proof.
    intros Himp Hc Hl [Cr Cl]. unfold import_gff in Himp. destruct fs as [|f0 fs0]; [discriminate|].
    destruct (run_steps (step_gff call strat force spec) (f0 :: fs0) st) as [st1|] eqn:R; [|discriminate].
    destruct (run_closed strat force spec _ _ _ R Hc Hl) as [Hc1 Hl1].
    destruct (update_relations_mono _ _ Himp) as [Erows Mono].
    destruct (l_relations_step st1) as (st2 & E2 & R2 & _ & _ & Hrels).
    - intros r Hr. apply Cr. rewrite Erows. exact Hr.
    - intros x Hx. apply Cl. apply Mono. exact Hx.
    - rewrite E2 in Himp. inversion Himp; subst st2. split; [|split].
      + intros x z H. apply Hrels in H as [H|[_ [_ [y [A B]]]]].
        * destruct (Hc1 x z H) as [y [A B]]. exists y. split; apply Hrels; left; assumption.
        * cbn [rel_parent rel_child] in A, B. exists y. split; apply Hrels; left; assumption.
      + intros x y z Hx A B. rewrite R2 in Hx.
        assert (A1 : In (mkRel x y 1) (s_rels st1)).
        { apply Hrels in A as [A|[L _]]; [exact A|discriminate L]. }
        assert (B1 : In (mkRel y z 1) (s_rels st1)).
        { apply Hrels in B as [B|[L _]]; [exact B|discriminate L]. }
        apply Hrels. right. cbn [rel_level rel_parent rel_child]. split; [reflexivity|]. split.
        * apply in_map_iff in Hx as [r [Er Hr]]. exists r. split; assumption.
        * exists y. split; assumption.
      + intros x H. apply Hrels in H as [H|[L _]]; [apply Hl1; exact H|right; exact L].
  Qed.

  (* a history: create_db, then update() calls, each with its own strategy; [clean_b] keeps the history inside the
     domain (ids and Parent values without TAB / CR / LF) *)
  Lemma clean_b_spec st : clean_b st = true -> clean_state st.
  Proof.
    unfold clean_b, clean_state. intros H. apply andb_prop in H as [A B]. rewrite forallb_forall in A, B. split; assumption.
  Qed.

  Theorem l_history_closed force spec : forall bs st st',
    imports call force spec bs st = Ok st' -> closed2 st -> complete2 st -> levels12 st ->
    closed2 st' /\ complete2 st' /\ levels12 st'.
  Proof.
    induction bs as [|[strat fs] bs IH]; intros st st' H Hc Hk Hl; cbn [imports] in H.
    - inversion H; subst. auto.
    - destruct (import_gff call strat force spec fs st) as [st1|] eqn:E; [|discriminate].
      destruct (clean_b st1) eqn:Cb; [|discriminate].
      destruct (l_import_closed strat force spec fs st st1) as [A [B C]]; try assumption.
      + apply clean_b_spec. exact Cb.
      + apply (IH st1 st'); assumption.
  Qed.
  Theorem l_history_from_empty force spec bs st' :
    imports call force spec bs empty_st = Ok st' -> closed2 st' /\ complete2 st' /\ levels12 st'.
  Proof.
    intros H. apply (l_history_closed force spec bs empty_st st' H).
    - intros x z F. destruct F.
    - intros x y z F. destruct F.
    - intros x F. destruct F.
  Qed.
End Hist.
