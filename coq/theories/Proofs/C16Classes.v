(* Proofs/C16Classes.v — merge() with the default criteria on inputs of SEVERAL (seqid, strand, featuretype) classes:
   the pass falls apart at every change of class, so the outputs are the per-class maximal runs, block by block.
   (C16Proofs.v proves the one-class case; here the blocks are glued.) *)
From GV Require Import Proofs.GenCritEquiv Base.Prelude Base.PyStr Model.Bins Model.DB Model.Parser Model.Query Model.Import Model.Merge
  Gen.GenLib Gen.GenCriteria Proofs.C04Proofs Proofs.C16Proofs.
From Coq Require Import ZifyBool.
Open Scope Z_scope.

(* ---------- any criteria: the pass as steps, and what a rejected feature does to it ---------- *)
Fixpoint msteps (cs : crits) (fs : list minput) (sa : mstate * counters) : (mstate * counters) * list mout :=
  match fs with
  | [] => (sa, [])
  | f :: l => let '(sa', o) := mstep cs sa f in
              let '(sa'', o') := msteps cs l sa' in (sa'', o ++ o')
  end.

Lemma mrun_app cs : forall l1 l2 sa,
  mrun cs (l1 ++ l2) sa = let '(sa', o) := msteps cs l1 sa in let '(r, a) := mrun cs l2 sa' in (o ++ r, a).
Proof.
  induction l1 as [|f l1 IH]; intros l2 sa; cbn [app mrun msteps].
  - destruct (mrun cs l2 sa) as [r a]. reflexivity.
  - destruct (mstep cs sa f) as [sa' o]. rewrite IH. destruct (msteps cs l1 sa') as [sa'' o'].
    destruct (mrun cs l2 sa'') as [r a]. rewrite app_assoc. reflexivity.
Qed.

Lemma mrun_msteps cs l sa : mrun cs l sa = let '(sa', o) := msteps cs l sa in (o ++ mfinish (fst sa'), snd sa').
Proof.
  rewrite <- (app_nil_r l) at 1. rewrite mrun_app. destruct (msteps cs l sa) as [sa' o]. cbn [mrun]. reflexivity.
Qed.

Lemma mrun_cons cs f l sa : mrun cs (f :: l) sa = let '(sa', out) := mstep cs sa f in let '(rest, a) := mrun cs l sa' in (out ++ rest, a).
Proof. reflexivity. Qed.

(* a feature waiting unchecked is in the same position as one not yet read *)
Lemma unchecked_is_unread cs : forall l f a, mrun cs l (SUnchecked f, a) = mrun cs (f :: l) (SNone, a).
Proof.
  induction l as [|g l IH]; intros f a.
  - cbn [mrun mstep mfinish fst snd]. destruct (accept cs (mi_v f) (mi_v f) 0); cbn [mrun mfinish fst snd app]; reflexivity.
  - rewrite (mrun_cons cs f (g :: l)). rewrite (mrun_cons cs g l (SUnchecked f, a)). cbn [mstep].
    destruct (accept cs (mi_v f) (mi_v f) 0) eqn:E.
    + rewrite (mrun_cons cs g l (SRun1 f, a)). cbn [mstep].
      destruct (if accept cs (mi_v f) (mi_v g) 1 then _ else _) as [sa' out]. destruct (mrun cs l sa') as [rest a']. reflexivity.
    + rewrite IH. reflexivity.
Qed.

Definition rejects (cs : crits) (st : mstate) (g : minput) : Prop :=
  match st with
  | SNone => True
  | SUnchecked c => accept cs (mi_v c) (mi_v g) 1 = false
  | SRun1 c => accept cs (mi_v c) (mi_v g) 1 = false
  | SRunN _ acc _ ch => accept cs acc (mi_v g) (length ch) = false
  end.

(* when the pending run rejects the next feature, the run is closed and the pass starts afresh *)
Lemma mrun_break cs st g l a : rejects cs st g ->
  mrun cs (g :: l) (st, a) = (mfinish st ++ fst (mrun cs (g :: l) (SNone, a)), snd (mrun cs (g :: l) (SNone, a))).
Proof.
  intros R. rewrite <- (unchecked_is_unread cs l g a).
  destruct st as [|c|c|id acc fr ch]; cbn [rejects] in R.
  - rewrite (unchecked_is_unread cs l g a). cbn [mfinish app]. destruct (mrun cs (g :: l) (SNone, a)); reflexivity.
  - cbn [mrun mstep]. destruct (accept cs (mi_v c) (mi_v c) 0); [rewrite R|];
      destruct (mrun cs l (SUnchecked g, a)) as [r a']; reflexivity.
  - cbn [mrun mstep]. rewrite R. destruct (mrun cs l (SUnchecked g, a)) as [r a']; reflexivity.
  - cbn [mrun mstep]. rewrite R. destruct (mrun cs l (SUnchecked g, a)) as [r a']; reflexivity.
Qed.

(* ---------- default criteria: classes ---------- *)
Definition wf (f : minput) : Prop := ~ In COMMAc (m_seqid (mi_v f)) /\ m_start (mi_v f) <= m_end (mi_v f).

Definition st_cls (K : str * str * str) (st : mstate) : Prop :=
  match st with
  | SNone => True
  | SUnchecked c => class_of (mi_v c) = K
  | SRun1 c => class_of (mi_v c) = K
  | SRunN _ acc _ _ => class_of acc = K
  end.

Lemma cls_class sK tK fK v : cls sK tK fK v <-> class_of v = (sK, tK, fK).
Proof. unfold cls, class_of. split; [intros [A [B C]]; congruence|intros H; inversion H; auto]. Qed.

Lemma accept_default_other acc g n : class_of acc <> class_of (mi_v g) -> accept default_criteria acc (mi_v g) n = false.
Proof.
  intros H. unfold accept, default_criteria. cbn [forallb crit_eval].
  rewrite gen_seqid_spec, gen_strand_spec, gen_feature_type_spec.
  destruct (str_eqb (m_seqid acc) (m_seqid (mi_v g))) eqn:E1; [|reflexivity].
  destruct (str_eqb (m_strand acc) (m_strand (mi_v g))) eqn:E2; [|rewrite andb_false_r; reflexivity].
  destruct (str_eqb (m_ftype acc) (m_ftype (mi_v g))) eqn:E3; [|rewrite !andb_false_r; reflexivity].
  exfalso. apply H. apply str_eqb_eq in E1, E2, E3. unfold class_of. congruence.
Qed.

Lemma rejects_other K st g : st_cls K st -> class_of (mi_v g) <> K -> rejects default_criteria st g.
Proof.
  intros S H. destruct st as [|c|c|id acc fr ch]; cbn [rejects st_cls] in *; [exact I| | |];
    apply accept_default_other; congruence.
Qed.

Section Block.
  Variables (sK tK fK : str).
  Hypothesis HsK : ~ In COMMAc sK.
  Notation K := (sK, tK, fK).

  Lemma mstep_cls st a f : st_cls K st -> cls sK tK fK (mi_v f) -> st_cls K (fst (fst (mstep default_criteria (st, a) f))).
  Proof.
    intros S Hf. pose proof (proj1 (cls_class _ _ _ _) Hf) as Kf.
    assert (From1 : forall c, class_of (mi_v c) = K ->
      st_cls K (fst (fst (if accept default_criteria (mi_v c) (mi_v f) 1
                          then let '(nid, a') := auto_incr (m_ftype (mi_v c)) a in
                               ((SRunN nid (extend (mi_v c) (mi_v f)) (extend_frame (mi_frame c) f) [c; f], a'), @nil mout)
                          else ((SUnchecked f, a), [OSingle c]))))).
    { intros c Kc. destruct (accept _ _ _ _); [|exact Kf]. destruct (auto_incr _ a) as [nid a']. cbn [fst st_cls].
      apply cls_class. apply (extend_cls sK tK fK HsK); [apply cls_class; exact Kc|exact Hf]. }
    destruct st as [|c|c|id acc fr ch]; cbn [mstep st_cls] in *.
    - destruct (accept _ _ _ _); cbn [fst st_cls]; [exact Kf|exact I].
    - destruct (accept default_criteria (mi_v c) (mi_v c) 0); [apply From1; exact S|exact Kf].
    - apply From1; exact S.
    - destruct (accept _ _ _ _); cbn [fst st_cls]; [|exact Kf].
      apply cls_class. apply (extend_cls sK tK fK HsK); [apply cls_class; exact S|exact Hf].
  Qed.

  Lemma msteps_cls : forall l st a, st_cls K st -> (forall f, In f l -> okf sK tK fK f) ->
    st_cls K (fst (fst (msteps default_criteria l (st, a)))).
  Proof.
    induction l as [|f l IH]; intros st a S Hl; cbn [msteps]; [exact S|].
    pose proof (mstep_cls st a f S (proj1 (Hl f (or_introl eq_refl)))) as S1.
    destruct (mstep default_criteria (st, a) f) as [[st1 a1] o]. cbn [fst] in S1.
    specialize (IH st1 a1 S1 (fun x Hx => Hl x (or_intror Hx))).
    destruct (msteps default_criteria l (st1, a1)) as [[st2 a2] o']. exact IH.
  Qed.
End Block.

(* a block: features of one class (seqid without comma), in start order *)
Definition block_ok (b : list minput) : Prop :=
  b <> [] /\ exists sK tK fK, ~ In COMMAc sK /\ (forall f, In f b -> okf sK tK fK f) /\
    match b with [] => True | f :: _ => sorted_from (m_start (mi_v f)) b end.
Fixpoint adjacent_differ (blocks : list (list minput)) : Prop :=
  match blocks with
  | b1 :: ((b2 :: _) as r) => block_class b1 <> block_class b2 /\ adjacent_differ r
  | _ => True
  end.

Theorem l_merge_blocks : forall blocks a, Forall block_ok blocks -> adjacent_differ blocks ->
  merge default_criteria (concat blocks) a =
  (concat (fst (merge_blocks default_criteria blocks a)), snd (merge_blocks default_criteria blocks a)).
Proof.
  induction blocks as [|b bs IH]; intros a Hok Hadj; [reflexivity|].
  inversion Hok as [|? ? [Hne [sK [tK [fK [HsK [Hcls Hsorted]]]]]] Hoks]; subst.
  cbn [concat merge_blocks]. unfold merge in *. rewrite mrun_app.
  pose proof (msteps_cls sK tK fK HsK b SNone a I Hcls) as S.
  rewrite (mrun_msteps default_criteria b (SNone, a)).
  destruct (msteps default_criteria b (SNone, a)) as [[st1 a1] o]. cbn [fst snd] in *.
  destruct bs as [|b2 bs'].
  - cbn [concat mrun merge_blocks fst snd]. rewrite !app_nil_r. reflexivity.
  - destruct Hadj as [Hd Hadj']. inversion Hoks as [|? ? [Hne2 _] _]; subst.
    destruct b2 as [|g l2]; [contradiction Hne2; reflexivity|].
    specialize (IH a1 Hoks Hadj').
    change (concat ((g :: l2) :: bs')) with (g :: (l2 ++ concat bs')) in *.
    rewrite (mrun_break default_criteria st1 g (l2 ++ concat bs') a1).
    + rewrite IH. destruct (merge_blocks default_criteria ((g :: l2) :: bs') a1) as [os a2]. cbn [fst snd concat].
      rewrite app_assoc. reflexivity.
    + apply (rejects_other (sK, tK, fK)); [exact S|].
      destruct b as [|f0 b']; [contradiction Hne; reflexivity|]. cbn [block_class] in Hd.
      intros E. apply Hd. rewrite E. apply cls_class. apply (Hcls f0). left; reflexivity.
Qed.

(* the outputs, block by block: each block's inputs are partitioned by its outputs, which are its maximal runs *)
Definition block_runs (b : list minput) (outs : list mout) : Prop :=
  flat_map members outs = b /\ sep outs /\ Forall out_covered outs.

Lemma merge_blocks_runs : forall blocks a, Forall block_ok blocks ->
  Forall2 block_runs blocks (fst (merge_blocks default_criteria blocks a)).
Proof.
  induction blocks as [|b bs IH]; intros a Hok; cbn [merge_blocks]; [constructor|].
  inversion Hok as [|? ? [Hne [sK [tK [fK [HsK [Hcls Hsorted]]]]]] Hoks]; subst.
  pose proof (l_partition default_criteria b a) as P.
  pose proof (l_default_maximal_runs sK tK fK HsK b a Hcls Hsorted) as [A B].
  destruct (merge default_criteria b a) as [o a1]. cbn [fst] in *.
  specialize (IH a1 Hoks). destruct (merge_blocks default_criteria bs a1) as [os a2]. cbn [fst] in *.
  constructor; [split; [exact P|split; assumption]|exact IH].
Qed.

Theorem l_runs_per_block blocks a : Forall block_ok blocks -> adjacent_differ blocks ->
  exists outss, fst (merge default_criteria (concat blocks) a) = concat outss /\ Forall2 block_runs blocks outss.
Proof.
  intros Hok Hadj. exists (fst (merge_blocks default_criteria blocks a)). split.
  - rewrite (l_merge_blocks blocks a Hok Hadj). reflexivity.
  - apply merge_blocks_runs. exact Hok.
Qed.

(* ---------- cutting any input at its changes of class ---------- *)
Lemma same_class_spec a b : same_class a b = true <-> class_of a = class_of b.
Proof.
  unfold same_class, class_of. rewrite !andb_true_iff, !str_eqb_eq. split; [intros [[A B] C]; congruence|intros H; inversion H; auto].
Qed.

Lemma group_no_empty : forall fs r, group fs <> [] :: r.
Proof.
  induction fs as [|x l IHl]; intros r E; [discriminate|].
  cbn [group] in E. destruct (group l) as [|[|g b] r'] eqn:E'; [discriminate|discriminate|].
  destruct (same_class (mi_v x) (mi_v g)); discriminate.
Qed.

Lemma group_concat : forall fs, concat (group fs) = fs.
Proof.
  induction fs as [|f l IH]; [reflexivity|]. cbn [group]. destruct (group l) as [|[|g b] r] eqn:E.
  - cbn in IH. subst l. reflexivity.
  - exfalso. exact (group_no_empty l r E).
  - destruct (same_class (mi_v f) (mi_v g)); cbn [concat app] in *; rewrite <- IH; reflexivity.
Qed.

Definition one_class (b : list minput) : Prop :=
  exists f l, b = f :: l /\ forall x, In x b -> class_of (mi_v x) = class_of (mi_v f).

Lemma group_one_class : forall fs, Forall one_class (group fs).
Proof.
  induction fs as [|f l IH]; [constructor|]. cbn [group]. destruct (group l) as [|[|g b] r] eqn:E.
  - constructor; [|constructor]. exists f, []. split; [reflexivity|]. intros x [<-|[]]. reflexivity.
  - exfalso. exact (group_no_empty l r E).
  - inversion IH as [|? ? [g' [b' [Eb Hb]]] Hr]; subst. inversion Eb; subst g' b'.
    destruct (same_class (mi_v f) (mi_v g)) eqn:S.
    + apply same_class_spec in S. constructor; [|exact Hr]. exists f, (g :: b). split; [reflexivity|].
      intros x [<-|Hx]; [reflexivity|]. rewrite (Hb x Hx). symmetry. exact S.
    + constructor; [|exact IH]. exists f, []. split; [reflexivity|]. intros x [<-|[]]. reflexivity.
Qed.

Lemma group_adjacent : forall fs, adjacent_differ (group fs).
Proof.
  induction fs as [|f l IH]; [exact I|]. cbn [group]. destruct (group l) as [|[|g b] r] eqn:E.
  - exact I.
  - exact I.
  - destruct (same_class (mi_v f) (mi_v g)) eqn:S.
    + apply same_class_spec in S. destruct r as [|b2 r']; [exact I|]. cbn [adjacent_differ] in *.
      destruct IH as [D R]. split; [|exact R]. cbn [block_class] in *. rewrite S. exact D.
    + cbn [adjacent_differ]. split; [|exact IH]. cbn [block_class]. intros H. apply same_class_spec in H. congruence.
Qed.

Definition start_sorted (b : list minput) : Prop :=
  match b with [] => True | f :: _ => sorted_from (m_start (mi_v f)) b end.

(* ANY input of well-formed features (seqid without comma, start <= end) in which every stretch of one class is in start
   order: the outputs are, stretch by stretch, the maximal runs of overlapping or adjacent intervals of that stretch.
   After ORDER BY seqid, featuretype, strand, start (merge_all's default order) every class is one stretch. *)
Theorem l_default_runs_per_class fs a : (forall f, In f fs -> wf f) -> Forall start_sorted (group fs) ->
  exists outss, fst (merge default_criteria fs a) = concat outss /\ Forall2 block_runs (group fs) outss.
Proof.
  intros Hwf Hs.
  cut (Forall block_ok (group fs)).
  { intros Hok. destruct (l_runs_per_block (group fs) a Hok (group_adjacent fs)) as [outss [E F]].
    exists outss. rewrite (group_concat fs) in E. split; assumption. }
  pose proof (group_one_class fs) as H1.
  assert (Hin : forall b, In b (group fs) -> forall x, In x b -> In x fs).
  { intros b Hb x Hx. rewrite <- (group_concat fs). apply in_concat. exists b. split; assumption. }
  apply Forall_forall. intros b Hb.
  pose proof (proj1 (Forall_forall _ _) H1 b Hb) as [f [l [Eb Hc]]].
  pose proof (proj1 (Forall_forall _ _) Hs b Hb) as Sb. subst b.
  split; [discriminate|]. exists (m_seqid (mi_v f)), (m_strand (mi_v f)), (m_ftype (mi_v f)).
  split; [apply (Hwf f), (Hin _ Hb); left; reflexivity|]. split; [|exact Sb].
  intros x Hx. split; [apply cls_class; apply Hc; exact Hx|]. apply (Hwf x), (Hin _ Hb). exact Hx.
Qed.

(* the blocks of one class are exactly the features of that class, in order, when the classes are contiguous *)
Lemma group_members : forall fs b, In b (group fs) -> forall x, In x b -> In x fs.
Proof. intros fs b Hb x Hx. rewrite <- (group_concat fs). apply in_concat. exists b. split; assumption. Qed.

(* ---------- inputs sorted by class first (merge_all's ORDER BY seqid, featuretype, strand, start): one stretch per class ---------- *)
From Coq Require Import Sorting.Sorted.

Section SortedByClass.
  Variable R : str * str * str -> str * str * str -> Prop.      (* the order the classes are sorted by *)
  Hypothesis R_antisym : forall a b, R a b -> R b a -> a = b.
  Definition Rs (a b : str * str * str) : Prop := R a b /\ a <> b.

  Lemma group_heads : forall fs b, In b (group fs) -> exists x, In x fs /\ block_class b = class_of (mi_v x).
  Proof.
    intros fs b Hb. pose proof (proj1 (Forall_forall _ _) (group_one_class fs) b Hb) as [f [l [E _]]]. subst b.
    exists f. split; [apply (group_members fs _ Hb); left; reflexivity|reflexivity].
  Qed.

  Lemma group_strictly_sorted : forall fs, StronglySorted R (map (fun f => class_of (mi_v f)) fs) ->
    StronglySorted Rs (map block_class (group fs)).
  Proof.
    induction fs as [|f l IH]; intros S; [constructor|].
    cbn [map] in S. apply StronglySorted_inv in S as [Sl Hf]. specialize (IH Sl).
    assert (Hall : forall b, In b (group l) -> R (class_of (mi_v f)) (block_class b)).
    { intros b Hb. destruct (group_heads l b Hb) as [x [Hx ->]].
      apply (proj1 (Forall_forall _ _) Hf). apply in_map_iff. exists x. split; [reflexivity|exact Hx]. }
    cbn [group]. destruct (group l) as [|[|g b] r] eqn:E.
    - constructor; constructor.
    - exfalso. exact (group_no_empty l r E).
    - cbn [map block_class] in IH. apply StronglySorted_inv in IH as [Sr Hg].
      destruct (same_class (mi_v f) (mi_v g)) eqn:Sc.
      + apply same_class_spec in Sc. cbn [map block_class]. rewrite Sc. constructor; assumption.
      + assert (Hne : class_of (mi_v f) <> class_of (mi_v g)).
        { intros H. apply same_class_spec in H. congruence. }
        cbn [map block_class]. constructor; [constructor; assumption|]. constructor.
        * split; [apply (Hall (g :: b)); left; reflexivity|exact Hne].
        * apply Forall_forall. intros c Hc. apply in_map_iff in Hc as [b2 [<- Hb2]].
          pose proof (proj1 (Forall_forall _ _) Hg (block_class b2) (in_map _ _ _ Hb2)) as [Rg Ng].
          split; [apply Hall; right; exact Hb2|]. intros H. apply Hne.
          apply R_antisym; [apply (Hall (g :: b)); left; reflexivity|]. cbn [block_class]. rewrite H. exact Rg.
  Qed.

  Lemma strict_sorted_NoDup : forall l, StronglySorted Rs l -> NoDup l.
  Proof.
    induction l as [|x l IH]; intros S; [constructor|]. apply StronglySorted_inv in S as [Sl Hx].
    constructor; [|apply IH; exact Sl]. intros Hin. apply (proj1 (Forall_forall _ _) Hx x Hin). reflexivity.
  Qed.

  (* no class comes back after another one: the stretches of [group] are the classes *)
  Theorem l_sorted_classes_once fs : StronglySorted R (map (fun f => class_of (mi_v f)) fs) -> NoDup (map block_class (group fs)).
  Proof. intros S. apply strict_sorted_NoDup, group_strictly_sorted, S. Qed.
End SortedByClass.

(* consecutive features of one class in start order => every stretch is start-sorted *)
Fixpoint class_start_chain (fs : list minput) : Prop :=
  match fs with
  | f :: ((g :: _) as l) => (class_of (mi_v f) = class_of (mi_v g) -> m_start (mi_v f) <= m_start (mi_v g)) /\ class_start_chain l
  | _ => True
  end.

Lemma chain_start_sorted : forall fs, class_start_chain fs -> Forall start_sorted (group fs).
Proof.
  induction fs as [|f l IH]; intros C; [constructor|].
  assert (Cl : class_start_chain l) by (destruct l; [exact I|apply C]).
  specialize (IH Cl). cbn [group]. destruct (group l) as [|[|g b] r] eqn:E.
  - constructor; [|constructor]. cbn. split; [lia|exact I].
  - exfalso. exact (group_no_empty l r E).
  - assert (Hl : exists l', l = g :: l').
    { pose proof (group_concat l) as G. rewrite E in G. cbn in G. exists (b ++ concat r). symmetry. exact G. }
    destruct Hl as [l' ->]. destruct C as [C1 _].
    inversion IH as [|? ? Sg Sr]; subst.
    destruct (same_class (mi_v f) (mi_v g)) eqn:Sc.
    + apply same_class_spec in Sc. constructor; [|exact Sr]. cbn [start_sorted sorted_from] in *.
      split; [lia|]. destruct Sg as [_ Sg]. split; [apply C1; exact Sc|exact Sg].
    + constructor; [|exact IH]. cbn. split; [lia|exact I].
Qed.

Lemma l_sorted_one_stretch (R : str * str * str -> str * str * str -> Prop) fs : (forall a b, R a b -> R b a -> a = b) ->
  StronglySorted R (map (fun f => class_of (mi_v f)) fs) -> class_start_chain fs ->
  NoDup (map block_class (group fs)) /\ Forall start_sorted (group fs).
Proof. intros HR S C. split; [exact (l_sorted_classes_once R HR fs S)|exact (chain_start_sorted fs C)]. Qed.
