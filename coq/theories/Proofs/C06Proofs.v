(* Proofs/C06Proofs.v — region()/limit queries select exactly the overlapping / contained rows. *)
From GV Require Import Base.Prelude Base.PyStr Model.Bins Model.DB Model.Query Proofs.BinsProofs.
From Coq Require Import ZifyBool.
Open Scope Z_scope.

(* ---- specification ---- *)
Definition seq_ok (seqid : option str) (r : row) : bool :=
  match seqid with Some s => str_eqb (r_seqid r) s | None => true end.
Definition overlaps (S E : Z) (r : row) : bool := col_cmp Z.leb (r_start r) E && col_cmp Z.geb (r_end r) S.
Definition within (S E : Z) (r : row) : bool := col_cmp Z.geb (r_start r) S && col_cmp Z.leb (r_end r) E.
Definition strand_ok (s : option str) (r : row) : bool :=
  match s with Some st => str_eqb (r_strand r) st | None => true end.
Definition ft_ok (f : ftfilter) (r : row) : bool :=
  match f with FNone => true | FStr s => str_eqb (r_ftype r) s | FList l => mem_str (r_ftype r) l end.

Definition spec_region (d : db) (seqid : option str) (pos : row -> bool) (strand : option str) (ft : ftfilter) : list row :=
  filter (fun r => seq_ok seqid r && pos r && strand_ok strand r && ft_ok ft r) (d_rows d).

Definition ft_given (f : ftfilter) : Prop := f <> FList [].
Definition wf_row (r : row) : bool := row_ok r && bin_consistent r.

Lemma ft_region_ok ft r : ft_given ft -> ft_region ft r = Ok (ft_ok ft r).
Proof. destruct ft as [| s | [|x l]]; simpl; intros H; try reflexivity. exfalso. apply H. reflexivity. Qed.

Lemma region_eq d a pos : ft_given (ra_ftype a) -> region_has_position a = true ->
  (forall r, In r (d_rows d) -> region_row a r = seq_ok (ra_seqid a) r && pos r && strand_ok (ra_strand a) r) ->
  region d a = Ok (spec_region d (ra_seqid a) pos (ra_strand a) (ra_ftype a)).
Proof.
  intros Hft Hpos Hrow. unfold region. rewrite Hpos. cbn [negb].
  rewrite (ft_region_ok _ _ Hft). f_equal. unfold spec_region.
  apply filter_ext_in. intros r Hin. rewrite (Hrow r Hin), (ft_region_ok _ _ Hft). reflexivity.
Qed.

Lemma three_disjunct_Z S E fs fe : (fs <=? fe) = true -> S <= E ->
  ((E <=? fs) && (S >=? fs)) || ((E >=? fs) && (S <=? fe)) || ((E <=? fe) && (S >=? fe)) = (fs <=? E) && (fe >=? S).
Proof. intros. lia. Qed.

(* the three-disjunct clause is the overlap test on well-formed rows *)
Lemma three_disjunct_overlap S E r : row_ok r = true -> S <= E ->
  three_disjunct E S r = overlaps S E r.
Proof.
  unfold row_ok, three_disjunct, overlaps, val_cmp, col_cmp.
  destruct (r_start r) as [fs|], (r_end r) as [fe|]; intros H HSE; cbv beta iota in *; try discriminate; try reflexivity.
  apply three_disjunct_Z; assumption.
Qed.

(* a row inside [S,E] has its stored bin among the query's bins *)
Lemma bin_clause_harmless S E rs r : wf_row r = true -> 1 <= S -> S < MAXC -> E < MAXC ->
  bins Gff S E false = RSet rs -> within S E r = true -> bin_clause_ok rs r = true.
Proof.
  unfold wf_row, row_ok, bin_consistent, within, col_cmp, bin_clause_ok.
  destruct (r_start r) as [fs|] eqn:Es, (r_end r) as [fe|] eqn:Ee; intros Hw HS HSm HEm Hb Hin;
    try (rewrite ?andb_false_r in *; simpl in *; discriminate).
  apply andb_prop in Hw as [Hle Hbin]. apply andb_prop in Hin as [H1 H2].
  simpl in Hbin. destruct (r_bin r) as [b|]; [|discriminate]. simpl in Hbin. apply Z.eqb_eq in Hbin. subst b.
  assert (Hr : in_range Gff S E = true) by (unfold in_range, MAXC in *; simpl; lia).
  pose proof (model_overlap_sound Gff fs fe S E Hr ltac:(lia) ltac:(lia)) as Hs.
  unfold bin_set_mem in Hs. rewrite Hb in Hs. exact Hs.
Qed.

Lemma overlap_bin_clause S E rs r : wf_row r = true -> 1 <= S -> S <= E -> S < MAXC -> E < MAXC ->
  bins Gff S E false = RSet rs -> overlaps S E r = true -> bin_clause_ok rs r = true.
Proof.
  unfold wf_row, row_ok, bin_consistent, overlaps, col_cmp, bin_clause_ok.
  destruct (r_start r) as [fs|] eqn:Es, (r_end r) as [fe|] eqn:Ee; intros Hw HS HSE HSm HEm Hb Hin;
    try (rewrite ?andb_false_r in *; simpl in *; discriminate).
  apply andb_prop in Hw as [Hle Hbin]. apply andb_prop in Hin as [H1 H2].
  simpl in Hbin. destruct (r_bin r) as [b|]; [|discriminate]. simpl in Hbin. apply Z.eqb_eq in Hbin. subst b.
  assert (Hr : in_range Gff S E = true) by (unfold in_range, MAXC in *; simpl; lia).
  pose proof (model_overlap_sound Gff fs fe S E Hr ltac:(lia) ltac:(lia)) as Hs.
  unfold bin_set_mem in Hs. rewrite Hb in Hs. exact Hs.
Qed.

(* ---- region(): both bounds ---- *)
Lemma l_region_overlap d seqid S E strand ft :
  Forall (fun r => row_ok r = true) (d_rows d) -> 1 <= S <= E -> ft_given ft ->
  region d (mkRegion seqid (Some S) (Some E) strand ft false)
  = Ok (spec_region d seqid (overlaps S E) strand ft).
Proof.
  intros Hrows HSE Hft. apply (region_eq d (mkRegion seqid (Some S) (Some E) strand ft false)); [exact Hft| |].
  - unfold region_has_position. simpl. destruct seqid; [reflexivity|]. replace (S =? 0) with false by lia. reflexivity.
  - intros r Hin. rewrite Forall_forall in Hrows. specialize (Hrows r Hin).
    unfold region_row, region_bin_set. cbn [ra_cw ra_start ra_end ra_seqid ra_strand truthy andb negb].
    replace (E =? 0) with false by lia. replace (S =? 0) with false by lia. cbn [negb andb].
    rewrite (three_disjunct_overlap S E r Hrows) by lia.
    unfold seq_ok, strand_ok. destruct seqid, strand; rewrite ?andb_true_r; reflexivity.
Qed.

Lemma l_region_within d seqid S E strand ft :
  Forall (fun r => wf_row r = true) (d_rows d) -> 1 <= S <= E -> ft_given ft ->
  region d (mkRegion seqid (Some S) (Some E) strand ft true)
  = Ok (spec_region d seqid (within S E) strand ft).
Proof.
  intros Hrows HSE Hft. apply (region_eq d (mkRegion seqid (Some S) (Some E) strand ft true)); [exact Hft| |].
  - unfold region_has_position. simpl. destruct seqid; [reflexivity|]. replace (S =? 0) with false by lia. reflexivity.
  - intros r Hin. rewrite Forall_forall in Hrows. specialize (Hrows r Hin).
    unfold region_row, region_bin_set. cbn [ra_cw ra_start ra_end ra_seqid ra_strand truthy andb negb].
    replace (E =? 0) with false by lia. replace (S =? 0) with false by lia. cbn [negb andb].
    fold (within S E r).
    assert (Hbin : forall rs, S < MAXC -> E < MAXC -> bins Gff S E false = RSet rs ->
                   within S E r && bin_clause_ok rs r = within S E r).
    { intros rs H1 H2 Hb. destruct (within S E r) eqn:Hw; [|reflexivity].
      rewrite (bin_clause_harmless S E rs r Hrows ltac:(lia) H1 H2 Hb Hw). reflexivity. }
    destruct ((S <? MAXC) && (E <? MAXC)) eqn:Hm.
    + destruct (bins Gff S E false) as [b|rs|] eqn:Hb.
      * unfold seq_ok, strand_ok. destruct seqid, strand; rewrite ?andb_true_r; reflexivity.
      * destruct (set_size rs <? 900).
        -- rewrite <- (Hbin rs ltac:(lia) ltac:(lia) eq_refl) at 2.
           unfold seq_ok, strand_ok. destruct seqid, strand; rewrite ?andb_true_r, ?andb_assoc; reflexivity.
        -- unfold seq_ok, strand_ok. destruct seqid, strand; rewrite ?andb_true_r; reflexivity.
      * unfold seq_ok, strand_ok. destruct seqid, strand; rewrite ?andb_true_r; reflexivity.
    + unfold seq_ok, strand_ok. destruct seqid, strand; rewrite ?andb_true_r; reflexivity.
Qed.

(* ---- region(): one bound ---- *)
Definition ends_after (S : Z) (r : row) : bool := col_cmp Z.gtb (r_end r) S.
Definition starts_before (E : Z) (r : row) : bool := col_cmp Z.ltb (r_start r) E.
Definition starts_from (S : Z) (r : row) : bool := col_cmp Z.geb (r_start r) S.
Definition ends_by (E : Z) (r : row) : bool := col_cmp Z.leb (r_end r) E.

Lemma l_region_start_only d seqid S strand ft cw : 1 <= S -> ft_given ft ->
  region d (mkRegion seqid (Some S) None strand ft cw)
  = Ok (spec_region d seqid (if cw then starts_from S else ends_after S) strand ft).
Proof.
  intros HS Hft. apply (region_eq d (mkRegion seqid (Some S) None strand ft cw)); [exact Hft| |].
  - unfold region_has_position. simpl. destruct seqid; [reflexivity|]. replace (S =? 0) with false by lia. reflexivity.
  - intros r _. unfold region_row, region_bin_set.
    cbn [ra_cw ra_start ra_end ra_seqid ra_strand]. destruct cw; cbn [truthy andb negb];
    replace (S =? 0) with false by lia; cbn [negb andb];
    unfold seq_ok, strand_ok, ends_after, starts_from; destruct seqid, strand; rewrite ?andb_true_r; reflexivity.
Qed.

Lemma l_region_end_only d seqid E strand ft cw : 1 <= E -> ft_given ft ->
  region d (mkRegion seqid None (Some E) strand ft cw)
  = Ok (spec_region d seqid (if cw then ends_by E else starts_before E) strand ft).
Proof.
  intros HS Hft. apply (region_eq d (mkRegion seqid None (Some E) strand ft cw)); [exact Hft| |].
  - unfold region_has_position. cbn [ra_seqid ra_start ra_end truthy]. destruct seqid; [reflexivity|].
    replace (E =? 0) with false by lia. reflexivity.
  - intros r _. unfold region_row, region_bin_set.
    cbn [ra_cw ra_start ra_end ra_seqid ra_strand]. destruct cw; cbn [truthy andb negb];
    replace (E =? 0) with false by lia; cbn [negb andb];
    unfold seq_ok, strand_ok, ends_by, starts_before; destruct seqid, strand; rewrite ?andb_true_r; reflexivity.
Qed.

(* what the one-sided forms guarantee, in the property's words *)
Lemma l_one_sided_meaning S E r fs fe : r_start r = Some fs -> r_end r = Some fe ->
  (ends_after S r = true <-> fe > S) /\ (starts_before E r = true <-> fs < E).
Proof. intros H1 H2. unfold ends_after, starts_before, col_cmp. rewrite H1, H2. lia. Qed.

(* ---- argument forms ---- *)
Lemma l_forms_feature_tuple seqid s e fstrand strand ft cw :
  region_of_form (RFeature seqid s e fstrand) strand ft cw = region_of_form (RTuple seqid s e) strand ft cw.
Proof. reflexivity. Qed.

Lemma l_forms_kw_tuple seqid s e strand ft cw :
  region_of_form (RKw (Some seqid) s e) strand ft cw = region_of_form (RTuple seqid s e) strand ft cw.
Proof. reflexivity. Qed.

(* ---- limit= of all_features / features_of_type / children / parents ---- *)
Definition ft_query_given (f : ftfilter) : Prop := f <> FList [] /\ f <> FStr [].
Definition strand_given (s : option str) : Prop := s <> Some [].

Lemma ft_query_ok ft r : ft_query_given ft -> ft_query ft r = ft_ok ft r.
Proof.
  intros [H1 H2]. destruct ft as [| [|c s] | [|x l]]; simpl; try reflexivity; exfalso; auto.
Qed.

Lemma strand_query_ok s r : strand_given s -> strand_query s r = strand_ok s r.
Proof. intros H. destruct s as [[|c s]|]; simpl; try reflexivity. exfalso. apply H. reflexivity. Qed.

Lemma limit_row_spec l cw r : wf_row r = true -> 1 <= la_start l <= la_end l ->
  limit_row l cw r = str_eqb (r_seqid r) (la_seqid l) &&
                     (if cw then within (la_start l) (la_end l) r else overlaps (la_start l) (la_end l) r).
Proof.
  intros Hw HSE. unfold limit_row, limit_bin_set.
  set (S := la_start l) in *. set (E := la_end l) in *.
  fold (within S E r). fold (overlaps S E r).
  destruct (bins Gff S E false) as [b|rs|] eqn:Hb; try (rewrite andb_true_r; reflexivity).
  destruct ((set_size rs <? 900) && (1 <=? S) && (E <? MAXC)) eqn:Hc; [|rewrite andb_true_r; reflexivity].
  assert (HE : E < MAXC) by lia. assert (HS : S < MAXC) by lia.
  destruct cw.
  - destruct (within S E r) eqn:Hin; [|rewrite !andb_false_r; reflexivity].
    rewrite (bin_clause_harmless S E rs r Hw ltac:(lia) HS HE Hb Hin). rewrite !andb_true_r. reflexivity.
  - destruct (overlaps S E r) eqn:Hin; [|rewrite !andb_false_r; reflexivity].
    rewrite (overlap_bin_clause S E rs r Hw ltac:(lia) ltac:(lia) HS HE Hb Hin). rewrite !andb_true_r. reflexivity.
Qed.

Definition spec_limit (l : limit_args) (cw : bool) (r : row) : bool :=
  str_eqb (r_seqid r) (la_seqid l) &&
  (if cw then within (la_start l) (la_end l) r else overlaps (la_start l) (la_end l) r).

Lemma l_limit_all_features d ft l cw strand :
  Forall (fun r => wf_row r = true) (d_rows d) -> 1 <= la_start l <= la_end l ->
  ft_query_given ft -> strand_given strand ->
  all_features d ft (Some l) cw strand
  = filter (fun r => ft_ok ft r && spec_limit l cw r && strand_ok strand r) (d_rows d).
Proof.
  intros Hrows HSE Hft Hst. unfold all_features. apply filter_ext_in. intros r Hin.
  rewrite Forall_forall in Hrows. unfold query_row.
  rewrite (ft_query_ok _ _ Hft), (strand_query_ok _ _ Hst), (limit_row_spec l cw r (Hrows r Hin) HSE). reflexivity.
Qed.

Lemma l_limit_relation d dir id level ft l cw :
  Forall (fun r => wf_row r = true) (d_rows d) -> 1 <= la_start l <= la_end l -> ft_query_given ft ->
  relation d dir id level ft (Some l) cw
  = filter (fun r => related d dir id level r && (ft_ok ft r && spec_limit l cw r)) (d_rows d).
Proof.
  intros Hrows HSE Hft. unfold relation. apply filter_ext_in. intros r Hin.
  rewrite Forall_forall in Hrows. unfold query_row. cbn [strand_query].
  rewrite (ft_query_ok _ _ Hft), (limit_row_spec l cw r (Hrows r Hin) HSE), andb_true_r. reflexivity.
Qed.

(* each feature once: results are sub-lists of the table, whose ids are unique *)
Lemma l_region_once d a rows : NoDup (map r_id (d_rows d)) -> region d a = Ok rows -> NoDup (map r_id rows).
Proof.
  intros Hnd. unfold region. destruct (negb (region_has_position a)); [discriminate|].
  destruct (ft_region (ra_ftype a) _); [|discriminate]. intros H. inversion H; subst. clear H.
  induction (d_rows d) as [|r l IH]; simpl; [constructor|].
  inversion Hnd; subst.
  destruct (region_row a r && _); simpl; [|apply IH; assumption].
  constructor; [|apply IH; assumption].
  intros Hin. apply H1. apply in_map_iff in Hin as (x & Hx & Hf). apply filter_In in Hf as [Hf _].
  apply in_map_iff. exists x. split; assumption.
Qed.

(* ---------- string forms ---------- *)
From GV Require Import Proofs.SplitJoin Proofs.IntStr.
(* "seqid:start-end" = (seqid, start, end): the string form of region() is parsed into the tuple form *)
Theorem l_forms_string_tuple seqid s e strand ft cw : ~ In 58%N seqid -> 0 <= s -> 0 <= e ->
  region_of_form (RString (seqid ++ colon ++ str_of_int s ++ dash ++ str_of_int e)) strand ft cw
  = region_of_form (RTuple seqid (Some s) (Some e)) strand ft cw.
Proof.
  intros Hc Hs He. unfold region_of_form, colon, dash.
  assert (Hd : forall n, 0 <= n -> ~ In 45%N (str_of_int n)) by (intros n Hn; apply str_of_nonneg_no_char; [exact Hn|reflexivity]).
  assert (Hk : forall n, 0 <= n -> ~ In 58%N (str_of_int n)) by (intros n Hn; apply str_of_nonneg_no_char; [exact Hn|reflexivity]).
  change (seqid ++ [58%N] ++ str_of_int s ++ [45%N] ++ str_of_int e) with (seqid ++ 58%N :: (str_of_int s ++ 45%N :: str_of_int e)).
  rewrite split1_head by exact Hc.
  rewrite split1_nosep.
  2:{ intros Hin. apply in_app_or in Hin as [Hin|[Hin|Hin]]; [exact (Hk s Hs Hin)|discriminate|exact (Hk e He Hin)]. }
  rewrite split1_head by (apply Hd; exact Hs). rewrite split1_nosep by (apply Hd; exact He).
  rewrite !int_str_roundtrip. reflexivity.
Qed.

Theorem l_limit_string_tuple seqid s e : ~ In 58%N seqid -> 0 <= s -> 0 <= e ->
  limit_of_form (LString (seqid ++ colon ++ str_of_int s ++ dash ++ str_of_int e)) = limit_of_form (LTuple (mkLimit seqid s e)).
Proof.
  intros Hc Hs He. unfold limit_of_form, colon, dash.
  assert (Hd : forall n, 0 <= n -> ~ In 45%N (str_of_int n)) by (intros n Hn; apply str_of_nonneg_no_char; [exact Hn|reflexivity]).
  assert (Hk : forall n, 0 <= n -> ~ In 58%N (str_of_int n)) by (intros n Hn; apply str_of_nonneg_no_char; [exact Hn|reflexivity]).
  change (seqid ++ [58%N] ++ str_of_int s ++ [45%N] ++ str_of_int e) with (seqid ++ 58%N :: (str_of_int s ++ 45%N :: str_of_int e)).
  destruct (seqid ++ 58%N :: str_of_int s ++ 45%N :: str_of_int e) as [|c0 r0] eqn:E; [destruct seqid; discriminate|]. rewrite <- E.
  rewrite split1_head by exact Hc.
  rewrite split1_nosep.
  2:{ intros Hin. apply in_app_or in Hin as [Hin|[Hin|Hin]]; [exact (Hk s Hs Hin)|discriminate|exact (Hk e He Hin)]. }
  rewrite split1_head by (apply Hd; exact Hs). rewrite split1_nosep by (apply Hd; exact He).
  rewrite !int_str_roundtrip. reflexivity.
Qed.
