(* Proofs/C03Pop.v — the populate phase of the GTF importer on ordinary lines (no explicit gene / transcript lines):
   every line is stored once, in order, under a fresh <featuretype>_<n> key, and the relations table is the union of
   the lines' relation triples. *)
From GV Require Import Base.Prelude Base.PyStr Model.Bins Model.DB Model.Parser Model.Import Model.GtfSpec
  Proofs.C02Proofs Proofs.C04Proofs Proofs.C05Proofs Proofs.C16Proofs Proofs.C03Proofs Proofs.C03End Proofs.C03Ids.
Open Scope Z_scope.

Lemma assign_fst : forall fs a, map fst (assign fs a) = fs.
Proof. induction fs as [|f fs IH]; intros a; [reflexivity|]. cbn [assign map fst]. rewrite IH. reflexivity. Qed.

Lemma assign_issued : forall fs a, nonneg a ->
  nonneg (last_auto fs a) /\
  (forall id, issued a id -> issued (last_auto fs a) id) /\
  (forall p, In p (assign fs a) -> issued (last_auto fs a) (snd p) /\ ~ issued a (snd p)) /\
  NoDup (map snd (assign fs a)).
Proof.
  induction fs as [|f fs IH]; intros a Hn; cbn [assign last_auto].
  - split; [exact Hn|]. split; [auto|]. split; [intros p []|constructor].
  - pose proof (auto_incr_spec (r_ftype f) a Hn) as S. destruct (auto_incr (r_ftype f) a) as [nid a'] eqn:E.
    cbn [fst snd]. destruct S as [Hn' [Hfresh [Hiss Hmono]]]. destruct (IH a' Hn') as [A [B [C D]]].
    split; [exact A|]. split; [intros id Hid; apply B; apply Hmono; exact Hid|]. split.
    + intros p [<-|Hp]; cbn [snd].
      * split; [apply B; exact Hiss|exact Hfresh].
      * destruct (C p Hp) as [C1 C2]. split; [exact C1|]. intros X. apply C2. apply Hmono. exact X.
    + cbn [map snd]. constructor; [|exact D]. intros X. apply in_map_iff in X as [p [Ep Hp]].
      destruct (C p Hp) as [_ C2]. apply C2. rewrite Ep. exact Hiss.
Qed.

Section Pop.
  Variable call : nat -> row -> option str.
  Variables (g : gtfcfg) (strat : strategy) (force : list field).

  Lemma ordinary_id f a : ordinary f -> id_handler call (gtf_spec g) f a = Ok (auto_incr (r_ftype f) a).
  Proof.
    intros [A B]. unfold id_handler, gtf_spec. cbn [dict_spec]. rewrite A, B. reflexivity.
  Qed.

  Lemma has_id_issued id rows a : (forall r, In r rows -> issued a (r_id r)) -> ~ issued a id -> has_id id rows = false.
  Proof.
    intros Hall Hn. destruct (has_id id rows) eqn:E; [|reflexivity]. exfalso. apply Hn.
    unfold has_id in E. apply existsb_exists in E as [r [Hr Er]]. apply str_eqb_eq in Er. rewrite <- Er. apply Hall. exact Hr.
  Qed.

  (* the populate phase, from any state whose keys were all handed out by the counters *)
  Lemma populate : forall fs st, (forall f, In f fs -> ordinary f) -> nonneg (s_auto st) ->
    (forall r, In r (s_rows st) -> issued (s_auto st) (r_id r)) ->
    run_steps (step_gtf call g strat force (gtf_spec g)) fs st =
    Ok (mkSt (s_rows st ++ map place (assign fs (s_auto st)))
             (add_rels (s_rels st) (flat_map (fun p => gtf_relations g (fst p) (snd p)) (assign fs (s_auto st))))
             (s_dups st) (last_auto fs (s_auto st))).
  Proof.
    induction fs as [|f fs IH]; intros st Hord Hn Hiss.
    - cbn. rewrite app_nil_r. destruct st; reflexivity.
    - cbn [run_steps assign last_auto map flat_map]. unfold step_gtf, store.
      rewrite ordinary_id by (apply Hord; left; reflexivity).
      pose proof (auto_incr_spec (r_ftype f) (s_auto st) Hn) as S.
      destruct (auto_incr (r_ftype f) (s_auto st)) as [nid a'] eqn:E. cbn [fst snd s_rows s_rels s_dups s_auto].
      destruct S as [Hn' [Hfresh [Hnew Hmono]]].
      rewrite (has_id_issued nid (s_rows st) (s_auto st) Hiss Hfresh).
      rewrite IH.
      + cbn [s_rows s_rels s_dups s_auto]. unfold place at 2. cbn [fst snd]. rewrite <- app_assoc. cbn [app].
        rewrite add_rels_app. reflexivity.
      + intros x Hx. apply Hord. right. exact Hx.
      + exact Hn'.
      + cbn [s_rows s_auto]. intros r Hr. apply in_app_or in Hr as [Hr|[<-|[]]].
        * apply Hmono. apply Hiss. exact Hr.
        * cbn [r_id set_bin set_id]. exact Hnew.
  Qed.
End Pop.

(* ---------- the populated state, and what the inference queries see in it ---------- *)
Section Populated.
  Variable g : gtfcfg.
  Variable fs : list row.
  Let A := assign fs [].
  Let R := flat_map (fun p => gtf_relations g (fst p) (snd p)) A.
  Definition populated_st : ist := mkSt (map place A) (add_rels [] R) [] (last_auto fs []).

  Let tk (f : row) := first_val (g_tkey g) f.
  Let gk (f : row) := first_val (g_gkey g) f.

  (* the domain: ordinary lines carrying both ids; generated keys, transcript ids and gene ids are three disjoint sets *)
  Hypothesis Hboth : forall f, In f fs -> exists t gn, tk f = Some t /\ gk f = Some gn /\ t <> gn.
  Hypothesis Hkeys : forall p f, In p A -> In f fs -> tk f <> Some (snd p) /\ gk f <> Some (snd p).
  Hypothesis Htg : forall f f' v, In f fs -> In f' fs -> tk f = Some v -> gk f' <> Some v.

  Lemma A_fst p : In p A -> In (fst p) fs.
  Proof. intros H. rewrite <- (assign_fst fs []). apply in_map. exact H. Qed.

  Lemma A_nodup : NoDup (map snd A).
  Proof. apply (assign_issued fs []). intros k. cbn. lia. Qed.

  Lemma A_inj p q : In p A -> In q A -> snd p = snd q -> p = q.
  Proof.
    pose proof A_nodup as N. revert N. generalize A as l. induction l as [|x l IH]; intros N Hp Hq E; [contradiction|].
    cbn [map] in N. inversion N as [|? ? Hni N']; subst. destruct Hp as [<-|Hp]; destruct Hq as [<-|Hq].
    - reflexivity.
    - exfalso. apply Hni. rewrite E. apply in_map. exact Hq.
    - exfalso. apply Hni. rewrite <- E. apply in_map. exact Hp.
    - apply IH; assumption.
  Qed.

  Lemma rel_in x : In x (s_rels populated_st) <->
    exists p t gn, In p A /\ tk (fst p) = Some t /\ gk (fst p) = Some gn /\
                   (x = mkRel t (snd p) 1 \/ x = mkRel gn (snd p) 2 \/ x = mkRel gn t 1).
  Proof.
    cbn [populated_st s_rels]. rewrite add_rels_In. unfold R. rewrite in_flat_map. split.
    - intros [[]|[p [Hp Hx]]]. destruct (Hboth _ (A_fst p Hp)) as (t & gn & Et & Eg & Ne).
      destruct (Hkeys p (fst p) Hp (A_fst p Hp)) as [K1 K2].
      rewrite (l_ordinary_line g (fst p) (snd p) t gn Et Eg) in Hx; [| congruence | congruence | exact Ne].
      exists p, t, gn. repeat split; try assumption. cbn [In] in Hx. intuition.
    - intros (p & t & gn & Hp & Et & Eg & Hx). right. exists p. split; [exact Hp|].
      destruct (Hboth _ (A_fst p Hp)) as (t' & gn' & Et' & Eg' & Ne). unfold tk, gk in *. rewrite Et in Et'. rewrite Eg in Eg'.
      inversion Et'; inversion Eg'; subst t' gn'.
      destruct (Hkeys p (fst p) Hp (A_fst p Hp)) as [K1 K2].
      rewrite (l_ordinary_line g (fst p) (snd p) t gn Et Eg); [| unfold tk in K1; congruence | unfold gk in K2; congruence | exact Ne].
      cbn [In]. intuition.
  Qed.

  Definition related (v i : str) : bool :=
    existsb (fun x => str_eqb (rel_parent x) v && str_eqb (rel_child x) i) (s_rels populated_st).

  Lemma related_spec v i : related v i = true <-> exists l, In (mkRel v i l) (s_rels populated_st).
  Proof.
    unfold related. rewrite existsb_exists. split.
    - intros [x [Hx E]]. apply andb_prop in E as [E1 E2]. apply str_eqb_eq in E1. apply str_eqb_eq in E2.
      destruct x as [xp xc xl]. cbn in *. subst. exists xl. exact Hx.
    - intros [l Hl]. exists (mkRel v i l). split; [exact Hl|]. cbn. rewrite !str_eqb_refl. reflexivity.
  Qed.

  (* a stored line is related to a transcript id exactly when it carries that transcript id ... *)
  Lemma related_transcript p v : In p A -> (exists f0, In f0 fs /\ tk f0 = Some v) ->
    (related v (snd p) = true <-> tk (fst p) = Some v).
  Proof.
    intros Hp [f0 [Hf0 E0]]. rewrite related_spec. split.
    - intros [l Hl]. apply rel_in in Hl as (q & t & gn & Hq & Et & Eg & [E|[E|E]]); injection E as Ev Ei El.
      + assert (q = p) by (apply A_inj; auto). subst q. rewrite Ev. exact Et.
      + exfalso. apply (Htg f0 (fst q) v Hf0 (A_fst q Hq) E0). rewrite Ev. exact Eg.
      + exfalso. destruct (Hkeys p (fst q) Hp (A_fst q Hq)) as [K _]. apply K. rewrite Ei. exact Et.
    - intros Et. destruct (Hboth _ (A_fst p Hp)) as (t & gn & Et' & Eg & _). unfold tk in *. rewrite Et in Et'. inversion Et'; subst t.
      exists 1. apply rel_in. exists p, v, gn. repeat split; auto.
  Qed.

  (* ... and to a gene id exactly when it carries that gene id *)
  Lemma related_gene p v : In p A -> (exists f0, In f0 fs /\ gk f0 = Some v) ->
    (related v (snd p) = true <-> gk (fst p) = Some v).
  Proof.
    intros Hp [f0 [Hf0 E0]]. rewrite related_spec. split.
    - intros [l Hl]. apply rel_in in Hl as (q & t & gn & Hq & Et & Eg & [E|[E|E]]); injection E as Ev Ei El.
      + exfalso. apply (Htg (fst q) f0 v (A_fst q Hq) Hf0); [rewrite Ev; exact Et|exact E0].
      + assert (q = p) by (apply A_inj; auto). subst q. rewrite Ev. exact Eg.
      + exfalso. destruct (Hkeys p (fst q) Hp (A_fst q Hq)) as [K _]. apply K. rewrite Ei. exact Et.
    - intros Eg. destruct (Hboth _ (A_fst p Hp)) as (t & gn & Et & Eg' & _). unfold gk in *. rewrite Eg in Eg'. inversion Eg'; subst gn.
      exists 2. apply rel_in. exists p, t, v. repeat split; auto.
  Qed.

  (* the extent query on the populated state = the declarative extent over the input lines *)
  Definition keyed (key v : str) (f : row) : bool :=
    is_sub g f && match first_val key f with Some x => str_eqb x v | None => false end.

  Lemma filter_map_fst (Q : row -> bool) : forall l : list (row * str), map fst (filter (fun p => Q (fst p)) l) = filter Q (map fst l).
  Proof. induction l as [|p l IH]; [reflexivity|]. cbn [filter map]. destruct (Q (fst p)); cbn [map]; rewrite IH; reflexivity. Qed.

  Lemma kids_eq key v : (key = g_tkey g /\ exists f0, In f0 fs /\ tk f0 = Some v) \/ (key = g_gkey g /\ exists f0, In f0 fs /\ gk f0 = Some v) ->
    filter (fun r => str_eqb (r_ftype r) (g_sub g) && related v (r_id r)) (map place A)
    = map place (filter (fun p => keyed key v (fst p)) A).
  Proof.
    intros Hv. assert (P : forall p, In p A -> (str_eqb (r_ftype (place p)) (g_sub g) && related v (r_id (place p))) = keyed key v (fst p)).
    { intros p Hp. unfold keyed, is_sub, place. cbn [r_ftype r_id set_bin set_id]. destruct (str_eqb (r_ftype (fst p)) (g_sub g)); [|reflexivity].
      cbn [andb]. apply Bool.eq_true_iff_eq. destruct Hv as [[-> Hv]|[-> Hv]].
      - rewrite (related_transcript p v Hp Hv). unfold tk. destruct (first_val (g_tkey g) (fst p)) as [x|]; [|split; discriminate].
        rewrite str_eqb_eq. split; intros H; [inversion H; reflexivity|subst; reflexivity].
      - rewrite (related_gene p v Hp Hv). unfold gk. destruct (first_val (g_gkey g) (fst p)) as [x|]; [|split; discriminate].
        rewrite str_eqb_eq. split; intros H; [inversion H; reflexivity|subst; reflexivity]. }
    revert P. generalize A as l. induction l as [|p l IH]; intros P; [reflexivity|].
    cbn [map filter]. rewrite (P p (or_introl eq_refl)). destruct (keyed key v (fst p)); cbn [map]; rewrite IH; auto;
      intros q Hq; apply P; right; exact Hq.
  Qed.

  Lemma extent_shape (L : list (row * str)) :
    match map place L with
    | [] => None
    | k :: _ => match fold_right omin None (map r_start (map place L)), fold_right omax None (map r_end (map place L)) with
                | Some s, Some e => Some (s, e, r_strand k, r_seqid k) | _, _ => None end
    end =
    match map fst L with
    | [] => None
    | (k :: _) as kids => match min_start kids, max_end kids with Some s, Some e => Some (s, e, r_strand k, r_seqid k) | _, _ => None end
    end.
  Proof.
    assert (E1 : map r_start (map place L) = map r_start (map fst L)) by (rewrite !map_map; apply map_ext; intros p; reflexivity).
    assert (E2 : map r_end (map place L) = map r_end (map fst L)) by (rewrite !map_map; apply map_ext; intros p; reflexivity).
    destruct L as [|p L]; [reflexivity|]. rewrite E1, E2. reflexivity.
  Qed.

  Theorem l_extent_is_expected key v :
    (key = g_tkey g /\ exists f0, In f0 fs /\ tk f0 = Some v) \/ (key = g_gkey g /\ exists f0, In f0 fs /\ gk f0 = Some v) ->
    extent g populated_st v = expected_extent g key v fs.
  Proof.
    intros Hv. unfold extent. cbn [s_rows populated_st].
    change (fun r : row => str_eqb (r_ftype r) (g_sub g) &&
              existsb (fun x : rel => str_eqb (rel_parent x) v && str_eqb (rel_child x) (r_id r)) (s_rels populated_st))
      with (fun r : row => str_eqb (r_ftype r) (g_sub g) && related v (r_id r)).
    rewrite (kids_eq key v Hv). rewrite extent_shape. unfold expected_extent, subs_of.
    rewrite (filter_map_fst (keyed key v)). unfold A. rewrite assign_fst. reflexivity.
  Qed.

  (* the (transcript, gene) pairs the importer finds = transcripts that own a subfeature line, with their genes *)
  Lemma is_sub_row c : existsb (fun r => str_eqb (r_id r) c && str_eqb (r_ftype r) (g_sub g)) (map place A) = true <->
    exists p, In p A /\ snd p = c /\ is_sub g (fst p) = true.
  Proof.
    rewrite existsb_exists. split.
    - intros [r [Hr E]]. apply in_map_iff in Hr as [p [<- Hp]]. apply andb_prop in E as [E1 E2]. apply str_eqb_eq in E1.
      exists p. repeat split; [exact Hp|exact E1|exact E2].
    - intros [p [Hp [E1 E2]]]. exists (place p). split; [apply in_map; exact Hp|].
      unfold place. cbn [r_id r_ftype set_bin set_id]. rewrite E1, str_eqb_refl. exact E2.
  Qed.

  Theorem l_pairs_spec t gn : In (t, gn) (tg_pairs g populated_st) <->
    (exists f, In f fs /\ is_sub g f = true /\ tk f = Some t) /\ (exists f', In f' fs /\ tk f' = Some t /\ gk f' = Some gn).
  Proof.
    unfold tg_pairs. rewrite sort_pairs_In, dedup_pairs_In, in_flat_map. cbn [s_rows s_rels populated_st].
    fold populated_st. split.
    - intros [t0 [Ht0 Hx]]. apply in_map_iff in Hx as [x [E Hx]]. inversion E; subst t0. clear E.
      apply (proj1 (dedup_In _ _)) in Ht0. apply in_map_iff in Ht0 as [y [Ey Hy]]. apply filter_In in Hy as [Hy Fy].
      apply andb_prop in Fy as [Ly Sy]. apply Z.eqb_eq in Ly.
      assert (T : exists f, In f fs /\ is_sub g f = true /\ tk f = Some t).
      { change (add_rels [] R) with (s_rels populated_st) in Hy. apply rel_in in Hy as (p & t' & gn' & Hp & Et & Eg & [E|[E|E]]); subst y; cbn in *.
        - apply is_sub_row in Sy as [q [Hq [E1 E2]]]. assert (q = p) by (apply A_inj; auto). subst q.
          exists (fst p). split; [apply A_fst; exact Hp|]. split; [exact E2|]. subst t'. exact Et.
        - discriminate Ly.
        - apply is_sub_row in Sy as [q [Hq [E1 _]]]. exfalso. destruct (Hkeys q (fst p) Hq (A_fst p Hp)) as [K _]. apply K. rewrite E1. exact Et. }
      split; [exact T|]. destruct T as [f0 [Hf0 [_ E0]]].
      apply filter_In in Hx as [Hx Fx]. apply andb_prop in Fx as [Lx Cx]. apply Z.eqb_eq in Lx. apply str_eqb_eq in Cx.
      change (add_rels [] R) with (s_rels populated_st) in Hx. apply rel_in in Hx as (p & t' & gn' & Hp & Et & Eg & [E|[E|E]]); subst x; cbn in *.
      + exfalso. destruct (Hkeys p f0 Hp Hf0) as [K _]. apply K. rewrite Cx. exact E0.
      + discriminate Lx.
      + exists (fst p). split; [apply A_fst; exact Hp|]. subst t'. split; assumption.
    - intros [[f [Hf [Sf Ef]]] [f' [Hf' [Et' Eg']]]].
      assert (Hp : exists p, In p A /\ fst p = f).
      { rewrite <- (assign_fst fs []) in Hf. apply in_map_iff in Hf as [p [E Hp]]. exists p. auto. }
      destruct Hp as [p [Hp Ep]]. subst f.
      assert (Hq : exists q, In q A /\ fst q = f').
      { rewrite <- (assign_fst fs []) in Hf'. apply in_map_iff in Hf' as [q [E Hq]]. exists q. auto. }
      destruct Hq as [q [Hq Eq]]. subst f'.
      destruct (Hboth _ (A_fst p Hp)) as (t1 & gn1 & Et1 & Eg1 & _). unfold tk in *. rewrite Ef in Et1. inversion Et1; subst t1.
      exists t. split.
      + apply (proj2 (dedup_In _ _)). apply in_map_iff. exists (mkRel t (snd p) 1). split; [reflexivity|]. apply filter_In. split.
        * change (add_rels [] R) with (s_rels populated_st). apply rel_in. exists p, t, gn1. repeat split; auto.
        * cbn [rel_level rel_child]. change (1 =? 1) with true. cbn [andb]. apply is_sub_row. exists p. auto.
      + apply in_map_iff. exists (mkRel gn t 1). split; [reflexivity|]. apply filter_In. split.
        * change (add_rels [] R) with (s_rels populated_st). apply rel_in. exists q, t, gn. repeat split; auto.
        * cbn [rel_level rel_child]. rewrite str_eqb_refl. reflexivity.
  Qed.
End Populated.

(* ---------- the whole import, from the input lines ---------- *)
Lemma dedup_pairs_nodup : forall l, NoDup (dedup_pairs l).
Proof.
  induction l as [|x l IH]; [constructor|]. cbn [dedup_pairs]. destruct (existsb (pair_eqb2 x) l) eqn:E; [exact IH|].
  constructor; [|exact IH]. intros H. apply (proj1 (dedup_pairs_In _ _)) in H.
  assert (X : existsb (pair_eqb2 x) l = true).
  { apply existsb_exists. exists x. split; [exact H|]. unfold pair_eqb2. rewrite !str_eqb_refl. reflexivity. }
  congruence.
Qed.

Lemma nodup_fst_functional (l : list (str * str)) : NoDup l ->
  (forall t a b, In (t, a) l -> In (t, b) l -> a = b) -> NoDup (map fst l).
Proof.
  induction l as [|[t a] l IH]; intros N F; [constructor|]. inversion N as [|? ? Hni N']; subst. cbn [map fst]. constructor.
  - intros H. apply in_map_iff in H as [[t' b] [E Hb]]. cbn in E. subst t'.
    assert (a = b) by (apply (F t a b); [left; reflexivity|right; exact Hb]). subst. contradiction.
  - apply IH; [exact N'|]. intros t' x y Hx Hy. apply (F t' x y); right; assumption.
Qed.

Lemma import_gtf_nonempty call g strat force spec fs st : fs <> [] ->
  import_gtf call g strat force spec fs st =
  match run_steps (step_gtf call g strat force spec) fs st with
  | Err e => Err e
  | Ok s => update_relations_gtf call g force spec s
  end.
Proof. destruct fs; [congruence|reflexivity]. Qed.

Section Whole.
  Variable call : nat -> row -> option str.
  Variables (g : gtfcfg) (strat : strategy) (force : list field) (fs : list row).
  Let tk (f : row) := first_val (g_tkey g) f.
  Let gk (f : row) := first_val (g_gkey g) f.

  Hypothesis Hk1 : is_field_form (g_tkey g) = false.
  Hypothesis Hk2 : is_field_form (g_gkey g) = false.
  Hypothesis Hne : str_eqb (g_gkey g) (g_tkey g) = false.
  Hypothesis Hflags : g_no_genes g = false /\ g_no_transcripts g = false.
  Hypothesis Hord : forall f, In f fs -> ordinary f.
  Hypothesis Hboth : forall f, In f fs -> exists t gn, tk f = Some t /\ gk f = Some gn /\ t <> gn.
  Hypothesis Hkeys : forall p f, In p (assign fs []) -> In f fs -> tk f <> Some (snd p) /\ gk f <> Some (snd p).
  Hypothesis Htg : forall f f' v, In f fs -> In f' fs -> tk f = Some v -> gk f' <> Some v.
  Hypothesis Hone : forall f f', In f fs -> In f' fs -> tk f = tk f' -> gk f = gk f'.

  Let st1 := populated_st g fs.

  Lemma populate_empty : run_steps (step_gtf call g strat force (gtf_spec g)) fs empty_st = Ok st1.
  Proof.
    rewrite (populate call g strat force fs empty_st Hord).
    - reflexivity.
    - intros k. cbn. lia.
    - intros r [].
  Qed.

  Lemma run_insert_clean spec : forall ds st st', run_steps (insert_derived call force spec) ds st = Ok st' ->
    forall d, In d ds -> derived_clean d = true.
  Proof.
    induction ds as [|d0 ds IH]; intros st st' H d Hd; [contradiction|]. cbn [run_steps] in H.
    destruct (insert_derived call force spec st d0) as [s1|] eqn:E; [|discriminate]. destruct Hd as [<-|Hd].
    - unfold insert_derived in E. destruct (derived_clean d0); [reflexivity|discriminate].
    - apply (IH s1 st' H d Hd).
  Qed.

  Lemma has_id_placed c : has_id c (map place (assign fs [])) = true -> exists p, In p (assign fs []) /\ snd p = c.
  Proof.
    unfold has_id. rewrite existsb_exists. intros [r [Hr E]]. apply in_map_iff in Hr as [p [<- Hp]]. apply str_eqb_eq in E.
    exists p. split; [exact Hp|exact E].
  Qed.

  Lemma pairs_fst_nodup : NoDup (map fst (tg_pairs g st1)).
  Proof.
    apply nodup_fst_functional.
    - unfold tg_pairs. apply sort_pairs_nodup. apply dedup_pairs_nodup.
    - intros t a b Ha Hb. apply (l_pairs_spec g fs Hboth Hkeys) in Ha as [_ [f1 [H1 [E1 G1]]]].
      apply (l_pairs_spec g fs Hboth Hkeys) in Hb as [_ [f2 [H2 [E2 G2]]]].
      assert (X : gk f1 = gk f2) by (apply Hone; [exact H1|exact H2|]; unfold tk in *; congruence).
      unfold gk in *. congruence.
  Qed.

  Lemma pairs_disjoint t gn : In t (map fst (tg_pairs g st1)) -> In gn (map snd (tg_pairs g st1)) -> t <> gn.
  Proof.
    intros Ht Hg. apply in_map_iff in Ht as [[t0 g0] [E Ht]]. cbn in E. subst t0.
    apply in_map_iff in Hg as [[t1 g1] [E Hg]]. cbn in E. subst g1.
    apply (l_pairs_spec g fs Hboth Hkeys) in Ht as [[f [Hf [_ Ef]]] _].
    apply (l_pairs_spec g fs Hboth Hkeys) in Hg as [_ [f' [Hf' [_ Eg]]]].
    intros ->. apply (Htg f f' gn Hf Hf' Ef). exact Eg.
  Qed.

  Theorem l_import_gtf_end_to_end st' : fs <> [] ->
    import_gtf call g strat force (gtf_spec g) fs empty_st = Ok st' ->
    exists ds,
      s_rows st' = map place (assign fs []) ++ appended g ds /\ NoDup (map r_id (s_rows st')) /\
      (forall t x, expected_extent g (g_tkey g) t fs = Some x ->
         exists gn, (exists f, In f fs /\ tk f = Some t /\ gk f = Some gn) /\
                    find_id t (s_rows st') = Some (set_bin (set_id t (t_row g t gn x)))) /\
      (forall gn x, expected_extent g (g_gkey g) gn fs = Some x ->
         find_id gn (s_rows st') = Some (set_bin (set_id gn (g_row g gn x)))) /\
      (* the relations table: per line exactly (transcript, line, 1), (gene, line, 2), (gene, transcript, 1) - nothing else *)
      (forall x, In x (s_rels st') <->
         exists p t gn, In p (assign fs []) /\ tk (fst p) = Some t /\ gk (fst p) = Some gn /\
                        (x = mkRel t (snd p) 1 \/ x = mkRel gn (snd p) 2 \/ x = mkRel gn t 1)).
  Proof.
    intros Hnil Himp. rewrite (import_gtf_nonempty _ _ _ _ _ _ _ Hnil) in Himp.
    rewrite populate_empty in Himp. destruct Hflags as [NG NT].
    assert (Hd : exists ds, derive g st1 (tg_pairs g st1) None = Ok ds /\ run_steps (insert_derived call force (gtf_spec g)) ds st1 = Ok st').
    { unfold update_relations_gtf in Himp. rewrite NG, NT in Himp. cbn [andb] in Himp.
      destruct (derive g st1 (tg_pairs g st1) None) as [ds|]; [|discriminate]. exists ds. split; [reflexivity|exact Himp]. }
    destruct Hd as [ds [Hder Hrun]]. exists ds.
    pose proof (run_insert_clean _ _ _ _ Hrun) as Hclean.
    assert (Hnew : forall d, In d ds -> has_id (did g d) (s_rows st1) = false).
    { intros d Hd. destruct (has_id (did g d) (s_rows st1)) eqn:E; [|reflexivity]. exfalso.
      apply has_id_placed in E as [p [Hp Ep]].
      destruct (derive_sound g st1 _ _ _ Hder d Hd) as (t & gn & x & Hin & [[-> _]|[-> _]]).
      - rewrite did_t in Ep by exact Hne. apply (l_pairs_spec g fs Hboth Hkeys) in Hin as [[f [Hf [_ Ef]]] _].
        destruct (Hkeys p f Hp Hf) as [K _]. apply K. rewrite Ep. exact Ef.
      - rewrite did_g in Ep. apply (l_pairs_spec g fs Hboth Hkeys) in Hin as [_ [f [Hf [_ Eg]]]].
        destruct (Hkeys p f Hp Hf) as [_ K]. apply K. rewrite Ep. exact Eg. }
    assert (Hnd : NoDup (map (did g) ds)).
    { apply (l_derived_ids_nodup g st1 ds Hne Hder pairs_fst_nodup). exact pairs_disjoint. }
    assert (Hrows1 : NoDup (map r_id (s_rows st1))).
    { cbn [st1 populated_st s_rows]. rewrite map_map. replace (map (fun x => r_id (place x)) (assign fs [])) with (map snd (assign fs [])).
      - apply (assign_issued fs []). intros k. cbn. lia.
      - apply map_ext. intros p. reflexivity. }
    assert (Hst' : st' = mkSt (s_rows st1 ++ appended g ds) (s_rels st1) (s_dups st1) (s_auto st1)).
    { pose proof (l_gtf_inference call g force st1 ds Hk1 Hk2 Hne) as L.
      rewrite NG, NT in L. specialize (L eq_refl Hder Hclean Hnd Hnew).
      unfold update_relations_gtf in Himp, L. rewrite NG, NT in Himp, L. cbn [andb] in Himp, L. rewrite Himp in L. inversion L. reflexivity. }
    subst st'. cbn [s_rows s_rels]. split; [reflexivity|]. split; [apply l_gtf_ids_unique; assumption|]. split; [|split].
    - intros t x Hx.
      assert (Hf : exists f, In f fs /\ is_sub g f = true /\ tk f = Some t).
      { unfold expected_extent in Hx. destruct (subs_of g (g_tkey g) t fs) as [|k kids] eqn:S; [discriminate|].
        assert (Hk : In k (subs_of g (g_tkey g) t fs)) by (rewrite S; left; reflexivity).
        unfold subs_of in Hk. apply filter_In in Hk as [Hk F]. apply andb_prop in F as [F1 F2]. exists k. split; [exact Hk|]. split; [exact F1|].
        unfold tk. destruct (first_val (g_tkey g) k) as [v|]; [|discriminate]. apply str_eqb_eq in F2. subst. reflexivity. }
      destruct Hf as [f [Hf [Sf Ef]]]. destruct (Hboth f Hf) as (t' & gn & Et & Eg & _). unfold tk in *. rewrite Ef in Et. inversion Et; subst t'.
      exists gn. split; [exists f; auto|].
      assert (Hin : In (t, gn) (tg_pairs g st1)).
      { apply (l_pairs_spec g fs Hboth Hkeys). split; exists f; auto. }
      destruct (l_transcript_inferred g st1 ds t gn Hne NT Hder Hrows1 Hnd Hnew Hin) as [x' [Ex Hfind]].
      unfold st1 in Ex. rewrite (l_extent_is_expected g fs Hboth Hkeys Htg (g_tkey g) t) in Ex by (left; split; [reflexivity|exists f; auto]).
      rewrite Hx in Ex. inversion Ex; subst x'. exact Hfind.
    - intros gn x Hx.
      assert (Hf : exists f, In f fs /\ is_sub g f = true /\ gk f = Some gn).
      { unfold expected_extent in Hx. destruct (subs_of g (g_gkey g) gn fs) as [|k kids] eqn:S; [discriminate|].
        assert (Hk : In k (subs_of g (g_gkey g) gn fs)) by (rewrite S; left; reflexivity).
        unfold subs_of in Hk. apply filter_In in Hk as [Hk F]. apply andb_prop in F as [F1 F2]. exists k. split; [exact Hk|]. split; [exact F1|].
        unfold gk. destruct (first_val (g_gkey g) k) as [v|]; [|discriminate]. apply str_eqb_eq in F2. subst. reflexivity. }
      destruct Hf as [f [Hf [Sf Eg]]]. destruct (Hboth f Hf) as (t & gn' & Et & Eg' & _). unfold gk in *. rewrite Eg in Eg'. inversion Eg'; subst gn'.
      assert (Hin : In (t, gn) (tg_pairs g st1)).
      { apply (l_pairs_spec g fs Hboth Hkeys). split; exists f; auto. }
      apply (l_gene_inferred g st1 ds t gn x NG Hder Hrows1 Hnd Hnew Hin).
      unfold st1. rewrite (l_extent_is_expected g fs Hboth Hkeys Htg (g_gkey g) gn) by (right; split; [reflexivity|exists f; auto]).
      exact Hx.
    - intros x. unfold st1. apply (rel_in g fs Hboth Hkeys).
  Qed.
End Whole.
