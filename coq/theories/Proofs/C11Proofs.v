(* Proofs/C11Proofs.v — ORDER BY model: the comparator is a total preorder, the sort returns a
   sorted permutation; filters are exact; counts and DISTINCT lists agree with a scan. *)
From GV Require Import Base.Prelude Base.PyStr Model.Bins Model.DB Model.Parser Model.Query Model.Order.
From Coq Require Import Permutation Sorted.
Open Scope Z_scope.

(* ---------- comparators ---------- *)
Lemma str_cmp_antisym : forall a b, str_cmp b a = CompOpp (str_cmp a b).
Proof.
  induction a as [|x a IH]; intros [|y b]; simpl; try reflexivity.
  rewrite (N.compare_antisym x y). destruct (N.compare x y); simpl; [apply IH|reflexivity|reflexivity].
Qed.

Lemma str_cmp_eq : forall a b, str_cmp a b = Eq <-> a = b.
Proof.
  induction a as [|x a IH]; intros [|y b]; simpl; split; intros H; try reflexivity; try discriminate.
  - destruct (N.compare x y) eqn:E; try discriminate. apply N.compare_eq in E. apply IH in H. congruence.
  - inversion H; subst. rewrite N.compare_refl. apply IH. reflexivity.
Qed.

Lemma str_cmp_lt_trans : forall a b c, str_cmp a b = Lt -> str_cmp b c = Lt -> str_cmp a c = Lt.
Proof.
  induction a as [|x a IH]; intros [|y b] [|z c]; simpl; intros H1 H2; try reflexivity; try discriminate.
  destruct (N.compare x y) eqn:E1; try discriminate; destruct (N.compare y z) eqn:E2; try discriminate.
  - apply N.compare_eq in E1. apply N.compare_eq in E2. subst. rewrite N.compare_refl. eapply IH; eassumption.
  - apply N.compare_eq in E1. subst. rewrite E2. reflexivity.
  - apply N.compare_eq in E2. subst. rewrite E1. reflexivity.
  - rewrite N.compare_lt_iff in *. assert (L : (x < z)%N) by (eapply N.lt_trans; eassumption).
    apply N.compare_lt_iff in L. rewrite L. reflexivity.
Qed.

Lemma cval_cmp_antisym a b : cval_cmp b a = CompOpp (cval_cmp a b).
Proof.
  destruct a, b; simpl; try reflexivity; [apply Z.compare_antisym|apply str_cmp_antisym].
Qed.

Lemma cval_cmp_eq a b : cval_cmp a b = Eq <-> a = b.
Proof.
  destruct a, b; simpl; split; intros H; try reflexivity; try discriminate.
  - apply Z.compare_eq in H. congruence.
  - inversion H. apply Z.compare_refl.
  - apply str_cmp_eq in H. congruence.
  - inversion H. apply str_cmp_eq. reflexivity.
Qed.

Lemma cval_cmp_lt_trans a b c : cval_cmp a b = Lt -> cval_cmp b c = Lt -> cval_cmp a c = Lt.
Proof.
  destruct a, b, c; simpl; intros H1 H2; try reflexivity; try discriminate.
  - rewrite Z.compare_lt_iff in *. lia.
  - eapply str_cmp_lt_trans; eassumption.
Qed.

Lemma cval_cmp_gt_trans a b c : cval_cmp a b = Gt -> cval_cmp b c = Gt -> cval_cmp a c = Gt.
Proof.
  intros H1 H2. rewrite (cval_cmp_antisym c a). rewrite (cval_cmp_antisym b a) in H1. rewrite (cval_cmp_antisym c b) in H2.
  destruct (cval_cmp b a) eqn:E1; try discriminate. destruct (cval_cmp c b) eqn:E2; try discriminate.
  rewrite (cval_cmp_lt_trans c b a E2 E1). reflexivity.
Qed.

(* one directed key *)
Definition kcmp (kd : okey * bool) (a b : orow) : comparison :=
  if snd kd then cval_cmp (key_val (fst kd) b) (key_val (fst kd) a) else cval_cmp (key_val (fst kd) a) (key_val (fst kd) b).

Lemma kcmp_antisym kd a b : kcmp kd b a = CompOpp (kcmp kd a b).
Proof. unfold kcmp. destruct (snd kd); apply cval_cmp_antisym. Qed.

Lemma kcmp_eq kd a b : kcmp kd a b = Eq <-> key_val (fst kd) a = key_val (fst kd) b.
Proof. unfold kcmp. destruct (snd kd); rewrite cval_cmp_eq; split; congruence. Qed.

Lemma kcmp_lt_trans kd a b c : kcmp kd a b = Lt -> kcmp kd b c = Lt -> kcmp kd a c = Lt.
Proof.
  unfold kcmp. destruct (snd kd); intros H1 H2; [|eapply cval_cmp_lt_trans; eassumption].
  eapply cval_cmp_lt_trans; eassumption.
Qed.

Lemma lex_cmp_cons kd ks a b : lex_cmp (kd :: ks) a b = match kcmp kd a b with Eq => lex_cmp ks a b | c => c end.
Proof. destruct kd as [k d]. reflexivity. Qed.

Lemma lex_antisym : forall keys a b, lex_cmp keys b a = CompOpp (lex_cmp keys a b).
Proof.
  induction keys as [|kd ks IH]; intros a b; [reflexivity|]. rewrite !lex_cmp_cons, (kcmp_antisym kd a b).
  destruct (kcmp kd a b); simpl; [apply IH|reflexivity|reflexivity].
Qed.

Lemma kcmp_eq_subst kd a b c : kcmp kd a b = Eq -> kcmp kd a c = kcmp kd b c.
Proof. intros H. apply kcmp_eq in H. unfold kcmp. rewrite H. reflexivity. Qed.

Lemma kcmp_eq_subst_r kd a b c : kcmp kd b c = Eq -> kcmp kd a c = kcmp kd a b.
Proof. intros H. apply kcmp_eq in H. unfold kcmp. rewrite H. reflexivity. Qed.

Lemma lex_eq_trans : forall keys a b c, lex_cmp keys a b = Eq -> lex_cmp keys b c = lex_cmp keys a c.
Proof.
  induction keys as [|kd ks IH]; intros a b c H; [reflexivity|]. rewrite !lex_cmp_cons in *.
  destruct (kcmp kd a b) eqn:E; try discriminate. rewrite (kcmp_eq_subst kd a b c E).
  destruct (kcmp kd b c); [apply IH; exact H|reflexivity|reflexivity].
Qed.

Lemma lex_lt_trans : forall keys a b c, lex_cmp keys a b = Lt -> lex_cmp keys b c = Lt -> lex_cmp keys a c = Lt.
Proof.
  induction keys as [|kd ks IH]; intros a b c H1 H2; [discriminate|]. rewrite !lex_cmp_cons in *.
  destruct (kcmp kd a b) eqn:E1; try discriminate; destruct (kcmp kd b c) eqn:E2; try discriminate.
  - rewrite (kcmp_eq_subst kd a b c E1), E2. eapply IH; eassumption.
  - rewrite (kcmp_eq_subst kd a b c E1), E2. reflexivity.
  - rewrite (kcmp_eq_subst_r kd a b c E2), E1. reflexivity.
  - rewrite (kcmp_lt_trans kd a b c E1 E2). reflexivity.
Qed.

(* le_by is a total preorder *)
Lemma le_total keys a b : le_by keys a b = false -> le_by keys b a = true.
Proof.
  unfold le_by. rewrite (lex_antisym keys a b). destruct (lex_cmp keys a b); simpl; congruence.
Qed.

Lemma le_refl keys a : le_by keys a a = true.
Proof.
  unfold le_by. pose proof (lex_antisym keys a a) as H. destruct (lex_cmp keys a a); simpl in H; congruence.
Qed.

Lemma le_trans keys a b c : le_by keys a b = true -> le_by keys b c = true -> le_by keys a c = true.
Proof.
  unfold le_by. intros H1 H2.
  destruct (lex_cmp keys a b) eqn:E1; try discriminate.
  - rewrite <- (lex_eq_trans keys a b c E1). exact H2.
  - destruct (lex_cmp keys b c) eqn:E2; try discriminate.
    + pose proof (lex_antisym keys b c) as A. rewrite E2 in A. simpl in A.
      pose proof (lex_eq_trans keys c b a A) as B. rewrite (lex_antisym keys a b), E1 in B. simpl in B.
      rewrite (lex_antisym keys c a), <- B. reflexivity.
    + rewrite (lex_lt_trans keys a b c E1 E2). reflexivity.
Qed.

(* ---------- the sort ---------- *)
Lemma insert_perm keys x l : Permutation (insert_sorted keys x l) (x :: l).
Proof.
  induction l as [|y l IH]; simpl; [apply Permutation_refl|].
  destruct (le_by keys x y); [apply Permutation_refl|].
  eapply Permutation_trans; [apply perm_skip; exact IH|apply perm_swap].
Qed.

Theorem l_sort_perm keys l : Permutation (sort_rows keys l) l.
Proof.
  unfold sort_rows. induction l as [|x l IH]; simpl; [apply Permutation_refl|].
  eapply Permutation_trans; [apply insert_perm|apply perm_skip; exact IH].
Qed.

Definition leP keys (a b : orow) : Prop := le_by keys a b = true.

Lemma insert_sorted_sorted keys x l : StronglySorted (leP keys) l -> StronglySorted (leP keys) (insert_sorted keys x l).
Proof.
  induction 1 as [|y l Hs IH Hall]; simpl; [constructor; [constructor|constructor]|].
  destruct (le_by keys x y) eqn:E.
  - constructor; [constructor; assumption|]. constructor; [exact E|].
    rewrite Forall_forall in *. intros z Hz. eapply le_trans; [exact E|apply Hall; exact Hz].
  - constructor; [exact IH|]. rewrite Forall_forall in *. intros z Hz.
    apply (Permutation_in _ (insert_perm keys x l)) in Hz. destruct Hz as [Hz|Hz].
    + subst z. apply le_total. exact E.
    + apply Hall. exact Hz.
Qed.

(* every earlier row is <= every later row under the requested keys *)
Theorem l_sort_sorted keys l : StronglySorted (leP keys) (sort_rows keys l).
Proof.
  unfold sort_rows. induction l as [|x l IH]; simpl; [constructor|]. apply insert_sorted_sorted. exact IH.
Qed.

Lemma sortedb_spec keys l : StronglySorted (leP keys) l -> sortedb keys l = true.
Proof.
  induction 1 as [|a l Hs IH Hall]; [reflexivity|]. destruct l as [|b l]; [reflexivity|].
  change (sortedb keys (a :: b :: l)) with (le_by keys a b && sortedb keys (b :: l)).
  rewrite IH. rewrite Forall_forall in Hall. pose proof (Hall b (or_introl eq_refl)) as Hb. unfold leP in Hb. rewrite Hb. reflexivity.
Qed.

(* ---------- exact membership, each once ---------- *)
Theorem l_selected_exact ft strand l r : In r (selected ft strand l) <->
  In r l /\ ft_query ft (o_row r) = true /\ strand_query strand (o_row r) = true.
Proof. unfold selected. rewrite filter_In, andb_true_iff. reflexivity. Qed.

Theorem l_ordered_exact ft strand ks reverse l r : In r (ordered_query ft strand ks reverse l) <->
  In r l /\ ft_query ft (o_row r) = true /\ strand_query strand (o_row r) = true.
Proof.
  rewrite <- l_selected_exact. unfold ordered_query. destruct ks as [|k ks]; [reflexivity|].
  split; intros H.
  - eapply Permutation_in; [apply l_sort_perm|exact H].
  - eapply Permutation_in; [apply Permutation_sym; apply l_sort_perm|exact H].
Qed.

Lemma filter_NoDup' {A} (p : A -> bool) l : NoDup l -> NoDup (filter p l).
Proof.
  induction 1 as [|x l Hx Hnd IH]; simpl; [constructor|].
  destruct (p x); [|exact IH]. constructor; [|exact IH]. intro H. apply filter_In in H as [H _]. contradiction.
Qed.

Theorem l_ordered_once ft strand ks reverse l : NoDup l -> NoDup (ordered_query ft strand ks reverse l).
Proof.
  intros H. unfold ordered_query. destruct ks as [|k ks]; [apply filter_NoDup'; exact H|].
  eapply Permutation_NoDup; [apply Permutation_sym; apply l_sort_perm|]. apply filter_NoDup'. exact H.
Qed.

Theorem l_ordered_sorted ft strand k ks reverse l :
  StronglySorted (leP (directed (k :: ks) reverse)) (ordered_query ft strand (k :: ks) reverse l).
Proof. unfold ordered_query. apply l_sort_sorted. Qed.

(* with no order_by and no filter a full iteration is in input order *)
Theorem l_file_order reverse l : ordered_query FNone None [] reverse l = l.
Proof.
  unfold ordered_query, selected. induction l as [|r l IH]; [reflexivity|].
  cbn [filter]. change (ft_query FNone (o_row r) && strand_query None (o_row r)) with true. cbv iota. f_equal. exact IH.
Qed.

(* what the single-key orders mean *)
Theorem l_single_key_meaning k reverse a b : le_by (directed [k] reverse) a b = true <->
  (if reverse then cval_cmp (key_val k b) (key_val k a) else cval_cmp (key_val k a) (key_val k b)) <> Gt.
Proof.
  unfold le_by. cbn [directed lex_cmp]. destruct reverse.
  - destruct (cval_cmp (key_val k b) (key_val k a)); split; intros H; try reflexivity; try discriminate; congruence.
  - destruct (cval_cmp (key_val k a) (key_val k b)); split; intros H; try reflexivity; try discriminate; congruence.
Qed.

(* counts *)
Theorem l_count_all l : count_of_type None l = Z.of_nat (length l).
Proof.
  unfold count_of_type. f_equal. induction l as [|r l IH]; [reflexivity|]. simpl. rewrite IH. reflexivity.
Qed.

Lemma ft_query_str t r : t <> [] -> ft_query (FStr t) r = str_eqb (r_ftype r) t.
Proof. intros H. unfold ft_query. destruct t; [congruence|reflexivity]. Qed.

Theorem l_count_type t ks reverse l : t <> [] ->
  count_of_type (Some t) l = Z.of_nat (length (ordered_query (FStr t) None ks reverse l)).
Proof.
  intros Ht. unfold count_of_type. f_equal.
  assert (E : length (ordered_query (FStr t) None ks reverse l) = length (selected (FStr t) None l)).
  { unfold ordered_query. destruct ks; [reflexivity|]. apply Permutation_length. apply l_sort_perm. }
  rewrite E. unfold selected. f_equal. apply filter_ext. intros r. rewrite ft_query_str by exact Ht.
  cbn [strand_query]. rewrite andb_true_r. reflexivity.
Qed.

(* DISTINCT *)
Lemma distinct_In x l : In x (distinct l) <-> In x l.
Proof.
  induction l as [|y l IH]; simpl; [tauto|]. rewrite filter_In, IH. split.
  - intros [H|[H _]]; auto.
  - intros [H|H]; [auto|]. destruct (str_eqb y x) eqn:E; [apply str_eqb_eq in E; auto|].
    right. split; [exact H|]. reflexivity.
Qed.

Lemma distinct_NoDup l : NoDup (distinct l).
Proof.
  induction l as [|y l IH]; simpl; [constructor|]. constructor.
  - rewrite filter_In. intros [_ H]. cbv beta in H. rewrite str_eqb_refl in H. discriminate.
  - apply filter_NoDup'. exact IH.
Qed.

Theorem l_featuretypes l t : In t (featuretypes l) <-> exists r, In r l /\ r_ftype (o_row r) = t.
Proof.
  unfold featuretypes. rewrite distinct_In, in_map_iff. split; intros [r [A B]]; exists r; auto.
Qed.

Theorem l_seqids l s : In s (seqids l) <-> exists r, In r l /\ r_seqid (o_row r) = s.
Proof.
  unfold seqids. rewrite distinct_In, in_map_iff. split; intros [r [A B]]; exists r; auto.
Qed.

Theorem l_distinct_once l : NoDup (featuretypes l) /\ NoDup (seqids l).
Proof. split; apply distinct_NoDup. Qed.
