(* Proofs/C13Forms.v — the path form and the ready-made-objects form of one annotation yield the same features *)
From GV Require Import Base.Prelude Base.PyStr Base.Utf8 Base.WordTable Model.DB Model.Parser Model.Grammar Model.Dialect Model.File
  Proofs.C01Proofs.
Open Scope N_scope.

Lemma In_firstn {A} (x : A) : forall n l, In x (firstn n l) -> In x l.
Proof. induction n as [|n IH]; intros [|y l] H; try contradiction. destruct H as [<-|H]; [left; reflexivity|right; apply IH; exact H]. Qed.

Section Forms.
  Variable isw : N -> bool.
  Hypothesis isw_ascii : forall c, ascii_word c = true -> isw c = true.
  Hypothesis isw_eq : isw EQ = false.
  Hypothesis isw_sp : isw SP = false.

  Theorem l_path_equals_objects st cfg fs :
    (forall f, In f fs -> wf_feature st f = true /\ f_dialect f = canon_dialect st (f_attrs f)) ->
    (forall f, In f fs -> fits_spec st (f_attrs f) (chosen st cfg fs)) ->
    import_model isw cfg (map (render_line st) fs) = Ok (objects_model cfg fs).
  Proof.
    intros Hall Hfits. rewrite (l_import_fidelity isw isw_ascii isw_eq isw_sp st cfg fs Hall Hfits).
    unfold objects_model.
    assert (E : data_iterator_dialect (c_supplied cfg) (c_checklines cfg) (map voter_of_feature fs) = chosen st cfg fs).
    { unfold data_iterator_dialect, chosen, window_voters. destruct (c_supplied cfg); [reflexivity|].
      f_equal. rewrite firstn_map. apply map_ext_in. intros f Hf. unfold voter_of_feature.
      rewrite (proj2 (Hall f (In_firstn _ _ _ Hf))). reflexivity. }
    rewrite E. reflexivity.
  Qed.
End Forms.
