(* Proofs/C05Inv.v — merge_strategy='merge': in every state an import reaches, the candidates for a key differ
   pairwise on the compared columns, so at most one of them agrees with a newcomer: the arbitrary order in
   which Python's set presents them cannot matter. *)
From GV Require Import Base.Prelude Base.PyStr Model.Bins Model.DB Model.Parser Model.Import Proofs.C04Proofs.
Open Scope Z_scope.

(* ---------- same_checked is an equivalence on the compared columns ---------- *)
Lemma ozeqb_refl a : ozeqb a a = true.
Proof. destruct a; [apply Z.eqb_refl|reflexivity]. Qed.
Lemma ozeqb_eq a b : ozeqb a b = true <-> a = b.
Proof.
  destruct a, b; cbn; split; intros H; try discriminate; try reflexivity.
  - apply Z.eqb_eq in H. congruence.
  - inversion H. apply Z.eqb_refl.
Qed.

Definition col_agree (force : list field) (a b : row) : Prop :=
  r_start a = r_start b /\ r_end a = r_end b /\ forall fl, mem_field fl force = false -> getf fl a = getf fl b.

Lemma sc_spec force a b : same_checked force a b = true <-> col_agree force a b.
Proof.
  unfold same_checked, col_agree. rewrite !andb_true_iff, !ozeqb_eq, forallb_forall. split.
  - intros [[A B] C]. split; [exact A|]. split; [exact B|]. intros fl Hf.
    assert (Hin : In fl all_fields) by (destruct fl; cbn; tauto). specialize (C fl Hin). rewrite Hf in C. cbn in C. apply str_eqb_eq. exact C.
  - intros [A [B C]]. split; [split; assumption|]. intros fl _. destruct (mem_field fl force) eqn:E; [reflexivity|].
    cbn. apply str_eqb_eq. apply C. exact E.
Qed.

Lemma sc_sym force a b : same_checked force a b = true -> same_checked force b a = true.
Proof. rewrite !sc_spec. intros [A [B C]]. split; [auto|]. split; [auto|]. intros fl H. symmetry. apply C. exact H. Qed.

Lemma sc_trans force a b c : same_checked force a b = true -> same_checked force b c = true -> same_checked force a c = true.
Proof.
  rewrite !sc_spec. intros [A [B C]] [A' [B' C']]. split; [congruence|]. split; [congruence|].
  intros fl H. rewrite (C fl H). apply C'. exact H.
Qed.

(* rows that differ only in id, bin, attributes and exempt columns agree *)
Definition same_cols (force : list field) (a b : row) : Prop := col_agree force a b.

Lemma sc_congr force a a' b : col_agree force a a' -> same_checked force a b = same_checked force a' b.
Proof.
  intros H. destruct (same_checked force a b) eqn:E1, (same_checked force a' b) eqn:E2; try reflexivity.
  - apply sc_spec in H. apply sc_sym in H. rewrite (sc_trans _ _ _ _ H E1) in E2. discriminate.
  - apply sc_spec in H. rewrite (sc_trans _ _ _ _ H E2) in E1. discriminate.
Qed.

Lemma sc_congr_r force a b b' : col_agree force b b' -> same_checked force a b = same_checked force a b'.
Proof.
  intros H. destruct (same_checked force a b) eqn:E1, (same_checked force a b') eqn:E2; try reflexivity.
  - apply sc_spec in H. rewrite (sc_trans _ _ _ _ E1 H) in E2. discriminate.
  - apply sc_spec in H. apply sc_sym in H. rewrite (sc_trans _ _ _ _ E2 H) in E1. discriminate.
Qed.

Lemma agree_set_id force id r : col_agree force (set_id id r) r.
Proof. repeat split. Qed.
Lemma agree_set_bin force r : col_agree force (set_bin r) r.
Proof. repeat split. Qed.
Lemma agree_set_attrs force a r : col_agree force (set_attrs a r) r.
Proof. repeat split. Qed.

Lemma agree_setf force fl v r : mem_field fl force = true -> col_agree force (setf fl v r) r.
Proof.
  intros H. split; [destruct fl; reflexivity|]. split; [destruct fl; reflexivity|].
  intros fl' Hf. destruct fl, fl'; try reflexivity; congruence.
Qed.

Lemma agree_trans force a b c : col_agree force a b -> col_agree force b c -> col_agree force a c.
Proof. intros [A [B C]] [A' [B' C']]. split; [congruence|]. split; [congruence|]. intros fl H. rewrite (C fl H). apply C'. exact H. Qed.

Lemma agree_fold_setf force (g : field -> str) : forall (fs : list field) r, (forall fl, In fl fs -> mem_field fl force = true) ->
  col_agree force (fold_left (fun r fl => setf fl (g fl) r) fs r) r.
Proof.
  induction fs as [|fl fs IH]; intros r H; [repeat split|]. cbn [fold_left].
  eapply agree_trans; [apply IH; intros x Hx; apply H; right; exact Hx|]. apply agree_setf. apply H. left. reflexivity.
Qed.

Lemma mem_field_In fl force : In fl force -> mem_field fl force = true.
Proof.
  unfold mem_field. intros H. apply existsb_exists. exists fl. split; [exact H|]. destruct fl; reflexivity.
Qed.

Lemma NoDup_map_filter' {A B} (f : A -> B) (p : A -> bool) l : NoDup (map f l) -> NoDup (map f (filter p l)).
Proof.
  induction l as [|a l IH]; intros H; [constructor|]. inversion H as [|? ? Hn Hnd]; subst. cbn [filter].
  destruct (p a); [|apply IH; exact Hnd]. cbn [map]. constructor; [|apply IH; exact Hnd].
  intros Hin. apply Hn. apply in_map_iff in Hin as [x [E Hx]]. apply filter_In in Hx as [Hx _]. apply in_map_iff. eauto.
Qed.

Section Inv.
  Variable call : nat -> row -> option str.
  Variable force : list field.

  Lemma cand_In st key r : In r (candidates st key) <-> In r (s_rows st) /\ (r_id r = key \/ In (key, r_id r) (s_dups st)).
  Proof.
    unfold candidates. rewrite filter_In. split; intros [A B]; (split; [exact A|]).
    - apply orb_prop in B as [B|B]; [left; apply str_eqb_eq; exact B|]. right. apply mem_str_In in B.
      apply in_map_iff in B as [[k x] [E Hin]]. cbn in E. subst x. apply filter_In in Hin as [Hin Hk]. cbn in Hk. apply str_eqb_eq in Hk. subst k. exact Hin.
    - apply orb_true_iff. destruct B as [B|B]; [left; apply str_eqb_eq; exact B|]. right. apply mem_str_In. apply in_map_iff.
      exists (key, r_id r). split; [reflexivity|]. apply filter_In. split; [exact B|]. cbn. apply str_eqb_refl.
  Qed.

  Record MInv (st : ist) : Prop := {
    mi_nodup : NoDup (ids st);
    mi_dups : forall k x, In (k, x) (s_dups st) -> In k (ids st) /\ In x (ids st);
    mi_distinct : forall key a b, In a (candidates st key) -> In b (candidates st key) ->
                                  same_checked force a b = true -> r_id a = r_id b }.

  Lemma ids_In st r : In r (s_rows st) -> In (r_id r) (ids st).
  Proof. intros H. unfold ids. apply in_map. exact H. Qed.

  (* at most one candidate agrees with a newcomer: the order in which Python's set presents them is irrelevant *)
  Theorem l_at_most_one st key f : MInv st -> (length (filter (same_checked force f) (candidates st key)) <= 1)%nat.
  Proof.
    intros I. destruct (filter (same_checked force f) (candidates st key)) as [|a [|b l]] eqn:E; cbn; try lia. exfalso.
    assert (Ha : In a (filter (same_checked force f) (candidates st key))) by (rewrite E; left; reflexivity).
    assert (Hb : In b (filter (same_checked force f) (candidates st key))) by (rewrite E; right; left; reflexivity).
    apply filter_In in Ha as [Ha Sa]. apply filter_In in Hb as [Hb Sb].
    pose proof (mi_distinct st I key a b Ha Hb (sc_trans _ _ _ _ (sc_sym _ _ _ Sa) Sb)) as Eid.
    (* two entries of a filter of the rows with the same id: the rows have unique ids *)
    assert (Hnd : NoDup (map r_id (filter (same_checked force f) (candidates st key)))).
    { unfold candidates. apply NoDup_map_filter'. apply NoDup_map_filter'. exact (mi_nodup st I). }
    rewrite E in Hnd. cbn in Hnd. inversion Hnd as [|? ? Hn _]; subst. apply Hn. left. symmetry. exact Eid.
  Qed.

  Lemma has_id_false_notin id rows : has_id id rows = false -> ~ In id (map r_id rows).
  Proof. intros H Hin. apply has_id_In in Hin. congruence. Qed.

  (* A: a row with a new key is appended *)
  Lemma inv_append st f a : MInv st -> has_id (r_id f) (s_rows st) = false ->
    MInv (mkSt (s_rows st ++ [f]) (s_rels st) (s_dups st) a).
  Proof.
    intros I Hnew. pose proof (has_id_false_notin _ _ Hnew) as Hn. constructor.
    - unfold ids. cbn [s_rows]. rewrite map_app. cbn. apply NoDup_snoc; [exact (mi_nodup st I)|exact Hn].
    - cbn [s_dups]. intros k x Hin. destruct (mi_dups st I k x Hin) as [A B]. unfold ids in *. cbn [s_rows]. rewrite map_app.
      split; apply in_or_app; left; assumption.
    - intros key x y Hx Hy Hs. apply cand_In in Hx as [Hx Kx]. apply cand_In in Hy as [Hy Ky]. cbn [s_rows s_dups] in *.
      assert (Hf : forall r, In r (s_rows st ++ [f]) -> (r_id r = key \/ In (key, r_id r) (s_dups st)) ->
                   (In r (candidates st key)) \/ (r = f /\ key = r_id f)).
      { intros r Hr Kr. apply in_app_or in Hr as [Hr|[Hr|[]]]; [left; apply cand_In; split; assumption|].
        subst r. right. split; [reflexivity|]. destruct Kr as [Kr|Kr]; [symmetry; exact Kr|].
        exfalso. apply Hn. apply (mi_dups st I _ _ Kr). }
      destruct (Hf x Hx Kx) as [Cx|[Ex Ekx]], (Hf y Hy Ky) as [Cy|[Ey Eky]].
      + exact (mi_distinct st I key x y Cx Cy Hs).
      + subst y. exfalso. apply cand_In in Cx as [Cx [K|K]].
        * apply Hn. rewrite <- Eky, <- K. apply in_map. exact Cx.
        * apply Hn. rewrite <- Eky. apply (mi_dups st I _ _ K).
      + subst x. exfalso. apply cand_In in Cy as [Cy [K|K]].
        * apply Hn. rewrite <- Ekx, <- K. apply in_map. exact Cy.
        * apply Hn. rewrite <- Ekx. apply (mi_dups st I _ _ K).
      + subst. reflexivity.
  Qed.

  (* B: no candidate agrees: the newcomer is stored under a fresh <key>_n and recorded as a duplicate *)
  Lemma inv_create_unique st f nid a : MInv st -> In (r_id f) (ids st) -> has_id nid (s_rows st) = false ->
    filter (same_checked force f) (candidates st (r_id f)) = [] ->
    MInv (mkSt (s_rows st ++ [set_id nid f]) (s_rels st) (s_dups st ++ [(r_id f, nid)]) a).
  Proof.
    intros I HK Hnew Hnone. pose proof (has_id_false_notin _ _ Hnew) as Hn. set (K := r_id f) in *. constructor.
    - unfold ids. cbn [s_rows]. rewrite map_app. cbn. apply NoDup_snoc; [exact (mi_nodup st I)|exact Hn].
    - cbn [s_dups]. intros k x Hin. unfold ids. cbn [s_rows]. rewrite map_app. cbn [map r_id set_id].
      apply in_app_or in Hin as [Hin|[Hin|[]]].
      + destruct (mi_dups st I k x Hin) as [A B]. split; apply in_or_app; left; assumption.
      + inversion Hin; subst. split; [apply in_or_app; left; exact HK|apply in_or_app; right; left; reflexivity].
    - intros key x y Hx Hy Hs. apply cand_In in Hx as [Hx Kx]. apply cand_In in Hy as [Hy Ky]. cbn [s_rows s_dups] in *.
      (* classification of a candidate of the new state *)
      assert (Hf : forall r, In r (s_rows st ++ [set_id nid f]) -> (r_id r = key \/ In (key, r_id r) (s_dups st ++ [(K, nid)])) ->
                   In r (candidates st key) \/ (r = set_id nid f /\ (key = nid \/ key = K))).
      { intros r Hr Kr. apply in_app_or in Hr as [Hr|[Hr|[]]].
        - left. apply cand_In. split; [exact Hr|]. destruct Kr as [Kr|Kr]; [left; exact Kr|].
          apply in_app_or in Kr as [Kr|[Kr|[]]]; [right; exact Kr|]. injection Kr as E1 E2. exfalso. apply Hn. rewrite E2. apply in_map. exact Hr.
        - subst r. right. split; [reflexivity|]. cbn [r_id set_id] in Kr. destruct Kr as [Kr|Kr]; [left; symmetry; exact Kr|].
          apply in_app_or in Kr as [Kr|[Kr|[]]]; [exfalso; apply Hn; apply (mi_dups st I _ _ Kr)|]. inversion Kr. right. reflexivity. }
      assert (Hold_nid : forall r, In r (candidates st nid) -> False).
      { intros r Hr. apply cand_In in Hr as [Hr [Kr|Kr]]; [apply Hn; rewrite <- Kr; apply in_map; exact Hr|].
        apply Hn. apply (mi_dups st I _ _ Kr). }
      assert (Hagree : forall r, same_checked force (set_id nid f) r = same_checked force f r) by (intros r; apply sc_congr; apply agree_set_id).
      assert (Hnone' : forall r, In r (candidates st K) -> same_checked force f r = false).
      { intros r Hr. destruct (same_checked force f r) eqn:E; [|reflexivity]. exfalso.
        assert (Hin : In r (filter (same_checked force f) (candidates st K))) by (apply filter_In; split; assumption).
        rewrite Hnone in Hin. destruct Hin. }
      destruct (Hf x Hx Kx) as [Cx|[Ex Ekx]], (Hf y Hy Ky) as [Cy|[Ey Eky]].
      + exact (mi_distinct st I key x y Cx Cy Hs).
      + subst y. exfalso. destruct Eky as [Ek|Ek]; subst key; [exact (Hold_nid x Cx)|].
        apply sc_sym in Hs. rewrite Hagree in Hs. rewrite (Hnone' x Cx) in Hs. discriminate.
      + subst x. exfalso. destruct Ekx as [Ek|Ek]; subst key; [exact (Hold_nid y Cy)|].
        rewrite Hagree in Hs. rewrite (Hnone' y Cy) in Hs. discriminate.
      + subst. reflexivity.
  Qed.

  (* C: one candidate is updated in place by a function that keeps its id and its compared columns *)
  Lemma inv_update st tid g a : MInv st -> (forall r, r_id (g r) = r_id r) -> (forall r, col_agree force (g r) r) ->
    MInv (mkSt (update_id tid g (s_rows st)) (s_rels st) (s_dups st) a).
  Proof.
    intros I Hid Hag. set (h := fun r => if str_eqb (r_id r) tid then g r else r).
    assert (Hh_id : forall r, r_id (h r) = r_id r) by (intros r; unfold h; destruct (str_eqb (r_id r) tid); [apply Hid|reflexivity]).
    assert (Hh_ag : forall r, col_agree force (h r) r) by (intros r; unfold h; destruct (str_eqb (r_id r) tid); [apply Hag|repeat split]).
    constructor.
    - unfold ids. cbn [s_rows]. rewrite ids_update by exact Hid. exact (mi_nodup st I).
    - cbn [s_dups]. intros k x Hin. unfold ids. cbn [s_rows]. rewrite ids_update by exact Hid. exact (mi_dups st I k x Hin).
    - intros key x y Hx Hy Hs. apply cand_In in Hx as [Hx Kx]. apply cand_In in Hy as [Hy Ky]. cbn [s_rows s_dups] in *.
      unfold update_id in Hx, Hy. fold h in Hx, Hy. apply in_map_iff in Hx as [x0 [Ex Hx0]]. apply in_map_iff in Hy as [y0 [Ey Hy0]].
      subst x y. rewrite !Hh_id in *. apply (mi_distinct st I key x0 y0).
      + apply cand_In. split; assumption.
      + apply cand_In. split; assumption.
      + rewrite <- (sc_congr force (h x0) x0 y0 (Hh_ag x0)). rewrite (sc_congr_r force (h x0) y0 (h y0)); [exact Hs|].
        destruct (Hh_ag y0) as [A [B C]]. split; [auto|]. split; [auto|]. intros fl Hf. symmetry. apply C. exact Hf.
  Qed.

  Lemma MInv_ext st st' : s_rows st = s_rows st' -> s_dups st = s_dups st' -> MInv st -> MInv st'.
  Proof.
    intros Er Ed I. constructor.
    - unfold ids. rewrite <- Er. exact (mi_nodup st I).
    - intros k x Hin. unfold ids. rewrite <- Er. rewrite <- Ed in Hin. exact (mi_dups st I k x Hin).
    - intros key a b Ha Hb. apply (mi_distinct st I key a b); unfold candidates in *; rewrite Er, Ed; assumption.
  Qed.

  Lemma rev_nil_inv {A} (l : list A) : rev l = [] -> l = [].
  Proof. intros H. apply (f_equal (@rev A)) in H. rewrite rev_involutive in H. exact H. Qed.

  Lemma do_merge_inv st f st' id : MInv st -> In (r_id f) (ids st) ->
    do_merge SMerge force st f = Ok (OStored st' id) -> MInv st'.
  Proof.
    intros I HK. cbn [do_merge]. destruct (rev (filter (same_checked force f) (candidates st (r_id f)))) as [|target rest] eqn:E.
    - apply rev_nil_inv in E. unfold create_unique.
      destruct (fresh_auto (length (s_rows st)) (r_id f) (s_rows st) (s_auto st)) as [[nid a]|] eqn:Ef; [|discriminate].
      apply fresh_auto_free in Ef. intros H. inversion H; subst. apply inv_create_unique; assumption.
    - intros H. inversion H; subst. apply inv_update; [exact I| |].
      + intros r. rewrite r_id_fold_setf. reflexivity.
      + intros r. eapply agree_trans; [apply agree_fold_setf; intros fl Hfl; apply mem_field_In; exact Hfl|apply agree_set_attrs].
  Qed.

  Lemma store_inv spec st f0 st' id : MInv st -> store call SMerge force spec st f0 = Ok (OStored st' id) -> MInv st'.
  Proof.
    intros I. unfold store. destruct (id_handler call spec f0 (s_auto st)) as [[i a]|e]; [|discriminate]. cbn [s_rows].
    assert (Ia : MInv (mkSt (s_rows st) (s_rels st) (s_dups st) a)) by (apply (MInv_ext st); [reflexivity|reflexivity|exact I]).
    destruct (has_id i (s_rows st)) eqn:E.
    - intros H. eapply do_merge_inv; [exact Ia| |exact H]. unfold ids. cbn [s_rows r_id set_bin set_id]. apply has_id_In. exact E.
    - intros H. injection H as E1 E2. rewrite <- E1. apply (inv_append st (set_bin (set_id i f0)) a I). cbn [r_id set_bin set_id]. exact E.
  Qed.

  Lemma store_skip_never spec st f0 st' : store call SMerge force spec st f0 = Ok (OSkip st') -> False.
  Proof.
    unfold store. destruct (id_handler call spec f0 (s_auto st)) as [[i a]|e]; [|discriminate]. cbn [s_rows].
    destruct (has_id i (s_rows st)); [|discriminate]. cbn [do_merge].
    destruct (rev (filter _ _)); [|discriminate]. unfold create_unique. destruct (fresh_auto _ _ _ _) as [[? ?]|]; discriminate.
  Qed.

  Lemma step_inv spec st f0 st' : MInv st -> step_gff call SMerge force spec st f0 = Ok st' -> MInv st'.
  Proof.
    intros I. unfold step_gff. destruct (store call SMerge force spec st f0) as [o|e] eqn:E; [|discriminate].
    destruct o as [s1|s1 id].
    - exfalso. eapply store_skip_never. exact E.
    - intros H. inversion H; subst. apply (MInv_ext s1); [reflexivity|reflexivity|]. eapply store_inv; eassumption.
  Qed.

  Lemma empty_inv : MInv empty_st.
  Proof. constructor; cbn; [constructor|intros k x []|intros key a b []]. Qed.

  (* in every state reachable by an import under merge_strategy='merge', the candidates for a key are
     pairwise different on the compared columns; hence at most one of them agrees with a newcomer *)
  Theorem l_merge_run_inv spec : forall fs st st', MInv st -> run_steps (step_gff call SMerge force spec) fs st = Ok st' -> MInv st'.
  Proof.
    induction fs as [|f fs IH]; intros st st' I H; cbn [run_steps] in H; [inversion H; subst; exact I|].
    destruct (step_gff call SMerge force spec st f) as [s1|e] eqn:E; [|discriminate]. eapply IH; [|exact H]. eapply step_inv; eassumption.
  Qed.

  Theorem l_merge_candidates_distinct spec fs st' key f :
    run_steps (step_gff call SMerge force spec) fs empty_st = Ok st' ->
    (length (filter (same_checked force f) (candidates st' key)) <= 1)%nat.
  Proof. intros H. apply l_at_most_one. eapply l_merge_run_inv; [exact empty_inv|exact H]. Qed.
End Inv.
