(* Proofs/C03End.v — _GTFDBCreator._update_relations end to end: for every (transcript, gene) pair found through
   the stored subfeatures, one derived transcript row and one derived gene row are appended, keyed by the id,
   with exactly the MIN(start)/MAX(end) extent of the related subfeatures; relations, duplicates table and
   counters are untouched. *)
From GV Require Import Base.Prelude Base.PyStr Model.Bins Model.DB Model.Parser Model.Import Model.GtfSpec
  Proofs.C03Proofs.
Open Scope Z_scope.

Definition d_tr (g : gtfcfg) (st : ist) (t gn : str) : result (list row) :=
  if g_no_transcripts g then Ok []
  else match extent g st t with Some x => Ok [t_row g t gn x] | None => Err EType end.
Definition d_ge (g : gtfcfg) (st : ist) (last : option str) (gn : str) : result (list row) :=
  if g_no_genes g then Ok []
  else if match last with Some l => str_eqb l gn | None => false end then Ok []
  else match extent g st gn with Some x => Ok [g_row g gn x] | None => Ok [] end.

Lemma derive_cons g st t gn ps last :
  derive g st ((t, gn) :: ps) last =
  match d_tr g st t gn, d_ge g st last gn, derive g st ps (Some gn) with
  | Ok a, Ok b, Ok c => Ok (a ++ b ++ c)
  | Err e, _, _ => Err e
  | _, Err e, _ => Err e
  | _, _, Err e => Err e
  end.
Proof.
  cbn [derive]. unfold d_tr, d_ge, t_row, g_row, mk_derived.
  destruct (g_no_transcripts g); destruct (g_no_genes g);
    repeat match goal with
    | |- context [extent g st ?x] => destruct (extent g st x) as [[[[? ?] ?] ?]|]
    | |- context [match last with Some _ => _ | None => _ end] => destruct last
    | |- context [if str_eqb ?a ?b then _ else _] => destruct (str_eqb a b)
    end; reflexivity.
Qed.

Lemma derive_inv g st t gn ps last ds : derive g st ((t, gn) :: ps) last = Ok ds ->
  exists a b c, d_tr g st t gn = Ok a /\ d_ge g st last gn = Ok b /\ derive g st ps (Some gn) = Ok c /\ ds = a ++ b ++ c.
Proof.
  rewrite derive_cons. destruct (d_tr g st t gn) as [a|]; [|discriminate].
  destruct (d_ge g st last gn) as [b|]; [|discriminate]. destruct (derive g st ps (Some gn)) as [c|]; [|discriminate].
  intros H. inversion H. exists a, b, c. repeat split; reflexivity.
Qed.

(* every derived row is the transcript row of a pair or the gene row of a pair, with the extent query's answer *)
Lemma derive_sound g st : forall ps last ds, derive g st ps last = Ok ds -> forall d, In d ds ->
  exists t gn x, In (t, gn) ps /\
    ((d = t_row g t gn x /\ extent g st t = Some x) \/ (d = g_row g gn x /\ extent g st gn = Some x)).
Proof.
  induction ps as [|[t gn] ps IH]; intros last ds H d Hd.
  - inversion H; subst. contradiction.
  - apply derive_inv in H as (a & b & c & Ha & Hb & Hc & ->).
    apply in_app_or in Hd as [Hd|Hd]; [|apply in_app_or in Hd as [Hd|Hd]].
    + unfold d_tr in Ha. destruct (g_no_transcripts g); [inversion Ha; subst; contradiction|].
      destruct (extent g st t) as [x|] eqn:E; [|discriminate]. inversion Ha; subst. destruct Hd as [<-|[]].
      exists t, gn, x. split; [left; reflexivity|left; split; [reflexivity|exact E]].
    + unfold d_ge in Hb. destruct (g_no_genes g); [inversion Hb; subst; contradiction|].
      destruct (match last with Some l => str_eqb l gn | None => false end); [inversion Hb; subst; contradiction|].
      destruct (extent g st gn) as [x|] eqn:E; [|inversion Hb; subst; contradiction]. inversion Hb; subst. destruct Hd as [<-|[]].
      exists t, gn, x. split; [left; reflexivity|right; split; [reflexivity|exact E]].
    + destruct (IH _ _ Hc d Hd) as (t' & gn' & x & Hin & Hx). exists t', gn', x. split; [right; exact Hin|exact Hx].
Qed.

(* every pair gets its transcript row ... *)
Lemma derive_transcripts g st : g_no_transcripts g = false -> forall ps last ds, derive g st ps last = Ok ds ->
  forall t gn, In (t, gn) ps -> exists x, extent g st t = Some x /\ In (t_row g t gn x) ds.
Proof.
  intros NT. induction ps as [|[t0 gn0] ps IH]; intros last ds H t gn Hin; [contradiction|].
  apply derive_inv in H as (a & b & c & Ha & Hb & Hc & ->). destruct Hin as [E|Hin].
  - inversion E; subst. unfold d_tr in Ha. rewrite NT in Ha. destruct (extent g st t) as [x|]; [|discriminate].
    inversion Ha; subst. exists x. split; [reflexivity|left; reflexivity].
  - destruct (IH _ _ Hc t gn Hin) as [x [E I]]. exists x. split; [exact E|]. apply in_or_app. right. apply in_or_app. right. exact I.
Qed.

(* ... and every pair's gene that owns a subfeature its gene row (the same gene on consecutive pairs is written once; a gene
   id under which no subfeature is filed has no extent and is skipped) *)
Lemma derive_genes g st : g_no_genes g = false -> forall ps last ds, derive g st ps last = Ok ds ->
  forall t gn x, In (t, gn) ps -> extent g st gn = Some x -> In (g_row g gn x) ds \/ last = Some gn.
Proof.
  intros NG. induction ps as [|[t0 gn0] ps IH]; intros last ds H t gn x Hin Hx; [contradiction|].
  apply derive_inv in H as (a & b & c & Ha & Hb & Hc & ->).
  assert (Head : forall y, extent g st gn0 = Some y -> In (g_row g gn0 y) (a ++ b ++ c) \/ last = Some gn0).
  { intros y Hy. unfold d_ge in Hb. rewrite NG, Hy in Hb. destruct last as [l|].
    - destruct (str_eqb l gn0) eqn:E; [right; apply str_eqb_eq in E; subst; reflexivity|].
      inversion Hb; subst. left. apply in_or_app. right. left. reflexivity.
    - inversion Hb; subst. left. apply in_or_app. right. left. reflexivity. }
  destruct Hin as [E|Hin].
  - inversion E; subst. exact (Head x Hx).
  - destruct (IH _ _ Hc t gn x Hin Hx) as [I|L].
    + left. apply in_or_app. right. apply in_or_app. right. exact I.
    + inversion L; subst. exact (Head x Hx).
Qed.

Lemma did_t g t gn x : str_eqb (g_gkey g) (g_tkey g) = false -> did g (t_row g t gn x) = t.
Proof.
  intros _. destruct x as [[[s e] strand] seqid]. unfold did, t_row, mk_derived, first_val. cbn [r_ftype r_attrs].
  change (str_eqb TRANSCRIPT GENE) with false. cbv iota. cbn [dget]. rewrite str_eqb_refl. reflexivity.
Qed.
Lemma did_g g gn x : did g (g_row g gn x) = gn.
Proof.
  destruct x as [[[s e] strand] seqid]. unfold did, g_row, mk_derived, first_val. cbn [r_ftype r_attrs].
  change (str_eqb GENE GENE) with true. cbv iota. cbn [dget]. rewrite str_eqb_refl. reflexivity.
Qed.

Section End2End.
  Variable call : nat -> row -> option str.

  Lemma has_id_app id rows r : has_id id (rows ++ [r]) = has_id id rows || str_eqb (r_id r) id.
  Proof. unfold has_id. rewrite existsb_app. cbn [existsb]. rewrite orb_false_r. reflexivity. Qed.

  (* inserting rows whose keys are new and pairwise distinct appends them, and changes nothing else *)
  Lemma run_new force spec (idf : row -> str) : forall ds st,
    (forall d, In d ds -> derived_clean d = true) ->
    (forall d a, In d ds -> id_handler call spec d a = Ok (idf d, a)) ->
    NoDup (map idf ds) -> (forall d, In d ds -> has_id (idf d) (s_rows st) = false) ->
    run_steps (insert_derived call force spec) ds st =
    Ok (mkSt (s_rows st ++ map (fun d => set_bin (set_id (idf d) d)) ds) (s_rels st) (s_dups st) (s_auto st)).
  Proof.
    induction ds as [|d ds IH]; intros st Hc Hid Hnd Hnew.
    - cbn. rewrite app_nil_r. destruct st; reflexivity.
    - cbn [run_steps]. rewrite (l_derived_new call force spec st d (idf d) (s_auto st)).
      + rewrite IH.
        * cbn [s_rows s_rels s_dups s_auto map]. rewrite <- app_assoc. reflexivity.
        * intros x Hx. apply Hc. right. exact Hx.
        * intros x a Hx. apply Hid. right. exact Hx.
        * inversion Hnd; assumption.
        * intros x Hx. cbn [s_rows]. rewrite has_id_app. rewrite (Hnew x) by (right; exact Hx). cbn [orb].
          cbn [set_bin set_id r_id]. apply str_eqb_neq. intros E. inversion Hnd as [|? ? Hni _]; subst. apply Hni.
          rewrite E. apply in_map. exact Hx.
      + apply Hc. left. reflexivity.
      + apply Hid. left. reflexivity.
      + apply Hnew. left. reflexivity.
  Qed.


  Theorem l_gtf_inference g force st ds :
    is_field_form (g_tkey g) = false -> is_field_form (g_gkey g) = false -> str_eqb (g_gkey g) (g_tkey g) = false ->
    g_no_genes g && g_no_transcripts g = false ->
    derive g st (tg_pairs g st) None = Ok ds ->
    (forall d, In d ds -> derived_clean d = true) ->
    NoDup (map (did g) ds) -> (forall d, In d ds -> has_id (did g d) (s_rows st) = false) ->
    update_relations_gtf call g force (gtf_spec g) st =
    Ok (mkSt (s_rows st ++ appended g ds) (s_rels st) (s_dups st) (s_auto st)).
  Proof.
    intros F1 F2 Ne Fl Hd Hc Hnd Hnew. unfold update_relations_gtf. rewrite Fl, Hd.
    apply (run_new force (gtf_spec g) (did g)); try assumption.
    intros d a Hin. destruct (derive_sound g st _ _ _ Hd d Hin) as (t & gn & x & _ & [[-> _]|[-> _]]).
    - rewrite did_t by exact Ne. pose proof (l_derived_key call g t gn x a F1 F2 Ne) as K.
      destruct x as [[[s e] strand] seqid]. exact (proj1 K).
    - rewrite did_g. pose proof (l_derived_key call g gn gn x a F1 F2 Ne) as K.
      destruct x as [[[s e] strand] seqid]. exact (proj2 K).
  Qed.

  Lemma find_id_unique : forall rows r, NoDup (map r_id rows) -> In r rows -> find_id (r_id r) rows = Some r.
  Proof.
    induction rows as [|r0 rows IH]; intros r Hnd Hin; [contradiction|]. cbn [find_id].
    destruct Hin as [->|Hin]; [rewrite str_eqb_refl; reflexivity|].
    inversion Hnd as [|? ? Hni Hnd']; subst. destruct (str_eqb (r_id r0) (r_id r)) eqn:E.
    - apply str_eqb_eq in E. exfalso. apply Hni. rewrite E. apply in_map. exact Hin.
    - apply IH; assumption.
  Qed.

  Lemma has_id_false_notin id rows : has_id id rows = false -> ~ In id (map r_id rows).
  Proof.
    unfold has_id. intros H Hin. apply in_map_iff in Hin as [r [E Hr]].
    assert (X : existsb (fun r => str_eqb (r_id r) id) rows = true).
    { apply existsb_exists. exists r. split; [exact Hr|]. rewrite E. apply str_eqb_refl. }
    congruence.
  Qed.

  Lemma appended_ids g ds : map r_id (appended g ds) = map (did g) ds.
  Proof. unfold appended. rewrite map_map. apply map_ext. intros d. reflexivity. Qed.

  Lemma NoDup_app_intro2 {A} (l1 l2 : list A) : NoDup l1 -> NoDup l2 -> (forall x, In x l2 -> ~ In x l1) -> NoDup (l1 ++ l2).
  Proof.
    induction l1 as [|a l1 IH]; intros H1 H2 H; [exact H2|]. cbn. inversion H1; subst. constructor.
    - intros X. apply in_app_or in X as [X|X]; [contradiction|]. apply (H a X). left. reflexivity.
    - apply IH; [assumption|assumption|]. intros x Hx Hx1. apply (H x Hx). right. exact Hx1.
  Qed.

  (* ids stay unique: every derived id names exactly one row *)
  Theorem l_gtf_ids_unique g st ds : NoDup (map r_id (s_rows st)) -> NoDup (map (did g) ds) ->
    (forall d, In d ds -> has_id (did g d) (s_rows st) = false) -> NoDup (map r_id (s_rows st ++ appended g ds)).
  Proof.
    intros H1 H2 H3. rewrite map_app, appended_ids. apply NoDup_app_intro2; [exact H1|exact H2|].
    intros x Hx. apply in_map_iff in Hx as [d [<- Hd]]. apply has_id_false_notin. apply H3. exact Hd.
  Qed.

  (* the derived transcript of a pair: retrievable by the transcript id, spanning the extent query's answer *)
  Theorem l_transcript_inferred g st ds t gn : str_eqb (g_gkey g) (g_tkey g) = false -> g_no_transcripts g = false ->
    derive g st (tg_pairs g st) None = Ok ds -> NoDup (map r_id (s_rows st)) -> NoDup (map (did g) ds) ->
    (forall d, In d ds -> has_id (did g d) (s_rows st) = false) -> In (t, gn) (tg_pairs g st) ->
    exists x, extent g st t = Some x /\
      find_id t (s_rows st ++ appended g ds) = Some (set_bin (set_id t (t_row g t gn x))).
  Proof.
    intros Ne NT Hd N1 N2 Hnew Hin. destruct (derive_transcripts g st NT _ _ _ Hd t gn Hin) as [x [E I]].
    exists x. split; [exact E|].
    assert (R : In (set_bin (set_id t (t_row g t gn x))) (s_rows st ++ appended g ds)).
    { apply in_or_app. right. unfold appended. apply in_map_iff. exists (t_row g t gn x). split; [|exact I].
      rewrite did_t by exact Ne. reflexivity. }
    apply (find_id_unique _ _ (l_gtf_ids_unique g st ds N1 N2 Hnew)) in R. exact R.
  Qed.

  Theorem l_gene_inferred g st ds t gn x : g_no_genes g = false ->
    derive g st (tg_pairs g st) None = Ok ds -> NoDup (map r_id (s_rows st)) -> NoDup (map (did g) ds) ->
    (forall d, In d ds -> has_id (did g d) (s_rows st) = false) -> In (t, gn) (tg_pairs g st) ->
    extent g st gn = Some x ->
    find_id gn (s_rows st ++ appended g ds) = Some (set_bin (set_id gn (g_row g gn x))).
  Proof.
    intros NG Hd N1 N2 Hnew Hin E. destruct (derive_genes g st NG _ _ _ Hd t gn x Hin E) as [I|L]; [|discriminate].
    assert (R : In (set_bin (set_id gn (g_row g gn x))) (s_rows st ++ appended g ds)).
    { apply in_or_app. right. unfold appended. apply in_map_iff. exists (g_row g gn x). split; [|exact I].
      rewrite did_g. reflexivity. }
    apply (find_id_unique _ _ (l_gtf_ids_unique g st ds N1 N2 Hnew)) in R. exact R.
  Qed.
  Theorem l_transcript_inferred_one g st ds t gn : str_eqb (g_gkey g) (g_tkey g) = false -> g_no_transcripts g = false ->
    derive g st (tg_pairs g st) None = Ok ds -> NoDup (map r_id (s_rows st)) -> NoDup (map (did g) ds) ->
    (forall d, In d ds -> has_id (did g d) (s_rows st) = false) -> In (t, gn) (tg_pairs g st) ->
    exists x, extent g st t = Some x /\
      find_id t (s_rows st ++ appended g ds) = Some (set_bin (set_id t (t_row g t gn x))) /\
      NoDup (map r_id (s_rows st ++ appended g ds)).
  Proof.
    intros A B C D E F G. destruct (l_transcript_inferred g st ds t gn A B C D E F G) as [x [X Y]].
    exists x. split; [exact X|]. split; [exact Y|]. exact (l_gtf_ids_unique g st ds D E F).
  Qed.

  Theorem l_nothing_else g st ds d : derive g st (tg_pairs g st) None = Ok ds -> In d ds ->
    exists t gn x, In (t, gn) (tg_pairs g st) /\
      ((d = t_row g t gn x /\ extent g st t = Some x) \/ (d = g_row g gn x /\ extent g st gn = Some x)).
  Proof. intros H. exact (derive_sound g st _ _ _ H d). Qed.
End End2End.
