(* Proofs/JsonProofs.v — the JSON storage form round trips: loads (dumps o) = Some o for every object whose
   strings are sequences of code points below 0x110000 with no high surrogate immediately followed by a low one
   (in particular: every sequence of Unicode scalar values). *)
From GV Require Import Base.Prelude Base.PyStr Model.Parser Model.Json.
From Coq Require Import ZifyBool ZifyN.
Ltac Zify.zify_post_hook ::= Z.to_euclidean_division_equations.
Open Scope N_scope.

(* ---------- hex ---------- *)
Lemma unhexd_jhexd d : d < 16 -> unhexd (jhexd d) = Some d.
Proof.
  intros H. unfold jhexd, unhexd. destruct (N.ltb_spec d 10) as [L|L].
  - replace ((48 <=? 48 + d) && (48 + d <=? 57)) with true by lia. f_equal. lia.
  - replace ((48 <=? 87 + d) && (87 + d <=? 57)) with false by lia.
    replace ((97 <=? 87 + d) && (87 + d <=? 102)) with true by lia. f_equal. lia.
Qed.

Lemma unhex4_jhex4 n : n < 65536 ->
  unhex4 (jhexd (n / 4096)) (jhexd ((n / 256) mod 16)) (jhexd ((n / 16) mod 16)) (jhexd (n mod 16)) = Some n.
Proof.
  intros H. unfold unhex4. rewrite !unhexd_jhexd by lia. f_equal. lia.
Qed.

(* ---------- one-step unfoldings of the tokenizer ---------- *)
Lemma lex_in_cons acc c r : lex (Some acc) (c :: r) =
  if c =? 34 then otcons (TStr (rev acc)) (lex None r)
  else if c =? 92 then
    match r with
    | [] => None
    | e :: r1 =>
        if e =? 117 then lex (Some acc) (92 :: 117 :: r1)
        else match simple_esc e with Some x => lex (Some (x :: acc)) r1 | None => None end
    end
  else if c <? 32 then None else lex (Some (c :: acc)) r.
Proof.
  destruct r as [|e r1]; [reflexivity|]. destruct (N.eqb_spec e 117) as [->|N]; [reflexivity|].
  cbn [lex]. apply N.eqb_neq in N. rewrite N. reflexivity.
Qed.

Lemma lex_bs_u acc a b x d r2 : lex (Some acc) (92 :: 117 :: a :: b :: x :: d :: r2) =
  match unhex4 a b x d with
  | None => None
  | Some u =>
      if is_hi u then
        match r2 with
        | b1 :: u1 :: a2 :: b2 :: x2 :: d2 :: r3 =>
            if (b1 =? 92) && (u1 =? 117) then
              match unhex4 a2 b2 x2 d2 with
              | None => None
              | Some u2 => if is_lo u2 then lex (Some (combine u u2 :: acc)) r3 else lex (Some (u :: acc)) r2
              end
            else lex (Some (u :: acc)) r2
        | _ => lex (Some (u :: acc)) r2
        end
      else lex (Some (u :: acc)) r2
  end.
Proof. reflexivity. Qed.

(* ---------- what follows a lone high surrogate ---------- *)
Definition nolo_start (l : list N) : Prop :=
  match l with
  | b1 :: u1 :: rest =>
      (b1 =? 92) && (u1 =? 117) = true ->
      match rest with
      | a2 :: b2 :: x2 :: d2 :: _ => exists u2, unhex4 a2 b2 x2 d2 = Some u2 /\ is_lo u2 = false
      | _ => True
      end
  | _ => True
  end.

Lemma lex_u_plain acc a b x d r2 u : unhex4 a b x d = Some u -> (is_hi u = true -> nolo_start r2) ->
  lex (Some acc) (92 :: 117 :: a :: b :: x :: d :: r2) = lex (Some (u :: acc)) r2.
Proof.
  intros Hu Hn. rewrite lex_bs_u, Hu. destruct (is_hi u) eqn:Hh; [|reflexivity].
  specialize (Hn eq_refl). destruct r2 as [|b1 [|u1 [|a2 [|b2 [|x2 [|d2 r3]]]]]]; try reflexivity.
  cbn [nolo_start] in Hn. destruct ((b1 =? 92) && (u1 =? 117)) eqn:E; [|reflexivity].
  destruct (Hn eq_refl) as [u2 [H2 L2]]. rewrite H2, L2. reflexivity.
Qed.

Lemma lex_u_pair acc a b x d a2 b2 x2 d2 r3 u u2 : unhex4 a b x d = Some u -> unhex4 a2 b2 x2 d2 = Some u2 ->
  is_hi u = true -> is_lo u2 = true ->
  lex (Some acc) (92 :: 117 :: a :: b :: x :: d :: 92 :: 117 :: a2 :: b2 :: x2 :: d2 :: r3)
  = lex (Some (combine u u2 :: acc)) r3.
Proof.
  intros Hu Hu2 Hh Hl. rewrite lex_bs_u, Hu, Hh. change ((92 =? 92) && (117 =? 117)) with true. cbv iota.
  rewrite Hu2, Hl. reflexivity.
Qed.


Lemma nolo_simple e T : e <> 117 -> nolo_start (92 :: e :: T).
Proof.
  intros H. cbn [nolo_start]. intros X. apply andb_prop in X as [_ X]. apply N.eqb_eq in X. contradiction.
Qed.

(* the escape of a code point that is not a low surrogate never completes a pair *)
Lemma nolo_esc c T : cp c -> is_lo c = false -> nolo_start (esc_char c ++ T).
Proof.
  intros Hc Hl. unfold esc_char.
  destruct (N.eqb_spec c 34); [apply nolo_simple; discriminate|].
  destruct (N.eqb_spec c 92) as [|N2]; [apply nolo_simple; discriminate|].
  destruct (N.eqb_spec c 10); [apply nolo_simple; discriminate|].
  destruct (N.eqb_spec c 13); [apply nolo_simple; discriminate|].
  destruct (N.eqb_spec c 9); [apply nolo_simple; discriminate|].
  destruct (N.eqb_spec c 8); [apply nolo_simple; discriminate|].
  destruct (N.eqb_spec c 12); [apply nolo_simple; discriminate|].
  destruct ((32 <=? c) && (c <=? 126)) eqn:E.
  - cbn [app]. destruct T as [|t1 T]; cbn [nolo_start]; [exact I|].
    intros X. apply andb_prop in X as [X _]. apply N.eqb_eq in X. contradiction.
  - destruct (N.ltb_spec c 65536) as [L|L].
    + unfold uesc, jhex4. cbn [app nolo_start]. intros _. exists c. split; [apply unhex4_jhex4; exact L|exact Hl].
    + unfold uesc at 1, jhex4 at 1. cbn [app nolo_start]. intros _.
      exists (55296 + (c - 65536) / 1024). unfold cp in Hc. split; [apply unhex4_jhex4; lia|].
      unfold is_lo. lia.
Qed.

Lemma nolo_quote T : nolo_start (34 :: T).
Proof. destruct T as [|t1 T]; cbn [nolo_start]; [exact I|]. intros X. apply andb_prop in X as [X _]. discriminate X. Qed.

(* one character *)
Lemma lex_simple acc e x T : e <> 117 -> simple_esc e = Some x -> lex (Some acc) (92 :: e :: T) = lex (Some (x :: acc)) T.
Proof.
  intros N E. rewrite lex_in_cons. change (92 =? 34) with false. change (92 =? 92) with true. cbv iota.
  apply N.eqb_neq in N. rewrite N, E. reflexivity.
Qed.

Lemma lex_char acc c T : cp c -> (is_hi c = true -> nolo_start T) ->
  lex (Some acc) (esc_char c ++ T) = lex (Some (c :: acc)) T.
Proof.
  intros Hc Hn. unfold esc_char.
  destruct (N.eqb_spec c 34) as [->|N1]; [apply lex_simple; [discriminate|reflexivity]|].
  destruct (N.eqb_spec c 92) as [->|N2]; [apply lex_simple; [discriminate|reflexivity]|].
  destruct (N.eqb_spec c 10) as [->|N3]; [apply lex_simple; [discriminate|reflexivity]|].
  destruct (N.eqb_spec c 13) as [->|N4]; [apply lex_simple; [discriminate|reflexivity]|].
  destruct (N.eqb_spec c 9) as [->|N5]; [apply lex_simple; [discriminate|reflexivity]|].
  destruct (N.eqb_spec c 8) as [->|N6]; [apply lex_simple; [discriminate|reflexivity]|].
  destruct (N.eqb_spec c 12) as [->|N7]; [apply lex_simple; [discriminate|reflexivity]|].
  destruct ((32 <=? c) && (c <=? 126)) eqn:E.
  - cbn [app]. rewrite lex_in_cons. replace (c =? 34) with false by lia. replace (c =? 92) with false by lia.
    replace (c <? 32) with false by lia. reflexivity.
  - destruct (N.ltb_spec c 65536) as [L|L].
    + unfold uesc, jhex4. cbn [app]. apply lex_u_plain; [apply unhex4_jhex4; exact L|exact Hn].
    + unfold cp in Hc. unfold uesc, jhex4. cbn [app].
      rewrite (lex_u_pair acc _ _ _ _ _ _ _ _ T (55296 + (c - 65536) / 1024) (56320 + (c - 65536) mod 1024)).
      * f_equal. f_equal. f_equal. unfold combine. lia.
      * apply unhex4_jhex4. lia.
      * apply unhex4_jhex4. lia.
      * unfold is_hi. lia.
      * unfold is_lo. lia.
Qed.

(* ---------- strings ---------- *)

Lemma lex_body s : forall acc T, str_ok s ->
  lex (Some acc) (flat_map esc_char s ++ 34 :: T) = otcons (TStr (rev acc ++ s)) (lex None T).
Proof.
  induction s as [|c s IH]; intros acc T [Hcp Hnp].
  - cbn [flat_map app]. rewrite lex_in_cons. change (34 =? 34) with true. cbv iota. rewrite app_nil_r. reflexivity.
  - cbn [flat_map]. rewrite <- app_assoc. inversion Hcp as [|c0 s0 Hc Hs]; subst.
    cbn [no_pair] in Hnp. apply andb_prop in Hnp as [Hp Hnp].
    rewrite lex_char; [| exact Hc |].
    + rewrite IH by (split; assumption). cbn [rev]. rewrite <- app_assoc. reflexivity.
    + intros Hh. destruct s as [|c2 s]; [apply nolo_quote|].
      cbn [flat_map]. rewrite <- app_assoc. apply nolo_esc; [inversion Hs; assumption|].
      rewrite Hh in Hp. cbn [andb] in Hp. destruct (is_lo c2); [discriminate|reflexivity].
Qed.

Lemma lex_qstr s T : str_ok s -> lex None (qstr s ++ T) = otcons (TStr s) (lex None T).
Proof.
  intros H. unfold qstr. cbn [app]. change (lex None (34 :: ?X)) with (lex (Some []) X).
  rewrite <- app_assoc. cbn [app]. apply (lex_body s [] T H).
Qed.

(* ---------- token streams ---------- *)
Fixpoint sep_toks (l : list (list tok)) : list tok :=
  match l with [] => [] | [x] => x | x :: r => x ++ TComma :: sep_toks r end.
Definition val_toks (v : jval) : list tok :=
  match v with
  | JS s => [TStr s]
  | JB b => [if b then TTrue else TFalse]
  | JL l => TLBrack :: sep_toks (map (fun s => [TStr s]) l) ++ [TRBrack]
  end.
Definition member_toks (kv : list N * jval) : list tok := TStr (fst kv) :: TColon :: val_toks (snd kv).
Definition obj_toks (o : jobj) : list tok := TLBrace :: sep_toks (map member_toks o) ++ [TRBrace].

Definition val_ok (v : jval) : Prop :=
  match v with JS s => str_ok s | JB _ => True | JL l => Forall str_ok l end.
Definition obj_ok (o : jobj) : Prop := Forall (fun kv => str_ok (fst kv) /\ val_ok (snd kv)) o.

Lemma otcons_app t ts r : otcons t (option_map (app ts) r) = option_map (app (t :: ts)) r.
Proof. destruct r; reflexivity. Qed.

Lemma lex_strs l : Forall str_ok l -> forall T,
  lex None (jjoin (map qstr l) ++ T) = option_map (app (sep_toks (map (fun s => [TStr s]) l))) (lex None T).
Proof.
  induction l as [|s l IH]; intros H T.
  - cbn. destruct (lex None T); reflexivity.
  - inversion H as [|s0 l0 Hs Hl]; subst. destruct l as [|s2 l].
    + cbn [map jjoin sep_toks]. rewrite lex_qstr by exact Hs. destruct (lex None T); reflexivity.
    + change (jjoin (map qstr (s :: s2 :: l))) with (qstr s ++ 44 :: jjoin (map qstr (s2 :: l))).
      rewrite <- app_assoc. rewrite lex_qstr by exact Hs. cbn [app].
      change (lex None (44 :: ?X)) with (otcons TComma (lex None X)).
      rewrite (IH Hl T).
      change (sep_toks (map (fun s0 => [TStr s0]) (s :: s2 :: l)))
        with ([TStr s] ++ TComma :: sep_toks (map (fun s0 => [TStr s0]) (s2 :: l))).
      destruct (lex None T); reflexivity.
Qed.

Lemma lex_val v T : val_ok v -> lex None (dump_val v ++ T) = option_map (app (val_toks v)) (lex None T).
Proof.
  destruct v as [s|b|l]; intros H; cbn [dump_val val_toks].
  - rewrite lex_qstr by exact H. destruct (lex None T); reflexivity.
  - destruct b; cbn; destruct (lex None T); reflexivity.
  - cbn [app]. change (lex None (91 :: ?X)) with (otcons TLBrack (lex None X)).
    rewrite <- app_assoc. rewrite lex_strs by exact H. cbn [app].
    change (lex None (93 :: T)) with (otcons TRBrack (lex None T)).
    destruct (lex None T); cbn; [rewrite <- app_assoc|]; reflexivity.
Qed.

Lemma lex_member kv T : str_ok (fst kv) -> val_ok (snd kv) ->
  lex None (dump_member kv ++ T) = option_map (app (member_toks kv)) (lex None T).
Proof.
  intros Hk Hv. unfold dump_member, member_toks. rewrite <- app_assoc. rewrite lex_qstr by exact Hk. cbn [app].
  change (lex None (58 :: ?X)) with (otcons TColon (lex None X)). rewrite lex_val by exact Hv.
  destruct (lex None T); reflexivity.
Qed.

Lemma lex_members o : obj_ok o -> forall T,
  lex None (jjoin (map dump_member o) ++ T) = option_map (app (sep_toks (map member_toks o))) (lex None T).
Proof.
  induction o as [|kv o IH]; intros H T.
  - cbn. destruct (lex None T); reflexivity.
  - inversion H as [|kv0 o0 [Hk Hv] Ho]; subst. destruct o as [|kv2 o].
    + cbn [map jjoin sep_toks]. apply lex_member; assumption.
    + change (jjoin (map dump_member (kv :: kv2 :: o))) with (dump_member kv ++ 44 :: jjoin (map dump_member (kv2 :: o))).
      rewrite <- app_assoc. rewrite lex_member by assumption. cbn [app].
      change (lex None (44 :: ?X)) with (otcons TComma (lex None X)). rewrite (IH Ho T).
      change (sep_toks (map member_toks (kv :: kv2 :: o)))
        with (member_toks kv ++ TComma :: sep_toks (map member_toks (kv2 :: o))).
      destruct (lex None T); cbn; [rewrite <- app_assoc|]; reflexivity.
Qed.

Lemma lex_dumps o : obj_ok o -> lex None (dumps o) = Some (obj_toks o).
Proof.
  intros H. unfold dumps, obj_toks. change (lex None (123 :: ?X)) with (otcons TLBrace (lex None X)).
  rewrite lex_members by exact H. reflexivity.
Qed.

(* ---------- the token machine on the tokens of an object with distinct keys ---------- *)
Lemma prun_app s ts1 ts2 : prun s (ts1 ++ ts2) = match prun s ts1 with Some s' => prun s' ts2 | None => None end.
Proof. revert s; induction ts1 as [|t ts1 IH]; intros s; cbn; [reflexivity|]. destruct (pstep s t); [apply IH|reflexivity]. Qed.

Lemma sep_cons (x : list tok) : forall r, sep_toks (x :: r) = x ++ flat_map (fun y => TComma :: y) r.
Proof.
  intros r; revert x; induction r as [|y r IH]; intros x.
  - cbn. rewrite app_nil_r. reflexivity.
  - change (sep_toks (x :: y :: r)) with (x ++ TComma :: sep_toks (y :: r)). rewrite IH. reflexivity.
Qed.

Lemma prun_tail o k : forall l vs s0,
  prun (PListS o k (s0 :: vs)) (flat_map (fun y => TComma :: y) (map (fun s => [TStr s]) l) ++ [TRBrack])
  = Some (PVal (oset k (JL (rev (s0 :: vs) ++ l)) o)).
Proof.
  induction l as [|s l IH]; intros vs s0.
  - cbn [map flat_map app prun pstep]. rewrite app_nil_r. reflexivity.
  - cbn [map flat_map app prun pstep]. rewrite IH. cbn [rev]. rewrite <- !app_assoc. reflexivity.
Qed.

Lemma prun_val o k v ts : prun (PColon o k) (val_toks v ++ ts) = prun (PVal (oset k v o)) ts.
Proof.
  destruct v as [s|b|l]; cbn [val_toks].
  - reflexivity.
  - destruct b; reflexivity.
  - destruct l as [|s l]; [reflexivity|]. cbn [map]. rewrite sep_cons. cbn [app prun pstep].
    rewrite <- !app_assoc. rewrite (app_assoc _ [TRBrack] ts). rewrite prun_app. rewrite prun_tail. reflexivity.
Qed.

Lemma prun_member0 o kv ts : prun (PObj0 o) (member_toks kv ++ ts) = prun (PVal (oset (fst kv) (snd kv) o)) ts.
Proof. unfold member_toks. cbn [app prun pstep]. apply prun_val. Qed.
Lemma prun_memberC o kv ts : prun (PComma o) (member_toks kv ++ ts) = prun (PVal (oset (fst kv) (snd kv) o)) ts.
Proof. unfold member_toks. cbn [app prun pstep]. apply prun_val. Qed.

Definition oset_all (o acc : jobj) : jobj := fold_left (fun a kv => oset (fst kv) (snd kv) a) o acc.

Lemma prun_members : forall r acc,
  prun (PVal acc) (flat_map (fun y => TComma :: y) (map member_toks r) ++ [TRBrace]) = Some (PDone (oset_all r acc)).
Proof.
  induction r as [|kv r IH]; intros acc; [reflexivity|].
  cbn [map flat_map]. rewrite <- app_assoc. cbn [app prun pstep]. rewrite prun_memberC. apply IH.
Qed.

Lemma prun_obj o : prun PStart (obj_toks o) = Some (PDone (oset_all o [])).
Proof.
  unfold obj_toks. cbn [prun pstep]. destruct o as [|kv r]; [reflexivity|].
  cbn [map]. rewrite sep_cons. rewrite <- app_assoc. rewrite prun_member0. rewrite prun_members. reflexivity.
Qed.

Lemma oset_fresh k v : forall acc, ~ In k (map fst acc) -> oset k v acc = acc ++ [(k, v)].
Proof.
  induction acc as [|[k' v'] acc IH]; intros H; [reflexivity|]. cbn [oset].
  destruct (str_eqb k k') eqn:E; [apply str_eqb_eq in E; subst; exfalso; apply H; left; reflexivity|].
  cbn [app]. f_equal. apply IH. intros X. apply H. right. exact X.
Qed.

Lemma oset_all_nodup : forall o acc, NoDup (map fst (acc ++ o)) -> oset_all o acc = acc ++ o.
Proof.
  induction o as [|[k v] o IH]; intros acc H; [cbn; rewrite app_nil_r; reflexivity|].
  cbn [oset_all fold_left fst snd]. fold (oset_all o (oset k v acc)).
  rewrite oset_fresh.
  - rewrite IH; rewrite <- app_assoc; [reflexivity|exact H].
  - rewrite map_app in H. apply NoDup_remove_2 in H. intros X. apply H. apply in_or_app. left. exact X.
Qed.

Theorem l_loads_dumps o : obj_ok o -> NoDup (map fst o) -> loads (dumps o) = Some o.
Proof.
  intros Hok Hnd. unfold loads. rewrite lex_dumps by exact Hok. rewrite prun_obj.
  rewrite oset_all_nodup by exact Hnd. reflexivity.
Qed.

(* ---------- the two stored shapes ---------- *)

Lemma obj_attrs_inv a : obj_attrs (attrs_obj a) = Some a.
Proof.
  induction a as [|[k l] a IH]; [reflexivity|].
  change (attrs_obj ((k, l) :: a)) with ((k, JL l) :: attrs_obj a). cbn [obj_attrs]. rewrite IH. reflexivity.
Qed.

Theorem l_attrs_roundtrip a : attrs_ok a -> NoDup (map fst a) -> loads_attrs (dumps_attrs a) = Some a.
Proof.
  intros Hok Hnd. unfold loads_attrs, dumps_attrs. rewrite l_loads_dumps.
  - apply obj_attrs_inv.
  - unfold obj_ok, attrs_obj. rewrite Forall_map. exact Hok.
  - unfold attrs_obj. rewrite map_map. exact Hnd.
Qed.

(* scalar values: what "Unicode content" means *)
Lemma scalar_str_ok s : forallb scalar s = true -> str_ok s.
Proof.
  induction s as [|c s IH]; intros H; [split; [constructor|reflexivity]|].
  cbn [forallb] in H. apply andb_prop in H as [Hc Hs]. destruct (IH Hs) as [F P]. split.
  - constructor; [unfold scalar in Hc; unfold cp; lia|exact F].
  - cbn [no_pair]. rewrite P. destruct s as [|c2 s]; [reflexivity|].
    replace (is_hi c) with false by (unfold scalar in Hc; unfold is_hi; lia). reflexivity.
Qed.

Theorem l_unicode_roundtrip a :
  forallb (fun kv => forallb scalar (fst kv) && forallb (forallb scalar) (snd kv)) a = true -> NoDup (map fst a) ->
  loads_attrs (dumps_attrs a) = Some a.
Proof.
  intros H. apply l_attrs_roundtrip. unfold attrs_ok. apply Forall_forall. intros kv Hin.
  rewrite forallb_forall in H. specialize (H kv Hin). apply andb_prop in H as [Hk Hv]. split.
  - apply scalar_str_ok. exact Hk.
  - apply Forall_forall. intros v Hv'. rewrite forallb_forall in Hv. apply scalar_str_ok. apply Hv. exact Hv'.
Qed.


Lemma ascii_ok s : forallb (fun c => c <? 128) s = true -> str_ok s.
Proof. intros H. apply scalar_str_ok. apply forallb_forall. intros c Hc. rewrite forallb_forall in H. specialize (H c Hc). unfold scalar. lia. Qed.

Theorem l_dialect_roundtrip d : dialect_ok d -> loads_dialect (dumps_dialect d) = Some d.
Proof.
  intros (H1 & H2 & H3 & H4 & H5). unfold loads_dialect, dumps_dialect. rewrite l_loads_dumps.
  - destruct d; reflexivity.
  - unfold dialect_obj, obj_ok.
    repeat (apply Forall_cons; [cbn [fst snd val_ok]; split; [apply ascii_ok; reflexivity|first [assumption|exact I]]|]).
    apply Forall_nil.
  - unfold dialect_obj. cbn [map fst]. 
    repeat (constructor; [cbn [In]; intros X; repeat (destruct X as [X|X]; [discriminate X|]); exact X|]). constructor.
Qed.

(* the hypothesis on pairs is necessary: two code points that form a surrogate pair come back as one *)
Lemma l_pair_collapses : loads_attrs (dumps_attrs [([107], [[55357; 56832]])]) = Some [([107], [[128512]])].
Proof. vm_compute. reflexivity. Qed.

(* ---------- ensure_ascii ---------- *)
Definition ascii (l : list N) : Prop := Forall (fun c => c < 128) l.

Lemma ascii_app a b : ascii a -> ascii b -> ascii (a ++ b).
Proof. intros A B. apply Forall_app. split; assumption. Qed.

Lemma jhexd_ascii d : d < 16 -> jhexd d < 128.
Proof. intros H. unfold jhexd. destruct (d <? 10); lia. Qed.

Lemma uesc_ascii n : n < 65536 -> ascii (uesc n).
Proof.
  intros H. unfold uesc, jhex4. repeat (apply Forall_cons; [try lia; apply jhexd_ascii; lia|]). apply Forall_nil.
Qed.

Lemma esc_char_ascii c : c < 1114112 -> ascii (esc_char c).
Proof.
  intros H. unfold esc_char.
  repeat match goal with |- ascii (if ?b then _ else _) => destruct b eqn:? end;
    try (repeat (apply Forall_cons; [lia|]); apply Forall_nil).
  - apply uesc_ascii. lia.
  - apply ascii_app; apply uesc_ascii; lia.
Qed.

Lemma qstr_ascii s : Forall cp s -> ascii (qstr s).
Proof.
  intros H. unfold qstr. apply Forall_cons; [lia|]. apply ascii_app; [|apply Forall_cons; [lia|apply Forall_nil]].
  induction H as [|c s Hc Hs IH]; [apply Forall_nil|]. cbn [flat_map]. apply ascii_app; [apply esc_char_ascii; exact Hc|exact IH].
Qed.

Lemma jjoin_ascii l : Forall ascii l -> ascii (jjoin l).
Proof.
  induction l as [|x l IH]; intros H; [apply Forall_nil|]. inversion H as [|? ? Hx Hl]; subst. destruct l as [|y l]; [exact Hx|].
  change (jjoin (x :: y :: l)) with (x ++ 44 :: jjoin (y :: l)). apply ascii_app; [exact Hx|]. apply Forall_cons; [lia|apply IH; exact Hl].
Qed.

(* the stored JSON text is pure ASCII (ensure_ascii), whatever the attribute content *)
Theorem l_dumps_attrs_ascii a : Forall (fun kv => Forall cp (fst kv) /\ Forall (Forall cp) (snd kv)) a -> ascii (dumps_attrs a).
Proof.
  intros H. unfold dumps_attrs, dumps. apply Forall_cons; [lia|]. apply ascii_app; [|apply Forall_cons; [lia|apply Forall_nil]].
  apply jjoin_ascii. unfold attrs_obj. rewrite map_map. apply Forall_map. apply (Forall_impl _ (P := fun kv => Forall cp (fst kv) /\ Forall (Forall cp) (snd kv))); [|exact H].
  intros [k vs] [Hk Hv]. cbn [fst snd] in *. unfold dump_member. cbn [fst snd dump_val]. apply ascii_app; [apply qstr_ascii; exact Hk|].
  apply Forall_cons; [lia|]. apply Forall_cons; [lia|]. apply ascii_app; [|apply Forall_cons; [lia|apply Forall_nil]].
  apply jjoin_ascii. apply Forall_map. apply (Forall_impl _ (P := Forall cp)); [|exact Hv]. intros s Hs. apply qstr_ascii. exact Hs.
Qed.
