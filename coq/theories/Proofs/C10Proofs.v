(* Proofs/C10Proofs.v — laws of the update/delete/add_relation/reopen machine, for every state,
   every operation and every history (induction over the operation list). *)
From GV Require Import Base.Prelude Base.PyStr Model.Bins Model.DB Model.Parser Model.Import Model.GtfSpec Model.Machine
  Proofs.IntStr Proofs.C04Proofs.
Open Scope Z_scope.

(* ---------- both importers keep the keys unique ---------- *)
Section Ids.
  Variable call : nat -> row -> option str.

  Lemma step_gtf_ids g strat force spec st f0 st' : NoDup (ids st) -> step_gtf call g strat force spec st f0 = Ok st' -> NoDup (ids st').
  Proof.
    intros Hnd. unfold step_gtf. destruct (store call strat force spec st f0) as [o|e] eqn:E; [|discriminate].
    pose proof (store_ids call strat force spec st f0 o Hnd E) as L. destruct o as [s1|s1 id]; intros H; inversion H; subst.
    - rewrite L. exact Hnd.
    - exact L.
  Qed.

  Lemma insert_derived_ids force spec st f0 st' : NoDup (ids st) -> insert_derived call force spec st f0 = Ok st' -> NoDup (ids st').
  Proof.
    intros Hnd. unfold insert_derived. destruct (negb (derived_clean f0)); [discriminate|].
    destruct (id_handler call spec f0 (s_auto st)) as [[id a]|e]; [|discriminate]. cbn [s_rows s_rels s_dups].
    destruct (has_id id (s_rows st)) eqn:E.
    - destruct (rev (filter _ _)) as [|target rest].
      + destruct (fresh_auto _ _ _ _) as [[nid a']|]; [|discriminate]. intros H. inversion H. exact Hnd.
      + intros H. inversion H. unfold ids. cbn [s_rows]. rewrite ids_update; [exact Hnd|]. intros r. reflexivity.
    - intros H. inversion H. unfold ids. cbn [s_rows]. rewrite map_app. cbn. apply NoDup_snoc; [exact Hnd|].
      intro Hin. apply has_id_In in Hin. congruence.
  Qed.

  Lemma run_steps_ids (stepf : ist -> row -> result ist) :
    (forall st f st', NoDup (ids st) -> stepf st f = Ok st' -> NoDup (ids st')) ->
    forall fs st st', NoDup (ids st) -> run_steps stepf fs st = Ok st' -> NoDup (ids st').
  Proof.
    intros Hs. induction fs as [|f fs IH]; intros st st' Hnd H; cbn [run_steps] in H; [inversion H; subst; exact Hnd|].
    destruct (stepf st f) as [s1|e] eqn:E; [|discriminate]. eapply IH; [|exact H]. eapply Hs; eassumption.
  Qed.

  Lemma update_relations_gff_ids st st' : NoDup (ids st) -> update_relations_gff st = Ok st' -> NoDup (ids st').
  Proof. unfold update_relations_gff. destruct (read_pairs (grand_pairs st)); [|discriminate]. intros Hnd H. inversion H. exact Hnd. Qed.

  Lemma update_relations_gtf_ids g force spec st st' : NoDup (ids st) -> update_relations_gtf call g force spec st = Ok st' -> NoDup (ids st').
  Proof.
    unfold update_relations_gtf. destruct (g_no_genes g && g_no_transcripts g); [intros Hnd H; inversion H; subst; exact Hnd|].
    destruct (derive g st (tg_pairs g st) None) as [ds|e]; [|discriminate]. intros Hnd. apply run_steps_ids; [|exact Hnd].
    intros s f s' A B. eapply insert_derived_ids; eassumption.
  Qed.
End Ids.

Section M.
  Variable call : nat -> row -> option str.
  Variable kind : dbkind.
  Notation step := (step call kind).
  Notation run := (run call kind).

  Lemma step_imp_ids strat spec st f st' : NoDup (ids st) -> step_imp call kind strat spec st f = Ok st' -> NoDup (ids st').
  Proof. unfold step_imp. destruct kind; [apply (step_ids call)|apply step_gtf_ids]. Qed.

  Lemma rel_imp_ids spec st st' : NoDup (ids st) -> rel_imp call kind spec st = Ok st' -> NoDup (ids st').
  Proof. unfold rel_imp. destruct kind; [apply update_relations_gff_ids|apply update_relations_gtf_ids]. Qed.

  (* ---------- delete: the named rows and exactly the relations mentioning them ---------- *)
  Theorem l_delete_rows s ids b r :
    In r (s_rows (m_disk (fst (step s (OpDelete ids b))))) <-> In r (s_rows (m_disk s)) /\ ~ In (r_id r) ids.
  Proof.
    cbn. rewrite filter_In. rewrite negb_true_iff. split; intros [A B]; (split; [exact A|]).
    - intros Hin. apply mem_str_In in Hin. congruence.
    - destruct (mem_str (r_id r) ids) eqn:E; [|reflexivity]. apply mem_str_In in E. contradiction.
  Qed.

  Theorem l_delete_rels s ids b x :
    In x (s_rels (m_disk (fst (step s (OpDelete ids b))))) <->
    In x (s_rels (m_disk s)) /\ ~ In (rel_parent x) ids /\ ~ In (rel_child x) ids.
  Proof.
    cbn. rewrite filter_In. rewrite negb_true_iff, orb_false_iff. split.
    - intros [A [B C]]. split; [exact A|]. split; intros Hin; apply mem_str_In in Hin; congruence.
    - intros [A [B C]]. split; [exact A|]. split.
      + destruct (mem_str (rel_parent x) ids) eqn:E; [|reflexivity]. apply mem_str_In in E. contradiction.
      + destruct (mem_str (rel_child x) ids) eqn:E; [|reflexivity]. apply mem_str_In in E. contradiction.
  Qed.

  Lemma filter_split {A} (p : A -> bool) : forall rows l1 x l2, filter p rows = l1 ++ x :: l2 ->
    exists k1 k2, rows = k1 ++ x :: k2 /\ filter p k1 = l1 /\ filter p k2 = l2.
  Proof.
    induction rows as [|r rows IH]; intros l1 x l2 H; [destruct l1; discriminate|]. cbn [filter] in H.
    destruct (p r) eqn:E.
    - destruct l1 as [|y l1]; inversion H as [[Hr Ht]].
      + exists [], rows. repeat split.
      + destruct (IH l1 x l2 Ht) as [k1 [k2 [E1 [E2 E3]]]]. exists (r :: k1), k2. rewrite E1. cbn [filter]. rewrite E, E2, E3. rewrite Hr. repeat split.
    - destruct (IH l1 x l2 H) as [k1 [k2 [E1 [E2 E3]]]]. exists (r :: k1), k2. subst rows. cbn [filter]. rewrite E. repeat split; assumption.
  Qed.

  (* ... and nothing else: order of the survivors, duplicates table, persisted and live counters *)
  Theorem l_delete_rest s ids b :
    let s' := fst (step s (OpDelete ids b)) in
    s_dups (m_disk s') = s_dups (m_disk s) /\ s_auto (m_disk s') = s_auto (m_disk s) /\ m_mem s' = m_mem s /\
    snd (step s (OpDelete ids b)) = Ok tt /\
    (forall r1 r2 l1 l2 l3, s_rows (m_disk s') = l1 ++ r1 :: l2 ++ r2 :: l3 ->
       exists k1 k2 k3, s_rows (m_disk s) = k1 ++ r1 :: k2 ++ r2 :: k3).
  Proof.
    cbn. repeat split. intros r1 r2 l1 l2 l3 H.
    apply filter_split in H as [k1 [k2' [E1 [_ E3]]]]. apply filter_split in E3 as [k2 [k3 [E2 _]]].
    exists k1, k2, k3. rewrite E1, E2. reflexivity.
  Qed.

  (* ---------- update with no features changes nothing ---------- *)
  Theorem l_update_empty s strat spec w b :
    m_disk (fst (step s (OpUpdate [] strat spec w None b))) = m_disk s /\
    m_mem (fst (step s (OpUpdate [] strat spec w None b))) = m_mem s /\
    snd (step s (OpUpdate [] strat spec w None b)) = Ok tt.
  Proof. cbn. repeat split. Qed.

  (* ---------- run_track is the importer's run with the counters remembered ---------- *)
  Lemma run_track_fst strat spec : forall fs st, fst (run_track call kind strat spec fs st) = run_steps (step_imp call kind strat spec) fs st.
  Proof.
    induction fs as [|f fs IH]; intros st; [reflexivity|]. cbn [run_track run_steps].
    destruct (step_imp call kind strat spec st f); [apply IH|reflexivity].
  Qed.

  (* ---------- the backup is the complete pre-operation state, whatever happens next ---------- *)
  Theorem l_backup_update s fs strat spec w fail :
    m_bak (fst (step s (OpUpdate fs strat spec w fail true))) = Some (m_disk s).
  Proof.
    cbn [step]. unfold do_update.
    destruct (match fail with Some k => Nat.leb k (length fs) | None => false end
              && Nat.leb (length match fail with Some k => firstn k fs | None => fs end) w); [reflexivity|].
    destruct (match fail with Some k => firstn k fs | None => fs end) as [|f0 av] eqn:Ea;
      destruct (match fail with Some k => Nat.leb k (length fs) | None => false end) eqn:Ef; try reflexivity;
      match goal with |- context [run_track ?c ?a ?b ?l ?st] => destruct (run_track c a b l st) as [r mem'] end;
      (destruct r as [st'|e]; [|reflexivity]); try reflexivity;
      destruct (rel_imp call kind spec st'); reflexivity.
  Qed.

  Theorem l_backup_delete s ids : m_bak (fst (step s (OpDelete ids true))) = Some (m_disk s).
  Proof. reflexivity. Qed.

  (* without make_backup, and for add_relation / reopen, an existing .bak is left alone *)
  Theorem l_backup_kept s o : (match o with OpUpdate _ _ _ _ _ b => b = false | OpDelete _ b => b = false | _ => True end) ->
    m_bak (fst (step s o)) = m_bak s.
  Proof.
    destruct o as [fs strat spec w fail b|ids b|p c l rt|]; intros H; try subst b; try reflexivity.
    - cbn [step]. unfold do_update.
      destruct (match fail with Some k => Nat.leb k (length fs) | None => false end
                && Nat.leb (length match fail with Some k => firstn k fs | None => fs end) w); [reflexivity|].
      destruct (match fail with Some k => firstn k fs | None => fs end) as [|f0 av] eqn:Ea;
        destruct (match fail with Some k => Nat.leb k (length fs) | None => false end) eqn:Ef; try reflexivity;
        match goal with |- context [run_track ?c ?a ?b ?l ?st] => destruct (run_track c a b l st) as [r mem'] end;
        (destruct r as [st'|e]; [|reflexivity]); try reflexivity;
        destruct (rel_imp call kind spec st'); reflexivity.
    - cbn [step]. unfold do_addrel. destruct (negb _ || negb _); [reflexivity|]. destruct (has_rel _ _); reflexivity.
  Qed.

  (* ---------- an update whose feature source fails leaves the database file untouched, at every
     failure position ---------- *)
  Theorem l_failed_source_atomic s fs strat spec w k b : (k <= length fs)%nat ->
    m_disk (fst (step s (OpUpdate fs strat spec w (Some k) b))) = m_disk s /\
    exists e, snd (step s (OpUpdate fs strat spec w (Some k) b)) = Err e.
  Proof.
    intros Hk. cbn [step]. unfold do_update. apply Nat.leb_le in Hk. rewrite Hk. cbn [andb].
    destruct (Nat.leb (length (firstn k fs)) w); [split; [reflexivity|eexists; reflexivity]|].
    destruct (firstn k fs) as [|f0 av];
      match goal with |- context [run_track ?c ?a ?b ?l ?st] => destruct (run_track c a b l st) as [r mem'] end;
      destruct r as [st'|e]; split; try reflexivity; eexists; reflexivity.
  Qed.

  (* an update that raises while populating (duplicate under 'error', several ID values, ...) is
     rolled back as well *)
  Theorem l_failed_populate_atomic s fs strat spec w b e :
    fst (run_track call kind strat spec fs (with_auto (m_disk s) (m_mem s))) = Err e ->
    m_disk (fst (step s (OpUpdate fs strat spec w None b))) = m_disk s.
  Proof.
    intros H. cbn [step]. unfold do_update. cbn [andb].
    destruct fs as [|f0 fs']; [reflexivity|].
    destruct (run_track call kind strat spec (f0 :: fs') (with_auto (m_disk s) (m_mem s))) as [r mem']. cbn [fst] in H. subst r. reflexivity.
  Qed.

  (* ---------- reopen ---------- *)
  Theorem l_reopen s : m_disk (fst (step s OpReopen)) = m_disk s /\ m_mem (fst (step s OpReopen)) = s_auto (m_disk s).
  Proof. split; reflexivity. Qed.

  (* ---------- keys stay unique through every history ---------- *)
  Lemma filter_ids_NoDup (p : row -> bool) rows : NoDup (map r_id rows) -> NoDup (map r_id (filter p rows)).
  Proof.
    induction rows as [|r rows IH]; intros H; [constructor|]. inversion H as [|? ? Hn Hnd]; subst. cbn [filter].
    destruct (p r); [|apply IH; exact Hnd]. cbn [map]. constructor; [|apply IH; exact Hnd].
    intros Hin. apply Hn. apply in_map_iff in Hin as [x [E Hx]]. apply filter_In in Hx as [Hx _]. apply in_map_iff. eauto.
  Qed.

  Lemma update_relations_rows st st' : update_relations_gff st = Ok st' -> s_rows st' = s_rows st.
  Proof. unfold update_relations_gff. destruct (read_pairs (grand_pairs st)); [|discriminate]. intros H. inversion H. reflexivity. Qed.

  Theorem l_step_ids_unique s o : NoDup (ids (m_disk s)) -> NoDup (ids (m_disk (fst (step s o)))).
  Proof.
    intros Hnd. destruct o as [fs strat spec w fail b|idl b|p c l rt|]; cbn [Machine.step].
    - unfold do_update.
      destruct (match fail with Some k => Nat.leb k (length fs) | None => false end
                && Nat.leb (length match fail with Some k => firstn k fs | None => fs end) w); [exact Hnd|].
      set (avail := match fail with Some k => firstn k fs | None => fs end).
      set (fails := match fail with Some k => Nat.leb k (length fs) | None => false end).
      assert (G : forall l, let '(r, mem') := run_track call kind strat spec l (with_auto (m_disk s) (m_mem s)) in
                  NoDup (ids (m_disk (fst (match r with
                    | Err e => (mkM (m_disk s) mem' (if b then Some (m_disk s) else m_bak s), Err e)
                    | Ok st' => if fails then (mkM (m_disk s) mem' (if b then Some (m_disk s) else m_bak s), Err EOther)
                                else match rel_imp call kind spec st' with
                                     | Err e => (mkM (with_auto st' (s_auto (m_disk s))) mem' (if b then Some (m_disk s) else m_bak s), Err e)
                                     | Ok st'' => (mkM (with_auto st'' (persist (s_auto (m_disk s)) (s_auto st''))) (s_auto st'') (if b then Some (m_disk s) else m_bak s), Ok tt)
                                     end end))))).
      { intros l. pose proof (run_track_fst strat spec l (with_auto (m_disk s) (m_mem s))) as F.
        destruct (run_track call kind strat spec l (with_auto (m_disk s) (m_mem s))) as [r mem']. cbn [fst] in F.
        destruct r as [st'|e]; [|exact Hnd]. destruct fails; [exact Hnd|].
        assert (L : NoDup (ids st')).
        { eapply (run_steps_ids (step_imp call kind strat spec)); [intros a f a' A B; eapply step_imp_ids; eassumption| |symmetry; exact F]. exact Hnd. }
        destruct (rel_imp call kind spec st') as [st''|e] eqn:E; cbn; [|exact L].
        exact (rel_imp_ids spec st' st'' L E). }
      destruct avail as [|f0 av] eqn:Ea; destruct fails eqn:Ef; try exact Hnd.
      + pose proof (G (f0 :: av)) as G'. destruct (run_track call kind strat spec (f0 :: av) (with_auto (m_disk s) (m_mem s))) as [r mem']. exact G'.
      + pose proof (G (f0 :: av)) as G'. destruct (run_track call kind strat spec (f0 :: av) (with_auto (m_disk s) (m_mem s))) as [r mem']. exact G'.
    - cbn. unfold ids. cbn. apply filter_ids_NoDup. exact Hnd.
    - unfold do_addrel. destruct (negb _ || negb _); [exact Hnd|]. destruct (has_rel _ _); [exact Hnd|].
      destruct rt; [|exact Hnd]. unfold ids in *. cbn [m_disk fst s_rows]. rewrite ids_update; [exact Hnd|].
      intros r. unfold set_bin. rewrite r_id_setf. reflexivity.
    - exact Hnd.
  Qed.

  Theorem l_history_ids_unique : forall ops s, NoDup (ids (m_disk s)) -> NoDup (ids (m_disk (run s ops))).
  Proof.
    induction ops as [|o ops IH]; intros s H; [exact H|]. cbn [Machine.run]. apply IH. apply l_step_ids_unique. exact H.
  Qed.
  (* ---------- numbering continues from the live counters ---------- *)
  (* the first feature of an update that carries no id attribute gets <featuretype>_(live counter + 1):
     the importer run by update starts from the open object's counters, which reopen reloads from
     the autoincrements table *)
  Theorem l_update_continues_numbering s k f strat :
    is_field_form k = false -> dget k (r_attrs f) = None ->
    has_id (autoid (r_ftype f) (auto_get (r_ftype f) (m_mem s) + 1)) (s_rows (m_disk s)) = false ->
    exists st', step_gff call strat [] (SList [KAttr k]) (with_auto (m_disk s) (m_mem s)) f = Ok st' /\
      In (autoid (r_ftype f) (auto_get (r_ftype f) (m_mem s) + 1)) (ids st') /\
      auto_get (r_ftype f) (s_auto st') = auto_get (r_ftype f) (m_mem s) + 1.
  Proof.
    intros Hk Ha Hfree. unfold step_gff, store. cbn [id_handler].
    rewrite (l_attr_absent call k [] f _ Hk (or_introl Ha)). rewrite l_keys_exhausted.
    destruct (l_auto_incr (r_ftype f) (m_mem s)) as [E1 [E2 _]]. unfold with_auto. cbn [s_auto s_rows s_rels s_dups].
    destruct (auto_incr (r_ftype f) (m_mem s)) as [id a] eqn:Ei. cbn [fst snd] in E1, E2. subst id.
    cbn [s_rows]. rewrite Hfree. eexists. split; [reflexivity|]. cbn [s_rows s_auto]. split; [|exact E2].
    unfold ids. cbn [s_rows]. rewrite map_app. apply in_or_app. right. left. reflexivity.
  Qed.
End M.

(* ---------- id counters never run backwards ---------- *)
Definition cle (a b : counters) : Prop := forall k, auto_get k a <= auto_get k b.

Lemma cle_refl a : cle a a. Proof. intros k. lia. Qed.
Lemma cle_trans a b c : cle a b -> cle b c -> cle a c.
Proof. intros H1 H2 k. specialize (H1 k). specialize (H2 k). lia. Qed.

Lemma cle_incr k a : cle a (snd (auto_incr k a)).
Proof.
  intros k'. destruct (l_auto_incr k a) as [_ [E1 E2]]. destruct (str_eqb k k') eqn:E.
  - apply str_eqb_eq in E. subst k'. rewrite E1. lia.
  - apply str_eqb_neq in E. rewrite (E2 k' E). lia.
Qed.

Section Mono.
  Variable call : nat -> row -> option str.

  Lemma try_keys_cle : forall ks f a id a', try_keys call ks f a = Ok (id, a') -> cle a a'.
  Proof.
    induction ks as [|k ks IH]; intros f a id a' H.
    - cbn in H. inversion H. apply cle_incr.
    - cbn [try_keys] in H. destruct k as [k|n].
      + destruct (is_field_form k).
        * destruct (field_named (inner k)); [inversion H; apply cle_refl|discriminate].
        * destruct (dget k (r_attrs f)) as [[|v [|v2 vs]]|]; try (eapply IH; exact H); try discriminate.
          inversion H. apply cle_refl.
      + destruct (call n f) as [[|c s]|]; try (eapply IH; exact H).
        destruct (startswith (c :: s) AUTOINC); inversion H; [apply cle_incr|apply cle_refl].
  Qed.

  Lemma id_handler_cle spec f a id a' : id_handler call spec f a = Ok (id, a') -> cle a a'.
  Proof.
    unfold id_handler. destruct spec as [ks|d].
    - apply try_keys_cle.
    - destruct (dict_spec d (r_ftype f)); [apply try_keys_cle|]. intros H. inversion H. apply cle_incr.
  Qed.

  Lemma fresh_auto_cle : forall fuel base rows a nid a', fresh_auto fuel base rows a = Some (nid, a') -> cle a a'.
  Proof.
    induction fuel as [|fuel IH]; intros base rows a nid a' H; cbn [fresh_auto] in H;
      pose proof (cle_incr base a) as L; destruct (auto_incr base a) as [n1 a1]; cbn [snd] in L;
      destruct (has_id n1 rows).
    - discriminate.
    - inversion H; subst. exact L.
    - eapply cle_trans; [exact L|eapply IH; exact H].
    - inversion H; subst. exact L.
  Qed.

  Definition out_auto (o : outcome) : counters := match o with OSkip st => s_auto st | OStored st _ => s_auto st end.

  Lemma create_unique_cle st f b o : create_unique st f b = Ok o -> cle (s_auto st) (out_auto o).
  Proof.
    unfold create_unique. destruct (fresh_auto (length (s_rows st)) (r_id f) (s_rows st) (s_auto st)) as [[nid a]|] eqn:E; [|discriminate].
    intros H. inversion H. cbn. eapply fresh_auto_cle. exact E.
  Qed.

  Lemma do_merge_cle strat force st f o : do_merge strat force st f = Ok o -> cle (s_auto st) (out_auto o).
  Proof.
    unfold do_merge. destruct strat.
    - discriminate.
    - intros H. inversion H. apply cle_refl.
    - intros H. inversion H. apply cle_refl.
    - apply create_unique_cle.
    - destruct (rev (filter (same_checked force f) (candidates st (r_id f)))); [apply create_unique_cle|].
      intros H. inversion H. apply cle_refl.
  Qed.

  Lemma store_cle strat force spec st f0 o : store call strat force spec st f0 = Ok o -> cle (s_auto st) (out_auto o).
  Proof.
    unfold store. destruct (id_handler call spec f0 (s_auto st)) as [[id a]|e] eqn:E; [|discriminate].
    pose proof (id_handler_cle _ _ _ _ _ E) as L. cbn [s_rows].
    destruct (has_id id (s_rows st)).
    - intros H. apply do_merge_cle in H. cbn [s_auto] in H. eapply cle_trans; eassumption.
    - intros H. inversion H. cbn. exact L.
  Qed.

  Lemma step_gff_cle strat force spec st f0 st' : step_gff call strat force spec st f0 = Ok st' -> cle (s_auto st) (s_auto st').
  Proof.
    unfold step_gff. destruct (store call strat force spec st f0) as [o|e] eqn:E; [|discriminate].
    pose proof (store_cle _ _ _ _ _ _ E) as L. destruct o as [s1|s1 id]; intros H; inversion H; subst; exact L.
  Qed.

  Lemma after_failed_cle spec st f : cle (s_auto st) (auto_after_failed_step call spec st f).
  Proof.
    unfold auto_after_failed_step. destruct (id_handler call spec f (s_auto st)) as [[id a]|e] eqn:E; [|apply cle_refl].
    eapply id_handler_cle. exact E.
  Qed.

  Lemma step_gtf_cle g strat force spec st f0 st' : step_gtf call g strat force spec st f0 = Ok st' -> cle (s_auto st) (s_auto st').
  Proof.
    unfold step_gtf. destruct (store call strat force spec st f0) as [o|e] eqn:E; [|discriminate].
    pose proof (store_cle _ _ _ _ _ _ E) as L. destruct o as [s1|s1 id]; intros H; inversion H; subst; exact L.
  Qed.

  Lemma insert_derived_cle force spec st f0 st' : insert_derived call force spec st f0 = Ok st' -> cle (s_auto st) (s_auto st').
  Proof.
    unfold insert_derived. destruct (negb (derived_clean f0)); [discriminate|].
    destruct (id_handler call spec f0 (s_auto st)) as [[id a]|e] eqn:E; [|discriminate]. pose proof (id_handler_cle _ _ _ _ _ E) as L.
    cbn [s_rows s_rels s_dups]. destruct (has_id id (s_rows st)).
    - destruct (rev (filter _ _)) as [|target rest].
      + destruct (fresh_auto _ _ _ _) as [[nid a']|] eqn:Ef; [|discriminate]. intros H. inversion H. cbn.
        eapply cle_trans; [exact L|eapply fresh_auto_cle; exact Ef].
      + intros H. inversion H. exact L.
    - intros H. inversion H. exact L.
  Qed.

  Lemma run_steps_cle (stepf : ist -> row -> result ist) :
    (forall st f st', stepf st f = Ok st' -> cle (s_auto st) (s_auto st')) ->
    forall fs st st', run_steps stepf fs st = Ok st' -> cle (s_auto st) (s_auto st').
  Proof.
    intros Hs. induction fs as [|f fs IH]; intros st st' H; cbn [run_steps] in H; [inversion H; apply cle_refl|].
    destruct (stepf st f) as [s1|e] eqn:E; [|discriminate]. eapply cle_trans; [eapply Hs; exact E|eapply IH; exact H].
  Qed.

  Variable kind : dbkind.

  Lemma step_imp_cle strat spec st f st' : step_imp call kind strat spec st f = Ok st' -> cle (s_auto st) (s_auto st').
  Proof. unfold step_imp. destruct kind; [apply step_gff_cle|apply step_gtf_cle]. Qed.

  Lemma rel_imp_cle spec st st' : rel_imp call kind spec st = Ok st' -> cle (s_auto st) (s_auto st').
  Proof.
    unfold rel_imp. destruct kind.
    - unfold update_relations_gff. destruct (read_pairs (grand_pairs st)); [|discriminate]. intros H. inversion H. apply cle_refl.
    - unfold update_relations_gtf. destruct (g_no_genes gtf_default && g_no_transcripts gtf_default); [intros H; inversion H; apply cle_refl|].
      destruct (derive gtf_default st (tg_pairs gtf_default st) None) as [ds|e]; [|discriminate].
      apply run_steps_cle. intros a f a' H. eapply insert_derived_cle. exact H.
  Qed.

  Lemma run_track_cle strat spec : forall fs st, cle (s_auto st) (snd (run_track call kind strat spec fs st)) /\
    forall st', fst (run_track call kind strat spec fs st) = Ok st' -> s_auto st' = snd (run_track call kind strat spec fs st).
  Proof.
    induction fs as [|f fs IH]; intros st; [split; [apply cle_refl|intros st' H; inversion H; reflexivity]|].
    cbn [run_track]. destruct (step_imp call kind strat spec st f) as [s1|e] eqn:E.
    - destruct (IH s1) as [A B]. split; [|exact B]. eapply cle_trans; [eapply step_imp_cle; exact E|exact A].
    - cbn [fst snd]. split; [apply after_failed_cle|discriminate].
  Qed.
End Mono.

Lemma auto_get_app k a b : auto_get k (a ++ b) = if has_key k a then auto_get k a else auto_get k b.
Proof.
  induction a as [|[k' n] a IH]; [reflexivity|]. cbn [app auto_get has_key existsb fst]. destruct (str_eqb k k'); [reflexivity|exact IH].
Qed.

Lemma auto_get_filter_other k m : has_key k m = false -> forall t, auto_get k (filter (fun kn => negb (has_key (fst kn) m)) t) = auto_get k t.
Proof.
  intros H. induction t as [|[k' n] t IH]; [reflexivity|]. cbn [filter fst]. destruct (has_key k' m) eqn:E; cbn [negb].
  - cbn [auto_get]. destruct (str_eqb k k') eqn:E2; [apply str_eqb_eq in E2; subst k'; congruence|exact IH].
  - cbn [auto_get]. destruct (str_eqb k k'); [reflexivity|exact IH].
Qed.

Lemma auto_get_nokey k m : has_key k m = false -> auto_get k m = 0.
Proof.
  induction m as [|[k' n] m IH]; [reflexivity|]. cbn [has_key existsb fst auto_get]. destruct (str_eqb k k'); [discriminate|]. exact IH.
Qed.

Lemma get_persist k t m : auto_get k (persist t m) = if has_key k m then auto_get k m else auto_get k t.
Proof.
  unfold persist. rewrite auto_get_app. destruct (has_key k m) eqn:E; [reflexivity|]. apply auto_get_filter_other. exact E.
Qed.

Lemma persist_cle_table t m : cle t m -> cle t (persist t m).
Proof. intros H k. rewrite get_persist. destruct (has_key k m); [apply H|lia]. Qed.

Lemma persist_cle_mem t m : cle t m -> cle (persist t m) m.
Proof.
  intros H k. rewrite get_persist. destruct (has_key k m) eqn:E; [lia|]. specialize (H k). rewrite (auto_get_nokey k m E) in *. exact H.
Qed.

Section Hist.
  Variable call : nat -> row -> option str.
  Variable kind : dbkind.

  (* the table never lags ahead of the open object's counters *)
  Definition Linv (s : mstate) : Prop := cle (s_auto (m_disk s)) (m_mem s).

  Lemma opened_Linv d : Linv (opened d).
  Proof. apply cle_refl. Qed.

  Theorem l_step_counters s o : Linv s ->
    Linv (fst (step call kind s o)) /\ cle (s_auto (m_disk s)) (s_auto (m_disk (fst (step call kind s o)))).
  Proof.
    intros L. unfold Linv in *. destruct o as [fs strat spec w fail b|idl b|p c l rt|]; cbn [step].
    - unfold do_update.
      destruct (match fail with Some k => Nat.leb k (length fs) | None => false end
                && Nat.leb (length match fail with Some k => firstn k fs | None => fs end) w); [split; [exact L|apply cle_refl]|].
      set (avail := match fail with Some k => firstn k fs | None => fs end).
      set (fails := match fail with Some k => Nat.leb k (length fs) | None => false end).
      assert (G : forall l0, let '(r, mem') := run_track call kind strat spec l0 (with_auto (m_disk s) (m_mem s)) in
                  let res := match r with
                    | Err e => (mkM (m_disk s) mem' (if b then Some (m_disk s) else m_bak s), Err e)
                    | Ok st' => if fails then (mkM (m_disk s) mem' (if b then Some (m_disk s) else m_bak s), Err EOther)
                                else match rel_imp call kind spec st' with
                                     | Err e => (mkM (with_auto st' (s_auto (m_disk s))) mem' (if b then Some (m_disk s) else m_bak s), Err e)
                                     | Ok st'' => (mkM (with_auto st'' (persist (s_auto (m_disk s)) (s_auto st''))) (s_auto st'') (if b then Some (m_disk s) else m_bak s), Ok tt)
                                     end end in
                  cle (s_auto (m_disk (fst res))) (m_mem (fst res)) /\ cle (s_auto (m_disk s)) (s_auto (m_disk (fst res)))).
      { intros l0. destruct (run_track_cle call kind strat spec l0 (with_auto (m_disk s) (m_mem s))) as [A B].
        destruct (run_track call kind strat spec l0 (with_auto (m_disk s) (m_mem s))) as [r mem']. cbn [fst snd with_auto s_auto] in A, B.
        assert (Lm : cle (s_auto (m_disk s)) mem') by (eapply cle_trans; eassumption).
        destruct r as [st'|e]; [|split; [exact Lm|apply cle_refl]].
        destruct fails; [split; [exact Lm|apply cle_refl]|].
        destruct (rel_imp call kind spec st') as [st''|e] eqn:E; cbn [fst m_disk m_mem with_auto s_auto].
        - assert (Lf : cle (s_auto (m_disk s)) (s_auto st'')).
          { eapply cle_trans; [exact Lm|]. rewrite <- (B st' eq_refl). eapply rel_imp_cle. exact E. }
          split; [apply persist_cle_mem; exact Lf|apply persist_cle_table; exact Lf].
        - split; [exact Lm|apply cle_refl]. }
      destruct avail as [|f0 av] eqn:Ea; destruct fails eqn:Ef.
      + pose proof (G []) as G'. cbn in G'. exact G'.
      + split; [exact L|apply cle_refl].
      + pose proof (G (f0 :: av)) as G'. destruct (run_track call kind strat spec (f0 :: av) (with_auto (m_disk s) (m_mem s))) as [r mem']. exact G'.
      + pose proof (G (f0 :: av)) as G'. destruct (run_track call kind strat spec (f0 :: av) (with_auto (m_disk s) (m_mem s))) as [r mem']. exact G'.
    - cbn. split; [exact L|apply cle_refl].
    - unfold do_addrel. destruct (negb _ || negb _); [split; [exact L|apply cle_refl]|]. destruct (has_rel _ _); split; try exact L; apply cle_refl.
    - cbn. split; apply cle_refl.
  Qed.

  (* over every history: the persisted counters only grow, so numbering continues across updates AND
     reopenings and a number once written to the table is never handed out again *)
  Theorem l_history_counters : forall ops s, Linv s ->
    Linv (run call kind s ops) /\ cle (s_auto (m_disk s)) (s_auto (m_disk (run call kind s ops))).
  Proof.
    induction ops as [|o ops IH]; intros s L; [split; [exact L|apply cle_refl]|]. cbn [Machine.run].
    destruct (l_step_counters s o L) as [L1 M1]. destruct (IH _ L1) as [L2 M2]. split; [exact L2|]. eapply cle_trans; eassumption.
  Qed.
End Hist.

(* ---------- add_relation ---------- *)
Section AddRel.
  Variable call : nat -> row -> option str.
  Variable kind : dbkind.

  (* add_relation(parent, child, level): refused - with nothing changed - unless both features are stored and the
     triple is new; otherwise exactly that one triple is appended, the child's row is rewritten only when a child_func
     is given, and nothing else moves (other rows, duplicates, persisted and live counters, backup) *)
  Lemma l_addrel_refused s p c l rt e : snd (step call kind s (OpAddRel p c l rt)) = Err e ->
    fst (step call kind s (OpAddRel p c l rt)) = s /\
    (has_id p (s_rows (m_disk s)) = false \/ has_id c (s_rows (m_disk s)) = false \/ has_rel (mkRel p c l) (s_rels (m_disk s)) = true).
  Proof.
    cbn [step]. unfold do_addrel. destruct (has_id p (s_rows (m_disk s))); [|cbn; intros _; split; [reflexivity|left; reflexivity]].
    destruct (has_id c (s_rows (m_disk s))); [|cbn; intros _; split; [reflexivity|right; left; reflexivity]].
    cbn [negb orb]. destruct (has_rel _ _); [intros _; split; [reflexivity|right; right; reflexivity]|]. cbn. discriminate.
  Qed.

  Lemma l_addrel_done s p c l rt : snd (step call kind s (OpAddRel p c l rt)) = Ok tt ->
    let s' := fst (step call kind s (OpAddRel p c l rt)) in
    has_id p (s_rows (m_disk s)) = true /\ has_id c (s_rows (m_disk s)) = true /\ has_rel (mkRel p c l) (s_rels (m_disk s)) = false /\
    s_rels (m_disk s') = s_rels (m_disk s) ++ [mkRel p c l] /\
    s_rows (m_disk s') = (if rt then update_id c (fun r => set_bin (setf FFtype RETYPED r)) (s_rows (m_disk s)) else s_rows (m_disk s)) /\
    s_dups (m_disk s') = s_dups (m_disk s) /\ s_auto (m_disk s') = s_auto (m_disk s) /\ m_mem s' = m_mem s /\ m_bak s' = m_bak s.
  Proof.
    cbn [step]. unfold do_addrel. destruct (has_id p (s_rows (m_disk s))); [|cbn; discriminate].
    destruct (has_id c (s_rows (m_disk s))); [|cbn; discriminate]. cbn [negb orb].
    destruct (has_rel _ _); [cbn; discriminate|]. intros _. cbn. repeat split; reflexivity.
  Qed.

  (* the keys of the table are those it had (a rewritten child keeps its key and its place) *)
  Lemma l_addrel_ids s p c l rt : ids (m_disk (fst (step call kind s (OpAddRel p c l rt)))) = ids (m_disk s).
  Proof.
    cbn [step]. unfold do_addrel. destruct (negb _ || negb _); [reflexivity|]. destruct (has_rel _ _); [reflexivity|].
    unfold ids. cbn [fst m_disk s_rows]. destruct rt; [|reflexivity]. unfold update_id. rewrite map_map. apply map_ext_in.
    intros r _. destruct (str_eqb (r_id r) c); [|reflexivity]. reflexivity.
  Qed.
End AddRel.
