(* Proofs/C03Total.v — since the repair of F26 the derivation phase of the GTF importer cannot abort an import: every pair's
   transcript has an extent (it owns a stored subfeature with coordinates), and a gene without one is skipped *)
From GV Require Import Base.Prelude Base.PyStr Model.Bins Model.DB Model.Parser Model.Import Model.GtfSpec
  Proofs.C03Proofs Proofs.C03End Proofs.C03Ids.
Open Scope Z_scope.


Lemma fold_omin_some : forall l, l <> [] -> (forall x, In x l -> x <> None) -> fold_right omin None l <> None.
Proof.
  induction l as [|x l IH]; intros Hne H; [exfalso; apply Hne; reflexivity|]. cbn [fold_right].
  destruct x as [a|]; [|exfalso; exact (H None (or_introl eq_refl) eq_refl)].
  intros X. destruct (fold_right omin None l); cbn in X; discriminate X.
Qed.
Lemma fold_omax_some : forall l, l <> [] -> (forall x, In x l -> x <> None) -> fold_right omax None l <> None.
Proof.
  induction l as [|x l IH]; intros Hne H; [exfalso; apply Hne; reflexivity|]. cbn [fold_right].
  destruct x as [a|]; [|exfalso; exact (H None (or_introl eq_refl) eq_refl)].
  intros X. destruct (fold_right omax None l); cbn in X; discriminate X.
Qed.

Lemma dedup_strs_In' : forall l x, In x (dedup_strs l) -> In x l.
Proof.
  induction l as [|y l IH]; intros x H; [exact H|]. cbn [dedup_strs] in H. destruct (mem_str y l).
  - right. apply IH. exact H.
  - destruct H as [<-|H]; [left; reflexivity|right; apply IH; exact H].
Qed.

(* a transcript of the pair list owns a stored subfeature: its extent exists *)
Lemma pair_transcript_extent g st t gn : coords_ok st -> In (t, gn) (tg_pairs g st) -> extent g st t <> None.
Proof.
  intros Hc Hin. unfold tg_pairs in Hin. apply (proj1 (sort_pairs_In _ _)) in Hin. apply (proj1 (dedup_pairs_In _ _)) in Hin.
  apply in_flat_map in Hin as [t' [Ht' Hp]]. apply in_map_iff in Hp as [x [Ex _]]. inversion Ex; subst t'. clear Ex.
  apply dedup_strs_In' in Ht'. apply in_map_iff in Ht' as [y [Ey Hy]]. apply filter_In in Hy as [Hy Fy].
  apply andb_prop in Fy as [L1 Sub]. apply existsb_exists in Sub as [r [Hr Er]]. apply andb_prop in Er as [Eid Eft].
  unfold extent.
  set (kids := filter _ (s_rows st)).
  assert (Hk : In r kids).
  { unfold kids. apply filter_In. split; [exact Hr|]. rewrite Eft. cbn [andb]. apply existsb_exists. exists y. split; [exact Hy|].
    rewrite Ey, str_eqb_refl. cbn [andb]. apply str_eqb_eq in Eid. rewrite Eid. apply str_eqb_refl. }
  destruct kids as [|k ks] eqn:K; [contradiction|].
  assert (Hall : forall z, In z (k :: ks) -> In z (s_rows st)).
  { intros z Hz. rewrite <- K in Hz. unfold kids in Hz. apply filter_In in Hz. apply Hz. }
  pose proof (fold_omin_some (map r_start (k :: ks)) ltac:(discriminate)) as A.
  pose proof (fold_omax_some (map r_end (k :: ks)) ltac:(discriminate)) as B.
  destruct (fold_right omin None (map r_start (k :: ks))) as [s|].
  - destruct (fold_right omax None (map r_end (k :: ks))) as [e|]; [discriminate|].
    exfalso. apply B; [|reflexivity]. intros o Ho. apply in_map_iff in Ho as [z [<- Hz]]. apply (Hc z (Hall z Hz)).
  - exfalso. apply A; [|reflexivity]. intros o Ho. apply in_map_iff in Ho as [z [<- Hz]]. apply (Hc z (Hall z Hz)).
Qed.

Lemma derive_total g st : forall ps last, (forall t gn, In (t, gn) ps -> extent g st t <> None) ->
  exists ds, derive g st ps last = Ok ds.
Proof.
  induction ps as [|[t gn] ps IH]; intros last H; [exists []; reflexivity|].
  destruct (IH (Some gn) (fun t' gn' Hin => H t' gn' (or_intror Hin))) as [c Hc].
  rewrite derive_cons, Hc. unfold d_tr, d_ge.
  pose proof (H t gn (or_introl eq_refl)) as Ht.
  destruct (g_no_transcripts g).
  - destruct (g_no_genes g); [eexists; reflexivity|].
    destruct (match last with Some l => str_eqb l gn | None => false end); [eexists; reflexivity|].
    destruct (extent g st gn); eexists; reflexivity.
  - destruct (extent g st t) as [x|]; [|congruence].
    destruct (g_no_genes g); [eexists; reflexivity|].
    destruct (match last with Some l => str_eqb l gn | None => false end); [eexists; reflexivity|].
    destruct (extent g st gn); eexists; reflexivity.
Qed.

Theorem l_derivation_total g st : coords_ok st -> exists ds, derive g st (tg_pairs g st) None = Ok ds.
Proof. intros Hc. apply derive_total. intros t gn Hin. exact (pair_transcript_extent g st t gn Hc Hin). Qed.
