(* Proofs/C20Proofs.v — any interleaving of imports that pick fresh temp names gives every import
   what it would have read alone, and balanced programs leave the directory as they found it. *)
From GV Require Import Base.Prelude Model.Conc.
From Coq Require Import Arith.
Open Scope Z_scope.

Section C.
  Variable fresh : list nat -> nat.
  Hypothesis fresh_spec : forall l, ~ In (fresh l) l.
  Notation step := (step fresh).
  Notation run := (run fresh).

  Definition get (d : list dirent) (n : nat) : list Z := match dir_get n d with Some c => c | None => [] end.
  Definition live (w : world) (i : nat) : list (list Z) := map (get (w_dir w)) (p_cur (w_procs w i)).

  (* what process i would end up with if it ran alone from its current local view *)
  Definition view (w : world) (i : nat) : list (list Z) := solo (p_prog (w_procs w i)) (live w i) (p_got (w_procs w i)).

  Record Inv (w : world) : Prop := {
    inv_nodup : NoDup (names (w_dir w));
    inv_owner : forall n o c, In (n, o, c) (w_dir w) -> In n (p_cur (w_procs w o));
    inv_live : forall i n, In n (p_cur (w_procs w i)) -> exists c, In (n, i, c) (w_dir w);
    inv_stack : forall i, NoDup (p_cur (w_procs w i)) }.

  (* ---- directory lemmas ---- *)
  Lemma dir_get_In n o c d : NoDup (names d) -> In (n, o, c) d -> dir_get n d = Some c.
  Proof.
    induction d as [|[[m o'] c'] d IH]; intros Hnd Hin; [destruct Hin|]. cbn [names map fst] in Hnd. inversion Hnd as [|? ? Hn Hnd']; subst.
    cbn [dir_get]. destruct Hin as [E|Hin].
    - inversion E; subst. rewrite Nat.eqb_refl. reflexivity.
    - destruct (Nat.eqb n m) eqn:E; [|apply IH; assumption]. apply Nat.eqb_eq in E. subst m. exfalso. apply Hn.
      change (In n (names d)). unfold names. apply in_map_iff. exists (n, o, c). split; [reflexivity|exact Hin].
  Qed.

  Lemma dir_get_app_other n d e : fst (fst e) <> n -> dir_get n (d ++ [e]) = dir_get n d.
  Proof.
    intros H. induction d as [|[[m o] c] d IH]; cbn.
    - destruct e as [[m o] c]. cbn in *. destruct (Nat.eqb n m) eqn:E; [apply Nat.eqb_eq in E; congruence|reflexivity].
    - destruct (Nat.eqb n m); [reflexivity|exact IH].
  Qed.

  Lemma dir_get_app_new n o d : ~ In n (names d) -> dir_get n (d ++ [(n, o, [])]) = Some [].
  Proof.
    intros H. induction d as [|[[m o'] c] d IH]; cbn.
    - rewrite Nat.eqb_refl. reflexivity.
    - destruct (Nat.eqb n m) eqn:E.
      + apply Nat.eqb_eq in E. subst m. exfalso. apply H. left. reflexivity.
      + apply IH. intros Hin. apply H. right. exact Hin.
  Qed.

  Lemma names_append n x d : names (dir_append n x d) = names d.
  Proof. induction d as [|[[m o] c] d IH]; [reflexivity|]. cbn. destruct (Nat.eqb n m); cbn; [reflexivity|]. f_equal. exact IH. Qed.

  Lemma dir_get_append_same n x d c : dir_get n d = Some c -> dir_get n (dir_append n x d) = Some (c ++ [x]).
  Proof.
    induction d as [|[[m o] c'] d IH]; cbn; [discriminate|]. destruct (Nat.eqb n m) eqn:E; cbn; rewrite E.
    - intros H. inversion H. reflexivity.
    - exact IH.
  Qed.

  Lemma dir_get_append_other n m x d : n <> m -> dir_get m (dir_append n x d) = dir_get m d.
  Proof.
    intros H. induction d as [|[[k o] c] d IH]; cbn; [reflexivity|]. destruct (Nat.eqb n k) eqn:E; cbn.
    - apply Nat.eqb_eq in E. subst k. destruct (Nat.eqb m n) eqn:E2; [apply Nat.eqb_eq in E2; congruence|reflexivity].
    - destruct (Nat.eqb m k); [reflexivity|exact IH].
  Qed.

  Lemma append_owner n x : forall d m o c', In (m, o, c') (dir_append n x d) -> exists c, In (m, o, c) d.
  Proof.
    induction d as [|[[k o'] c] d IH]; intros m o c' H; [destruct H|]. cbn in H. destruct (Nat.eqb n k).
    - destruct H as [H|H]; [inversion H; subst; eexists; left; reflexivity|eexists; right; exact H].
    - destruct H as [H|H]; [inversion H; subst; eexists; left; reflexivity|].
      destruct (IH _ _ _ H) as [c0 Hc]. exists c0. right. exact Hc.
  Qed.

  Lemma append_exists n x : forall d m o c, In (m, o, c) d -> exists c', In (m, o, c') (dir_append n x d).
  Proof.
    induction d as [|[[k o'] c0] d IH]; intros m o c H; [destruct H|]. cbn. destruct (Nat.eqb n k).
    - destruct H as [H|H]; [inversion H; subst; eexists; left; reflexivity|eexists; right; exact H].
    - destruct H as [H|H]; [inversion H; subst; eexists; left; reflexivity|].
      destruct (IH _ _ _ H) as [c' Hc]. exists c'. right. exact Hc.
  Qed.

  Lemma NoDup_map_filter {A B} (f : A -> B) (p : A -> bool) l : NoDup (map f l) -> NoDup (map f (filter p l)).
  Proof.
    induction l as [|a l IH]; intros H; [constructor|]. inversion H as [|? ? Hn Hnd]; subst. cbn [filter].
    destruct (p a); [|apply IH; exact Hnd]. cbn [map]. constructor; [|apply IH; exact Hnd].
    intros Hin. apply Hn. apply in_map_iff in Hin as [x [E Hx]]. apply filter_In in Hx as [Hx _]. apply in_map_iff. eauto.
  Qed.

  Lemma dir_get_remove_other n m d : n <> m -> dir_get m (dir_remove n d) = dir_get m d.
  Proof.
    intros H. unfold dir_remove. induction d as [|[[k o] c] d IH]; [reflexivity|]. cbn.
    destruct (Nat.eqb n k) eqn:E; cbn.
    - apply Nat.eqb_eq in E. subst k. destruct (Nat.eqb m n) eqn:E2; [apply Nat.eqb_eq in E2; congruence|exact IH].
    - destruct (Nat.eqb m k); [reflexivity|exact IH].
  Qed.

  Lemma In_names n o c d : In (n, o, c) d -> In n (names d).
  Proof. intros H. unfold names. apply in_map_iff. exists (n, o, c). split; [reflexivity|exact H]. Qed.

  Lemma entries_same_name d n o c o' c' : NoDup (names d) -> In (n, o, c) d -> In (n, o', c') d -> o = o' /\ c = c'.
  Proof.
    induction d as [|[[m k] x] d IH]; intros Hnd H1 H2; [destruct H1|].
    cbn [names map fst] in Hnd. inversion Hnd as [|? ? Hn Hnd']; subst.
    destruct H1 as [H1|H1], H2 as [H2|H2].
    - inversion H1; inversion H2; subst. split; reflexivity.
    - inversion H1; subst. exfalso. apply Hn. eapply In_names. exact H2.
    - inversion H2; subst. exfalso. apply Hn. eapply In_names. exact H1.
    - apply IH; assumption.
  Qed.

  (* two processes never hold the same live name *)
  Lemma live_distinct w i j n : Inv w -> In n (p_cur (w_procs w i)) -> In n (p_cur (w_procs w j)) -> i = j.
  Proof.
    intros I Hi Hj. destruct (inv_live w I i n Hi) as [ci Ei]. destruct (inv_live w I j n Hj) as [cj Ej].
    apply (entries_same_name _ _ _ _ _ _ (inv_nodup w I) Ei Ej).
  Qed.

  Lemma set_same ps i p : set_proc ps i p i = p.
  Proof. unfold set_proc. rewrite Nat.eqb_refl. reflexivity. Qed.
  Lemma set_other ps i p j : j <> i -> set_proc ps i p j = ps j.
  Proof. intros H. unfold set_proc. destruct (Nat.eqb j i) eqn:E; [apply Nat.eqb_eq in E; congruence|reflexivity]. Qed.

  Lemma held_in_dir w i n : Inv w -> In n (p_cur (w_procs w i)) -> In n (names (w_dir w)).
  Proof. intros I H. destruct (inv_live w I i n H) as [c E]. eapply In_names. exact E. Qed.

  Lemma get_held w i n c : Inv w -> In (n, i, c) (w_dir w) -> get (w_dir w) n = c.
  Proof. intros I H. unfold get. rewrite (dir_get_In n i c _ (inv_nodup w I) H). reflexivity. Qed.

  Lemma map_get_ext d d' l : (forall n, In n l -> dir_get n d' = dir_get n d) -> map (get d') l = map (get d) l.
  Proof. intros H. apply map_ext_in. intros n Hn. unfold get. rewrite (H n Hn). reflexivity. Qed.

  Lemma NoDup_snoc_nat (l : list nat) x : NoDup l -> ~ In x l -> NoDup (l ++ [x]).
  Proof.
    induction l as [|a l IH]; intros Hnd Hx; [constructor; [intros []|constructor]|].
    inversion Hnd as [|? ? Ha Hnd']; subst. cbn. constructor.
    - intros Hin. apply in_app_or in Hin as [Hin|[Hin|[]]]; [contradiction|]. subst. apply Hx. left. reflexivity.
    - apply IH; [exact Hnd'|]. intros Hin. apply Hx. right. exact Hin.
  Qed.

  (* ---- one step of any process preserves the invariant and every process's view ---- *)
  Lemma step_ok w i : Inv w -> Inv (step w i) /\ forall j, view (step w i) j = view w j.
  Proof.
    intros I. unfold step. set (p := w_procs w i). destruct (p_prog p) as [|a rest] eqn:Ep; [split; [exact I|reflexivity]|].
    assert (Vj : forall d' p', (forall j n, j <> i -> In n (p_cur (w_procs w j)) -> dir_get n d' = dir_get n (w_dir w)) ->
                 forall j, j <> i -> view (mkWorld d' (set_proc (w_procs w) i p')) j = view w j).
    { intros d' p' H j Hj. unfold view, live. cbn [w_dir w_procs]. rewrite set_other by exact Hj.
      rewrite (map_get_ext (w_dir w) d'); [reflexivity|]. intros n Hn. apply (H j n Hj Hn). }
    destruct a.
    - (* Create *)
      set (n := fresh (names (w_dir w))).
      assert (Hn : ~ In n (names (w_dir w))) by apply fresh_spec.
      assert (Hother : forall m, In m (names (w_dir w)) -> dir_get m (w_dir w ++ [(n, i, [])]) = dir_get m (w_dir w)).
      { intros m Hm. apply dir_get_app_other. cbn. intros E. subst m. contradiction. }
      split.
      + constructor; cbn [w_dir w_procs].
        * unfold names. rewrite map_app. cbn. apply NoDup_snoc_nat; [exact (inv_nodup w I)|exact Hn].
        * intros m o c Hin. apply in_app_or in Hin as [Hin|[Hin|[]]].
          -- pose proof (inv_owner w I _ _ _ Hin) as H. destruct (Nat.eq_dec o i) as [E|E].
             ++ subst o. rewrite set_same. cbn. right. exact H.
             ++ rewrite set_other by exact E. exact H.
          -- inversion Hin; subst. rewrite set_same. left. reflexivity.
        * intros j m Hm. destruct (Nat.eq_dec j i) as [E|E].
          -- subst j. rewrite set_same in Hm. cbn in Hm. destruct Hm as [Hm|Hm].
             ++ subst m. exists []. apply in_or_app. right. left. reflexivity.
             ++ destruct (inv_live w I i m Hm) as [c Hc]. exists c. apply in_or_app. left. exact Hc.
          -- rewrite set_other in Hm by exact E. destruct (inv_live w I j m Hm) as [c Hc]. exists c. apply in_or_app. left. exact Hc.
        * intros j. destruct (Nat.eq_dec j i) as [E|E].
          -- subst j. rewrite set_same. cbn. constructor; [|exact (inv_stack w I i)].
             intros Hin. apply Hn. eapply held_in_dir; eassumption.
          -- rewrite set_other by exact E. exact (inv_stack w I j).
      + intros j. destruct (Nat.eq_dec j i) as [E|E].
        * subst j. unfold view, live. cbn [w_dir w_procs]. rewrite set_same. cbn [p_prog p_cur p_got]. fold p. rewrite Ep. cbn [solo map].
          f_equal. f_equal.
          -- unfold get. rewrite dir_get_app_new by exact Hn. reflexivity.
          -- apply map_get_ext. intros m Hm. apply Hother. eapply held_in_dir; eassumption.
        * apply Vj; [|exact E]. intros k m Hk Hm. apply Hother. eapply held_in_dir; eassumption.
    - (* Write *)
      destruct (p_cur p) as [|n cur] eqn:Ec.
      + split.
        * constructor; cbn [w_dir w_procs]; [exact (inv_nodup w I)| | |].
          -- intros m o c Hin. pose proof (inv_owner w I _ _ _ Hin) as H. destruct (Nat.eq_dec o i) as [E|E];
               [subst o; fold p in H; rewrite Ec in H; destruct H|rewrite set_other by exact E; exact H].
          -- intros j m Hm. destruct (Nat.eq_dec j i) as [E|E]; [subst j; rewrite set_same in Hm; destruct Hm|].
             rewrite set_other in Hm by exact E. exact (inv_live w I j m Hm).
          -- intros j. destruct (Nat.eq_dec j i) as [E|E]; [subst j; rewrite set_same; constructor|rewrite set_other by exact E; exact (inv_stack w I j)].
        * intros j. destruct (Nat.eq_dec j i) as [E|E]; [|apply Vj; [reflexivity|exact E]].
          subst j. unfold view, live. cbn [w_dir w_procs]. rewrite set_same. cbn [p_prog p_cur p_got]. fold p. rewrite Ep, Ec. reflexivity.
      + assert (Hi : In n (p_cur (w_procs w i))) by (fold p; rewrite Ec; left; reflexivity).
        destruct (inv_live w I i n Hi) as [c Hc].
        assert (Hoth : forall j m, In m (p_cur (w_procs w j)) -> m <> n -> dir_get m (dir_append n d (w_dir w)) = dir_get m (w_dir w)).
        { intros j m _ Hm. apply dir_get_append_other. congruence. }
        split.
        * constructor; cbn [w_dir w_procs].
          -- rewrite names_append. exact (inv_nodup w I).
          -- intros m o c' Hin. apply append_owner in Hin as [c0 Hin]. pose proof (inv_owner w I _ _ _ Hin) as H.
             destruct (Nat.eq_dec o i) as [E|E]; [subst o; rewrite set_same; cbn; fold p in H; rewrite Ec in H; exact H|rewrite set_other by exact E; exact H].
          -- intros j m Hm. assert (Hm' : In m (p_cur (w_procs w j))).
             { destruct (Nat.eq_dec j i) as [E|E]; [subst j; rewrite set_same in Hm; cbn in Hm; fold p; rewrite Ec; exact Hm|rewrite set_other in Hm by exact E; exact Hm]. }
             destruct (inv_live w I j m Hm') as [c0 H0]. eapply append_exists. exact H0.
          -- intros j. destruct (Nat.eq_dec j i) as [E|E]; [subst j; rewrite set_same; cbn; pose proof (inv_stack w I i) as H; fold p in H; rewrite Ec in H; exact H|rewrite set_other by exact E; exact (inv_stack w I j)].
        * intros j. destruct (Nat.eq_dec j i) as [E|E].
          -- subst j. unfold view, live. cbn [w_dir w_procs]. rewrite set_same. cbn [p_prog p_cur p_got]. fold p. rewrite Ep, Ec. cbn [solo map].
             f_equal. f_equal.
             ++ unfold get. rewrite (dir_get_In n i c _ (inv_nodup w I) Hc). rewrite (dir_get_append_same n d _ c); [reflexivity|].
                apply (dir_get_In n i c _ (inv_nodup w I) Hc).
             ++ apply map_get_ext. intros m Hm. apply (Hoth i m); [fold p; rewrite Ec; right; exact Hm|].
                pose proof (inv_stack w I i) as Hs. fold p in Hs. rewrite Ec in Hs. inversion Hs as [|? ? Hnot _]; subst. intros E. subst m. contradiction.
          -- apply Vj; [|exact E]. intros k m Hk Hm. apply (Hoth k m Hm). intros Em. subst m. apply Hk. symmetry. eapply live_distinct; eassumption.
    - (* ReadBack *)
      destruct (p_cur p) as [|n cur] eqn:Ec.
      + split.
        * constructor; cbn [w_dir w_procs]; [exact (inv_nodup w I)| | |].
          -- intros m o c Hin. pose proof (inv_owner w I _ _ _ Hin) as H. destruct (Nat.eq_dec o i) as [E|E];
               [subst o; fold p in H; rewrite Ec in H; destruct H|rewrite set_other by exact E; exact H].
          -- intros j m Hm. destruct (Nat.eq_dec j i) as [E|E]; [subst j; rewrite set_same in Hm; destruct Hm|].
             rewrite set_other in Hm by exact E. exact (inv_live w I j m Hm).
          -- intros j. destruct (Nat.eq_dec j i) as [E|E]; [subst j; rewrite set_same; constructor|rewrite set_other by exact E; exact (inv_stack w I j)].
        * intros j. destruct (Nat.eq_dec j i) as [E|E]; [|apply Vj; [reflexivity|exact E]].
          subst j. unfold view, live. cbn [w_dir w_procs]. rewrite set_same. cbn [p_prog p_cur p_got]. fold p. rewrite Ep, Ec. reflexivity.
      + split.
        * constructor; cbn [w_dir w_procs]; [exact (inv_nodup w I)| | |].
          -- intros m o c Hin. pose proof (inv_owner w I _ _ _ Hin) as H. destruct (Nat.eq_dec o i) as [E|E];
               [subst o; rewrite set_same; cbn; fold p in H; rewrite Ec in H; exact H|rewrite set_other by exact E; exact H].
          -- intros j m Hm. destruct (Nat.eq_dec j i) as [E|E]; [subst j; rewrite set_same in Hm; cbn in Hm; apply (inv_live w I i m); fold p; rewrite Ec; exact Hm|].
             rewrite set_other in Hm by exact E. exact (inv_live w I j m Hm).
          -- intros j. destruct (Nat.eq_dec j i) as [E|E]; [subst j; rewrite set_same; cbn; pose proof (inv_stack w I i) as H; fold p in H; rewrite Ec in H; exact H|rewrite set_other by exact E; exact (inv_stack w I j)].
        * intros j. destruct (Nat.eq_dec j i) as [E|E]; [|apply Vj; [reflexivity|exact E]].
          subst j. unfold view, live. cbn [w_dir w_procs]. rewrite set_same. cbn [p_prog p_cur p_got]. fold p. rewrite Ep, Ec. cbn [solo map]. reflexivity.
    - (* Unlink *)
      destruct (p_cur p) as [|n cur] eqn:Ec.
      + split.
        * constructor; cbn [w_dir w_procs]; [exact (inv_nodup w I)| | |].
          -- intros m o c Hin. pose proof (inv_owner w I _ _ _ Hin) as H. destruct (Nat.eq_dec o i) as [E|E];
               [subst o; fold p in H; rewrite Ec in H; destruct H|rewrite set_other by exact E; exact H].
          -- intros j m Hm. destruct (Nat.eq_dec j i) as [E|E]; [subst j; rewrite set_same in Hm; destruct Hm|].
             rewrite set_other in Hm by exact E. exact (inv_live w I j m Hm).
          -- intros j. destruct (Nat.eq_dec j i) as [E|E]; [subst j; rewrite set_same; constructor|rewrite set_other by exact E; exact (inv_stack w I j)].
        * intros j. destruct (Nat.eq_dec j i) as [E|E]; [|apply Vj; [reflexivity|exact E]].
          subst j. unfold view, live. cbn [w_dir w_procs]. rewrite set_same. cbn [p_prog p_cur p_got]. fold p. rewrite Ep, Ec. reflexivity.
      + assert (Hi : In n (p_cur (w_procs w i))) by (fold p; rewrite Ec; left; reflexivity).
        pose proof (inv_stack w I i) as Hs. fold p in Hs. rewrite Ec in Hs. inversion Hs as [|? ? Hnot Hs']; subst.
        assert (Hrem : forall e, In e (dir_remove n (w_dir w)) <-> In e (w_dir w) /\ fst (fst e) <> n).
        { intros e. unfold dir_remove. rewrite filter_In, negb_true_iff, Nat.eqb_neq. split; intros [A B]; (split; [exact A|congruence]). }
        split.
        * constructor; cbn [w_dir w_procs].
          -- unfold names, dir_remove. apply NoDup_map_filter. exact (inv_nodup w I).
          -- intros m o c Hin. apply Hrem in Hin as [Hin Hm]. cbn in Hm. pose proof (inv_owner w I _ _ _ Hin) as H.
             destruct (Nat.eq_dec o i) as [E|E]; [|rewrite set_other by exact E; exact H].
             subst o. rewrite set_same. cbn. fold p in H. rewrite Ec in H. destruct H as [H|H]; [congruence|exact H].
          -- intros j m Hm. destruct (Nat.eq_dec j i) as [E|E].
             ++ subst j. rewrite set_same in Hm. cbn in Hm. destruct (inv_live w I i m) as [c Hc]; [fold p; rewrite Ec; right; exact Hm|].
                exists c. apply Hrem. split; [exact Hc|]. cbn. intros Em. subst m. contradiction.
             ++ rewrite set_other in Hm by exact E. destruct (inv_live w I j m Hm) as [c Hc]. exists c. apply Hrem. split; [exact Hc|].
                cbn. intros Em. subst m. apply E. eapply live_distinct; eassumption.
          -- intros j. destruct (Nat.eq_dec j i) as [E|E]; [subst j; rewrite set_same; exact Hs'|rewrite set_other by exact E; exact (inv_stack w I j)].
        * intros j. destruct (Nat.eq_dec j i) as [E|E].
          -- subst j. unfold view, live. cbn [w_dir w_procs]. rewrite set_same. cbn [p_prog p_cur p_got]. fold p. rewrite Ep, Ec. cbn [solo map tl].
             f_equal. apply map_get_ext. intros m Hm. apply dir_get_remove_other. intros Em. subst m. contradiction.
          -- apply Vj; [|exact E]. intros k m Hk Hm. apply dir_get_remove_other. intros Em. subst m. apply Hk. symmetry. eapply live_distinct; eassumption.
  Qed.

  Lemma run_ok : forall sched w, Inv w -> Inv (run w sched) /\ forall j, view (run w sched) j = view w j.
  Proof.
    unfold run. induction sched as [|i sched IH]; intros w I; [split; [exact I|reflexivity]|]. cbn [fold_left].
    destruct (step_ok w i I) as [I' V']. destruct (IH _ I') as [I'' V'']. split; [exact I''|]. intros j. rewrite V'', V'. reflexivity.
  Qed.

  (* a world in which nothing has happened yet *)
  Definition initial (progs : nat -> list act) : world := mkWorld [] (fun i => mkProc (progs i) [] []).

  Lemma initial_inv progs : Inv (initial progs).
  Proof. constructor; cbn; [constructor|intros n o c []|intros i n []|intros i; constructor]. Qed.

  (* INDEPENDENCE: in every interleaving, a process that has finished has read back exactly what it
     reads when it runs alone *)
  Theorem l_independent progs sched i :
    p_prog (w_procs (run (initial progs) sched) i) = [] ->
    p_got (w_procs (run (initial progs) sched) i) = solo (progs i) [] [].
  Proof.
    intros Hdone. destruct (run_ok sched _ (initial_inv progs)) as [_ V]. specialize (V i). unfold view in V.
    rewrite Hdone in V. cbn [solo] in V. rewrite V. reflexivity.
  Qed.

  (* ---- the directory afterwards ---- *)
  Lemma step_leaves w i j : leaves (p_prog (w_procs (step w i) j)) (length (p_cur (w_procs (step w i) j)))
                            = leaves (p_prog (w_procs w j)) (length (p_cur (w_procs w j))).
  Proof.
    unfold step. set (p := w_procs w i). destruct (p_prog p) as [|a rest] eqn:Ep; [reflexivity|].
    destruct (Nat.eq_dec j i) as [E|E].
    - subst j. fold p. rewrite Ep. destruct a; destruct (p_cur p) as [|n cur] eqn:Ec; cbn [w_procs]; rewrite set_same; reflexivity.
    - destruct a; destruct (p_cur p) as [|n cur]; cbn [w_procs]; rewrite set_other by exact E; reflexivity.
  Qed.

  Lemma run_leaves : forall sched w j, leaves (p_prog (w_procs (run w sched) j)) (length (p_cur (w_procs (run w sched) j)))
                                       = leaves (p_prog (w_procs w j)) (length (p_cur (w_procs w j))).
  Proof.
    unfold run. induction sched as [|i sched IH]; intros w j; [reflexivity|]. cbn [fold_left]. rewrite IH. apply step_leaves.
  Qed.

  (* CLEAN TEMP DIR: when every process is done and every program removes what it creates, the
     directory is empty again - in every interleaving *)
  Theorem l_tempdir_clean progs sched :
    (forall i, leaves (progs i) 0 = 0%nat) ->
    (forall i, p_prog (w_procs (run (initial progs) sched) i) = []) ->
    w_dir (run (initial progs) sched) = [].
  Proof.
    intros Hbal Hdone. destruct (run_ok sched _ (initial_inv progs)) as [I _].
    destruct (w_dir (run (initial progs) sched)) as [|[[n o] c] d] eqn:Ed; [reflexivity|]. exfalso.
    assert (Hin : In (n, o, c) (w_dir (run (initial progs) sched))) by (rewrite Ed; left; reflexivity).
    pose proof (inv_owner _ I _ _ _ Hin) as Ho.
    pose proof (run_leaves sched (initial progs) o) as L. rewrite (Hdone o) in L. cbn in L. rewrite (Hbal o) in L.
    destruct (p_cur (w_procs (run (initial progs) sched) o)); [destruct Ho|discriminate].
  Qed.

  (* temp files are never shared: at every moment of every interleaving, live names are pairwise
     distinct and each belongs to exactly one process *)
  Theorem l_names_exclusive progs sched :
    NoDup (names (w_dir (run (initial progs) sched))) /\
    forall i j n, In n (p_cur (w_procs (run (initial progs) sched) i)) -> In n (p_cur (w_procs (run (initial progs) sched) j)) -> i = j.
  Proof.
    destruct (run_ok sched _ (initial_inv progs)) as [I _]. split; [exact (inv_nodup _ I)|]. intros i j n. apply live_distinct. exact I.
  Qed.
End C.

(* ---- the importers' programs ---- *)
Lemma leaves_writes data r k : leaves (map Write data ++ r) k = leaves r k.
Proof. induction data as [|x data IH]; [reflexivity|]. exact IH. Qed.

Theorem l_import_balanced data : leaves (import_prog data) 0 = 0%nat.
Proof. unfold import_prog. cbn [leaves]. rewrite leaves_writes. reflexivity. Qed.

Lemma leaves_app a b k : leaves (a ++ b) k = leaves b (leaves a k).
Proof. revert k. induction a as [|x a IH]; intros k; [reflexivity|]. destruct x; cbn [app leaves]; apply IH. Qed.

(* DataIterator(from_string=True): the copy of the text goes away with the iterator *)
Theorem l_from_string_balanced text data : leaves (from_string_prog text data) 0 = 0%nat.
Proof.
  unfold from_string_prog. cbn [leaves]. rewrite leaves_writes. rewrite leaves_app. unfold import_prog. cbn [leaves].
  rewrite leaves_writes. reflexivity.
Qed.

(* ... which the code before the repair of F15 did not do: it left one file behind *)
Theorem l_from_string_F15_leaves_one text data : leaves (from_string_prog_F15 text data) 0 = 1%nat.
Proof. unfold from_string_prog_F15, import_prog. cbn [leaves]. rewrite leaves_writes. cbn [leaves]. rewrite leaves_writes. reflexivity. Qed.

Lemma solo_writes data : forall c l got r, solo (map Write data ++ r) (c :: l) got = solo r ((c ++ data) :: l) got.
Proof.
  induction data as [|x data IH]; intros c l got r; [cbn; rewrite app_nil_r; reflexivity|].
  cbn [map app solo]. rewrite IH. rewrite <- app_assoc. reflexivity.
Qed.

(* what an import reads back alone is what it wrote *)
Theorem l_import_solo data : solo (import_prog data) [] [] = [data].
Proof. unfold import_prog. cbn [solo]. rewrite solo_writes. reflexivity. Qed.
