(* Proofs/GenCritEquiv.v — the merge criteria generated from /repo's merge_criteria.py, characterised
   by their canonical form.  The proofs are decision procedures (lia over boolean comparisons; symmetry
   of string equality), so re-orderings, un-chained comparisons and equivalent arithmetic in the Python
   source are re-proved silently, while a semantic change makes a lemma fail.  Everything that reasons
   about a shipped criterion goes through these lemmas, never through the generated text. *)
From GV Require Import Base.Prelude Model.Bins Gen.GenLib Gen.GenCriteria.
From Coq Require Import ZifyBool.
Open Scope Z_scope.

Lemma str_eqb_sym a b : str_eqb a b = str_eqb b a.
Proof.
  destruct (str_eqb a b) eqn:E1, (str_eqb b a) eqn:E2; try reflexivity.
  - apply str_eqb_eq in E1. subst. rewrite str_eqb_refl in E2. discriminate.
  - apply str_eqb_eq in E2. subst. rewrite str_eqb_refl in E1. discriminate.
Qed.

Ltac str_crit := intros; first [reflexivity | apply str_eqb_sym].
(* straight-line boolean code (let-bound intermediate results, `if b then b else c` for `b or c`) is first flattened *)
Ltac num_crit := intros; cbv zeta;
  repeat match goal with |- context [if ?c then _ else _] => destruct c eqn:? end; lia.

Lemma gen_seqid_spec acc cur : gen_seqid acc cur = str_eqb (m_seqid acc) (m_seqid cur).
Proof. unfold gen_seqid. str_crit. Qed.
Lemma gen_strand_spec acc cur : gen_strand acc cur = str_eqb (m_strand acc) (m_strand cur).
Proof. unfold gen_strand. str_crit. Qed.
Lemma gen_feature_type_spec acc cur : gen_feature_type acc cur = str_eqb (m_ftype acc) (m_ftype cur).
Proof. unfold gen_feature_type. str_crit. Qed.

Lemma gen_exact_spec acc cur : gen_exact_coordinates_only acc cur = (m_start cur =? m_start acc) && (m_end cur =? m_end acc).
Proof. unfold gen_exact_coordinates_only. num_crit. Qed.
Lemma gen_ov_end_spec acc cur : gen_overlap_end_inclusive acc cur = (m_start acc <=? m_start cur) && (m_start cur <=? m_end acc + 1).
Proof. unfold gen_overlap_end_inclusive. num_crit. Qed.
Lemma gen_ov_start_spec acc cur : gen_overlap_start_inclusive acc cur = (m_start acc <=? m_end cur + 1) && (m_end cur + 1 <=? m_end acc + 1).
Proof. unfold gen_overlap_start_inclusive. num_crit. Qed.
Lemma gen_ov_any_spec acc cur : gen_overlap_any_inclusive acc cur =
  ((m_start acc <=? m_start cur) && (m_start cur <=? m_end acc + 1)) || ((m_start acc <=? m_end cur + 1) && (m_end cur + 1 <=? m_end acc + 1)).
Proof. unfold gen_overlap_any_inclusive. num_crit. Qed.
Lemma gen_ov_end_t_spec t acc cur : gen_overlap_end_threshold t acc cur = (m_start acc <=? m_start cur) && (m_start cur <=? m_end acc + t).
Proof. unfold gen_overlap_end_threshold. num_crit. Qed.
Lemma gen_ov_start_t_spec t acc cur : gen_overlap_start_threshold t acc cur = (m_start acc - t <=? m_end cur + 1) && (m_end cur + 1 <=? m_end acc + 1).
Proof. unfold gen_overlap_start_threshold. num_crit. Qed.
Lemma gen_ov_any_t_spec t acc cur : gen_overlap_any_threshold t acc cur =
  ((m_start acc - t <=? m_end cur + 1) && (m_end cur + 1 <=? m_end acc + 1)) || ((m_start acc <=? m_start cur) && (m_start cur <=? m_end acc + t)).
Proof. unfold gen_overlap_any_threshold. num_crit. Qed.
