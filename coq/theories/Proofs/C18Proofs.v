(* Proofs/C18Proofs.v — length, sequence and BED12 coordinate conventions. *)
From GV Require Import Base.Prelude Base.PyStr Model.Bins Model.DB Model.Parser Model.Bed.
From Coq Require Import ZifyBool ZifyNat.
Open Scope Z_scope.

Theorem l_len r s e : r_start r = Some s -> r_end r = Some e -> feature_len r = Ok (e - s + 1).
Proof. intros A B. unfold feature_len. rewrite A, B. reflexivity. Qed.

(* ---------- sequence ---------- *)
Lemma slice_length seq s e : 1 <= s -> s <= e -> e <= Z.of_nat (length seq) -> Z.of_nat (length (slice seq s e)) = e - s + 1.
Proof.
  intros H1 H2 H3. unfold slice. rewrite firstn_length, skipn_length. lia.
Qed.

Lemma nth_error_firstn_lt {A} : forall (l : list A) n i, (i < n)%nat -> nth_error (firstn n l) i = nth_error l i.
Proof.
  induction l as [|x l IH]; intros n i H; [destruct n; destruct i; reflexivity|].
  destruct n; [lia|]. destruct i; [reflexivity|]. simpl. apply IH. lia.
Qed.

Lemma nth_error_skipn_add {A} : forall (l : list A) n i, nth_error (skipn n l) i = nth_error l (n + i).
Proof.
  induction l as [|x l IH]; intros n i; [destruct n; destruct i; reflexivity|].
  destruct n; [reflexivity|]. simpl. apply IH.
Qed.

(* base number i (0-based) of the result is base start+i (1-based) of the record *)
Lemma slice_nth seq s e i : 1 <= s -> s <= e -> e <= Z.of_nat (length seq) -> (Z.of_nat i <= e - s) ->
  nth_error (slice seq s e) i = nth_error seq (Z.to_nat (s - 1) + i).
Proof.
  intros H1 H2 H3 Hi. unfold slice.
  rewrite nth_error_firstn_lt by lia. apply nth_error_skipn_add.
Qed.

Lemma revcomp_length s : length (revcomp s) = length s.
Proof. unfold revcomp. rewrite rev_length, map_length. reflexivity. Qed.

(* the letters of pyfaidx's complement table: ACGTN and the IUPAC ambiguity codes, both cases *)
Definition base (c : N) : Prop := In c [65;67;84;71;78;97;99;116;103;110;89;82;87;83;75;77;68;86;72;66;88;121;114;119;115;107;109;100;118;104;98;120]%N.

Lemma comp_involutive c : base c -> comp (comp c) = c.
Proof. unfold base. simpl. intros H. repeat (destruct H as [H|H]; [subst c; reflexivity|]). contradiction. Qed.

Lemma revcomp_involutive s : (forall c, In c s -> base c) -> revcomp (revcomp s) = s.
Proof.
  intros H. unfold revcomp. rewrite map_rev, rev_involutive, map_map.
  rewrite <- (map_id s) at 2. apply map_ext_in. intros c Hc. apply comp_involutive. apply H. exact Hc.
Qed.

Theorem l_sequence_length seq s e strand use : 1 <= s -> s <= e -> e <= Z.of_nat (length seq) ->
  Z.of_nat (length (sequence seq s e strand use)) = e - s + 1.
Proof.
  intros H1 H2 H3. unfold sequence. destruct (use && str_eqb strand [45%N]); rewrite ?revcomp_length; apply slice_length; assumption.
Qed.

Theorem l_sequence_plus seq s e strand use : use = false \/ strand <> [45%N] -> sequence seq s e strand use = slice seq s e.
Proof.
  intros H. unfold sequence. destruct H as [H|H].
  - subst use. reflexivity.
  - assert (E : str_eqb strand [45%N] = false) by (apply str_eqb_neq; exact H). rewrite E, andb_false_r. reflexivity.
Qed.

Theorem l_sequence_minus seq s e : sequence seq s e [45%N] true = revcomp (slice seq s e).
Proof. reflexivity. Qed.

(* ---------- bed12 ---------- *)
Definition coords (x : row) : option (Z * Z) := match r_start x, r_end x with Some s, Some e => Some (s, e) | _, _ => None end.

Lemma last_end_app l x : last_end (l ++ [x]) = r_end x.
Proof. unfold last_end. rewrite rev_app_distr. reflexivity. Qed.

(* blocks do not span the feature -> ValueError, whatever the rest *)
Theorem l_bed12_span_error feat blocks mode name color fs fe first last :
  r_start feat = Some fs -> r_end feat = Some fe -> blocks <> [] ->
  forallb (fun x => match r_start x, r_end x with Some _, Some _ => true | _, _ => false end) blocks = true ->
  first_start blocks = Some first -> last_end blocks = Some last -> (first <> fs \/ last <> fe) ->
  bed12 feat blocks mode name color = Err EValue.
Proof.
  intros A B Hne Hall F L Hm. unfold bed12. rewrite A, B.
  destruct blocks as [|b bs]; [congruence|]. rewrite F, L, Hall.
  destruct (first =? fs) eqn:E1; cbn [negb]; [|reflexivity].
  destruct (last =? fe) eqn:E2; cbn [negb]; [|reflexivity]. lia.
Qed.

(* the twelve fields *)
Theorem l_bed12_fields feat blocks kids name nm color fs fe ts te :
  r_start feat = Some fs -> r_end feat = Some fe -> blocks <> [] ->
  forallb (fun x => match r_start x, r_end x with Some _, Some _ => true | _, _ => false end) blocks = true ->
  first_start blocks = Some fs -> last_end blocks = Some fe ->
  kids <> [] -> first_start kids = Some ts -> last_end kids = Some te ->
  name = Some (nm :: []) \/ (name = None /\ nm = [46%N]) ->
  bed12 feat blocks (ThickBy kids) name color =
  Ok (join TABs [r_seqid feat; zs (fs - 1); zs fe; nm; (if str_eqb (r_score feat) [46%N] then [48%N] else r_score feat);
                 r_strand feat; zs (ts - 1); zs te;
                 (match color with None => [48;44;48;44;48]%N | Some c => strip_spaces c end);
                 zs (Z.of_nat (length blocks));
                 comma_join (map (fun x => match r_start x, r_end x with Some s, Some e => e - s + 1 | _, _ => 0 end) blocks);
                 comma_join (map (fun x => match r_start x with Some s => s - 1 - (fs - 1) | None => 0 end) blocks)]).
Proof.
  intros A B Hne Hall F L Hk Kf Kl Hn. unfold bed12. rewrite A, B.
  destruct blocks as [|b bs]; [congruence|]. rewrite F, L, Hall, !Z.eqb_refl. cbn [negb].
  destruct kids as [|k ks]; [congruence|]. rewrite Kf, Kl.
  destruct Hn as [Hn|[Hn Hd]]; subst; reflexivity.
Qed.

(* relative block geometry: the first block starts at 0 and the last block ends at chromEnd *)
Theorem l_block_geometry (blocks : list row) fs fe b0 rest bl sl el :
  blocks = b0 :: rest -> r_start b0 = Some fs ->
  last blocks b0 = bl -> r_start bl = Some sl -> r_end bl = Some el -> el = fe ->
  (match r_start b0 with Some s => s - 1 - (fs - 1) | None => 0 end) = 0 /\
  (fs - 1) + (sl - 1 - (fs - 1)) + (el - sl + 1) = fe.
Proof. intros E A L S En Efe. rewrite A. split; lia. Qed.

(* to_bed12: chromStart = start - 1, chromEnd = end, block starts relative to the start *)
Theorem l_to_bed12_fields feat children name nm fs fe :
  r_start feat = Some fs -> r_end feat = Some fe ->
  forallb (fun x => match r_start x, r_end x with Some _, Some _ => true | _, _ => false end) children = true ->
  name = Some (nm :: []) \/ (name = None /\ nm = [46%N]) ->
  to_bed12 feat children name =
  Ok (join TABs [r_seqid feat; zs (fs - 1); zs fe; nm; r_score feat; r_strand feat; zs fs; zs fe; [48;44;48;44;48]%N;
                 zs (Z.of_nat (length children));
                 comma_join (map (fun x => match r_start x, r_end x with Some s, Some e => e - s + 1 | _, _ => 0 end) children);
                 comma_join (map (fun x => match r_start x with Some s => s - fs | None => 0 end) children)] ++ [10%N]).
Proof.
  intros A B Hall Hn. unfold to_bed12. rewrite A, B, Hall. destruct Hn as [Hn|[Hn Hd]]; subst; reflexivity.
Qed.
