(* Proofs/SplitJoin.v — str.split / str.join are inverse on parts that avoid a
   distinguishing character of the separator.  Used for ";", "; ", " ; ", "\t", ",", "=", " ". *)
From GV Require Import Base.Prelude Base.PyStr.
Open Scope N_scope.

Lemma is_prefix_app p t : is_prefix p (p ++ t) = true.
Proof. induction p as [|a p IH]; simpl; [reflexivity|]. rewrite N.eqb_refl. exact IH. Qed.

Lemma is_prefix_nth p : forall s n x, is_prefix p s = true -> nth_error p n = Some x -> nth_error s n = Some x.
Proof.
  induction p as [|a p IH]; intros s n x Hp Hn.
  - destruct n; discriminate.
  - destruct s as [|b s]; simpl in Hp; [discriminate|].
    apply andb_prop in Hp as [Hab Hp]. apply N.eqb_eq in Hab. subst b.
    destruct n as [|n]; simpl in *; [exact Hn|]. eapply IH; eassumption.
Qed.

Lemma is_prefix_In p s x : is_prefix p s = true -> In x p -> In x s.
Proof.
  intros Hp Hx. apply In_nth_error in Hx as [n Hn].
  eapply nth_error_In. eapply is_prefix_nth; eassumption.
Qed.

Lemma split_go_nonempty sep : forall s k cur, split_go sep k cur s <> [].
Proof.
  induction s as [|a s IH]; intros k cur; simpl; [discriminate|].
  destruct k; [|apply IH]. destruct (is_prefix sep (a :: s)); [discriminate|apply IH].
Qed.

Lemma split_nonempty sep s : split sep s <> [].
Proof. apply split_go_nonempty. Qed.

Lemma join_cons sep p ps : ps <> [] -> join sep (p :: ps) = p ++ sep ++ join sep ps.
Proof. destruct ps; [congruence|reflexivity]. Qed.

(* skipping the rest of a matched separator *)
Lemma split_go_skip sep : forall u rest cur, split_go sep (length u) cur (u ++ rest) = split_go sep 0 cur rest.
Proof.
  induction u as [|a u IH]; intros rest cur; simpl; [reflexivity|]. apply IH.
Qed.

Section SJ.
  Variables (pre post : str) (c : N).
  Hypothesis Hpre : ~ In c pre.
  Let sep := pre ++ c :: post.

  Lemma sep_nth : nth_error sep (length pre) = Some c.
  Proof. unfold sep. rewrite nth_error_app2 by lia. rewrite Nat.sub_diag. reflexivity. Qed.

  Lemma no_match_without_c q : ~ In c q -> is_prefix sep q = false.
  Proof.
    intros Hq. destruct (is_prefix sep q) eqn:E; [|reflexivity].
    exfalso. apply Hq. eapply is_prefix_In; [exact E|]. unfold sep. apply in_or_app. right. left. reflexivity.
  Qed.

  Lemma no_early_match q t : q <> [] -> ~ In c q -> is_prefix sep (q ++ sep ++ t) = false.
  Proof.
    intros Hne Hq. destruct (is_prefix sep (q ++ sep ++ t)) eqn:E; [|reflexivity]. exfalso.
    pose proof (is_prefix_nth _ _ _ _ E sep_nth) as Hn.
    destruct (Nat.ltb (length pre) (length q)) eqn:L.
    - apply Nat.ltb_lt in L. rewrite nth_error_app1 in Hn by exact L. apply nth_error_In in Hn. contradiction.
    - apply Nat.ltb_ge in L. rewrite nth_error_app2 in Hn by exact L.
      unfold sep in Hn. rewrite <- app_assoc in Hn.
      assert (length q <> 0)%nat by (destruct q; [congruence|simpl; lia]).
      rewrite nth_error_app1 in Hn by lia. apply nth_error_In in Hn. contradiction.
  Qed.

  Lemma split_go_sep rest cur : split_go sep 0 cur (sep ++ rest) = rev cur :: split_go sep 0 [] rest.
  Proof.
    assert (E : exists a u, sep = a :: u) by (unfold sep; destruct pre; simpl; eauto).
    destruct E as [a [u E]].
    assert (P : is_prefix sep (sep ++ rest) = true) by apply is_prefix_app.
    rewrite E in *. simpl app. cbn [split_go]. change (a :: u ++ rest) with ((a :: u) ++ rest). rewrite P.
    f_equal. cbn [length]. rewrite Nat.sub_succ, Nat.sub_0_r. apply split_go_skip.
  Qed.

  Lemma split_go_part : forall q cur rest, ~ In c q ->
    split_go sep 0 cur (q ++ sep ++ rest) = (rev cur ++ q) :: split_go sep 0 [] rest.
  Proof.
    induction q as [|a q IH]; intros cur rest Hq.
    - simpl app. rewrite app_nil_r. apply split_go_sep.
    - assert (N : is_prefix sep ((a :: q) ++ sep ++ rest) = false) by (apply no_early_match; [discriminate|exact Hq]).
      simpl app in *. cbn [split_go]. rewrite N. rewrite IH by (intro; apply Hq; right; assumption).
      simpl rev. rewrite <- app_assoc. reflexivity.
  Qed.

  Lemma split_go_last : forall q cur, ~ In c q -> split_go sep 0 cur q = [rev cur ++ q].
  Proof.
    induction q as [|a q IH]; intros cur Hq; simpl.
    - rewrite app_nil_r. reflexivity.
    - rewrite (no_match_without_c (a :: q) Hq). rewrite IH by (intro; apply Hq; right; assumption).
      simpl rev. rewrite <- app_assoc. reflexivity.
  Qed.

  Theorem split_join : forall parts, parts <> [] -> (forall p, In p parts -> ~ In c p) ->
    split sep (join sep parts) = parts.
  Proof.
    induction parts as [|p ps IH]; intros Hne Hp; [congruence|].
    destruct ps as [|p2 ps].
    - simpl. unfold split. rewrite split_go_last by (apply Hp; left; reflexivity). reflexivity.
    - rewrite join_cons by discriminate. unfold split. rewrite split_go_part by (apply Hp; left; reflexivity).
      simpl app. f_equal. apply IH; [discriminate|]. intros q Hq. apply Hp. right. exact Hq.
  Qed.

  (* one separator occurrence in front of a c-free head *)
  Lemma split_head q rest : ~ In c q -> split sep (q ++ sep ++ rest) = q :: split sep rest.
  Proof. intros Hq. unfold split. rewrite split_go_part by exact Hq. reflexivity. Qed.

  Lemma split_nosep q : ~ In c q -> split sep q = [q].
  Proof. intros Hq. unfold split. rewrite split_go_last by exact Hq. reflexivity. Qed.
End SJ.

(* single-character separators: join after split is the identity for every string *)
Lemma join_split_go1 c : forall s cur, join [c] (split_go [c] 0 cur s) = rev cur ++ s.
Proof.
  induction s as [|a s IH]; intros cur.
  - simpl. rewrite app_nil_r. reflexivity.
  - cbn [split_go is_prefix]. destruct (N.eqb c a) eqn:E.
    + apply N.eqb_eq in E. subst a. simpl andb. cbv iota. cbn [length Nat.sub].
      rewrite join_cons by apply split_go_nonempty. rewrite IH. reflexivity.
    + simpl andb. cbv iota. rewrite IH. simpl rev. rewrite <- app_assoc. reflexivity.
Qed.

Lemma join_split1 c s : join [c] (split [c] s) = s.
Proof. unfold split. rewrite join_split_go1. reflexivity. Qed.

Lemma split1_head c q rest : ~ In c q -> split [c] (q ++ c :: rest) = q :: split [c] rest.
Proof. intros Hq. exact (@split_head (@nil N) (@nil N) c (@in_nil N c) q rest Hq). Qed.

Lemma split1_nosep c q : ~ In c q -> split [c] q = [q].
Proof. intros Hq. exact (@split_nosep (@nil N) (@nil N) c q Hq). Qed.

Lemma mem_char_In c s : mem_char c s = true <-> In c s.
Proof.
  unfold mem_char. rewrite existsb_exists. split.
  - intros [x [Hx E]]. apply N.eqb_eq in E. subst. exact Hx.
  - intros H. exists c. split; [exact H|apply N.eqb_refl].
Qed.

Lemma mem_char_false c s : mem_char c s = false <-> ~ In c s.
Proof.
  split.
  - intros H Hin. apply mem_char_In in Hin. congruence.
  - intros H. destruct (mem_char c s) eqn:E; [|reflexivity]. apply mem_char_In in E. contradiction.
Qed.
