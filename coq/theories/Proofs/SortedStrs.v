From GV Require Import Base.Prelude Base.PyStr Model.Bins Model.DB Model.Parser Model.Import Model.GtfSpec
  Model.Attrs Proofs.C05Proofs Proofs.C03Ids Proofs.C17Proofs.
Open Scope Z_scope.

Lemma insert_str_ascending x : forall l, ascending l -> ~ In x l -> ascending (insert_str x l).
Proof.
  induction l as [|y l IH]; intros H Hx; cbn [insert_str]; [exact I|].
  destruct (str_ltb x y) eqn:E.
  - cbn [ascending]. split; [exact E|exact H].
  - assert (Hyx : str_ltb y x = true).
    { destruct (str_ltb y x) eqn:E2; [reflexivity|]. exfalso. apply Hx. left. symmetry. apply str_ltb_total; assumption. }
    assert (Hl : ascending l) by (destruct l; [exact I|destruct H; assumption]).
    assert (Hx' : ~ In x l) by (intros X; apply Hx; right; exact X).
    specialize (IH Hl Hx'). destruct l as [|z l].
    + cbn [insert_str ascending]. split; [exact Hyx|exact I].
    + cbn [insert_str] in *. destruct (str_ltb x z) eqn:Ez.
      * cbn [ascending]. split; [exact Hyx|]. exact IH.
      * destruct H as [Hyz _]. change (ascending (y :: z :: insert_str x l)). cbn [ascending].
        split; [exact Hyz|exact IH].
Qed.

Lemma sort_strs_ascending : forall l, NoDup l -> ascending (sort_strs l).
Proof.
  induction l as [|x l IH]; intros N; [exact I|]. inversion N as [|? ? Hni N']; subst. cbn [sort_strs fold_right].
  apply insert_str_ascending; [apply IH; exact N'|]. intros X. apply Hni. apply (proj1 (sort_strs_In x l)). exact X.
Qed.

Theorem l_as_set_ascending l : ascending (as_set l).
Proof. unfold as_set. apply sort_strs_ascending. apply dedup_NoDup. Qed.

(* merge_attributes (plain sort): every value list of the result is strictly ascending in code-point order *)
Theorem l_merge_values_ascending a1 a2 m : merge_attributes false a1 a2 = Ok m -> forall k vs, In (k, vs) m -> ascending vs.
Proof.
  intros H k vs Hin. destruct (l_merge_attributes_sorted a1 a2) as [m' [E1 E2]]. rewrite H in E1. injection E1 as E1.
  rewrite E1, E2 in Hin. apply in_map_iff in Hin as [[k' vs'] [E Hin]]. inversion E; subst. apply l_as_set_ascending.
Qed.
