(* Proofs/C04Proofs.v — primary keys: what _id_handler returns for each id_spec form, the
   per-base counters, injectivity of generated keys, uniqueness of stored keys as an invariant
   of every import under every strategy, exact look-ups. *)
From GV Require Import Base.Prelude Base.PyStr Model.Bins Model.DB Model.Parser Model.Import Proofs.IntStr Proofs.SplitJoin.
Open Scope Z_scope.

(* ---------- generated keys ---------- *)
Lemma app_cons_unique {A} (c : A) : forall l1 l2 r1 r2, ~ In c r1 -> ~ In c r2 ->
  l1 ++ c :: r1 = l2 ++ c :: r2 -> l1 = l2 /\ r1 = r2.
Proof.
  induction l1 as [|a l1 IH]; intros l2 r1 r2 H1 H2 E.
  - destruct l2 as [|b l2]; simpl in E.
    + inversion E. auto.
    + inversion E; subst. exfalso. apply H1. apply in_or_app. right. left. reflexivity.
  - destruct l2 as [|b l2]; simpl in E.
    + inversion E; subst. exfalso. apply H2. apply in_or_app. right. left. reflexivity.
    + inversion E; subst. destruct (IH l2 r1 r2 H1 H2 H3) as [A1 A2]. subst. auto.
Qed.

Theorem l_autoid_injective b n b' n' : 0 <= n -> 0 <= n' -> autoid b n = autoid b' n' -> b = b' /\ n = n'.
Proof.
  intros Hn Hn' E. unfold autoid in E. simpl in E.
  assert (U : is_digit USCORE = false) by reflexivity.
  destruct (app_cons_unique USCORE b b' (str_of_int n) (str_of_int n')
              (str_of_nonneg_no_char n USCORE Hn U) (str_of_nonneg_no_char n' USCORE Hn' U) E) as [A B].
  split; [exact A|apply str_of_int_inj; exact B].
Qed.

(* ---------- counters ---------- *)
Lemma auto_get_set_same k n a : auto_get k (auto_set k n a) = n.
Proof.
  induction a as [|[k' n'] a IH]; simpl.
  - rewrite str_eqb_refl. reflexivity.
  - destruct (str_eqb k k') eqn:E; simpl; rewrite E; [reflexivity|exact IH].
Qed.

Lemma auto_get_set_other k k' n a : k <> k' -> auto_get k' (auto_set k n a) = auto_get k' a.
Proof.
  intros H. induction a as [|[k2 n2] a IH]; simpl.
  - destruct (str_eqb k' k) eqn:E; [apply str_eqb_eq in E; congruence|reflexivity].
  - destruct (str_eqb k k2) eqn:E; simpl.
    + apply str_eqb_eq in E. subst k2. destruct (str_eqb k' k) eqn:E2; [apply str_eqb_eq in E2; congruence|reflexivity].
    + destruct (str_eqb k' k2); [reflexivity|exact IH].
Qed.

Theorem l_auto_incr k a : fst (auto_incr k a) = autoid k (auto_get k a + 1) /\
  auto_get k (snd (auto_incr k a)) = auto_get k a + 1 /\
  forall k', k <> k' -> auto_get k' (snd (auto_incr k a)) = auto_get k' a.
Proof.
  unfold auto_incr. cbn [fst snd]. split; [reflexivity|]. split; [apply auto_get_set_same|].
  intros k' H. apply auto_get_set_other. exact H.
Qed.

(* the j-th request for base k (starting from counters a) gets k_(a[k]+j): a run of requests *)
Fixpoint requests (bs : list str) (a : counters) : list str :=
  match bs with [] => [] | b :: bs' => fst (auto_incr b a) :: requests bs' (snd (auto_incr b a)) end.
Fixpoint count_before (k : str) (bs : list str) : Z :=
  match bs with [] => 0 | b :: bs' => (if str_eqb b k then 1 else 0) + count_before k bs' end.

Theorem l_auto_numbering : forall bs a i k, nth_error bs i = Some k ->
  nth_error (requests bs a) i = Some (autoid k (auto_get k a + count_before k (firstn (S i) bs))).
Proof.
  induction bs as [|b bs IH]; intros a i k H; [destruct i; discriminate|].
  destruct i as [|i]; simpl in H.
  - inversion H; subst. cbn [requests nth_error firstn count_before]. rewrite str_eqb_refl. f_equal.
  - cbn [requests nth_error]. rewrite (IH _ i k H). f_equal. f_equal.
    change (firstn (S (S i)) (b :: bs)) with (b :: firstn (S i) bs). cbn [count_before].
    destruct (str_eqb b k) eqn:E.
    + apply str_eqb_eq in E. subst b. destruct (l_auto_incr k a) as [_ [A _]]. rewrite A. lia.
    + apply str_eqb_neq in E. destruct (l_auto_incr b a) as [_ [_ A]]. rewrite (A k E). lia.
Qed.

(* ---------- id_handler, one lemma per id_spec form ---------- *)
Section Spec.
  Variable call : nat -> row -> option str.

  Lemma l_keys_exhausted f a : try_keys call [] f a = Ok (auto_incr (r_ftype f) a).
  Proof. reflexivity. Qed.

  Lemma l_attr_single k ks f a v : is_field_form k = false -> dget k (r_attrs f) = Some [v] ->
    try_keys call (KAttr k :: ks) f a = Ok (v, a).
  Proof. intros H1 H2. cbn [try_keys]. rewrite H1, H2. reflexivity. Qed.

  (* an id attribute carrying several values is rejected, never truncated *)
  Lemma l_attr_multi k ks f a v1 v2 vs : is_field_form k = false -> dget k (r_attrs f) = Some (v1 :: v2 :: vs) ->
    try_keys call (KAttr k :: ks) f a = Err EValue.
  Proof. intros H1 H2. cbn [try_keys]. rewrite H1, H2. reflexivity. Qed.

  Lemma l_attr_absent k ks f a : is_field_form k = false ->
    dget k (r_attrs f) = None \/ dget k (r_attrs f) = Some [] ->
    try_keys call (KAttr k :: ks) f a = try_keys call ks f a.
  Proof. intros H1 [H2|H2]; cbn [try_keys]; rewrite H1, H2; reflexivity. Qed.

  Lemma l_field k ks f a fl : is_field_form k = true -> field_named (inner k) = Some fl ->
    try_keys call (KAttr k :: ks) f a = Ok (getf fl f, a).
  Proof. intros H1 H2. cbn [try_keys]. rewrite H1, H2. reflexivity. Qed.

  Lemma l_call_none n ks f a : call n f = None \/ call n f = Some [] ->
    try_keys call (KCall n :: ks) f a = try_keys call ks f a.
  Proof. intros [H|H]; cbn [try_keys]; rewrite H; reflexivity. Qed.

  Lemma l_call_string n ks f a c s : call n f = Some (c :: s) -> startswith (c :: s) AUTOINC = false ->
    try_keys call (KCall n :: ks) f a = Ok (c :: s, a).
  Proof. intros H1 H2. cbn [try_keys]. rewrite H1, H2. reflexivity. Qed.

  Lemma l_call_autoincrement n ks f a x : call n f = Some (AUTOINC ++ x) ->
    try_keys call (KCall n :: ks) f a = Ok (auto_incr x a).
  Proof.
    intros H. cbn [try_keys]. rewrite H. unfold AUTOINC at 1. cbn [app].
    change (startswith _ AUTOINC) with (is_prefix AUTOINC (AUTOINC ++ x)).
    rewrite is_prefix_app. reflexivity.
  Qed.

  Lemma l_dict_entry d f a ks : dict_spec d (r_ftype f) = Some ks ->
    id_handler call (SDict d) f a = try_keys call ks f a.
  Proof. intros H. unfold id_handler. rewrite H. reflexivity. Qed.

  Lemma l_dict_missing d f a : dict_spec d (r_ftype f) = None ->
    id_handler call (SDict d) f a = Ok (auto_incr (r_ftype f) a).
  Proof. intros H. unfold id_handler. rewrite H. reflexivity. Qed.

  (* ---------- keys are unique in every reachable state ---------- *)
  Definition ids (st : ist) : list str := map r_id (s_rows st).

  Lemma has_id_In id rows : has_id id rows = true <-> In id (map r_id rows).
  Proof.
    unfold has_id. rewrite existsb_exists, in_map_iff. split.
    - intros [r [Hr E]]. apply str_eqb_eq in E. eauto.
    - intros [r [E Hr]]. exists r. split; [exact Hr|apply str_eqb_eq; exact E].
  Qed.

  Lemma ids_update id g rows : (forall r, r_id (g r) = r_id r) -> map r_id (update_id id g rows) = map r_id rows.
  Proof.
    intros Hg. unfold update_id. rewrite map_map. apply map_ext_in. intros r _.
    destruct (str_eqb (r_id r) id); [apply Hg|reflexivity].
  Qed.

  Lemma ids_update_const id f rows : r_id f = id -> map r_id (update_id id (fun _ => f) rows) = map r_id rows.
  Proof.
    intros Hf. unfold update_id. rewrite map_map. apply map_ext_in. intros r _.
    destruct (str_eqb (r_id r) id) eqn:E; [apply str_eqb_eq in E; congruence|reflexivity].
  Qed.

  Lemma NoDup_snoc (l : list str) x : NoDup l -> ~ In x l -> NoDup (l ++ [x]).
  Proof.
    intros H Hx. apply NoDup_rev in H. rewrite <- (rev_involutive (l ++ [x])). apply NoDup_rev.
    rewrite rev_app_distr. simpl. constructor; [rewrite <- in_rev; exact Hx|exact H].
  Qed.

  Lemma r_id_setf fl v r : r_id (setf fl v r) = r_id r.
  Proof. destruct fl; reflexivity. Qed.

  Lemma r_id_fold_setf (force : list field) (g : field -> str) : forall r,
    r_id (fold_left (fun r fl => setf fl (g fl) r) force r) = r_id r.
  Proof. induction force as [|fl force IH]; intros r; simpl; [reflexivity|]. rewrite IH. apply r_id_setf. Qed.

  Lemma fresh_auto_free : forall fuel base rows a nid a', fresh_auto fuel base rows a = Some (nid, a') ->
    has_id nid rows = false.
  Proof.
    induction fuel as [|fuel IH]; intros base rows a nid a'; cbn [fresh_auto];
      destruct (auto_incr base a) as [n1 a1]; destruct (has_id n1 rows) eqn:E; intros H;
      try discriminate; try (inversion H; subst; exact E).
    eapply IH. exact H.
  Qed.

  Lemma create_unique_ids st f b st' id : NoDup (ids st) -> create_unique st f b = Ok (OStored st' id) -> NoDup (ids st').
  Proof.
    unfold create_unique. destruct (fresh_auto _ _ _ _) as [[nid a]|] eqn:E; [|discriminate].
    apply fresh_auto_free in E. intros Hnd H. inversion H; subst.
    unfold ids. cbn [s_rows]. rewrite map_app. cbn. apply NoDup_snoc; [exact Hnd|].
    intro Hin. apply has_id_In in Hin. congruence.
  Qed.

  Lemma do_merge_ids strat force st f o : NoDup (ids st) -> In (r_id f) (ids st) ->
    do_merge strat force st f = Ok o ->
    match o with OSkip st' => st' = st | OStored st' _ => NoDup (ids st') end.
  Proof.
    intros Hnd Hin. destruct strat; cbn [do_merge]; intros H.
    - discriminate.
    - inversion H. reflexivity.
    - inversion H. unfold ids. cbn [s_rows]. rewrite ids_update_const by reflexivity. exact Hnd.
    - destruct o as [st'|st' id]; [unfold create_unique in H; destruct (fresh_auto _ _ _ _) as [[? ?]|]; discriminate|].
      eapply create_unique_ids; eassumption.
    - destruct (rev (filter (same_checked force f) (candidates st (r_id f)))) as [|target rest].
      + destruct o as [st'|st' id]; [unfold create_unique in H; destruct (fresh_auto _ _ _ _) as [[? ?]|]; discriminate|].
        eapply create_unique_ids; eassumption.
      + inversion H. unfold ids. cbn [s_rows]. rewrite ids_update; [exact Hnd|].
        intros r. rewrite r_id_fold_setf. reflexivity.
  Qed.

  Lemma store_ids strat force spec st f0 o : NoDup (ids st) -> store call strat force spec st f0 = Ok o ->
    match o with OSkip st' => ids st' = ids st | OStored st' _ => NoDup (ids st') end.
  Proof.
    intros Hnd. unfold store. destruct (id_handler call spec f0 (s_auto st)) as [[id a]|e]; [|discriminate].
    cbn [s_rows]. destruct (has_id id (s_rows st)) eqn:E.
    - intros H. pose proof (do_merge_ids strat force (mkSt (s_rows st) (s_rels st) (s_dups st) a)
                              (set_bin (set_id id f0)) o) as L.
      unfold ids in L. cbn [s_rows r_id set_bin set_id] in L. specialize (L Hnd).
      apply has_id_In in E. specialize (L E H). destruct o; [subst; reflexivity|exact L].
    - intros H. inversion H. unfold ids. cbn [s_rows]. rewrite map_app. cbn.
      apply NoDup_snoc; [exact Hnd|]. intro Hin. apply has_id_In in Hin. congruence.
  Qed.

  Lemma step_ids strat force spec st f0 st' : NoDup (ids st) -> step_gff call strat force spec st f0 = Ok st' ->
    NoDup (ids st').
  Proof.
    intros Hnd. unfold step_gff. destruct (store call strat force spec st f0) as [o|e] eqn:E; [|discriminate].
    pose proof (store_ids strat force spec st f0 o Hnd E) as L. destruct o as [s1|s1 id]; intros H; inversion H; subst.
    - rewrite L. exact Hnd.
    - exact L.
  Qed.

  Lemma run_ids strat force spec : forall fs st st', NoDup (ids st) ->
    run_steps (step_gff call strat force spec) fs st = Ok st' -> NoDup (ids st').
  Proof.
    induction fs as [|f fs IH]; intros st st' Hnd H; simpl in H.
    - inversion H; subst. exact Hnd.
    - destruct (step_gff call strat force spec st f) as [s1|e] eqn:E; [|discriminate].
      eapply IH; [|exact H]. eapply step_ids; eassumption.
  Qed.

  Theorem l_ids_unique strat force spec fs st st' : NoDup (ids st) ->
    import_gff call strat force spec fs st = Ok st' -> NoDup (ids st').
  Proof.
    intros Hnd. unfold import_gff. destruct fs as [|f fs]; [discriminate|].
    destruct (run_steps (step_gff call strat force spec) (f :: fs) st) as [s1|e] eqn:E; [|discriminate].
    pose proof (run_ids strat force spec _ _ _ Hnd E) as L. unfold update_relations_gff.
    destruct (read_pairs (grand_pairs s1)); [|discriminate]. intros H. inversion H. exact L.
  Qed.
End Spec.

(* ---------- look-ups ---------- *)
Lemma l_find_some id rows r : find_id id rows = Some r -> In r rows /\ r_id r = id.
Proof.
  induction rows as [|x rows IH]; simpl; [discriminate|]. destruct (str_eqb (r_id x) id) eqn:E.
  - intros H. inversion H; subst. apply str_eqb_eq in E. auto.
  - intros H. destruct (IH H). auto.
Qed.

Lemma l_find_none id rows : find_id id rows = None <-> ~ In id (map r_id rows).
Proof.
  induction rows as [|x rows IH]; simpl; [tauto|]. destruct (str_eqb (r_id x) id) eqn:E.
  - apply str_eqb_eq in E. split; [discriminate|]. intros H. exfalso. apply H. left. exact E.
  - apply str_eqb_neq in E. rewrite IH. tauto.
Qed.

Theorem l_lookup_exact rows r : NoDup (map r_id rows) -> In r rows -> find_id (r_id r) rows = Some r.
Proof.
  induction rows as [|x rows IH]; intros Hnd Hin; [contradiction|]. simpl.
  inversion Hnd as [|? ? Hx Hnd']; subst. destruct Hin as [E|Hin].
  - subst x. rewrite str_eqb_refl. reflexivity.
  - destruct (str_eqb (r_id x) (r_id r)) eqn:E; [|apply IH; assumption].
    apply str_eqb_eq in E. exfalso. apply Hx. rewrite E. apply in_map. exact Hin.
Qed.
