(* Proofs/C08Proofs.v — percent-quoting is inverted by urllib.parse.unquote (as modelled) for
   every string; quoted text is free of the reserved characters; splitting never indexes an
   empty list. *)
From GV Require Import Base.Prelude Base.PyStr Base.Utf8 Model.DB Model.Parser Proofs.SplitJoin.
Open Scope N_scope.

Lemma utf8_ascii : forall bs, forallb (fun b => b <? 128) bs = true -> utf8_decode bs = bs.
Proof.
  induction bs as [|b bs IH]; intros H; [reflexivity|].
  simpl in H. apply andb_prop in H as [Hb H]. cbn [utf8_decode]. rewrite Hb. f_equal. apply IH. exact H.
Qed.

Definition tq_char_ok (c : N) : bool :=
  (c <? 128) && is_hex (hexdigit (c / 16)) && is_hex (hexdigit (c mod 16))
  && (hexval (hexdigit (c / 16)) * 16 + hexval (hexdigit (c mod 16)) =? c).

Lemma tq_all_ok : forallb tq_char_ok to_quote = true.
Proof. vm_compute. reflexivity. Qed.

Lemma tq_ok c : mem_char c to_quote = true -> tq_char_ok c = true.
Proof.
  intros H. apply mem_char_In in H. pose proof tq_all_ok as A. rewrite forallb_forall in A. apply A. exact H.
Qed.

Lemma pct_in_tq : mem_char PCT to_quote = true.
Proof. vm_compute. reflexivity. Qed.

Lemma forallb_rev {A} (p : A -> bool) l : forallb p (rev l) = forallb p l.
Proof.
  induction l as [|a l IH]; [reflexivity|]. simpl. rewrite forallb_app, IH. simpl. rewrite andb_true_r. apply andb_comm.
Qed.

Lemma decode_quote : forall s run, forallb (fun b => b <? 128) run = true ->
  decode_tokens (unq_tokens (quote to_quote s)) run = rev run ++ s.
Proof.
  induction s as [|c s IH]; intros run Hrun.
  - simpl. rewrite app_nil_r. apply utf8_ascii. rewrite forallb_rev. exact Hrun.
  - change (quote to_quote (c :: s)) with (quote_char to_quote c ++ quote to_quote s). unfold quote_char.
    destruct (mem_char c to_quote) eqn:M.
    + pose proof (tq_ok c M) as K. unfold tq_char_ok in K.
      apply andb_prop in K as [K K4]. apply andb_prop in K as [K K3]. apply andb_prop in K as [K1 K2].
      apply N.eqb_eq in K4.
      unfold PCT. cbn [app unq_tokens]. change (37 =? 37) with true. cbv iota.
      rewrite K2, K3. cbn [andb]. rewrite K4. cbn [decode_tokens].
      rewrite IH by (simpl; rewrite K1; exact Hrun). simpl rev. rewrite <- app_assoc. reflexivity.
    + assert (Hc : (c =? 37) = false).
      { destruct (c =? 37) eqn:E; [|reflexivity]. apply N.eqb_eq in E. subst c.
        pose proof pct_in_tq as P. unfold PCT in P. congruence. }
      cbn [app unq_tokens]. rewrite Hc.
      destruct (c <? 128) eqn:A; cbn [decode_tokens].
      * rewrite IH by (simpl; rewrite A; exact Hrun). simpl rev. rewrite <- app_assoc. reflexivity.
      * rewrite IH by reflexivity. rewrite utf8_ascii by (rewrite forallb_rev; exact Hrun). reflexivity.
Qed.

Theorem l_quote_unquote s : unquote (quote to_quote s) = s.
Proof. unfold unquote. rewrite decode_quote by reflexivity. reflexivity. Qed.

(* the characters of quoted text: '%' or a character outside _to_quote *)
Definition hex_out_ok (c : N) : bool :=
  negb (mem_char (hexdigit (c / 16)) to_quote) && negb (mem_char (hexdigit (c mod 16)) to_quote).
Lemma hex_all_out : forallb hex_out_ok to_quote = true.
Proof. vm_compute. reflexivity. Qed.

Theorem l_quote_clean s c : In c (quote to_quote s) -> c = PCT \/ mem_char c to_quote = false.
Proof.
  unfold quote. rewrite in_flat_map. intros [x [_ Hx]]. unfold quote_char in Hx.
  destruct (mem_char x to_quote) eqn:M.
  - pose proof hex_all_out as A. rewrite forallb_forall in A. apply mem_char_In in M. specialize (A x M).
    unfold hex_out_ok in A. apply andb_prop in A as [A1 A2].
    apply negb_true_iff in A1. apply negb_true_iff in A2.
    simpl in Hx. destruct Hx as [Hx|[Hx|[Hx|[]]]]; subst c; auto.
  - simpl in Hx. destruct Hx as [Hx|[]]. subst c. right. exact M.
Qed.

(* in particular none of the structural characters of column 9 or of the line survives *)
Corollary l_quote_no_structural s c : In c [TAB; 10; 13; SEMI; EQ; COMMA; 38] -> ~ In c (quote to_quote s).
Proof.
  intros Hc Hin. apply l_quote_clean in Hin. destruct Hin as [E|E].
  - subst c. simpl in Hc. unfold PCT, TAB, SEMI, EQ, COMMA in Hc.
    repeat (destruct Hc as [Hc|Hc]; [discriminate|]). contradiction.
  - simpl in Hc. repeat (destruct Hc as [Hc|Hc]; [subst c; vm_compute in E; discriminate|]). contradiction.
Qed.

(* totality: the list operations the parser applies to split() results never see an empty list
   (p[0], item[0], unpacking of 1/2/3+ pieces) — hd's default is never used *)
Theorem l_split_pieces_nonempty sep s : exists k rest, split sep s = k :: rest.
Proof. destruct (split sep s) eqn:E; [exfalso; exact (split_nonempty sep s E)|eauto]. Qed.

Theorem l_split_with_total D s : wf_dialect D = true -> exists a, split_with D s = Ok a.
Proof. intros H. unfold split_with. destruct s; [eauto|]. rewrite H. simpl. eauto. Qed.
