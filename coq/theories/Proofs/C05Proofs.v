(* Proofs/C05Proofs.v — what each merge strategy does to the tables when a newcomer's key is
   already stored. *)
From GV Require Import Base.Prelude Base.PyStr Model.Bins Model.DB Model.Parser Model.Import
  Proofs.C02Proofs Proofs.C04Proofs.
Open Scope Z_scope.

Section Strategies.
  Variable call : nat -> row -> option str.
  Variables (force : list field) (spec : idspec) (st : ist) (f0 : row) (id : str) (a : counters).
  Hypothesis Hid : id_handler call spec f0 (s_auto st) = Ok (id, a).
  Hypothesis Hdup : has_id id (s_rows st) = true.

  Let f := set_bin (set_id id f0).
  Let st_a := mkSt (s_rows st) (s_rels st) (s_dups st) a.
  Definition parent_links (x : row) (key : str) : list rel :=
    map (fun p => mkRel p key 1) (match dget PARENT (r_attrs x) with Some ps => ps | None => [] end).

  Lemma store_dup strat : store call strat force spec st f0 = do_merge strat force st_a f.
  Proof. unfold store. rewrite Hid. cbn [s_rows]. rewrite Hdup. reflexivity. Qed.

  (* 'error' aborts *)
  Theorem l_error : step_gff call SError force spec st f0 = Err EValue.
  Proof. unfold step_gff. rewrite store_dup. reflexivity. Qed.

  (* 'warning' keeps the first: features, relations and duplicates are untouched *)
  Theorem l_warning : step_gff call SWarning force spec st f0 = Ok st_a.
  Proof. unfold step_gff. rewrite store_dup. reflexivity. Qed.

  (* 'replace' keeps the last, at the first one's position; its old level-1 parent links and the level-2 rows derived
     from them are dropped and the newcomer's Parent links are stored *)
  Theorem l_replace : step_gff call SReplace force spec st f0 =
    Ok (mkSt (update_id id (fun _ => f) (s_rows st))
             (add_rels (filter (fun x => negb (through_links id (s_rels st) x))
                               (filter (fun x => negb (str_eqb (rel_child x) id && (rel_level x =? 1))) (s_rels st)))
                       (parent_links f0 id))
             (s_dups st) a).
  Proof.
    unfold step_gff. rewrite store_dup. unfold f, st_a.
    cbn [do_merge is_replace andb s_rows s_rels s_dups s_auto r_id set_bin set_id]. rewrite Hdup. reflexivity.
  Qed.

  Lemma update_const_find rows : has_id id rows = true -> find_id id (update_id id (fun _ => f) rows) = Some f.
  Proof.
    induction rows as [|r rows IH]; [discriminate|]. cbn [has_id existsb update_id map find_id].
    destruct (str_eqb (r_id r) id) eqn:E.
    - intros _. cbn [r_id f set_bin set_id]. unfold f. cbn. rewrite str_eqb_refl. reflexivity.
    - cbn [orb]. intros H. rewrite E. apply IH. exact H.
  Qed.

  Theorem l_replace_lookup st' : step_gff call SReplace force spec st f0 = Ok st' ->
    find_id id (s_rows st') = Some f /\ length (s_rows st') = length (s_rows st) /\
    forall r, In r (s_rows st) -> r_id r <> id -> In r (s_rows st').
  Proof.
    rewrite l_replace. intros H. inversion H; subst. cbn [s_rows]. split; [apply update_const_find; exact Hdup|].
    split; [unfold update_id; apply map_length|].
    intros r Hr Hne. unfold update_id. apply in_map_iff. exists r. split; [|exact Hr].
    destruct (str_eqb (r_id r) id) eqn:E; [apply str_eqb_eq in E; contradiction|reflexivity].
  Qed.

  (* 'create_unique' keeps all: the old rows are untouched, the newcomer is appended under a
     fresh <key>_n, its Parent links filed under that key *)
  Theorem l_create_unique st' : step_gff call SCreateUnique force spec st f0 = Ok st' ->
    exists nid a', fresh_auto (length (s_rows st)) id (s_rows st) a = Some (nid, a') /\
      has_id nid (s_rows st) = false /\
      s_rows st' = s_rows st ++ [set_id nid f] /\
      s_rels st' = add_rels (s_rels st) (parent_links f0 nid) /\
      s_dups st' = s_dups st /\ s_auto st' = a'.
  Proof.
    unfold step_gff. rewrite store_dup. cbn [do_merge]. unfold create_unique. cbn [s_rows s_auto st_a r_id f set_bin set_id].
    destruct (fresh_auto (length (s_rows st)) id (s_rows st) a) as [[nid a']|] eqn:E; [|discriminate].
    intros H. inversion H; subst. cbn [s_rows s_rels s_dups s_auto]. exists nid, a'.
    split; [reflexivity|]. split; [eapply fresh_auto_free; exact E|]. repeat split; reflexivity.
  Qed.

  (* when the next number is free (no explicit id looks like it), the k-th duplicate is <key>_k *)
  Theorem l_create_unique_numbering :
    has_id (autoid id (auto_get id a + 1)) (s_rows st) = false ->
    exists st', step_gff call SCreateUnique force spec st f0 = Ok st' /\
      s_rows st' = s_rows st ++ [set_id (autoid id (auto_get id a + 1)) f] /\
      auto_get id (s_auto st') = auto_get id a + 1.
  Proof.
    intros Hfree. unfold step_gff. rewrite store_dup. cbn [do_merge]. unfold create_unique.
    cbn [s_rows s_auto st_a r_id f set_bin set_id].
    assert (E : fresh_auto (length (s_rows st)) id (s_rows st) a =
                Some (autoid id (auto_get id a + 1), auto_set id (auto_get id a + 1) a)).
    { destruct (length (s_rows st)); cbn [fresh_auto auto_incr]; rewrite Hfree; reflexivity. }
    rewrite E. eexists. split; [reflexivity|]. cbn [s_rows s_auto]. split; [reflexivity|apply auto_get_set_same].
  Qed.

  (* ---- 'merge' ---- *)
  Let cands := filter (same_checked force f) (candidates st_a id).

  (* no stored candidate agrees on the compared columns: filed under a fresh key, remembered in
     the duplicates table *)
  Theorem l_merge_new st' : cands = [] -> step_gff call SMerge force spec st f0 = Ok st' ->
    exists nid a', has_id nid (s_rows st) = false /\
      s_rows st' = s_rows st ++ [set_id nid f] /\
      s_rels st' = add_rels (s_rels st) (parent_links f0 nid) /\
      s_dups st' = s_dups st ++ [(id, nid)] /\ s_auto st' = a'.
  Proof.
    intros Hc. unfold step_gff. rewrite store_dup. unfold cands, f, st_a in *. cbn [do_merge]. cbn [r_id set_bin set_id].
    rewrite Hc. cbn [rev]. unfold create_unique. cbn [s_rows s_auto st_a r_id set_bin set_id].
    destruct (fresh_auto (length (s_rows st)) id (s_rows st) a) as [[nid a']|] eqn:E; [|discriminate].
    intros H. inversion H; subst. cbn [s_rows s_rels s_dups s_auto]. exists nid, a'.
    split; [eapply fresh_auto_free; exact E|]. repeat split; reflexivity.
  Qed.

  (* a candidate agrees: it is updated in place; no row is added; the newcomer's Parent links are
     filed under the candidate's key *)
  Theorem l_merge_into st' target rest : rev cands = target :: rest ->
    step_gff call SMerge force spec st f0 = Ok st' ->
    s_rows st' = update_id (r_id target)
                   (fun r => fold_left (fun r fl => setf fl (merged_field fl f cands) r) force
                                       (set_attrs (merge_attrs (r_attrs f) cands) r)) (s_rows st) /\
    s_rels st' = add_rels (s_rels st) (parent_links f0 (r_id target)) /\
    s_dups st' = s_dups st /\ s_auto st' = a /\ length (s_rows st') = length (s_rows st).
  Proof.
    intros Hc. unfold step_gff. rewrite store_dup. unfold cands, f, st_a in *. cbn [do_merge]. cbn [r_id set_bin set_id].
    rewrite Hc. intros H. inversion H; subst. cbn [s_rows s_rels s_dups s_auto st_a]. repeat split; try reflexivity.
    unfold update_id. apply map_length.
  Qed.
End Strategies.

(* ---------- the attribute union ---------- *)
Lemma dedup_In x l : In x (dedup_strs l) <-> In x l.
Proof.
  induction l as [|y l IH]; simpl; [tauto|]. destruct (mem_str y l) eqn:E.
  - rewrite IH. apply mem_str_In in E. split; [auto|]. intros [H|H]; [subst; exact E|exact H].
  - simpl. rewrite IH. tauto.
Qed.

Lemma insert_str_In x y l : In x (insert_str y l) <-> x = y \/ In x l.
Proof.
  induction l as [|z l IH]; simpl; [split; intros [H|H]; auto; contradiction|].
  destruct (str_ltb y z); simpl; [split; intros [H|H]; auto|]. rewrite IH. split; intros H; tauto || (destruct H as [H|[H|H]]; auto).
Qed.

Lemma sort_strs_In x l : In x (sort_strs l) <-> In x l.
Proof.
  unfold sort_strs. induction l as [|y l IH]; simpl; [tauto|]. rewrite insert_str_In, IH. split; intros [H|H]; auto.
Qed.

Lemma as_set_In x l : In x (as_set l) <-> In x l.
Proof. unfold as_set. rewrite sort_strs_In, dedup_In. reflexivity. Qed.

Lemma dedup_NoDup l : NoDup (dedup_strs l).
Proof.
  induction l as [|y l IH]; simpl; [constructor|]. destruct (mem_str y l) eqn:E; [exact IH|].
  constructor; [|exact IH]. rewrite dedup_In. intro H. apply mem_str_In in H. congruence.
Qed.

Lemma insert_str_NoDup y l : NoDup l -> ~ In y l -> NoDup (insert_str y l).
Proof.
  induction l as [|z l IH]; intros Hnd Hy; simpl; [constructor; [exact Hy|constructor]|].
  destruct (str_ltb y z); [constructor; assumption|]. inversion Hnd as [|? ? Hz Hnd']; subst.
  constructor.
  - rewrite insert_str_In. intros [E|H]; [subst; apply Hy; left; reflexivity|contradiction].
  - apply IH; [exact Hnd'|]. intro H. apply Hy. right. exact H.
Qed.

Lemma sort_strs_NoDup l : NoDup l -> NoDup (sort_strs l).
Proof.
  unfold sort_strs. induction 1 as [|y l Hy Hnd IH]; simpl; [constructor|].
  apply insert_str_NoDup; [exact IH|]. intro H. apply Hy. apply (proj1 (sort_strs_In y l)). exact H.
Qed.

(* values "without repeats" *)
Theorem l_as_set_NoDup l : NoDup (as_set l).
Proof. apply sort_strs_NoDup. apply dedup_NoDup. Qed.

(* values of key k in an ordered dict, [] when absent *)

Lemma dget_dset_same k v m : dget k (dset k v m) = Some v.
Proof.
  induction m as [|[k2 v2] m IH]; simpl.
  - rewrite str_eqb_refl. reflexivity.
  - destruct (str_eqb k k2) eqn:E; simpl; rewrite E; [reflexivity|exact IH].
Qed.

Lemma dget_dset_other k k' v m : str_eqb k k' = false -> dget k (dset k' v m) = dget k m.
Proof.
  intros E. induction m as [|[k2 v2] m IH]; simpl.
  - rewrite E. reflexivity.
  - destruct (str_eqb k' k2) eqn:E2; simpl.
    + apply str_eqb_eq in E2. subst k2. rewrite E. reflexivity.
    + destruct (str_eqb k k2); [reflexivity|exact IH].
Qed.

Lemma vals_dappend k k' vs m : vals k (dappend k' vs m) = if str_eqb k k' then vals k m ++ vs else vals k m.
Proof.
  unfold dappend, vals. destruct (str_eqb k k') eqn:E.
  - apply str_eqb_eq in E. subst k'. destruct (dget k m) eqn:G; rewrite dget_dset_same; reflexivity.
  - destruct (dget k' m); rewrite dget_dset_other by exact E; reflexivity.
Qed.

Lemma vals_fold_attrs k : forall (ea m : attrs),
  forall v, In v (vals k (fold_left (fun m kv => dappend (fst kv) (snd kv) m) ea m)) <->
            In v (vals k m) \/ exists vs, In (k, vs) ea /\ In v vs.
Proof.
  induction ea as [|[k' vs'] ea IH]; intros m v; simpl.
  - split; [auto|]. intros [H|[vs [[] _]]]. exact H.
  - rewrite IH, vals_dappend. destruct (str_eqb k k') eqn:E.
    + apply str_eqb_eq in E. subst k'. rewrite in_app_iff. split.
      * intros [[H|H]|[vs [H1 H2]]]; eauto 6.
      * intros [H|[vs [[H1|H1] H2]]]; [auto| |eauto 6]. inversion H1; subst. auto.
    + apply str_eqb_neq in E. split.
      * intros [H|[vs [H1 H2]]]; eauto 6.
      * intros [H|[vs [[H1|H1] H2]]]; [auto| |eauto 6]. inversion H1; subst. congruence.
Qed.

Lemma vals_map_set k m : vals k (map (fun kv => (fst kv, as_set (snd kv))) m) = as_set (vals k m) \/
                         (dget k m = None /\ vals k (map (fun kv => (fst kv, as_set (snd kv))) m) = []).
Proof.
  unfold vals. induction m as [|[k2 v2] m IH]; simpl; [right; auto|].
  destruct (str_eqb k k2); [left; reflexivity|exact IH].
Qed.

(* the merged value set of every key: exactly the union of the newcomer's and the merged
   candidates' values — nothing lost, nothing invented *)
Theorem l_merge_attrs_union k fa existing v :
  In v (vals k (merge_attrs fa existing)) <->
  In v (vals k fa) \/ exists e vs, In e existing /\ In (k, vs) (r_attrs e) /\ In v vs.
Proof.
  unfold merge_attrs.
  assert (G : forall ex m, In v (vals k (fold_left (fun m e => fold_left (fun m kv => dappend (fst kv) (snd kv) m) (r_attrs e) m) ex m))
              <-> In v (vals k m) \/ exists e vs, In e ex /\ In (k, vs) (r_attrs e) /\ In v vs).
  { induction ex as [|e ex IH]; intros m; simpl.
    - split; [auto|]. intros [H|[e [vs [[] _]]]]. exact H.
    - rewrite IH, vals_fold_attrs. split.
      + intros [[H|[vs [H1 H2]]]|[e' [vs [H1 [H2 H3]]]]]; eauto 8.
      + intros [H|[e' [vs [[H1|H1] [H2 H3]]]]]; [auto|subst; eauto 8|eauto 8]. }
  destruct (vals_map_set k (fold_left (fun m e => fold_left (fun m kv => dappend (fst kv) (snd kv) m) (r_attrs e) m) existing fa))
    as [E|[E1 E2]].
  - rewrite E, as_set_In. apply G.
  - rewrite E2. split; [intros []|]. intros H. apply G in H. unfold vals in H. rewrite E1 in H. exact H.
Qed.

(* exempt columns: the comma-joined, sorted, duplicate-free set of the values seen *)
Theorem l_merged_field fl f existing :
  merged_field fl f existing = join [44%N] (as_set (getf fl f :: flat_map (fun e => split [44%N] (getf fl e)) existing)).
Proof. reflexivity. Qed.
