(* Proofs/C08Round.v — print -> parse of an attribute mapping under every GFF3-style dialect
   is the identity: split_with D (reconstruct m D) = Ok m. *)
From GV Require Import Base.Prelude Base.PyStr Base.Utf8 Base.WordTable Model.DB Model.Parser Model.Grammar
  Proofs.SplitJoin Proofs.C08Proofs.
Open Scope N_scope.

(* ---------- characters ---------- *)
Lemma In_join c sep : forall parts, In c (join sep parts) -> In c sep \/ exists p, In p parts /\ In c p.
Proof.
  induction parts as [|p ps IH]; [simpl; contradiction|]. destruct ps as [|p2 ps].
  - simpl. intros H. right. exists p. split; [left; reflexivity|exact H].
  - rewrite join_cons by discriminate. intros H. apply in_app_or in H as [H|H].
    + right. exists p. split; [left; reflexivity|exact H].
    + apply in_app_or in H as [H|H]; [left; exact H|]. apply IH in H as [H|[q [Hq Hc]]]; [left; exact H|].
      right. exists q. split; [right; exact Hq|exact Hc].
Qed.

Lemma join_nonempty sep p ps : p <> [] -> join sep (p :: ps) <> [].
Proof.
  intros Hp. destruct ps; [exact Hp|]. rewrite join_cons by discriminate. destruct p; [congruence|discriminate].
Qed.

Lemma join_ends_with_last sep : forall parts d, parts <> [] -> exists pre, join sep parts = pre ++ last parts d.
Proof.
  induction parts as [|p ps IH]; intros d Hne; [congruence|]. destruct ps as [|p2 ps].
  - exists []. reflexivity.
  - rewrite join_cons by discriminate. destruct (IH d) as [pre Hpre]; [discriminate|].
    exists (p ++ sep ++ pre). rewrite Hpre. rewrite <- !app_assoc. reflexivity.
Qed.

Lemma key_rest_chars c : key_rest c = true -> ~ In c [SEMI; EQ; SP; COMMA; DQ].
Proof.
  intros H Hin. simpl in Hin.
  repeat (destruct Hin as [Hin|Hin]; [subst c; vm_compute in H; discriminate|]). contradiction.
Qed.

Lemma prop_key_rest k : prop_key k = true -> forallb key_rest k = true /\ k <> [].
Proof.
  destruct k as [|c r]; [discriminate|]. simpl. intros H. apply andb_prop in H as [H1 H2]. split; [|discriminate].
  rewrite H2, andb_true_r. unfold key_rest. rewrite H1. reflexivity.
Qed.

Lemma prop_key_free k c : prop_key k = true -> In c [SEMI; EQ; SP; COMMA; DQ] -> ~ In c k.
Proof.
  intros Hk Hc Hin. apply prop_key_rest in Hk as [Hk _]. rewrite forallb_forall in Hk.
  apply (key_rest_chars c (Hk c Hin)). exact Hc.
Qed.

(* ---------- ordered dict ---------- *)
Lemma dget_app_notin k q r : dhas k q = false -> dget k (q ++ r) = dget k r.
Proof.
  unfold dhas. induction q as [|[k' v'] q IH]; simpl; [reflexivity|].
  destruct (str_eqb k k'); [discriminate|]. exact IH.
Qed.

Lemma dset_app_notin k v q r : dhas k q = false -> dset k v (q ++ r) = q ++ dset k v r.
Proof.
  unfold dhas. induction q as [|[k' v'] q IH]; simpl; [reflexivity|].
  destruct (str_eqb k k'); [discriminate|]. intros H. f_equal. apply IH. exact H.
Qed.

Definition add (q : attrs) (it : str * list str) : attrs :=
  dappend (fst it) (snd it) (if dhas (fst it) q then q else dset (fst it) [] q).

Lemma dhas_app_single k q cur : dhas k (q ++ [(k, cur)]) = true.
Proof.
  unfold dhas. induction q as [|[k' v'] q IH]; simpl.
  - rewrite str_eqb_refl. reflexivity.
  - destruct (str_eqb k k'); [reflexivity|exact IH].
Qed.

Lemma add_old k q cur vs : dhas k q = false -> add (q ++ [(k, cur)]) (k, vs) = q ++ [(k, cur ++ vs)].
Proof.
  intros H. unfold add. cbn [fst snd]. rewrite dhas_app_single. unfold dappend.
  rewrite dget_app_notin by exact H. simpl. rewrite str_eqb_refl.
  rewrite dset_app_notin by exact H. simpl. rewrite str_eqb_refl. reflexivity.
Qed.

Lemma add_new k q vs : dhas k q = false -> add q (k, vs) = q ++ [(k, vs)].
Proof.
  intros H. unfold add. cbn [fst snd]. rewrite H.
  assert (E : dset k [] q = q ++ [(k, [])]).
  { rewrite <- (app_nil_r q) at 1. rewrite dset_app_notin by exact H. reflexivity. }
  rewrite E. unfold dappend. rewrite dget_app_notin by exact H. simpl. rewrite str_eqb_refl.
  rewrite dset_app_notin by exact H. simpl. rewrite str_eqb_refl. reflexivity.
Qed.

Lemma dhas_app k q r : dhas k (q ++ r) = dhas k q || dhas k r.
Proof.
  unfold dhas. induction q as [|[k' v'] q IH]; simpl; [reflexivity|].
  destruct (str_eqb k k'); [reflexivity|exact IH].
Qed.

Lemma dhas_false_iff k q : dhas k q = false <-> ~ In k (map fst q).
Proof.
  unfold dhas. induction q as [|[k' v'] q IH]; simpl; [tauto|].
  destruct (str_eqb k k') eqn:E.
  - apply str_eqb_eq in E. subst. split; [discriminate|]. intros H. exfalso. apply H. left. reflexivity.
  - apply str_eqb_neq in E. rewrite IH. split; [intros H [A|A]; [congruence|contradiction]|tauto].
Qed.

Lemma fold_singletons k : forall vs q cur, dhas k q = false ->
  fold_left add (map (fun v => (k, [v])) vs) (q ++ [(k, cur)]) = q ++ [(k, cur ++ vs)].
Proof.
  induction vs as [|v vs IH]; intros q cur H; simpl.
  - rewrite app_nil_r. reflexivity.
  - rewrite add_old by exact H. rewrite IH by exact H. rewrite <- app_assoc. reflexivity.
Qed.

Definition nonempty_vals (m : attrs) : Prop := forall kv, In kv m -> snd kv <> [].

Lemma fold_add_plain : forall m acc, NoDup (map fst m) -> (forall k, In k (map fst m) -> dhas k acc = false) ->
  fold_left add m acc = acc ++ m.
Proof.
  induction m as [|[k vs] m IH]; intros acc Hnd Hacc; simpl.
  - rewrite app_nil_r. reflexivity.
  - inversion Hnd as [|? ? Hk Hnd']; subst. rewrite add_new by (apply Hacc; left; reflexivity).
    rewrite IH.
    + rewrite <- app_assoc. reflexivity.
    + exact Hnd'.
    + intros k' Hk'. rewrite dhas_app. rewrite (Hacc k') by (right; exact Hk'). simpl.
      unfold dhas. simpl. destruct (str_eqb k' k) eqn:E; [|reflexivity].
      apply str_eqb_eq in E. subst. contradiction.
Qed.

Lemma fold_add_expanded : forall m acc, NoDup (map fst m) -> (forall k, In k (map fst m) -> dhas k acc = false) ->
  nonempty_vals m -> fold_left add (expand_repeated m) acc = acc ++ m.
Proof.
  induction m as [|[k vs] m IH]; intros acc Hnd Hacc Hne.
  - simpl. rewrite app_nil_r. reflexivity.
  - inversion Hnd as [|? ? Hk Hnd']; subst.
    assert (Hk0 : dhas k acc = false) by (apply Hacc; left; reflexivity).
    assert (Hrest : forall k', In k' (map fst m) -> dhas k' (acc ++ [(k, vs)]) = false).
    { intros k' Hk'. rewrite dhas_app. rewrite (Hacc k') by (right; exact Hk'). simpl.
      unfold dhas. simpl. destruct (str_eqb k' k) eqn:E; [|reflexivity].
      apply str_eqb_eq in E. subst. contradiction. }
    assert (Hne' : nonempty_vals m) by (intros kv Hkv; apply Hne; right; exact Hkv).
    unfold expand_repeated. cbn [flat_map]. fold (expand_repeated m). rewrite fold_left_app. cbn [fst snd].
    destruct vs as [|v1 [|v2 vs]].
    + exfalso. apply (Hne (k, [])); [left; reflexivity|reflexivity].
    + simpl fold_left at 2. rewrite add_new by exact Hk0. rewrite IH by assumption. rewrite <- app_assoc. reflexivity.
    + change (map (fun v => (k, [v])) (v1 :: v2 :: vs)) with ((k, [v1]) :: map (fun v => (k, [v])) (v2 :: vs)).
      cbn [fold_left]. rewrite (add_new k acc [v1] Hk0).
      rewrite fold_singletons by exact Hk0. change ([v1] ++ v2 :: vs) with (v1 :: v2 :: vs). rewrite IH by assumption. rewrite <- app_assoc. reflexivity.
Qed.

Lemma keys_unique_go_spec : forall l seen,
  (fix go (l : attrs) (seen : list str) : bool :=
     match l with [] => true | (k, _) :: l' => negb (mem_str k seen) && go l' (k :: seen) end) l seen = true ->
  NoDup (map fst l) /\ forall k, In k (map fst l) -> ~ In k seen.
Proof.
  induction l as [|[k v] l IH]; intros seen H.
  - split; [constructor|intros k []].
  - apply andb_prop in H as [H1 H2]. apply negb_true_iff in H1.
    destruct (IH _ H2) as [Hnd Hseen]. split.
    + simpl. constructor; [|exact Hnd]. intros Hin. apply (Hseen k Hin). left. reflexivity.
    + intros k' [E|Hk'] Hs.
      * simpl in E. subst k'. apply mem_str_In in Hs. congruence.
      * apply (Hseen k' Hk'). right. exact Hs.
Qed.

Lemma keys_unique_NoDup m : keys_unique m = true -> NoDup (map fst m).
Proof. intros H. apply (keys_unique_go_spec m [] H). Qed.

(* ---------- rendering and re-reading one part ---------- *)
Definition val_str (D : dialect) (qvs : list str) : str :=
  let j := join (d_mvsep D) qvs in if d_quoted D then DQ :: j ++ [DQ] else j.

Lemma render_part_eq D key qvs : join (d_mvsep D) qvs <> [] ->
  render_part D false (key, qvs) = key ++ d_kvsep D ++ val_str D qvs.
Proof.
  intros Hj. unfold render_part, val_str. destruct qvs as [|v qvs]; [simpl in Hj; congruence|].
  destruct (join (d_mvsep D) (v :: qvs)) eqn:E; [congruence|]. reflexivity.
Qed.

Lemma key_val_part k key vs : ~ In k key -> key_val [k] (split [k] (key ++ k :: vs)) = (key, vs).
Proof.
  intros Hk. rewrite split1_head by exact Hk. pose proof (join_split1 k vs) as J.
  destruct (split [k] vs) as [|a [|b l]] eqn:E.
  - exfalso. exact (split_nonempty _ _ E).
  - simpl in J. subst a. reflexivity.
  - cbn [key_val]. rewrite J. reflexivity.
Qed.

Lemma strip_quotes_quoted j : strip_quotes (DQ :: j ++ [DQ]) = Some j.
Proof.
  unfold strip_quotes. rewrite N.eqb_refl. cbn [andb].
  change (DQ :: j ++ [DQ]) with ((DQ :: j) ++ [DQ]). rewrite last_last. rewrite N.eqb_refl.
  cbn [tl app]. rewrite removelast_last. reflexivity.
Qed.

Section Round.
  Variable D : dialect.
  Variables (pre post : str) (kc : N).
  Hypothesis Hfmt : d_fmt D = GFF3.
  Hypothesis Hfsep : d_fsep D = pre ++ SEMI :: post.
  Hypothesis Hpre : ~ In SEMI pre.
  Hypothesis Hkv : d_kvsep D = [kc].
  Hypothesis Hkc : kc = EQ \/ kc = SP.
  Hypothesis Hmv : d_mvsep D = [COMMA].

  (* a quoted value list: every element non-empty, free of the structural characters *)
  Definition qvals_ok (qvs : list str) : Prop :=
    qvs <> [] /\ forall v, In v qvs -> v <> [] /\ ~ In COMMA v /\ ~ In SEMI v.

  Lemma qvals_join_nonempty qvs : qvals_ok qvs -> join (d_mvsep D) qvs <> [].
  Proof.
    intros [Hne Hv]. destruct qvs as [|v qvs]; [congruence|]. apply join_nonempty. apply (Hv v). left. reflexivity.
  Qed.

  Lemma with_step_part q key qvs : qvals_ok qvs ->
    with_step D q (key, val_str D qvs) = add q (key, qvs).
  Proof.
    intros Hq. pose proof (qvals_join_nonempty qvs Hq) as Hj. destruct Hq as [Hne Hv].
    unfold with_step, add, val_str. cbn [fst snd]. rewrite Hmv in *.
    assert (S : split [COMMA] (join [COMMA] qvs) = qvs).
    { apply (split_join [] [] COMMA (@in_nil N COMMA)); [exact Hne|]. intros p Hp. apply (Hv p Hp). }
    destruct (d_quoted D).
    - rewrite strip_quotes_quoted. destruct (join [COMMA] qvs) eqn:E; [congruence|]. rewrite S. reflexivity.
    - destruct (join [COMMA] qvs) eqn:E; [congruence|]. rewrite S. reflexivity.
  Qed.

  Definition item_ok (it : str * list str) : Prop := prop_key (fst it) = true /\ qvals_ok (snd it).

  Lemma part_no_semi it : item_ok it -> ~ In SEMI (render_part D false it).
  Proof.
    destruct it as [key qvs]. intros [Hk Hq]. cbn [fst snd] in *.
    rewrite render_part_eq by (apply qvals_join_nonempty; exact Hq).
    intros Hin. apply in_app_or in Hin as [Hin|Hin].
    - revert Hin. apply prop_key_free; [exact Hk|left; reflexivity].
    - apply in_app_or in Hin as [Hin|Hin].
      + rewrite Hkv in Hin. destruct Hin as [Hin|[]]. destruct Hkc; subst kc; discriminate.
      + unfold val_str in Hin. rewrite Hmv in Hin.
        assert (J : ~ In SEMI (join [COMMA] qvs)).
        { intros Hj. apply In_join in Hj as [Hj|[p [Hp Hc]]].
          - destruct Hj as [Hj|[]]. discriminate.
          - destruct Hq as [_ Hv]. apply (Hv p Hp). exact Hc. }
        destruct (d_quoted D); [|contradiction].
        destruct Hin as [Hin|Hin]; [discriminate|]. apply in_app_or in Hin as [Hin|[Hin|[]]]; [contradiction|discriminate].
  Qed.

  Lemma part_parse it : item_ok it ->
    key_val (d_kvsep D) (split (d_kvsep D) (render_part D false it)) = (fst it, val_str D (snd it)).
  Proof.
    destruct it as [key qvs]. intros [Hk Hq]. cbn [fst snd] in *.
    rewrite render_part_eq by (apply qvals_join_nonempty; exact Hq). rewrite Hkv. simpl app.
    apply key_val_part. apply prop_key_free; [exact Hk|]. destruct Hkc; subst kc; simpl; auto.
  Qed.

  Lemma parts_fold : forall items acc, (forall it, In it items -> item_ok it) ->
    fold_left (with_step D) (map (fun p => key_val (d_kvsep D) (split (d_kvsep D) p)) (map (render_part D false) items)) acc
    = fold_left add items acc.
  Proof.
    induction items as [|it items IH]; intros acc Hok; [reflexivity|].
    cbn [map fold_left]. rewrite part_parse by (apply Hok; left; reflexivity).
    rewrite with_step_part by (apply Hok; left; reflexivity). destruct it. apply IH.
    intros it' Hit'. apply Hok. right. exact Hit'.
  Qed.

  (* the part list, joined by the field separator and split again *)
  Lemma parts_split items : items <> [] -> (forall it, In it items -> item_ok it) ->
    split (d_fsep D) (join (d_fsep D) (map (render_part D false) items)) = map (render_part D false) items.
  Proof.
    intros Hne Hok. rewrite Hfsep. apply (split_join pre post SEMI Hpre).
    - destruct items; [congruence|discriminate].
    - intros p Hp. apply in_map_iff in Hp as [it [E Hit]]. subst p. apply part_no_semi. apply Hok. exact Hit.
  Qed.

  Lemma rstrip_semi s x : x <> SEMI -> rstrip_chars [SEMI] ((s ++ [x]) ++ [SEMI]) = s ++ [x].
  Proof.
    intros Hx. unfold rstrip_chars, rstrip_by. rewrite rev_app_distr. simpl rev at 1. cbn [app lstrip_by mem_char existsb].
    rewrite rev_app_distr. cbn [rev app lstrip_by].
    assert (E : (x =? SEMI) = false) by (apply N.eqb_neq; exact Hx).
    rewrite E. cbn [orb]. change (x :: rev s) with ([x] ++ rev s). rewrite rev_app_distr, rev_involutive. reflexivity.
  Qed.

  Lemma joined_last_char items : items <> [] -> (forall it, In it items -> item_ok it) ->
    exists s x, join (d_fsep D) (map (render_part D false) items) = s ++ [x] /\ x <> SEMI.
  Proof.
    intros Hne Hok.
    assert (Hm : map (render_part D false) items <> []) by (destruct items; [congruence|discriminate]).
    destruct (join_ends_with_last (d_fsep D) _ [] Hm) as [pr Hpr].
    assert (Hl : In (last (map (render_part D false) items) []) (map (render_part D false) items)).
    { destruct (exists_last Hm) as [l' [a Ea]]. rewrite Ea. rewrite last_last. apply in_or_app. right. left. reflexivity. }
    apply in_map_iff in Hl as [it [E Hit]]. pose proof (part_no_semi it (Hok it Hit)) as Hns.
    assert (Hne' : render_part D false it <> []).
    { destruct it as [key qvs]. destruct (Hok _ Hit) as [Hk Hq]. cbn [fst snd] in *.
      rewrite render_part_eq by (apply qvals_join_nonempty; exact Hq).
      apply prop_key_rest in Hk as [_ Hk]. destruct key; [congruence|discriminate]. }
    destruct (exists_last Hne') as [l' [x Ex]].
    exists (pr ++ l'), x. split.
    - rewrite Hpr, <- E, Ex, app_assoc. reflexivity.
    - intros Hx. apply Hns. rewrite Ex. apply in_or_app. right. left. congruence.
  Qed.

  Lemma wf_D : wf_dialect D = true.
  Proof. unfold wf_dialect. rewrite Hfsep, Hkv. destruct pre; reflexivity. Qed.

  Lemma split_with_str S ps s x : S = (if d_trailing D then ps ++ [SEMI] else ps) -> ps = s ++ [x] -> x <> SEMI ->
    split_with D S = Ok (unquote_quals D (fold_left (with_step D) (with_key_vals D (split (d_fsep D) ps)) [])).
  Proof.
    intros HS Es Hx.
    assert (Hne : S <> []) by (subst S; destruct (d_trailing D); rewrite Es; destruct s; discriminate).
    unfold split_with. destruct S as [|c0 S0]; [congruence|]. rewrite wf_D. cbn [negb]. cbv iota.
    replace (if d_trailing D then rstrip_chars [SEMI] (c0 :: S0) else c0 :: S0) with ps; [reflexivity|].
    rewrite HS. destruct (d_trailing D); [|reflexivity]. rewrite Es. symmetry. apply rstrip_semi. exact Hx.
  Qed.

  Lemma split_with_items items : items <> [] -> (forall it, In it items -> item_ok it) ->
    let ps := join (d_fsep D) (map (render_part D false) items) in
    split_with D (if d_trailing D then ps ++ [SEMI] else ps)
    = Ok (map (fun kv => (fst kv, map unquote (snd kv))) (fold_left add items [])).
  Proof.
    intros Hne Hok ps.
    destruct (joined_last_char items Hne Hok) as [s [x [Es Hx]]]. subst ps.
    erewrite split_with_str; [|reflexivity|exact Es|exact Hx]. rewrite parts_split by assumption.
    unfold with_key_vals. rewrite Hfmt. change (str_eqb GFF3 GFF3) with true. cbv iota.
    rewrite parts_fold by exact Hok. unfold unquote_quals. rewrite Hfmt. reflexivity.
  Qed.
End Round.

(* ---------- the mapping level ---------- *)
Definition qmap (m : attrs) : attrs := map (fun kv => (fst kv, map (quote to_quote) (snd kv))) m.

Lemma qmap_keys m : map fst (qmap m) = map fst m.
Proof. unfold qmap. rewrite map_map. reflexivity. Qed.

Lemma unq_qmap m : map (fun kv => (fst kv, map unquote (snd kv))) (qmap m) = m.
Proof.
  unfold qmap. rewrite map_map. rewrite <- (map_id m) at 2. apply map_ext. intros [k vs]. cbn [fst snd]. f_equal.
  rewrite map_map. rewrite <- (map_id vs) at 2. apply map_ext. intros v. apply l_quote_unquote.
Qed.

Lemma quote_nonempty v : v <> [] -> quote to_quote v <> [].
Proof.
  destruct v as [|c v]; [congruence|]. intros _. change (quote to_quote (c :: v)) with (quote_char to_quote c ++ quote to_quote v).
  unfold quote_char. destruct (mem_char c to_quote); discriminate.
Qed.

Definition vals_ok (m : attrs) : Prop :=
  forall kv, In kv m -> prop_key (fst kv) = true /\ snd kv <> [] /\ forall v, In v (snd kv) -> v <> [].

Lemma mapping_ok_spec m : mapping_ok m = true -> NoDup (map fst m) /\ vals_ok m.
Proof.
  unfold mapping_ok. intros H. apply andb_prop in H as [H1 H2]. split; [apply keys_unique_NoDup; exact H1|].
  rewrite forallb_forall in H2. intros kv Hkv. specialize (H2 kv Hkv). apply andb_prop in H2 as [Hk Hv].
  destruct kv as [k vs]. cbn [fst snd] in *.
  split; [exact Hk|]. destruct vs as [|v vs]; [discriminate Hv|]. split; [discriminate|].
  rewrite forallb_forall in Hv. intros v' Hv'. specialize (Hv v' Hv'). simpl in Hv. destruct v'; [discriminate Hv|discriminate].
Qed.

Lemma qvals_ok_quoted vs : vs <> [] -> (forall v, In v vs -> v <> []) -> qvals_ok (map (quote to_quote) vs).
Proof.
  intros Hne Hv. split; [destruct vs; [congruence|discriminate]|].
  intros q Hq. apply in_map_iff in Hq as [v [E Hin]]. subst q. split; [apply quote_nonempty; apply Hv; exact Hin|].
  split; apply l_quote_no_structural; simpl; auto 10.
Qed.

Lemma items_ok_plain m : vals_ok m -> forall it, In it (qmap m) -> item_ok it.
Proof.
  intros Hm it Hit. unfold qmap in Hit. apply in_map_iff in Hit as [kv [E Hkv]]. subst it.
  destruct (Hm kv Hkv) as [Hk [Hne Hv]]. split; [exact Hk|]. cbn [snd]. apply qvals_ok_quoted; assumption.
Qed.

Lemma items_ok_expanded m : vals_ok m -> forall it, In it (expand_repeated (qmap m)) -> item_ok it.
Proof.
  intros Hm it Hit. unfold expand_repeated in Hit. apply in_flat_map in Hit as [kv [Hkv Hit]].
  pose proof (items_ok_plain m Hm kv Hkv) as [Hk Hq].
  destruct (snd kv) as [|v1 [|v2 vs]] eqn:E.
  - destruct Hit as [Hit|[]]. subst it. split; [exact Hk|rewrite E; exact Hq].
  - destruct Hit as [Hit|[]]. subst it. split; [exact Hk|rewrite E; exact Hq].
  - apply in_map_iff in Hit as [v [Ev Hv]]. subst it. split; [exact Hk|]. cbn [snd].
    destruct Hq as [_ Hq]. split; [discriminate|]. intros v' [Ev'|[]]. subst v'. apply Hq. exact Hv.
Qed.

Lemma fsep_ok_decomp s : fsep_ok s = true -> exists pre post, s = pre ++ SEMI :: post /\ ~ In SEMI pre.
Proof.
  unfold fsep_ok. intros H. apply orb_prop in H as [H|H]; [apply orb_prop in H as [H|H]|]; apply str_eqb_eq in H; subst s.
  - exists [], []. split; [reflexivity|intros []].
  - exists [], [SP]. split; [reflexivity|intros []].
  - exists [SP], [SP]. split; [reflexivity|]. intros [A|[]]. discriminate.
Qed.

Theorem l_roundtrip_gff3 D m : gff3_style D = true -> mapping_ok m = true ->
  split_with D (reconstruct to_quote m D false false) = Ok m.
Proof.
  intros HD Hm. apply mapping_ok_spec in Hm as [Hnd Hv].
  unfold gff3_style, seps_ok in HD.
  apply andb_prop in HD as [HD Hkv]. apply andb_prop in HD as [HD Hfmt]. apply andb_prop in HD as [HD _].
  apply andb_prop in HD as [Hfs Hmv].
  apply str_eqb_eq in Hfmt. apply str_eqb_eq in Hmv.
  destruct (fsep_ok_decomp _ Hfs) as [pre [post [Efs Hpre]]].
  assert (K : exists kc, d_kvsep D = [kc] /\ (kc = EQ \/ kc = SP)).
  { apply orb_prop in Hkv as [K|K]; apply str_eqb_eq in K; [exists EQ|exists SP]; auto. }
  destruct K as [kc [Ekv Hkc]].
  destruct m as [|kv0 m0]; [reflexivity|]. set (m := kv0 :: m0) in *.
  assert (Hvals : nonempty_vals (qmap m)).
  { intros kv Hkv'. unfold qmap in Hkv'. apply in_map_iff in Hkv' as [kv' [E Hin]]. subst kv. cbn [snd].
    destruct (Hv kv' Hin) as [_ [Hne _]]. destruct (snd kv'); [congruence|discriminate]. }
  unfold reconstruct. fold m. replace (match m with [] => [] | _ :: _ => _ end) with
    (let items := if d_repeated D then expand_repeated (qmap m) else qmap m in
     let ps := join (d_fsep D) (map (render_part D false) items) in
     if d_trailing D then ps ++ [SEMI] else ps).
  2:{ unfold m. rewrite Hfmt. change (str_eqb GFF3 GFF3) with true. cbv iota. reflexivity. }
  cbv zeta. destruct (d_repeated D).
  - rewrite (split_with_items D pre post kc Hfmt Efs Hpre Ekv Hkc Hmv).
    + rewrite fold_add_expanded; [rewrite app_nil_l; rewrite unq_qmap; reflexivity|rewrite qmap_keys; exact Hnd|reflexivity|exact Hvals].
    + unfold m. simpl. destruct (map (quote to_quote) (snd kv0)) as [|? [|? ?]]; discriminate.
    + apply items_ok_expanded. exact Hv.
  - rewrite (split_with_items D pre post kc Hfmt Efs Hpre Ekv Hkc Hmv).
    + rewrite fold_add_plain; [rewrite app_nil_l; rewrite unq_qmap; reflexivity|rewrite qmap_keys; exact Hnd|reflexivity].
    + unfold m. discriminate.
    + apply items_ok_plain. exact Hv.
Qed.
