(* Proofs/C12Import.v — "the stored bin of every feature equals bins(start, end)": an invariant of every import step,
   under every strategy, of both importers and of the derived GTF features (the hypothesis [wf_row] of the C06 theorems). *)
From GV Require Import Base.Prelude Base.PyStr Model.Bins Model.DB Model.Parser Model.Import
  Proofs.C02Proofs Proofs.C04Proofs.
Open Scope Z_scope.

Lemma set_bin_consistent r : bin_consistent (set_bin r) = true.
Proof.
  unfold bin_consistent, set_bin. cbn [r_bin r_start r_end]. destruct (feature_bin (r_start r) (r_end r)); cbn; [apply Z.eqb_refl|reflexivity].
Qed.

Lemma set_id_consistent id r : bin_consistent (set_id id r) = bin_consistent r.
Proof. reflexivity. Qed.
Lemma set_attrs_consistent a r : bin_consistent (set_attrs a r) = bin_consistent r.
Proof. reflexivity. Qed.
Lemma setf_consistent fl v r : bin_consistent (setf fl v r) = bin_consistent r.
Proof. destruct fl; reflexivity. Qed.
Lemma fold_setf_consistent (g : field -> str) : forall fl r,
  bin_consistent (fold_left (fun r fl => setf fl (g fl) r) fl r) = bin_consistent r.
Proof. induction fl as [|x fl IH]; intros r; cbn [fold_left]; [reflexivity|]. rewrite IH. apply setf_consistent. Qed.

Lemma bins_ok_app st r d a rels : bins_ok st -> bin_consistent r = true -> bins_ok (mkSt (s_rows st ++ [r]) rels d a).
Proof. intros H Hr x Hx. cbn [s_rows] in Hx. apply in_app_or in Hx as [Hx|[<-|[]]]; [apply H; exact Hx|exact Hr]. Qed.

Lemma bins_ok_update st id (g : row -> row) rels d a : bins_ok st -> (forall r, bin_consistent r = true -> bin_consistent (g r) = true) ->
  bins_ok (mkSt (update_id id g (s_rows st)) rels d a).
Proof.
  intros H Hg x Hx. cbn [s_rows] in Hx. unfold update_id in Hx. apply in_map_iff in Hx as [r [<- Hr]].
  destruct (str_eqb (r_id r) id); [apply Hg|]; apply H; exact Hr.
Qed.

Section ImportBins.
  Variable call : nat -> row -> option str.

  Lemma store_bins strat force spec st f0 o : store call strat force spec st f0 = Ok o -> bins_ok st ->
    bins_ok (match o with OSkip s => s | OStored s _ => s end).
  Proof.
    intros H Hb. unfold store in H. destruct (id_handler call spec f0 (s_auto st)) as [[id a]|]; [|discriminate].
    cbn [s_rows s_rels s_dups s_auto] in H. destruct (has_id id (s_rows st)) eqn:Hh.
    - destruct strat; cbn [do_merge] in H; try discriminate.
      + inversion H; subst. exact Hb.
      + inversion H; subst. apply (bins_ok_update st); [exact Hb|]. intros r _. apply set_bin_consistent.
      + unfold create_unique in H. cbn [s_rows s_rels s_dups s_auto r_id set_bin set_id] in H.
        destruct (fresh_auto _ _ _ _) as [[nid a']|]; [|discriminate]. inversion H; subst.
        apply (bins_ok_app st); [exact Hb|]. rewrite set_id_consistent. apply set_bin_consistent.
      + cbn [s_rows s_rels s_dups s_auto r_id set_bin set_id] in H. destruct (rev (filter _ _)) as [|target rest].
        * unfold create_unique in H. cbn [s_rows s_rels s_dups s_auto r_id set_bin set_id] in H.
          destruct (fresh_auto _ _ _ _) as [[nid a']|]; [|discriminate]. inversion H; subst.
          apply (bins_ok_app st); [exact Hb|]. rewrite set_id_consistent. apply set_bin_consistent.
        * inversion H; subst. apply (bins_ok_update st); [exact Hb|]. intros r Hr.
          rewrite fold_setf_consistent, set_attrs_consistent. exact Hr.
    - inversion H; subst. apply (bins_ok_app st); [exact Hb|]. apply set_bin_consistent.
  Qed.

  Theorem l_step_gff_bins strat force spec st f0 st' : step_gff call strat force spec st f0 = Ok st' -> bins_ok st -> bins_ok st'.
  Proof.
    intros H Hb. unfold step_gff in H. destruct (store call strat force spec st f0) as [o|] eqn:E; [|discriminate].
    pose proof (store_bins _ _ _ _ _ _ E Hb) as B. destruct o as [s|s id]; inversion H; subst; exact B.
  Qed.

  Theorem l_step_gtf_bins g strat force spec st f0 st' : step_gtf call g strat force spec st f0 = Ok st' -> bins_ok st -> bins_ok st'.
  Proof.
    intros H Hb. unfold step_gtf in H. destruct (store call strat force spec st f0) as [o|] eqn:E; [|discriminate].
    pose proof (store_bins _ _ _ _ _ _ E Hb) as B. destruct o as [s|s id]; inversion H; subst; exact B.
  Qed.

  Lemma insert_derived_bins force spec st f0 st' : insert_derived call force spec st f0 = Ok st' -> bins_ok st -> bins_ok st'.
  Proof.
    intros H Hb. unfold insert_derived in H. destruct (derived_clean f0); [|discriminate]. cbn [negb] in H.
    destruct (id_handler call spec f0 (s_auto st)) as [[id a]|]; [|discriminate]. cbn [s_rows s_rels s_dups s_auto] in H.
    destruct (has_id id (s_rows st)).
    - destruct (rev (filter _ _)) as [|target rest].
      + destruct (fresh_auto _ _ _ _) as [[nid a']|]; [|discriminate]. inversion H; subst. exact Hb.
      + inversion H; subst. apply (bins_ok_update st); [exact Hb|]. intros r Hr. rewrite set_attrs_consistent. exact Hr.
    - inversion H; subst. apply (bins_ok_app st); [exact Hb|]. apply set_bin_consistent.
  Qed.

  Lemma run_bins (step : ist -> row -> result ist) : (forall st f st', step st f = Ok st' -> bins_ok st -> bins_ok st') ->
    forall fs st st', run_steps step fs st = Ok st' -> bins_ok st -> bins_ok st'.
  Proof.
    intros Hs. induction fs as [|f fs IH]; intros st st' H Hb; cbn [run_steps] in H; [inversion H; subst; exact Hb|].
    destruct (step st f) as [s1|] eqn:E; [|discriminate]. apply (IH s1 st' H). apply (Hs _ _ _ E Hb).
  Qed.

  (* whole imports, from any state whose bins are consistent (in particular the empty one, and so every history) *)
  Theorem l_import_gff_bins strat force spec fs st st' : import_gff call strat force spec fs st = Ok st' -> bins_ok st -> bins_ok st'.
  Proof.
    intros H Hb. unfold import_gff in H. destruct fs as [|f0 fs0]; [discriminate|].
    destruct (run_steps (step_gff call strat force spec) (f0 :: fs0) st) as [s1|] eqn:R; [|discriminate].
    pose proof (run_bins _ (fun a b c => l_step_gff_bins strat force spec a b c) _ _ _ R Hb) as B1.
    unfold update_relations_gff in H. destruct (read_pairs (grand_pairs s1)); [|discriminate]. inversion H; subst. exact B1.
  Qed.

  Theorem l_import_gtf_bins g strat force spec fs st st' : import_gtf call g strat force spec fs st = Ok st' -> bins_ok st -> bins_ok st'.
  Proof.
    intros H Hb. unfold import_gtf in H. destruct fs as [|f0 fs0]; [discriminate|].
    destruct (run_steps (step_gtf call g strat force spec) (f0 :: fs0) st) as [s1|] eqn:R; [|discriminate].
    pose proof (run_bins _ (fun a b c => l_step_gtf_bins g strat force spec a b c) _ _ _ R Hb) as B1.
    unfold update_relations_gtf in H. destruct (g_no_genes g && g_no_transcripts g); [inversion H; subst; exact B1|].
    destruct (derive g s1 (tg_pairs g s1) None) as [ds|]; [|discriminate].
    apply (run_bins _ (fun a b c => insert_derived_bins force spec a b c) _ _ _ H B1).
  Qed.
End ImportBins.
