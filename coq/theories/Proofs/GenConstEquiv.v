(* Proofs/GenConstEquiv.v — constants regenerated from /repo (parser._to_quote, constants.dialect,
   Feature.__len__) equal the literals used by the hand-written models. *)
From GV Require Import Base.Prelude Base.PyStr Model.Bins Model.DB Model.Parser Gen.GenLib Gen.GenConst.
Open Scope N_scope.

Lemma gen_to_quote_eq : gen_to_quote = to_quote.
Proof. vm_compute. reflexivity. Qed.

Lemma gen_default_dialect_eq :
  gen_default_dialect =
  (d_leading default_dialect, d_trailing default_dialect, d_quoted default_dialect, d_fsep default_dialect,
   d_kvsep default_dialect, d_mvsep default_dialect, d_fmt default_dialect, d_repeated default_dialect,
   d_order default_dialect).
Proof. vm_compute. reflexivity. Qed.

Lemma gen_switches : gen_always_return_list = true /\ gen_ignore_url_escape_characters = false.
Proof. split; reflexivity. Qed.
