(* Proofs/C08Line.v — the printed Feature is a single line of exactly nine tab-separated columns plus the extra
   columns: no tab, LF or CR can come out of a GFF3-style attribute column. *)
From GV Require Import Base.Prelude Base.PyStr Base.Utf8 Base.WordTable Model.DB Model.Parser Model.Grammar
  Proofs.SplitJoin Proofs.StrLemmas Proofs.C05Proofs Proofs.C08Proofs Proofs.C08Round Proofs.C07Parse Proofs.C07Proofs.
Open Scope N_scope.

Lemma insert_by_In {A} (key : A -> N) x y : forall l, In x (insert_by key y l) <-> x = y \/ In x l.
Proof.
  induction l as [|z l IH]; cbn; [intuition congruence|]. destruct (key y <=? key z); cbn; [intuition congruence|]. rewrite IH. intuition congruence.
Qed.

Lemma stable_sort_In {A} (key : A -> N) x : forall l, In x (stable_sort_by key l) <-> In x l.
Proof.
  unfold stable_sort_by. induction l as [|y l IH]; cbn; [tauto|]. rewrite insert_by_In, IH. intuition congruence.
Qed.

Lemma expand_In_vals (m : attrs) it : In it (expand_repeated m) -> exists kv, In kv m /\ fst it = fst kv /\ forall v, In v (snd it) -> In v (snd kv).
Proof.
  unfold expand_repeated. intros H. apply in_flat_map in H as [kv [Hkv H]]. exists kv. split; [exact Hkv|].
  destruct (snd kv) as [|v1 [|v2 vs]] eqn:E.
  - destruct H as [H|[]]. subst it. rewrite E. split; [reflexivity|intros v []].
  - destruct H as [H|[]]. subst it. rewrite E. split; [reflexivity|auto].
  - apply in_map_iff in H as [v [Ev Hv]]. subst it. cbn. split; [reflexivity|]. intros v' [E'|[]]. subst v'. exact Hv.
Qed.

(* no tab, LF or CR in a printed GFF3-style attribute column *)
Theorem l_reconstruct_clean D m ko sv c : gff3_style D = true -> mapping_ok m = true ->
  In c (reconstruct to_quote m D ko sv) -> ~ ctl c.
Proof.
  intros HD Hm Hin. apply mapping_ok_spec in Hm as [_ Hv].
  unfold gff3_style, seps_ok in HD.
  apply andb_prop in HD as [HD Hkv]. apply andb_prop in HD as [HD Hfmt]. apply andb_prop in HD as [HD _].
  apply andb_prop in HD as [Hfs Hmv]. apply str_eqb_eq in Hfmt. apply str_eqb_eq in Hmv.
  destruct m as [|kv0 m0]; [destruct Hin|]. unfold reconstruct in Hin. set (m := kv0 :: m0) in *.
  rewrite Hfmt in Hin. change (str_eqb GFF3 GFF3) with true in Hin. cbv iota in Hin.
  set (qm := map (fun kv : str * list str => (fst kv, map (quote to_quote) (snd kv))) m) in *.
  (* every item that is printed has a property key and quoted values *)
  assert (Hitem : forall it, In it (if d_repeated D then expand_repeated qm else qm) ->
            prop_key (fst it) = true /\ forall v, In v (snd it) -> exists w, v = quote to_quote w).
  { intros it Hit.
    assert (Hq : forall kv, In kv qm -> prop_key (fst kv) = true /\ forall v, In v (snd kv) -> exists w, v = quote to_quote w).
    { intros kv Hkv'. unfold qm in Hkv'. apply in_map_iff in Hkv' as [kv' [E Hin']]. subst kv. cbn [fst snd].
      split; [apply (Hv kv' Hin')|]. intros v Hv'. apply in_map_iff in Hv' as [w [Ew _]]. exists w. symmetry. exact Ew. }
    destruct (d_repeated D); [|apply Hq; exact Hit].
    apply expand_In_vals in Hit as [kv [Hkv' [Ek Evs]]]. destruct (Hq kv Hkv') as [A B]. rewrite Ek. split; [exact A|].
    intros v Hv'. apply B. apply Evs. exact Hv'. }
  set (items0 := if d_repeated D then expand_repeated qm else qm) in *.
  set (items := if ko then stable_sort_by (fun kv : str * list str => order_key (d_order D) (fst kv)) items0 else items0) in *.
  assert (Hitem' : forall it, In it items -> prop_key (fst it) = true /\ forall v, In v (snd it) -> exists w, v = quote to_quote w).
  { intros it Hit. apply Hitem. unfold items in Hit. destruct ko; [apply (proj1 (stable_sort_In _ _ _)) in Hit|]; exact Hit. }
  assert (Hsep : forall x, In x [SEMI; SP; EQ; COMMA; DQ] -> ~ ctl x) by (intros x Hx; apply sep_chars_not_ctl; simpl in *; intuition).
  assert (Hkey : forall k x, prop_key k = true -> In x k -> ~ ctl x).
  { intros k x Hk Hx [E|[E|E]]; subst x; apply prop_key_rest in Hk as [Hk _]; rewrite forallb_forall in Hk; specialize (Hk _ Hx); vm_compute in Hk; discriminate. }
  assert (Hpart : forall it x, In it items -> In x (render_part D sv it) -> ~ ctl x).
  { intros it x Hit Hx. destruct (Hitem' it Hit) as [Hk Hq]. destruct it as [key val]. cbn [fst snd] in *.
    unfold render_part in Hx. destruct val as [|v0 vr].
    - rewrite Hfmt in Hx. change (str_eqb GFF3 GTF) with false in Hx. cbv iota in Hx. apply (Hkey key x Hk Hx).
    - set (val' := if sv then sort_strs (v0 :: vr) else v0 :: vr) in *.
      assert (Hval' : forall v, In v val' -> exists w, v = quote to_quote w).
      { intros v Hv'. apply Hq. unfold val' in Hv'. destruct sv; [apply (proj1 (sort_strs_In _ _)) in Hv'|]; exact Hv'. }
      rewrite Hmv in Hx.
      assert (J : forall y, In y (join [COMMA] val') -> ~ ctl y).
      { intros y Hy. apply In_join in Hy as [Hy|[p [Hp Hy]]]; [apply Hsep; destruct Hy as [Hy|[]]; subst; simpl; auto 10|].
        destruct (Hval' p Hp) as [w Ew]. subst p. intros Hc. revert Hy. apply l_quote_no_structural. unfold ctl in Hc. simpl. intuition. }
      destruct (join [COMMA] val') as [|j0 jr] eqn:Ej; [apply (Hkey key x Hk Hx)|]. rewrite <- Ej in *.
      assert (Hkvsep : forall y, In y (d_kvsep D) -> ~ ctl y).
      { intros y Hy. apply Hsep. apply orb_prop in Hkv as [K|K]; apply str_eqb_eq in K; rewrite K in Hy; destruct Hy as [Hy|[]]; subst; simpl; auto 10. }
      apply in_app_or in Hx as [Hx|Hx]; [apply (Hkey key x Hk Hx)|]. apply in_app_or in Hx as [Hx|Hx]; [apply Hkvsep; exact Hx|].
      destruct (d_quoted D); [|apply J; exact Hx].
      destruct Hx as [Hx|Hx]; [subst x; apply Hsep; simpl; auto 10|]. apply in_app_or in Hx as [Hx|[Hx|[]]]; [apply J; exact Hx|].
      subst x. apply Hsep. simpl. auto 10. }
  assert (Hfsep : forall y, In y (d_fsep D) -> ~ ctl y).
  { intros y Hy. apply Hsep. unfold fsep_ok in Hfs. apply orb_prop in Hfs as [K|K]; [apply orb_prop in K as [K|K]|]; apply str_eqb_eq in K; rewrite K in Hy; simpl in Hy; simpl; intuition. }
  assert (Hjoin : forall x, In x (join (d_fsep D) (map (render_part D sv) items)) -> ~ ctl x).
  { intros x Hx. apply In_join in Hx as [Hx|[p [Hp Hx]]]; [apply Hfsep; exact Hx|]. apply in_map_iff in Hp as [it [E Hit]]. subst p. eapply Hpart; eassumption. }
  destruct (d_trailing D); [|apply Hjoin; exact Hin]. apply in_app_or in Hin as [Hin|[Hin|[]]]; [apply Hjoin; exact Hin|]. subst c. apply Hsep. simpl. auto.
Qed.

Definition count_char (c : N) (s : str) : nat := length (filter (N.eqb c) s).

Lemma count_app c a b : count_char c (a ++ b) = (count_char c a + count_char c b)%nat.
Proof. unfold count_char. rewrite filter_app, app_length. reflexivity. Qed.

Lemma count_zero c s : ~ In c s -> count_char c s = 0%nat.
Proof.
  unfold count_char. induction s as [|x s IH]; intros H; [reflexivity|]. cbn [filter].
  destruct (N.eqb_spec c x) as [E|E]; [subst; exfalso; apply H; left; reflexivity|]. apply IH. intros Hin. apply H. right. exact Hin.
Qed.

Lemma count_join_tab : forall fields, fields <> [] -> (forall f, In f fields -> ~ In TAB f) ->
  count_char TAB (join [TAB] fields) = (length fields - 1)%nat.
Proof.
  induction fields as [|f fs IH]; intros Hne H; [congruence|]. destruct fs as [|f2 fs].
  - cbn [join length]. rewrite count_zero by (apply H; left; reflexivity). reflexivity.
  - rewrite join_cons by discriminate. rewrite !count_app. rewrite count_zero by (apply H; left; reflexivity).
    rewrite IH; [|discriminate|intros x Hx; apply H; right; exact Hx]. cbn. lia.
Qed.

(* the printed Feature is one line of exactly nine tab-separated columns plus the extra columns *)
Theorem l_single_line f : gff3_style (f_dialect f) = true -> mapping_ok (f_attrs f) = true ->
  (forall col, In col ([f_seqid f; f_source f; f_ftype f; f_score f; f_strand f; f_frame f] ++ f_extra f) -> forall c, In c col -> ~ ctl c) ->
  count_char TAB (feature_str to_quote f) = (8 + length (f_extra f))%nat /\
  forall c, In c (feature_str to_quote f) -> c <> 10 /\ c <> 13.
Proof.
  intros HD Hm Hcols.
  set (A := reconstruct to_quote (f_attrs f) (f_dialect f) (f_keep_order f) (f_sort_values f)).
  assert (HA : forall c, In c A -> ~ ctl c) by (intros c Hc; eapply l_reconstruct_clean; eassumption).
  set (fields := [f_seqid f; f_source f; f_ftype f; coord_str (f_start f); coord_str (f_end f); f_score f; f_strand f; f_frame f; A] ++ f_extra f).
  assert (E : feature_str to_quote f = join [TAB] fields).
  { unfold feature_str, fields. fold A. destruct (f_extra f) as [|e ex]; [rewrite app_nil_r; reflexivity|]. apply join_nested; discriminate. }
  assert (Hf : forall fld c, In fld fields -> In c fld -> ~ ctl c).
  { intros fld c Hfld Hc. unfold fields in Hfld. apply in_app_or in Hfld as [Hfld|Hfld].
    - cbn [In] in Hfld. destruct Hfld as [X|[X|[X|[X|[X|[X|[X|[X|[X|[]]]]]]]]]]; subst fld;
        try (eapply coord_str_clean; exact Hc); try (apply HA; exact Hc);
        (match type of Hc with In _ ?col => apply (Hcols col); [apply in_or_app; left; cbn [In]; tauto|exact Hc] end).
    - apply (Hcols fld ltac:(apply in_or_app; right; exact Hfld) c Hc). }
  rewrite E. split.
  - rewrite count_join_tab; [unfold fields; rewrite app_length; cbn [length]; lia|unfold fields; discriminate|].
    intros fld Hfld Hc. apply (Hf fld TAB Hfld Hc). left. reflexivity.
  - intros c Hc. apply In_join in Hc as [Hc|[fld [Hfld Hc]]].
    + destruct Hc as [Hc|[]]. subst c. split; discriminate.
    + pose proof (Hf fld c Hfld Hc) as Hn. unfold ctl in Hn. split; intros X; apply Hn; auto.
Qed.
