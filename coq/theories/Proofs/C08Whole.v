(* Proofs/C08Whole.v — print -> parse of the WHOLE line: feature_from_line (str f) = f, columns, coordinates, attributes and
   extra columns, for GFF3-style dialects (keep_order / sort_attribute_values off) *)
From GV Require Import Base.Prelude Base.PyStr Base.Utf8 Base.WordTable Model.DB Model.Parser Model.Grammar
  Proofs.SplitJoin Proofs.StrLemmas Proofs.IntStr Proofs.C05Proofs Proofs.C08Proofs Proofs.C08Round Proofs.C07Parse Proofs.C07Proofs
  Proofs.C08Line.
Open Scope N_scope.

Lemma split_join_tab : forall fields, fields <> [] -> (forall f, In f fields -> ~ In TAB f) -> split [TAB] (join [TAB] fields) = fields.
Proof.
  induction fields as [|f fs IH]; intros Hne H; [congruence|]. destruct fs as [|f2 fs].
  - cbn [join]. apply split1_nosep. apply H. left. reflexivity.
  - rewrite join_cons by discriminate. cbn [app]. rewrite split1_head by (apply H; left; reflexivity).
    rewrite IH; [reflexivity|discriminate|intros x Hx; apply H; right; exact Hx].
Qed.

Lemma rstrip_nl_clean s : (forall c, In c s -> c <> 10 /\ c <> 13) -> rstrip_nl s = s.
Proof.
  intros H. destruct s as [|x s']; [reflexivity|]. unfold rstrip_nl, rstrip_chars. apply rstrip_by_id; [discriminate|].
  set (s := x :: s') in *. assert (Hl : In (last s 0) s).
  { unfold s. clear. revert x. induction s' as [|y l IH]; intros x; [left; reflexivity|]. right. apply (IH y). }
  destruct (H _ Hl) as [A B]. apply mem_char_false. intros [X|[X|[]]]; congruence.
Qed.

Lemma coord_roundtrip c : coord_of (coord_str c) = Ok c.
Proof.
  destruct c as [z|]; [|reflexivity]. cbn [coord_str]. unfold coord_of.
  pose proof (int_str_roundtrip z) as R.
  destruct (str_eqb (str_of_int z) [DOT]) eqn:E1.
  { apply str_eqb_eq in E1. rewrite E1 in R. vm_compute in R. discriminate. }
  destruct (str_eqb (str_of_int z) []) eqn:E2.
  { apply str_eqb_eq in E2. rewrite E2 in R. vm_compute in R. discriminate. }
  cbn [orb]. rewrite R. reflexivity.
Qed.

Theorem l_line_roundtrip isw f : gff3_style (f_dialect f) = true -> mapping_ok (f_attrs f) = true ->
  f_keep_order f = false -> f_sort_values f = false ->
  (forall col, In col ([f_seqid f; f_source f; f_ftype f; f_score f; f_strand f; f_frame f] ++ f_extra f) -> forall c, In c col -> ~ ctl c) ->
  feature_from_line isw (feature_str to_quote f) (Some (f_dialect f)) false = Ok f.
Proof.
  intros HD Hm Hko Hsv Hcols.
  pose proof (l_single_line f HD Hm Hcols) as [_ Hnl].
  set (A := reconstruct to_quote (f_attrs f) (f_dialect f) (f_keep_order f) (f_sort_values f)).
  assert (HA : forall c, In c A -> ~ ctl c) by (intros c Hc; eapply l_reconstruct_clean; eassumption).
  set (fields := [f_seqid f; f_source f; f_ftype f; coord_str (f_start f); coord_str (f_end f); f_score f; f_strand f; f_frame f; A] ++ f_extra f).
  assert (E : feature_str to_quote f = join [TAB] fields).
  { unfold feature_str, fields. fold A. destruct (f_extra f) as [|e ex]; [rewrite app_nil_r; reflexivity|]. apply join_nested; discriminate. }
  assert (Hf : forall fld, In fld fields -> ~ In TAB fld).
  { intros fld Hfld Hc. assert (X : ~ ctl TAB); [|apply X; left; reflexivity].
    unfold fields in Hfld. apply in_app_or in Hfld as [Hfld|Hfld].
    - cbn [In] in Hfld. destruct Hfld as [X|[X|[X|[X|[X|[X|[X|[X|[X|[]]]]]]]]]]; subst fld;
        try (eapply coord_str_clean; exact Hc); try (apply HA; exact Hc);
        (match type of Hc with In _ ?col => apply (Hcols col); [apply in_or_app; left; cbn [In]; tauto|exact Hc] end).
    - apply (Hcols fld ltac:(apply in_or_app; right; exact Hfld) TAB Hc). }
  unfold feature_from_line. rewrite (rstrip_nl_clean _ Hnl), E, split_join_tab; [|unfold fields; discriminate|exact Hf].
  unfold feature_of_fields, fields, nth_str. cbn [app nth skipn].
  unfold A. rewrite Hko, Hsv. rewrite (l_roundtrip_gff3 (f_dialect f) (f_attrs f) HD Hm).
  rewrite !coord_roundtrip. destruct f; cbn in *. subst. reflexivity.
Qed.
