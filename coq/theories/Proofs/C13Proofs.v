(* Proofs/C13Proofs.v — peeking is lossless for lists and one-shot iterators; the transform is
   applied exactly once per item, in order, and exactly the false results are skipped. *)
From GV Require Import Base.Prelude Base.PyStr Model.Iter.

Section Peek.
  Variable A : Type.

  (* peek(n) returns the first n+1 items and leaves the contents as they were: for every n, including 0 and
     n >= the number of items, for re-iterable lists and for one-shot iterators alike *)
  Theorem l_peek_lossless (n : nat) (d : source A) :
    fst (feat_peek n d) = firstn (S n) (contents d) /\ contents (snd (feat_peek n d)) = contents d.
  Proof.
    destruct d as [l|l]; cbn [feat_peek fst snd contents]; split; try reflexivity. apply firstn_skipn.
  Qed.

  (* the kind of source does not matter for what is seen afterwards *)
  Theorem l_forms_equal (n m : nat) (l : list A) :
    contents (snd (feat_peek n (SList l))) = contents (snd (feat_peek m (SIter l))).
  Proof. cbn [feat_peek snd contents]. rewrite firstn_skipn. reflexivity. Qed.

  (* peeking twice (DataIterator handed to create_db, which constructs another DataIterator) is still lossless *)
  Theorem l_peek_twice (n m : nat) (d : source A) : contents (snd (feat_peek m (snd (feat_peek n d)))) = contents d.
  Proof.
    destruct (l_peek_lossless m (snd (feat_peek n d))) as [_ E]. rewrite E. apply l_peek_lossless.
  Qed.
End Peek.

Section Transform.
  Variables A B St : Type.
  Variable t : St -> A -> St * option B.

  (* the state after iterating = the fold of the transform over ALL items in order: one call each *)
  Theorem l_transform_calls : forall l s, fst (iterate t s l) = fold_left (fun s x => fst (t s x)) l s.
  Proof.
    induction l as [|x l IH]; intros s; [reflexivity|]. cbn [iterate fold_left].
    destruct (t s x) as [s1 r] eqn:E. specialize (IH s1). destruct (iterate t s1 l) as [s2 out]. cbn [fst] in *. exact IH.
  Qed.

  (* the output = the non-false results, in order *)
  Fixpoint results (s : St) (l : list A) : list (option B) :=
    match l with [] => [] | x :: l' => snd (t s x) :: results (fst (t s x)) l' end.

  Theorem l_transform_output : forall l s,
    snd (iterate t s l) = flat_map (fun r => match r with Some y => [y] | None => [] end) (results s l).
  Proof.
    induction l as [|x l IH]; intros s; [reflexivity|]. cbn [iterate results flat_map].
    destruct (t s x) as [s1 r] eqn:E. cbn [fst snd]. specialize (IH s1). destruct (iterate t s1 l) as [s2 out]. cbn [snd] in *.
    destruct r; rewrite IH; reflexivity.
  Qed.

  Theorem l_transform_once : forall l s, length (results s l) = length l.
  Proof. induction l as [|x l IH]; intros s; [reflexivity|]. cbn. f_equal. apply IH. Qed.
End Transform.

(* a stateless, always-keeping transform (or none) yields every item *)
Theorem l_identity_transform {A} (l : list A) : snd (iterate (fun (s : unit) x => (s, Some x)) tt l) = l.
Proof. induction l as [|x l IH]; [reflexivity|]. cbn [iterate]. destruct (iterate _ tt l) as [s out]. cbn in *. rewrite IH. reflexivity. Qed.

(* inspect(): the count is the number iterated, bounded by limit *)
Theorem l_inspect_count {A} (limit : option nat) (l : list A) :
  length (limited limit l) = match limit with Some (S n) => Nat.min (S n) (length l) | _ => length l end.
Proof. destruct limit as [[|n]|]; try reflexivity. unfold limited. apply firstn_length. Qed.
