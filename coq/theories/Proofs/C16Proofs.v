(* Proofs/C16Proofs.v — merge(): outputs partition the inputs in order (any criteria); a feature
   joins the run exactly when all criteria accept; merged outputs span min start .. max end;
   fresh ids are pairwise distinct; with the default criteria on a start-ordered single class
   the outputs are separated by at least one uncovered base and every output is covered. *)
From GV Require Import Proofs.GenCritEquiv Base.Prelude Base.PyStr Model.Bins Model.DB Model.Parser Model.Query Model.Import Model.Merge
  Gen.GenLib Gen.GenCriteria Proofs.C04Proofs.
From Coq Require Import ZifyBool.
Open Scope Z_scope.

Definition pend (st : mstate) : list minput :=
  match st with SNone => [] | SUnchecked c => [c] | SRun1 c => [c] | SRunN _ _ _ ch => ch end.

Lemma mstep_members cs st a f : let '((st', _), out) := mstep cs (st, a) f in
  flat_map members out ++ pend st' = pend st ++ [f].
Proof.
  unfold mstep. destruct st as [|c|c|id acc fr ch]; cbn [pend].
  - destruct (accept cs (mi_v f) (mi_v f) 0); reflexivity.
  - destruct (accept cs (mi_v c) (mi_v c) 0); [|reflexivity].
    destruct (accept cs (mi_v c) (mi_v f) 1); [destruct (auto_incr _ a)|]; reflexivity.
  - destruct (accept cs (mi_v c) (mi_v f) 1); [destruct (auto_incr _ a)|]; reflexivity.
  - destruct (accept cs acc (mi_v f) (length ch)); cbn; [reflexivity|rewrite app_nil_r; reflexivity].
Qed.

Lemma mfinish_members st : flat_map members (mfinish st) = pend st.
Proof. destruct st; cbn; rewrite ?app_nil_r; reflexivity. Qed.

Lemma mrun_members cs : forall fs st a, flat_map members (fst (mrun cs fs (st, a))) = pend st ++ fs.
Proof.
  induction fs as [|f fs IH]; intros st a.
  - cbn. rewrite app_nil_r. apply mfinish_members.
  - cbn [mrun]. pose proof (mstep_members cs st a f) as M.
    destruct (mstep cs (st, a) f) as [[st' a'] out]. specialize (IH st' a').
    destruct (mrun cs fs (st', a')) as [rest a'']. cbn [fst] in *.
    rewrite flat_map_app, IH, app_assoc, M, <- app_assoc. reflexivity.
Qed.

(* every input is yielded unchanged or is a child of exactly one merged output, in order *)
Theorem l_partition cs fs a : flat_map members (fst (merge cs fs a)) = fs.
Proof. unfold merge. rewrite mrun_members. reflexivity. Qed.

(* a feature joins the current run exactly when every criterion accepts (run so far, feature) *)
Theorem l_join_rule cs id acc fr ch a f :
  mstep cs (SRunN id acc fr ch, a) f =
  if accept cs acc (mi_v f) (length ch)
  then ((SRunN id (extend acc (mi_v f)) (extend_frame fr f) (ch ++ [f]), a), [])
  else ((SUnchecked f, a), [OMerged id acc fr ch]).
Proof. reflexivity. Qed.

(* ---------- extents ---------- *)
Definition hull (acc : mfeat) (ch : list minput) : Prop :=
  (forall c, In c ch -> m_start acc <= m_start (mi_v c) /\ m_end (mi_v c) <= m_end acc) /\
  (exists c, In c ch /\ m_start (mi_v c) = m_start acc) /\ (exists c, In c ch /\ m_end (mi_v c) = m_end acc).

Lemma hull_extend acc ch f : hull acc ch -> hull (extend acc (mi_v f)) (ch ++ [f]).
Proof.
  intros [H1 [[cs0 [Hs1 Hs2]] [ce [He1 He2]]]]. unfold hull, extend. cbn [m_start m_end]. split; [|split].
  - intros c Hc. apply in_app_or in Hc as [Hc|[Hc|[]]].
    + destruct (H1 c Hc). destruct (m_start (mi_v f) <? m_start acc) eqn:A; destruct (m_end acc <? m_end (mi_v f)) eqn:B; lia.
    + subst c. destruct (m_start (mi_v f) <? m_start acc) eqn:A; destruct (m_end acc <? m_end (mi_v f)) eqn:B; lia.
  - destruct (m_start (mi_v f) <? m_start acc) eqn:A.
    + exists f. split; [apply in_or_app; right; left; reflexivity|reflexivity].
    + exists cs0. split; [apply in_or_app; left; exact Hs1|exact Hs2].
  - destruct (m_end acc <? m_end (mi_v f)) eqn:B.
    + exists f. split; [apply in_or_app; right; left; reflexivity|reflexivity].
    + exists ce. split; [apply in_or_app; left; exact He1|exact He2].
Qed.

Lemma hull_pair c f : hull (extend (mi_v c) (mi_v f)) [c; f].
Proof.
  apply (hull_extend (mi_v c) [c] f). split; [|split].
  - intros x [E|[]]. subst. lia.
  - exists c. split; [left; reflexivity|reflexivity].
  - exists c. split; [left; reflexivity|reflexivity].
Qed.

Definition st_hull (st : mstate) : Prop := match st with SRunN _ acc _ ch => hull acc ch | _ => True end.
Definition out_hull (o : mout) : Prop := match o with OMerged _ acc _ ch => hull acc ch | OSingle _ => True end.

Lemma mstep_hull cs st a f : st_hull st -> let '((st', _), out) := mstep cs (st, a) f in
  st_hull st' /\ Forall out_hull out.
Proof.
  intros H. unfold mstep. destruct st as [|c|c|id acc fr ch]; cbn [st_hull] in *.
  - destruct (accept cs (mi_v f) (mi_v f) 0); cbn; auto.
  - destruct (accept cs (mi_v c) (mi_v c) 0); [|cbn; auto].
    destruct (accept cs (mi_v c) (mi_v f) 1); [destruct (auto_incr _ a); cbn; split; [apply hull_pair|constructor]|cbn; auto].
  - destruct (accept cs (mi_v c) (mi_v f) 1); [destruct (auto_incr _ a); cbn; split; [apply hull_pair|constructor]|cbn; auto].
  - destruct (accept cs acc (mi_v f) (length ch)); cbn; [split; [apply hull_extend; exact H|constructor]|].
    split; [exact I|constructor; [exact H|constructor]].
Qed.

Lemma mrun_hull cs : forall fs st a, st_hull st -> Forall out_hull (fst (mrun cs fs (st, a))).
Proof.
  induction fs as [|f fs IH]; intros st a H.
  - cbn. destruct st; cbn; repeat (constructor; try exact H; try exact I).
  - cbn [mrun]. pose proof (mstep_hull cs st a f H) as M.
    destruct (mstep cs (st, a) f) as [[st' a'] out]. destruct M as [M1 M2]. specialize (IH st' a' M1).
    destruct (mrun cs fs (st', a')) as [rest a'']. cbn [fst] in *. apply Forall_app. auto.
Qed.

(* merged outputs span exactly min start .. max end of their children *)
Theorem l_hull cs fs a id acc fr ch : In (OMerged id acc fr ch) (fst (merge cs fs a)) -> hull acc ch.
Proof.
  intros H. pose proof (mrun_hull cs fs SNone a I) as F. rewrite Forall_forall in F. exact (F _ H).
Qed.

(* ---------- fresh ids ---------- *)
Definition nonneg (a : counters) : Prop := forall k, 0 <= auto_get k a.
(* ids handed out so far: each is <base>_<n> with 1 <= n <= the base's counter *)
Definition issued (a : counters) (id : str) : Prop := exists b n, id = autoid b n /\ 1 <= n <= auto_get b a.

Lemma auto_incr_spec k a : nonneg a ->
  let '(nid, a') := auto_incr k a in
  nonneg a' /\ ~ issued a nid /\ issued a' nid /\ forall id, issued a id -> issued a' id.
Proof.
  intros Hn. unfold auto_incr. split; [|split; [|split]].
  - intros k'. destruct (str_eqb k k') eqn:E.
    + apply str_eqb_eq in E. subst. rewrite auto_get_set_same. specialize (Hn k'). lia.
    + apply str_eqb_neq in E. rewrite auto_get_set_other by exact E. apply Hn.
  - intros [b [n [E [L1 L2]]]]. apply l_autoid_injective in E as [E1 E2]; [|specialize (Hn k); lia|lia]. subst. lia.
  - exists k, (auto_get k a + 1). split; [reflexivity|]. rewrite auto_get_set_same. specialize (Hn k). lia.
  - intros id [b [n [E [L1 L2]]]]. exists b, n. split; [exact E|]. destruct (str_eqb k b) eqn:Eb.
    + apply str_eqb_eq in Eb. subst. rewrite auto_get_set_same. lia.
    + apply str_eqb_neq in Eb. rewrite auto_get_set_other by exact Eb. lia.
Qed.

Lemma NoDup_app_intro {A} (l1 l2 : list A) : NoDup l1 -> NoDup l2 -> (forall x, In x l1 -> ~ In x l2) -> NoDup (l1 ++ l2).
Proof.
  induction 1 as [|x l Hx Hnd IH]; intros H2 D; [exact H2|]. simpl. constructor.
  - intro H. apply in_app_or in H as [H|H]; [contradiction|]. apply (D x); [left; reflexivity|exact H].
  - apply IH; [exact H2|]. intros y Hy. apply D. right. exact Hy.
Qed.

Definition merged_ids (outs : list mout) : list str :=
  flat_map (fun o => match o with OMerged id _ _ _ => [id] | OSingle _ => [] end) outs.
Lemma merged_ids_app a b : merged_ids (a ++ b) = merged_ids a ++ merged_ids b.
Proof. unfold merged_ids. apply flat_map_app. Qed.

Definition st_ids (st : mstate) : list str := match st with SRunN id _ _ _ => [id] | _ => [] end.

Lemma mstep_ids cs st a f : nonneg a -> (forall id, In id (st_ids st) -> issued a id) ->
  let '((st', a'), out) := mstep cs (st, a) f in
  nonneg a' /\ (forall id, issued a id -> issued a' id) /\
  (forall id, In id (merged_ids out ++ st_ids st') -> issued a' id) /\
  (* what leaves the state is what was in it; a new id in the state was not issued before *)
  merged_ids out = (if match st' with SRunN _ _ _ _ => match st with SRunN _ _ _ _ => true | _ => false end | _ => false end
                    then [] else st_ids st) /\
  (forall id, In id (st_ids st') -> In id (st_ids st) \/ ~ issued a id).
Proof.
  intros Hn Hst. unfold mstep.
  assert (R1 : forall c, let '((st', a'), out) :=
              (if accept cs (mi_v c) (mi_v f) 1
               then let '(nid, a') := auto_incr (m_ftype (mi_v c)) a in
                    ((SRunN nid (extend (mi_v c) (mi_v f)) (extend_frame (mi_frame c) f) [c; f], a'), [])
               else ((SUnchecked f, a), [OSingle c])) in
            nonneg a' /\ (forall id, issued a id -> issued a' id) /\
            (forall id, In id (merged_ids out ++ st_ids st') -> issued a' id) /\
            merged_ids out = [] /\ (forall id, In id (st_ids st') -> ~ issued a id)).
  { intros c. destruct (accept cs (mi_v c) (mi_v f) 1).
    - pose proof (auto_incr_spec (m_ftype (mi_v c)) a Hn) as S. destruct (auto_incr (m_ftype (mi_v c)) a) as [nid a'].
      destruct S as [S1 [S2 [S3 S4]]]. repeat split; auto.
      + intros id [E|[]]. subst. exact S3.
      + intros id [E|[]]. subst. exact S2.
    - repeat split; auto; intros id []. }
  destruct st as [|c|c|id0 acc fr ch]; cbn [st_ids] in *.
  - destruct (accept cs (mi_v f) (mi_v f) 0); cbn; repeat split; auto; intros id [].
  - destruct (accept cs (mi_v c) (mi_v c) 0).
    + specialize (R1 c). destruct (if accept cs (mi_v c) (mi_v f) 1 then _ else _) as [[st' a'] out].
      destruct R1 as [A [B [C [D E]]]]. repeat split; auto. rewrite D. destruct st'; reflexivity.
    + cbn. repeat split; auto; intros id [].
  - specialize (R1 c). destruct (if accept cs (mi_v c) (mi_v f) 1 then _ else _) as [[st' a'] out].
    destruct R1 as [A [B [C [D E]]]]. repeat split; auto. rewrite D. destruct st'; reflexivity.
  - destruct (accept cs acc (mi_v f) (length ch)); cbn; repeat split; auto;
      try (intros id [E|[]]; subst; apply Hst; left; reflexivity); try (intros id []); try (intros id [E|[]]; left; left; exact E).
Qed.

Lemma mrun_ids cs : forall fs st a, nonneg a -> (forall id, In id (st_ids st) -> issued a id) ->
  NoDup (merged_ids (fst (mrun cs fs (st, a)))) /\
  forall id, In id (merged_ids (fst (mrun cs fs (st, a)))) -> In id (st_ids st) \/ ~ issued a id.
Proof.
  induction fs as [|f fs IH]; intros st a Hn Hst.
  - cbn. destruct st; cbn; split; try (repeat constructor; fail); try (intros id []); auto;
      try (constructor; [intros []|constructor]); try (intros id [E|[]]; left; left; exact E).
  - cbn [mrun]. pose proof (mstep_ids cs st a f Hn Hst) as M.
    destruct (mstep cs (st, a) f) as [[st' a'] out]. destruct M as [M1 [M2 [M3 [M4 M5]]]].
    assert (Hst' : forall id, In id (st_ids st') -> issued a' id) by (intros id Hid; apply M3; apply in_or_app; right; exact Hid).
    destruct (IH st' a' M1 Hst') as [N1 N2].
    destruct (mrun cs fs (st', a')) as [rest a'']. cbn [fst] in *.
    rewrite merged_ids_app.
    assert (Disj : forall id, In id (merged_ids out) -> ~ In id (merged_ids rest)).
    { intros id Ho Hr. destruct (N2 id Hr) as [Hs|Hs].
      - (* id still in the state after the step: then nothing left the state *)
        rewrite M4 in Ho. destruct st' as [| | |id' acc' fr' ch']; try contradiction.
        destruct st as [| | |id0 acc0 fr0 ch0]; try contradiction.
      - apply Hs. apply M3. apply in_or_app. left. exact Ho. }
    split.
    + apply NoDup_app_intro; [|exact N1|exact Disj].
      rewrite M4. destruct (match st' with SRunN _ _ _ _ => _ | _ => false end); [constructor|].
      destruct st; cbn; repeat constructor; auto.
    + intros id Hid. apply in_app_or in Hid as [Hid|Hid].
      * left. rewrite M4 in Hid. destruct (match st' with SRunN _ _ _ _ => _ | _ => false end); [contradiction|exact Hid].
      * destruct (N2 id Hid) as [Hs|Hs]; [|right; intro X; apply Hs; apply M2; exact X].
        destruct (M5 id Hs); auto.
Qed.

Theorem l_fresh_ids cs fs a : nonneg a ->
  NoDup (merged_ids (fst (merge cs fs a))) /\ forall id, In id (merged_ids (fst (merge cs fs a))) -> ~ issued a id.
Proof.
  intros Hn. destruct (mrun_ids cs fs SNone a Hn) as [A B]; [intros id []|]. split; [exact A|].
  intros id Hid. destruct (B id Hid) as [[]|H]. exact H.
Qed.

(* ---------- default criteria on one class: maximal runs ---------- *)
Require Import GV.Proofs.SplitJoin.
Open Scope Z_scope.

Section OneClass.
  Variables (sK tK fK : str).
  Hypothesis HsK : ~ In COMMAc sK.

  Definition cls (v : mfeat) : Prop := m_seqid v = sK /\ m_strand v = tK /\ m_ftype v = fK.
  Definition okf (f : minput) : Prop := cls (mi_v f) /\ m_start (mi_v f) <= m_end (mi_v f).

  Lemma accept_default acc f n : cls acc -> cls f ->
    accept default_criteria acc f n = (m_start acc <=? m_start f) && (m_start f <=? m_end acc + 1).
  Proof.
    intros [A1 [A2 A3]] [B1 [B2 B3]]. unfold accept, default_criteria. cbn [forallb crit_eval].
    rewrite gen_seqid_spec, gen_strand_spec, gen_feature_type_spec, gen_ov_end_spec.
    rewrite A1, A2, A3, B1, B2, B3, !str_eqb_refl. cbn [andb]. rewrite !andb_true_r. reflexivity.
  Qed.

  Lemma extend_cls acc f : cls acc -> cls f -> cls (extend acc f) /\
    m_start (extend acc f) = Z.min (m_start acc) (m_start f) /\ m_end (extend acc f) = Z.max (m_end acc) (m_end f).
  Proof.
    intros [A1 [A2 A3]] [B1 [B2 B3]]. unfold extend, cls. cbn [m_seqid m_strand m_ftype m_start m_end].
    rewrite A1, A2, A3, B1, B2, B3, !str_eqb_refl. rewrite (split1_nosep COMMAc sK HsK). cbn [mem_str]. rewrite str_eqb_refl.
    cbn [orb]. repeat split; [destruct (m_start f <? m_start acc) eqn:E; lia|destruct (m_end acc <? m_end f) eqn:E; lia].
  Qed.

  Definition covered (v : mfeat) (ch : list minput) : Prop :=
    forall p, m_start v <= p <= m_end v -> exists c, In c ch /\ m_start (mi_v c) <= p <= m_end (mi_v c).
  Definition out_covered (o : mout) : Prop := covered (out_view o) (members o).

  Fixpoint sep (outs : list mout) : Prop :=
    match outs with
    | o1 :: ((o2 :: _) as l) => m_end (out_view o1) + 1 < m_start (out_view o2) /\ sep l
    | _ => True
    end.

  Fixpoint sorted_from (lo : Z) (fs : list minput) : Prop :=
    match fs with [] => True | f :: l => lo <= m_start (mi_v f) /\ sorted_from (m_start (mi_v f)) l end.

  Lemma sorted_from_weaken lo lo' fs : lo' <= lo -> sorted_from lo fs -> sorted_from lo' fs.
  Proof. destruct fs; simpl; [auto|]. intros H [A B]. split; [lia|exact B]. Qed.

  (* the pending run as a view, if any *)
  Definition pview (st : mstate) : option mfeat :=
    match st with SNone => None | SUnchecked c => Some (mi_v c) | SRun1 c => Some (mi_v c) | SRunN _ acc _ _ => Some acc end.
  Definition st_ok (st : mstate) : Prop :=
    match st with
    | SNone => True
    | SUnchecked c => okf c
    | SRun1 c => okf c
    | SRunN _ acc _ ch => cls acc /\ m_start acc <= m_end acc /\ covered acc ch
    end.

  Definition first_starts_at (outs : list mout) (v : option mfeat) : Prop :=
    match v with
    | None => True
    | Some x => exists o rest, outs = o :: rest /\ m_start (out_view o) = m_start x
    end.

  Lemma covered_single c : covered (mi_v c) [c].
  Proof. intros p Hp. exists c. split; [left; reflexivity|exact Hp]. Qed.

  Lemma covered_extend acc ch f : covered acc ch -> cls acc -> cls (mi_v f) ->
    m_start acc <= m_start (mi_v f) <= m_end acc + 1 -> covered (extend acc (mi_v f)) (ch ++ [f]).
  Proof.
    intros Hc A B Hr p Hp. destruct (extend_cls acc (mi_v f) A B) as [_ [E1 E2]]. rewrite E1, E2 in Hp.
    destruct (Z_le_gt_dec p (m_end acc)) as [L|G].
    - destruct (Hc p) as [c [Hin Hcp]]; [lia|]. exists c. split; [apply in_or_app; left; exact Hin|exact Hcp].
    - exists f. split; [apply in_or_app; right; left; reflexivity|lia].
  Qed.

  Lemma sep_cons o outs : (match outs with o2 :: _ => m_end (out_view o) + 1 < m_start (out_view o2) | [] => True end) ->
    sep outs -> sep (o :: outs).
  Proof. destruct outs; simpl; auto. Qed.

  Theorem mrun_runs : forall fs st a, st_ok st -> (forall f, In f fs -> okf f) ->
    (match pview st with Some v => sorted_from (m_start v) fs | None => match fs with [] => True | f :: _ => sorted_from (m_start (mi_v f)) fs end end) ->
    let outs := fst (mrun default_criteria fs (st, a)) in
    sep outs /\ Forall out_covered outs /\ first_starts_at outs (pview st).
  Proof.
    induction fs as [|f fs IH]; intros st a Hst Hfs Hsorted.
    - cbn. destruct st as [|c|c|id acc fr ch]; cbn; repeat split; auto.
      + constructor; [apply covered_single|constructor].
      + eauto.
      + constructor; [apply covered_single|constructor].
      + eauto.
      + constructor; [apply Hst|constructor].
      + eauto.
    - assert (Hf : okf f) by (apply Hfs; left; reflexivity).
      assert (Hfs' : forall x, In x fs -> okf x) by (intros x Hx; apply Hfs; right; exact Hx).
      destruct Hf as [Hfc Hfle].
      assert (Refl : forall c, okf c -> accept default_criteria (mi_v c) (mi_v c) 0 = true).
      { intros c [C1 C2]. rewrite accept_default by assumption. lia. }
      (* the step out of a one-element run [c] *)
      assert (From1 : forall c, okf c -> sorted_from (m_start (mi_v c)) (f :: fs) ->
                let r := mrun default_criteria fs
                           (fst (if accept default_criteria (mi_v c) (mi_v f) 1
                                 then let '(nid, a') := auto_incr (m_ftype (mi_v c)) a in
                                      ((SRunN nid (extend (mi_v c) (mi_v f)) (extend_frame (mi_frame c) f) [c; f], a'), [])
                                 else ((SUnchecked f, a), [OSingle c]))) in
                let outs := snd (if accept default_criteria (mi_v c) (mi_v f) 1
                                 then let '(nid, a') := auto_incr (m_ftype (mi_v c)) a in
                                      ((SRunN nid (extend (mi_v c) (mi_v f)) (extend_frame (mi_frame c) f) [c; f], a'), @nil mout)
                                 else ((SUnchecked f, a), [OSingle c])) ++ fst r in
                sep outs /\ Forall out_covered outs /\ first_starts_at outs (Some (mi_v c))).
      { intros c [Cc Cle] [S1 S2]. rewrite accept_default by assumption.
        destruct ((m_start (mi_v c) <=? m_start (mi_v f)) && (m_start (mi_v f) <=? m_end (mi_v c) + 1)) eqn:E.
        - destruct (auto_incr (m_ftype (mi_v c)) a) as [nid a']. cbn [fst snd app].
          destruct (extend_cls (mi_v c) (mi_v f) Cc Hfc) as [X1 [X2 X3]].
          destruct (IH (SRunN nid (extend (mi_v c) (mi_v f)) (extend_frame (mi_frame c) f) [c; f]) a') as [A [B C]].
          + cbn [st_ok]. split; [exact X1|]. split; [rewrite X2, X3; lia|]. apply (covered_extend (mi_v c) [c] f); [apply covered_single|assumption|assumption|lia].
          + exact Hfs'.
          + cbn [pview]. rewrite X2. apply (sorted_from_weaken (m_start (mi_v f))); [lia|exact S2].
          + split; [exact A|]. split; [exact B|]. cbn [pview first_starts_at] in *. destruct C as [o [rest [Eo Es]]].
            exists o, rest. split; [exact Eo|]. rewrite Es, X2. lia.
        - cbn [fst snd app].
          destruct (IH (SUnchecked f) a) as [A [B C]]; [split; assumption|exact Hfs'|exact S2|].
          cbn [pview first_starts_at] in C. destruct C as [o [rest [Eo Es]]].
          split; [|split].
          + rewrite Eo. apply sep_cons; [|rewrite <- Eo; exact A]. cbn [out_view]. rewrite Es. lia.
          + constructor; [apply covered_single|exact B].
          + cbn. eauto. }
      destruct st as [|c|c|id acc fr ch]; cbn [mrun mstep].
      + (* SNone *) rewrite (Refl f) by (split; assumption).
        destruct (mrun default_criteria fs (SRun1 f, a)) as [rest a''] eqn:R. cbn [fst app].
        destruct (IH (SRun1 f) a) as [A [B C]]; [split; assumption|exact Hfs'| |].
        * cbn [pview] in *. destruct Hsorted as [_ S]. exact S.
        * rewrite R in *. cbn [fst] in *. split; [exact A|]. split; [exact B|exact I].
      + (* SUnchecked c *) rewrite (Refl c Hst). specialize (From1 c Hst Hsorted).
        destruct (if accept default_criteria (mi_v c) (mi_v f) 1 then _ else _) as [[st' a'] out]. cbn [fst snd] in From1.
        destruct (mrun default_criteria fs (st', a')) as [rest a'']. cbn [fst] in *. exact From1.
      + (* SRun1 c *) specialize (From1 c Hst Hsorted).
        destruct (if accept default_criteria (mi_v c) (mi_v f) 1 then _ else _) as [[st' a'] out]. cbn [fst snd] in From1.
        destruct (mrun default_criteria fs (st', a')) as [rest a'']. cbn [fst] in *. exact From1.
      + (* SRunN *) destruct Hst as [Ac [Ale Acov]]. cbn [pview] in Hsorted. destruct Hsorted as [S1 S2].
        rewrite accept_default by assumption.
        destruct ((m_start acc <=? m_start (mi_v f)) && (m_start (mi_v f) <=? m_end acc + 1)) eqn:E.
        * destruct (extend_cls acc (mi_v f) Ac Hfc) as [X1 [X2 X3]].
          destruct (IH (SRunN id (extend acc (mi_v f)) (extend_frame fr f) (ch ++ [f])) a) as [A [B C]].
          -- cbn [st_ok]. split; [exact X1|]. split; [rewrite X2, X3; lia|]. apply covered_extend; try assumption. lia.
          -- exact Hfs'.
          -- cbn [pview]. rewrite X2. apply (sorted_from_weaken (m_start (mi_v f))); [lia|exact S2].
          -- destruct (mrun default_criteria fs _) as [rest a'']. cbn [fst app] in *. split; [exact A|]. split; [exact B|].
             cbn [pview first_starts_at] in *. destruct C as [o [rest' [Eo Es]]]. exists o, rest'. split; [exact Eo|]. rewrite Es, X2. lia.
        * destruct (IH (SUnchecked f) a) as [A [B C]]; [split; assumption|exact Hfs'|exact S2|].
          destruct (mrun default_criteria fs (SUnchecked f, a)) as [rest a'']. cbn [fst app] in *.
          cbn [pview first_starts_at] in C. destruct C as [o [rest' [Eo Es]]].
          split; [|split].
          -- rewrite Eo. apply sep_cons; [|rewrite <- Eo; exact A]. cbn [out_view]. rewrite Es. lia.
          -- constructor; [exact Acov|exact B].
          -- cbn. eauto.
  Qed.

  (* start-ordered features of one class under the default criteria: consecutive outputs are
     separated by at least one uncovered base and every position of an output is covered by a
     member — the outputs' extents are the maximal runs of overlapping or adjacent intervals *)
  Theorem l_default_maximal_runs fs a : (forall f, In f fs -> okf f) ->
    (match fs with [] => True | f :: _ => sorted_from (m_start (mi_v f)) fs end) ->
    sep (fst (merge default_criteria fs a)) /\ Forall out_covered (fst (merge default_criteria fs a)).
  Proof.
    intros H S. destruct (mrun_runs fs SNone a I H S) as [A [B _]]. split; assumption.
  Qed.
End OneClass.
