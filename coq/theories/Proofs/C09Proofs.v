(* Proofs/C09Proofs.v — the dialect vote: the chosen value is the first value of maximal total
   weight; the key order is the first-seen union; consistent input recovers its dialect. *)
From GV Require Import Base.Prelude Base.PyStr Base.Utf8 Base.WordTable Model.DB Model.Parser Model.Grammar Model.Dialect.
Open Scope N_scope.

Section VoteProofs.
  Context {V : Type} (veqb : V -> V -> bool).
  Hypothesis veqb_eq : forall a b, veqb a b = true <-> a = b.

  Lemma veqb_refl a : veqb a a = true. Proof. apply veqb_eq. reflexivity. Qed.
  Lemma veqb_neq a b : veqb a b = false <-> a <> b.
  Proof.
    split; [intros H E; apply veqb_eq in E; congruence|]. intros H. destruct (veqb a b) eqn:E; [|reflexivity].
    apply veqb_eq in E. contradiction.
  Qed.

  (* total weight of a value over the observations, and first-seen de-duplication *)
  Fixpoint total (v : V) (obs : list (V * N)) : N :=
    match obs with [] => 0 | (v', w) :: r => (if veqb v v' then w else 0) + total v r end.
  Fixpoint memv (v : V) (l : list V) : bool := match l with [] => false | x :: r => veqb v x || memv v r end.
  Fixpoint dedupe_go (l : list V) (seen : list V) : list V :=
    match l with [] => [] | x :: r => if memv x seen then dedupe_go r seen else x :: dedupe_go r (seen ++ [x]) end.
  Definition dedupe (l : list V) : list V := dedupe_go l [].

  Lemma memv_In v l : memv v l = true <-> In v l.
  Proof.
    induction l as [|x l IH]; simpl; [split; [discriminate|contradiction]|].
    rewrite orb_true_iff, IH, veqb_eq. split; intros [H|H]; auto.
  Qed.

  Lemma memv_app v a b : memv v (a ++ b) = memv v a || memv v b.
  Proof. induction a as [|x a IH]; simpl; [reflexivity|]. rewrite IH. apply orb_assoc. Qed.

  (* the tally: values in first-seen order, each with its running total *)
  Definition tally_ok (t : list (V * N)) (obs : list (V * N)) : Prop :=
    map fst t = dedupe (map fst obs) /\ forall v w, In (v, w) t -> w = total v obs.

  Lemma tally_add_keys v w : forall t, map fst (tally_add veqb v w t) = if memv v (map fst t) then map fst t else map fst t ++ [v].
  Proof.
    induction t as [|[v' w'] t IH]; simpl; [reflexivity|]. destruct (veqb v v') eqn:E; simpl; [reflexivity|].
    rewrite IH. destruct (memv v (map fst t)); reflexivity.
  Qed.

  Lemma tally_add_in v w : forall t x y, NoDup (map fst t) -> In (x, y) (tally_add veqb v w t) ->
    (x = v /\ ((exists y0, In (x, y0) t /\ y = y0 + w) \/ (~ In x (map fst t) /\ y = w)))
    \/ (x <> v /\ In (x, y) t).
  Proof.
    induction t as [|[v' w'] t IH]; intros x y Hnd Hin.
    - simpl in Hin. destruct Hin as [Hin|[]]. inversion Hin; subst. left. split; [reflexivity|]. right. split; [intros []|reflexivity].
    - inversion Hnd as [|? ? Hv' Hnd']; subst. simpl in Hin. destruct (veqb v v') eqn:E.
      + apply veqb_eq in E. subst v'. destruct Hin as [Hin|Hin].
        * inversion Hin; subst. left. split; [reflexivity|]. left. exists w'. split; [left; reflexivity|reflexivity].
        * right. split; [|right; exact Hin]. intros Ex. subst x. apply Hv'. apply (in_map fst) in Hin. exact Hin.
      + apply veqb_neq in E. destruct Hin as [Hin|Hin].
        * inversion Hin; subst. right. split; [congruence|left; reflexivity].
        * apply IH in Hin; [|exact Hnd']. destruct Hin as [[Ex Hc]|[Ex Hin]].
          -- left. split; [exact Ex|]. destruct Hc as [[y0 [Hy0 Ey]]|[Hn Ey]].
             ++ left. exists y0. split; [right; exact Hy0|exact Ey].
             ++ right. split; [|exact Ey]. simpl. intros [A|A]; [subst; congruence|contradiction].
          -- right. split; [exact Ex|right; exact Hin].
  Qed.

  Lemma dedupe_go_app : forall l1 l2 seen, dedupe_go (l1 ++ l2) seen = dedupe_go l1 seen ++ dedupe_go l2 (seen ++ dedupe_go l1 seen).
  Proof.
    induction l1 as [|x l1 IH]; intros l2 seen; simpl; [rewrite app_nil_r; reflexivity|].
    destruct (memv x seen); [apply IH|]. simpl. rewrite IH. rewrite <- app_assoc. reflexivity.
  Qed.

  Lemma dedupe_go_seen_equiv : forall l s1 s2, (forall v, memv v s1 = memv v s2) -> dedupe_go l s1 = dedupe_go l s2.
  Proof.
    induction l as [|x l IH]; intros s1 s2 H; simpl; [reflexivity|]. rewrite (H x). destruct (memv x s2); [apply IH; exact H|].
    f_equal. apply IH. intros v. rewrite !memv_app, H. reflexivity.
  Qed.

  Lemma dedupe_go_mem : forall l seen v, memv v (seen ++ dedupe_go l seen) = memv v seen || memv v l.
  Proof.
    induction l as [|x l IH]; intros seen v; simpl; [rewrite app_nil_r, orb_false_r; reflexivity|].
    destruct (memv x seen) eqn:E.
    - rewrite IH. destruct (veqb v x) eqn:Ev; [|reflexivity]. apply veqb_eq in Ev. subst x. rewrite E. reflexivity.
    - change (seen ++ x :: dedupe_go l (seen ++ [x])) with (seen ++ [x] ++ dedupe_go l (seen ++ [x])). rewrite app_assoc.
      rewrite IH. rewrite memv_app. simpl. rewrite orb_false_r. rewrite orb_assoc. reflexivity.
  Qed.

  Lemma dedupe_snoc l v : dedupe (l ++ [v]) = if memv v (dedupe l) then dedupe l else dedupe l ++ [v].
  Proof.
    unfold dedupe. rewrite dedupe_go_app. simpl.
    assert (M : memv v ([] ++ dedupe_go l []) = memv v l) by (rewrite dedupe_go_mem; reflexivity).
    simpl in M. rewrite M. destruct (memv v l); [rewrite app_nil_r; reflexivity|reflexivity].
  Qed.

  Lemma dedupe_mem l v : memv v (dedupe l) = memv v l.
  Proof. unfold dedupe. pose proof (dedupe_go_mem l [] v) as H. simpl in H. exact H. Qed.

  Lemma dedupe_go_NoDup : forall l seen, NoDup (dedupe_go l seen) /\ forall v, In v (dedupe_go l seen) -> memv v seen = false.
  Proof.
    induction l as [|x l IH]; intros seen; simpl; [split; [constructor|intros v []]|].
    destruct (memv x seen) eqn:E; [apply IH|]. destruct (IH (seen ++ [x])) as [Hnd Hs]. split.
    - constructor; [|exact Hnd]. intros Hin. apply Hs in Hin. rewrite memv_app in Hin. simpl in Hin. rewrite veqb_refl in Hin.
      rewrite orb_true_r in Hin. discriminate.
    - intros v [Ev|Hin]; [subst; exact E|]. apply Hs in Hin. rewrite memv_app in Hin. apply orb_false_elim in Hin as [A _]. exact A.
  Qed.

  Lemma dedupe_NoDup l : NoDup (dedupe l).
  Proof. apply dedupe_go_NoDup. Qed.

  Lemma total_app v a b : total v (a ++ b) = total v a + total v b.
  Proof. induction a as [|[v' w] a IH]; simpl; [reflexivity|]. rewrite IH. lia. Qed.

  Lemma total_notin v obs : ~ In v (map fst obs) -> total v obs = 0.
  Proof.
    induction obs as [|[v' w] obs IH]; simpl; [reflexivity|]. intros H.
    assert (E : veqb v v' = false) by (apply veqb_neq; intros E; apply H; left; symmetry; exact E). rewrite E.
    rewrite IH; [reflexivity|]. intros Hin. apply H. right. exact Hin.
  Qed.

  Lemma tally_spec_go : forall obs2 obs1 t, tally_ok t obs1 ->
    tally_ok (fold_left (fun t o => tally_add veqb (fst o) (snd o) t) obs2 t) (obs1 ++ obs2).
  Proof.
    induction obs2 as [|[v w] obs2 IH]; intros obs1 t Hok; simpl; [rewrite app_nil_r; exact Hok|].
    replace (obs1 ++ (v, w) :: obs2) with ((obs1 ++ [(v, w)]) ++ obs2) by (rewrite <- app_assoc; reflexivity).
    apply IH. destruct Hok as [Hk Hw]. split.
    - rewrite tally_add_keys, map_app. simpl. rewrite dedupe_snoc. rewrite Hk. reflexivity.
    - intros x y Hin. assert (Hnd : NoDup (map fst t)) by (rewrite Hk; apply dedupe_NoDup).
      apply tally_add_in in Hin; [|exact Hnd]. rewrite total_app. simpl.
      destruct Hin as [[Ex Hc]|[Ex Hin]].
      + subst x. rewrite veqb_refl. destruct Hc as [[y0 [Hy0 Ey]]|[Hn Ey]].
        * rewrite (Hw _ _ Hy0) in Ey. lia.
        * rewrite total_notin; [lia|]. rewrite Hk in Hn. intros Hin. apply Hn. apply memv_In. rewrite dedupe_mem. apply memv_In. exact Hin.
      + assert (E : veqb x v = false) by (apply veqb_neq; exact Ex). rewrite E. rewrite (Hw _ _ Hin). lia.
  Qed.

  Lemma tally_spec obs : tally_ok (tally veqb obs) obs.
  Proof.
    unfold tally. apply (tally_spec_go obs [] []). split; [reflexivity|intros v w []].
  Qed.

  (* head of the stable descending sort = the first element of maximal weight *)
  Fixpoint best (t : list (V * N)) : option (V * N) :=
    match t with
    | [] => None
    | x :: t' => match best t' with None => Some x | Some y => if snd y <=? snd x then Some x else Some y end
    end.

  Lemma hd_insert_desc (x : V * N) (l : list (V * N)) : hd_error (insert_desc x l) =
    match hd_error l with None => Some x | Some y => if snd y <=? snd x then Some x else Some y end.
  Proof. destruct l as [|y l]; [reflexivity|]. simpl. destruct (snd y <=? snd x); reflexivity. Qed.

  Lemma hd_sort_desc (t : list (V * N)) : hd_error (sort_desc t) = best t.
  Proof. induction t as [|x t IH]; [reflexivity|]. simpl. rewrite hd_insert_desc, IH. reflexivity. Qed.

  Lemma best_spec : forall t x, best t = Some x ->
    exists t1 t2, t = t1 ++ x :: t2 /\ (forall y, In y t1 -> snd y < snd x) /\ (forall y, In y t2 -> snd y <= snd x).
  Proof.
    induction t as [|a t IH]; intros x H; [discriminate|]. simpl in H. destruct (best t) as [y|] eqn:E.
    - destruct (IH y eq_refl) as [t1 [t2 [Et [H1 H2]]]]. destruct (N.leb_spec (snd y) (snd a)) as [L|L]; inversion H; subst x.
      + exists [], t. split; [reflexivity|]. split; [intros z []|]. intros z Hz. rewrite Et in Hz.
        apply in_app_or in Hz as [Hz|[Hz|Hz]]; [specialize (H1 z Hz); lia|subst; exact L|specialize (H2 z Hz); lia].
      + exists (a :: t1), t2. split; [rewrite Et; reflexivity|]. split; [|exact H2]. intros z [Hz|Hz]; [subst; exact L|apply H1; exact Hz].
    - inversion H; subst. destruct t; [|simpl in E; destruct (best t); [destruct (snd p0 <=? snd p)|]; discriminate].
      exists [], []. split; [reflexivity|]. split; intros z [].
  Qed.

  (* THE VOTE: the chosen value has maximal total weight; every value first seen earlier has
     strictly less, every value first seen later at most as much *)
  Theorem vote_spec obs d : obs <> [] ->
    exists l1 l2, dedupe (map fst obs) = l1 ++ vote veqb obs d :: l2
      /\ (forall v, In v l1 -> total v obs < total (vote veqb obs d) obs)
      /\ (forall v, In v l2 -> total v obs <= total (vote veqb obs d) obs).
  Proof.
    intros Hne. destruct (tally_spec obs) as [Hk Hw]. unfold vote.
    pose proof (hd_sort_desc (tally veqb obs)) as Hh.
    destruct (sort_desc (tally veqb obs)) as [|[v w] s] eqn:Es.
    - simpl in Hh. destruct (tally veqb obs) as [|a t] eqn:Et.
      + exfalso. destruct obs as [|[v0 w0] obs]; [congruence|]. unfold dedupe in Hk. simpl in Hk. discriminate.
      + simpl in Hh. destruct (best t) as [y|]; [destruct (snd y <=? snd a)|]; discriminate.
    - simpl in Hh. symmetry in Hh. destruct (best_spec _ _ Hh) as [t1 [t2 [Et [H1 H2]]]].
      exists (map fst t1), (map fst t2). split; [rewrite <- Hk, Et, map_app; reflexivity|].
      assert (Wv : w = total v obs) by (apply Hw; rewrite Et; apply in_or_app; right; left; reflexivity).
      split; intros x Hx; apply in_map_iff in Hx as [[x' wx] [Ex Hin]]; simpl in Ex; subst x'.
      + specialize (H1 _ Hin). simpl in H1. rewrite <- Wv. rewrite <- (Hw x wx); [exact H1|]. rewrite Et. apply in_or_app. left. exact Hin.
      + specialize (H2 _ Hin). simpl in H2. rewrite <- Wv. rewrite <- (Hw x wx); [exact H2|]. rewrite Et. apply in_or_app. right. right. exact Hin.
  Qed.

  (* consistent input: if every observation that carries weight has value v, and some does, v wins *)
  Theorem vote_consistent obs d v : (forall x w, In (x, w) obs -> w <> 0 -> x = v) -> (exists w, In (v, w) obs /\ w <> 0) ->
    vote veqb obs d = v.
  Proof.
    intros Hall [w0 [Hin0 Hw0]].
    assert (Hne : obs <> []) by (destruct obs; [destruct Hin0|discriminate]).
    destruct (vote_spec obs d Hne) as [l1 [l2 [Ed [H1 H2]]]]. set (c := vote veqb obs d) in *.
    assert (Tz : forall x, x <> v -> total x obs = 0).
    { intros x Hx. clear - Hall Hx veqb_eq. induction obs as [|[x' w] obs IH]; [reflexivity|]. simpl.
      rewrite IH by (intros y wy Hy; apply Hall; right; exact Hy).
      destruct (veqb x x') eqn:E; [|reflexivity]. apply veqb_eq in E. subst x'.
      destruct (N.eq_dec w 0) as [Z|Z]; [lia|]. exfalso. apply Hx. apply (Hall x w); [left; reflexivity|exact Z]. }
    assert (Tv : total v obs <> 0).
    { clear - Hin0 Hw0 veqb_eq. induction obs as [|[x' w] obs IH]; [destruct Hin0|]. simpl. destruct Hin0 as [E|Hin].
      - inversion E; subst. rewrite veqb_refl. lia.
      - specialize (IH Hin). lia. }
    destruct (veqb c v) eqn:E; [apply veqb_eq; exact E|]. apply veqb_neq in E. exfalso.
    assert (Hv : In v (dedupe (map fst obs))).
    { apply memv_In. rewrite dedupe_mem. apply memv_In. apply (in_map fst) in Hin0. exact Hin0. }
    rewrite Ed in Hv. rewrite (Tz c E) in H1, H2.
    apply in_app_or in Hv as [Hv|[Hv|Hv]]; [specialize (H1 v Hv); lia|congruence|specialize (H2 v Hv); lia].
  Qed.
End VoteProofs.

(* ---------- key order ---------- *)
Lemma str_veqb : forall a b, str_eqb a b = true <-> a = b. Proof. exact str_eqb_eq. Qed.
Lemma bool_veqb : forall a b, Bool.eqb a b = true <-> a = b. Proof. intros a b. apply Bool.eqb_true_iff. Qed.

Lemma memv_mem_str v l : memv str_eqb v l = mem_str v l.
Proof. induction l as [|x l IH]; [reflexivity|]. cbn [memv mem_str]. f_equal; try exact IH. Qed.

Lemma add_keys_spec : forall ks acc, add_keys acc ks = acc ++ dedupe_go str_eqb ks acc.
Proof.
  induction ks as [|k ks IH]; intros acc; [unfold add_keys; simpl; rewrite app_nil_r; reflexivity|].
  unfold add_keys in *. cbn [fold_left dedupe_go]. rewrite (memv_mem_str k acc).
  destruct (mem_str k acc); [apply IH|]. rewrite IH. rewrite <- app_assoc. reflexivity.
Qed.

Lemma union_order_go : forall fs acc,
  fold_left (fun acc f => add_keys acc (v_keys f)) fs acc = acc ++ dedupe_go str_eqb (flat_map v_keys fs) acc.
Proof.
  induction fs as [|f fs IH]; intros acc; simpl; [rewrite app_nil_r; reflexivity|].
  rewrite IH, add_keys_spec. rewrite (dedupe_go_app str_eqb). rewrite <- app_assoc. reflexivity.
Qed.

Theorem l_union_order fs : union_order fs = dedupe str_eqb (flat_map v_keys fs).
Proof. unfold union_order, dedupe. rewrite union_order_go. reflexivity. Qed.

Theorem l_union_order_props fs : NoDup (union_order fs) /\ forall k, In k (union_order fs) <-> exists f, In f fs /\ In k (v_keys f).
Proof.
  rewrite l_union_order. split; [apply (dedupe_NoDup str_eqb str_veqb)|]. intros k.
  rewrite <- (memv_In str_eqb str_veqb), (dedupe_mem str_eqb str_veqb), (memv_In str_eqb str_veqb). rewrite in_flat_map. reflexivity.
Qed.

(* ---------- choose_dialect ---------- *)
Definition agrees {V} (field : dialect -> V) (fs : list voter) (v : V) : Prop :=
  (forall f, In f fs -> weight f <> 0 -> field (v_dialect f) = v) /\ (exists f, In f fs /\ weight f <> 0 /\ field (v_dialect f) = v).

Lemma agrees_vote {V} (veqb : V -> V -> bool) (H : forall a b, veqb a b = true <-> a = b) field fs v d :
  agrees field fs v -> vote veqb (obs_of field fs) d = v.
Proof.
  intros [Hall [f0 [Hin0 [Hw0 Hv0]]]]. apply (vote_consistent veqb H).
  - intros x w Hin Hw. unfold obs_of in Hin. apply in_map_iff in Hin as [f [E Hf]]. inversion E; subst. apply Hall; assumption.
  - exists (weight f0). split; [|exact Hw0]. unfold obs_of. apply in_map_iff. exists f0. rewrite Hv0. split; [reflexivity|exact Hin0].
Qed.

(* a window whose attribute-carrying lines agree on every dialect key gets exactly that dialect,
   with the first-seen key order *)
Theorem l_choose_consistent fs D : fs <> [] ->
  agrees d_leading fs (d_leading D) -> agrees d_trailing fs (d_trailing D) -> agrees d_quoted fs (d_quoted D) ->
  agrees d_fsep fs (d_fsep D) -> agrees d_kvsep fs (d_kvsep D) -> agrees d_mvsep fs (d_mvsep D) ->
  agrees d_fmt fs (d_fmt D) -> agrees d_repeated fs (d_repeated D) ->
  choose_dialect fs = mkDialect (d_leading D) (d_trailing D) (d_quoted D) (d_fsep D) (d_kvsep D) (d_mvsep D) (d_fmt D)
                                (d_repeated D) (dedupe str_eqb (flat_map v_keys fs)).
Proof.
  intros Hne A1 A2 A3 A4 A5 A6 A7 A8. destruct fs as [|f0 fs0]; [congruence|]. unfold choose_dialect.
  rewrite (agrees_vote Bool.eqb bool_veqb _ _ _ _ A1), (agrees_vote Bool.eqb bool_veqb _ _ _ _ A2),
    (agrees_vote Bool.eqb bool_veqb _ _ _ _ A3), (agrees_vote str_eqb str_veqb _ _ _ _ A4), (agrees_vote str_eqb str_veqb _ _ _ _ A5),
    (agrees_vote str_eqb str_veqb _ _ _ _ A6), (agrees_vote str_eqb str_veqb _ _ _ _ A7), (agrees_vote Bool.eqb bool_veqb _ _ _ _ A8).
  rewrite l_union_order. reflexivity.
Qed.

Theorem l_choose_empty : choose_dialect [] = default_dialect.
Proof. reflexivity. Qed.

Theorem l_supplied D n fs : data_iterator_dialect (Some D) n fs = D.
Proof. reflexivity. Qed.

Theorem l_window n fs : data_iterator_dialect None n fs = choose_dialect (firstn (S n) fs).
Proof. reflexivity. Qed.

Theorem l_route force D : route force D = Ok ImpGFF <-> (force = true \/ d_fmt D = GFF3).
Proof.
  unfold route. destruct force; simpl; [split; auto|]. destruct (str_eqb (d_fmt D) GFF3) eqn:E.
  - apply str_eqb_eq in E. split; auto.
  - apply str_eqb_neq in E. destruct (str_eqb (d_fmt D) GTF); split; try discriminate; intros [A|A]; congruence.
Qed.

Theorem l_route_gtf force D : route force D = Ok ImpGTF <-> (force = false /\ d_fmt D = GTF).
Proof.
  unfold route. destruct force; simpl; [split; [discriminate|intros [A _]; discriminate]|].
  destruct (str_eqb (d_fmt D) GFF3) eqn:E.
  - apply str_eqb_eq in E. split; [discriminate|]. intros [_ A]. rewrite A in E. discriminate.
  - destruct (str_eqb (d_fmt D) GTF) eqn:E2.
    + apply str_eqb_eq in E2. split; auto.
    + apply str_eqb_neq in E2. split; [discriminate|]. intros [_ A]. contradiction.
Qed.

(* ---------- a file written in one style ---------- *)
From GV Require Import Proofs.C07Parse Proofs.C07Proofs.

Section File.
  Variable isw : N -> bool.
  Hypothesis Hw : forall c, ascii_word c = true -> isw c = true.
  Hypothesis Heq : isw EQ = false.
  Hypothesis Hsp : isw SP = false.

  Definition line_voter (st : style) (a : attrs) : voter := voter_of_attr_string isw (render_attrs st a).

  Lemma line_voter_eq st a : wf_attrs st a = true -> line_voter st a = mkVoter (map fst a) (canon_dialect st a).
  Proof. intros H. unfold line_voter, voter_of_attr_string. rewrite (l_parse_attrs isw Hw Heq Hsp st a H). reflexivity. Qed.


  Lemma canon_fields st a : (2 <= nparts st a)%nat ->
    d_leading (canon_dialect st a) = false /\ d_trailing (canon_dialect st a) = st_trailing st /\
    d_quoted (canon_dialect st a) = style_quoted st /\ d_fsep (canon_dialect st a) = st_fsep st /\
    d_kvsep (canon_dialect st a) = style_kvsep st /\ d_mvsep (canon_dialect st a) = [COMMA] /\
    d_fmt (canon_dialect st a) = style_fmt st /\ d_repeated (canon_dialect st a) = (st_repeated st && multi a) /\
    a <> [].
  Proof.
    intros Hn. destruct a as [|kv0 a0]; [unfold nparts, style_items in Hn; destruct (st_repeated st); simpl in Hn; lia|].
    unfold canon_dialect, style_fmt, style_kvsep, style_quoted. cbn [d_leading d_trailing d_quoted d_fsep d_kvsep d_mvsep d_fmt d_repeated].
    assert (L : Nat.ltb 1 (nparts st (kv0 :: a0)) = true) by (apply Nat.ltb_lt; lia). rewrite L.
    repeat split; try (destruct (st_kv st); reflexivity). discriminate.
  Qed.

  Theorem l_file_consistent st (als : list attrs) : als <> [] ->
    (forall a, In a als -> wf_attrs st a = true /\ (2 <= nparts st a)%nat) ->
    let D := choose_dialect (map (line_voter st) als) in
    d_fmt D = style_fmt st /\ d_fsep D = st_fsep st /\ d_kvsep D = style_kvsep st /\ d_quoted D = style_quoted st /\
    d_trailing D = st_trailing st /\ d_leading D = false /\ d_mvsep D = [COMMA] /\
    d_order D = dedupe str_eqb (flat_map (map fst) als) /\
    (st_repeated st = false -> d_repeated D = false) /\
    ((forall a, In a als -> multi a = true) -> d_repeated D = st_repeated st).
  Proof.
    intros Hne Hall.
    assert (Hfs : map (line_voter st) als = map (fun a => mkVoter (map fst a) (canon_dialect st a)) als).
    { apply map_ext_in. intros a Ha. apply line_voter_eq. apply Hall. exact Ha. }
    rewrite Hfs. clear Hfs. set (fs := map (fun a => mkVoter (map fst a) (canon_dialect st a)) als).
    assert (Hfne : fs <> []) by (unfold fs; destruct als; [congruence|discriminate]).
    assert (Hag : forall {V} (field : dialect -> V) (v : V), (forall a, In a als -> field (canon_dialect st a) = v) -> agrees field fs v).
    { intros V field v Hv.
      assert (Hw0 : forall a, In a als -> weight (mkVoter (map fst a) (canon_dialect st a)) <> 0).
      { intros a Ha. destruct (Hall a Ha) as [_ Hn]. destruct (canon_fields st a Hn) as [_ [_ [_ [_ [_ [_ [_ [_ Hane]]]]]]]].
        unfold weight. cbn [v_keys]. rewrite map_length. destruct a; [congruence|simpl; lia]. }
      split.
      - intros f Hf _. unfold fs in Hf. apply in_map_iff in Hf as [a [E Ha]]. subst f. cbn [v_dialect]. apply Hv. exact Ha.
      - destruct als as [|a0 als0]; [congruence|].
        exists (mkVoter (map fst a0) (canon_dialect st a0)). assert (Ha0 : In a0 (a0 :: als0)) by (left; reflexivity).
        split; [unfold fs; apply in_map_iff; exists a0; split; [reflexivity|exact Ha0]|]. split; [apply Hw0; exact Ha0|]. cbn [v_dialect]. apply Hv. exact Ha0. }
    assert (Hproj : exists f0 fs0, fs = f0 :: fs0) by (destruct fs; [congruence|eauto]). destruct Hproj as [f0 [fs0 Efs]].
    unfold choose_dialect. rewrite Efs. rewrite <- Efs. cbn [d_leading d_trailing d_quoted d_fsep d_kvsep d_mvsep d_fmt d_repeated d_order].
    assert (F : forall a, In a als -> _) by (intros a Ha; exact (canon_fields st a (proj2 (Hall a Ha)))).
    repeat split.
    - apply (agrees_vote str_eqb str_veqb). apply Hag. intros a Ha. apply (F a Ha).
    - apply (agrees_vote str_eqb str_veqb). apply Hag. intros a Ha. apply (F a Ha).
    - apply (agrees_vote str_eqb str_veqb). apply Hag. intros a Ha. apply (F a Ha).
    - apply (agrees_vote Bool.eqb bool_veqb). apply Hag. intros a Ha. apply (F a Ha).
    - apply (agrees_vote Bool.eqb bool_veqb). apply Hag. intros a Ha. apply (F a Ha).
    - apply (agrees_vote Bool.eqb bool_veqb). apply Hag. intros a Ha. apply (F a Ha).
    - apply (agrees_vote str_eqb str_veqb). apply Hag. intros a Ha. apply (F a Ha).
    - rewrite l_union_order. unfold fs. f_equal. rewrite flat_map_concat_map, map_map. cbn [v_keys]. rewrite <- flat_map_concat_map. reflexivity.
    - intros Hr. apply (agrees_vote Bool.eqb bool_veqb). apply Hag. intros a Ha. destruct (F a Ha) as [_ [_ [_ [_ [_ [_ [_ [R _]]]]]]]]. rewrite R, Hr. reflexivity.
    - intros Hm. apply (agrees_vote Bool.eqb bool_veqb). apply Hag. intros a Ha. destruct (F a Ha) as [_ [_ [_ [_ [_ [_ [_ [R _]]]]]]]]. rewrite R, (Hm a Ha). apply andb_true_r.
  Qed.
End File.
