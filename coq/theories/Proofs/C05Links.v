(* Proofs/C05Links.v — "no Parent link is lost or invented": in every import step, under every strategy, the level-1
   rows of the relations table stay exactly the Parent values of the stored rows (each filed under the key its row is
   stored under). *)
From GV Require Import Base.Prelude Base.PyStr Model.Bins Model.DB Model.Parser Model.Import
  Proofs.C02Proofs Proofs.C04Proofs Proofs.C05Proofs.
Open Scope Z_scope.

Lemma links_of_app a b : links_of (a ++ b) = links_of a ++ links_of b.
Proof. unfold links_of. apply flat_map_app. Qed.

Lemma links_in x rows : In x (links_of rows) <-> exists r, In r rows /\ rel_child x = r_id r /\ rel_level x = 1 /\ In (rel_parent x) (parent_vals r).
Proof.
  unfold links_of. rewrite in_flat_map. split.
  - intros [r [Hr Hx]]. apply in_map_iff in Hx as [p [<- Hp]]. exists r. cbn. auto.
  - intros [r [Hr [Ec [El Hp]]]]. exists r. split; [exact Hr|]. apply in_map_iff. exists (rel_parent x). split; [|exact Hp].
    destruct x as [p c l]. cbn in *. subst. reflexivity.
Qed.

Notation raw_links f0 key :=
  (map (fun p => mkRel p key 1) match dget PARENT (r_attrs f0) with Some ps => ps | None => [] end).

Lemma parent_links_in x f0 key : In x (raw_links f0 key) <-> rel_child x = key /\ rel_level x = 1 /\ In (rel_parent x) (vals PARENT (r_attrs f0)).
Proof.
  unfold vals. rewrite in_map_iff. split.
  - intros [p [<- Hp]]. cbn. auto.
  - intros [Ec [El Hp]]. exists (rel_parent x). split; [|exact Hp]. destruct x as [p c l]. cbn in *. subst. reflexivity.
Qed.

Section Links.
  Variable call : nat -> row -> option str.
  Variables (force : list field) (spec : idspec).

  (* a row appended under [key] carrying f0's attributes, with f0's Parent links filed under [key] *)
  Lemma l1_append st key (r : row) f0 a d : l1_exact st -> r_id r = key -> r_attrs r = r_attrs f0 ->
    l1_exact (mkSt (s_rows st ++ [r]) (add_rels (s_rels st) (raw_links f0 key)) d a).
  Proof.
    intros Hi Ek Ea x Hl. cbn [s_rows s_rels]. rewrite add_rels_In, links_of_app, in_app_iff, (Hi x Hl). apply or_iff_compat_l.
    rewrite parent_links_in. unfold links_of. cbn [flat_map]. rewrite app_nil_r, in_map_iff. unfold parent_vals. rewrite Ea, Ek. split.
    - intros [Ec [_ Hp]]. exists (rel_parent x). split; [|exact Hp]. destruct x as [p c l]. cbn in *. subst. reflexivity.
    - intros [p [<- Hp]]. cbn. auto.
  Qed.

  Lemma step_links_nomerge strat st f0 st' : strat <> SMerge -> step_gff call strat force spec st f0 = Ok st' ->
    l1_exact st -> l1_exact st'.
  Proof.
    intros Hs H Hi. unfold step_gff, store in H.
    destruct (id_handler call spec f0 (s_auto st)) as [[id a]|]; [|discriminate].
    cbn [s_rows s_rels s_dups s_auto] in H. destruct (has_id id (s_rows st)) eqn:Hh.
    - destruct strat; cbn [do_merge] in H; try discriminate; try congruence.
      + (* warning *) inversion H; subst. exact Hi.
      + (* replace *)
        cbn [is_replace andb s_rows s_rels s_dups s_auto r_id set_bin set_id] in H. rewrite Hh in H. inversion H; subst st'. clear H.
        intros x Hl. cbn [s_rows s_rels]. rewrite add_rels_In, parent_links_in. rewrite !filter_In.
        assert (T : through_links id (s_rels st) x = false) by (unfold through_links; rewrite Hl; reflexivity).
        rewrite T. cbn [negb]. rewrite (Hi x Hl). rewrite !links_in. unfold update_id. split.
        * intros [[[[r [Hr [Ec [_ Hp]]]] Fc] _]|[Ec [_ Hp]]].
          -- exists r. split; [|auto]. apply in_map_iff. exists r. split; [|exact Hr].
             destruct (str_eqb (r_id r) id) eqn:E; [|reflexivity]. apply str_eqb_eq in E. rewrite <- Ec in E.
             rewrite E, str_eqb_refl, Hl in Fc. discriminate Fc.
          -- apply existsb_exists in Hh as [r0 [Hr0 E0]]. exists (set_bin (set_id id f0)). split.
             ++ apply in_map_iff. exists r0. split; [rewrite E0; reflexivity|exact Hr0].
             ++ cbn [r_id set_bin set_id]. unfold parent_vals. cbn [r_attrs set_bin set_id]. auto.
        * intros [r' [Hr' [Ec [_ Hp]]]]. apply in_map_iff in Hr' as [r [Er Hr]]. destruct (str_eqb (r_id r) id) eqn:E.
          -- subst r'. right. cbn [r_id set_bin set_id] in Ec. unfold parent_vals in Hp. cbn [r_attrs set_bin set_id] in Hp. auto.
          -- subst r'. left. split; [|reflexivity]. split; [exists r; auto|].
             rewrite Ec, E. reflexivity.
      + (* create_unique *)
        unfold create_unique in H. cbn [s_rows s_rels s_dups s_auto r_id set_bin set_id] in H.
        destruct (fresh_auto _ _ _ _) as [[nid a']|]; [|discriminate]. inversion H; subst st'. clear H.
        apply l1_append; [exact Hi|reflexivity|reflexivity].
    - inversion H; subst st'. clear H. rewrite Hh, andb_false_r.
      apply l1_append; [exact Hi|reflexivity|reflexivity].
  Qed.

  Lemma r_attrs_fold_setf (g : field -> str) : forall (fl : list field) r,
    r_attrs (fold_left (fun r fl => setf fl (g fl) r) fl r) = r_attrs r.
  Proof. induction fl as [|x fl IH]; intros r; cbn [fold_left]; [reflexivity|]. rewrite IH. destruct x; reflexivity. Qed.

  Lemma vals_in_unique k (m : attrs) v : NoDup (map fst m) -> (In v (vals k m) <-> exists vs, In (k, vs) m /\ In v vs).
  Proof.
    unfold vals. induction m as [|[k' vs'] m IH]; intros N; cbn [dget].
    - split; [intros []|intros [vs [[] _]]].
    - inversion N as [|? ? Hni N']; subst. destruct (str_eqb k k') eqn:E.
      + apply str_eqb_eq in E. subst k'. split.
        * intros H. exists vs'. split; [left; reflexivity|exact H].
        * intros [vs [[E|Hin] Hv]]; [inversion E; subst; exact Hv|]. exfalso. apply Hni. apply in_map_iff. exists (k, vs). auto.
      + rewrite (IH N'). split.
        * intros [vs [Hin Hv]]. exists vs. split; [right; exact Hin|exact Hv].
        * intros [vs [[E'|Hin] Hv]]; [inversion E'; subst; rewrite str_eqb_refl in E; discriminate|]. exists vs. auto.
  Qed.

  Lemma in_rows_unique rows r r' : NoDup (map r_id rows) -> In r rows -> In r' rows -> r_id r = r_id r' -> r = r'.
  Proof.
    induction rows as [|x rows IH]; intros N H H' E; [contradiction|]. cbn [map] in N. inversion N as [|? ? Hni N']; subst.
    destruct H as [<-|H]; destruct H' as [<-|H'].
    - reflexivity.
    - exfalso. apply Hni. rewrite E. apply in_map. exact H'.
    - exfalso. apply Hni. rewrite <- E. apply in_map. exact H.
    - apply IH; assumption.
  Qed.

  (* 'merge': a fresh <key>_n when no candidate agrees; otherwise the single agreeing candidate gets the union of the
     attribute values, and the newcomer's Parent links are filed under its key *)
  Lemma step_links_merge st f0 st' : step_gff call SMerge force spec st f0 = Ok st' ->
    NoDup (map r_id (s_rows st)) -> (forall r, In r (s_rows st) -> NoDup (map fst (r_attrs r))) ->
    (forall id f, (length (filter (same_checked force f) (candidates st id)) <= 1)%nat) ->
    l1_exact st -> l1_exact st'.
  Proof.
    intros H Nid Nk Hone Hi. unfold step_gff, store in H.
    destruct (id_handler call spec f0 (s_auto st)) as [[id a]|]; [|discriminate].
    cbn [s_rows s_rels s_dups s_auto] in H. destruct (has_id id (s_rows st)) eqn:Hh.
    - cbn [do_merge is_replace andb] in H. cbn [r_id set_bin set_id r_attrs] in H.
      change (candidates {| s_rows := s_rows st; s_rels := s_rels st; s_dups := s_dups st; s_auto := a |} id) with (candidates st id) in H.
      specialize (Hone id (set_bin (set_id id f0))).
      destruct (filter (same_checked force (set_bin (set_id id f0))) (candidates st id)) as [|target [|t2 rest]] eqn:Ef; cbn [length] in Hone; [| |lia].
      + cbn [rev] in H. unfold create_unique in H. cbn [s_rows s_rels s_dups s_auto r_id set_bin set_id] in H.
        destruct (fresh_auto _ _ _ _) as [[nid a']|]; [|discriminate]. inversion H; subst st'. clear H.
        apply l1_append; [exact Hi|reflexivity|reflexivity].
      + cbn [rev app] in H. inversion H; subst st'. clear H. cbn [s_rows s_rels s_dups s_auto].
        assert (Ht : In target (s_rows st)).
        { assert (X : In target (filter (same_checked force (set_bin (set_id id f0))) (candidates st id))) by (rewrite Ef; left; reflexivity).
          apply filter_In in X as [X _]. unfold candidates in X. apply filter_In in X as [X _]. exact X. }
        set (ma := merge_attrs (r_attrs f0) [target]).
        set (upd := fun r : row => fold_left (fun r fl => setf fl (merged_field fl (set_bin (set_id id f0)) [target]) r) force (set_attrs ma r)).
        assert (Uid : forall r, r_id (upd r) = r_id r) by (intros r; unfold upd; rewrite r_id_fold_setf; reflexivity).
        assert (Uat : forall r, r_attrs (upd r) = ma) by (intros r; unfold upd; rewrite r_attrs_fold_setf; reflexivity).
        assert (Pv : forall p, In p (vals PARENT ma) <-> In p (vals PARENT (r_attrs f0)) \/ In p (parent_vals target)).
        { intros p. unfold ma. rewrite l_merge_attrs_union. apply or_iff_compat_l. unfold parent_vals.
          rewrite (vals_in_unique PARENT (r_attrs target) p (Nk target Ht)). split.
          - intros [e [vs [[<-|[]] [A B]]]]. exists vs. auto.
          - intros [vs [A B]]. exists target, vs. split; [left; reflexivity|auto]. }
        intros x Hl. cbn [s_rows s_rels]. rewrite add_rels_In, parent_links_in, (Hi x Hl), !links_in. unfold update_id. split.
        * intros [[r [Hr [Ec [_ Hp]]]]|[Ec [_ Hp]]].
          -- destruct (str_eqb (r_id r) (r_id target)) eqn:E.
             ++ apply str_eqb_eq in E. assert (r = target) by (apply (in_rows_unique (s_rows st)); assumption). subst r.
                exists (upd target). split; [apply in_map_iff; exists target; rewrite str_eqb_refl; auto|].
                rewrite Uid. unfold parent_vals. rewrite Uat. repeat split; auto. apply Pv. right. exact Hp.
             ++ exists r. split; [apply in_map_iff; exists r; rewrite E; auto|auto].
          -- exists (upd target). split; [apply in_map_iff; exists target; rewrite str_eqb_refl; auto|].
             rewrite Uid. unfold parent_vals. rewrite Uat. repeat split; auto. apply Pv. left. exact Hp.
        * intros [r' [Hr' [Ec [_ Hp]]]]. apply in_map_iff in Hr' as [r [Er Hr]]. destruct (str_eqb (r_id r) (r_id target)) eqn:E.
          -- apply str_eqb_eq in E. assert (r = target) by (apply (in_rows_unique (s_rows st)); assumption). subst r r'.
             rewrite Uid in Ec. unfold parent_vals in Hp. rewrite Uat in Hp. apply Pv in Hp as [Hp|Hp].
             ++ right. auto.
             ++ left. exists target. auto.
          -- subst r'. left. exists r. auto.
    - inversion H; subst st'. clear H. cbn [is_replace andb].
      apply l1_append; [exact Hi|reflexivity|reflexivity].
  Qed.

  (* every strategy *)
  Theorem l_step_links strat st f0 st' : step_gff call strat force spec st f0 = Ok st' ->
    NoDup (map r_id (s_rows st)) -> (forall r, In r (s_rows st) -> NoDup (map fst (r_attrs r))) ->
    (strat = SMerge -> forall id f, (length (filter (same_checked force f) (candidates st id)) <= 1)%nat) ->
    l1_exact st -> l1_exact st'.
  Proof.
    intros H N1 N2 Hm Hi. assert (D : strat = SMerge \/ strat <> SMerge) by (destruct strat; auto; right; discriminate).
    destruct D as [->|Hs]; [apply (step_links_merge st f0 st' H N1 N2 (Hm eq_refl) Hi)|apply (step_links_nomerge strat st f0 st' Hs H Hi)].
  Qed.
End Links.
