(* Proofs/C12Proofs.v — the C12 statements, on the definition GENERATED from bins.py. *)
From GV Require Import Base.Prelude Model.Bins Gen.GenLib Gen.GenBins Proofs.BinsProofs Proofs.GenEquiv.
Open Scope Z_scope.

(* bins(start, end, fmt, one) as the code computes it *)
Definition gbins (f : fmt) (s e : Z) (one : bool) : bres := gen_bins s e (fmt_str f) one.
Definition gbin_one (f : fmt) (s e : Z) : Z := match gbins f s e true with RInt b => b | _ => 0 end.
Definition gbin_set_mem (f : fmt) (b s e : Z) : bool :=
  match gbins f s e false with RSet rs => in_ranges b rs | _ => false end.

Lemma gbins_eq f s e one : gbins f s e one = bins f s e one.
Proof. apply gen_bins_equiv. Qed.
Lemma gbin_one_eq f s e : gbin_one f s e = bin_one f s e.
Proof. unfold gbin_one, bin_one. now rewrite gbins_eq. Qed.
Lemma gbin_set_mem_eq f b s e : gbin_set_mem f b s e = bin_set_mem f b s e.
Proof. unfold gbin_set_mem, bin_set_mem. now rewrite gbins_eq. Qed.

Lemma l_one_is_bin f s e : in_range f s e = true ->
  exists b off sh i, gbins f s e true = RInt b /\ is_bin_of b off sh i.
Proof. rewrite gbins_eq. apply model_one_is_bin. Qed.

Lemma l_one_exact f s e : in_range f s e = true ->
  exists b off sh i, gbins f s e true = RInt b /\ is_bin_of b off sh i /\
    contains sh i (s - coord_off f) /\ contains sh i e /\
    (forall off' sh' i', In (off', sh') levels -> sh' < sh ->
        ~ (contains sh' i' (s - coord_off f) /\ contains sh' i' e)).
Proof. rewrite gbins_eq. apply model_one_exact. Qed.

Lemma l_set_complete f s e off sh i x : in_range f s e = true ->
  In (off, sh) levels -> s - coord_off f <= x <= e - 1 -> contains sh i x ->
  gbin_set_mem f (off + i) s e = true.
Proof. rewrite gbin_set_mem_eq. apply model_set_complete. Qed.

Lemma l_set_tight f s e b : in_range f s e = true -> s - coord_off f <= e ->
  gbin_set_mem f b s e = true ->
  b = 1 \/ exists off sh i x, In (off, sh) levels /\ b = off + i /\
            s - coord_off f <= x <= e /\ contains sh i x.
Proof. rewrite gbin_set_mem_eq. apply model_set_tight. Qed.

Lemma l_set_is_set f s e : exists rs, gbins f s e false = RSet rs.
Proof. rewrite gbins_eq. unfold bins. destruct (in_range f s e); eexists; reflexivity. Qed.

Lemma l_out_of_range f s e : in_range f s e = false ->
  gbins f s e true = RInt 1 /\ gbins f s e false = RSet [(1,1)].
Proof. rewrite !gbins_eq. apply model_out_of_range. Qed.

Lemma l_overlap_sound f fs fe qs qe : in_range f qs qe = true ->
  fs <= qe -> qs <= fe -> gbin_set_mem f (gbin_one f fs fe) qs qe = true.
Proof. rewrite gbin_set_mem_eq, gbin_one_eq. apply model_overlap_sound. Qed.

Lemma l_one_in_every_set f s e : gbin_set_mem f 1 s e = true.
Proof. rewrite gbin_set_mem_eq. apply one_in_every_set. Qed.

(* Feature.bin: bins(start, end) with the defaults fmt="gff", one=True, None for '.' *)
Definition gfeature_bin (start stop : option Z) : option Z :=
  match start, stop with
  | Some s, Some e => match gen_bins s e gen_default_fmt gen_default_one with RInt b => Some b | _ => None end
  | Some s, None => if s >=? MAX_CHROM_SIZE then Some 1 else None   (* hand-modelled short-circuit *)
  | None, _ => None
  end.

Lemma l_feature_bin s e : gfeature_bin (Some s) (Some e) = Some (gbin_one Gff s e)
                          /\ gfeature_bin None (Some e) = None /\ gfeature_bin None None = None
                          /\ (s < MAXC -> gfeature_bin (Some s) None = None).
Proof.
  repeat split; [|intros H; unfold gfeature_bin, MAX_CHROM_SIZE, MAXC in *; destruct (s >=? 536870912) eqn:E; [lia|reflexivity]]. unfold gfeature_bin, gbin_one, gbins.
  destruct gen_defaults as [-> ->].
  change (gen_bins s e (fmt_str Gff) true) with (gbins Gff s e true).
  destruct (in_range Gff s e) eqn:Hr.
  - destruct (l_one_is_bin Gff s e Hr) as (b & _ & _ & _ & -> & _). reflexivity.
  - destruct (l_out_of_range Gff s e Hr) as [-> _]. reflexivity.
Qed.
