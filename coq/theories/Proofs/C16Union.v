(* Proofs/C16Union.v — children_bp(merge=True) under the default criteria is the size of the union:
   the number of integer positions covered by at least one child.  Counting is over an arbitrary window
   [lo, hi) that contains every child. *)
From GV Require Import Base.Prelude Base.PyStr Model.Bins Model.DB Model.Parser Model.Query Model.Import Model.Merge
  Gen.GenLib Gen.GenCriteria Proofs.C16Proofs.
Open Scope Z_scope.

(* ---------- counting positions ---------- *)
Lemma zrange_app : forall n m lo, zrange lo (n + m) = zrange lo n ++ zrange (lo + Z.of_nat n) m.
Proof.
  induction n as [|n IH]; intros m lo.
  - cbn [Nat.add zrange app]. f_equal. lia.
  - cbn [Nat.add zrange app]. f_equal. rewrite IH. f_equal. f_equal. lia.
Qed.

Lemma zrange_in : forall n lo p, In p (zrange lo n) <-> lo <= p < lo + Z.of_nat n.
Proof.
  induction n as [|n IH]; intros lo p.
  - cbn. lia.
  - cbn [zrange In]. rewrite IH. lia.
Qed.

Lemma zrange_length : forall n lo, length (zrange lo n) = n.
Proof. induction n as [|n IH]; intros lo; [reflexivity|]. cbn. rewrite IH. reflexivity. Qed.

Lemma zcount_split P lo mid hi : lo <= mid <= hi -> zcount P lo hi = zcount P lo mid + zcount P mid hi.
Proof.
  intros H. unfold zcount. replace (Z.to_nat (hi - lo)) with (Z.to_nat (mid - lo) + Z.to_nat (hi - mid))%nat by lia.
  rewrite zrange_app, filter_app, app_length, Nat2Z.inj_add. replace (lo + Z.of_nat (Z.to_nat (mid - lo))) with mid by lia.
  reflexivity.
Qed.

Lemma zcount_ext P Q lo hi : (forall p, lo <= p < hi -> P p = Q p) -> zcount P lo hi = zcount Q lo hi.
Proof.
  intros H. unfold zcount. f_equal. f_equal. apply filter_ext_in. intros p Hp. apply zrange_in in Hp. apply H. lia.
Qed.

Lemma zcount_false P lo hi : (forall p, lo <= p < hi -> P p = false) -> zcount P lo hi = 0.
Proof.
  intros H. rewrite (zcount_ext P (fun _ => false) lo hi H). unfold zcount.
  induction (zrange lo (Z.to_nat (hi - lo))) as [|x l IH]; [reflexivity|exact IH].
Qed.

Lemma filter_true {A} (l : list A) : filter (fun _ => true) l = l.
Proof. induction l as [|x l IH]; [reflexivity|]. cbn. rewrite IH. reflexivity. Qed.

Lemma zcount_true P lo hi : lo <= hi -> (forall p, lo <= p < hi -> P p = true) -> zcount P lo hi = hi - lo.
Proof.
  intros L H. rewrite (zcount_ext P (fun _ => true) lo hi H). unfold zcount. rewrite filter_true, zrange_length. lia.
Qed.

(* ---------- a chain of separated intervals ---------- *)
Definition in_iv (p : Z) (r : Z * Z) : bool := (fst r <=? p) && (p <=? snd r).
Definition in_ivs (ivs : list (Z * Z)) (p : Z) : bool := existsb (in_iv p) ivs.
Fixpoint chain (lo : Z) (ivs : list (Z * Z)) : Prop :=
  match ivs with [] => True | r :: l => lo <= fst r /\ fst r <= snd r /\ chain (snd r + 2) l end.
Definition total (ivs : list (Z * Z)) : Z := fold_right Z.add 0 (map (fun r => snd r - fst r + 1) ivs).

Lemma chain_weaken ivs : forall lo lo', lo' <= lo -> chain lo ivs -> chain lo' ivs.
Proof. destruct ivs as [|r l]; intros lo lo' L H; [exact I|]. cbn [chain] in *. destruct H as [A [B C]]. repeat split; [lia|exact B|exact C]. Qed.

Lemma chain_below : forall ivs lo p, chain lo ivs -> p < lo -> in_ivs ivs p = false.
Proof.
  induction ivs as [|r l IH]; intros lo p H L; [reflexivity|]. cbn [chain] in H. destruct H as [A [B C]].
  cbn [in_ivs existsb]. fold (in_ivs l p). rewrite (IH (snd r + 2) p C) by lia. unfold in_iv.
  replace (fst r <=? p) with false by lia. reflexivity.
Qed.

Lemma chain_count : forall ivs lo hi, chain lo ivs -> (forall r, In r ivs -> snd r < hi) -> lo <= hi ->
  zcount (in_ivs ivs) lo hi = total ivs.
Proof.
  induction ivs as [|r l IH]; intros lo hi H Hhi L.
  - apply zcount_false. reflexivity.
  - cbn [chain] in H. destruct H as [A [B C]]. assert (E : snd r < hi) by (apply Hhi; left; reflexivity).
    rewrite (zcount_split _ lo (fst r) hi) by lia. rewrite (zcount_split _ (fst r) (snd r + 1) hi) by lia.
    rewrite zcount_false.
    + rewrite zcount_true; [|lia|].
      * rewrite (zcount_ext _ (in_ivs l) (snd r + 1) hi).
        -- rewrite (IH (snd r + 1) hi); [unfold total; cbn [map fold_right]; lia| |intros x Hx; apply Hhi; right; exact Hx|lia].
           apply (chain_weaken l (snd r + 2)); [lia|exact C].
        -- intros p Hp. cbn [in_ivs existsb]. unfold in_iv at 1. replace (p <=? snd r) with false by lia.
           rewrite andb_false_r. reflexivity.
      * intros p Hp. cbn [in_ivs existsb]. unfold in_iv at 1. replace (fst r <=? p) with true by lia.
        replace (p <=? snd r) with true by lia. reflexivity.
    + intros p Hp. apply (chain_below (r :: l) (fst r)); [|lia]. cbn [chain]. repeat split; [lia|exact B|exact C].
Qed.

(* ---------- the outputs of merge as such a chain ---------- *)
Definition iv_of (o : mout) : Z * Z := (m_start (out_view o), m_end (out_view o)).

Section OneClassUnion.
  Variables (sK tK fK : str).
  Hypothesis HsK : ~ In COMMAc sK.

  Lemma sep_chain : forall outs lo, sep outs -> (forall o, In o outs -> m_start (out_view o) <= m_end (out_view o)) ->
    (match outs with o :: _ => lo <= m_start (out_view o) | [] => True end) -> chain lo (map iv_of outs).
  Proof.
    induction outs as [|o1 outs IH]; intros lo S Hle Hlo; [exact I|].
    cbn [map chain iv_of fst snd]. split; [exact Hlo|]. split; [apply Hle; left; reflexivity|].
    apply IH.
    - destruct outs; [exact I|]. destruct S as [_ S]. exact S.
    - intros o Ho. apply Hle. right. exact Ho.
    - destruct outs as [|o2 outs]; [exact I|]. destruct S as [S _]. lia.
  Qed.

  Theorem l_children_bp_union kids lo hi : (forall f, In f kids -> okf sK tK fK f) ->
    (match kids with [] => True | f :: _ => sorted_from (m_start (mi_v f)) kids end) ->
    (forall f, In f kids -> lo <= m_start (mi_v f) /\ m_end (mi_v f) < hi) -> lo <= hi ->
    children_bp true default_criteria kids = zcount (in_kids kids) lo hi.
  Proof.
    intros Hok Hsorted Hwin Lh. unfold children_bp.
    set (outs := fst (merge default_criteria kids [])).
    destruct (l_default_maximal_runs sK tK fK HsK kids [] Hok Hsorted) as [Hsep Hcov]. fold outs in Hsep, Hcov.
    assert (Hpart : flat_map members outs = kids) by apply l_partition.
    assert (Hhull : forall o, In o outs -> out_hull o).
    { apply Forall_forall. unfold outs, merge. apply mrun_hull. exact I. }
    assert (Hmem : forall o c, In o outs -> In c (members o) -> In c kids).
    { intros o c Ho Hc. rewrite <- Hpart. apply in_flat_map. exists o. split; assumption. }
    (* every output lies within one of its members' start and another's end *)
    assert (Hbounds : forall o, In o outs ->
              (exists c, In c (members o) /\ m_start (mi_v c) = m_start (out_view o)) /\
              (exists c, In c (members o) /\ m_end (mi_v c) = m_end (out_view o)) /\
              (forall c, In c (members o) -> m_start (out_view o) <= m_start (mi_v c) /\ m_end (mi_v c) <= m_end (out_view o))).
    { intros o Ho. specialize (Hhull o Ho). destruct o as [i|id acc fr ch]; cbn [out_hull members out_view] in *.
      - split; [exists i; split; [left; reflexivity|reflexivity]|].
        split; [exists i; split; [left; reflexivity|reflexivity]|]. intros c [E|[]]. subst c. lia.
      - destruct Hhull as [H1 [H2 H3]]. split; [exact H2|]. split; [exact H3|exact H1]. }
    assert (Hle : forall o, In o outs -> m_start (out_view o) <= m_end (out_view o)).
    { intros o Ho. destruct (Hbounds o Ho) as [[c [Hc Ec]] [_ H3]]. destruct (H3 c Hc) as [_ X].
      destruct (Hok c (Hmem o c Ho Hc)) as [_ Y]. lia. }
    assert (Hlo : forall o, In o outs -> lo <= m_start (out_view o)).
    { intros o Ho. destruct (Hbounds o Ho) as [[c [Hc Ec]] _]. destruct (Hwin c (Hmem o c Ho Hc)). lia. }
    assert (Hhi : forall o, In o outs -> m_end (out_view o) < hi).
    { intros o Ho. destruct (Hbounds o Ho) as [_ [[c [Hc Ec]] _]]. destruct (Hwin c (Hmem o c Ho Hc)). lia. }
    rewrite (zcount_ext (in_kids kids) (in_ivs (map iv_of outs)) lo hi).
    - rewrite (chain_count (map iv_of outs) lo hi).
      + unfold total. rewrite map_map. reflexivity.
      + apply sep_chain; [exact Hsep|exact Hle|]. destruct outs as [|o l] eqn:E; [exact I|]. apply Hlo. left. reflexivity.
      + intros r Hr. apply in_map_iff in Hr as [o [Eo Ho]]. subst r. cbn [iv_of snd]. apply Hhi. exact Ho.
      + exact Lh.
    - intros p _. unfold in_kids, in_ivs. apply Bool.eq_true_iff_eq. rewrite !existsb_exists. split.
      + intros [k [Hk Hp]]. rewrite <- Hpart in Hk. apply in_flat_map in Hk as [o [Ho Hc]].
        exists (iv_of o). split; [apply in_map; exact Ho|]. destruct (Hbounds o Ho) as [_ [_ H3]]. destruct (H3 k Hc).
        unfold in_iv, iv_of. cbn [fst snd]. lia.
      + intros [r [Hr Hp]]. apply in_map_iff in Hr as [o [Eo Ho]]. subst r. unfold in_iv, iv_of in Hp. cbn [fst snd] in Hp.
        assert (Hc := proj1 (Forall_forall _ _) Hcov o Ho). destruct (Hc p) as [c [Hcin Hcp]]; [lia|].
        exists c. split; [exact (Hmem o c Ho Hcin)|lia].
  Qed.
End OneClassUnion.
