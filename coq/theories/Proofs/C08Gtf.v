(* Proofs/C08Gtf.v — print -> parse of an attribute mapping under every standard GTF dialect
   (key, space, double-quoted value; three field separators x trailing semicolon x repeated keys) is
   the identity, for all values free of semicolon, double quote, comma and control characters
   (spaces anywhere, equals signs, percent signs, unicode allowed). *)
From GV Require Import Base.Prelude Base.PyStr Base.Utf8 Base.WordTable Model.DB Model.Parser Model.Grammar
  Proofs.SplitJoin Proofs.StrLemmas Proofs.C08Proofs Proofs.C08Round Proofs.C07Parse Proofs.C07Proofs Proofs.C01Proofs.
Open Scope N_scope.

Definition gtf_vals (vs : list str) : Prop :=
  vs <> [] /\ forall v, In v vs -> v <> [] /\ ~ In COMMA v /\ ~ In SEMI v /\ ~ In DQ v.

Definition gtf_item (it : str * list str) : Prop := prop_key (fst it) = true /\ gtf_vals (snd it).

Definition gtf_part (it : str * list str) : str := fst it ++ SP :: DQ :: join [COMMA] (snd it) ++ [DQ].

Lemma split_with_nonempty D S : S <> [] -> wf_dialect D = true ->
  split_with D S = Ok (unquote_quals D (fold_left (with_step D)
                         (with_key_vals D (split (d_fsep D) (if d_trailing D then rstrip_chars [SEMI] S else S))) [])).
Proof. intros Hne Hwf. destruct S as [|c S]; [congruence|]. unfold split_with. rewrite Hwf. reflexivity. Qed.

Section G.
  Variable D : dialect.
  Hypothesis Hfmt : d_fmt D = GTF.
  Hypothesis Hkv : d_kvsep D = [SP].
  Hypothesis Hq : d_quoted D = true.
  Hypothesis Hmv : d_mvsep D = [COMMA].
  Hypothesis Hlead : d_leading D = false.
  Hypothesis Hfs : fsep_ok (d_fsep D) = true.

  Lemma gtf_join_nonempty vs : gtf_vals vs -> join [COMMA] vs <> [].
  Proof. intros [Hne Hv]. destruct vs as [|v vs]; [congruence|]. apply join_nonempty. apply (Hv v). left. reflexivity. Qed.

  Lemma gtf_render it : gtf_item it -> render_part D false it = gtf_part it.
  Proof.
    intros [Hk Hv]. destruct it as [k vs]. cbn [fst snd] in *. unfold render_part, gtf_part. rewrite Hmv, Hq, Hkv. cbn [fst snd].
    pose proof (gtf_join_nonempty vs Hv) as J. destruct vs as [|v vs]; [destruct Hv; congruence|].
    destruct (join [COMMA] (v :: vs)) eqn:E; [congruence|]. reflexivity.
  Qed.

  Lemma gtf_join_clean vs c : gtf_vals vs -> In c [SEMI; DQ] -> ~ In c (join [COMMA] vs).
  Proof.
    intros [_ Hv] Hc Hin. apply In_join in Hin as [Hin|[p [Hp Hin]]].
    - destruct Hin as [Hin|[]]. subst c. destruct Hc as [E|[E|[]]]; discriminate.
    - destruct (Hv p Hp) as [_ [_ [A B]]]. destruct Hc as [E|[E|[]]]; subst c; contradiction.
  Qed.

  Lemma gtf_part_no_semi it : gtf_item it -> ~ In SEMI (gtf_part it).
  Proof.
    intros [Hk Hv] Hin. unfold gtf_part in Hin. apply in_app_or in Hin as [Hin|[Hin|[Hin|Hin]]]; try discriminate.
    - revert Hin. apply prop_key_free; [exact Hk|simpl; auto].
    - apply in_app_or in Hin as [Hin|[Hin|[]]]; [|discriminate]. revert Hin. apply gtf_join_clean; [exact Hv|simpl; auto].
  Qed.

  Lemma key_first_not_space c : key_first c = true -> is_space c = false /\ c <> SEMI.
  Proof.
    unfold key_first. intros H.
    assert (Hc : (65 <= c <= 90 \/ c = 95 \/ 97 <= c <= 122)%N).
    { repeat (apply orb_prop in H as [H|H]); try (apply andb_prop in H as [H1 H2]; apply N.leb_le in H1; apply N.leb_le in H2);
        try apply N.eqb_eq in H; lia. }
    split; [apply space_range; lia|unfold SEMI; lia].
  Qed.

  Lemma gtf_ext it : gtf_item it -> ext_gtf (gtf_part it) = (fst it, DQ :: join [COMMA] (snd it) ++ [DQ]).
  Proof.
    intros [Hk Hv]. unfold ext_gtf, gtf_part.
    assert (K : ~ In SP (fst it)) by (apply prop_key_free; [exact Hk|simpl; auto]).
    assert (Hne : fst it <> []) by (apply prop_key_rest in Hk as [_ A]; exact A).
    assert (Hh : is_space (hd 0 (fst it ++ SP :: DQ :: join [COMMA] (snd it) ++ [DQ])) = false).
    { rewrite hd_app_ne by exact Hne. destruct (fst it) as [|c r] eqn:E; [congruence|]. cbn [hd].
      unfold prop_key in Hk. apply andb_prop in Hk as [Hk _]. apply key_first_not_space. exact Hk. }
    assert (Hl : is_space (last (fst it ++ SP :: DQ :: join [COMMA] (snd it) ++ [DQ]) 0) = false).
    { change (fst it ++ SP :: DQ :: join [COMMA] (snd it) ++ [DQ]) with (fst it ++ (SP :: DQ :: join [COMMA] (snd it)) ++ [DQ]).
      rewrite app_assoc, last_last. reflexivity. }
    unfold strip. rewrite strip_by_id; [|destruct (fst it); [congruence|discriminate]|exact Hh|exact Hl].
    rewrite split1_head by exact K. cbn [hd tl]. rewrite join_split1. reflexivity.
  Qed.

  Lemma gtf_with_step q it : gtf_item it -> with_step D q (fst it, DQ :: join [COMMA] (snd it) ++ [DQ]) = add q it.
  Proof.
    intros [Hk Hv]. pose proof (gtf_join_nonempty _ Hv) as J. unfold with_step, add. rewrite Hq, strip_quotes_quoted.
    destruct (join [COMMA] (snd it)) as [|c j] eqn:E; [congruence|]. rewrite <- E.
    assert (S : split [COMMA] (join [COMMA] (snd it)) = snd it).
    { destruct Hv as [Hne Hvv]. apply (split_join [] [] COMMA (@in_nil N COMMA)); [exact Hne|]. intros p Hp. apply (Hvv p Hp). }
    rewrite S. reflexivity.
  Qed.

  Lemma gtf_fold : forall items acc, (forall it, In it items -> gtf_item it) ->
    fold_left (with_step D) (map ext_gtf (map gtf_part items)) acc = fold_left add items acc.
  Proof.
    induction items as [|it items IH]; intros acc Hok; [reflexivity|]. cbn [map fold_left].
    rewrite gtf_ext by (apply Hok; left; reflexivity). rewrite gtf_with_step by (apply Hok; left; reflexivity).
    apply IH. intros x Hx. apply Hok. right. exact Hx.
  Qed.

  Lemma last_gtf_part it : last (gtf_part it) 0 = DQ.
  Proof.
    unfold gtf_part.
    change (fst it ++ SP :: DQ :: join [COMMA] (snd it) ++ [DQ]) with (fst it ++ (SP :: DQ :: join [COMMA] (snd it)) ++ [DQ]).
    rewrite app_assoc, last_last. reflexivity.
  Qed.

  Lemma gtf_joined_last items : items <> [] -> (forall it, In it items -> gtf_item it) ->
    join (d_fsep D) (map gtf_part items) <> [] /\ last (join (d_fsep D) (map gtf_part items)) 0 <> SEMI.
  Proof.
    intros Hne Hok.
    assert (Hm : map gtf_part items <> []) by (destruct items; [congruence|discriminate]).
    assert (Hpne : forall p, In p (map gtf_part items) -> p <> []).
    { intros p Hp. apply in_map_iff in Hp as [it [E _]]. subst p. unfold gtf_part. destruct (fst it); discriminate. }
    split.
    - destruct (map gtf_part items) as [|p ps] eqn:E; [congruence|]. apply join_nonempty. apply Hpne. left. reflexivity.
    - rewrite join_last by assumption.
      assert (Hin : In (last (map gtf_part items) []) (map gtf_part items)) by (apply last_In; exact Hm).
      apply in_map_iff in Hin as [it [E _]]. unfold str in *. rewrite <- E. rewrite last_gtf_part. discriminate.
  Qed.

  Lemma gtf_split_with items : items <> [] -> (forall it, In it items -> gtf_item it) ->
    let ps := join (d_fsep D) (map gtf_part items) in
    split_with D (if d_trailing D then ps ++ [SEMI] else ps) = Ok (fold_left add items []).
  Proof.
    intros Hne Hok ps. destruct (gtf_joined_last items Hne Hok) as [HJ HJl]. fold ps in HJ, HJl.
    assert (Hwf : wf_dialect D = true).
    { unfold wf_dialect. rewrite Hkv. destruct (fsep_ok_decomp _ Hfs) as [pre [post [E _]]]. rewrite E. destruct pre; reflexivity. }
    rewrite split_with_nonempty; [|destruct (d_trailing D); destruct ps; try congruence; discriminate|exact Hwf].
    assert (Hs : (if d_trailing D then rstrip_chars [SEMI] (if d_trailing D then ps ++ [SEMI] else ps)
                  else (if d_trailing D then ps ++ [SEMI] else ps)) = ps).
    { destruct (d_trailing D); [apply rstrip_semi_join; assumption|reflexivity]. }
    rewrite Hs.
    assert (Hsplit : split (d_fsep D) ps = map gtf_part items).
    { unfold ps. destruct (fsep_ok_decomp _ Hfs) as [pre [post [E Hpre]]]. rewrite E.
      apply (split_join pre post SEMI Hpre); [destruct items; [congruence|discriminate]|].
      intros p Hp. apply in_map_iff in Hp as [it [Ep Hit]]. subst p. apply gtf_part_no_semi. apply Hok. exact Hit. }
    rewrite Hsplit. rewrite (with_key_vals_gtf D _ Hfmt Hlead Hkv). rewrite gtf_fold by exact Hok.
    unfold unquote_quals. rewrite Hfmt. reflexivity.
  Qed.
End G.

Lemma gtf_standard_spec D : gtf_standard D = true ->
  d_fmt D = GTF /\ d_kvsep D = [SP] /\ d_quoted D = true /\ d_mvsep D = [COMMA] /\ d_leading D = false /\ fsep_ok (d_fsep D) = true.
Proof.
  unfold gtf_standard, seps_ok. intros H. apply andb_prop in H as [H Hq]. apply andb_prop in H as [H Hk]. apply andb_prop in H as [H Hf].
  apply andb_prop in H as [H Hl]. apply andb_prop in H as [Hfs Hm].
  apply str_eqb_eq in Hf. apply str_eqb_eq in Hk. apply str_eqb_eq in Hm. apply negb_true_iff in Hl. repeat split; assumption.
Qed.

Definition gtf_mapping_ok (m : attrs) : bool := mapping_ok m && forallb (fun kv => forallb gtf_value_ok (snd kv)) m.

Lemma gtf_value_clean v c : gtf_value_ok v = true -> In c [SEMI; DQ; COMMA] -> ~ In c v.
Proof.
  unfold gtf_value_ok. rewrite forallb_forall. intros H Hc Hin. specialize (H c Hin). apply andb_prop in H as [_ H].
  apply negb_true_iff in H. apply mem_char_false in H. apply H. simpl in *. intuition.
Qed.

Lemma gtf_items_plain m : gtf_mapping_ok m = true -> forall it, In it m -> gtf_item it.
Proof.
  unfold gtf_mapping_ok. intros H it Hit. apply andb_prop in H as [Hm Hg]. apply mapping_ok_spec in Hm as [_ Hv].
  destruct (Hv it Hit) as [Hk [Hne Hvv]]. rewrite forallb_forall in Hg. specialize (Hg it Hit). rewrite forallb_forall in Hg.
  split; [exact Hk|]. split; [exact Hne|]. intros v Hin. split; [apply Hvv; exact Hin|].
  repeat split; apply (gtf_value_clean v _ (Hg v Hin)); simpl; auto.
Qed.

Lemma gtf_items_expanded m : gtf_mapping_ok m = true -> forall it, In it (expand_repeated m) -> gtf_item it.
Proof.
  intros H it Hit. unfold expand_repeated in Hit. apply in_flat_map in Hit as [kv [Hkv Hit]].
  pose proof (gtf_items_plain m H kv Hkv) as [Hk [Hne Hv]].
  destruct (snd kv) as [|v1 [|v2 vs]] eqn:E.
  - congruence.
  - destruct Hit as [Hit|[]]. subst it. split; [exact Hk|]. rewrite E. split; [discriminate|exact Hv].
  - apply in_map_iff in Hit as [v [Ev Hin]]. subst it. split; [exact Hk|]. cbn [snd]. split; [discriminate|].
    intros v' [Ev'|[]]. subst v'. apply Hv. exact Hin.
Qed.

(* print -> parse is the identity for every standard GTF dialect *)
Theorem l_roundtrip_gtf D m : gtf_standard D = true -> gtf_mapping_ok m = true ->
  split_with D (reconstruct to_quote m D false false) = Ok m.
Proof.
  intros HD Hm. destruct (gtf_standard_spec D HD) as [Hfmt [Hkv [Hq [Hmv [Hlead Hfs]]]]].
  pose proof Hm as Hm'. unfold gtf_mapping_ok in Hm'. apply andb_prop in Hm' as [Hmo _]. apply mapping_ok_spec in Hmo as [Hnd Hv].
  destruct m as [|kv0 m0]; [reflexivity|]. set (m := kv0 :: m0) in *.
  unfold reconstruct. fold m.
  replace (match m with [] => [] | _ :: _ => _ end) with
    (let items := if d_repeated D then expand_repeated m else m in
     let ps := join (d_fsep D) (map gtf_part items) in
     if d_trailing D then ps ++ [SEMI] else ps).
  2:{ unfold m. rewrite Hfmt. change (str_eqb GTF GFF3) with false. cbv iota. cbv zeta. fold m.
      assert (E : forall items, (forall it, In it items -> gtf_item it) -> map (render_part D false) items = map gtf_part items).
      { intros items Hok. apply map_ext_in. intros it Hit. apply (gtf_render D Hkv Hq Hmv). apply Hok. exact Hit. }
      destruct (d_repeated D).
      - rewrite (E _ (gtf_items_expanded m Hm)). reflexivity.
      - rewrite (E _ (gtf_items_plain m Hm)). reflexivity. }
  cbv zeta. destruct (d_repeated D).
  - rewrite (gtf_split_with D Hfmt Hkv Hq Hlead Hfs).
    + rewrite fold_add_expanded'; [reflexivity|exact Hnd|reflexivity].
    + unfold m, expand_repeated. cbn [flat_map]. destruct (snd kv0) as [|? [|? ?]]; discriminate.
    + apply gtf_items_expanded. exact Hm.
  - rewrite (gtf_split_with D Hfmt Hkv Hq Hlead Hfs).
    + rewrite fold_add_plain; [reflexivity|exact Hnd|reflexivity].
    + unfold m. discriminate.
    + apply gtf_items_plain. exact Hm.
Qed.
