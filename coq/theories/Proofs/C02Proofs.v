(* Proofs/C02Proofs.v — the GFF3 importer's relation table is exactly the Parent graph (level 1)
   and its composition (level 2); children()/parents() are inverse filters over it. *)
From GV Require Import Base.Prelude Base.PyStr Model.Bins Model.DB Model.Parser Model.Query Model.Import Model.Hier
  Proofs.SplitJoin.
From Coq Require Import Permutation.
Open Scope Z_scope.

(* ---------- relation rows as a set ---------- *)
Lemma rel_eqb_eq a b : rel_eqb a b = true <-> a = b.
Proof.
  destruct a as [p c l], b as [p' c' l']. unfold rel_eqb. cbn [rel_parent rel_child rel_level].
  rewrite !andb_true_iff, !str_eqb_eq, Z.eqb_eq. split.
  - intros [[A B] C]. subst. reflexivity.
  - intros E. inversion E. auto.
Qed.

Lemma has_rel_In x l : has_rel x l = true <-> In x l.
Proof.
  unfold has_rel. rewrite existsb_exists. split.
  - intros [y [Hy E]]. apply rel_eqb_eq in E. subst. exact Hy.
  - intros H. exists x. split; [exact H|apply rel_eqb_eq; reflexivity].
Qed.

Lemma add_rel_In l x y : In y (add_rel l x) <-> In y l \/ y = x.
Proof.
  unfold add_rel. destruct (has_rel x l) eqn:E.
  - apply has_rel_In in E. split; [auto|]. intros [H|H]; [exact H|subst; exact E].
  - rewrite in_app_iff. simpl. split.
    + intros [H|[H|[]]]; auto.
    + intros [H|H]; auto.
Qed.

Lemma add_rels_In : forall xs l y, In y (add_rels l xs) <-> In y l \/ In y xs.
Proof.
  induction xs as [|x xs IH]; intros l y; simpl.
  - tauto.
  - unfold add_rels in *. simpl. rewrite IH, add_rel_In. split.
    + intros [[H|H]|H]; auto.
    + intros [H|[H|H]]; auto.
Qed.

Lemma add_rels_app l a b : add_rels (add_rels l a) b = add_rels l (a ++ b).
Proof. unfold add_rels. rewrite fold_left_app. reflexivity. Qed.

(* ---------- the id of a line ---------- *)
Lemma id_handler_ID call f a i : id_of f = Some i ->
  id_handler call (SList [KAttr IDK]) f a = Ok (i, a).
Proof.
  unfold id_of, id_handler, try_keys. change (is_field_form IDK) with false. cbv iota.
  destruct (dget IDK (r_attrs f)) as [[|v [|v2 vs]]|]; try discriminate. intros E. inversion E. reflexivity.
Qed.

Lemma has_id_app id rows r : has_id id (rows ++ [r]) = has_id id rows || str_eqb (r_id r) id.
Proof. unfold has_id. rewrite existsb_app. simpl. rewrite orb_false_r. reflexivity. Qed.

Definition stored (f : row) : row := set_bin (set_id (fid f) f).
Definition rels1 (feats : list row) : list rel :=
  flat_map (fun f => map (fun p => mkRel p (fid f) 1) (parents_of f)) feats.

Lemma has_id_map_false id feats : ~ In id (map fid feats) -> has_id id (map stored feats) = false.
Proof.
  induction feats as [|f feats IH]; intros H; [reflexivity|].
  simpl. rewrite IH by (intro; apply H; right; assumption). rewrite orb_false_r.
  apply str_eqb_neq. intro E. apply H. left. exact E.
Qed.

Section Run.
  Variable call : nat -> row -> option str.
  Let step := step_gff call SError [] (SList [KAttr IDK]).

  Lemma run_error : forall feats st,
    (forall f, In f feats -> id_of f = Some (fid f)) ->
    NoDup (map fid feats) ->
    (forall f, In f feats -> has_id (fid f) (s_rows st) = false) ->
    run_steps step feats st =
    Ok (mkSt (s_rows st ++ map stored feats) (add_rels (s_rels st) (rels1 feats)) (s_dups st) (s_auto st)).
  Proof.
    induction feats as [|f feats IH]; intros st Hid Hnd Hfresh.
    - simpl. rewrite app_nil_r. destruct st. reflexivity.
    - cbn [run_steps]. change (step st f) with (step_gff call SError [] (SList [KAttr IDK]) st f). unfold step_gff, store.
      rewrite (id_handler_ID call f (s_auto st) (fid f)) by (apply Hid; left; reflexivity).
      cbn [r_id set_bin set_id s_rows s_rels s_dups s_auto].
      rewrite (Hfresh f) by (left; reflexivity).
      inversion Hnd as [|? ? Hnotin Hnd']; subst.
      rewrite IH.
      + cbn [s_rows s_rels s_dups s_auto].
        f_equal. f_equal.
        * rewrite <- app_assoc. reflexivity.
        * rewrite add_rels_app. reflexivity.
      + intros g Hg. apply Hid. right. exact Hg.
      + exact Hnd'.
      + intros g Hg. cbn [s_rows]. rewrite has_id_app. rewrite (Hfresh g) by (right; exact Hg).
        cbn [orb r_id set_bin set_id].
        apply str_eqb_neq. intro E. apply Hnotin. rewrite E. apply in_map. exact Hg.
  Qed.
End Run.

(* ---------- the temp file round trip ---------- *)
Lemma id_clean_spec s : id_clean s = true -> ~ In TABc s /\ has_linebreak s = false.
Proof.
  unfold id_clean, has_linebreak. intros H. apply negb_true_iff in H. split.
  - intros Hin. assert (E : existsb (fun c => N.eqb c 9 || N.eqb c 10 || N.eqb c 13) s = true).
    { apply existsb_exists. exists TABc. split; [exact Hin|reflexivity]. } congruence.
  - destruct (existsb (fun c => N.eqb c 10 || N.eqb c 13) s) eqn:E; [|reflexivity].
    apply existsb_exists in E as [c [Hc E]].
    assert (E2 : existsb (fun c => N.eqb c 9 || N.eqb c 10 || N.eqb c 13) s = true).
    { apply existsb_exists. exists c. split; [exact Hc|]. rewrite <- orb_assoc. rewrite E. apply orb_true_r. }
    congruence.
Qed.

Lemma tmp_pair_clean p c : id_clean p = true -> id_clean c = true -> tmp_pair p c = Ok (p, c).
Proof.
  intros Hp Hc. apply id_clean_spec in Hp as [Hp1 Hp2]. apply id_clean_spec in Hc as [Hc1 Hc2].
  unfold tmp_pair. rewrite Hp2, Hc2. cbn [orb app].
  rewrite split1_head by exact Hp1. rewrite split1_nosep by exact Hc1. reflexivity.
Qed.

Lemma read_pairs_clean : forall ps, (forall p c, In (p, c) ps -> id_clean p = true /\ id_clean c = true) ->
  read_pairs ps = Ok ps.
Proof.
  induction ps as [|[p c] ps IH]; intros H; [reflexivity|].
  cbn [read_pairs]. destruct (H p c (or_introl eq_refl)) as [Hp Hc]. rewrite tmp_pair_clean by assumption.
  rewrite IH; [reflexivity|]. intros p' c' Hin. apply H. right. exact Hin.
Qed.

Lemma children_of_In rels p c : In c (children_of rels p) <-> In (mkRel p c 1) rels.
Proof.
  unfold children_of. rewrite in_map_iff. split.
  - intros [x [E Hx]]. apply filter_In in Hx as [Hx Hp]. apply andb_prop in Hp as [Hp Hl]. apply str_eqb_eq in Hp.
    apply Z.eqb_eq in Hl. destruct x as [xp xc xl]. cbn in *. subst. exact Hx.
  - intros Hl. exists (mkRel p c 1). split; [reflexivity|]. apply filter_In. split; [exact Hl|].
    cbn. rewrite str_eqb_refl. reflexivity.
Qed.

Lemma grand_pairs_In st x z : In (x, z) (grand_pairs st) <->
  (exists r, In r (s_rows st) /\ r_id r = x) /\
  exists y, In y (children_of (s_rels st) x) /\ In z (children_of (s_rels st) y).
Proof.
  unfold grand_pairs. rewrite in_flat_map. split.
  - intros [r [Hr H]]. apply in_flat_map in H as [y [Hy H]]. apply in_map_iff in H as [g [E Hg]].
    inversion E; subst. split; [exists r; auto|]. exists y. auto.
  - intros [[r [Hr E]] [y [Hy Hz]]]. subst x. exists r. split; [exact Hr|]. apply in_flat_map. exists y.
    split; [exact Hy|]. apply in_map_iff. exists z. auto.
Qed.

(* ---------- queries ---------- *)
Lemma related_spec d dir id level r : related d dir id level r = true <->
  exists x, In x (d_rels d) /\
    match dir with
    | Children => rel_parent x = id /\ rel_child x = r_id r
    | Parents => rel_child x = id /\ rel_parent x = r_id r
    end /\ match level with Some l => rel_level x = l | None => True end.
Proof.
  unfold related. rewrite existsb_exists. split.
  - intros [x [Hx H]]. exists x. split; [exact Hx|]. apply andb_prop in H as [H1 H2].
    split.
    + destruct dir; apply andb_prop in H1 as [A B]; apply str_eqb_eq in A; apply str_eqb_eq in B; auto.
    + destruct level; [apply Z.eqb_eq; exact H2|exact I].
  - intros [x [Hx [H1 H2]]]. exists x. split; [exact Hx|]. apply andb_true_intro. split.
    + destruct dir; destruct H1 as [A B]; rewrite A, B, !str_eqb_refl; reflexivity.
    + destruct level; [apply Z.eqb_eq; exact H2|reflexivity].
Qed.

Lemma query_row_none r : query_row FNone None false None r = true.
Proof. reflexivity. Qed.

Lemma relation_plain d dir id level r :
  In r (relation d dir id level FNone None false) <-> In r (d_rows d) /\ related d dir id level r = true.
Proof.
  unfold relation. rewrite filter_In, query_row_none, andb_true_r. reflexivity.
Qed.

Lemma filter_NoDup {A} (p : A -> bool) l : NoDup l -> NoDup (filter p l).
Proof.
  induction 1 as [|x l Hx Hnd IH]; simpl; [constructor|].
  destruct (p x); [|exact IH]. constructor; [|exact IH]. intro H. apply filter_In in H as [H _]. contradiction.
Qed.

Lemma l_children_level d x l r : In r (relation d Children x (Some l) FNone None false) <->
  In r (d_rows d) /\ In (mkRel x (r_id r) l) (d_rels d).
Proof.
  rewrite relation_plain, related_spec. split.
  - intros [Hr [y [Hy [[A B] C]]]]. split; [exact Hr|]. destruct y as [yp yc yl]. cbn in *. subst. exact Hy.
  - intros [Hr Hy]. split; [exact Hr|]. exists (mkRel x (r_id r) l). cbn. auto.
Qed.

Lemma l_parents_level d y l r : In r (relation d Parents y (Some l) FNone None false) <->
  In r (d_rows d) /\ In (mkRel (r_id r) y l) (d_rels d).
Proof.
  rewrite relation_plain, related_spec. split.
  - intros [Hr [x [Hx [[A B] C]]]]. split; [exact Hr|]. destruct x as [xp xc xl]. cbn in *. subst. exact Hx.
  - intros [Hr Hx]. split; [exact Hr|]. exists (mkRel (r_id r) y l). cbn. auto.
Qed.

Lemma l_children_all d x r : In r (relation d Children x None FNone None false) <->
  In r (d_rows d) /\ exists l, In (mkRel x (r_id r) l) (d_rels d).
Proof.
  rewrite relation_plain, related_spec. split.
  - intros [Hr [y [Hy [[A B] _]]]]. split; [exact Hr|]. destruct y as [yp yc yl]. cbn in *. subst. eauto.
  - intros [Hr [l Hy]]. split; [exact Hr|]. exists (mkRel x (r_id r) l). cbn. auto.
Qed.

Lemma l_parents_inverse d level rx ry : In rx (d_rows d) -> In ry (d_rows d) ->
  (In ry (relation d Children (r_id rx) level FNone None false) <->
   In rx (relation d Parents (r_id ry) level FNone None false)).
Proof.
  intros Hx Hy. rewrite !relation_plain, !related_spec. split.
  - intros [_ [z [Hz [[A B] C]]]]. split; [exact Hx|]. exists z. auto.
  - intros [_ [z [Hz [[A B] C]]]]. split; [exact Hy|]. exists z. auto.
Qed.

Lemma l_once d dir id level ft lim cw : NoDup (d_rows d) -> NoDup (relation d dir id level ft lim cw).
Proof. intros H. unfold relation. apply filter_NoDup. exact H. Qed.

Lemma l_ft_filter d dir id level ft r : In r (relation d dir id level ft None false) <->
  In r (relation d dir id level FNone None false) /\ ft_query ft r = true.
Proof.
  unfold relation. rewrite !filter_In. unfold query_row. cbn [strand_query]. rewrite !andb_true_iff.
  change (ft_query FNone r) with true. tauto.
Qed.

(* ---------- the whole import ---------- *)
Lemma in_domain_spec feats : in_domain feats = true ->
  feats <> [] /\ (forall f, In f feats -> id_of f = Some (fid f) /\ id_clean (fid f) = true
                                          /\ forall p, In p (parents_of f) -> id_clean p = true)
  /\ NoDup (map fid feats).
Proof.
  unfold in_domain. intros H. apply andb_prop in H as [H Hnd]. apply andb_prop in H as [Hne Hall].
  split; [destruct feats; [discriminate|discriminate]|]. rewrite forallb_forall in Hall.
  assert (Hids : forall f, In f feats -> id_of f = Some (fid f)).
  { intros f Hf. specialize (Hall f Hf). unfold fid. destruct (id_of f); [reflexivity|discriminate]. }
  split.
  - intros f Hf. split; [apply Hids; exact Hf|]. specialize (Hall f Hf). rewrite (Hids f Hf) in Hall.
    apply andb_prop in Hall as [A B]. apply andb_prop in A as [A _]. split; [exact A|].
    rewrite forallb_forall in B. exact B.
  - assert (E : flat_map (fun f => match id_of f with Some i => [i] | None => [] end) feats = map fid feats).
    { clear Hnd Hne Hall. induction feats as [|f feats IH]; [reflexivity|]. cbn [flat_map map].
      rewrite (Hids f) by (left; reflexivity). rewrite IH by (intros g Hg; apply Hids; right; exact Hg). reflexivity. }
    rewrite E in Hnd. clear -Hnd. induction (map fid feats) as [|x l IH]; [constructor|].
    simpl in Hnd. apply andb_prop in Hnd as [A B]. constructor; [|apply IH; exact B].
    apply negb_true_iff in A. intro Hin. apply mem_str_In in Hin. congruence.
Qed.

Definition rels2 (feats : list row) (r1 : list rel) : list (str * str) :=
  grand_pairs (mkSt (map stored feats) r1 [] []).

Theorem l_import call feats : in_domain feats = true ->
  import_gff call SError [] (SList [KAttr IDK]) feats empty_st =
  Ok (mkSt (map stored feats)
           (add_rels (add_rels [] (rels1 feats))
                     (map (fun pc => mkRel (fst pc) (snd pc) 2) (rels2 feats (add_rels [] (rels1 feats)))))
           [] []).
Proof.
  intros Hdom. apply in_domain_spec in Hdom as [Hne [Hall Hnd]].
  unfold import_gff. destruct feats as [|f0 feats0] eqn:Ef; [congruence|]. rewrite <- Ef in *.
  rewrite run_error; [|intros f Hf; apply Hall; exact Hf|exact Hnd|reflexivity].
  cbn [empty_st s_rows s_rels s_dups s_auto app]. unfold update_relations_gff.
  rewrite read_pairs_clean; [reflexivity|].
  intros p c Hin. apply grand_pairs_In in Hin as [[r [Hr Er]] [y [Hy Hz]]]. cbn [s_rows s_rels] in *.
  apply in_map_iff in Hr as [f [Ef' Hf]]. subst r. cbn in Er. subst p.
  split; [apply Hall; exact Hf|].
  apply children_of_In in Hz. rename Hz into Hl. apply add_rels_In in Hl as [[]|Hl].
  unfold rels1 in Hl. apply in_flat_map in Hl as [g [Hg Hl]]. apply in_map_iff in Hl as [q [E Hq]].
  inversion E; subst. apply Hall. exact Hg.
Qed.

Lemma rels1_In feats p c l : In (mkRel p c l) (rels1 feats) <->
  l = 1 /\ exists f, In f feats /\ fid f = c /\ In p (parents_of f).
Proof.
  unfold rels1. rewrite in_flat_map. split.
  - intros [f [Hf H]]. apply in_map_iff in H as [q [E Hq]]. inversion E; subst. split; [reflexivity|]. exists f. auto.
  - intros [El [f [Hf [Ec Hp]]]]. subst. exists f. split; [exact Hf|]. apply in_map_iff. exists p. auto.
Qed.

Section Characterise.
  Variables (call : nat -> row -> option str) (feats : list row) (st : ist).
  Hypothesis Hdom : in_domain feats = true.
  Hypothesis Himp : import_gff call SError [] (SList [KAttr IDK]) feats empty_st = Ok st.

  Lemma st_eq : s_rows st = map stored feats /\
    forall x, In x (s_rels st) <->
      In x (rels1 feats) \/
      In x (map (fun pc => mkRel (fst pc) (snd pc) 2) (rels2 feats (add_rels [] (rels1 feats)))).
  Proof.
    rewrite (l_import call feats Hdom) in Himp. inversion Himp; subst. cbn [s_rows s_rels]. split; [reflexivity|].
    intros x. rewrite !add_rels_In. simpl. tauto.
  Qed.

  Lemma l_rows : s_rows st = map stored feats.
  Proof. apply st_eq. Qed.

  Lemma l_level1 p c : In (mkRel p c 1) (s_rels st) <-> exists f, In f feats /\ fid f = c /\ In p (parents_of f).
  Proof.
    destruct st_eq as [_ H]. rewrite H, rels1_In. split.
    - intros [[_ A]|A]; [exact A|]. apply in_map_iff in A as [pc [E _]]. discriminate.
    - intros A. left. auto.
  Qed.

  Lemma in_r1 p c l : In (mkRel p c l) (add_rels [] (rels1 feats)) <-> l = 1 /\ In (mkRel p c 1) (s_rels st).
  Proof.
    rewrite add_rels_In, rels1_In, l_level1. simpl. split.
    - intros [[]|[A B]]. auto.
    - intros [A B]. right. auto.
  Qed.

  Lemma l_level2 x z : In (mkRel x z 2) (s_rels st) <->
    (exists f, In f feats /\ fid f = x) /\ exists y, In (mkRel x y 1) (s_rels st) /\ In (mkRel y z 1) (s_rels st).
  Proof.
    destruct st_eq as [_ H]. rewrite H, rels1_In. split.
    - intros [[A _]|A]; [discriminate|]. apply in_map_iff in A as [[x' z'] [E Hin]]. cbn in E. inversion E; subst.
      unfold rels2 in Hin. apply grand_pairs_In in Hin as [[r [Hr Er]] [y [Hy Hz]]]. cbn [s_rows s_rels] in *.
      apply in_map_iff in Hr as [f [Ef Hf]]. subst r. cbn in Er. split; [exists f; auto|].
      apply children_of_In in Hy. apply children_of_In in Hz.
      apply in_r1 in Hy as [_ Hy]. apply in_r1 in Hz as [_ Hz]. exists y. auto.
    - intros [[f [Hf Ef]] [y [Hy Hz]]]. right. apply in_map_iff. exists (x, z). split; [reflexivity|].
      unfold rels2. apply grand_pairs_In. cbn [s_rows s_rels]. split.
      + exists (stored f). split; [apply in_map; exact Hf|]. cbn. exact Ef.
      + exists y. split; apply children_of_In; apply in_r1; auto.
  Qed.

  Lemma l_levels_only x : In x (s_rels st) -> rel_level x = 1 \/ rel_level x = 2.
  Proof.
    destruct st_eq as [_ H]. rewrite H. intros [A|A].
    - destruct x as [p c l]. apply rels1_In in A as [A _]. left. exact A.
    - apply in_map_iff in A as [pc [E _]]. subst x. right. reflexivity.
  Qed.

  Lemma l_rows_ids_nodup : NoDup (map r_id (s_rows st)).
  Proof.
    rewrite l_rows, map_map. apply in_domain_spec in Hdom as [_ [_ Hnd]].
    erewrite map_ext; [exact Hnd|]. intros f. reflexivity.
  Qed.
End Characterise.

(* order of the lines does not matter *)
Theorem l_order_independent call feats feats' st st' :
  in_domain feats = true -> in_domain feats' = true -> Permutation feats feats' ->
  import_gff call SError [] (SList [KAttr IDK]) feats empty_st = Ok st ->
  import_gff call SError [] (SList [KAttr IDK]) feats' empty_st = Ok st' ->
  forall x, In x (s_rels st) <-> In x (s_rels st').
Proof.
  intros D D' P I I'.
  assert (L1 : forall p c, In (mkRel p c 1) (s_rels st) <-> In (mkRel p c 1) (s_rels st')).
  { intros p c. rewrite (l_level1 call feats st D I), (l_level1 call feats' st' D' I'). split.
    - intros [f [Hf R]]. exists f. split; [eapply Permutation_in; eassumption|exact R].
    - intros [f [Hf R]]. exists f. split; [eapply Permutation_in; [apply Permutation_sym|]; eassumption|exact R]. }
  intros [p c l]. split; intros H.
  - destruct (l_levels_only call feats st D I _ H) as [E|E]; cbn in E; subst l.
    + apply L1. exact H.
    + apply (l_level2 call feats st D I) in H as [[f [Hf Ef]] [y [A B]]].
      apply (l_level2 call feats' st' D' I'). split.
      * exists f. split; [eapply Permutation_in; eassumption|exact Ef].
      * exists y. split; apply L1; assumption.
  - destruct (l_levels_only call feats' st' D' I' _ H) as [E|E]; cbn in E; subst l.
    + apply L1. exact H.
    + apply (l_level2 call feats' st' D' I') in H as [[f [Hf Ef]] [y [A B]]].
      apply (l_level2 call feats st D I). split.
      * exists f. split; [eapply Permutation_in; [apply Permutation_sym|]; eassumption|exact Ef].
      * exists y. split; apply L1; assumption.
Qed.

(* _update_relations on ANY stored state (first import or a later update): it adds, at level 2, exactly the
   compositions of two level-1 rows that start at a stored feature - whatever level-2 rows are already there *)
Theorem l_relations_step st :
  (forall r, In r (s_rows st) -> id_clean (r_id r) = true) ->
  (forall x, In x (s_rels st) -> id_clean (rel_child x) = true) ->
  exists st', update_relations_gff st = Ok st' /\ s_rows st' = s_rows st /\ s_dups st' = s_dups st /\ s_auto st' = s_auto st /\
    forall x, In x (s_rels st') <->
      In x (s_rels st) \/
      (rel_level x = 2 /\ (exists r, In r (s_rows st) /\ r_id r = rel_parent x) /\
       exists y, In (mkRel (rel_parent x) y 1) (s_rels st) /\ In (mkRel y (rel_child x) 1) (s_rels st)).
Proof.
  intros Hrows Hrels. unfold update_relations_gff. rewrite read_pairs_clean.
  - eexists. split; [reflexivity|]. cbn [s_rows s_rels s_dups s_auto]. repeat split; try reflexivity.
    + intros H. apply add_rels_In in H as [H|H]; [left; exact H|]. right.
      apply in_map_iff in H as [[p c] [E Hin]]. subst x. cbn [rel_level rel_parent rel_child fst snd].
      apply grand_pairs_In in Hin as [Hr [y [Hy Hz]]]. apply children_of_In in Hy. apply children_of_In in Hz.
      split; [reflexivity|]. split; [exact Hr|]. exists y. split; assumption.
    + intros [H|[Hl [Hr [y [Hy Hz]]]]]; apply add_rels_In; [left; exact H|]. right.
      apply in_map_iff. exists (rel_parent x, rel_child x). split.
      * destruct x as [p c l]. cbn in *. subst l. reflexivity.
      * apply grand_pairs_In. split; [exact Hr|]. exists y. split; apply children_of_In; assumption.
  - intros p c Hin. apply grand_pairs_In in Hin as [[r [Hr Er]] [y [Hy Hz]]]. subst p. split; [apply Hrows; exact Hr|].
    apply children_of_In in Hz. exact (Hrels _ Hz).
Qed.

(* ---------- never its own relative ---------- *)
Section NotSelf.
  Variable call : nat -> row -> option str.

  (* "x never its own relative": on annotation graphs without self-parents and without two-cycles (in particular on the
     DAGs the property quantifies over) no relation row relates a feature to itself, at any level *)
  Theorem l_not_self feats st : in_domain feats = true ->
    import_gff call SError [] (SList [KAttr IDK]) feats empty_st = Ok st ->
    (forall f, In f feats -> ~ In (fid f) (parents_of f)) ->
    (forall f g, In f feats -> In g feats -> In (fid g) (parents_of f) -> ~ In (fid f) (parents_of g)) ->
    forall x l, ~ In (mkRel x x l) (s_rels st).
  Proof.
    intros D I H1 H2 x l Hin. destruct (l_levels_only call feats st D I _ Hin) as [L|L]; cbn [rel_level] in L; subst l.
    - apply (l_level1 call feats st D I) in Hin as [f [Hf [Ef Hp]]]. apply (H1 f Hf). rewrite Ef. exact Hp.
    - apply (l_level2 call feats st D I) in Hin as [_ [y [A B]]].
      apply (l_level1 call feats st D I) in A as [f1 [Hf1 [E1 P1]]].
      apply (l_level1 call feats st D I) in B as [f2 [Hf2 [E2 P2]]].
      apply (H2 f1 f2 Hf1 Hf2); [rewrite E2; exact P1|rewrite E1; exact P2].
  Qed.
End NotSelf.
