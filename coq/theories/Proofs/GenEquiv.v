(* Proofs/GenEquiv.v — the code generated from /repo's bins.py, merge_criteria.py
   and constants equals the hand-written models the theorems are about.
   Re-checked whenever Gen/*.v changes, i.e. whenever the Python source does. *)
From GV Require Import Base.Prelude Model.Bins Gen.GenLib Gen.GenBins.
From Coq Require Import ZifyBool.
Open Scope Z_scope.

Definition fmt_str (f : fmt) : str :=
  match f with Gff => U "gff"%bs | Bed => U "bed"%bs end.

Ltac norm_shift := repeat match goal with
 |- context [Z.shiftr (Z.shiftr ?a ?n) ?m] =>
     let k := eval vm_compute in (n + m) in
     replace (Z.shiftr (Z.shiftr a n) m) with (Z.shiftr a k)
       by (rewrite Z.shiftr_shiftr by lia; reflexivity)
 end.

(* decide or split every `if` whose condition does not mention a shift *)
Ltac case_guards := repeat (match goal with
  | |- context [if ?c then _ else _] =>
      lazymatch c with
      | context [Z.shiftr] => fail
      | context [if _ then _ else _] => fail
      | _ => first [ replace c with true by lia
                   | replace c with false by lia
                   | destruct c eqn:? ]
      end
  end; cbv iota).

Ltac case_shifts := repeat (norm_shift; match goal with
  | |- context [if ?a =? ?b then _ else _] => destruct (a =? b) eqn:?; [try reflexivity|]
  end; cbn [for_loop one_loop andb map rev app]).

Ltac eq_struct := repeat match goal with
  | |- RSet _ = RSet _ => f_equal
  | |- RInt _ = RInt _ => f_equal
  | |- _ :: _ = _ :: _ => f_equal
  | |- (_, _) = (_, _) => f_equal
  end; try reflexivity; try lia.

Theorem gen_bins_equiv f s e one : gen_bins s e (fmt_str f) one = bins f s e one.
Proof.
  unfold gen_bins, bins, in_range, set_ranges, levels, MAX_CHROM_SIZE, MAXC, OFFSETS,
    FIRST_SHIFT, NEXT_SHIFT.
  destruct f; cbn [fmt_str coord_off];
  repeat match goal with |- context [dict_get COORD_OFFSETS ?k] =>
    let v := eval vm_compute in (dict_get COORD_OFFSETS k) in
    change (dict_get COORD_OFFSETS k) with v end; cbv beta iota;
  destruct one; case_guards; try reflexivity;
  cbn [for_loop one_loop andb map rev app]; case_shifts;
  norm_shift; cbn [for_loop one_loop andb map rev app].
  all: eq_struct.
Qed.

(* the defaults of the Python signature: fmt="gff", one=True *)
Lemma gen_defaults : gen_default_fmt = fmt_str Gff /\ gen_default_one = true.
Proof. split; reflexivity. Qed.
