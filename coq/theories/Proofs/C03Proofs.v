(* Proofs/C03Proofs.v — the GTF importer: relations of a line, extents as min/max, the effect of
   the disable_infer_* flags, derived features keyed by their id, explicit lines kept. *)
From GV Require Import Base.Prelude Base.PyStr Model.Bins Model.DB Model.Parser Model.Import Model.GtfSpec
  Proofs.C04Proofs.
From Coq Require Import ZifyBool.
Open Scope Z_scope.

(* ---------- relations of one line ---------- *)
Theorem l_no_self_relation g f id x : In x (gtf_relations g f id) -> rel_parent x <> rel_child x.
Proof.
  unfold gtf_relations. intros H. apply in_app_or in H as [H|H].
  - destruct (dget (g_tkey g) (r_attrs f)) as [[|p ps]|]; try contradiction.
    destruct (str_eqb p id) eqn:E; [contradiction|]. destruct H as [H|[]]. subst x. cbn.
    apply str_eqb_neq in E. exact E.
  - destruct (dget (g_gkey g) (r_attrs f)) as [[|gp gps]|]; try contradiction.
    apply in_app_or in H as [H|H].
    + destruct (str_eqb id gp || _) eqn:E; [contradiction|]. destruct H as [H|[]]. subst x. cbn.
      apply orb_false_iff in E as [E _]. apply str_eqb_neq in E. congruence.
    + destruct (dget (g_tkey g) (r_attrs f)) as [[|p ps]|]; try contradiction.
      destruct (str_eqb p gp) eqn:E; [contradiction|]. destruct H as [H|[]]. subst x. cbn.
      apply str_eqb_neq in E. congruence.
Qed.

(* an ordinary line (neither a gene nor a transcript line) stored under a key different from its
   transcript and gene ids: child of the transcript, grandchild of the gene, transcript child of gene *)
Theorem l_ordinary_line g f id t gn :
  first_val (g_tkey g) f = Some t -> first_val (g_gkey g) f = Some gn -> id <> t -> id <> gn -> t <> gn ->
  gtf_relations g f id = [mkRel t id 1; mkRel gn id 2; mkRel gn t 1].
Proof.
  unfold first_val, gtf_relations. intros Ht Hg H1 H2 H3.
  destruct (dget (g_tkey g) (r_attrs f)) as [[|p ps]|]; try discriminate. inversion Ht; subst p.
  destruct (dget (g_gkey g) (r_attrs f)) as [[|q qs]|]; try discriminate. inversion Hg; subst q.
  assert (E1 : str_eqb t id = false) by (apply str_eqb_neq; congruence).
  assert (E2 : str_eqb id gn = false) by (apply str_eqb_neq; congruence).
  assert (E3 : str_eqb id t = false) by (apply str_eqb_neq; congruence).
  assert (E4 : str_eqb t gn = false) by (apply str_eqb_neq; congruence).
  rewrite E1, E2, E3, E4. reflexivity.
Qed.

(* an explicit transcript line stored under its own transcript id: a level-1 child of its gene, nothing else *)
Theorem l_transcript_line g f t gn :
  first_val (g_tkey g) f = Some t -> first_val (g_gkey g) f = Some gn -> t <> gn ->
  gtf_relations g f t = [mkRel gn t 1].
Proof.
  unfold first_val, gtf_relations. intros Ht Hg H3.
  destruct (dget (g_tkey g) (r_attrs f)) as [[|p ps]|]; try discriminate. inversion Ht; subst p.
  destruct (dget (g_gkey g) (r_attrs f)) as [[|q qs]|]; try discriminate. inversion Hg; subst q.
  rewrite str_eqb_refl. assert (E4 : str_eqb t gn = false) by (apply str_eqb_neq; congruence).
  rewrite E4. cbn [orb]. rewrite ?orb_true_r. reflexivity.
Qed.

(* an explicit gene line stored under its own gene id: no relation at all *)
Theorem l_gene_line g f gn :
  first_val (g_tkey g) f = None ->
  first_val (g_gkey g) f = Some gn -> gtf_relations g f gn = [].
Proof.
  unfold first_val, gtf_relations. intros Ht Hg.
  destruct (dget (g_gkey g) (r_attrs f)) as [[|q qs]|]; try discriminate. inversion Hg; subst q.
  rewrite str_eqb_refl. destruct (dget (g_tkey g) (r_attrs f)) as [[|p ps]|]; try discriminate; reflexivity.
Qed.

(* ---------- extents ---------- *)
Lemma omin_fold_spec : forall (l : list (option Z)) m, fold_right omin None l = Some m ->
  In (Some m) l /\ forall x, In (Some x) l -> m <= x.
Proof.
  induction l as [|a l IH]; intros m H; [discriminate|]. cbn [fold_right] in H.
  destruct (fold_right omin None l) as [r|] eqn:E.
  - destruct (IH r eq_refl) as [Hin Hle]. destruct a as [x|]; cbn in H; inversion H; subst.
    + split.
      * destruct (Z.min_spec x r) as [[_ M]|[_ M]]; rewrite M; [left; reflexivity|right; exact Hin].
      * intros y [Hy|Hy]; [inversion Hy; lia|specialize (Hle y Hy); lia].
    + split; [right; exact Hin|]. intros y [Hy|Hy]; [discriminate|apply Hle; exact Hy].
  - destruct a as [x|]; cbn in H; inversion H; subst. split; [left; reflexivity|].
    intros y [Hy|Hy]; [inversion Hy; lia|].
    exfalso. clear -E Hy. induction l as [|b l IH]; [contradiction|]. cbn in E.
    destruct (fold_right omin None l); destruct b; cbn in E; try discriminate.
    destruct Hy as [Hy|Hy]; [discriminate|]. apply IH; [reflexivity|exact Hy].
Qed.

Lemma omax_fold_spec : forall (l : list (option Z)) m, fold_right omax None l = Some m ->
  In (Some m) l /\ forall x, In (Some x) l -> x <= m.
Proof.
  induction l as [|a l IH]; intros m H; [discriminate|]. cbn [fold_right] in H.
  destruct (fold_right omax None l) as [r|] eqn:E.
  - destruct (IH r eq_refl) as [Hin Hle]. destruct a as [x|]; cbn in H; inversion H; subst.
    + split.
      * destruct (Z.max_spec x r) as [[_ M]|[_ M]]; rewrite M; [right; exact Hin|left; reflexivity].
      * intros y [Hy|Hy]; [inversion Hy; lia|specialize (Hle y Hy); lia].
    + split; [right; exact Hin|]. intros y [Hy|Hy]; [discriminate|apply Hle; exact Hy].
  - destruct a as [x|]; cbn in H; inversion H; subst. split; [left; reflexivity|].
    intros y [Hy|Hy]; [inversion Hy; lia|].
    exfalso. clear -E Hy. induction l as [|b l IH]; [contradiction|]. cbn in E.
    destruct (fold_right omax None l); destruct b; cbn in E; try discriminate.
    destruct Hy as [Hy|Hy]; [discriminate|]. apply IH; [reflexivity|exact Hy].
Qed.

Definition kids_of (g : gtfcfg) (st : ist) (p : str) : list row :=
  filter (fun r => str_eqb (r_ftype r) (g_sub g)
                   && existsb (fun x => str_eqb (rel_parent x) p && str_eqb (rel_child x) (r_id r)) (s_rels st))
         (s_rows st).

(* the derived extent is exactly minimum start .. maximum end of the related subfeatures, on the
   seqid and strand of one of them *)
Theorem l_extent_min_max g st p s e strand seqid : extent g st p = Some (s, e, strand, seqid) ->
  (exists k, In k (kids_of g st p) /\ r_start k = Some s) /\
  (forall k x, In k (kids_of g st p) -> r_start k = Some x -> s <= x) /\
  (exists k, In k (kids_of g st p) /\ r_end k = Some e) /\
  (forall k x, In k (kids_of g st p) -> r_end k = Some x -> x <= e) /\
  (exists k, In k (kids_of g st p) /\ r_strand k = strand /\ r_seqid k = seqid).
Proof.
  unfold extent. fold (kids_of g st p). destruct (kids_of g st p) as [|k0 ks] eqn:K; [discriminate|].
  destruct (fold_right omin None (map r_start (k0 :: ks))) as [mn|] eqn:Emin; [|discriminate].
  destruct (fold_right omax None (map r_end (k0 :: ks))) as [mx|] eqn:Emax; [|discriminate].
  intros H. inversion H; subst.
  destruct (omin_fold_spec _ _ Emin) as [A1 A2]. destruct (omax_fold_spec _ _ Emax) as [B1 B2].
  apply in_map_iff in A1 as [ka [Ea Ha]]. apply in_map_iff in B1 as [kb [Eb Hb]].
  split; [exists ka; auto|]. split.
  - intros k x Hk Hx. apply A2. apply in_map_iff. exists k. auto.
  - split; [exists kb; auto|]. split.
    + intros k x Hk Hx. apply B2. apply in_map_iff. exists k. auto.
    + exists k0. split; [left; reflexivity|auto].
Qed.

(* ---------- flags ---------- *)
Section Flags.
  Variable call : nat -> row -> option str.

  Theorem l_both_disabled g force spec st : g_no_genes g = true -> g_no_transcripts g = true ->
    update_relations_gtf call g force spec st = Ok st.
  Proof. intros A B. unfold update_relations_gtf. rewrite A, B. reflexivity. Qed.

  Lemma derive_types g st : forall ps last ds, derive g st ps last = Ok ds ->
    forall d, In d ds -> (r_ftype d = TRANSCRIPT /\ g_no_transcripts g = false)
                         \/ (r_ftype d = GENE /\ g_no_genes g = false).
  Proof.
    induction ps as [|[t gn] ps IH]; intros last ds H d Hd.
    - inversion H; subst. contradiction.
    - cbn [derive] in H.
      destruct (g_no_transcripts g) eqn:NT; destruct (g_no_genes g) eqn:NG;
        repeat match type of H with
        | context [extent g st ?x] => destruct (extent g st x) as [[[[? ?] ?] ?]|]
        | context [match last with Some _ => _ | None => _ end] => destruct last
        | context [if str_eqb ?a ?b then _ else _] => destruct (str_eqb a b)
        end;
        destruct (derive g st ps (Some gn)) as [c|] eqn:D; try discriminate;
        inversion H; subst; cbn in Hd;
        repeat (destruct Hd as [Hd|Hd]; [subst d; cbn; auto|]);
        try (specialize (IH _ _ D d Hd); rewrite ?NT, ?NG in IH; exact IH); try contradiction.
  Qed.

  (* disable_infer_transcripts suppresses exactly the derived transcripts, disable_infer_genes the genes *)
  Theorem l_flags g st ds : derive g st (tg_pairs g st) None = Ok ds ->
    (g_no_transcripts g = true -> forall d, In d ds -> r_ftype d = GENE) /\
    (g_no_genes g = true -> forall d, In d ds -> r_ftype d = TRANSCRIPT).
  Proof.
    intros H. split; intros F d Hd; destruct (derive_types g st _ _ _ H d Hd) as [[A B]|[A B]]; congruence.
  Qed.

  (* ---------- a derived feature arrives ---------- *)
  (* retrievable by its id: with the id_spec that goes with the keys, a derived transcript is keyed
     by its transcript id, a derived gene by its gene id *)
  Theorem l_derived_key g t gn x a :
    is_field_form (g_tkey g) = false -> is_field_form (g_gkey g) = false -> str_eqb (g_gkey g) (g_tkey g) = false ->
    let '(s, e, strand, seqid) := x in
    id_handler call (gtf_spec g) (mkRow [] seqid DERIVED TRANSCRIPT (Some s) (Some e) DOTs strand DOTs
                                        [(g_tkey g, [t]); (g_gkey g, [gn])] [] None) a = Ok (t, a) /\
    id_handler call (gtf_spec g) (mkRow [] seqid DERIVED GENE (Some s) (Some e) DOTs strand DOTs
                                        [(g_gkey g, [gn])] [] None) a = Ok (gn, a).
  Proof.
    intros F1 F2 Ne. destruct x as [[[s e] strand] seqid]. unfold id_handler, gtf_spec. cbn [dict_spec r_ftype].
    change (str_eqb TRANSCRIPT GENE) with false. change (str_eqb TRANSCRIPT TRANSCRIPT) with true.
    change (str_eqb GENE GENE) with true. cbv iota. cbn [try_keys r_attrs dget]. rewrite F1, F2.
    rewrite !str_eqb_refl. split; reflexivity.
  Qed.

  (* a line already stored under that id stays the single feature: no row is added, no key changes *)
  Theorem l_explicit_kept force spec st f0 id a st' :
    id_handler call spec f0 (s_auto st) = Ok (id, a) -> has_id id (s_rows st) = true ->
    insert_derived call force spec st f0 = Ok st' ->
    map r_id (s_rows st') = map r_id (s_rows st) /\ s_rels st' = s_rels st.
  Proof.
    intros Hid Hdup. unfold insert_derived. destruct (derived_clean f0); [|discriminate]. cbn [negb].
    rewrite Hid. cbn [s_rows]. rewrite Hdup.
    destruct (rev (filter _ _)) as [|target rest].
    - destruct (fresh_auto _ _ _ _) as [[nid a']|]; [|discriminate]. intros H. inversion H. auto.
    - intros H. inversion H. cbn [s_rows s_rels]. split; [|reflexivity].
      apply ids_update. intros r. reflexivity.
  Qed.

  (* a fresh id: the derived feature is appended, everything else untouched *)
  Theorem l_derived_new force spec st f0 id a :
    derived_clean f0 = true -> id_handler call spec f0 (s_auto st) = Ok (id, a) -> has_id id (s_rows st) = false ->
    insert_derived call force spec st f0 =
    Ok (mkSt (s_rows st ++ [set_bin (set_id id f0)]) (s_rels st) (s_dups st) a).
  Proof. intros C Hid Hnew. unfold insert_derived. rewrite C, Hid. cbn [negb s_rows]. rewrite Hnew. reflexivity. Qed.
End Flags.
