From GV Require Import Base.Prelude Base.PyStr Model.Bins Model.DB Model.Parser Model.Import Model.GtfSpec Model.Machine.
Open Scope Z_scope.

Section Bridge.
  Variable call : nat -> row -> option str.

  Lemma run_track_fst kind strat spec : forall fs st,
    fst (run_track call kind strat spec fs st) = run_steps (step_imp call kind strat spec) fs st.
  Proof.
    induction fs as [|f fs IH]; intros st; cbn [run_track run_steps]; [reflexivity|].
    destruct (step_imp call kind strat spec st f) as [s1|e]; [apply IH|reflexivity].
  Qed.

  (* a successful update() of the machine IS the importer run on the file's tables with the open object's counters:
     every theorem about import_gff / import_gtf (C02_history_closed, the C05 theorems, C12_import_gff_bins, C04_unique) therefore
     speaks about machine histories as well *)
  Theorem l_update_is_import_gff s fs strat spec w backup st'' : fs <> [] ->
    import_gff call strat [] spec fs (with_auto (m_disk s) (m_mem s)) = Ok st'' ->
    do_update call KGff s fs strat spec w None backup =
    (mkM (with_auto st'' (persist (s_auto (m_disk s)) (s_auto st''))) (s_auto st'') (if backup then Some (m_disk s) else m_bak s), Ok tt).
  Proof.
    intros Hne Himp. unfold do_update. cbn [andb]. destruct fs as [|f0 fs0]; [congruence|].
    unfold import_gff in Himp.
    pose proof (run_track_fst KGff strat spec (f0 :: fs0) (with_auto (m_disk s) (m_mem s))) as RT.
    destruct (run_track call KGff strat spec (f0 :: fs0) (with_auto (m_disk s) (m_mem s))) as [r mem'] eqn:E. cbn [fst] in RT.
    change (step_imp call KGff strat spec) with (step_gff call strat [] spec) in RT. rewrite <- RT in Himp.
    destruct r as [st'|e]; [|discriminate]. cbn [rel_imp]. rewrite Himp. reflexivity.
  Qed.

  Theorem l_update_is_import_gtf s fs strat spec w backup st'' : fs <> [] ->
    import_gtf call gtf_default strat [] spec fs (with_auto (m_disk s) (m_mem s)) = Ok st'' ->
    do_update call KGtf s fs strat spec w None backup =
    (mkM (with_auto st'' (persist (s_auto (m_disk s)) (s_auto st''))) (s_auto st'') (if backup then Some (m_disk s) else m_bak s), Ok tt).
  Proof.
    intros Hne Himp. unfold do_update. cbn [andb]. destruct fs as [|f0 fs0]; [congruence|].
    unfold import_gtf in Himp.
    pose proof (run_track_fst KGtf strat spec (f0 :: fs0) (with_auto (m_disk s) (m_mem s))) as RT.
    destruct (run_track call KGtf strat spec (f0 :: fs0) (with_auto (m_disk s) (m_mem s))) as [r mem'] eqn:E. cbn [fst] in RT.
    change (step_imp call KGtf strat spec) with (step_gtf call gtf_default strat [] spec) in RT. rewrite <- RT in Himp.
    destruct r as [st'|e]; [|discriminate]. cbn [rel_imp]. rewrite Himp. reflexivity.
  Qed.
End Bridge.
