(* Proofs/C07Proofs.v — C07 at the level of the property: for every style and every
   well-formed line, (1) the inference path of the parser returns the line's attributes and
   the style's canonical dialect, (2) printing with that dialect reproduces the attribute
   column, (3) feature_from_line inverts render_line and str(feature) is the line. *)
From GV Require Import Base.Prelude Base.PyStr Base.Utf8 Base.WordTable Model.DB Model.Parser Model.Grammar
  Proofs.SplitJoin Proofs.StrLemmas Proofs.IntStr Proofs.C08Proofs Proofs.C08Round Proofs.C07Parse.
Open Scope N_scope.

(* ---------- characters of quoted text ---------- *)
Lemma dq_not_tq : mem_char DQ to_quote = false.
Proof. vm_compute. reflexivity. Qed.

Lemma hexdigit_props n : n < 16 -> hexdigit n <> DQ /\ is_space (hexdigit n) = false.
Proof.
  intros H. unfold hexdigit, DQ. destruct (N.ltb_spec n 10); (split; [lia|apply space_range; lia]).
Qed.

Lemma hd_quote c v : hd 0 (quote to_quote (c :: v)) = if mem_char c to_quote then PCT else c.
Proof.
  change (quote to_quote (c :: v)) with (quote_char to_quote c ++ quote to_quote v).
  unfold quote_char. destruct (mem_char c to_quote); reflexivity.
Qed.

Lemma quote_app tq a b : quote tq (a ++ b) = quote tq a ++ quote tq b.
Proof. unfold quote. apply flat_map_app. Qed.

Lemma last_quote v c : last (quote to_quote (v ++ [c])) 0 = if mem_char c to_quote then hexdigit (c mod 16) else c.
Proof.
  rewrite quote_app. change (quote to_quote [c]) with (quote_char to_quote c ++ []). rewrite app_nil_r.
  unfold quote_char. destruct (mem_char c to_quote).
  - rewrite last_app_ne by discriminate. reflexivity.
  - rewrite last_last. reflexivity.
Qed.

Lemma tq_not_dq c : mem_char c to_quote = true -> c <> DQ.
Proof. intros H E. subst c. rewrite dq_not_tq in H. discriminate. Qed.

Definition looks_quoted (v : str) : bool := (hd 0 v =? DQ) && (last v 0 =? DQ).

Lemma strip_quotes_none v : v = [] \/ looks_quoted v = false -> strip_quotes v = None.
Proof.
  intros [H|H]; [subst; reflexivity|]. unfold strip_quotes, looks_quoted in *. destruct v as [|c v]; [reflexivity|].
  cbn [hd] in H. rewrite H. reflexivity.
Qed.

(* first / last character of a quoted value *)
Lemma quote_edges v : v <> [] ->
  (hd 0 (quote to_quote v) =? DQ) = (hd 0 v =? DQ) /\ (last (quote to_quote v) 0 =? DQ) = (last v 0 =? DQ)
  /\ (is_space (hd 0 v) = false -> is_space (hd 0 (quote to_quote v)) = false)
  /\ (is_space (last v 0) = false -> is_space (last (quote to_quote v) 0) = false).
Proof.
  intros Hne. split; [|split; [|split]].
  - destruct v as [|c v]; [congruence|]. rewrite hd_quote. cbn [hd]. destruct (mem_char c to_quote) eqn:E; [|reflexivity].
    apply tq_not_dq in E. rewrite (neqb_false _ _ E). reflexivity.
  - destruct (exists_last Hne) as [v' [c E]]. subst v. rewrite last_quote, last_last.
    destruct (mem_char c to_quote) eqn:E; [|reflexivity]. apply tq_not_dq in E. rewrite (neqb_false _ _ E).
    apply neqb_false. apply hexdigit_props. apply N.mod_lt. discriminate.
  - destruct v as [|c v]; [congruence|]. rewrite hd_quote. cbn [hd]. destruct (mem_char c to_quote); [reflexivity|auto].
  - destruct (exists_last Hne) as [v' [c E]]. subst v. rewrite last_quote, last_last.
    destruct (mem_char c to_quote); [|auto]. intros _. apply hexdigit_props. apply N.mod_lt. discriminate.
Qed.

(* ---------- from the boolean well-formedness to the proof-level conditions ---------- *)
Lemma key_ok_word k : key_ok k = true -> word_key k.
Proof.
  unfold key_ok. destruct k as [|c k]; [discriminate|]. intros H. split; [discriminate|].
  rewrite forallb_forall in H. exact H.
Qed.

Lemma free_of_spec bad v c : free_of bad v = true -> In c bad -> ~ In c v.
Proof.
  unfold free_of. rewrite forallb_forall. intros H Hc Hin. specialize (H c Hin). apply negb_true_iff in H.
  apply mem_char_false in H. contradiction.
Qed.

Lemma no_edge_space_spec v : no_edge_space v = true -> v <> [] /\ is_space (hd 0 v) = false /\ is_space (last v 0) = false.
Proof.
  unfold no_edge_space. destruct v as [|c v]; [discriminate|]. intros H. apply andb_prop in H as [H1 H2].
  apply negb_true_iff in H1. apply negb_true_iff in H2. split; [discriminate|]. split; assumption.
Qed.

Lemma semi_in_tq : In SEMI to_quote. Proof. apply mem_char_In. vm_compute. reflexivity. Qed.
Lemma comma_in_tq : In COMMA to_quote. Proof. apply mem_char_In. vm_compute. reflexivity. Qed.
Lemma pct_in_tq' : In PCT to_quote. Proof. apply mem_char_In. vm_compute. reflexivity. Qed.

Lemma rv_ok_of_val kv v : val_ok kv v = true ->
  forall rv, In rv (rvals kv [v]) -> rv_ok rv.
Proof.
  unfold val_ok. intros H rv Hrv. apply andb_prop in H as [He Hk]. apply no_edge_space_spec in He as [Hne [Hh Hl]].
  destruct kv; cbn [rvals map] in Hrv; destruct Hrv as [Hrv|[]]; subst rv.
  - destruct (quote_edges v Hne) as [_ [_ [Eh El]]]. split; [apply quote_nonempty; exact Hne|].
    split; [apply l_quote_no_structural; simpl; auto 10|]. split; [apply l_quote_no_structural; simpl; auto 10|]. auto.
  - split; [exact Hne|]. split; [apply (free_of_spec _ _ _ Hk); simpl; auto|]. split; [apply (free_of_spec _ _ _ Hk); simpl; auto|]. auto.
  - apply andb_prop in Hk as [Hk _]. split; [exact Hne|].
    split; [apply (free_of_spec _ _ _ Hk); exact comma_in_tq|]. split; [apply (free_of_spec _ _ _ Hk); exact semi_in_tq|]. auto.
Qed.

Lemma rvals_In kv vs rv : In rv (rvals kv vs) -> exists v, In v vs /\ In rv (rvals kv [v]).
Proof.
  destruct kv; cbn [rvals]; intros H.
  - apply in_map_iff in H as [v [E Hv]]. exists v. split; [exact Hv|]. left. exact E.
  - exists rv. split; [exact H|left; reflexivity].
  - exists rv. split; [exact H|left; reflexivity].
Qed.

Lemma rvals_ok kv vs : forallb (val_ok kv) vs = true -> forall rv, In rv (rvals kv vs) -> rv_ok rv.
Proof.
  intros H rv Hrv. apply rvals_In in Hrv as [v [Hv Hrv]]. rewrite forallb_forall in H.
  exact (rv_ok_of_val kv v (H v Hv) rv Hrv).
Qed.

(* looks_quoted is preserved by rendering a value *)
Lemma rvals_looks kv v : val_ok kv v = true -> is_spq kv = false ->
  forall rv, In rv (rvals kv [v]) -> (hd 0 rv =? DQ) = (hd 0 v =? DQ) /\ (last rv 0 =? DQ) = (last v 0 =? DQ).
Proof.
  intros H Hs rv Hrv. unfold val_ok in H. apply andb_prop in H as [He _]. apply no_edge_space_spec in He as [Hne _].
  destruct kv; [|discriminate|]; cbn [rvals map] in Hrv; destruct Hrv as [Hrv|[]]; subst rv.
  - destruct (quote_edges v Hne) as [A [B _]]. split; assumption.
  - split; reflexivity.
Qed.

Lemma rvals_nil kv : rvals kv [] = [].
Proof. destruct kv; reflexivity. Qed.

Lemma rvals_cons kv v vs : rvals kv (v :: vs) = rvals kv [v] ++ rvals kv vs.
Proof. destruct kv; reflexivity. Qed.

Lemma rvals_single kv v : exists rv, rvals kv [v] = [rv].
Proof. destruct kv; eexists; reflexivity. Qed.

Lemma rvals_length kv vs : length (rvals kv vs) = length vs.
Proof. destruct kv; cbn [rvals]; [apply map_length|reflexivity..]. Qed.

Lemma rvals_last kv vs v : rvals kv (vs ++ [v]) = rvals kv vs ++ rvals kv [v].
Proof. destruct kv; cbn [rvals]; [apply map_app|reflexivity..]. Qed.

(* the joined value string of an unquoted style is not mistaken for a quoted one *)
Lemma joined_nq kv vs : is_spq kv = false -> forallb (val_ok kv) vs = true ->
  match vs with [] => true | v0 :: _ => negb ((hd 0 v0 =? DQ) && (last (last vs []) 0 =? DQ)) end = true ->
  strip_quotes (join [COMMA] (rvals kv vs)) = None.
Proof.
  intros Hs Hv Hj. apply strip_quotes_none. destruct vs as [|v0 vs]; [left; rewrite rvals_nil; reflexivity|]. right.
  pose proof (rvals_ok kv _ Hv) as Hok.
  assert (Hne : rvals kv (v0 :: vs) <> []) by (intro E; apply (f_equal (@length _)) in E; rewrite rvals_length in E; discriminate).
  unfold looks_quoted. rewrite join_last; [|exact Hne|intros p Hp; apply (Hok p Hp)].
  apply negb_true_iff in Hj.
  assert (Hv0 : val_ok kv v0 = true) by (cbn [forallb] in Hv; apply andb_prop in Hv as [A _]; exact A).
  (* head *)
  rewrite rvals_cons. destruct (rvals_single kv v0) as [r0 E0]. rewrite E0. cbn [app].
  rewrite join_hd by (apply (Hok r0); rewrite rvals_cons, E0; left; reflexivity).
  destruct (rvals_looks kv v0 Hv0 Hs r0) as [Hh _]; [rewrite E0; left; reflexivity|]. rewrite Hh.
  (* last *)
  assert (Hvl : exists vs' vl, v0 :: vs = vs' ++ [vl]).
  { destruct (@exists_last _ (v0 :: vs)) as [vs' [vl El]]; [discriminate|]. exists vs', vl. exact El. }
  destruct Hvl as [vs' [vl El]].
  assert (Hvlok : val_ok kv vl = true).
  { rewrite forallb_forall in Hv. apply Hv. rewrite El. apply in_or_app. right. left. reflexivity. }
  replace (r0 :: rvals kv vs) with (rvals kv (v0 :: vs)) by (rewrite rvals_cons, E0; reflexivity).
  rewrite El in *. rewrite rvals_last. destruct (rvals_single kv vl) as [rl El']. rewrite El'. rewrite !last_last.
  destruct (rvals_looks kv vl Hvlok Hs rl) as [_ Hl]; [rewrite El'; left; reflexivity|]. rewrite Hl.
  rewrite last_last in Hj. exact Hj.
Qed.

Record wf_item (st : style) (kv : str * list str) : Prop := {
  wi_key : key_ok (fst kv) = true;
  wi_vals : forallb (val_ok (st_kv st)) (snd kv) = true;
  wi_nq : joined_not_quoted (st_kv st) (st_repeated st) (snd kv) = true }.

Lemma wf_attrs_spec st a : wf_attrs st a = true ->
  fsep_ok (st_fsep st) = true /\ NoDup (map fst a) /\ (forall kv, In kv a -> wf_item st kv) /\
  match st_kv st, a with KvEq, (_, []) :: _ => False | _, _ => True end.
Proof.
  unfold wf_attrs. intros H. apply andb_prop in H as [H H4]. apply andb_prop in H as [H H3]. apply andb_prop in H as [H1 H2].
  split; [exact H1|]. split; [apply keys_unique_NoDup; exact H2|]. split.
  - rewrite forallb_forall in H3. intros kv Hkv. specialize (H3 kv Hkv).
    apply andb_prop in H3 as [H3 C]. apply andb_prop in H3 as [A B]. constructor; assumption.
  - destruct (st_kv st); try exact I. destruct a as [|[k [|v vs]] a]; try exact I. discriminate.
Qed.

Lemma it_ok_plain st kv : st_repeated st = false -> wf_item st kv -> it_ok (st_kv st) (fst kv, rvals (st_kv st) (snd kv)).
Proof.
  intros Hr [Hk Hv Hq]. split; [apply key_ok_word; exact Hk|]. cbn [fst snd]. split; [apply rvals_ok; exact Hv|].
  intros Hs. apply joined_nq; [exact Hs|exact Hv|].
  unfold joined_not_quoted in Hq. rewrite Hr in Hq. destruct (st_kv st); [|discriminate|]; exact Hq.
Qed.

Lemma it_ok_single st k v vs : st_repeated st = true -> wf_item st (k, vs) -> In v vs ->
  it_ok (st_kv st) (k, rvals (st_kv st) [v]).
Proof.
  intros Hr [Hk Hv Hq] Hin. cbn [fst snd] in *. rewrite forallb_forall in Hv.
  assert (Hv1 : forallb (val_ok (st_kv st)) [v] = true) by (cbn [forallb]; rewrite (Hv v Hin); reflexivity).
  split; [apply key_ok_word; exact Hk|]. cbn [fst snd]. split; [apply rvals_ok; exact Hv1|].
  intros Hs. apply joined_nq; [exact Hs|exact Hv1|]. cbn [last].
  unfold joined_not_quoted in Hq. rewrite Hr in Hq.
  destruct (st_kv st); [|discriminate|]; rewrite forallb_forall in Hq; exact (Hq v Hin).
Qed.

Lemma it_ok_flag st k : key_ok k = true -> it_ok (st_kv st) (k, rvals (st_kv st) []).
Proof.
  intros Hk. split; [apply key_ok_word; exact Hk|]. cbn [fst snd]. rewrite rvals_nil. split; [intros v []|reflexivity].
Qed.

Lemma items_ok st a : (forall kv, In kv a -> wf_item st kv) ->
  forall it, In it (ritems (st_kv st) (style_items st a)) -> it_ok (st_kv st) it.
Proof.
  intros Hwf it Hit. unfold style_items in Hit. destruct (st_repeated st) eqn:Hr.
  - unfold ritems in Hit. apply in_map_iff in Hit as [it0 [E Hit0]]. subst it.
    unfold expand_repeated in Hit0. apply in_flat_map in Hit0 as [kv [Hkv Hit0]]. pose proof (Hwf kv Hkv) as W.
    destruct kv as [k vs]. cbn [fst snd] in Hit0. destruct vs as [|v1 [|v2 vs]].
    + destruct Hit0 as [E|[]]. subst it0. apply it_ok_flag. apply W.
    + destruct Hit0 as [E|[]]. subst it0. cbn [fst snd]. eapply it_ok_single; [exact Hr|exact W|left; reflexivity].
    + apply in_map_iff in Hit0 as [v [E Hv]]. subst it0. cbn [fst snd]. eapply it_ok_single; [exact Hr|exact W|exact Hv].
  - unfold ritems in Hit. apply in_map_iff in Hit as [kv [E Hkv]]. subst it. apply it_ok_plain; [exact Hr|apply Hwf; exact Hkv].
Qed.

Lemma parts_ok_items kv items : (forall it, In it items -> it_ok kv it) -> parts_ok (map (part kv) items).
Proof.
  intros Hok p Hp. apply in_map_iff in Hp as [it [E Hit]]. subst p. specialize (Hok it Hit).
  pose proof (part_hd kv it Hok) as Hh. destruct (ascii_word_not _ Hh) as [A [B _]].
  pose proof (part_last kv it Hok) as Hl.
  split; [apply part_nonempty; exact Hok|]. split; [apply part_no_semi; exact Hok|]. split; [exact B|]. split; [|exact A].
  intros E. rewrite E in Hl. discriminate.
Qed.

Lemma render_items_parts st items : map (render_item st) items = map (part (st_kv st)) (ritems (st_kv st) items).
Proof. unfold ritems. rewrite map_map. apply map_ext. intros it. apply render_item_part. Qed.

(* ---------- unquote on text without '%' ---------- *)
Lemma decode_nopct : forall s run, ~ In PCT s -> forallb (fun b => b <? 128) run = true ->
  decode_tokens (unq_tokens s) run = rev run ++ s.
Proof.
  induction s as [|c s IH]; intros run Hp Hr.
  - simpl. rewrite app_nil_r. apply utf8_ascii. rewrite forallb_rev. exact Hr.
  - assert (Hc : c <> PCT) by (intros E; apply Hp; left; exact E).
    assert (Hs : ~ In PCT s) by (intros E; apply Hp; right; exact E).
    cbn [unq_tokens]. change 37 with PCT. rewrite (neqb_false _ _ Hc). destruct (c <? 128) eqn:E.
    + cbn [decode_tokens]. rewrite IH; [|exact Hs|cbn [forallb]; rewrite E; exact Hr].
      cbn [rev]. rewrite <- app_assoc. reflexivity.
    + cbn [decode_tokens]. rewrite IH by (try exact Hs; reflexivity). cbn [rev app].
      rewrite utf8_ascii by (rewrite forallb_rev; exact Hr). reflexivity.
Qed.

Lemma unquote_nopct s : ~ In PCT s -> unquote s = s.
Proof. intros H. unfold unquote. rewrite decode_nopct by (try exact H; reflexivity). reflexivity. Qed.

(* ---------- the inference path on a rendered attribute column ---------- *)
Definition split_infer_body (isw : N -> bool) (s : str) : attrs * dialect :=
    let trailing := last s 0 =? SEMI in
    let s := if trailing then removelast s else s in
    let '(sep, parts) := choose_sep s in
    let fsep := match sep with Some x => x | None => d_fsep default_dialect end in
    let is_gff3 := kw_match isw (hd [] parts) in
    let leading := negb is_gff3 && existsb (fun p => match p with c :: _ => c =? SEMI | [] => false end) parts in
    let key_vals :=
      if is_gff3 then map ext_eq parts else map ext_sp parts in
    let st := fold_left infer_step key_vals (mkI [] false false []) in
    let kvsep := if is_gff3 then [EQ] else [SP] in
    let fmt := if negb is_gff3 && i_quoted st then GTF else GFF3 in
    let D := mkDialect leading trailing (i_quoted st) fsep kvsep [COMMA] fmt (i_repeated st) (i_order st) in
    (unquote_quals D (i_quals st), D).

Lemma split_infer_nonempty isw s : s <> [] -> split_infer isw s = split_infer_body isw s.
Proof. destruct s; [congruence|reflexivity]. Qed.

Section Infer.
  Variable isw : N -> bool.
  Hypothesis Hw : forall c, ascii_word c = true -> isw c = true.
  Hypothesis Heq : isw EQ = false.
  Hypothesis Hsp : isw SP = false.

  Lemma kw_go_key : forall k rest seen, (forall c, In c k -> ascii_word c = true) -> k <> [] ->
    kw_match_go isw (k ++ rest) seen = kw_match_go isw rest true.
  Proof.
    induction k as [|c k IH]; intros rest seen Hk Hne; [congruence|].
    cbn [app kw_match_go]. rewrite (Hw c) by (apply Hk; left; reflexivity).
    destruct k as [|c2 k]; [reflexivity|]. apply IH; [intros x Hx; apply Hk; right; exact Hx|discriminate].
  Qed.

  Lemma kw_part kv it : it_ok kv it -> (kv = KvEq -> snd it <> []) ->
    kw_match isw (part kv it) = match kv with KvEq => true | _ => false end.
  Proof.
    intros [[Hne Hk] _] Hflag. unfold kw_match, part, vstring.
    assert (K0 : kw_match_go isw (fst it) false = false).
    { rewrite <- (app_nil_r (fst it)). rewrite kw_go_key by assumption. reflexivity. }
    destruct kv; cbn [is_spq kvchar].
    - destruct (snd it) eqn:E; [exfalso; apply Hflag; reflexivity|]. rewrite kw_go_key by assumption.
      cbn [kw_match_go]. rewrite Heq. reflexivity.
    - rewrite kw_go_key by assumption. cbn [kw_match_go]. rewrite Hsp. reflexivity.
    - destruct (snd it) eqn:E; [exact K0|]. rewrite kw_go_key by assumption. cbn [kw_match_go]. rewrite Hsp. reflexivity.
  Qed.

  Lemma no_leading_semi ps : parts_ok ps ->
    existsb (fun p => match p with c :: _ => c =? SEMI | [] => false end) ps = false.
  Proof.
    intros Hp. match goal with |- ?X = false => destruct X eqn:E; [|reflexivity] end.
    apply existsb_exists in E as [p [Hin E]]. destruct (Hp p Hin) as [_ [_ [_ [_ H]]]].
    destruct p as [|c p]; [discriminate|]. apply N.eqb_eq in E. cbn [hd] in H. contradiction.
  Qed.

  Lemma choose_sep_parts sep ps : fsep_ok sep = true -> parts_ok ps -> ps <> [] ->
    choose_sep (join sep ps) = (if Nat.ltb 1 (length ps) then Some sep else None, ps).
  Proof.
    intros Hs Hp Hne. destruct ps as [|p1 [|p2 ps]]; [congruence| |].
    - cbn [join length Nat.ltb Nat.leb]. apply choose_sep_single. apply (Hp p1). left. reflexivity.
    - rewrite choose_sep_multi by assumption. reflexivity.
  Qed.

  Lemma joined_last_not_semi sep ps : parts_ok ps -> ps <> [] -> last (join sep ps) 0 <> SEMI.
  Proof.
    intros Hp Hne. rewrite join_last; [|exact Hne|intros p Hin; apply (Hp p Hin)].
    assert (Hin : In (last ps []) ps) by (apply last_In; exact Hne).
    destruct (Hp _ Hin) as [Hpne [Hns _]]. intros E. apply Hns. rewrite <- E. apply last_In. exact Hpne.
  Qed.

  Lemma style_items_nonempty st kv0 a0 : style_items st (kv0 :: a0) <> [].
  Proof.
    unfold style_items. destruct (st_repeated st); [|discriminate]. unfold expand_repeated. cbn [flat_map].
    destruct (snd kv0) as [|v1 [|v2 vs]]; discriminate.
  Qed.

  Lemma multi_ritems kv a : multi (ritems kv a) = multi a.
  Proof.
    unfold multi, ritems. induction a as [|[k vs] a IH]; [reflexivity|]. cbn [map existsb fst snd]. rewrite IH. f_equal.
    pose proof (rvals_length kv vs) as L. destruct (rvals kv vs) as [|? [|? ?]], vs as [|? [|? ?]]; simpl in L; try lia; reflexivity.
  Qed.

  Lemma ritems_id kv a : kv <> KvEq -> ritems kv a = a.
  Proof.
    intros H. unfold ritems. rewrite <- (map_id a) at 2. apply map_ext. intros [k vs]. destruct kv; [congruence|reflexivity..].
  Qed.

  Lemma first_item_nonflag st kv0 a0 : match st_kv st, kv0 :: a0 with KvEq, (_, []) :: _ => False | _, _ => True end ->
    st_kv st = KvEq -> snd (hd ([], []) (ritems (st_kv st) (style_items st (kv0 :: a0)))) <> [].
  Proof.
    intros H E. rewrite E in *. destruct kv0 as [k vs]. destruct vs as [|v1 vs]; [contradiction|].
    unfold style_items. destruct (st_repeated st).
    - unfold expand_repeated. cbn [flat_map fst snd]. destruct vs as [|v2 vs]; cbn; discriminate.
    - cbn. discriminate.
  Qed.

  Theorem l_parse_attrs st a : wf_attrs st a = true ->
    split_infer isw (render_attrs st a) = (a, canon_dialect st a).
  Proof.
    intros Hwf. apply wf_attrs_spec in Hwf as [Hfs [Hnd [Hit Hfirst]]].
    destruct a as [|kv0 a0]; [reflexivity|]. unfold render_attrs, canon_dialect. set (a := kv0 :: a0) in *.
    set (kv := st_kv st). set (items := ritems kv (style_items st a)).
    pose proof (items_ok st a Hit) as Hok. fold kv items in Hok.
    pose proof (parts_ok_items kv items Hok) as Hp.
    assert (Hine : items <> []).
    { unfold items, ritems. intros E. apply map_eq_nil in E. revert E. apply style_items_nonempty. }
    assert (Hpne : map (part kv) items <> []) by (intros E; apply map_eq_nil in E; contradiction).
    rewrite render_items_parts. fold kv items. set (ps := map (part kv) items) in *.
    set (J := join (st_fsep st) ps).
    assert (HJ : J <> []).
    { unfold J. destruct ps as [|p1 ps'] eqn:Eps; [congruence|]. apply join_nonempty. apply (Hp p1). left. reflexivity. }
    rewrite split_infer_nonempty by (destruct J; [congruence|discriminate]).
    unfold split_infer_body.
    (* trailing semicolon *)
    assert (Htr : (last (J ++ (if st_trailing st then [SEMI] else [])) 0 =? SEMI) = st_trailing st).
    { destruct (st_trailing st).
      - rewrite last_last. reflexivity.
      - rewrite app_nil_r. apply neqb_false. apply joined_last_not_semi; assumption. }
    rewrite Htr.
    assert (Hs : (if st_trailing st then removelast (J ++ (if st_trailing st then [SEMI] else []))
                  else J ++ (if st_trailing st then [SEMI] else [])) = J).
    { destruct (st_trailing st); [apply removelast_last|apply app_nil_r]. }
    rewrite Hs. unfold J. rewrite (choose_sep_parts (st_fsep st) ps Hfs Hp Hpne).
    (* gff3 detection looks at the first part *)
    assert (Hkw : kw_match isw (hd [] ps) = match kv with KvEq => true | _ => false end).
    { unfold ps. destruct items as [|it0 items'] eqn:Ei; [congruence|]. cbn [map hd].
      apply kw_part; [apply Hok; left; reflexivity|]. intros E.
      pose proof (first_item_nonflag st kv0 a0 Hfirst E) as F. fold a kv in F. fold items in F. rewrite Ei in F. exact F. }
    rewrite Hkw. rewrite (no_leading_semi ps Hp). rewrite andb_false_r.
    assert (Hfold : fold_left infer_step (map (ext kv) ps) (mkI [] false false [])
                    = mkI (ritems kv a) (st_repeated st && multi a) (is_spq kv)
                          (map fst (style_items st a))).
    { unfold ps, items, style_items. destruct (st_repeated st) eqn:Hr.
      - rewrite ritems_expand. rewrite fold_expanded.
        + cbn [i_quals i_repeated i_quoted i_order app orb]. rewrite multi_ritems.
          rewrite <- ritems_expand, ritems_keys. unfold a at 2. cbn [ritems map nonempty_b]. rewrite andb_true_r. reflexivity.
        + rewrite ritems_keys. exact Hnd.
        + reflexivity.
        + rewrite <- ritems_expand. intros it Hin. apply Hok. unfold items, style_items. rewrite Hr. exact Hin.
      - rewrite fold_plain.
        + cbn [i_quals i_repeated i_quoted i_order app orb]. rewrite ritems_keys.
          unfold a at 2. cbn [ritems map nonempty_b]. rewrite andb_true_r. reflexivity.
        + rewrite ritems_keys. exact Hnd.
        + reflexivity.
        + reflexivity.
        + intros it Hin. apply Hok. unfold items, style_items. rewrite Hr. exact Hin. }
    assert (Hkv : (if match kv with KvEq => true | _ => false end then map ext_eq ps else map ext_sp ps) = map (ext kv) ps)
      by (destruct kv; reflexivity).
    rewrite Hkv, Hfold. cbn [i_quals i_repeated i_quoted i_order].
    (* assemble *)
    assert (Hlen : length ps = nparts st a).
    { unfold ps, items, nparts, style_items, ritems. rewrite !map_length. reflexivity. }
    rewrite Hlen.
    assert (Hq : is_spq kv = match kv with KvSpaceQuoted => true | _ => false end) by (destruct kv; reflexivity).
    assert (Hitems : (if st_repeated st then expand_repeated a else a) = style_items st a) by reflexivity.
    unfold style_items.
    destruct kv eqn:Ekv; cbn [negb andb is_spq].
    - (* key=value *)
      f_equal.
      + unfold unquote_quals. cbn [d_fmt]. change (str_eqb GFF3 GFF3) with true. cbv iota. apply unq_qmap.
      + destruct (Nat.ltb 1 (nparts st a)); reflexivity.
    - (* key "value" *)
      f_equal.
      + unfold unquote_quals. cbn [d_fmt]. change (str_eqb GTF GFF3) with false. cbv iota. apply ritems_id. discriminate.
      + destruct (Nat.ltb 1 (nparts st a)); reflexivity.
    - (* key value *)
      f_equal.
      + unfold unquote_quals. cbn [d_fmt]. change (str_eqb GFF3 GFF3) with true. cbv iota.
        rewrite ritems_id by discriminate. rewrite <- (map_id a) at 2. apply map_ext_in. intros [k vs] Hin. cbn [fst snd]. f_equal.
        rewrite <- (map_id vs) at 2. apply map_ext_in. intros v Hv. apply unquote_nopct.
        destruct (Hit _ Hin) as [_ Hvals _]. cbn [snd] in Hvals. rewrite forallb_forall in Hvals. specialize (Hvals v Hv).
        unfold val_ok in Hvals. fold kv in Hvals. rewrite Ekv in Hvals. apply andb_prop in Hvals as [_ Hvals]. apply andb_prop in Hvals as [Hvals _].
        apply (free_of_spec _ _ _ Hvals). exact pct_in_tq'.
      + destruct (Nat.ltb 1 (nparts st a)); reflexivity.
  Qed.
End Infer.

(* ---------- printing with the canonical dialect reproduces the column ---------- *)
Lemma quote_id v : free_of to_quote v = true -> quote to_quote v = v.
Proof.
  unfold free_of, quote. induction v as [|c v IH]; [reflexivity|]. cbn [forallb flat_map]. intros H.
  apply andb_prop in H as [H1 H2]. apply negb_true_iff in H1. unfold quote_char. rewrite H1. cbn [app]. f_equal. apply IH. exact H2.
Qed.

Lemma expand_not_multi a : multi a = false -> expand_repeated a = a.
Proof.
  unfold multi, expand_repeated. induction a as [|[k vs] a IH]; [reflexivity|]. cbn [existsb flat_map fst snd]. intros H.
  apply orb_false_elim in H as [H1 H2]. rewrite IH by exact H2. destruct vs as [|v1 [|v2 vs]]; [reflexivity|reflexivity|discriminate].
Qed.

(* insertion sort leaves a list that is already in order untouched *)
Fixpoint sorted_by {A} (key : A -> N) (l : list A) : Prop :=
  match l with
  | [] => True
  | x :: t => match t with [] => True | y :: _ => key x <= key y end /\ sorted_by key t
  end.

Lemma sort_sorted {A} (key : A -> N) l : sorted_by key l -> stable_sort_by key l = l.
Proof.
  unfold stable_sort_by. induction l as [|x t IH]; [reflexivity|]. intros [H1 H2]. cbn [fold_right]. rewrite IH by exact H2.
  destruct t as [|y t']; [reflexivity|]. cbn [insert_by]. apply N.leb_le in H1. rewrite H1. reflexivity.
Qed.

Lemma index_of_app k : forall l1 l2 i, index_of k (l1 ++ l2) i =
  match index_of k l1 i with Some j => Some j | None => index_of k l2 (i + N.of_nat (length l1)) end.
Proof.
  induction l1 as [|x l1 IH]; intros l2 i.
  - cbn. rewrite N.add_0_r. reflexivity.
  - cbn [app index_of length]. destruct (str_eqb k x); [reflexivity|]. rewrite IH. destruct (index_of k l1 (i + 1)); [reflexivity|].
    f_equal. lia.
Qed.

Lemma index_of_notin k : forall l i, ~ In k l -> index_of k l i = None.
Proof.
  induction l as [|x l IH]; intros i H; [reflexivity|]. cbn [index_of]. destruct (str_eqb k x) eqn:E.
  - apply str_eqb_eq in E. subst. exfalso. apply H. left. reflexivity.
  - apply IH. intros Hin. apply H. right. exact Hin.
Qed.

Lemma index_of_ge k : forall l i j, index_of k l i = Some j -> i <= j.
Proof.
  induction l as [|x l IH]; intros i j H; [discriminate|]. cbn [index_of] in H. destruct (str_eqb k x).
  - inversion H. lia.
  - apply IH in H. lia.
Qed.

Lemma order_key_block pre k rest : ~ In k pre -> order_key (pre ++ k :: rest) k = N.of_nat (length pre).
Proof.
  intros H. unfold order_key. rewrite index_of_app. rewrite index_of_notin by exact H. cbn [index_of]. rewrite str_eqb_refl. reflexivity.
Qed.

Definition block (kv : str * list str) : attrs :=
  match snd kv with _ :: _ :: _ => map (fun v => (fst kv, [v])) (snd kv) | _ => [kv] end.

Lemma block_keys kv it : In it (block kv) -> fst it = fst kv.
Proof.
  unfold block. destruct (snd kv) as [|v1 [|v2 vs]]; try (intros [E|[]]; subst; reflexivity).
  intros H. apply in_map_iff in H as [v [E _]]. subst. reflexivity.
Qed.

Lemma block_nonempty kv : block kv <> [].
Proof. unfold block. destruct (snd kv) as [|v1 [|v2 vs]]; discriminate. Qed.

Lemma expand_cons kv a : expand_repeated (kv :: a) = block kv ++ expand_repeated a.
Proof. reflexivity. Qed.

(* all keys equal to k, over an order list that has k right after [pre] *)
Lemma sorted_block pre k rest (items : attrs) (tail : attrs) :
  ~ In k pre -> (forall it, In it items -> fst it = k) ->
  sorted_by (fun it => order_key (pre ++ k :: rest) (fst it)) tail ->
  (forall it, In it tail -> N.of_nat (length pre) <= order_key (pre ++ k :: rest) (fst it)) ->
  sorted_by (fun it => order_key (pre ++ k :: rest) (fst it)) (items ++ tail).
Proof.
  intros Hk Hall Ht Hlb. induction items as [|x items IH]; [exact Ht|].
  cbn [app sorted_by]. split.
  - assert (Ex : order_key (pre ++ k :: rest) (fst x) = N.of_nat (length pre)).
    { rewrite (Hall x) by (left; reflexivity). apply order_key_block. exact Hk. }
    destruct (items ++ tail) as [|y t] eqn:E; [exact I|]. rewrite Ex.
    assert (Hy : In y (items ++ tail)) by (rewrite E; left; reflexivity). apply in_app_or in Hy as [Hy|Hy].
    + rewrite (Hall y) by (right; exact Hy). rewrite order_key_block by exact Hk. lia.
    + apply Hlb. exact Hy.
  - apply IH. intros it Hit. apply Hall. right. exact Hit.
Qed.

Lemma expanded_sorted : forall a pre, NoDup (map fst a) -> (forall k, In k (map fst a) -> ~ In k pre) ->
  sorted_by (fun it => order_key (pre ++ map fst (expand_repeated a)) (fst it)) (expand_repeated a)
  /\ forall it, In it (expand_repeated a) -> N.of_nat (length pre) <= order_key (pre ++ map fst (expand_repeated a)) (fst it).
Proof.
  induction a as [|kv a IH]; intros pre Hnd Hpre; [split; [exact I|intros it []]|].
  inversion Hnd as [|? ? Hk Hnd']; subst. rewrite expand_cons in *. rewrite map_app.
  assert (Hb : map fst (block kv) = fst kv :: tl (map fst (block kv))).
  { pose proof (block_nonempty kv) as Hne. destruct (block kv) as [|b bl] eqn:E; [congruence|]. cbn [map tl]. f_equal.
    apply block_keys. rewrite E. left. reflexivity. }
  assert (Hkpre : ~ In (fst kv) pre) by (apply Hpre; left; reflexivity).
  assert (Hbk : forall x, In x (map fst (block kv)) -> x = fst kv).
  { intros x Hx. apply in_map_iff in Hx as [it [E Hit]]. subst x. apply block_keys. exact Hit. }
  specialize (IH (pre ++ map fst (block kv)) Hnd').
  destruct IH as [IHs IHl].
  { intros k Hin Hp. apply in_app_or in Hp as [Hp|Hp]; [apply (Hpre k); [right; exact Hin|exact Hp]|].
    apply Hbk in Hp. subst k. contradiction. }
  rewrite <- app_assoc in IHs, IHl.
  assert (Hlb : forall it, In it (expand_repeated a) ->
                N.of_nat (length pre) <= order_key (pre ++ map fst (block kv) ++ map fst (expand_repeated a)) (fst it)).
  { intros it Hit. specialize (IHl it Hit). rewrite app_length in IHl. lia. }
  split.
  - rewrite Hb in *. rewrite <- app_comm_cons. apply sorted_block; [exact Hkpre|apply block_keys| |].
    + rewrite <- app_comm_cons in IHs. exact IHs.
    + rewrite <- app_comm_cons in Hlb. exact Hlb.
  - intros it Hit. apply in_app_or in Hit as [Hit|Hit]; [|apply Hlb; exact Hit].
    rewrite (block_keys kv it Hit). rewrite Hb. rewrite <- app_comm_cons. rewrite order_key_block by exact Hkpre. lia.
Qed.

Lemma plain_sorted : forall (a : attrs) pre, NoDup (map fst a) -> (forall k, In k (map fst a) -> ~ In k pre) ->
  sorted_by (fun it => order_key (pre ++ map fst a) (fst it)) a
  /\ forall it, In it a -> N.of_nat (length pre) <= order_key (pre ++ map fst a) (fst it).
Proof.
  induction a as [|kv a IH]; intros pre Hnd Hpre; [split; [exact I|intros it []]|].
  inversion Hnd as [|? ? Hk Hnd']; subst. cbn [map] in *.
  assert (Hkpre : ~ In (fst kv) pre) by (apply Hpre; left; reflexivity).
  specialize (IH (pre ++ [fst kv]) Hnd'). destruct IH as [IHs IHl].
  { intros k Hin Hp. apply in_app_or in Hp as [Hp|[Hp|[]]]; [apply (Hpre k); [right; exact Hin|exact Hp]|]. subst k. contradiction. }
  rewrite <- app_assoc in IHs, IHl. cbn [app] in IHs, IHl.
  assert (Hlb : forall it, In it a -> N.of_nat (length pre) <= order_key (pre ++ fst kv :: map fst a) (fst it)).
  { intros it Hit. specialize (IHl it Hit). rewrite app_length in IHl. cbn [length] in IHl. lia. }
  split.
  - apply (sorted_block pre (fst kv) (map fst a) [kv] a Hkpre); [intros it [E|[]]; subst; reflexivity|exact IHs|exact Hlb].
  - intros it [E|Hit]; [subst it; rewrite order_key_block by exact Hkpre; lia|apply Hlb; exact Hit].
Qed.

Lemma join_short (s1 s2 : str) (l : list str) : (length l <= 1)%nat -> join s1 l = join s2 l.
Proof. destruct l as [|x [|y l]]; [reflexivity|reflexivity|simpl; lia]. Qed.

Lemma render_part_canon st a it : a <> [] -> it_ok (st_kv st) it ->
  render_part (canon_dialect st a) false it = part (st_kv st) it.
Proof.
  intros Ha [Hk [Hv _]]. destruct a as [|kv0 a0]; [congruence|]. destruct it as [k rvs]. cbn [fst snd] in *.
  unfold canon_dialect. set (aa := kv0 :: a0).
  unfold render_part, part, vstring. cbn [d_fmt d_kvsep d_mvsep d_quoted fst snd].
  destruct rvs as [|rv rvs].
  - destruct (st_kv st); reflexivity.
  - assert (J : join [COMMA] (rv :: rvs) <> []) by (apply join_rv_nonempty; [discriminate|exact Hv]).
    destruct (join [COMMA] (rv :: rvs)) as [|c j] eqn:E; [congruence|].
    destruct (st_kv st); reflexivity.
Qed.

Theorem l_print_attrs st a : wf_attrs st a = true ->
  reconstruct to_quote a (canon_dialect st a) true false = render_attrs st a.
Proof.
  intros Hwf. apply wf_attrs_spec in Hwf as [Hfs [Hnd [Hit Hfirst]]].
  destruct a as [|kv0 a0]; [reflexivity|].
  pose proof (items_ok st (kv0 :: a0) Hit) as Hok.
  unfold reconstruct, render_attrs. set (a := kv0 :: a0) in *. set (kv := st_kv st) in *.
  set (D := canon_dialect st a).
  assert (HD : D = mkDialect false (st_trailing st) (is_spq kv)
                     (if Nat.ltb 1 (nparts st a) then st_fsep st else [SEMI])
                     (match kv with KvEq => [EQ] | _ => [SP] end) [COMMA]
                     (if is_spq kv then GTF else GFF3) (st_repeated st && multi a) (map fst (style_items st a))).
  { unfold D, canon_dialect, a. fold a. fold kv. destruct kv; reflexivity. }
  (* the attribute values as printed *)
  assert (Hattr : (if str_eqb (d_fmt D) GFF3 then map (fun it => (fst it, map (quote to_quote) (snd it))) a else a) = ritems kv a).
  { rewrite HD. cbn [d_fmt]. destruct kv eqn:Ekv; cbn [is_spq].
    - reflexivity.
    - change (str_eqb GTF GFF3) with false. cbv iota. symmetry. apply ritems_id. discriminate.
    - change (str_eqb GFF3 GFF3) with true. cbv iota. rewrite ritems_id by discriminate.
      rewrite <- (map_id a) at 2. apply map_ext_in. intros [k vs] Hin. cbn [fst snd]. f_equal.
      rewrite <- (map_id vs) at 2. apply map_ext_in. intros v Hv. apply quote_id.
      destruct (Hit _ Hin) as [_ Hvals _]. cbn [snd] in Hvals. rewrite forallb_forall in Hvals. specialize (Hvals v Hv).
      unfold val_ok in Hvals. fold kv in Hvals. rewrite Ekv in Hvals. apply andb_prop in Hvals as [_ Hvals]. apply andb_prop in Hvals as [Hvals _].
      exact Hvals. }
  rewrite Hattr.
  assert (Hitems : (if d_repeated D then expand_repeated (ritems kv a) else ritems kv a) = ritems kv (style_items st a)).
  { rewrite HD. cbn [d_repeated]. unfold style_items. destruct (st_repeated st); cbn [andb]; [|reflexivity].
    destruct (multi a) eqn:Em; [symmetry; apply ritems_expand|]. rewrite (expand_not_multi a Em). reflexivity. }
  rewrite Hitems.
  assert (Hord : d_order D = map fst (ritems kv (style_items st a))) by (rewrite HD, ritems_keys; reflexivity).
  rewrite Hord.
  assert (Hsorted : sorted_by (fun it : str * list str => order_key (map fst (ritems kv (style_items st a))) (fst it))
                              (ritems kv (style_items st a))).
  { assert (Hnd' : NoDup (map fst (ritems kv a))) by (rewrite ritems_keys; exact Hnd).
    unfold style_items. destruct (st_repeated st).
    - rewrite ritems_expand. apply (expanded_sorted (ritems kv a) [] Hnd'). intros k _ [].
    - apply (plain_sorted (ritems kv a) [] Hnd'). intros k _ []. }
  rewrite (sort_sorted _ _ Hsorted).
  assert (Hparts : map (render_part D false) (ritems kv (style_items st a)) = map (render_item st) (style_items st a)).
  { rewrite render_items_parts. fold kv. apply map_ext_in. intros it Hin. unfold D. apply render_part_canon; [discriminate|].
    apply Hok. exact Hin. }
  rewrite Hparts.
  assert (Hjoin : join (d_fsep D) (map (render_item st) (style_items st a)) = join (st_fsep st) (map (render_item st) (style_items st a))).
  { rewrite HD. cbn [d_fsep]. destruct (Nat.ltb 1 (nparts st a)) eqn:E; [reflexivity|]. apply join_short.
    apply Nat.ltb_ge in E. unfold nparts in E. rewrite map_length. exact E. }
  rewrite Hjoin. rewrite HD. cbn [d_trailing]. destruct (st_trailing st); [reflexivity|rewrite app_nil_r; reflexivity].
Qed.

(* ---------- the whole line ---------- *)
Definition ctl (c : N) : Prop := c = TAB \/ c = 10 \/ c = 13.

Lemma ctl_in_tq c : ctl c -> In c to_quote.
Proof. intros [H|[H|H]]; subst c; apply mem_char_In; vm_compute; reflexivity. Qed.

Lemma word_not_ctl c : ascii_word c = true -> ~ ctl c.
Proof.
  intros H. pose proof (ascii_word_not c H) as [_ [_ [_ [_ [_ Hs]]]]]. apply space_range in Hs.
  unfold ctl, TAB. intros [E|[E|E]]; apply Hs; lia.
Qed.

Lemma rv_clean st v rv c : val_ok (st_kv st) v = true -> In rv (rvals (st_kv st) [v]) -> In c rv -> ~ ctl c.
Proof.
  unfold val_ok. intros H Hrv Hc Hctl. apply andb_prop in H as [_ Hk].
  destruct (st_kv st); cbn [rvals map] in Hrv; destruct Hrv as [Hrv|[]]; subst rv.
  - revert Hc. apply l_quote_no_structural. unfold ctl in Hctl. simpl. intuition.
  - revert Hc. apply (free_of_spec _ _ _ Hk). unfold ctl in Hctl. simpl. intuition.
  - apply andb_prop in Hk as [Hk _]. revert Hc. apply (free_of_spec _ _ _ Hk). apply ctl_in_tq. exact Hctl.
Qed.

Lemma sep_chars_not_ctl c : In c [SP; SEMI; EQ; COMMA; DQ] -> ~ ctl c.
Proof. unfold ctl, TAB, SP, SEMI, EQ, COMMA, DQ. simpl. intros H [E|[E|E]]; subst c; intuition discriminate. Qed.

Lemma part_clean st it c : it_ok (st_kv st) it -> (forall rv x, In rv (snd it) -> In x rv -> ~ ctl x) ->
  In c (part (st_kv st) it) -> ~ ctl c.
Proof.
  intros [[_ Hk] _] Hv Hin.
  assert (K : forall x, In x (fst it) -> ~ ctl x) by (intros x Hx; apply word_not_ctl; apply Hk; exact Hx).
  assert (J : forall x, In x (join [COMMA] (snd it)) -> ~ ctl x).
  { intros x Hx. apply In_join in Hx as [Hx|[rv [Hrv Hx]]]; [apply sep_chars_not_ctl; destruct Hx as [Hx|[]]; subst; simpl; auto|].
    eapply Hv; eassumption. }
  unfold part, vstring in Hin. destruct (st_kv st); cbn [is_spq kvchar] in Hin.
  - destruct (snd it) eqn:E; [apply K; exact Hin|]. apply in_app_or in Hin as [Hin|[Hin|Hin]]; [apply K; exact Hin| |apply J; exact Hin].
    apply sep_chars_not_ctl. subst c. simpl. auto.
  - apply in_app_or in Hin as [Hin|[Hin|[Hin|Hin]]]; [apply K; exact Hin| | |].
    + apply sep_chars_not_ctl. subst c. simpl. auto.
    + apply sep_chars_not_ctl. subst c. simpl. auto 10.
    + apply in_app_or in Hin as [Hin|[Hin|[]]]; [apply J; exact Hin|]. apply sep_chars_not_ctl. subst c. simpl. auto 10.
  - destruct (snd it) eqn:E; [apply K; exact Hin|]. apply in_app_or in Hin as [Hin|[Hin|Hin]]; [apply K; exact Hin| |apply J; exact Hin].
    apply sep_chars_not_ctl. subst c. simpl. auto.
Qed.

Lemma style_items_vals st a it rv : In it (ritems (st_kv st) (style_items st a)) -> In rv (snd it) ->
  exists kv v, In kv a /\ In v (snd kv) /\ In rv (rvals (st_kv st) [v]).
Proof.
  intros Hit Hrv. unfold ritems in Hit. apply in_map_iff in Hit as [it0 [E Hit0]]. subst it. cbn [snd] in Hrv.
  apply rvals_In in Hrv as [v [Hv Hrv]].
  assert (G : exists kv, In kv a /\ In v (snd kv)).
  { unfold style_items in Hit0. destruct (st_repeated st); [|exists it0; split; assumption].
    unfold expand_repeated in Hit0. apply in_flat_map in Hit0 as [kv [Hkv Hit0]]. exists kv. split; [exact Hkv|].
    destruct (snd kv) as [|v1 [|v2 vs]] eqn:Es.
    - destruct Hit0 as [E|[]]. subst it0. rewrite Es in Hv. exact Hv.
    - destruct Hit0 as [E|[]]. subst it0. rewrite Es in Hv. exact Hv.
    - apply in_map_iff in Hit0 as [v' [E Hv']]. subst it0. cbn [snd] in Hv. destruct Hv as [Hv|[]]. subst v'. exact Hv'. }
  destruct G as [kv [Hkv Hvin]]. exists kv, v. repeat split; assumption.
Qed.

Lemma render_attrs_clean st a c : wf_attrs st a = true -> In c (render_attrs st a) -> ~ ctl c.
Proof.
  intros Hwf Hin. apply wf_attrs_spec in Hwf as [Hfs [Hnd [Hit _]]].
  destruct a as [|kv0 a0]; [destruct Hin|]. unfold render_attrs in Hin. set (a := kv0 :: a0) in *.
  pose proof (items_ok st a Hit) as Hok.
  apply in_app_or in Hin as [Hin|Hin].
  - rewrite render_items_parts in Hin. apply In_join in Hin as [Hin|[p [Hp Hc]]].
    + apply sep_chars_not_ctl. unfold fsep_ok in Hfs.
      apply orb_prop in Hfs as [Hfs|Hfs]; [apply orb_prop in Hfs as [Hfs|Hfs]|]; apply str_eqb_eq in Hfs; rewrite Hfs in Hin; simpl in Hin; simpl; intuition.
    + apply in_map_iff in Hp as [it [E Hitin]]. subst p. apply (part_clean st it c (Hok it Hitin)); [|exact Hc].
      intros rv x Hrv Hx. destruct (style_items_vals st a it rv Hitin Hrv) as [kv [v [Hkv [Hv Hrv']]]].
      destruct (Hit kv Hkv) as [_ Hvals _]. rewrite forallb_forall in Hvals. exact (rv_clean st v rv x (Hvals v Hv) Hrv' Hx).
  - apply sep_chars_not_ctl. destruct (st_trailing st); [|destruct Hin]. destruct Hin as [Hin|[]]. subst c. simpl. auto.
Qed.

Lemma str_of_int_neg z : (z < 0)%Z -> str_of_int z = 45 :: str_of_int (- z).
Proof.
  intros H. unfold str_of_int. destruct (Z.ltb_spec z 0); [|lia]. destruct (Z.ltb_spec (- z) 0); [lia|]. reflexivity.
Qed.

Lemma str_of_int_chars z c : In c (str_of_int z) -> is_digit c = true \/ c = 45.
Proof.
  assert (P : forall n, (0 <= n)%Z -> In c (str_of_int n) -> is_digit c = true).
  { intros n Hn Hin. destruct (is_digit c) eqn:E; [reflexivity|]. exfalso. revert Hin. apply str_of_nonneg_no_char; assumption. }
  intros Hin. destruct (Z.ltb_spec z 0) as [Hz|Hz].
  - rewrite str_of_int_neg in Hin by exact Hz. destruct Hin as [Hin|Hin]; [right; symmetry; exact Hin|]. left. apply (P (- z)%Z); [lia|exact Hin].
  - left. apply (P z Hz Hin).
Qed.

Lemma digit_not_ctl c : is_digit c = true \/ c = 45 \/ c = DOT -> ~ ctl c.
Proof.
  unfold ctl, TAB, DOT, is_digit. intros [H|[H|H]] [E|[E|E]]; subst c; try discriminate.
Qed.

Lemma coord_str_clean x c : In c (coord_str x) -> ~ ctl c.
Proof.
  intros Hin. apply digit_not_ctl. destruct x as [z|]; cbn [coord_str] in Hin.
  - apply str_of_int_chars in Hin. tauto.
  - destruct Hin as [Hin|[]]. subst. auto.
Qed.

Lemma coord_roundtrip x : coord_of (coord_str x) = Ok x.
Proof.
  destruct x as [z|]; [|reflexivity]. cbn [coord_str]. unfold coord_of.
  pose proof (int_str_roundtrip z) as R.
  destruct (str_eqb (str_of_int z) [DOT]) eqn:E1.
  { apply str_eqb_eq in E1. rewrite E1 in R. discriminate. }
  destruct (str_eqb (str_of_int z) []) eqn:E2.
  { apply str_eqb_eq in E2. rewrite E2 in R. discriminate. }
  cbn [orb]. rewrite R. reflexivity.
Qed.

Lemma col_ok_clean col c : col_ok col = true -> In c col -> ~ ctl c.
Proof.
  unfold col_ok. intros H Hin [E|[E|E]]; apply andb_prop in H as [H _]; revert Hin; apply (free_of_spec _ _ _ H); subst c; simpl; auto.
Qed.

Lemma rstrip_nl_clean s : (forall c, In c s -> c <> 10 /\ c <> 13) -> rstrip_nl s = s.
Proof.
  intros H. destruct s as [|a s]; [reflexivity|]. unfold rstrip_nl, rstrip_chars. apply rstrip_by_id; [discriminate|].
  assert (Hl : In (last (a :: s) 0) (a :: s)) by (apply last_In; discriminate). specialize (H _ Hl). destruct H as [H1 H2].
  cbn [mem_char existsb]. rewrite (neqb_false _ _ H1), (neqb_false _ _ H2). reflexivity.
Qed.

Definition canonical (st : style) (f : feature) : Prop := f_dialect f = canon_dialect st (f_attrs f).

Lemma wf_feature_spec st f : wf_feature st f = true ->
  col_ok (f_seqid f) = true /\ col_ok (f_source f) = true /\ col_ok (f_ftype f) = true /\ col_ok (f_score f) = true /\
  col_ok (f_strand f) = true /\ col_ok (f_frame f) = true /\ wf_attrs st (f_attrs f) = true /\
  forallb (free_of [TAB; 10; 13]) (f_extra f) = true /\ f_keep_order f = true /\ f_sort_values f = false.
Proof.
  unfold wf_feature, extras_ok. intros H.
  apply andb_prop in H as [H Hsv]. apply andb_prop in H as [H Hko]. apply andb_prop in H as [H He]. apply andb_prop in H as [H Ha].
  apply andb_prop in H as [H H7]. apply andb_prop in H as [H H6]. apply andb_prop in H as [H H5]. apply andb_prop in H as [H H2].
  apply andb_prop in H as [H0 H1]. rewrite andb_true_r in He. apply negb_true_iff in Hsv. repeat split; assumption.
Qed.

Lemma fields_clean st f : wf_feature st f = true -> forall fld c, In fld (render_fields st f) -> In c fld -> ~ ctl c.
Proof.
  intros Hwf fld c Hf Hc. apply wf_feature_spec in Hwf as [H0 [H1 [H2 [H5 [H6 [H7 [Ha [He _]]]]]]]].
  unfold render_fields in Hf. apply in_app_or in Hf as [Hf|Hf].
  - simpl in Hf. destruct Hf as [E|[E|[E|[E|[E|[E|[E|[E|[E|[]]]]]]]]]]; subst fld;
      try (eapply col_ok_clean; [|exact Hc]; assumption); try (eapply coord_str_clean; exact Hc).
    eapply render_attrs_clean; [|exact Hc]; exact Ha.
  - rewrite forallb_forall in He. specialize (He fld Hf). intros [E|[E|E]]; revert Hc; apply (free_of_spec _ _ _ He); subst c; simpl; auto.
Qed.

Section Line.
  Variable isw : N -> bool.
  Hypothesis Hw : forall c, ascii_word c = true -> isw c = true.
  Hypothesis Heq : isw EQ = false.
  Hypothesis Hsp : isw SP = false.

  Theorem l_parse_line st f : wf_feature st f = true -> canonical st f ->
    feature_from_line isw (render_line st f) None true = Ok f.
  Proof.
    intros Hwf Hcan. pose proof (fields_clean st f Hwf) as Hclean.
    pose proof (wf_feature_spec st f Hwf) as [_ [_ [_ [_ [_ [_ [Ha [_ [Hko Hsv]]]]]]]]].
    unfold feature_from_line, render_line.
    rewrite rstrip_nl_clean.
    2:{ intros c Hin. apply In_join in Hin as [Hin|[fld [Hf Hc]]].
        - destruct Hin as [Hin|[]]. subst c. split; discriminate.
        - pose proof (Hclean fld c Hf Hc) as Hn. unfold ctl in Hn. split; intros E; apply Hn; auto. }
    assert (Hsplit : split [TAB] (join [TAB] (render_fields st f)) = render_fields st f).
    { apply (split_join [] [] TAB (@in_nil N TAB)); [unfold render_fields; discriminate|].
      intros fld Hf Hc. apply (Hclean fld TAB Hf Hc). left. reflexivity. }
    rewrite Hsplit. unfold render_fields, feature_of_fields. cbn [app nth_str nth skipn].
    rewrite (l_parse_attrs isw Hw Heq Hsp st (f_attrs f) Ha). rewrite !coord_roundtrip.
    destruct f. cbn in *. unfold canonical in Hcan. cbn in Hcan. subst. reflexivity.
  Qed.
End Line.

Lemma join_nested (s : str) : forall (items ex : list str), items <> [] -> ex <> [] ->
  join s (items ++ [join s ex]) = join s (items ++ ex).
Proof.
  induction items as [|x items IH]; intros ex Hi He; [congruence|]. destruct items as [|y items].
  - cbn [app]. rewrite (join_cons s x ex He). reflexivity.
  - change ((x :: y :: items) ++ [join s ex]) with (x :: (y :: items) ++ [join s ex]).
    change ((x :: y :: items) ++ ex) with (x :: (y :: items) ++ ex).
    rewrite !join_cons by discriminate. f_equal. f_equal. apply (IH ex); [discriminate|exact He].
Qed.

Theorem l_print_line st f : wf_feature st f = true -> canonical st f -> feature_str to_quote f = render_line st f.
Proof.
  intros Hwf Hcan. pose proof (wf_feature_spec st f Hwf) as [_ [_ [_ [_ [_ [_ [Ha [_ [Hko Hsv]]]]]]]]].
  unfold feature_str, render_line, render_fields. rewrite Hcan, Hko, Hsv. rewrite (l_print_attrs st (f_attrs f) Ha).
  destruct (f_extra f) as [|e ex] eqn:E; [rewrite app_nil_r; reflexivity|].
  apply join_nested; discriminate.
Qed.

(* ---------- CPython's \w table agrees with ASCII word characters ---------- *)
Lemma small_in_seq c : c < 128 -> In c (map N.of_nat (seq 0 128)).
Proof.
  intros H. apply in_map_iff. exists (N.to_nat c). split; [apply N2Nat.id|]. apply in_seq. lia.
Qed.

Lemma isword_ascii : forall c, ascii_word c = true -> isword c = true.
Proof.
  assert (T : forallb (fun c => implb (ascii_word c) (isword c)) (map N.of_nat (seq 0 128)) = true) by (vm_compute; reflexivity).
  intros c H. rewrite forallb_forall in T.
  assert (Hc : c < 128).
  { unfold ascii_word in H. repeat (apply orb_prop in H as [H|H]); try (apply andb_prop in H as [H1 H2]; apply N.leb_le in H1; apply N.leb_le in H2);
      try apply N.eqb_eq in H; lia. }
  specialize (T c (small_in_seq c Hc)). rewrite H in T. exact T.
Qed.

Lemma isword_eq : isword EQ = false. Proof. vm_compute. reflexivity. Qed.
Lemma isword_sp : isword SP = false. Proof. vm_compute. reflexivity. Qed.
