(* Proofs/C14Proofs.v — line classification and the directives flow. *)
From GV Require Import Base.Prelude Base.PyStr Model.Iter.
Open Scope N_scope.

Definition not_fasta (l : str) : Prop := classify_line l <> LFasta.

Definition item_of_line (l : str) : list item :=
  match classify_line l with LDirective d => [IDir d] | LFeature => [IFeat l] | _ => [] end.

(* before any ##FASTA / '>' line: every line contributes by its kind, in file order *)
Theorem l_scan_no_fasta : forall ls, (forall l, In l ls -> not_fasta l) -> scan ls = flat_map item_of_line ls.
Proof.
  induction ls as [|l ls IH]; intros H; [reflexivity|]. cbn [scan flat_map]. unfold item_of_line at 1.
  assert (Hl : not_fasta l) by (apply H; left; reflexivity).
  rewrite IH by (intros x Hx; apply H; right; exact Hx).
  destruct (classify_line l) eqn:E; try reflexivity. exfalso. apply Hl. exact E.
Qed.

(* nothing at or after ##FASTA or a '>' header is parsed as a feature or a directive *)
Theorem l_scan_stops_at_fasta : forall pre x post, (forall l, In l pre -> not_fasta l) -> classify_line x = LFasta ->
  scan (pre ++ x :: post) = scan pre.
Proof.
  induction pre as [|l pre IH]; intros x post H Hx.
  - cbn. rewrite Hx. reflexivity.
  - cbn [app scan]. assert (Hl : not_fasta l) by (apply H; left; reflexivity).
    rewrite (IH x post) by (try (intros y Hy; apply H; right; exact Hy); exact Hx).
    reflexivity.
Qed.

(* kinds of lines *)
Theorem l_classify_directive l : startswith l [HASH; HASH] = true -> str_eqb l FASTA_MARK = false ->
  classify_line l = LDirective (skipn 2 l).
Proof.
  intros H1 H2. unfold classify_line. rewrite H2.
  assert (G : startswith l [GT] = false).
  { destruct l as [|c l]; [reflexivity|]. unfold startswith in *. cbn [is_prefix] in *.
    destruct (N.eqb_spec HASH c) as [Ec|Ec]; [subst c; reflexivity|]. cbn in H1. discriminate H1. }
  rewrite G, H1. reflexivity.
Qed.

Theorem l_classify_comment l : startswith l [HASH] = true -> startswith l [HASH; HASH] = false -> classify_line l = LSkip.
Proof.
  intros H1 H2. unfold classify_line.
  assert (G : startswith l [GT] = false).
  { destruct l as [|c l]; [reflexivity|]. unfold startswith in *. cbn [is_prefix] in *.
    destruct (N.eqb_spec HASH c) as [Ec|Ec]; [subst c; reflexivity|]. cbn in H1. discriminate H1. }
  assert (F : str_eqb l FASTA_MARK = false).
  { apply str_eqb_neq. intro E. subst l. discriminate. }
  rewrite F, G, H2, H1. reflexivity.
Qed.

Theorem l_classify_blank : classify_line [] = LSkip.
Proof. reflexivity. Qed.

Theorem l_classify_fasta : classify_line FASTA_MARK = LFasta /\ forall l, classify_line (GT :: l) = LFasta.
Proof.
  split; [reflexivity|]. intros l. unfold classify_line, startswith. cbn [is_prefix]. rewrite N.eqb_refl. cbn [andb].
  destruct (str_eqb (GT :: l) FASTA_MARK); reflexivity.
Qed.

(* peeking n: exactly the first n+1 features, and a prefix of the directives *)
Theorem l_peek_features : forall its n, feats_of (upto_feature n its) = firstn (S n) (feats_of its).
Proof.
  induction its as [|[l|d] its IH]; intros n; [reflexivity| |].
  - cbn [upto_feature feats_of flat_map app firstn]. f_equal. destruct n as [|m]; [reflexivity|].
    apply IH.
  - cbn [upto_feature feats_of flat_map app]. apply IH.
Qed.

Theorem l_peek_directives_prefix : forall its n, exists rest, dirs_of its = dirs_of (upto_feature n its) ++ rest.
Proof.
  induction its as [|[l|d] its IH]; intros n.
  - exists []. reflexivity.
  - cbn [upto_feature dirs_of flat_map app]. destruct n as [|m].
    + exists (dirs_of its). reflexivity.
    + apply IH.
  - cbn [upto_feature dirs_of flat_map app]. destruct (IH n) as [rest E]. exists rest.
    unfold dirs_of in *. rewrite E. reflexivity.
Qed.

(* create_db: with the list cleared in place the creator ends up with ALL directives, wherever they sit relative
   to the inspection window and whether or not a peek happened *)
Theorem l_db_directives peeks checklines lines :
  fst (directives_flow ClearInPlace peeks checklines lines) = dirs_of (scan lines) /\
  snd (directives_flow ClearInPlace peeks checklines lines) = dirs_of (scan lines).
Proof. split; reflexivity. Qed.

(* rebinding the list instead (the code before the fix) loses every directive after the window *)
Theorem l_rebind_refuted : exists lines checklines,
  fst (directives_flow Rebind true checklines lines) <> dirs_of (scan lines).
Proof.
  exists [[65]; [35;35;120]], O. vm_compute. discriminate.
Qed.
