(* Proofs/C07Nonstrict.v — strict=False: a nine-column line rendered with runs of blanks instead of
   tabs (no blanks inside columns 1-8, no extra columns), surrounded by arbitrary white space
   including line breaks, parses to the same Feature as the tab-separated line. *)
From GV Require Import Base.Prelude Base.PyStr Base.Utf8 Base.WordTable Model.DB Model.Parser Model.Grammar
  Proofs.SplitJoin Proofs.StrLemmas Proofs.IntStr Proofs.C08Proofs Proofs.C08Round Proofs.C07Parse Proofs.C07Proofs.
From Coq Require Import Arith.
Open Scope N_scope.

Definition blank (s : (list N)) : Prop := forall c, In c s -> is_space c = true.
Definition solid (s : (list N)) : Prop := s <> [] /\ forall c, In c s -> is_space c = false.   (* a word *)

Definition is_lb (c : N) : bool :=
  (c =? 10) || (c =? 11) || (c =? 12) || (c =? 13) || (c =? 28) || (c =? 29) || (c =? 30) || (c =? 133) || (c =? 8232) || (c =? 8233).

Lemma lb_is_space c : is_lb c = true -> is_space c = true.
Proof.
  unfold is_lb. intros H. apply space_true.
  repeat (apply orb_prop in H as [H|H]); apply N.eqb_eq in H; subst c; lia.
Qed.

(* ---------- lstrip / take_word / split(None, n) ---------- *)
Lemma lstrip_blank_app g s : blank g -> lstrip_by is_space (g ++ s) = lstrip_by is_space s.
Proof.
  induction g as [|c g IH]; intros H; [reflexivity|]. cbn [app lstrip_by]. rewrite (H c) by (left; reflexivity).
  apply IH. intros x Hx. apply H. right. exact Hx.
Qed.

Lemma lstrip_solid_head w r : solid w -> lstrip_by is_space (w ++ r) = w ++ r.
Proof. intros [Hne H]. destruct w as [|c w]; [congruence|]. cbn [app lstrip_by]. rewrite (H c) by (left; reflexivity). reflexivity. Qed.

Lemma take_word_solid : forall w r acc, (forall c, In c w -> is_space c = false) ->
  match r with [] => True | c :: _ => is_space c = true end ->
  take_word (w ++ r) acc = (rev acc ++ w, r).
Proof.
  induction w as [|c w IH]; intros r acc Hw Hr.
  - cbn [app]. rewrite app_nil_r. destruct r as [|d r]; [reflexivity|]. cbn [take_word]. rewrite Hr. reflexivity.
  - cbn [app take_word]. rewrite (Hw c) by (left; reflexivity). rewrite IH; [|intros x Hx; apply Hw; right; exact Hx|exact Hr].
    cbn [rev]. rewrite <- app_assoc. reflexivity.
Qed.

(* one word off the front *)
Lemma split_ws_word fuel m w r : solid w -> match r with [] => True | c :: _ => is_space c = true end ->
  split_ws_go (Datatypes.S fuel) (Datatypes.S m) (w ++ r) = w :: split_ws_go fuel m r.
Proof.
  intros Hw Hr. cbn [split_ws_go]. rewrite lstrip_solid_head by exact Hw.
  destruct (w ++ r) as [|c0 t] eqn:E; [destruct Hw as [Hne _]; destruct w; [congruence|discriminate]|]. rewrite <- E.
  rewrite take_word_solid; [reflexivity|apply Hw|exact Hr].
Qed.

Lemma split_ws_skip fuel m g s : blank g -> split_ws_go fuel m (g ++ s) = split_ws_go fuel m s.
Proof. intros H. destruct fuel; [reflexivity|]. cbn [split_ws_go]. rewrite lstrip_blank_app by exact H. reflexivity. Qed.

(* the body: words joined by gaps, then optionally a gap and a tail that starts solidly *)
Fixpoint body (gap : (list N)) (ws : list (list N)) (tail : (list N)) : (list N) :=
  match ws with
  | [] => tail
  | [w] => match tail with [] => w | _ => w ++ gap ++ tail end
  | w :: ws' => w ++ gap ++ body gap ws' tail
  end.

Lemma body_cons gap w ws tail : ws <> [] -> body gap (w :: ws) tail = w ++ gap ++ body gap ws tail.
Proof. destruct ws; [congruence|reflexivity]. Qed.

Lemma split_ws_body gap tail : blank gap -> gap <> [] ->
  (tail = [] \/ is_space (hd 0 tail) = false) ->
  forall ws fuel, (forall w, In w ws -> solid w) -> (length ws < fuel)%nat ->
  split_ws_go fuel (length ws) (body gap ws tail) = ws ++ match tail with [] => [] | _ => [tail] end.
Proof.
  intros Hg Hgne Ht. induction ws as [|w ws IH]; intros fuel Hws Hf.
  - cbn [body length app]. destruct fuel; [lia|]. cbn [split_ws_go]. destruct tail as [|c t]; [reflexivity|].
    destruct Ht as [Ht|Ht]; [discriminate|]. cbn [hd] in Ht. cbn [lstrip_by]. rewrite Ht. reflexivity.
  - destruct fuel as [|fuel]; [lia|]. cbn [length]. cbn [length] in Hf.
    assert (Hw : solid w) by (apply Hws; left; reflexivity).
    assert (Hgap_hd : forall r, match gap ++ r with [] => True | c :: _ => is_space c = true end).
    { intros r. destruct gap as [|c g]; [congruence|]. cbn. apply Hg. left. reflexivity. }
    destruct ws as [|w2 ws].
    + cbn [body]. destruct tail as [|c t].
      * rewrite <- (app_nil_r w) at 1. rewrite split_ws_word; [|exact Hw|exact I]. cbn [length].
        destruct fuel; reflexivity.
      * rewrite split_ws_word; [|exact Hw|apply Hgap_hd]. rewrite split_ws_skip by exact Hg. cbn [length].
        destruct fuel as [|fuel']; [lia|]. cbn [split_ws_go lstrip_by].
        destruct Ht as [Ht|Ht]; [discriminate|]. cbn [hd] in Ht. rewrite Ht. reflexivity.
    + rewrite body_cons by discriminate. rewrite split_ws_word; [|exact Hw|apply Hgap_hd]. rewrite split_ws_skip by exact Hg.
      rewrite IH; [reflexivity|intros x Hx; apply Hws; right; exact Hx|cbn [length] in *; lia].
Qed.

(* ---------- splitlines + strip + drop empty lines ---------- *)
(* local copy of the refactored definition (to be moved into Model/Parser.v) *)
Fixpoint sl_go (s cur : (list N)) : list (list N) :=
  match s with
  | [] => match cur with [] => [] | _ => [rev cur] end
  | c :: s' =>
    if (c =? 13) then
      match s' with
      | d :: s'' => if d =? 10 then rev cur :: sl_go s'' [] else rev cur :: sl_go s' []
      | [] => rev cur :: sl_go s' []
      end
    else if (c =? 10) || (c =? 11) || (c =? 12) || (c =? 28) || (c =? 29) || (c =? 30) || (c =? 133)
            || (c =? 8232) || (c =? 8233)
    then rev cur :: sl_go s' []
    else sl_go s' (c :: cur)
  end.

Definition keep (ls : list (list N)) : list (list N) := filter (fun l => match l with [] => false | _ => true end) (map strip ls).

Lemma keep_cons l ls : keep (l :: ls) = keep [l] ++ keep ls.
Proof. unfold keep. cbn [map filter]. destruct (strip l); reflexivity. Qed.

Lemma strip_blank s : blank s -> strip s = [].
Proof.
  intros H. unfold strip, strip_by.
  assert (L : lstrip_by is_space s = []).
  { induction s as [|c s IH]; [reflexivity|]. cbn [lstrip_by]. rewrite (H c) by (left; reflexivity). apply IH. intros x Hx. apply H. right. exact Hx. }
  rewrite L. reflexivity.
Qed.

Lemma keep_blank l : blank l -> keep [l] = [].
Proof. intros H. unfold keep. cbn [map filter]. rewrite strip_blank by exact H. reflexivity. Qed.

Lemma blank_app a b : blank a -> blank b -> blank (a ++ b).
Proof. intros Ha Hb c Hc. apply in_app_or in Hc as [Hc|Hc]; [apply Ha|apply Hb]; exact Hc. Qed.
Lemma blank_rev a : blank a -> blank (rev a).
Proof. intros H c Hc. apply H. apply in_rev. exact Hc. Qed.
Lemma blank_cons c a : is_space c = true -> blank a -> blank (c :: a).
Proof. intros Hc Ha x [E|Hx]; [subst; exact Hc|apply Ha; exact Hx]. Qed.
Lemma blank_nil : blank []. Proof. intros x []. Qed.

Definition lb_test (c : N) : bool :=
  (c =? 10) || (c =? 11) || (c =? 12) || (c =? 28) || (c =? 29) || (c =? 30) || (c =? 133) || (c =? 8232) || (c =? 8233).

(* white space only: whatever the current line holds, plus some more white space, is the only line that can survive *)
Lemma sl_blank : forall n s cur, (length s <= n)%nat -> blank s ->
  exists tsp, blank tsp /\ keep (sl_go s cur) = keep [rev cur ++ tsp].
Proof.
  induction n as [|n IH]; intros s cur Hlen Hs.
  - destruct s; [|cbn in Hlen; lia]. exists []. split; [exact blank_nil|]. rewrite app_nil_r. cbn [sl_go].
    destruct cur; [reflexivity|reflexivity].
  - destruct s as [|c s'].
    { exists []. split; [exact blank_nil|]. rewrite app_nil_r. cbn [sl_go]. destruct cur; reflexivity. }
    assert (Hs' : blank s') by (intros x Hx; apply Hs; right; exact Hx).
    assert (Hc : is_space c = true) by (apply Hs; left; reflexivity).
    assert (G : forall rest, (length rest <= n)%nat -> blank rest -> keep (sl_go rest []) = []).
    { intros rest Hl Hb. destruct (IH rest [] Hl Hb) as [tsp [A B]]. rewrite B. cbn [rev app]. apply keep_blank. exact A. }
    cbn [sl_go]. destruct (c =? 13) eqn:E13.
    + exists []. split; [exact blank_nil|]. rewrite app_nil_r. destruct s' as [|d s''].
      * rewrite keep_cons. cbn [sl_go]. rewrite app_nil_r. reflexivity.
      * destruct (d =? 10).
        -- rewrite keep_cons. rewrite G; [rewrite app_nil_r; reflexivity|cbn in Hlen; lia|intros x Hx; apply Hs'; right; exact Hx].
        -- rewrite keep_cons. rewrite G; [rewrite app_nil_r; reflexivity|cbn in *; lia|exact Hs'].
    + fold (lb_test c). destruct (lb_test c).
      * exists []. split; [exact blank_nil|]. rewrite app_nil_r. rewrite keep_cons. rewrite G; [rewrite app_nil_r; reflexivity|cbn in Hlen; lia|exact Hs'].
      * destruct (IH s' (c :: cur)) as [tsp [A B]]; [cbn in Hlen; lia|exact Hs'|].
        exists (c :: tsp). split; [apply blank_cons; assumption|]. rewrite B. cbn [rev]. rewrite <- app_assoc. reflexivity.
Qed.

(* text without line-break characters is accumulated *)
Lemma sl_run : forall b rest cur, (forall c, In c b -> is_lb c = false) -> sl_go (b ++ rest) cur = sl_go rest (rev b ++ cur).
Proof.
  induction b as [|c b IH]; intros rest cur H; [reflexivity|]. cbn [app].
  assert (Hc : is_lb c = false) by (apply H; left; reflexivity). unfold is_lb in Hc.
  repeat (apply orb_false_elim in Hc as [Hc ?]).
  cbn [sl_go].
  replace (c =? 13) with false by (symmetry; assumption).
  replace ((c =? 10) || (c =? 11) || (c =? 12) || (c =? 28) || (c =? 29) || (c =? 30) || (c =? 133) || (c =? 8232) || (c =? 8233)) with false.
  2:{ symmetry. repeat (apply orb_false_intro; [|assumption]). assumption. }
  rewrite IH by (intros x Hx; apply H; right; exact Hx). cbn [rev]. rewrite <- app_assoc. reflexivity.
Qed.

(* white space, text, white space *)
Lemma sl_prefix : forall n pre rest cur, (length pre <= n)%nat -> blank pre -> blank cur ->
  (forall c, In c (firstn 1 rest) -> is_space c = false) ->
  exists cur', blank cur' /\ keep (sl_go (pre ++ rest) cur) = keep (sl_go rest cur').
Proof.
  induction n as [|n IH]; intros pre rest cur Hlen Hpre Hcur Hrest.
  - destruct pre; [|cbn in Hlen; lia]. exists cur. split; [exact Hcur|reflexivity].
  - destruct pre as [|c pre]; [exists cur; split; [exact Hcur|reflexivity]|].
    assert (Hpre' : blank pre) by (intros x Hx; apply Hpre; right; exact Hx).
    assert (Hc : is_space c = true) by (apply Hpre; left; reflexivity).
    pose proof (keep_blank (rev cur) (blank_rev cur Hcur)) as KB.
    cbn [app sl_go]. destruct (c =? 13) eqn:E13.
    + destruct pre as [|d pre2].
      * cbn [app]. destruct rest as [|r0 rest'].
        -- exists []. split; [exact blank_nil|]. cbn [sl_go]. rewrite KB. reflexivity.
        -- assert (Hr : (r0 =? 10) = false).
           { destruct (N.eqb_spec r0 10) as [E|E]; [|reflexivity]. subst r0. specialize (Hrest 10 (or_introl eq_refl)). vm_compute in Hrest. discriminate. }
           rewrite Hr. exists []. split; [exact blank_nil|]. rewrite keep_cons, KB. reflexivity.
      * cbn [app]. destruct (d =? 10).
        -- destruct (IH pre2 rest []) as [cur' [A B]]; [cbn in Hlen; lia|intros x Hx; apply Hpre'; right; exact Hx|exact blank_nil|exact Hrest|].
           exists cur'. split; [exact A|]. rewrite keep_cons, KB. exact B.
        -- destruct (IH (d :: pre2) rest []) as [cur' [A B]]; [cbn in *; lia|exact Hpre'|exact blank_nil|exact Hrest|].
           exists cur'. split; [exact A|]. rewrite keep_cons, KB. exact B.
    + fold (lb_test c). destruct (lb_test c).
      * destruct (IH pre rest []) as [cur' [A B]]; [cbn in Hlen; lia|exact Hpre'|exact blank_nil|exact Hrest|].
        exists cur'. split; [exact A|]. rewrite keep_cons, KB. exact B.
      * destruct (IH pre rest (c :: cur)) as [cur' [A B]]; [cbn in Hlen; lia|exact Hpre'|apply blank_cons; assumption|exact Hrest|].
        exists cur'. split; [exact A|exact B].
Qed.

Lemma strip_sandwich a b c : blank a -> blank c -> b <> [] -> is_space (hd 0 b) = false -> is_space (last b 0) = false ->
  strip (a ++ b ++ c) = b.
Proof.
  intros Ha Hc Hne Hh Hl. unfold strip, strip_by. rewrite lstrip_blank_app by exact Ha.
  rewrite lstrip_by_id by (destruct b; [congruence|]; exact Hh).
  unfold rstrip_by. rewrite rev_app_distr. rewrite lstrip_blank_app by (apply blank_rev; exact Hc).
  rewrite lstrip_by_id.
  - apply rev_involutive.
  - destruct (exists_last Hne) as [b' [z E]]. subst b. rewrite last_last in Hl. rewrite rev_app_distr. cbn. exact Hl.
Qed.

Theorem keep_splitlines pre b post : blank pre -> blank post -> b <> [] ->
  (forall c, In c b -> is_lb c = false) -> is_space (hd 0 b) = false -> is_space (last b 0) = false ->
  keep (sl_go (pre ++ b ++ post) []) = [b].
Proof.
  intros Hpre Hpost Hne Hlb Hh Hl.
  destruct (sl_prefix (length pre) pre (b ++ post) [] (le_n _) Hpre blank_nil) as [cur' [A B]].
  { intros c Hc. destruct b as [|b0 b']; [congruence|]. cbn in Hc. destruct Hc as [E|[]]. subst c. exact Hh. }
  rewrite B. rewrite sl_run by exact Hlb.
  destruct (sl_blank (length post) post (rev b ++ cur') (le_n _) Hpost) as [tsp [C E]]. rewrite E.
  rewrite rev_app_distr, rev_involutive. rewrite <- app_assoc. unfold keep. cbn [map filter].
  rewrite strip_sandwich; [|apply blank_rev; exact A|exact C|exact Hne|exact Hh|exact Hl].
  destruct b; [congruence|reflexivity].
Qed.

(* ---------- the nine-column line written with blanks ---------- *)
Definition word_fields (f : feature) : list (list N) :=
  [f_seqid f; f_source f; f_ftype f; coord_str (f_start f); coord_str (f_end f); f_score f; f_strand f; f_frame f].

Definition spaced (gap pre post : list N) (st : style) (f : feature) : list N :=
  pre ++ body gap (word_fields f) (render_attrs st (f_attrs f)) ++ post.

Lemma body_length gap : forall ws tail, (forall w, In w ws -> w <> []) -> (length ws <= length (body gap ws tail))%nat.
Proof.
  induction ws as [|w ws IH]; intros tail H; [cbn; lia|].
  assert (Hw : (1 <= length w)%nat) by (destruct w; [exfalso; apply (H []); [left; reflexivity|reflexivity]|cbn; lia]).
  destruct ws as [|w2 ws].
  - cbn [body length]. destruct tail; [lia|rewrite !app_length; lia].
  - rewrite body_cons by discriminate. rewrite !app_length. cbn [length] in *.
    specialize (IH tail (fun x Hx => H x (or_intror Hx))). lia.
Qed.

Lemma body_In gap : forall ws tail c, In c (body gap ws tail) -> (exists w, In w ws /\ In c w) \/ In c gap \/ In c tail.
Proof.
  induction ws as [|w ws IH]; intros tail c H; [right; right; exact H|].
  destruct ws as [|w2 ws].
  - cbn [body] in H. destruct tail as [|t0 tl0].
    + left. exists w. split; [left; reflexivity|exact H].
    + apply in_app_or in H as [H|H]; [left; exists w; split; [left; reflexivity|exact H]|].
      apply in_app_or in H as [H|H]; [right; left; exact H|right; right; exact H].
  - rewrite body_cons in H by discriminate. apply in_app_or in H as [H|H]; [left; exists w; split; [left; reflexivity|exact H]|].
    apply in_app_or in H as [H|H]; [right; left; exact H|]. apply IH in H as [[x [Hx Hc]]|[H|H]].
    + left. exists x. split; [right; exact Hx|exact Hc].
    + right. left. exact H.
    + right. right. exact H.
Qed.

Lemma body_hd gap w ws tail : w <> [] -> hd 0 (body gap (w :: ws) tail) = hd 0 w.
Proof.
  intros Hw. destruct ws as [|w2 ws].
  - cbn [body]. destruct tail; [reflexivity|apply hd_app_ne; exact Hw].
  - rewrite body_cons by discriminate. apply hd_app_ne. exact Hw.
Qed.

Lemma body_last gap : forall ws tail, ws <> [] -> (forall w, In w ws -> w <> []) ->
  last (body gap ws tail) 0 = match tail with [] => last (last ws []) 0 | _ => last tail 0 end.
Proof.
  induction ws as [|w ws IH]; intros tail Hne Hw; [congruence|]. destruct ws as [|w2 ws].
  - cbn [body last]. destruct tail as [|t0 tl0]; [reflexivity|]. rewrite app_assoc. apply last_app_ne. discriminate.
  - rewrite body_cons by discriminate.
    assert (Hb : body gap (w2 :: ws) tail <> []).
    { intros E. pose proof (body_length gap (w2 :: ws) tail (fun x Hx => Hw x (or_intror Hx))) as L. rewrite E in L. cbn in L. lia. }
    rewrite app_assoc. rewrite last_app_ne by exact Hb. rewrite IH; [|discriminate|intros x Hx; apply Hw; right; exact Hx].
    destruct tail; reflexivity.
Qed.

(* the model's splitlines is the function analysed above *)
Lemma sl_bridge : forall n s cur, (length s <= n)%nat -> splitlines_go s cur = sl_go s cur.
Proof.
  induction n as [|n IH]; intros s cur Hlen.
  - destruct s; [reflexivity|cbn in Hlen; lia].
  - destruct s as [|c s']; [reflexivity|]. cbn [splitlines_go sl_go]. cbn [length] in Hlen.
    destruct (c =? 13).
    + destruct s' as [|d s'']; [reflexivity|]. destruct (d =? 10).
      * rewrite IH by (cbn [length] in Hlen; lia). reflexivity.
      * rewrite IH by lia. reflexivity.
    + destruct ((c =? 10) || (c =? 11) || (c =? 12) || (c =? 28) || (c =? 29) || (c =? 30) || (c =? 133) || (c =? 8232) || (c =? 8233)).
      * rewrite IH by lia. reflexivity.
      * apply IH. lia.
Qed.

Lemma Hbridge s : splitlines s = sl_go s [].
Proof. unfold splitlines. apply (sl_bridge (length s)). apply le_n. Qed.

Section NS.
  Variable isw : N -> bool.
  Hypothesis Hw : forall c, ascii_word c = true -> isw c = true.
  Hypothesis Heq : isw EQ = false.
  Hypothesis Hsp : isw SP = false.

  Lemma solid_no_space w c : solid w -> In c w -> is_space c = false.
  Proof. intros [_ H] Hc. apply H. exact Hc. Qed.

  Lemma not_space_not_lb c : is_space c = false -> is_lb c = false.
  Proof. intros H. destruct (is_lb c) eqn:E; [|reflexivity]. apply lb_is_space in E. congruence. Qed.

  Lemma render_attrs_edges st a : wf_attrs st a = true -> a <> [] ->
    is_space (hd 0 (render_attrs st a)) = false /\ is_space (last (render_attrs st a) 0) = false /\ render_attrs st a <> [].
  Proof.
    intros Hwf Hne. apply wf_attrs_spec in Hwf as [Hfs [Hnd [Hit _]]].
    destruct a as [|kv0 a0]; [congruence|]. unfold render_attrs. set (a := kv0 :: a0) in *.
    pose proof (items_ok st a Hit) as Hok. rewrite render_items_parts.
    set (items := ritems (st_kv st) (style_items st a)) in *.
    assert (Hine : items <> []).
    { unfold items, ritems. intros E. apply map_eq_nil in E. revert E. apply style_items_nonempty. }
    pose proof (parts_ok_items (st_kv st) items Hok) as Hp.
    set (ps := map (part (st_kv st)) items) in *.
    assert (Hpne : ps <> []) by (intros E; apply map_eq_nil in E; contradiction).
    assert (HJ : join (st_fsep st) ps <> []).
    { destruct ps as [|p1 ps'] eqn:Eps; [congruence|]. apply join_nonempty. apply (Hp p1). left. reflexivity. }
    split; [|split].
    3:{ intros E. apply app_eq_nil in E as [E _]. contradiction. }
    - rewrite hd_app_ne by exact HJ. destruct ps as [|p1 ps'] eqn:Eps; [congruence|].
      rewrite join_hd by (apply (Hp p1); left; reflexivity).
      unfold ps in Eps. destruct items as [|it0 items'] eqn:Ei; [congruence|]. cbn [map] in Eps. inversion Eps as [[E1 E2]].
      apply (ascii_word_not _ (part_hd (st_kv st) it0 (Hok it0 (or_introl eq_refl)))).
    - destruct (st_trailing st).
      + rewrite last_last. reflexivity.
      + rewrite app_nil_r. rewrite join_last; [|exact Hpne|intros p Hin; apply (Hp p Hin)].
        assert (Hin : In (last ps []) ps) by (apply last_In; exact Hpne).
        unfold ps in Hin. apply in_map_iff in Hin as [it [E Hit']].
        pose proof (part_last (st_kv st) it (Hok it Hit')) as PL. rewrite E in PL. exact PL.
  Qed.

  Theorem l_nonstrict st f gap pre post :
    wf_feature st f = true -> canonical st f -> f_extra f = [] ->
    (forall w, In w [f_seqid f; f_source f; f_ftype f; f_score f; f_strand f; f_frame f] -> solid w) ->
    (forall x, f_start f = Some x -> (0 <= x)%Z) -> (forall x, f_end f = Some x -> (0 <= x)%Z) ->
    blank gap -> gap <> [] -> (forall c, In c gap -> is_lb c = false /\ c <> TAB) ->
    blank pre -> blank post ->
    (forall c, In c (render_attrs st (f_attrs f)) -> is_lb c = false) ->
    feature_from_line_nonstrict isw (spaced gap pre post st f) None true = Ok f.
  Proof.
    intros Hwf Hcan Hex Hcols Hs0 He0 Hgap Hgne Hgc Hpre Hpost Hattr_lb.
    pose proof (wf_feature_spec st f Hwf) as [_ [_ [_ [_ [_ [_ [Ha [_ [Hko Hsv]]]]]]]]].
    set (A := render_attrs st (f_attrs f)) in *.
    (* the eight leading fields are solid words *)
    assert (Hcoord : forall x, (forall z, x = Some z -> (0 <= z)%Z) -> solid (coord_str x)).
    { intros x Hx. destruct x as [z|]; cbn [coord_str].
      - destruct (str_of_nonneg z (Hx z eq_refl)) as [ds [E [Hne [Hd _]]]]. rewrite E. split; [exact Hne|].
        intros c Hc. specialize (Hd c Hc). unfold is_digit in Hd. apply andb_prop in Hd as [H1 H2].
        apply N.leb_le in H1. apply N.leb_le in H2. apply space_range. lia.
      - split; [discriminate|]. intros c [E|[]]. subst c. reflexivity. }
    assert (Hwords : forall w, In w (word_fields f) -> solid w).
    { intros w Hin. unfold word_fields in Hin. cbn [In] in Hin.
      destruct Hin as [E|[E|[E|[E|[E|[E|[E|[E|[]]]]]]]]]; subst w;
        try (apply Hcols; cbn [In]; tauto); apply Hcoord; assumption. }
    assert (Hwne : forall w, In w (word_fields f) -> w <> []) by (intros w Hin; apply (Hwords w Hin)).
    set (b := body gap (word_fields f) A).
    assert (Htail : A = [] \/ is_space (hd 0 A) = false).
    { unfold A. destruct (f_attrs f) as [|kv0 a0]; [left; reflexivity|]. right.
      apply render_attrs_edges; [exact Ha|discriminate]. }
    assert (Hb_ne : b <> []).
    { intros E. pose proof (body_length gap (word_fields f) A Hwne) as L. fold b in L. rewrite E in L. cbn in L. lia. }
    assert (Hb_chars : forall c, In c b -> is_lb c = false /\ c <> TAB).
    { intros c Hc. apply body_In in Hc as [[w [Hw' Hc]]|[Hc|Hc]].
      - pose proof (solid_no_space w c (Hwords w Hw') Hc) as S. split; [apply not_space_not_lb; exact S|].
        intros E. subst c. vm_compute in S. discriminate.
      - apply Hgc. exact Hc.
      - split; [apply Hattr_lb; exact Hc|]. intros E. subst c. revert Hc. unfold A.
        intros Hc. apply (render_attrs_clean st (f_attrs f) TAB Ha Hc). left. reflexivity. }
    assert (Hb_hd : is_space (hd 0 b) = false).
    { unfold b, word_fields. rewrite body_hd by (apply Hwne; unfold word_fields; left; reflexivity).
      destruct (Hwords (f_seqid f)) as [Hne Hs]; [unfold word_fields; left; reflexivity|].
      destruct (f_seqid f) as [|c r] eqn:E; [congruence|]. cbn [hd]. apply Hs. left. reflexivity. }
    assert (Hb_last : is_space (last b 0) = false).
    { unfold b. rewrite body_last; [|unfold word_fields; discriminate|exact Hwne].
      destruct A as [|a0 ar] eqn:EA.
      - unfold word_fields. cbn [last]. destruct (Hwords (f_frame f)) as [Hne Hs]; [unfold word_fields; cbn [In]; tauto|].
        apply Hs. apply last_In. exact Hne.
      - rewrite <- EA. unfold A in *. destruct (f_attrs f) as [|kv0 a0']; [discriminate|].
        apply render_attrs_edges; [exact Ha|discriminate]. }
    (* one non-empty stripped line *)
    unfold feature_from_line_nonstrict, spaced. fold A. fold b. rewrite Hbridge.
    change (filter (fun l : list N => match l with [] => false | _ :: _ => true end) (map strip (sl_go (pre ++ b ++ post) [])))
      with (keep (sl_go (pre ++ b ++ post) [])).
    rewrite (keep_splitlines pre b post Hpre Hpost Hb_ne (fun c Hc => proj1 (Hb_chars c Hc)) Hb_hd Hb_last).
    assert (Htab : mem_char TAB b = false).
    { apply mem_char_false. intros Hin. apply (proj2 (Hb_chars TAB Hin)). reflexivity. }
    rewrite Htab.
    assert (Hrs : rstrip_nl b = b).
    { unfold rstrip_nl, rstrip_chars. apply rstrip_by_id; [exact Hb_ne|]. cbn [mem_char existsb].
      pose proof (space_range (last b 0)) as [S _]. specialize (S Hb_last).
      destruct (N.eqb_spec (last b 0) 10) as [E|E]; [exfalso; apply S; lia|].
      destruct (N.eqb_spec (last b 0) 13) as [E'|E']; [exfalso; apply S; lia|]. reflexivity. }
    rewrite Hrs.
    assert (Hsplit : split_ws 8 b = word_fields f ++ match A with [] => [] | _ => [A] end).
    { unfold split_ws. apply (split_ws_body gap A Hgap Hgne Htail (word_fields f) (Datatypes.S (length b)) Hwords).
      pose proof (body_length gap (word_fields f) A Hwne) as L. fold b in L. unfold word_fields in *. cbn [length] in *. lia. }
    rewrite Hsplit. unfold word_fields.
    (* same fields as the tab-separated line *)
    destruct A as [|a1 ar] eqn:EA.
    - assert (Ea : f_attrs f = []).
      { destruct (f_attrs f) as [|kv0 a0] eqn:Ea; [reflexivity|]. exfalso.
        destruct (render_attrs_edges st (kv0 :: a0)) as [_ [_ Hn]]; [exact Ha|discriminate|]. apply Hn. exact EA. }
      cbn [app]. unfold feature_of_fields. cbn [nth_str nth skipn split_infer].
      rewrite !coord_roundtrip. destruct f. cbn in *. unfold canonical in Hcan. cbn in Hcan. subst. reflexivity.
    - rewrite <- EA. unfold feature_of_fields. cbn [app nth_str nth skipn]. unfold A.
      rewrite (l_parse_attrs isw Hw Heq Hsp st (f_attrs f) Ha). rewrite !coord_roundtrip.
      destruct f. cbn in *. unfold canonical in Hcan. cbn in Hcan. subst. reflexivity.
  Qed.
End NS.
