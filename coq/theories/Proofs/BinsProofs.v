(* Proofs/BinsProofs.v — theorems about the hand-written model of bins(). *)
From GV Require Import Base.Prelude Model.Bins.
From Coq Require Import ZifyBool.
Open Scope Z_scope.

Ltac Zify.zify_post_hook ::= Z.to_euclidean_division_equations.

Definition contains (sh i x : Z) : Prop := ext_lo sh i <= x <= ext_hi sh i.

Lemma shiftr_mono a b n : 0 <= n -> a <= b -> Z.shiftr a n <= Z.shiftr b n.
Proof.
  intros Hn Hab. rewrite !Z.shiftr_div_pow2 by lia.
  apply Z.div_le_mono; [apply Z.pow_pos_nonneg; lia | lia].
Qed.

Lemma levels_cases off sh : In (off, sh) levels ->
  (off, sh) = (4681,17) \/ (off, sh) = (585,20) \/ (off, sh) = (73,23) \/ (off, sh) = (9,26) \/ (off, sh) = (1,29).
Proof. simpl. intuition congruence. Qed.

Lemma levels_sh_nonneg off sh : In (off, sh) levels -> 0 <= sh.
Proof. intros H. apply levels_cases in H. destruct H as [H|[H|[H|[H|H]]]]; inversion H; lia. Qed.

(* x lies in the extent of bin i at shift sh iff x >> sh = i *)
Lemma contains_shiftr sh i x : In sh [17;20;23;26;29] -> (contains sh i x <-> Z.shiftr x sh = i).
Proof.
  intros Hsh. unfold contains, ext_lo, ext_hi.
  assert (0 <= sh) by (simpl in Hsh; lia).
  rewrite Z.shiftr_div_pow2 by lia.
  simpl in Hsh.
  destruct Hsh as [<-|[<-|[<-|[<-|[<-|[]]]]]];
    match goal with |- context [2 ^ ?k] => let v := eval vm_compute in (2 ^ k) in change (2 ^ k) with v end; lia.
Qed.

Lemma level_sh_in off sh : In (off, sh) levels -> In sh [17;20;23;26;29].
Proof. intros H. apply levels_cases in H. simpl. destruct H as [H|[H|[H|[H|H]]]]; inversion H; auto 10. Qed.

Lemma one_loop_in ls s e b : one_loop ls s e = Some b ->
  exists off sh, In (off, sh) ls /\ Z.shiftr s sh = Z.shiftr e sh /\ b = off + Z.shiftr s sh.
Proof.
  induction ls as [|[off sh] tl IH]; simpl; [discriminate|].
  destruct (Z.shiftr s sh =? Z.shiftr e sh) eqn:E.
  - intros H; inversion H; subst. exists off, sh. split; [now left|]. split; [lia|reflexivity].
  - intros H. destruct (IH H) as (o & h & Hin & H1 & H2). exists o, h. split; [now right|]. auto.
Qed.

(* the first level at which both ends fall into one bin; all earlier levels separate them *)
Lemma one_loop_first ls s e b : one_loop ls s e = Some b ->
  exists pre off sh post, ls = pre ++ (off, sh) :: post /\
    Z.shiftr s sh = Z.shiftr e sh /\ b = off + Z.shiftr s sh /\
    forall o h, In (o, h) pre -> Z.shiftr s h <> Z.shiftr e h.
Proof.
  induction ls as [|[off sh] tl IH]; simpl; [discriminate|].
  destruct (Z.shiftr s sh =? Z.shiftr e sh) eqn:E.
  - intros H; inversion H; subst. exists [], off, sh, tl. repeat split; try lia. intros o h [].
  - intros H. destruct (IH H) as (pre & o & h & post & -> & H1 & H2 & H3).
    exists ((off, sh) :: pre), o, h, post. repeat split; auto.
    intros o' h' [Hin|Hin]; [inversion Hin; subst; lia | eauto].
Qed.

Lemma shiftr29_small x : 0 <= x < MAXC -> Z.shiftr x 29 = 0.
Proof. intros H. rewrite Z.shiftr_div_pow2 by lia. change (2 ^ 29) with 536870912. unfold MAXC in H. lia. Qed.

Lemma in_range_bounds f s e : in_range f s e = true ->
  0 <= s - coord_off f < MAXC /\ 0 <= e < MAXC.
Proof. unfold in_range. destruct f; simpl; lia. Qed.

Lemma one_loop_total s e : 0 <= s < MAXC -> 0 <= e < MAXC -> exists b, one_loop levels s e = Some b.
Proof.
  intros Hs He. unfold levels. cbn [one_loop].
  repeat match goal with |- context [if ?c then _ else _] => destruct c eqn:?; [eexists; reflexivity|] end.
  exfalso. rewrite (shiftr29_small s Hs), (shiftr29_small e He) in *. discriminate.
Qed.

(* ---- 1/2: one=True gives a real bin, the finest one containing interval + next base ---- *)
Theorem model_one_is_bin f s e : in_range f s e = true ->
  exists b off sh i, bins f s e true = RInt b /\ is_bin_of b off sh i.
Proof.
  intros Hr. unfold bins. rewrite Hr.
  destruct (in_range_bounds _ _ _ Hr) as [Hs He].
  destruct (one_loop_total _ _ Hs He) as [b Hb]. rewrite Hb.
  destruct (one_loop_in _ _ _ _ Hb) as (off & sh & Hin & Heq & ->).
  exists (off + Z.shiftr (s - coord_off f) sh), off, sh, (Z.shiftr (s - coord_off f) sh).
  split; [reflexivity|]. split; [exact Hin|]. split; [reflexivity|].
  unfold level_size. rewrite Z.shiftr_div_pow2 by (apply (levels_sh_nonneg off); exact Hin).
  apply levels_cases in Hin. unfold MAXC in *.
  destruct Hin as [H|[H|[H|[H|H]]]]; inversion H; subst;
    match goal with |- context [2 ^ (29 - ?k)] => let v := eval vm_compute in (2 ^ (29 - k)) in change (2 ^ (29 - k)) with v end;
    match goal with |- context [2 ^ ?k] => let v := eval vm_compute in (2 ^ k) in change (2 ^ k) with v end; lia.
Qed.

Theorem model_one_exact f s e : in_range f s e = true ->
  exists b off sh i, bins f s e true = RInt b /\ is_bin_of b off sh i /\
    contains sh i (s - coord_off f) /\ contains sh i e /\
    (forall off' sh' i', In (off', sh') levels -> sh' < sh ->
        ~ (contains sh' i' (s - coord_off f) /\ contains sh' i' e)).
Proof.
  intros Hr.
  destruct (model_one_is_bin f s e Hr) as (b & off & sh & i & Hb & Hbin).
  unfold bins in Hb. rewrite Hr in Hb.
  destruct (in_range_bounds _ _ _ Hr) as [Hs He].
  destruct (one_loop_total _ _ Hs He) as [b' Hb']. rewrite Hb' in Hb. inversion Hb; subst b'. clear Hb.
  destruct (one_loop_first _ _ _ _ Hb') as (pre & off1 & sh1 & post & Hl & Heq & Hb1 & Hpre).
  assert (Hin1 : In (off1, sh1) levels) by (rewrite Hl; apply in_or_app; right; now left).
  exists b, off1, sh1, (Z.shiftr (s - coord_off f) sh1).
  split; [unfold bins; rewrite Hr, Hb'; reflexivity|].
  split.
  { split; [exact Hin1|]. split; [exact Hb1|].
    destruct Hbin as (Hin & Hbo & Hi).
    (* bound for this level *)
    unfold level_size. rewrite Z.shiftr_div_pow2 by (apply (levels_sh_nonneg off1); exact Hin1).
    apply levels_cases in Hin1. unfold MAXC in *.
    destruct Hin1 as [H|[H|[H|[H|H]]]]; inversion H; subst off1 sh1;
      match goal with |- context [2 ^ (29 - ?k)] => let v := eval vm_compute in (2 ^ (29 - k)) in change (2 ^ (29 - k)) with v end;
      match goal with |- context [2 ^ ?k] => let v := eval vm_compute in (2 ^ k) in change (2 ^ k) with v end; lia. }
  split; [apply contains_shiftr; [eapply level_sh_in; eauto | reflexivity]|].
  split; [apply contains_shiftr; [eapply level_sh_in; eauto | congruence]|].
  intros off' sh' i' Hin' Hlt [C1 C2].
  apply contains_shiftr in C1; [|eapply level_sh_in; eauto].
  apply contains_shiftr in C2; [|eapply level_sh_in; eauto].
  (* (off', sh') is before (off1, sh1) in levels, hence in pre *)
  assert (Hp : In (off', sh') pre).
  { unfold levels in Hl. apply levels_cases in Hin'. apply levels_cases in Hin1.
    destruct pre as [|p0 [|p1 [|p2 [|p3 [|p4 pre]]]]]; simpl in Hl; inversion Hl; subst; clear Hl;
    destruct Hin' as [H|[H|[H|[H|H]]]]; inversion H; subst; simpl; try lia; auto 10. }
  apply Hpre in Hp. congruence.
Qed.

(* ---- membership in the one=False set -------------------------------------------------- *)
Lemma in_set_ranges b s e :
  in_ranges b (set_ranges s e) = true <->
  (b = 1 \/ exists off sh, In (off, sh) levels /\ off + Z.shiftr s sh <= b <= off + Z.shiftr e sh).
Proof.
  unfold in_ranges, set_ranges. rewrite existsb_exists. split.
  - intros ((lo & hi) & Hin & Hb). apply in_app_or in Hin as [Hin|Hin].
    + apply in_rev in Hin. apply in_map_iff in Hin as ((o & sh) & E & Hl). inversion E; subst.
      right. exists o, sh. split; [exact Hl| lia].
    + simpl in Hin. destruct Hin as [E|[]]. inversion E; subst. left. lia.
  - intros [->|(off & sh & Hl & Hb)].
    + exists (1,1). split; [apply in_or_app; right; now left| reflexivity].
    + exists (off + Z.shiftr s sh, off + Z.shiftr e sh). split; [|lia].
      apply in_or_app; left. apply -> in_rev. apply in_map_iff. exists (off, sh). split; [reflexivity|exact Hl].
Qed.

(* 3: every bin overlapping the 0-based closed interval [s', e-1] is in the set *)
Theorem model_set_complete f s e off sh i x : in_range f s e = true ->
  In (off, sh) levels -> s - coord_off f <= x <= e - 1 -> contains sh i x ->
  bin_set_mem f (off + i) s e = true.
Proof.
  intros Hr Hl Hx Hc. unfold bin_set_mem, bins. rewrite Hr. apply in_set_ranges.
  right. exists off, sh. split; [exact Hl|].
  apply contains_shiftr in Hc; [|eapply level_sh_in; eauto]. subst i.
  pose proof (levels_sh_nonneg _ _ Hl) as Hn.
  pose proof (shiftr_mono (s - coord_off f) x sh Hn ltac:(lia)).
  pose proof (shiftr_mono x e sh Hn ltac:(lia)). lia.
Qed.

(* 4: every member is bin 1 or a bin whose extent meets [s', e] (interval + following base) *)
Theorem model_set_tight f s e b : in_range f s e = true -> s - coord_off f <= e ->
  bin_set_mem f b s e = true ->
  b = 1 \/ exists off sh i x, In (off, sh) levels /\ b = off + i /\
            s - coord_off f <= x <= e /\ contains sh i x.
Proof.
  intros Hr Hse Hm. unfold bin_set_mem, bins in Hm. rewrite Hr in Hm. apply in_set_ranges in Hm.
  destruct Hm as [->|(off & sh & Hl & Hb)]; [now left|]. right.
  set (s' := s - coord_off f) in *.
  exists off, sh, (b - off), (Z.max s' ((b - off) * 2 ^ sh)).
  split; [exact Hl|]. split; [lia|].
  assert (Hsh : In sh [17;20;23;26;29]) by (eapply level_sh_in; eauto).
  rewrite (contains_shiftr sh _ _ Hsh).
  rewrite !Z.shiftr_div_pow2 in * by (simpl in Hsh; lia).
  simpl in Hsh.
  destruct Hsh as [<-|[<-|[<-|[<-|[<-|[]]]]]];
    match goal with |- context [2 ^ ?k] => let v := eval vm_compute in (2 ^ k) in change (2 ^ k) with v in * end; lia.
Qed.

(* 5: out of range *)
Theorem model_out_of_range f s e : in_range f s e = false ->
  bins f s e true = RInt 1 /\ bins f s e false = RSet [(1,1)].
Proof. intros H. unfold bins. rewrite H. split; reflexivity. Qed.

Lemma one_in_every_set f s e : bin_set_mem f 1 s e = true.
Proof.
  unfold bin_set_mem, bins. destruct (in_range f s e); [apply in_set_ranges; now left| reflexivity].
Qed.

(* 6: overlap soundness — the index is never wrong for an in-range query *)
Theorem model_overlap_sound f fs fe qs qe :
  in_range f qs qe = true ->
  fs <= qe -> qs <= fe ->
  bin_set_mem f (bin_one f fs fe) qs qe = true.
Proof.
  intros Hq H1 H2. unfold bin_one.
  destruct (in_range f fs fe) eqn:Hf.
  - destruct (model_one_is_bin f fs fe Hf) as (b & off & sh & i & Hb & _).
    rewrite Hb. unfold bins in Hb. rewrite Hf in Hb.
    destruct (one_loop levels (fs - coord_off f) fe) as [b'|] eqn:Hb'; [|discriminate].
    inversion Hb; subst b'. clear Hb.
    destruct (one_loop_in _ _ _ _ Hb') as (o & h & Hin & Heq & ->).
    unfold bin_set_mem, bins. rewrite Hq. apply in_set_ranges. right. exists o, h. split; [exact Hin|].
    pose proof (levels_sh_nonneg _ _ Hin) as Hsh.
    pose proof (shiftr_mono (qs - coord_off f) fe h Hsh ltac:(destruct f; simpl; lia)) as A.
    pose proof (shiftr_mono (fs - coord_off f) qe h Hsh ltac:(destruct f; simpl; lia)) as B.
    lia.
  - destruct (model_out_of_range f fs fe Hf) as [-> _]. apply one_in_every_set.
Qed.

(* The same statement is false for an out-of-range QUERY: the set is then {1} only.
   This is why region()/make_query must not add a bin clause for such queries (C06). *)
Example overlap_outrange_query_refuted :
  exists fs fe qs qe, fs <= qe /\ qs <= fe /\ bin_set_mem Gff (bin_one Gff fs fe) qs qe = false.
Proof. exists 5, 10, 1, 536870912. vm_compute. repeat split; discriminate. Qed.
