(* Proofs/C19Proofs.v — no clobbering, reads are pure (on the model of Model/Store.v). *)
From GV Require Import Base.Prelude Base.PyStr Model.Bins Model.DB Model.Parser Model.Import Model.Machine Model.Store.
Open Scope Z_scope.

Lemma fs_get_set_same p d fs : fs_get p (fs_set p d fs) = Some d.
Proof.
  induction fs as [|[q d'] fs IH]; simpl; [rewrite str_eqb_refl; reflexivity|].
  destruct (str_eqb p q) eqn:E; simpl; rewrite E; [reflexivity|exact IH].
Qed.

Lemma fs_get_set_other p q d fs : p <> q -> fs_get q (fs_set p d fs) = fs_get q fs.
Proof.
  intros H. induction fs as [|[r d'] fs IH]; simpl.
  - destruct (str_eqb q p) eqn:E; [apply str_eqb_eq in E; congruence|reflexivity].
  - destruct (str_eqb p r) eqn:E; simpl.
    + apply str_eqb_eq in E. subst r. destruct (str_eqb q p) eqn:E2; [apply str_eqb_eq in E2; congruence|reflexivity].
    + destruct (str_eqb q r); [reflexivity|exact IH].
Qed.

Theorem l_refuse fs p old imp : fs_get p fs = Some old ->
  create_db_fs fs p false imp = (fs, Err EOther).
Proof. intros H. unfold create_db_fs. rewrite H. reflexivity. Qed.

Theorem l_force fs p imp d : imp = Ok d ->
  snd (create_db_fs fs p true imp) = Ok tt /\ fs_get p (fst (create_db_fs fs p true imp)) = Some d.
Proof.
  intros H. subst imp. unfold create_db_fs. destruct (fs_get p fs); cbn [fst snd]; (split; [reflexivity|apply fs_get_set_same]).
Qed.

(* the result of a forced creation does not depend on what the path held before *)
Theorem l_force_independent fs fs' p imp :
  fs_get p (fst (create_db_fs fs p true imp)) = fs_get p (fst (create_db_fs fs' p true imp))
  /\ snd (create_db_fs fs p true imp) = snd (create_db_fs fs' p true imp).
Proof.
  unfold create_db_fs. destruct (fs_get p fs), (fs_get p fs'), imp; cbn [fst snd]; rewrite ?fs_get_set_same; split; reflexivity.
Qed.

Theorem l_other_paths fs p q force imp : p <> q -> fs_get q (fst (create_db_fs fs p force imp)) = fs_get q fs.
Proof.
  intros H. unfold create_db_fs. destruct (fs_get p fs), force, imp; cbn [fst]; try reflexivity; apply fs_get_set_other; exact H.
Qed.

Theorem l_fresh fs p force imp d : fs_get p fs = None -> imp = Ok d ->
  fs_get p (fst (create_db_fs fs p force imp)) = Some d.
Proof. intros H E. subst imp. unfold create_db_fs. rewrite H. destruct force; cbn [fst]; apply fs_get_set_same. Qed.

Section R.
  Variable call : nat -> row -> option str.
  Variable kind : dbkind.

  Theorem l_reads_pure : forall rs s, m_disk (reads s rs) = m_disk s /\ m_bak (reads s rs) = m_bak s.
  Proof.
    unfold reads. induction rs as [|r rs IH]; intros s; [split; reflexivity|]. cbn [fold_left].
    destruct (IH (read_step s r)) as [A B]. rewrite A, B. destruct r; split; reflexivity.
  Qed.

  (* what a reopen observes after any sequence of read-style calls: the same content and the same
     id counters as before them *)
  Theorem l_reads_then_reopen rs s :
    fst (step call kind (reads s rs) OpReopen) = fst (step call kind s OpReopen).
  Proof.
    destruct (l_reads_pure rs s) as [A B]. cbn [step fst]. rewrite A, B. reflexivity.
  Qed.
End R.
