(* Proofs/StrLemmas.v — general facts about the string primitives used by the parse->print
   proofs (C07, C09, C01): a separator that contains a two-character pattern which does not
   occur in the text does not split it; strip/rstrip are the identity on text whose ends are
   not strippable; first/last characters of joins. *)
From GV Require Import Base.Prelude Base.PyStr Proofs.SplitJoin.
Open Scope N_scope.

(* ---- occurrence of the two-character pattern a b ---- *)
Fixpoint bigram (a b : N) (s : str) : bool :=
  match s with
  | [] => false
  | c :: s' => ((c =? a) && match s' with d :: _ => d =? b | [] => false end) || bigram a b s'
  end.

Lemma bigram_tail a b c s : bigram a b (c :: s) = false -> bigram a b s = false.
Proof. simpl. intros H. apply orb_false_elim in H as [_ H]. exact H. Qed.

Lemma is_prefix_bigram a b : forall u w t, is_prefix (u ++ a :: b :: w) t = true -> bigram a b t = true.
Proof.
  induction u as [|x u IH]; intros w t H.
  - simpl app in H. destruct t as [|c [|d t]]; simpl in H; try discriminate.
    + rewrite andb_false_r in H. discriminate.
    + apply andb_prop in H as [H1 H2]. apply andb_prop in H2 as [H2 _].
      apply N.eqb_eq in H1. apply N.eqb_eq in H2. subst. simpl. rewrite !N.eqb_refl. reflexivity.
  - destruct t as [|c t]; simpl in H; [discriminate|]. apply andb_prop in H as [_ H].
    apply IH in H. simpl. rewrite H. apply orb_true_r.
Qed.

Lemma split_go_no_bigram a b u w : forall s cur, bigram a b s = false ->
  split_go (u ++ a :: b :: w) 0 cur s = [rev cur ++ s].
Proof.
  induction s as [|c s IH]; intros cur H.
  - simpl. rewrite app_nil_r. reflexivity.
  - cbn [split_go]. destruct (is_prefix (u ++ a :: b :: w) (c :: s)) eqn:E.
    + apply is_prefix_bigram in E. congruence.
    + rewrite IH by (eapply bigram_tail; exact H). simpl rev. rewrite <- app_assoc. reflexivity.
Qed.

Lemma split_no_bigram a b u w s : bigram a b s = false -> split (u ++ a :: b :: w) s = [s].
Proof. intros H. unfold split. rewrite (split_go_no_bigram a b u w s [] H). reflexivity. Qed.

Lemma bigram_In_l a b s : bigram a b s = true -> In a s.
Proof.
  induction s as [|c s IH]; simpl; [discriminate|]. intros H. apply orb_prop in H as [H|H].
  - apply andb_prop in H as [H _]. apply N.eqb_eq in H. left. exact H.
  - right. apply IH. exact H.
Qed.

Lemma bigram_In_r a b s : bigram a b s = true -> In b s.
Proof.
  induction s as [|c s IH]; simpl; [discriminate|]. intros H. apply orb_prop in H as [H|H].
  - apply andb_prop in H as [_ H]. destruct s as [|d s]; [discriminate|]. apply N.eqb_eq in H. right. left. exact H.
  - right. apply IH. exact H.
Qed.

(* pattern across a concatenation *)
Lemma bigram_app a b : forall x y, bigram a b (x ++ y) =
  bigram a b x || bigram a b y || (match x with [] => false | _ => last x 0 =? a end && match y with d :: _ => d =? b | [] => false end).
Proof.
  induction x as [|c x IH]; intros y.
  - simpl. rewrite orb_false_r. reflexivity.
  - destruct x as [|c2 x].
    + destruct y as [|d y].
      * simpl. rewrite !andb_false_r. reflexivity.
      * change ([c] ++ d :: y) with (c :: d :: y).
        change (bigram a b (c :: d :: y)) with (((c =? a) && (d =? b)) || bigram a b (d :: y)).
        change (bigram a b [c]) with (((c =? a) && false) || false). change (last [c] 0) with c.
        destruct (c =? a), (d =? b), (bigram a b (d :: y)); reflexivity.
    + change ((c :: c2 :: x) ++ y) with (c :: (c2 :: x) ++ y).
      cbn [bigram]. rewrite IH. change ((c2 :: x) ++ y) with (c2 :: x ++ y).
      change (last (c :: c2 :: x) 0) with (last (c2 :: x) 0). cbv iota.
      destruct ((c =? a) && (c2 =? b)); [reflexivity|]. simpl orb at 1. cbn [bigram]. reflexivity.
Qed.

Lemma bigram_false_notin_r a b s : ~ In b s -> bigram a b s = false.
Proof. intros H. destruct (bigram a b s) eqn:E; [|reflexivity]. apply bigram_In_r in E. contradiction. Qed.

Lemma bigram_false_notin_l a b s : ~ In a s -> bigram a b s = false.
Proof. intros H. destruct (bigram a b s) eqn:E; [|reflexivity]. apply bigram_In_l in E. contradiction. Qed.

(* ---- last / hd ---- *)
Lemma last_app_ne {A} (x y : list A) d : y <> [] -> last (x ++ y) d = last y d.
Proof.
  intros Hy. destruct (exists_last Hy) as [y' [z E]]. subst y. rewrite app_assoc, !last_last. reflexivity.
Qed.

Lemma last_cons_ne {A} (c : A) (y : list A) d : y <> [] -> last (c :: y) d = last y d.
Proof. intros Hy. destruct y; [congruence|reflexivity]. Qed.

Lemma last_In {A} (l : list A) d : l <> [] -> In (last l d) l.
Proof.
  intros H. destruct (exists_last H) as [l' [z E]]. subst l. rewrite last_last. apply in_or_app. right. left. reflexivity.
Qed.

Lemma hd_app_ne {A} (x y : list A) d : x <> [] -> hd d (x ++ y) = hd d x.
Proof. destruct x; [congruence|reflexivity]. Qed.

(* ---- strip ---- *)
Lemma lstrip_by_id p s : match s with c :: _ => p c = false | [] => True end -> lstrip_by p s = s.
Proof. destruct s as [|c s]; [reflexivity|]. simpl. intros H. rewrite H. reflexivity. Qed.

Lemma rstrip_by_id p s : s <> [] -> p (last s 0) = false -> rstrip_by p s = s.
Proof.
  intros Hne H. destruct (exists_last Hne) as [s' [z E]]. subst s. rewrite last_last in H.
  unfold rstrip_by. rewrite rev_app_distr. simpl. rewrite H. rewrite <- (rev_involutive s') at 2.
  change (z :: rev s') with ([z] ++ rev s'). rewrite rev_app_distr. rewrite rev_involutive. reflexivity.
Qed.

Lemma strip_by_id p s : s <> [] -> p (hd 0 s) = false -> p (last s 0) = false -> strip_by p s = s.
Proof.
  intros Hne Hh Hl. unfold strip_by. rewrite lstrip_by_id by (destruct s; [congruence|exact Hh]).
  apply rstrip_by_id; assumption.
Qed.

Lemma rstrip_by_empty p : rstrip_by p [] = [].
Proof. reflexivity. Qed.

Lemma removelast_app_single {A} (s : list A) x : removelast (s ++ [x]) = s.
Proof. apply removelast_last. Qed.

(* ---- is_space as a proposition ---- *)
Lemma space_true c : is_space c = true <->
  (9 <= c <= 13 \/ 28 <= c <= 32 \/ c = 133 \/ c = 160 \/ c = 5760 \/ 8192 <= c <= 8202 \/ c = 8232 \/ c = 8233
     \/ c = 8239 \/ c = 8287 \/ c = 12288).
Proof.
  unfold is_space. rewrite !orb_true_iff, !andb_true_iff, !N.leb_le, !N.eqb_eq. tauto.
Qed.

Lemma space_range c : is_space c = false <->
  ~ (9 <= c <= 13 \/ 28 <= c <= 32 \/ c = 133 \/ c = 160 \/ c = 5760 \/ 8192 <= c <= 8202 \/ c = 8232 \/ c = 8233
     \/ c = 8239 \/ c = 8287 \/ c = 12288).
Proof.
  rewrite <- space_true. destruct (is_space c); split; intros H; try reflexivity; try discriminate; try congruence.
Qed.
