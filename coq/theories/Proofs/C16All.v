(* Proofs/C16All.v — merge_all: what storing the merged outputs does to the tables *)
From GV Require Import Proofs.GenCritEquiv Base.Prelude Base.PyStr Model.Bins Model.DB Model.Parser Model.Query Model.Import Model.Order Model.Merge
  Gen.GenLib Gen.GenCriteria Proofs.C04Proofs Proofs.C16Proofs.
Open Scope Z_scope.

Definition stored_ids (outs : list mout) : list str :=
  flat_map (fun o => match o with OMerged id _ _ (_ :: _) => [id] | _ => [] end) outs.
Lemma ids_keep (g : row -> row) rows : (forall r, r_id (g r) = r_id r) -> map r_id (map g rows) = map r_id rows.
Proof. intros H. rewrite map_map. apply map_ext. exact H. Qed.

(* exclude_components=False: one new row per multi-member run, one level-1 relation (run, member) per member, nothing else *)
Theorem l_apply_all_keep : forall outs st st', apply_all false st outs = Ok st' ->
  map r_id (s_rows st') = map r_id (s_rows st) ++ stored_ids outs /\
  s_rels st' = s_rels st ++ member_rels outs /\ s_dups st' = s_dups st /\ s_auto st' = s_auto st.
Proof.
  induction outs as [|o outs IH]; intros st st' H; cbn [apply_all] in H.
  - inversion H; subst. cbn. rewrite !app_nil_r. repeat split; reflexivity.
  - destruct (apply_merged false st o) as [st1|e] eqn:E; [|discriminate]. destruct (IH st1 st' H) as [A [B [C D]]].
    destruct o as [i|id acc fr ch]; cbn [apply_merged] in E.
    + inversion E; subst st1. cbn [stored_ids member_rels flat_map app]. repeat split; assumption.
    + destruct ch as [|c0 ch'].
      * inversion E; subst st1. cbn [stored_ids member_rels flat_map app map]. repeat split; assumption.
      * destruct (find_id (mi_id c0) (s_rows st)) as [first|]; [|discriminate].
        destruct (has_id id (s_rows st)); [discriminate|]. destruct (existsb _ _); [discriminate|].
        inversion E; subst st1. cbn [s_rows s_rels s_dups s_auto] in *.
        rewrite ids_keep in A by (intros r; destruct (_ || _); reflexivity). rewrite map_app in A. cbn [map] in A.
        assert (S : stored_ids (OMerged id acc fr (c0 :: ch') :: outs) = id :: stored_ids outs) by reflexivity.
        assert (R : member_rels (OMerged id acc fr (c0 :: ch') :: outs) = map (fun k => mkRel id (mi_id k) 1) (c0 :: ch') ++ member_rels outs) by reflexivity.
        rewrite S, R. split; [|split; [|split; assumption]].
        -- rewrite A, <- app_assoc. reflexivity.
        -- rewrite B, <- app_assoc. cbn [map app]. rewrite map_map. reflexivity.
Qed.

Lemma mem_str_app x a b : mem_str x (a ++ b) = mem_str x a || mem_str x b.
Proof. induction a as [|y a IH]; cbn [app mem_str]; [reflexivity|]. rewrite IH, orb_assoc. reflexivity. Qed.

Lemma filter_filter {A} (p q : A -> bool) l : filter q (filter p l) = filter (fun x => p x && q x) l.
Proof. induction l as [|x l IH]; cbn [filter]; [reflexivity|]. destruct (p x); cbn [filter andb]; [destruct (q x)|]; rewrite IH; reflexivity. Qed.

Lemma ids_filter (p : str -> bool) rows : map r_id (filter (fun r => p (r_id r)) rows) = filter p (map r_id rows).
Proof. induction rows as [|r rows IH]; cbn [filter map]; [reflexivity|]. destruct (p (r_id r)); cbn [map]; rewrite IH; reflexivity. Qed.

Lemma apply_merged_exclude st id acc fr ch st1 : ch <> [] -> apply_merged true st (OMerged id acc fr ch) = Ok st1 ->
  exists first, st1 = mkSt (filter (fun r => negb (mem_str (r_id r) (map mi_id ch))) (s_rows st ++ [merged_row first id acc fr ch]))
                           (filter (fun x => negb (mem_str (rel_parent x) (map mi_id ch) || mem_str (rel_child x) (map mi_id ch))) (s_rels st))
                           (s_dups st) (s_auto st).
Proof.
  intros Hne H. destruct ch as [|c0 ch']; [contradiction Hne; reflexivity|]. unfold apply_merged in H.
  destruct (find_id (mi_id c0) (s_rows st)) as [first|]; [|discriminate]. destruct (has_id id (s_rows st)); [discriminate|].
  inversion H. exists first. reflexivity.
Qed.

(* exclude_components=True: the members' rows and every relation mentioning a member are deleted, one new row per run *)
Theorem l_apply_all_exclude : forall outs st st', apply_all true st outs = Ok st' ->
  s_rels st' = filter (fun x => negb (mem_str (rel_parent x) (member_ids outs) || mem_str (rel_child x) (member_ids outs))) (s_rels st) /\
  s_dups st' = s_dups st /\ s_auto st' = s_auto st /\
  ((forall id, In id (stored_ids outs) -> ~ In id (member_ids outs)) ->
   map r_id (s_rows st') = filter (fun i => negb (mem_str i (member_ids outs))) (map r_id (s_rows st)) ++ stored_ids outs).
Proof.
  induction outs as [|o outs IH]; intros st st' H; cbn [apply_all] in H.
  - inversion H; subst. cbn [member_ids stored_ids flat_map mem_str orb negb]. rewrite app_nil_r.
    repeat split; try reflexivity.
    + induction (s_rels st') as [|x l IHl]; cbn; [reflexivity|]. rewrite <- IHl. reflexivity.
    + intros _. induction (map r_id (s_rows st')) as [|x l IHl]; cbn; [reflexivity|]. rewrite <- IHl. reflexivity.
  - destruct (apply_merged true st o) as [st1|e] eqn:E; [|discriminate]. destruct (IH st1 st' H) as [B [C [D A]]].
    destruct o as [i|id acc fr ch].
    + cbn [apply_merged] in E. inversion E; subst st1. cbn [stored_ids member_ids flat_map app]. repeat split; assumption.
    + destruct ch as [|c0 ch'].
      * cbn [apply_merged] in E. inversion E; subst st1. cbn [stored_ids member_ids flat_map app map]. repeat split; assumption.
      * remember (c0 :: ch') as ch eqn:Ech. assert (Hne : ch <> []) by (subst ch; discriminate).
        destruct (apply_merged_exclude st id acc fr ch st1 Hne E) as [first ->]. clear E.
        set (kids := map mi_id ch) in *.
        assert (K : member_ids (OMerged id acc fr ch :: outs) = kids ++ member_ids outs) by reflexivity.
        assert (S : stored_ids (OMerged id acc fr ch :: outs) = id :: stored_ids outs) by (rewrite Ech; reflexivity).
        rewrite K, S. cbn [s_rows s_rels s_dups s_auto] in A, B, C, D.
        split; [|split; [exact C|split; [exact D|]]].
        -- rewrite B, filter_filter. apply filter_ext. intros x. rewrite !mem_str_app.
           destruct (mem_str (rel_parent x) kids), (mem_str (rel_child x) kids), (mem_str (rel_parent x) (member_ids outs)),
             (mem_str (rel_child x) (member_ids outs)); reflexivity.
        -- intros Hd.
           assert (Hid : mem_str id kids = false /\ mem_str id (member_ids outs) = false).
           { specialize (Hd id (or_introl eq_refl)). rewrite in_app_iff in Hd.
             split; apply not_true_is_false; intros M; apply mem_str_In in M; apply Hd; [left|right]; exact M. }
           destruct Hid as [Hk Ho].
           rewrite A by (intros x Hx Hin; apply (Hd x (or_intror Hx)); apply in_or_app; right; exact Hin).
           rewrite (ids_filter (fun i => negb (mem_str i kids))), map_app.
           change (map r_id [merged_row first id acc fr ch]) with [id].
           rewrite filter_app. cbn [filter]. rewrite Hk. cbn [negb]. rewrite filter_app. cbn [filter]. rewrite Ho. cbn [negb].
           rewrite filter_filter. rewrite <- app_assoc. cbn [app]. f_equal. apply filter_ext. intros x. rewrite mem_str_app.
           destruct (mem_str x kids), (mem_str x (member_ids outs)); reflexivity.
Qed.

(* a merged output always has at least two members ("one new feature per MULTI-member run") *)
Definition st_two (st : mstate) : Prop := match st with SRunN _ _ _ ch => (2 <= length ch)%nat | _ => True end.
Definition out_two (o : mout) : Prop := match o with OMerged _ _ _ ch => (2 <= length ch)%nat | OSingle _ => True end.

Lemma mstep_two cs st a f : st_two st -> let '((st', _), out) := mstep cs (st, a) f in st_two st' /\ Forall out_two out.
Proof.
  intros H. unfold mstep. destruct st as [|c|c|id acc fr ch]; cbn [st_two] in *.
  - destruct (accept cs (mi_v f) (mi_v f) 0); cbn; auto.
  - destruct (accept cs (mi_v c) (mi_v c) 0); [|cbn; auto].
    destruct (accept cs (mi_v c) (mi_v f) 1); [destruct (auto_incr _ a); cbn; split; [lia|constructor]|cbn; auto].
  - destruct (accept cs (mi_v c) (mi_v f) 1); [destruct (auto_incr _ a); cbn; split; [lia|constructor]|cbn; auto].
  - destruct (accept cs acc (mi_v f) (length ch)); cbn; [split; [rewrite app_length; cbn; lia|constructor]|].
    split; [exact I|constructor; [exact H|constructor]].
Qed.

Lemma mrun_two cs : forall fs st a, st_two st -> Forall out_two (fst (mrun cs fs (st, a))).
Proof.
  induction fs as [|f fs IH]; intros st a H.
  - cbn. destruct st; cbn; repeat (constructor; try exact H; try exact I).
  - cbn [mrun]. pose proof (mstep_two cs st a f H) as M.
    destruct (mstep cs (st, a) f) as [[st' a'] out]. destruct M as [M1 M2]. specialize (IH st' a' M1).
    destruct (mrun cs fs (st', a')) as [rest a'']. cbn [fst] in *. apply Forall_app. auto.
Qed.

Theorem l_merged_two cs fs a id acc fr ch : In (OMerged id acc fr ch) (fst (merge cs fs a)) -> (2 <= length ch)%nat.
Proof. intros H. pose proof (mrun_two cs fs SNone a I) as F. rewrite Forall_forall in F. exact (F _ H). Qed.

Lemma stored_is_merged cs fs a : stored_ids (fst (merge cs fs a)) = merged_ids (fst (merge cs fs a)).
Proof.
  pose proof (mrun_two cs fs SNone a I) as F. unfold merge. induction F as [|o l Ho F IH]; [reflexivity|].
  unfold stored_ids, merged_ids in *. cbn [flat_map]. rewrite IH. destruct o as [i|id acc fr [|c ch]]; try reflexivity. cbn in Ho. lia.
Qed.

(* ---------- merge_all ---------- *)
Theorem l_merge_all_keep order cs st mem st' mem' : merge_all_with order cs false st mem = Ok (st', mem') ->
  let outs := fst (merge cs (merge_inputs order st) mem) in
  mem' = snd (merge cs (merge_inputs order st) mem) /\
  map r_id (s_rows st') = map r_id (s_rows st) ++ merged_ids outs /\
  s_rels st' = s_rels st ++ member_rels outs /\ s_dups st' = s_dups st /\ s_auto st' = s_auto st.
Proof.
  unfold merge_all_with. fold (merge_inputs order st). destruct (negb _); [discriminate|].
  destruct (merge cs (merge_inputs order st) mem) as [outs m] eqn:M. destruct (apply_all false st outs) as [s1|e] eqn:A; [|discriminate].
  intros H. inversion H; subst. cbn [fst snd]. split; [reflexivity|].
  destruct (l_apply_all_keep outs st st' A) as [P [Q [R S]]]. rewrite P.
  pose proof (stored_is_merged cs (merge_inputs order st) mem) as E. rewrite M in E. cbn [fst] in E. rewrite E. repeat split; assumption.
Qed.

Theorem l_merge_all_exclude order cs st mem st' mem' : merge_all_with order cs true st mem = Ok (st', mem') ->
  let outs := fst (merge cs (merge_inputs order st) mem) in
  mem' = snd (merge cs (merge_inputs order st) mem) /\
  s_rels st' = filter (fun x => negb (mem_str (rel_parent x) (member_ids outs) || mem_str (rel_child x) (member_ids outs))) (s_rels st) /\
  s_dups st' = s_dups st /\ s_auto st' = s_auto st /\
  ((forall id, In id (merged_ids outs) -> ~ In id (member_ids outs)) ->
   map r_id (s_rows st') = filter (fun i => negb (mem_str i (member_ids outs))) (map r_id (s_rows st)) ++ merged_ids outs).
Proof.
  unfold merge_all_with. fold (merge_inputs order st). destruct (negb _); [discriminate|].
  destruct (merge cs (merge_inputs order st) mem) as [outs m] eqn:M. destruct (apply_all true st outs) as [s1|e] eqn:A; [|discriminate].
  intros H. inversion H; subst. cbn [fst snd]. split; [reflexivity|].
  destruct (l_apply_all_exclude outs st st' A) as [Q [R [S P]]].
  pose proof (stored_is_merged cs (merge_inputs order st) mem) as E. rewrite M in E. cbn [fst] in E. rewrite E in P.
  repeat split; assumption.
Qed.
