(* non-vacuity for C16 and the recorded refutation F19 *)
From GV Require Import Base.Prelude Base.PyStr Model.Bins Model.DB Model.Parser Model.Query Model.Import Model.Merge
  Gen.GenLib Gen.GenCriteria.
Open Scope Z_scope.
Definition iv (id : str) (strand : str) (s e : Z) : minput :=
  mkIn id {| m_seqid := U "chr1"%bs; m_strand := strand; m_ftype := U "exon"%bs; m_start := s; m_end := e |} (U "src"%bs) [46%N].
Definition P : str := [43%N].  Definition M : str := [45%N].

(* [1-4] [3-6] [7-7] [9-9]: adjacent 7 joins, 9 does not *)
Example C16_runs : map (fun o => (m_start (out_view o), m_end (out_view o), length (members o)))
  (fst (merge default_criteria [iv (U "a"%bs) P 1 4; iv (U "b"%bs) P 3 6; iv (U "c"%bs) P 7 7; iv (U "d"%bs) P 9 9] []))
  = [(1, 7, 3%nat); (9, 9, 1%nat)].
Proof. vm_compute. reflexivity. Qed.

(* F19: start-ordered but class-interleaved input — A and C (same class, overlapping) are not joined;
   children_bp(merge=True) is 20 while the per-class union has 14 positions *)
Definition f19 := [iv (U "A"%bs) P 1 10; iv (U "B"%bs) M 2 3; iv (U "C"%bs) P 5 12].
Example C16_interleaved_refuted :
  length (fst (merge default_criteria f19 [])) = 3%nat /\ children_bp true default_criteria f19 = 20 /\ union_size_by_class f19 = 14.
Proof. vm_compute. repeat split. Qed.
