(* non-vacuity for C16 and the recorded refutation F19 *)
From GV Require Import Base.Prelude Base.PyStr Model.Bins Model.DB Model.Parser Model.Query Model.Import Model.Merge
  Gen.GenLib Gen.GenCriteria Proofs.C16Proofs Proofs.C16Union Proofs.C16Classes.
Open Scope Z_scope.
Definition iv (id : str) (strand : str) (s e : Z) : minput :=
  mkIn id {| m_seqid := U "chr1"%bs; m_strand := strand; m_ftype := U "exon"%bs; m_start := s; m_end := e |} (U "src"%bs) [46%N].
Definition P : str := [43%N].  Definition M : str := [45%N].

(* [1-4] [3-6] [7-7] [9-9]: adjacent 7 joins, 9 does not *)
Example C16_runs : map (fun o => (m_start (out_view o), m_end (out_view o), length (members o)))
  (fst (merge default_criteria [iv (U "a"%bs) P 1 4; iv (U "b"%bs) P 3 6; iv (U "c"%bs) P 7 7; iv (U "d"%bs) P 9 9] []))
  = [(1, 7, 3%nat); (9, 9, 1%nat)].
Proof. vm_compute. reflexivity. Qed.

(* F19: start-ordered but class-interleaved input — A and C (same class, overlapping) are not joined;
   children_bp(merge=True) is 20 while the per-class union has 14 positions *)
Definition f19 := [iv (U "A"%bs) P 1 10; iv (U "B"%bs) M 2 3; iv (U "C"%bs) P 5 12].
Example C16_interleaved_refuted :
  length (fst (merge default_criteria f19 [])) = 3%nat /\ children_bp true default_criteria f19 = 20 /\ union_size_by_class f19 = 14.
Proof. vm_compute. repeat split. Qed.

(* the hypotheses of C16_children_bp_union are met by overlapping, adjacent, nested and separate children:
   [1-4] [3-6] [4-5] [7-7] [9-9] cover 1..7 and 9: 8 positions of the window [0, 20) *)
Definition bp_kids := [iv (U "a"%bs) P 1 4; iv (U "b"%bs) P 3 6; iv (U "n"%bs) P 4 5; iv (U "c"%bs) P 7 7; iv (U "d"%bs) P 9 9].
Example C16_children_bp_union_inhabited :
  (forall f, In f bp_kids -> okf (U "chr1"%bs) P (U "exon"%bs) f) /\
  sorted_from 1 bp_kids /\ (forall f, In f bp_kids -> 0 <= m_start (mi_v f) /\ m_end (mi_v f) < 20) /\
  children_bp true default_criteria bp_kids = 8 /\ zcount (in_kids bp_kids) 0 20 = 8 /\
  children_bp false default_criteria bp_kids = 12.
Proof.
  split; [|split; [|split]].
  - intros f Hf. repeat (destruct Hf as [Hf|Hf]; [subst f; split; [repeat split|cbn; lia]|]). destruct Hf.
  - cbn. lia.
  - intros f Hf. repeat (destruct Hf as [Hf|Hf]; [subst f; cbn; lia|]). destruct Hf.
  - vm_compute. repeat split.
Qed.

(* C16_default_runs_per_class: three classes in one input ((chr1,+), (chr1,-), (chr2,+)); the hypotheses hold and the
   outputs are the per-stretch runs: [1-6 (2 members)] [9-9] | [2-5] | [1-3 (2 members)] *)
Definition iv2 (seqid id strand : str) (s e : Z) : minput :=
  mkIn id {| m_seqid := seqid; m_strand := strand; m_ftype := U "exon"%bs; m_start := s; m_end := e |} (U "src"%bs) [46%N].
Definition mixed := [iv (U "a"%bs) P 1 4; iv (U "b"%bs) P 3 6; iv (U "c"%bs) P 9 9; iv (U "d"%bs) M 2 5;
                     iv2 (U "chr2"%bs) (U "e"%bs) P 1 2; iv2 (U "chr2"%bs) (U "f"%bs) P 3 3].
Example C16_runs_per_class_inhabited :
  (forall f, In f mixed -> wf f) /\ Forall start_sorted (group mixed) /\ class_start_chain mixed /\
  map (@length minput) (group mixed) = [3%nat; 1%nat; 2%nat] /\
  map (fun o => (m_start (out_view o), m_end (out_view o), length (members o))) (fst (merge default_criteria mixed []))
  = [(1, 6, 2%nat); (9, 9, 1%nat); (2, 5, 1%nat); (1, 3, 2%nat)].
Proof.
  split; [|split; [|split; [|split]]].
  - intros f Hf. repeat (destruct Hf as [Hf|Hf]; [subst f; split; [vm_compute; intuition discriminate|cbn; lia]|]). destruct Hf.
  - vm_compute. repeat constructor; intros H; discriminate H.
  - cbn [class_start_chain mixed]. repeat split; intros H; first [cbn; lia | vm_compute in H; discriminate H].
  - vm_compute. reflexivity.
  - vm_compute. reflexivity.
Qed.

(* merge_all on a stored table: exons a [1-4], b [3-6] and c [9-9] of one class: one new row (exon_1) for the run {a, b},
   related to both at level 1; with exclude_components a and b and the relations mentioning them go *)
From GV Require Import Model.Order Proofs.C16All.
Definition mrow (id : str) (s t : Z) : row :=
  set_bin (mkRow id (U "chr1"%bs) (U "src"%bs) (U "exon"%bs) (Some s) (Some t) [46%N] P [46%N] [(IDKEY, [id])] [] None).
Definition mst : ist := mkSt [mrow (U "a"%bs) 1 4; mrow (U "c"%bs) 9 9; mrow (U "b"%bs) 3 6] [mkRel (U "g"%bs) (U "a"%bs) 1; mkRel (U "g"%bs) (U "c"%bs) 1] [] [].
Example C16_merge_all_inhabited :
  match merge_all false mst [], merge_all true mst [] with
  | Ok (s1, m1), Ok (s2, m2) =>
      map r_id (s_rows s1) = [U "a"%bs; U "c"%bs; U "b"%bs; U "exon_1"%bs] /\
      s_rels s1 = s_rels mst ++ [mkRel (U "exon_1"%bs) (U "a"%bs) 1; mkRel (U "exon_1"%bs) (U "b"%bs) 1] /\
      map r_id (s_rows s2) = [U "c"%bs; U "exon_1"%bs] /\ s_rels s2 = [mkRel (U "g"%bs) (U "c"%bs) 1] /\
      m1 = [(U "exon"%bs, 1)] /\ m2 = m1
  | _, _ => False
  end.
Proof. vm_compute. repeat split. Qed.
