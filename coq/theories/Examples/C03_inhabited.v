(* non-vacuity for C03: two exons of one transcript give a derived transcript and gene spanning min..max *)
From GV Require Import Base.Prelude Base.PyStr Model.Bins Model.DB Model.Parser Model.Import Model.GtfSpec.
Open Scope Z_scope.
Definition ex (s e : Z) : row := mkRow [] (U "chr1"%bs) (U "s"%bs) (U "exon"%bs) (Some s) (Some e) [46%N] [43%N] [46%N]
  [(GENE_ID, [U "G"%bs]); (TRANSCRIPT_ID, [U "T"%bs])] [] None.
Definition gcfg := mkGtf TRANSCRIPT_ID GENE_ID (U "exon"%bs) false false.
Example C03_run : exists st, import_gtf (fun _ _ => None) gcfg SError [] (gtf_spec gcfg) [ex 50 60; ex 10 20] empty_st = Ok st /\
  map (fun r => (r_id r, r_start r, r_end r)) (s_rows st) =
  [(U "exon_1"%bs, Some 50, Some 60); (U "exon_2"%bs, Some 10, Some 20); (U "T"%bs, Some 10, Some 60); (U "G"%bs, Some 10, Some 60)].
Proof. eexists. split; [vm_compute; reflexivity|]. vm_compute. reflexivity. Qed.
