(* non-vacuity for C03: two exons of one transcript give a derived transcript and gene spanning min..max *)
From GV Require Import Base.Prelude Base.PyStr Model.Bins Model.DB Model.Parser Model.Import Model.GtfSpec Proofs.C03Proofs Proofs.C03End Proofs.C03Ids Proofs.C03Pop.
Open Scope Z_scope.
Definition ex (s e : Z) : row := mkRow [] (U "chr1"%bs) (U "s"%bs) (U "exon"%bs) (Some s) (Some e) [46%N] [43%N] [46%N]
  [(GENE_ID, [U "G"%bs]); (TRANSCRIPT_ID, [U "T"%bs])] [] None.
Definition gcfg := mkGtf TRANSCRIPT_ID GENE_ID (U "exon"%bs) false false.
Example C03_run : exists st, import_gtf (fun _ _ => None) gcfg SError [] (gtf_spec gcfg) [ex 50 60; ex 10 20] empty_st = Ok st /\
  map (fun r => (r_id r, r_start r, r_end r)) (s_rows st) =
  [(U "exon_1"%bs, Some 50, Some 60); (U "exon_2"%bs, Some 10, Some 20); (U "T"%bs, Some 10, Some 60); (U "G"%bs, Some 10, Some 60)].
Proof. eexists. split; [vm_compute; reflexivity|]. vm_compute. reflexivity. Qed.

(* the hypotheses of C03_inference_appends / C03_transcript_inferred / C03_gene_inferred hold in the state reached by
   importing two genes, three transcripts, interleaved lines *)
Definition exl (g t : str) (s e : Z) : row := mkRow [] (U "chr1"%bs) (U "s"%bs) (U "exon"%bs) (Some s) (Some e) [46%N] [43%N] [46%N]
  [(GENE_ID, [g]); (TRANSCRIPT_ID, [t])] [] None.
Definition lines := [exl (U "G1"%bs) (U "T1"%bs) 50 60; exl (U "G2"%bs) (U "T3"%bs) 500 600; exl (U "G1"%bs) (U "T2"%bs) 5 70;
                     exl (U "G1"%bs) (U "T1"%bs) 10 20].
Definition populated : ist :=
  match run_steps (step_gtf (fun _ _ => None) gcfg SError [] (gtf_spec gcfg)) lines empty_st with Ok st => st | Err _ => empty_st end.
Example C03_end_to_end_inhabited : exists ds,
  derive gcfg populated (tg_pairs gcfg populated) None = Ok ds /\
  (forall d, In d ds -> derived_clean d = true) /\ NoDup (map (did gcfg) ds) /\
  (forall d, In d ds -> has_id (did gcfg d) (s_rows populated) = false) /\ NoDup (map r_id (s_rows populated)) /\
  length (tg_pairs gcfg populated) = 3%nat /\ length ds = 5%nat.
Proof.
  eexists. split; [vm_compute; reflexivity|].
  split; [intros d Hd; repeat (destruct Hd as [Hd|Hd]; [subst d; vm_compute; reflexivity|]); destruct Hd|].
  split; [vm_compute; repeat constructor; cbn; intuition discriminate|].
  split; [intros d Hd; repeat (destruct Hd as [Hd|Hd]; [subst d; vm_compute; reflexivity|]); destruct Hd|].
  split; [vm_compute; repeat constructor; cbn; intuition discriminate|]. split; vm_compute; reflexivity.
Qed.

Example C03_ids_distinct_inhabited :
  NoDup (map fst (tg_pairs gcfg populated)) /\
  (forall t gn, In t (map fst (tg_pairs gcfg populated)) -> In gn (map snd (tg_pairs gcfg populated)) -> t <> gn).
Proof.
  split; [vm_compute; repeat constructor; cbn; intuition discriminate|].
  intros t gn Ht Hg. vm_compute in Ht, Hg.
  repeat (destruct Ht as [Ht|Ht]; [subst t; repeat (destruct Hg as [Hg|Hg]; [subst gn; discriminate|]); destruct Hg|]). destruct Ht.
Qed.

(* the domain of C03_import_end_to_end is inhabited by the interleaved two-gene file above, and the import succeeds *)
Example C03_whole_import_inhabited :
  (forall f, In f lines -> ordinary f) /\
  (forall f, In f lines -> exists t gn, first_val (g_tkey gcfg) f = Some t /\ first_val (g_gkey gcfg) f = Some gn /\ t <> gn) /\
  (forall p f, In p (assign lines []) -> In f lines ->
     first_val (g_tkey gcfg) f <> Some (snd p) /\ first_val (g_gkey gcfg) f <> Some (snd p)) /\
  (forall f f' v, In f lines -> In f' lines -> first_val (g_tkey gcfg) f = Some v -> first_val (g_gkey gcfg) f' <> Some v) /\
  (forall f f', In f lines -> In f' lines -> first_val (g_tkey gcfg) f = first_val (g_tkey gcfg) f' ->
     first_val (g_gkey gcfg) f = first_val (g_gkey gcfg) f') /\
  (exists st', import_gtf (fun _ _ => None) gcfg SError [] (gtf_spec gcfg) lines empty_st = Ok st') /\
  expected_extent gcfg TRANSCRIPT_ID (U "T1"%bs) lines = Some (10, 60, [43%N], U "chr1"%bs) /\
  expected_extent gcfg GENE_ID (U "G1"%bs) lines = Some (5, 70, [43%N], U "chr1"%bs).
Proof.
  split; [|split; [|split; [|split; [|split; [|split; [|split]]]]]].
  - intros f Hf. repeat (destruct Hf as [Hf|Hf]; [subst f; split; reflexivity|]). destruct Hf.
  - intros f Hf. repeat (destruct Hf as [Hf|Hf]; [subst f; eexists; eexists; split; [reflexivity|split; [reflexivity|discriminate]]|]). destruct Hf.
  - intros p f Hp Hf. vm_compute in Hp.
    repeat (destruct Hp as [Hp|Hp]; [subst p; repeat (destruct Hf as [Hf|Hf]; [subst f; split; vm_compute; discriminate|]); destruct Hf|]). destruct Hp.
  - intros f f' v Hf Hf'.
    repeat (destruct Hf as [Hf|Hf]; [subst f; repeat (destruct Hf' as [Hf'|Hf']; [subst f'; vm_compute; intros E; inversion E; subst v; discriminate|]); destruct Hf'|]). destruct Hf.
  - intros f f' Hf Hf'.
    repeat (destruct Hf as [Hf|Hf]; [subst f; repeat (destruct Hf' as [Hf'|Hf']; [subst f'; vm_compute; intros E; first [reflexivity|discriminate E]|]); destruct Hf'|]). destruct Hf.
  - eexists. vm_compute. reflexivity.
  - vm_compute. reflexivity.
  - vm_compute. reflexivity.
Qed.

(* F21 (known finding), as a refutation of the unrestricted statement "every gene id owning a subfeature line gets a derived
   gene": exon 50-60 carries gene_id "G2" only; the import succeeds, G2 owns an exon (expected_extent is Some), and no row
   is stored under "G2" *)
Definition f21_lines := [exl (U "G1"%bs) (U "T1"%bs) 100 200;
  mkRow [] (U "chr1"%bs) (U "s"%bs) (U "exon"%bs) (Some 50) (Some 60) [46%N] [43%N] [46%N] [(GENE_ID, [U "G2"%bs])] [] None].
Example C03_gene_only_refuted : exists st',
  import_gtf (fun _ _ => None) gcfg SError [] (gtf_spec gcfg) f21_lines empty_st = Ok st' /\
  expected_extent gcfg GENE_ID (U "G2"%bs) f21_lines = Some (50, 60, [43%N], U "chr1"%bs) /\
  find_id (U "G2"%bs) (s_rows st') = None /\
  (exists r, find_id (U "G1"%bs) (s_rows st') = Some r /\ r_start r = Some 100 /\ r_end r = Some 200).
Proof. eexists. split; [vm_compute; reflexivity|]. split; [vm_compute; reflexivity|]. split; [vm_compute; reflexivity|]. eexists. vm_compute. repeat split. Qed.
