(* non-vacuity of the C12 hypotheses and the out-of-range-query remark *)
From GV Require Import Base.Prelude Model.Bins Proofs.BinsProofs Proofs.C12Proofs.
Open Scope Z_scope.
Example in_range_inhabited : in_range Gff 131072 131073 = true /\ in_range Bed 0 536870911 = true
  /\ in_range Gff 0 5 = false /\ in_range Gff 1 536870912 = false.
Proof. vm_compute. repeat split. Qed.
Example one_values : gbins Gff 1 131071 true = RInt 4681 /\ gbins Gff 1 131072 true = RInt 585
  /\ gbins Gff 131072 131072 true = RInt 585 /\ gbins Gff 131073 131073 true = RInt 4682.
Proof. vm_compute. repeat split. Qed.
Example overlap_inhabited : in_range Gff 100 200000 = true /\ 131072 <= 200000 /\ 100 <= 131080.
Proof. vm_compute. repeat split; discriminate. Qed.
