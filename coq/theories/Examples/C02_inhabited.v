(* non-vacuity for C02: a diamond with a dangling parent and a multi-parent node is in the domain *)
From GV Require Import Base.Prelude Base.PyStr Model.Bins Model.DB Model.Parser Model.Query Model.Import Model.Hier.
Open Scope Z_scope.
Definition nd (id : str) (ps : list str) : row :=
  mkRow [] (U "chr1"%bs) (U "s"%bs) (U "exon"%bs) (Some 1) (Some 9) [46%N] [43%N] [46%N]
        ((IDK, [id]) :: match ps with [] => [] | _ => [(PARENT, ps)] end) [] None.
Definition exG : list row :=
  [nd (U "c"%bs) [U "a"%bs; U "b"%bs]; nd (U "a"%bs) [U "g"%bs]; nd (U "b"%bs) [U "g"%bs; U "ghost"%bs]; nd (U "g"%bs) []].
Example C02_domain_inhabited : in_domain exG = true /\
  exists st, import_gff (fun _ _ => None) SError [] (SList [KAttr IDK]) exG empty_st = Ok st /\
             existsb (fun x => rel_eqb x (mkRel (U "g"%bs) (U "c"%bs) 2)) (s_rels st) = true.
Proof. split; [vm_compute; reflexivity|]. eexists. split; [vm_compute; reflexivity|vm_compute; reflexivity]. Qed.
