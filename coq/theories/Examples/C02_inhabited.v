(* non-vacuity for C02: a diamond with a dangling parent and a multi-parent node is in the domain *)
From GV Require Import Base.Prelude Base.PyStr Model.Bins Model.DB Model.Parser Model.Query Model.Import Model.Hier Proofs.C02Proofs Proofs.C02Hist.
Open Scope Z_scope.
Definition nd (id : str) (ps : list str) : row :=
  mkRow [] (U "chr1"%bs) (U "s"%bs) (U "exon"%bs) (Some 1) (Some 9) [46%N] [43%N] [46%N]
        ((IDK, [id]) :: match ps with [] => [] | _ => [(PARENT, ps)] end) [] None.
Definition exG : list row :=
  [nd (U "c"%bs) [U "a"%bs; U "b"%bs]; nd (U "a"%bs) [U "g"%bs]; nd (U "b"%bs) [U "g"%bs; U "ghost"%bs]; nd (U "g"%bs) []].
Example C02_domain_inhabited : in_domain exG = true /\
  exists st, import_gff (fun _ _ => None) SError [] (SList [KAttr IDK]) exG empty_st = Ok st /\
             existsb (fun x => rel_eqb x (mkRel (U "g"%bs) (U "c"%bs) 2)) (s_rels st) = true.
Proof. split; [vm_compute; reflexivity|]. eexists. split; [vm_compute; reflexivity|vm_compute; reflexivity]. Qed.

(* a history for C02_history_closed: a chain a > b > c > d of depth 3 imported by create_db, then two updates (one adds a
   leaf under d and, later than its grandchildren, a new root above a).  The great-grandchild d of a is NOT a level-2
   child of a (the F22 witness), the late root r gets its grandchild b *)
Definition hist : list (strategy * list row) :=
  [(SError, [nd (U "a"%bs) [U "r"%bs]; nd (U "b"%bs) [U "a"%bs]; nd (U "c"%bs) [U "b"%bs]; nd (U "d"%bs) [U "c"%bs]]);
   (SCreateUnique, [nd (U "e"%bs) [U "d"%bs]]);
   (SMerge, [nd (U "r"%bs) []; nd (U "e"%bs) [U "d"%bs]]);
   (SReplace, [nd (U "d"%bs) [U "a"%bs]])].          (* d re-parented from c to a: b stops being its grandparent, r becomes one *)
Example C02_history_inhabited : exists st', imports (fun _ _ => None) [] (SList [KAttr IDK]) hist empty_st = Ok st' /\
  existsb (rel_eqb (mkRel (U "a"%bs) (U "d"%bs) 2)) (s_rels st') = false /\
  existsb (rel_eqb (mkRel (U "b"%bs) (U "d"%bs) 2)) (s_rels st') = false /\
  existsb (rel_eqb (mkRel (U "r"%bs) (U "d"%bs) 2)) (s_rels st') = true /\
  existsb (rel_eqb (mkRel (U "a"%bs) (U "e"%bs) 2)) (s_rels st') = true /\
  existsb (rel_eqb (mkRel (U "r"%bs) (U "b"%bs) 2)) (s_rels st') = true /\
  existsb (rel_eqb (mkRel (U "c"%bs) (U "e"%bs) 2)) (s_rels st') = false.
Proof.
  eexists. split; [vm_compute; reflexivity|]. vm_compute. repeat split.
Qed.
