(* non-vacuity for C15: three exons, one real gap, one adjacency *)
From GV Require Import Base.Prelude Base.PyStr Model.Bins Model.DB Model.Parser Model.Query Model.Import Model.Attrs Model.Inter.
Open Scope Z_scope.
Definition e (id : str) (s t : Z) : row := mkRow id (U "chr1"%bs) (U "s"%bs) (U "exon"%bs) (Some s) (Some t) [46%N] [43%N] [46%N]
  [(IDk, [id]); (U "exon_number"%bs, [id])] [] None.
Example C15_run : match interfeatures (mkICfg (Some (U "intron"%bs)) true false []) [e (U "1"%bs) 1 10; e (U "2"%bs) 20 30; e (U "3"%bs) 31 40] with
  | Ok [i] => r_start i = Some 11 /\ r_end i = Some 19 /\ dget IDk (r_attrs i) = Some [U "1-2"%bs]
  | _ => False end.
Proof. vm_compute. repeat split. Qed.

(* create_introns over a database state: gene g with transcripts t1 (exons 1-10, 20-30, 50-60; stored out of start order)
   and t2 (one exon): two introns for t1, none for t2, and the hypotheses of C15_introns_count hold for t1's exons *)
From GV Require Import Model.Order Model.Introns.
Definition frow (id ft : str) (s t : Z) (attrs : list (str * list str)) : row :=
  set_bin (mkRow id (U "chr1"%bs) (U "s"%bs) ft (Some s) (Some t) [46%N] [43%N] [46%N] attrs [] None).
Definition PAR : str := U "Parent"%bs.
Definition st0 : ist :=
  mkSt [frow (U "g"%bs) (U "gene"%bs) 1 100 [(IDk, [U "g"%bs])];
        frow (U "t1"%bs) (U "mRNA"%bs) 1 60 [(IDk, [U "t1"%bs]); (PAR, [U "g"%bs])];
        frow (U "t2"%bs) (U "mRNA"%bs) 70 80 [(IDk, [U "t2"%bs]); (PAR, [U "g"%bs])];
        frow (U "c"%bs) (U "exon"%bs) 50 60 [(IDk, [U "c"%bs]); (PAR, [U "t1"%bs])];
        frow (U "a"%bs) (U "exon"%bs) 1 10 [(IDk, [U "a"%bs]); (PAR, [U "t1"%bs])];
        frow (U "b"%bs) (U "exon"%bs) 20 30 [(IDk, [U "b"%bs]); (PAR, [U "t1"%bs])];
        frow (U "d"%bs) (U "exon"%bs) 70 80 [(IDk, [U "d"%bs]); (PAR, [U "t2"%bs])]]
       [mkRel (U "g"%bs) (U "t1"%bs) 1; mkRel (U "g"%bs) (U "t2"%bs) 1; mkRel (U "t1"%bs) (U "c"%bs) 1; mkRel (U "t1"%bs) (U "a"%bs) 1;
        mkRel (U "t1"%bs) (U "b"%bs) 1; mkRel (U "t2"%bs) (U "d"%bs) 1; mkRel (U "g"%bs) (U "a"%bs) 2; mkRel (U "g"%bs) (U "b"%bs) 2;
        mkRel (U "g"%bs) (U "c"%bs) 2; mkRel (U "g"%bs) (U "d"%bs) 2] [] [].
Example C15_create_introns_inhabited :
  map r_id (transcripts st0 (ViaGrandparent (U "gene"%bs))) = [U "t1"%bs; U "t2"%bs] /\
  map (fun t => map r_id (exons_of st0 (U "exon"%bs) t)) (transcripts st0 (ViaGrandparent (U "gene"%bs))) = [[U "a"%bs; U "b"%bs; U "c"%bs]; [U "d"%bs]] /\
  match create_introns st0 (ViaGrandparent (U "gene"%bs)) (U "exon"%bs) (mkICfg (Some (U "intron"%bs)) true false []) with
  | Ok [i; j] => r_start i = Some 11 /\ r_end i = Some 19 /\ r_start j = Some 31 /\ r_end j = Some 49
  | _ => False end /\
  match create_splice_sites st0 (ViaParent (U "mRNA"%bs)) (U "exon"%bs) true false with
  | Ok l => map (fun r => (r_start r, r_end r)) l = [(Some 11, Some 12); (Some 31, Some 32); (Some 18, Some 19); (Some 48, Some 49)]
  | _ => False end.
Proof. vm_compute. repeat split. Qed.
Example C15_separated_inhabited : forall t, In t (transcripts st0 (ViaParent (U "mRNA"%bs))) -> separated (exons_of st0 (U "exon"%bs) t).
Proof.
  intros t [<-|[<-|[]]]; vm_compute; repeat split; eauto 8.
Qed.
