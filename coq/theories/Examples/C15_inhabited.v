(* non-vacuity for C15: three exons, one real gap, one adjacency *)
From GV Require Import Base.Prelude Base.PyStr Model.Bins Model.DB Model.Parser Model.Query Model.Import Model.Attrs Model.Inter.
Open Scope Z_scope.
Definition e (id : str) (s t : Z) : row := mkRow id (U "chr1"%bs) (U "s"%bs) (U "exon"%bs) (Some s) (Some t) [46%N] [43%N] [46%N]
  [(IDk, [id]); (U "exon_number"%bs, [id])] [] None.
Example C15_run : match interfeatures (mkICfg (Some (U "intron"%bs)) true false []) [e (U "1"%bs) 1 10; e (U "2"%bs) 20 30; e (U "3"%bs) 31 40] with
  | Ok [i] => r_start i = Some 11 /\ r_end i = Some 19 /\ dget IDk (r_attrs i) = Some [U "1-2"%bs]
  | _ => False end.
Proof. vm_compute. repeat split. Qed.
