(* Examples/C01_inhabited.v — the hypotheses of the C01 theorems hold on a three-line file in each
   of the 36 styles, with a window shorter than the file (checklines = 1), and the conclusions can
   be watched by computation. *)
From GV Require Import Base.Prelude Base.PyStr Base.Utf8 Base.WordTable Model.DB Model.Parser Model.Grammar Model.Dialect
  Model.File Proofs.C01Proofs Examples.C07_inhabited.
Open Scope N_scope.

Definition ex_file (st : style) : list feature :=
  let f := ex_feature st in
  [f; f;
   mkFeature [99;104;114;50] [46] [101;120;111;110] None (Some 77%Z) [46] [45] [48]
             (firstn 2 (ex_attrs (st_kv st))) [] (canon_dialect st (firstn 2 (ex_attrs (st_kv st)))) true false].

Definition ex_cfg : icfg := mkCfg 1 None true false.

Example C01_hypotheses_inhabited :
  forallb (fun st => forallb (fun f => wf_feature st f && fits st (f_attrs f) (chosen st ex_cfg (ex_file st))) (ex_file st)) all_styles = true.
Proof. vm_compute. reflexivity. Qed.

Example C01_conclusion_computed :
  forallb (fun st => match import_model isword ex_cfg (map (render_line st) (ex_file st)) with
                     | Ok (D, stored) => lstr_eqb (printed to_quote stored) (map (render_line st) (ex_file st))
                     | Err _ => false end) all_styles = true.
Proof. vm_compute. reflexivity. Qed.
