(* Examples/C17_inhabited.v — the hypotheses of the JSON round-trip theorems are met by non-trivial mappings:
   controls, quotes, backslashes, non-BMP characters, a lone surrogate code point; and by the default dialect. *)
From GV Require Import Base.Prelude Base.PyStr Model.Parser Model.Json Proofs.JsonProofs.
Open Scope N_scope.

Definition sample : list (list N * list (list N)) :=
  [([107; 233], [[97; 34; 92; 10; 0; 127; 8232; 128512; 1114111]; []; [55357; 65; 56832]]); ([73; 68], [])].

Example sample_ok : attrs_ok sample /\ NoDup (map fst sample).
Proof.
  split.
  - unfold sample, attrs_ok.
    repeat (apply Forall_cons || apply Forall_nil || split); cbn [fst snd];
      try (split; [repeat (apply Forall_cons || apply Forall_nil); unfold cp; lia | reflexivity]).
  - cbn. repeat constructor; cbn; intuition discriminate.
Qed.

Example sample_roundtrip : loads_attrs (dumps_attrs sample) = Some sample.
Proof. apply l_attrs_roundtrip; apply sample_ok. Qed.

Example default_dialect_ok : dialect_ok default_dialect.
Proof. unfold dialect_ok, default_dialect; cbn. repeat split; try (apply ascii_ok; reflexivity). repeat (apply Forall_cons; [apply ascii_ok; reflexivity|]). apply Forall_nil. Qed.

(* numeric_sort: exon_number 10, 9, 2.5, -1 and 9 again - all decimals; the result is -1, 2.5, 9, 10 *)
From GV Require Import Model.Bins Model.DB Model.Import Model.Attrs.
Example C17_numeric_inhabited :
  let vs : list str := [[49;48]; [57]; [50;46;53]; [45;49]; [57]]%N in
  (exists l, all_dec (as_set vs) = Some l) /\ sort_values true vs = Ok [[45;49]; [50;46;53]; [57]; [49;48]]%N /\
  sort_values false vs = Ok [[45;49]; [49;48]; [50;46;53]; [57]]%N.
Proof. vm_compute. split; [eexists; reflexivity|split; reflexivity]. Qed.
