(* Examples/C17_inhabited.v — the hypotheses of the JSON round-trip theorems are met by non-trivial mappings:
   controls, quotes, backslashes, non-BMP characters, a lone surrogate code point; and by the default dialect. *)
From GV Require Import Base.Prelude Base.PyStr Model.Parser Model.Json Proofs.JsonProofs.
Open Scope N_scope.

Definition sample : list (list N * list (list N)) :=
  [([107; 233], [[97; 34; 92; 10; 0; 127; 8232; 128512; 1114111]; []; [55357; 65; 56832]]); ([73; 68], [])].

Example sample_ok : attrs_ok sample /\ NoDup (map fst sample).
Proof.
  split.
  - unfold sample, attrs_ok.
    repeat (apply Forall_cons || apply Forall_nil || split); cbn [fst snd];
      try (split; [repeat (apply Forall_cons || apply Forall_nil); unfold cp; lia | reflexivity]).
  - cbn. repeat constructor; cbn; intuition discriminate.
Qed.

Example sample_roundtrip : loads_attrs (dumps_attrs sample) = Some sample.
Proof. apply l_attrs_roundtrip; apply sample_ok. Qed.

Example default_dialect_ok : dialect_ok default_dialect.
Proof. unfold dialect_ok, default_dialect; cbn. repeat split; try (apply ascii_ok; reflexivity). repeat (apply Forall_cons; [apply ascii_ok; reflexivity|]). apply Forall_nil. Qed.
