(* non-vacuity for C11: a two-key order with a tie on the first key, reverse binding to the last key only *)
From GV Require Import Base.Prelude Base.PyStr Model.Bins Model.DB Model.Parser Model.Query Model.Order.
Open Scope Z_scope.
Definition r (id seq : str) (s e : Z) (n : Z) : orow :=
  mkORow (mkRow id seq (U "s"%bs) (U "exon"%bs) (Some s) (Some e) [46%N] [43%N] [46%N] [] [] None) [] [] n.
Definition exL := [r (U "a"%bs) (U "chr2"%bs) 5 9 1; r (U "b"%bs) (U "chr1"%bs) 5 6 2; r (U "c"%bs) (U "chr1"%bs) 7 8 3].
Example C11_two_keys : map (fun x => r_id (o_row x)) (ordered_query FNone None [KSeqid; KStart] true exL)
                       = [U "c"%bs; U "b"%bs; U "a"%bs].
Proof. vm_compute. reflexivity. Qed.
