(* Examples/C20_inhabited.v — the oracle hypothesis of the C20 theorems is satisfiable (a concrete
   fresh-name function), and a three-process interleaving computed in the model. *)
From GV Require Import Base.Prelude Model.Conc Proofs.C20Proofs.
From Coq Require Import Arith Lia.
Open Scope Z_scope.

Definition fresh_max (l : list nat) : nat := S (list_max l).

Lemma fresh_max_spec : forall l, ~ In (fresh_max l) l.
Proof.
  intros l H. unfold fresh_max in H.
  assert (forall x, In x l -> (x <= list_max l)%nat).
  { intros x Hx. pose proof (list_max_le l (list_max l)) as [A _]. specialize (A (le_n _)).
    rewrite Forall_forall in A. apply A. exact Hx. }
  specialize (H0 _ H). lia.
Qed.

Definition progs (i : nat) : list act :=
  match i with
  | 0%nat => import_prog [1; 2; 3]
  | 1%nat => import_prog [10; 20]
  | 2%nat => from_string_prog [7] [30]
  | _ => []
  end.

(* an interleaving in which all three overlap *)
Definition sched : list nat := [0;1;2;0;1;2;2;0;1;0;1;2;0;2;1;0;2;2;1;0;1;2;0;2]%nat.

Example C20_interleaving_computed :
  let w := run fresh_max (initial progs) sched in
  p_got (w_procs w 0%nat) = [[1; 2; 3]] /\ p_got (w_procs w 1%nat) = [[10; 20]] /\ p_got (w_procs w 2%nat) = [[30]]
  /\ w_dir w = [].                 (* nothing is left behind *)
Proof. vm_compute. repeat split. Qed.
