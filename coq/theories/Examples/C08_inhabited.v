(* non-vacuity of C08's hypotheses, and the recorded refutation for non-standard GTF dialects (F16) *)
From GV Require Import Base.Prelude Base.PyStr Base.Utf8 Model.DB Model.Parser Model.Grammar.
Open Scope N_scope.

Definition exD : dialect := mkDialect false true true [SP; SEMI; SP] [SP] [COMMA] GFF3 true [].
Definition exM : attrs := [ (U "ID"%bs, [U "a;b=c,d%~000009e"%bs; U "~00000A x"%bs]); (U "Note.x-1"%bs, [U "~0000E9~002028"%bs]) ].
Example C08_hyps_inhabited : gff3_style exD = true /\ mapping_ok exM = true
  /\ split_with exD (reconstruct to_quote exM exD false false) = Ok exM.
Proof. vm_compute. repeat split; reflexivity. Qed.

(* F16: fmt=gtf with unquoted values strips whitespace at the ends of a value *)
Definition f16D : dialect := mkDialect false false false [SEMI] [SP] [COMMA] GTF false [].
Example C08_gtf_unquoted_refuted :
  exists m, mapping_ok m = true /\ known_F16 f16D = true /\ split_with f16D (reconstruct to_quote m f16D false false) <> Ok m.
Proof. exists [(U "k"%bs, [U "a "%bs])]. vm_compute. repeat split; try reflexivity. discriminate. Qed.

(* C08_line_roundtrip: a feature with negative and huge coordinates, an empty column, two extra columns (one empty) *)
Definition exF : feature := mkFeature (U "chr 1"%bs) [] (U "gene"%bs) (Some (-5)%Z) (Some 123456789012345678901234567890%Z)
  [DOT] [43] [DOT] exM [U "x y"%bs; []] exD false false.
Example C08_line_roundtrip_inhabited :
  feature_from_line (fun _ => false) (feature_str to_quote exF) (Some exD) false = Ok exF.
Proof. vm_compute. reflexivity. Qed.
