(* non-vacuity for C04: a run that uses an attribute key, a fall-through and a callable *)
From GV Require Import Base.Prelude Base.PyStr Model.Bins Model.DB Model.Parser Model.Import.
Open Scope Z_scope.
Definition ft (t : str) (a : attrs) : row := mkRow [] (U "chr1"%bs) (U "s"%bs) t (Some 1) (Some 9) [46%N] [43%N] [46%N] a [] None.
Definition exF : list row := [ft (U "gene"%bs) [(U "ID"%bs, [U "g"%bs])]; ft (U "exon"%bs) []; ft (U "exon"%bs) []].
Example C04_run : exists st, import_gff (fun _ _ => None) SError [] (SList [KAttr (U "ID"%bs)]) exF empty_st = Ok st /\
  map r_id (s_rows st) = [U "g"%bs; U "exon_1"%bs; U "exon_2"%bs].
Proof. eexists. split; vm_compute; reflexivity. Qed.
