(* Examples/C07_inhabited.v — the hypotheses of the C07 theorems are inhabited in every one of the
   36 styles (3 key/value styles x 3 field separators x trailing semicolon x repeated keys), with
   multi-valued attributes, flags, reserved characters and extra columns. *)
From GV Require Import Base.Prelude Base.PyStr Base.Utf8 Base.WordTable Model.DB Model.Parser Model.Grammar Proofs.C07Nonstrict.
Open Scope N_scope.

Definition all_styles : list style :=
  flat_map (fun kv => flat_map (fun fs => flat_map (fun tr => map (fun rp => mkStyle kv fs tr rp) [false; true]) [false; true])
                                [[SEMI]; [SEMI; SP]; [SP; SEMI; SP]]) [KvEq; KvSpaceQuoted; KvSpaceBare].

(* ID=a%3Bb... : values with reserved characters only in the key=value style *)
Definition ex_attrs (kv : kvstyle) : attrs :=
  [ ([73;68], [match kv with KvEq => [97;59;61;9;98] | KvSpaceQuoted => [97;61;98;32;99] | KvSpaceBare => [97;98] end]);
    ([78;111;116;101], [[120]; [121;122]; [233]]);
    ([102;108;97;103], match kv with KvSpaceQuoted => [] | _ => [] end) ].

Definition ex_feature (st : style) : feature :=
  mkFeature [99;104;114;49] [46] [103;101;110;101] (Some 5%Z) None [46] [43] [46] (ex_attrs (st_kv st)) [[120]; []]
            (canon_dialect st (ex_attrs (st_kv st))) true false.

Example C07_all_styles_inhabited : length all_styles = 36%nat /\ forallb (fun st => wf_feature st (ex_feature st)) all_styles = true.
Proof. split; vm_compute; reflexivity. Qed.

(* and the theorems' conclusions can be watched on them: parse (render) = the feature *)
Example C07_roundtrip_computed :
  forallb (fun st => match feature_from_line isword (render_line st (ex_feature st)) None true with
                     | Ok g => str_eqb (feature_str to_quote g) (render_line st (ex_feature st))
                     | Err _ => false end) all_styles = true.
Proof. vm_compute. reflexivity. Qed.

(* ---- strict=False ---- *)
Definition solid_b (w : list N) : bool := match w with [] => false | _ => forallb (fun c => negb (is_space c)) w end.
Definition blank_b (w : list N) : bool := forallb is_space w.

Lemma solid_b_spec w : solid_b w = true -> solid w.
Proof.
  unfold solid_b, solid. destruct w as [|c w]; [discriminate|]. intros H. split; [discriminate|].
  rewrite forallb_forall in H. intros x Hx. apply negb_true_iff. apply H. exact Hx.
Qed.
Lemma blank_b_spec w : blank_b w = true -> blank w.
Proof. unfold blank_b, blank. rewrite forallb_forall. auto. Qed.

Definition ns_feature (st : style) : feature :=
  mkFeature [99;104;114;49] [46] [103;101;110;101] (Some 5%Z) None [46] [43] [46] (ex_attrs (st_kv st)) []
            (canon_dialect st (ex_attrs (st_kv st))) true false.

(* hypotheses of C07_nonstrict, as booleans, hold in all 36 styles (the key=value example value holds a
   TAB, which is percent-encoded; no raw line-break character) *)
Example C07_nonstrict_inhabited :
  forallb (fun st => let f := ns_feature st in
     wf_feature st f && forallb solid_b [f_seqid f; f_source f; f_ftype f; f_score f; f_strand f; f_frame f]
     && blank_b [32;32] && blank_b [10;32;13;10] && blank_b [32;8232;12]
     && forallb (fun c => negb (is_lb c)) (render_attrs st (f_attrs f))
     && match feature_from_line_nonstrict isword (spaced [32;32] [10;32;13;10] [32;8232;12] st f) None true,
              feature_from_line isword (render_line st f) None true with
        | Ok a, Ok b => str_eqb (feature_str to_quote a) (feature_str to_quote b) | _, _ => false end) all_styles = true.
Proof. vm_compute. reflexivity. Qed.
