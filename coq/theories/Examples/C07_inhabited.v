(* Examples/C07_inhabited.v — the hypotheses of the C07 theorems are inhabited in every one of the
   36 styles (3 key/value styles x 3 field separators x trailing semicolon x repeated keys), with
   multi-valued attributes, flags, reserved characters and extra columns. *)
From GV Require Import Base.Prelude Base.PyStr Base.Utf8 Base.WordTable Model.DB Model.Parser Model.Grammar.
Open Scope N_scope.

Definition all_styles : list style :=
  flat_map (fun kv => flat_map (fun fs => flat_map (fun tr => map (fun rp => mkStyle kv fs tr rp) [false; true]) [false; true])
                                [[SEMI]; [SEMI; SP]; [SP; SEMI; SP]]) [KvEq; KvSpaceQuoted; KvSpaceBare].

(* ID=a%3Bb... : values with reserved characters only in the key=value style *)
Definition ex_attrs (kv : kvstyle) : attrs :=
  [ ([73;68], [match kv with KvEq => [97;59;61;9;98] | KvSpaceQuoted => [97;61;98;32;99] | KvSpaceBare => [97;98] end]);
    ([78;111;116;101], [[120]; [121;122]; [233]]);
    ([102;108;97;103], match kv with KvSpaceQuoted => [] | _ => [] end) ].

Definition ex_feature (st : style) : feature :=
  mkFeature [99;104;114;49] [46] [103;101;110;101] (Some 5%Z) None [46] [43] [46] (ex_attrs (st_kv st)) [[120]; []]
            (canon_dialect st (ex_attrs (st_kv st))) true false.

Example C07_all_styles_inhabited : length all_styles = 36%nat /\ forallb (fun st => wf_feature st (ex_feature st)) all_styles = true.
Proof. split; vm_compute; reflexivity. Qed.

(* and the theorems' conclusions can be watched on them: parse (render) = the feature *)
Example C07_roundtrip_computed :
  forallb (fun st => match feature_from_line isword (render_line st (ex_feature st)) None true with
                     | Ok g => str_eqb (feature_str to_quote g) (render_line st (ex_feature st))
                     | Err _ => false end) all_styles = true.
Proof. vm_compute. reflexivity. Qed.
