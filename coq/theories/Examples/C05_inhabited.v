(* non-vacuity for C05: [a; a(other coords); a(like the 2nd)] under 'merge' ends with a and a_1, the third merged into a_1 *)
From GV Require Import Base.Prelude Base.PyStr Model.Bins Model.DB Model.Parser Model.Import.
Open Scope Z_scope.
Definition mk (s : Z) (a : attrs) : row := mkRow [] (U "chr1"%bs) (U "s"%bs) (U "gene"%bs) (Some s) (Some (s + 9)) [46%N] [43%N] [46%N] a [] None.
Definition exA : list row :=
  [mk 1 [(U "ID"%bs, [U "a"%bs])]; mk 20 [(U "ID"%bs, [U "a"%bs]); (U "Note"%bs, [U "x"%bs])];
   mk 20 [(U "ID"%bs, [U "a"%bs]); (U "Note"%bs, [U "y"%bs; U "x"%bs]); (U "Parent"%bs, [U "p"%bs])]].
Example C05_merge_run : exists st, import_gff (fun _ _ => None) SMerge [] (SList [KAttr (U "ID"%bs)]) exA empty_st = Ok st /\
  map r_id (s_rows st) = [U "a"%bs; U "a_1"%bs] /\ s_dups st = [(U "a"%bs, U "a_1"%bs)] /\
  existsb (rel_eqb (mkRel (U "p"%bs) (U "a_1"%bs) 1)) (s_rels st) = true.
Proof. eexists. split; [vm_compute; reflexivity|]. vm_compute. repeat split. Qed.
