(* Corr/C16.v — merge(): outputs of the implementation (twice over the same objects) against the
   model; children_bp against the model and against the union size. *)
From GV Require Export Corr.Import Model.Order Model.Merge Gen.GenLib Gen.GenCriteria.
Open Scope Z_scope.

(* an output as observed: kind, member ids, extent/columns, frame, id, set of sources *)
Inductive oobs :=
| ObsSingle (id : str)
| ObsMerged (id : str) (seqid strand ftype : str) (s e : Z) (frame : str) (children : list str) (sources : list str).

Inductive case :=
| CMerge (cs : crits) (pre : list (list minput)) (fs : list minput) (a0 : counters) (first second : result (list oobs))
         (alone_ok : bool)    (* every object yielded by the second call, merged again ALONE, comes back as itself without children *)
| CBp (cs : crits) (kids : list minput) (plain merged : result Z)
| CMergeAll (exclude : bool) (order : list okey) (cs : crits) (before : tables) (mem : counters) (after : result tables).

Definition In_ (id seqid strand ftype : str) (s e : Z) (source frame : str) : minput :=
  mkIn id {| m_seqid := seqid; m_strand := strand; m_ftype := ftype; m_start := s; m_end := e |} source frame.

Definition obs_eqb (o : mout) (x : oobs) : bool :=
  match o, x with
  | OSingle i, ObsSingle id => str_eqb (mi_id i) id
  | OMerged id acc fr ch, ObsMerged id' seqid strand ftype s e frame children sources =>
      str_eqb id id' && str_eqb (m_seqid acc) seqid && str_eqb (m_strand acc) strand && str_eqb (m_ftype acc) ftype
      && (m_start acc =? s) && (m_end acc =? e) && str_eqb fr frame && lstr_eqb (map mi_id ch) children
      && lstr_eqb (as_set (map mi_source ch)) (as_set sources)
  | _, _ => false
  end.

Fixpoint outs_list_eqb (m : list mout) (l : list oobs) : bool :=
  match m, l with
  | [], [] => true
  | a :: m', b :: l' => obs_eqb a b && outs_list_eqb m' l'
  | _, _ => false
  end.
Definition outs_eqb (m : list mout) (o : result (list oobs)) : bool :=
  match o with Ok l => outs_list_eqb m l | Err _ => false end.

Fixpoint nodup_strs (l : list str) : bool :=
  match l with [] => true | x :: l' => negb (mem_str x l') && nodup_strs l' end.

(* start-ordered input, as the property requires *)
Fixpoint start_sorted (fs : list minput) : bool :=
  match fs with
  | a :: ((b :: _) as l) => (m_start (mi_v a) <=? m_start (mi_v b)) && start_sorted l
  | _ => true
  end.

Definition clean (s : str) : bool := negb (mem_char COMMAc s) && negb (match s with [] => true | _ => false end).
Definition input_ok (f : minput) : bool :=
  (m_start (mi_v f) <=? m_end (mi_v f)) && clean (m_seqid (mi_v f)) && clean (mi_source f) && clean (m_ftype (mi_v f)).

(* the property, directly: a partition of the inputs in order; merged outputs span min..max *)
Definition partition_ok (fs : list minput) (o : list oobs) : bool :=
  lstr_eqb (flat_map (fun x => match x with ObsSingle i => [i] | ObsMerged _ _ _ _ _ _ _ ch _ => ch end) o) (map mi_id fs).

(* every (seqid, strand, type) class is contiguous in the input *)
Fixpoint classes_contiguous (fs : list minput) : bool :=
  match fs with
  | [] => true
  | a :: l => (let rest := (fix skip (l : list minput) := match l with
                                         | b :: l' => if same_class (mi_v a) (mi_v b) then skip l' else l
                                         | [] => [] end) l in
               negb (existsb (fun b => same_class (mi_v a) (mi_v b)) rest)) && classes_contiguous l
  end.

(* the property itself on the observed outputs, for the default criteria on a single class:
   consecutive outputs are separated by at least one base that no output covers *)
Definition obs_extent (fs : list minput) (x : oobs) : option (Z * Z) :=
  match x with
  | ObsSingle i => match find (fun f => str_eqb (mi_id f) i) fs with Some f => Some (m_start (mi_v f), m_end (mi_v f)) | None => None end
  | ObsMerged _ _ _ _ s e _ _ _ => Some (s, e)
  end.
Fixpoint obs_separated (fs : list minput) (l : list oobs) : bool :=
  match l with
  | a :: ((b :: _) as l') =>
      match obs_extent fs a, obs_extent fs b with
      | Some (_, e1), Some (s2, _) => (e1 + 1 <? s2) && obs_separated fs l'
      | _, _ => false
      end
  | _ => true
  end.
Definition one_class (fs : list minput) : bool :=
  match fs with [] => true | f :: l => forallb (fun x => same_class (mi_v f) (mi_v x)) l end.
Definition is_default (cs : crits) : bool := match cs with [CSeqid; COvEnd; CStrand; CFtype] => true | _ => false end.

Definition verdict (c : case) : Z :=
  match c with
  | CMerge cs pre fs a0 first second alone_ok =>
      if forallb input_ok fs && nodup_strs (map mi_id fs) && start_sorted fs && forallb start_sorted pre then
        (* earlier merge() calls over some of the same objects only advance the id counters *)
        let a0 := fold_left (fun a l => snd (merge cs l a)) pre a0 in
        let '(m1, a1) := merge cs fs a0 in
        let '(m2, _) := merge cs fs a1 in
        if outs_eqb m1 first && outs_eqb m2 second && alone_ok
           && match first with
              | Ok l => partition_ok fs l && (if is_default cs && one_class fs then obs_separated fs l else true)
              | _ => false
              end then V_OK else V_BAD
      else V_OUT
  | CBp cs kids plain merged =>
      if forallb input_ok kids && start_sorted kids then
        let tie := result_eqb Z.eqb (Ok (children_bp false cs kids)) plain && result_eqb Z.eqb (Ok (children_bp true cs kids)) merged in
        let sum_ok := result_eqb Z.eqb plain (Ok (fold_right Z.add 0 (map (fun k => m_end (mi_v k) - m_start (mi_v k) + 1) kids))) in
        let union_ok := result_eqb Z.eqb merged (Ok (union_size_by_class kids)) in
        if negb (is_default cs) then (if tie && sum_ok then V_OK else V_BAD)     (* the union claim is about the default criteria *)
        else if classes_contiguous kids then (if tie && sum_ok && union_ok then V_OK else V_BAD)
        else (* F19: start-ordered but class-interleaved children: the single pass does not join across classes *)
             (if union_ok && sum_ok then V_FIXED else if tie && sum_ok then V_KNOWN 19 else V_BAD)
      else V_OUT
  | CMergeAll exclude order cs before mem after =>
      let st := mkSt (t_rows before) (t_rels before) (t_dups before) (t_auto before) in
      if forallb (fun r => match minput_of_row r with Some i => input_ok i | None => false end) (t_rows before) then
        match merge_all_with order cs exclude st mem, after with
        | Ok (st', _), Ok t => if st_matches_set st' t then V_OK else V_BAD
        | Err e, Err e' => if err_eqb e e' then V_OK else V_BAD
        | _, _ => V_BAD
        end
      else V_OUT
  end.
