(* Corr/C14.v — directives, comments, blanks and FASTA: what the iterator yields and records, what
   create_db stores and a reopened database reports, against the model. *)
From GV Require Export Base.Prelude Base.PyStr Model.Iter.
Open Scope Z_scope.

Inductive case :=
| CFile (text : str) (checklines : nat)
        (iter_feats : result (list str)) (iter_dirs : result (list str))     (* DataIterator: str(f) of each feature; .directives afterwards *)
        (peek_dirs : result (list str))                                       (* .directives right after construction (peek only) *)
        (db_dirs : result (list str)) (reopened_dirs : result (list str)) (db_count : result Z).

Definition rl_eqb := result_eqb (list_eqb str_eqb).

(* the grammar: no line starts with white space (textwrap.dedent / feature parsing would see something else) *)
Definition line_ok (l : str) : bool := match l with c :: _ => negb (is_space c) | [] => true end.

Definition verdict (c : case) : Z :=
  match c with
  | CFile text checklines iter_feats iter_dirs peek_dirs db_dirs reopened_dirs db_count =>
      let lines := file_lines text in
      if forallb line_ok lines then
        let its := scan lines in
        let feats := feats_of its in
        let dirs := dirs_of its in
        let it_ok := rl_eqb (Ok feats) iter_feats && rl_eqb (Ok dirs) iter_dirs
                     && rl_eqb (Ok (dirs_of (upto_feature checklines its))) peek_dirs in
        let db_ok :=
          match feats with
          | [] => match db_dirs with Err _ => true | Ok _ => false end          (* empty input: create_db refuses *)
          | _ => rl_eqb (Ok (fst (directives_flow ClearInPlace true checklines lines))) db_dirs
                 && rl_eqb (Ok dirs) reopened_dirs
                 && result_eqb Z.eqb (Ok (Z.of_nat (length feats))) db_count
          end in
        if it_ok && db_ok then V_OK else V_BAD
      else V_OUT
  end.
