(* Corr/C15.v — interfeatures / create_introns / create_splice_sites of the implementation against
   the model and against the declarative gap geometry. *)
From GV Require Export Corr.Import Model.Attrs Model.Inter Model.Introns Model.Hier.
Open Scope Z_scope.

Inductive case :=
| CInter (c : icfg) (fs : list row) (impl : result (list row)) (inputs_unchanged : bool)
| CIntrons (merge numeric : bool) (transcripts : list (str * list row))      (* strand, exons by start *)
           (introns : result (list row)) (sites : result (list row))
| CIntronsDb (feats : list row) (v : via) (merge numeric : bool)           (* the model selects transcripts and exons itself *)
             (introns : result (list row)) (sites : result (list row)).

Definition rows_eqb (a b : list row) : bool := list_eqb (row_eqb false) a b.

Definition feature_ok (r : row) : bool :=
  match r_start r, r_end r with Some s, Some e => (1 <=? s) && (s <=? e) | _, _ => false end.

(* geometry the property states, from the inputs alone *)
Definition gap_geometry (fs : list row) : list (str * Z * Z) :=
  flat_map (fun ab => match r_end (fst ab), r_start (snd ab) with
                      | Some e, Some s => [(r_seqid (fst ab), e + 1, s - 1)]
                      | _, _ => []
                      end) (gaps fs).
Definition geom_of (r : row) : str * Z * Z :=
  (r_seqid r, match r_start r with Some s => s | None => 0 end, match r_end r with Some e => e | None => 0 end).
Definition geom_eqb (a b : str * Z * Z) : bool :=
  str_eqb (fst (fst a)) (fst (fst b)) && (snd (fst a) =? snd (fst b)) && (snd a =? snd b).

(* order-insensitive comparison of feature lists (transcripts are visited in database order) *)
Fixpoint remove_first (x : row) (l : list row) : option (list row) :=
  match l with
  | [] => None
  | y :: l' => if row_eqb false x y then Some l' else match remove_first x l' with Some r => Some (y :: r) | None => None end
  end.
Fixpoint multiset_eqb (a b : list row) : bool :=
  match a with
  | [] => match b with [] => true | _ => false end
  | x :: a' => match remove_first x b with Some b' => multiset_eqb a' b' | None => false end
  end.

Definition no_bin (r : row) : row :=
  mkRow (r_id r) (r_seqid r) (r_source r) (r_ftype r) (r_start r) (r_end r) (r_score r) (r_strand r) (r_frame r) (r_attrs r) (r_extra r) None.

Definition EXONs : str := [101;120;111;110]%N.

Definition verdict (c : case) : Z :=
  match c with
  | CInter cfg fs impl unchanged =>
      if forallb feature_ok fs then
        match interfeatures cfg fs, impl with
        | Err EOther, _ => V_OUT                               (* a value whose float() is outside the model *)
        | Ok m, Ok o =>
            if rows_eqb m o && unchanged && list_eqb geom_eqb (map geom_of o) (gap_geometry fs)
               && Nat.leb (length o) (Nat.pred (length fs)) then V_OK else V_BAD
        | Err e, Err e' => if err_eqb e e' then V_OK else V_BAD
        | _, _ => V_BAD
        end
      else V_OUT
  | CIntrons merge numeric ts introns sites =>
      if forallb (fun t => forallb feature_ok (snd t)) ts then
        let cfg := mkICfg (Some [105;110;116;114;111;110]%N) merge numeric [] in
        let mi := collect (map (fun t => interfeatures cfg (snd t)) ts) in
        let ms := collect (map (fun t => splice_side true (fst t) merge numeric (snd t)) ts
                           ++ map (fun t => splice_side false (fst t) merge numeric (snd t)) ts) in
        match mi, ms with
        | Err EOther, _ | _, Err EOther => V_OUT
        | _, _ =>
          let ok1 := match mi, introns with
                     | Ok m, Ok o => multiset_eqb m o
                                     && multiset_eqb (map no_bin m) (map no_bin o)
                     | Err e, Err e' => err_eqb e e' | _, _ => false end in
          let ok2 := match ms, sites with
                     | Ok m, Ok o => multiset_eqb m o && multiset_eqb (map no_bin m) (map no_bin o)
                     | Err e, Err e' => err_eqb e e' | _, _ => false end in
          if ok1 && ok2 then V_OK else V_BAD
        end
      else V_OUT
  | CIntronsDb feats v merge numeric introns sites =>
      match import_gff call_table SError [] (SList [KAttr IDK]) feats empty_st with
      | Err _ => V_OUT
      | Ok st =>
        if forallb feature_ok (s_rows st) then
          let cfg := mkICfg (Some [105;110;116;114;111;110]%N) merge numeric [] in
          let mi := create_introns st v EXONs cfg in
          let ms := create_splice_sites st v EXONs merge numeric in
          match mi, ms with
          | Err EOther, _ | _, Err EOther => V_OUT
          | _, _ =>
            let ok1 := match mi, introns with
                       | Ok m, Ok o => multiset_eqb m o && multiset_eqb (map no_bin m) (map no_bin o)
                       | Err e, Err e' => err_eqb e e' | _, _ => false end in
            let ok2 := match ms, sites with
                       | Ok m, Ok o => multiset_eqb m o && multiset_eqb (map no_bin m) (map no_bin o)
                       | Err e, Err e' => err_eqb e e' | _, _ => false end in
            if ok1 && ok2 then V_OK else V_BAD
          end
        else V_OUT
      end
  end.
