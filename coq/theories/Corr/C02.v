(* Corr/C02.v — GFF3 hierarchy: relation table and children()/parents() of the implementation
   against the model, and against the Parent graph directly, on graphs with unique clean ids. *)
From GV Require Export Corr.Import Model.Hier.
Open Scope Z_scope.

Inductive qobs := QO (dir : reldir) (id : str) (level : option Z) (ft : ftfilter) (impl : result (list str)).
Inductive case := Case (feats : list row) (impl : result tables) (qs : list qobs).

Definition ft_ok (ft : ftfilter) : bool := match ft with FList [] => false | FStr [] => false | _ => true end.

Definition verdict_q (feats : list row) (st : ist) (q : qobs) : Z :=
  match q with
  | QO dir id level ft impl =>
    if negb (ft_ok ft) then V_OUT else
    let d := mkDb (s_rows st) (s_rels st) in
    let model := sorted_ids (map r_id (relation d dir id level ft None false)) in
    let spec := sorted_ids (map fid (filter (ft_query ft) (spec_rel feats dir id level))) in
    match impl with
    | Ok ids => if lstr_eqb ids model && lstr_eqb ids spec then V_OK else V_BAD
    | Err _ => V_BAD
    end
  end.

Definition verdict (c : case) : Z :=
  match c with
  | Case feats impl qs =>
    if in_domain feats then
      match import_gff call_table SError [] (SList [KAttr IDK]) feats empty_st, impl with
      | Ok st, Ok t =>
          if st_matches false st t && forallb (fun q => negb (verdict_q feats st q =? V_BAD)) qs then V_OK else V_BAD
      | _, _ => V_BAD
      end
    else V_OUT
  end.
