(* Corr/C06.v — correspondence for C06: region()/limit= results of the implementation on a
   database whose table content is given, against the model, on in-domain queries. *)
From GV Require Export Base.Prelude Base.PyStr Model.Bins Model.DB Model.Query.
Open Scope Z_scope.

Definition R (id seqid ftype : str) (s e : option Z) (strand : str) (b : option Z) : row :=
  mkRow id seqid [] ftype s e [] strand [] [] [] b.

Fixpoint insert_str (x : str) (l : list str) : list str :=
  match l with [] => [x] | y :: l' => if str_ltb y x then y :: insert_str x l' else x :: l end.
Definition sort_strs (l : list str) : list str := fold_right insert_str [] l.

Definition ids (rows : list row) : list str := sort_strs (map r_id rows).

Inductive query :=
| QRegion (form : region_form) (strand : option str) (ft : ftfilter) (cw : bool) (impl : result (list str))
| QAll (ft : ftfilter) (lim : limit_form) (cw : bool) (strand : option str) (impl : result (list str))
| QRel (dir : reldir) (id : str) (level : option Z) (ft : ftfilter) (lim : limit_form) (cw : bool)
       (impl : result (list str)).

Inductive case := Case (rows : list row) (rels : list rel) (qs : list query).

Definition ft_in_domain (f : ftfilter) : bool :=
  match f with FList [] => false | FStr [] => false | _ => true end.

Definition bound_ok (z : option Z) : bool := match z with Some v => 1 <=? v | None => true end.

Definition region_in_domain (a : region_args) : bool :=
  bound_ok (ra_start a) && bound_ok (ra_end a) &&
  match ra_start a, ra_end a with Some s, Some e => s <=? e | _, _ => true end &&
  region_has_position a && ft_in_domain (ra_ftype a) &&
  match ra_strand a with Some [] => false | _ => true end.

Definition limit_in_domain (l : option limit_args) : bool :=
  match l with Some l => (1 <=? la_start l) && (la_start l <=? la_end l) | None => true end.

Definition res_ids_eqb := result_eqb (list_eqb str_eqb).

Definition verdict_query (d : db) (q : query) : Z :=
  match q with
  | QRegion form strand ft cw impl =>
      match region_of_form form strand ft cw with
      | Err _ => V_OUT                              (* malformed region strings: not quantified over *)
      | Ok a => if region_in_domain a then
                  match region d a with
                  | Ok rows => if res_ids_eqb (Ok (ids rows)) impl then V_OK else V_BAD
                  | Err _ => V_OUT
                  end
                else V_OUT
      end
  | QAll ft lim cw strand impl =>
      match limit_of_form lim with
      | Err _ => V_OUT
      | Ok l => if limit_in_domain l && ft_in_domain ft && match strand with Some [] => false | _ => true end then
                  if res_ids_eqb (Ok (ids (all_features d ft l cw strand))) impl then V_OK else V_BAD
                else V_OUT
      end
  | QRel dir id level ft lim cw impl =>
      match limit_of_form lim with
      | Err _ => V_OUT
      | Ok l => if limit_in_domain l && ft_in_domain ft then
                  if res_ids_eqb (Ok (ids (relation d dir id level ft l cw))) impl then V_OK else V_BAD
                else V_OUT
      end
  end.

Definition db_in_domain (d : db) : bool := forallb row_ok (d_rows d).
(* stored bins must equal bins(start, end): an invariant of every import route (C12, last
   sentence); a stale bin is reported, not excused *)
Definition db_bins_ok (d : db) : bool := forallb bin_consistent (d_rows d).

Fixpoint first_bad (l : list Z) : Z :=
  match l with
  | [] => V_OK
  | v :: l' => if v =? V_BAD then V_BAD else
               let rest := first_bad l' in
               if rest =? V_OK then v else rest
  end.

(* one verdict per case: V_BAD if any in-domain query disagrees; V_OUT if nothing was in domain *)
Definition verdict (c : case) : Z :=
  match c with
  | Case rows rels qs =>
      let d := mkDb rows rels in
      if negb (db_bins_ok d) then V_BAD else
      if db_in_domain d then
        let vs := map (verdict_query d) qs in
        if existsb (Z.eqb V_BAD) vs then V_BAD
        else if existsb (Z.eqb V_OK) vs then V_OK else V_OUT
      else V_OUT
  end.
