(* Corr/C08.v — print -> parse is lossless on the property's domain; parsing is total. *)
From GV Require Export Corr.Parser.
Open Scope N_scope.

Inductive case :=
| CRound (D : dialect) (seqid source ftype : str) (s e : option Z) (score strand frame : str)
         (m : attrs) (extras : list str)
         (ko : bool)                         (* keep_order: keys listed in the dialect's order first, in that order; the others after them *)
         (line : result str)                 (* str(Feature(..., attributes=m, dialect=D, keep_order=ko)) *)
         (re : result fobs)                  (* feature_from_line(line, dialect=D, keep_order=ko) *)
| CInfer (s : str) (impl : result (attrs * dialect))      (* parser._split_keyvals(s) *)
| CWith (D : dialect) (s : str) (impl : result attrs).    (* parser._split_keyvals(s, dialect=D) *)

Definition count_char (c : N) (s : str) : nat := length (filter (N.eqb c) s).

Definition cols_clean (cols : list str) : bool := forallb (free_of [TAB; 10; 13]) cols.

Fixpoint ins_kv (x : str * list str) (l : attrs) : attrs :=
  match l with [] => [x] | y :: l' => if str_ltb (fst x) (fst y) then x :: l else y :: ins_kv x l' end.
Definition by_key (a : attrs) : attrs := fold_right ins_kv [] a.

Definition verdict (c : case) : Z :=
  match c with
  | CRound D seqid source ftype s e score strand frame m extras ko line re =>
    let f := mkFeature seqid source ftype s e score strand frame m extras D ko false in
    let mline := feature_str to_quote f in
    let mre := feature_from_line isword mline (Some D) ko in
    let tie := match line, re, mre with
               | Ok l, Ok o, Ok mf => str_eqb l mline && fobs_matches to_quote mf o
               | Ok l, Err _, Err _ => str_eqb l mline
               | _, _, _ => false
               end in
    let spec := match line, re with
                | Ok l, Ok o =>
                    (* the mapping comes back: same keys, same value lists (key order is the printed one when keep_order is on) *)
                    attrs_eqb (by_key (o_attrs o)) (by_key m) && (ko || attrs_eqb (o_attrs o) m)
                    && lstr_eqb (o_cols o) (feature_cols f) && ozeqb (o_start o) s
                    && ozeqb (o_end o) e && lstr_eqb (o_extra o) extras
                    && Nat.eqb (count_char TAB l) (8 + length extras) && Nat.eqb (count_char 10 l) 0
                    && Nat.eqb (count_char 13 l) 0
                | _, _ => false
                end in
    let dom_common := mapping_ok m && cols_clean (feature_cols f) && cols_clean extras in
    if dom_common && gff3_style D then (if tie && spec then V_OK else V_BAD)
    else if dom_common && gtf_standard D && forallb (fun kv => forallb gtf_value_ok (snd kv)) m then
      (if tie && spec then V_OK else V_BAD)
    else if dom_common && known_F16 D && forallb (fun kv => forallb gtf_value_ok (snd kv)) m then
      (if spec then V_FIXED else if tie then V_KNOWN 16 else V_BAD)
    else V_OUT
  | CInfer s impl =>
    match impl with
    | Err _ => V_BAD                                  (* parsing must never raise *)
    | Ok (a, D) => let '(ma, mD) := split_infer isword s in
                   (* the model of the inference path is exact on arbitrary text (0 disagreements over every generated
                      string on the unchanged tree): a disagreement is a violation, not "out-of-grammar drift" *)
                   if attrs_eqb a ma && dialect_eqb D mD then V_OK else V_BAD
    end
  | CWith D s impl =>
    if wf_dialect D then
      match impl, split_with D s with
      | Err _, _ => V_BAD
      | Ok a, Ok ma => if attrs_eqb a ma then V_OK else V_BAD
      | Ok _, Err _ => V_BAD
      end
    else V_OUT
  end.
