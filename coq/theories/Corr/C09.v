(* Corr/C09.v — dialect inference: per line, per window, supplied, persisted, routing. *)
From GV Require Export Corr.Parser Model.Dialect Model.Json.
Open Scope N_scope.

(* what the implementation reports for one input *)
Record c09obs := mkC09 {
  o_line_dialects : list dialect;          (* helpers.infer_dialect(attribute column) per line *)
  o_iter : result dialect;                 (* DataIterator(path, checklines).dialect *)
  o_iter_feats : result dialect;           (* DataIterator(list of Feature objects).dialect *)
  o_db : result dialect;                   (* create_db(...).dialect *)
  o_reopen : result dialect;               (* FeatureDB(path).dialect *)
  o_first_feature : result dialect;        (* dialect carried by the first feature yielded *)
  o_derived : Z;
  o_meta : result str;                     (* the JSON text in the meta table's dialect column *)
  o_updated : result dialect }.            (* FeatureDB(path).dialect after an update() with differently written lines *)                         (* number of stored features minus number of lines: > 0 iff the GTF importer ran *)

Inductive case :=
| CVote (attr_cols : list str)             (* the attribute column of every feature line, in file order *)
        (checklines : nat) (supplied : option dialect) (force_gff : bool)
        (consistent : option style)        (* Some st: every line was rendered in style st with >= 2 parts *)
        (gtf_keys : bool)                  (* lines carry gene_id/transcript_id and are exons: routing is observable *)
        (impl : c09obs).

Definition rdialect_eqb (a : result dialect) (b : dialect) : bool :=
  match a with Ok d => dialect_eqb d b | Err _ => false end.

Definition style_fields_ok (st : style) (D : dialect) : bool :=
  str_eqb (d_fmt D) (match st_kv st with KvSpaceQuoted => GTF | _ => GFF3 end)
  && str_eqb (d_fsep D) (st_fsep st)
  && str_eqb (d_kvsep D) (match st_kv st with KvEq => [EQ] | _ => [SP] end)
  && Bool.eqb (d_quoted D) (match st_kv st with KvSpaceQuoted => true | _ => false end)
  && Bool.eqb (d_trailing D) (st_trailing st) && negb (d_leading D) && str_eqb (d_mvsep D) [COMMA].

Definition verdict (c : case) : Z :=
  match c with
  | CVote cols checklines supplied force consistent gtf_keys o =>
    let voters := map (voter_of_attr_string isword) cols in
    let chosen := data_iterator_dialect supplied checklines voters in
    (* the size of the window is not fixed by the property: a case whose outcome depends on
       whether checklines or checklines+1 lines are inspected is out of domain *)
    let alt := match supplied with Some D => D | None => choose_dialect (firstn checklines voters) end in
    let window_robust := match checklines with O => true | _ => dialect_eqb chosen alt end in
    if negb window_robust then V_OUT else
    let lines_ok := list_eqb dialect_eqb (o_line_dialects o) (map v_dialect voters) in
    let iter_ok := rdialect_eqb (o_iter o) chosen && rdialect_eqb (o_iter_feats o) chosen
                   && rdialect_eqb (o_first_feature o) chosen in
    let db_ok := rdialect_eqb (o_db o) chosen && rdialect_eqb (o_reopen o) chosen && rdialect_eqb (o_updated o) chosen
                 (* the stored text decodes (Model/Json.v) to the chosen dialect; for an inferred dialect it is the model's text *)
                 && match o_meta o with
                    | Ok t => match loads_dialect t with Some D => dialect_eqb D chosen | None => false end
                              && match supplied with None => str_eqb t (dumps_dialect chosen) | Some _ => true end
                    | Err _ => false
                    end in
    let spec_ok := match consistent, supplied with
                   | Some st, None => match o_iter o with Ok D => style_fields_ok st D | Err _ => false end
                   | _, _ => true
                   end in
    let route_ok := if gtf_keys then
                      match route force chosen with
                      | Ok ImpGTF => (0 <? o_derived o)%Z
                      | Ok ImpGFF => (o_derived o =? 0)%Z
                      | Err _ => true
                      end
                    else true in
    if lines_ok && iter_ok && db_ok && spec_ok && route_ok then V_OK else V_BAD
  end.
