(* Corr/C01.v — whole files through create_db: stored once, in order, unchanged; printed back;
   same after reopening; equivalent after re-import. *)
From GV Require Export Corr.Parser Model.Dialect Model.File.
Open Scope N_scope.

Record dbobs := mkDbObs { ob_dialect : dialect; ob_feats : list fobs }.

Inductive case :=
| CFile (st : style) (fs : list feature)            (* the lines as data (dialect field unused) *)
        (raw : list str)                            (* the feature lines as the harness rendered them *)
        (cfg : icfg)
        (mem file reopen reimport : result dbobs)
| CRaw (raw : list str) (cfg : icfg)                 (* lines outside the style grammar: empty list items, empty attribute
                                                       columns, doubled separators ...: the model of the import is the oracle *)
       (mem file reopen : result dbobs).

Definition canon_feature (st : style) (f : feature) : feature :=
  mkFeature (f_seqid f) (f_source f) (f_ftype f) (f_start f) (f_end f) (f_score f) (f_strand f) (f_frame f)
            (f_attrs f) (f_extra f) (canon_dialect st (f_attrs f)) true false.

Definition feats_match (ms : list feature) (os : list fobs) : bool :=
  Nat.eqb (length ms) (length os) && forallb (fun p => fobs_matches to_quote (fst p) (snd p)) (combine ms os).

Definition db_matches (D : dialect) (ms : list feature) (o : result dbobs) : bool :=
  match o with Ok ob => dialect_eqb (ob_dialect ob) D && feats_match ms (ob_feats ob) | Err _ => false end.

(* content only: columns, coordinates, attributes, extras *)
Definition content_eqb (f : feature) (o : fobs) : bool :=
  lstr_eqb (feature_cols f) (o_cols o) && ozeqb (f_start f) (o_start o) && ozeqb (f_end f) (o_end o)
  && attrs_eqb (f_attrs f) (o_attrs o) && lstr_eqb (f_extra f) (o_extra o).

Definition content_matches (fs : list feature) (o : result dbobs) : bool :=
  match o with
  | Ok ob => Nat.eqb (length fs) (length (ob_feats ob)) && forallb (fun p => content_eqb (fst p) (snd p)) (combine fs (ob_feats ob))
  | Err _ => false
  end.

Definition strs_match (raw : list str) (o : result dbobs) : bool :=
  match o with Ok ob => lstr_eqb (map o_str (ob_feats ob)) raw | Err _ => false end.

Definition verdict (c : case) : Z :=
  match c with
  | CFile st fs0 raw cfg mem file reopen reimport =>
    let fs := map (canon_feature st) fs0 in
    let wf := forallb (wf_feature st) fs && lstr_eqb (map (render_line st) fs) raw in
    match import_model isword cfg raw with
    | Err _ => V_OUT
    | Ok (D, ms) =>
      if wf && forallb (fun f => fits st (f_attrs f) D) fs then
        let tie := db_matches D ms mem && db_matches D ms file && db_matches D ms reopen in
        let spec := content_matches fs mem && content_matches fs file && content_matches fs reopen
                    (* with sort_attribute_values the printed lines carry re-ordered values: re-import is then
                       only compared when the switch is off (as in theorem C01_reimport) *)
                    && (c_sort_values cfg || content_matches fs reimport)
                    && (if c_keep_order cfg && negb (c_sort_values cfg)
                        then strs_match raw mem && strs_match raw file && strs_match raw reopen else true) in
        if tie && spec then V_OK else V_BAD
      else V_OUT
    end
  | CRaw raw cfg mem file reopen =>
    match import_model isword cfg raw with
    | Err _ => V_OUT
    | Ok (D, ms) => if db_matches D ms mem && db_matches D ms file && db_matches D ms reopen then V_OK else V_BAD
    end
  end.
