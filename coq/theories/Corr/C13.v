(* Corr/C13.v — input forms, peeking, transform and inspect() of the implementation against the model. *)
From GV Require Export Base.Prelude Base.PyStr Model.Iter.
Open Scope Z_scope.

(* it_line / it_renamed: the line without a ';' at the end of its attribute column; it_trailing: whether the input line has one *)
Record it := mkIt { it_line : str; it_id : str; it_flag : bool; it_renamed : str; it_ftype : str; it_chrom : str; it_keys : list str;
                    it_trailing : bool }.

(* helpers._choose_dialect on the inspected lines (checklines + 1 of them), for the one dialect entry the generated lines
   differ in: every line votes with the number of its attributes, the heavier value wins, a tie goes to the value seen first *)
Definition trailing_vote (checklines : nat) (items : list it) : bool :=
  let w := firstn (S checklines) items in
  let weight := fun (b : bool) => fold_right Z.add 0 (map (fun x => if Bool.eqb (it_trailing x) b then Z.of_nat (length (it_keys x)) else 0) w) in
  match w with
  | [] => false
  | x :: _ => if weight true >? weight false then true else if weight false >? weight true then false else it_trailing x
  end.

Inductive tform := TNone | TIdentity | TDropEvenCalls | TDropFlagged | TRename | TFalsy.

(* the transform as a stateful function: state = number of calls so far *)
Definition tstep (t : tform) (s : nat) (x : it) : nat * option (str * str) :=
  let keep := Some (it_line x, it_id x) in
  (S s, match t with
        | TNone | TIdentity => keep
        | TDropEvenCalls => if Nat.even s then keep else None       (* calls are numbered from 0: the 2nd, 4th ... are dropped *)
        | TDropFlagged => if it_flag x then None else keep
        | TRename => Some (it_renamed x, it_id x)
        | TFalsy => if it_flag x then None else keep                 (* returns '' / 0 / [] instead of None/False *)
        end).

Inductive fobs := FObs (form : str) (seq : result (list str)) (calls : Z) (db_ids : result (list str)).

Inductive case :=
| CForms (items : list it) (checklines : nat) (t : tform) (obs : list fobs)
| CPeek (n : nat) (len : nat) (one_shot : bool) (peeked rest_after : result (list Z))   (* items are 0..len-1 *)
| CInspect (items : list it) (limit : option nat)
           (count : result Z) (ftypes chroms keys : result (list (str * Z))).

Definition rl_eqb := result_eqb (list_eqb str_eqb).

Fixpoint insert_kv (x : str * Z) (l : list (str * Z)) : list (str * Z) :=
  match l with [] => [x] | y :: l' => if str_ltb (fst x) (fst y) then x :: l else y :: insert_kv x l' end.
Fixpoint bump (k : str) (l : list (str * Z)) : list (str * Z) :=
  match l with [] => [(k, 1)] | (k', n) :: l' => if str_eqb k k' then (k', n + 1) :: l' else (k', n) :: bump k l' end.
Definition counter (l : list str) : list (str * Z) := fold_right insert_kv [] (fold_left (fun c k => bump k c) l []).
Definition kv_eqb (a b : str * Z) : bool := str_eqb (fst a) (fst b) && (snd a =? snd b).

Definition verdict (c : case) : Z :=
  match c with
  | CForms items checklines t obs =>
      let '(calls, out) := iterate (tstep t) O items in
      let exp_lines := map (fun lo => fst lo ++ (if trailing_vote checklines items then [59%N] else [])) out in
      let exp_ids := map snd out in
      if forallb (fun o => match o with FObs _ seq n db =>
                    rl_eqb (Ok exp_lines) seq
                    && match t with TNone => true | _ => n =? Z.of_nat calls end
                    && match exp_ids with
                       | [] => match db with Err _ => true | Ok _ => false end       (* nothing left: create_db refuses *)
                       | _ => rl_eqb (Ok exp_ids) db
                       end end) obs
      then V_OK else V_BAD
  | CPeek n len one_shot peeked rest =>
      let l := map Z.of_nat (seq 0 len) in
      let '(p, src) := feat_peek n (if one_shot then SIter l else SList l) in
      if result_eqb (list_eqb Z.eqb) (Ok p) peeked && result_eqb (list_eqb Z.eqb) (Ok (contents src)) rest
         && list_eqb Z.eqb (contents src) l then V_OK else V_BAD
  | CInspect items limit count ftypes chroms keys =>
      let l := limited limit items in
      if result_eqb Z.eqb (Ok (Z.of_nat (length l))) count
         && result_eqb (list_eqb kv_eqb) (Ok (counter (map it_ftype l))) ftypes
         && result_eqb (list_eqb kv_eqb) (Ok (counter (map it_chrom l))) chroms
         && result_eqb (list_eqb kv_eqb) (Ok (counter (flat_map it_keys l))) keys then V_OK else V_BAD
  end.
