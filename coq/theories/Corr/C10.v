(* Corr/C10.v — histories of update / delete / add_relation / reopen on a file database: after
   every step the file's tables, the open object's counters, the .bak file and the outcome
   class against the machine of Model/Machine.v. *)
From GV Require Export Corr.Import Model.Machine.
Open Scope Z_scope.

Record stepobs := mkStepObs {
  so_tables : tables;                 (* content of the database file after the step *)
  so_mem : counters;                  (* FeatureDB._autoincrements of the open object *)
  so_bak : option tables;             (* content of <dbfn>.bak, if the file exists *)
  so_out : result unit;
  (* through the SAME long-lived FeatureDB object, after the step: *)
  so_lookups : list (str * result row);   (* db[id] for a fixed pool of present and absent ids *)
  so_counts : list (option str * Z);      (* count_features_of_type(t); None = all *)
  so_iter_ids : list str }.               (* ids yielded by all_features() *)

Inductive case :=
| CHist (init : list row)            (* features the database was created from (create_db, ids from ID) *)
        (ops : list op) (created : result tables) (obs : list stepobs).

Definition IDK : str := [73;68]%N.
Definition id_clean (s : str) : bool := negb (existsb (fun c => N.eqb c 9 || N.eqb c 10 || N.eqb c 13) s).

Definition out_eqb (a b : result unit) : bool :=
  match a, b with Ok _, Ok _ => true | Err e, Err e' => err_eqb e e' | _, _ => false end.

Definition bak_matches (vals_as_sets : bool) (m : option ist) (o : option tables) : bool :=
  match m, o with
  | None, None => true
  | Some st, Some t => st_matches vals_as_sets st t
  | _, _ => false
  end.

Definition lookup_matches (rows : list row) (x : str * result row) : bool :=
  match find_id (fst x) rows, snd x with
  | Some r, Ok o => row_eqb true r o
  | None, Err ENotFound => true
  | _, _ => false
  end.

Definition count_matches (rows : list row) (x : option str * Z) : bool :=
  (Z.of_nat (length (match fst x with
                     | None => rows
                     | Some t => filter (fun r => str_eqb (r_ftype r) t) rows
                     end)) =? snd x).

(* the object's own view (look-ups, counts, iteration) agrees with the file's content *)
Definition api_matches (d : ist) (o : stepobs) : bool :=
  forallb (lookup_matches (s_rows d)) (so_lookups o) && forallb (count_matches (s_rows d)) (so_counts o)
  && lstr_eqb (map r_id (s_rows d)) (so_iter_ids o).

Definition step_matches (ms : mstate * result unit) (o : stepobs) : bool :=
  st_matches true (m_disk (fst ms)) (so_tables o) && counters_seteq (m_mem (fst ms)) (so_mem o)
  && bak_matches true (m_bak (fst ms)) (so_bak o) && out_eqb (snd ms) (so_out o)
  && api_matches (m_disk (fst ms)) o.

Fixpoint all_match (ms : list (mstate * result unit)) (os : list stepobs) : bool :=
  match ms, os with
  | [], [] => true
  | m :: ms', o :: os' => step_matches m o && all_match ms' os'
  | _, _ => false
  end.

Definition ids_clean_state (s : mstate) : bool := forallb (fun r => id_clean (r_id r)) (s_rows (m_disk s)).

Definition verdict (c : case) : Z :=
  match c with
  | CHist init ops created obs =>
    match init with [] => V_OUT | _ =>
    match import_gff call_table SCreateUnique [] (SList [KAttr IDK]) init empty_st with
    | Err _ => V_OUT
    | Ok d0 =>
      if negb (res_matches false (Ok d0) created) then V_BAD else
      let tr := trace call_table (opened d0) ops in
      (* ids with tab/newline make _update_relations fail in ways outside the property's domain *)
      if negb (forallb (fun ms => ids_clean_state (fst ms)) tr) then V_OUT else
      if all_match tr obs then V_OK else V_BAD
    end
    end
  end.
