(* Corr/C10.v — histories of update / delete / add_relation / reopen on a file database: after
   every step the file's tables, the open object's counters, the .bak file and the outcome
   class against the machine of Model/Machine.v. *)
From GV Require Export Corr.Import Model.GtfSpec Model.Machine.
Open Scope Z_scope.

Record stepobs := mkStepObs {
  so_tables : tables;                 (* content of the database file after the step *)
  so_mem : counters;                  (* FeatureDB._autoincrements of the open object *)
  so_bak : option tables;             (* content of <dbfn>.bak, if the file exists *)
  so_out : result unit;
  (* through the SAME long-lived FeatureDB object, after the step: *)
  so_lookups : list (str * result row);   (* db[id] for a fixed pool of present and absent ids *)
  so_counts : list (option str * Z);      (* count_features_of_type(t); None = all *)
  so_iter_ids : list str;                 (* ids yielded by all_features() *)
  so_relatives : list (str * (list str * list str)) }.   (* ids of children(id) and parents(id), all levels *)

Inductive case :=
| CHist (kind : dbkind)              (* GFF3- or GTF-dialect database *)
        (init : list row)            (* features the database was created from (create_db, default id_spec) *)
        (ops : list op) (created : result tables) (obs : list stepobs).

Definition IDK : str := [73;68]%N.
Definition id_clean (s : str) : bool := negb (existsb (fun c => N.eqb c 9 || N.eqb c 10 || N.eqb c 13) s).

Definition out_eqb (a b : result unit) : bool :=
  match a, b with Ok _, Ok _ => true | Err e, Err e' => err_eqb e e' | _, _ => false end.

(* GFF3 databases: rows in rowid order.  GTF databases: the derived transcripts/genes are inserted in the
   order of an SQL query whose ties (several transcripts of one gene) are unordered, so rows are compared
   as a set keyed by id *)
Definition disk_matches (kind : dbkind) (st : ist) (t : tables) : bool :=
  match kind with KGff => st_matches true st t | KGtf => st_matches_set st t end.

Definition bak_matches (kind : dbkind) (m : option ist) (o : option tables) : bool :=
  match m, o with
  | None, None => true
  | Some st, Some t => disk_matches kind st t
  | _, _ => false
  end.

Definition lookup_matches (rows : list row) (x : str * result row) : bool :=
  match find_id (fst x) rows, snd x with
  | Some r, Ok o => row_eqb true r o
  | None, Err ENotFound => true
  | _, _ => false
  end.

Definition count_matches (rows : list row) (x : option str * Z) : bool :=
  (Z.of_nat (length (match fst x with
                     | None => rows
                     | Some t => filter (fun r => str_eqb (r_ftype r) t) rows
                     end)) =? snd x).

(* children()/parents(): the stored features related to the id at any level, each once *)
Definition relatives_match (d : ist) (x : str * (list str * list str)) : bool :=
  let present := fun i => has_id i (s_rows d) in
  let ch := dedup_strs (map rel_child (filter (fun r => str_eqb (rel_parent r) (fst x) && present (rel_child r)) (s_rels d))) in
  let pa := dedup_strs (map rel_parent (filter (fun r => str_eqb (rel_child r) (fst x) && present (rel_parent r)) (s_rels d))) in
  lstr_eqb (sort_strs ch) (sort_strs (fst (snd x))) && lstr_eqb (sort_strs pa) (sort_strs (snd (snd x))).

(* the object's own view (look-ups, counts, iteration, relatives) agrees with the file's content *)
Definition api_matches (kind : dbkind) (d : ist) (o : stepobs) : bool :=
  forallb (lookup_matches (s_rows d)) (so_lookups o) && forallb (count_matches (s_rows d)) (so_counts o)
  && forallb (relatives_match d) (so_relatives o)
  && match kind with
     | KGff => lstr_eqb (map r_id (s_rows d)) (so_iter_ids o)
     | KGtf => lstr_eqb (sort_strs (map r_id (s_rows d))) (sort_strs (so_iter_ids o))
     end.

Definition step_matches (kind : dbkind) (ms : mstate * result unit) (o : stepobs) : bool :=
  disk_matches kind (m_disk (fst ms)) (so_tables o) && counters_seteq (m_mem (fst ms)) (so_mem o)
  && bak_matches kind (m_bak (fst ms)) (so_bak o) && out_eqb (snd ms) (so_out o)
  && api_matches kind (m_disk (fst ms)) o.

Fixpoint all_match (kind : dbkind) (ms : list (mstate * result unit)) (os : list stepobs) : bool :=
  match ms, os with
  | [], [] => true
  | m :: ms', o :: os' => step_matches kind m o && all_match kind ms' os'
  | _, _ => false
  end.

Definition ids_clean_state (s : mstate) : bool := forallb (fun r => id_clean (r_id r)) (s_rows (m_disk s)).

Definition verdict (c : case) : Z :=
  match c with
  | CHist kind init ops created obs =>
    match init with [] => V_OUT | _ =>
    match (match kind with
           | KGff => import_gff call_table SCreateUnique [] (SList [KAttr IDK]) init empty_st
           | KGtf => import_gtf call_table gtf_default SCreateUnique [] default_gtf_spec init empty_st
           end) with
    | Err _ => V_OUT
    | Ok d0 =>
      if negb (match created with Ok t => match kind with KGff => st_matches false d0 t | KGtf => st_matches_set d0 t end | Err _ => false end) then V_BAD else
      let tr := trace call_table kind (opened d0) ops in
      (* ids with tab/newline make _update_relations fail in ways outside the property's domain *)
      if negb (forallb (fun ms => ids_clean_state (fst ms)) tr) then V_OUT else
      if all_match kind tr obs then V_OK else V_BAD
    end
    end
  end.
