(* Corr/C18.v — len(), sequence(), bed12()/to_bed12() of the implementation against the models. *)
From GV Require Export Corr.Import Model.Bed.
Open Scope Z_scope.

Inductive case :=
| CLen (r : row) (impl : result Z)
| CSeq (seq : str) (s e : Z) (strand : str) (use_strand : bool) (impl : result str)
| CBed (feat : row) (blocks : list row) (mode : thickmode) (name : option (list str)) (color : option str)
       (by_id by_feature : result str)
| CToBed (feat : row) (children : list row) (name : option (list str)) (impl : result str).

Definition res_str_eqb := result_eqb str_eqb.

Definition ordered_distinct_starts (l : list row) : bool :=
  (fix go (l : list row) (prev : Z) : bool :=
     match l with
     | [] => true
     | r :: l' => match r_start r, r_end r with Some s, Some e => (prev <? s) && (s <=? e) && go l' s | _, _ => false end
     end) l 0.

Definition verdict (c : case) : Z :=
  match c with
  | CLen r impl => if res_str_eqb (Ok []) (Ok []) && result_eqb Z.eqb (feature_len r) impl then V_OK else V_BAD
  | CSeq seq s e strand use_strand impl =>
      if (1 <=? s) && (s <=? e) && (e <=? Z.of_nat (length seq)) then
        match impl with
        | Ok x => if str_eqb x (sequence seq s e strand use_strand) && (Z.of_nat (length x) =? e - s + 1) then V_OK else V_BAD
        | Err _ => V_BAD
        end
      else V_OUT
  | CBed feat blocks mode name color by_id by_feature =>
      let kids := match mode with ThickBy k => k | ThinBy k => k | NoThick => [] end in
      if ordered_distinct_starts blocks && ordered_distinct_starts kids
         && match r_start feat, r_end feat with Some s, Some e => (1 <=? s) && (s <=? e) | _, _ => false end then
        match mode with
        | NoThick => V_OUT                                   (* neither thick nor thin given: not a supported call *)
        | _ => let m := bed12 feat blocks mode name color in
               if res_str_eqb m by_feature && res_str_eqb m by_id then V_OK else V_BAD
        end
      else V_OUT
  | CToBed feat children name impl =>
      if ordered_distinct_starts children
         && match r_start feat, r_end feat with Some s, Some e => (1 <=? s) && (s <=? e) | _, _ => false end then
        if res_str_eqb (to_bed12 feat children name) impl then V_OK else V_BAD
      else V_OUT
  end.
