(* Corr/C17.v — attribute container, JSON storage form, merge_attributes, Feature equality/hash of
   the implementation against the models. *)
From GV Require Export Corr.Parser Model.Import Model.Attrs Model.Json Model.Container.
Open Scope Z_scope.

Inductive read := Rd (k : str) (with_list without_list : result pyval).
Inductive fdesc := FD (D : dialect) (seqid source ftype : str) (s e : option Z) (score strand frame : str) (a : attrs) (extras : list str)
                      (keep_order sort_values : bool).

Inductive case :=
| COps (ops : list (bool * (str * pyval)))        (* true: set through setdefault; false: through []=, update(), the constructor *)
       (reads : list read) (stored_kinds : list (str * stored))
| CJson (a : attrs) (text : str) (impl : result attrs)   (* _jsonify's text and what _unjsonify makes of it *)
| CJsonText (text : str) (impl : result attrs)          (* _unjsonify on arbitrary / damaged text; Err = raised or not str->[str] *)
| CMergeA (numeric : bool) (a1 a2 : attrs) (impl : result attrs) (args_unchanged : bool)
| CEq (f g : fdesc) (eq streq hasheq : bool)
      (edit_ok : bool).       (* two equal copies edited in place alike still compare, print and hash alike (one hashed before the edits) *)

Definition pyval_eqb (a b : pyval) : bool :=
  match a, b with
  | VStr x, VStr y => str_eqb x y
  | VList x, VList y => lstr_eqb x y
  | VTuple x, VTuple y => lstr_eqb x y
  | _, _ => false
  end.
Definition stored_eqb (a b : stored) : bool :=
  match a, b with SList x, SList y => lstr_eqb x y | STuple x, STuple y => lstr_eqb x y | _, _ => false end.

Definition attrs_eqb2 : attrs -> attrs -> bool := list_eqb (pair_eqb str_eqb lstr_eqb).

Fixpoint keys_nodup (l : list str) : bool := match l with [] => true | x :: l' => negb (mem_str x l') && keys_nodup l' end.

Definition feat_of (d : fdesc) : feature :=
  match d with FD D seqid source ftype s e score strand frame a extras ko sv =>
    mkFeature seqid source ftype s e score strand frame a extras D ko sv end.

(* per-key union, directly *)
Definition union_ok (a1 a2 m : attrs) : bool :=
  let keys := dedup_strs (map fst a1 ++ map fst a2) in
  lstr_eqb (sort_strs (map fst m)) (sort_strs keys) &&
  forallb (fun k => let v1 := match dget k a1 with Some v => v | None => [] end in
                    let v2 := match dget k a2 with Some v => v | None => [] end in
                    let vm := match dget k m with Some v => v | None => [] end in
                    lstr_eqb (sort_strs vm) (as_set (v1 ++ v2)) && keys_nodup vm) keys.

Fixpoint no_pair_b (s : str) : bool :=
  match s with
  | c :: r => match r with c2 :: _ => negb (is_hi c && is_lo c2) | [] => true end && no_pair_b r
  | [] => true
  end.
Definition json_in_domain (a : attrs) : bool :=
  forallb (fun kv => no_pair_b (fst kv) && forallb no_pair_b (snd kv)) a.

Definition verdict (c : case) : Z :=
  match c with
  | COps ops reads kinds =>
      let d := fold_left (fun (d : cdict) (op : bool * (str * pyval)) => let kv := snd op in
                                      if fst op then setdefault d (fst kv) (snd kv) else setitem d (fst kv) (snd kv)) ops [] in
      if forallb (fun r => match r with Rd k w wo =>
                    result_eqb pyval_eqb (getitem true d k) w && result_eqb pyval_eqb (getitem false d k) wo end) reads
         && list_eqb (pair_eqb str_eqb stored_eqb) d kinds then V_OK else V_BAD
  | CJson a text impl =>
      if keys_nodup (map fst a) then
        (* the text is the model's text, decoding it agrees with the model's decoder, and - unless the mapping holds the
           two halves of a surrogate pair as separate code points (out of the property's "Unicode content") - gives a back *)
        if str_eqb (dumps_attrs a) text then
          match loads_attrs text, impl with
          | Some m, Ok b => if attrs_eqb2 m b then (if attrs_eqb2 a b then V_OK else if json_in_domain a then V_BAD else V_OUT) else V_BAD
          | _, _ => V_BAD
          end
        else V_BAD
      else V_OUT
  | CJsonText text impl =>
      match loads_attrs text, impl with
      | Some m, Ok b => if attrs_eqb2 m b then V_OK else V_BAD
      | None, Err _ => V_OK
      | _, _ => V_BAD
      end
  | CMergeA numeric a1 a2 impl unchanged =>
      if keys_nodup (map fst a1) && keys_nodup (map fst a2) then
        match merge_attributes numeric a1 a2, impl with
        | Err EOther, _ => V_OUT
        | Ok m, Ok o => if attrs_eqb2 m o && unchanged && union_ok a1 a2 o then V_OK else V_BAD
        | _, _ => V_BAD
        end
      else V_OUT
  | CEq f g eq streq hasheq edit_ok =>
      let m := feature_eq to_quote (feat_of f) (feat_of g) in
      if Bool.eqb eq streq && Bool.eqb eq m && (if eq then hasheq else true) && edit_ok then V_OK else V_BAD
  end.
