(* Corr/C04.v — primary keys: the ids the implementation stored and what db[key] returns,
   against the model of _id_handler / the importer / __getitem__. *)
From GV Require Export Corr.Import Model.GtfSpec.
Open Scope Z_scope.

Inductive lookup := LK (key : str) (impl : result row).
Inductive case := Case (gtf : bool)            (* GTF dialect: the GTF importer (inference off), whose default id_spec is a dict *)
                       (spec : idspec) (strat : strategy) (feats : list row) (impl : result tables) (lks : list lookup).

(* FeatureDB.__getitem__ *)
Definition getitem (rows : list row) (key : str) : result row :=
  match find_id key rows with Some r => Ok r | None => Err ENotFound end.

Fixpoint nodup_strs (l : list str) : bool :=
  match l with [] => true | x :: l' => negb (mem_str x l') && nodup_strs l' end.

(* ids must survive the text temp file of _update_relations: generated ids are checked on the model's result *)
Definition id_clean (s : str) : bool := negb (existsb (fun c => N.eqb c 9 || N.eqb c 10 || N.eqb c 13) s).

Definition keys_in_domain (ks : list idkey) : bool :=
  forallb (fun k => match k with
                    | KAttr a => if is_field_form a then match field_named (inner a) with Some _ => true | None => false end
                                 else negb (match a with [] => true | _ => false end)
                    | KCall n => Nat.ltb n 6
                    end) ks.
Definition spec_in_domain (s : idspec) : bool :=
  match s with SList ks => keys_in_domain ks | SDict d => forallb (fun e => keys_in_domain (snd e)) d end.

Definition verdict (c : case) : Z :=
  match c with
  | Case gtf spec strat feats impl lks =>
    if negb (spec_in_domain spec) || match feats with [] => true | _ => false end then V_OUT else
    let m := if gtf then import_gtf call_table (mkGtf GtfSpec.TRANSCRIPT_ID GtfSpec.GENE_ID [101;120;111;110]%N true true) strat [] spec feats empty_st
             else import_gff call_table strat [] spec feats empty_st in
    match m with
    | Err EOther => V_OUT                       (* an id with a line break in it: outside the domain *)
    | _ =>
      if negb (match m with Ok st => forallb (fun r => id_clean (r_id r)) (s_rows st) | _ => true end) then V_OUT else
      if res_matches false m impl then
        match m, impl with
        | Ok st, Ok t =>
            (* the property itself, on what the implementation stored: keys unique, look-ups exact *)
            if nodup_strs (map r_id (t_rows t))
               && forallb (fun l => match l with LK k r => result_eqb (row_eqb false) (getitem (s_rows st) k) r end) lks
            then V_OK else V_BAD
        | _, _ => V_OK
        end
      else V_BAD
    end
  end.
