(* Corr/C19.v — create_db on existing paths (refusal without force, replacement with force) and
   read-style call sequences (statement trace, file bytes, content after reopen). *)
From GV Require Export Corr.Import Model.GtfSpec Model.Machine Model.Store.
Open Scope Z_scope.

Inductive stmt := StSelect | StPragma | StWrite (text : str).

Record readobs := mkReadObs {
  ro_before : tables; ro_after : tables;            (* content through a fresh connection *)
  ro_meta_same : bool;                              (* directives, dialect, version rows identical *)
  ro_bytes_same : bool;                             (* sha256 of the file before = after *)
  ro_trace : list stmt;                             (* the distinct statement classes the FeatureDB connection executed (writes verbatim) *)
  ro_errors : list err }.                           (* classes of exceptions raised by the calls *)

Inductive case :=
| CCreate (old new : list row)                      (* features of the old database / of the new input *)
          (force : bool)
          (emptied : bool)                          (* every feature of the old database was deleted again (FeatureDB.delete) before the second call *)
          (old_tables : result tables)              (* the old database as created (and emptied) *)
          (outcome : result unit)                   (* create_db(new, same path, force) *)
          (after : result tables)                   (* content of the path afterwards *)
          (bytes_same : bool)                       (* file bytes unchanged by the second create_db *)
| CReads (gtf : bool)                      (* the database was built by the GTF importer (it has no index on the bin column) *)
         (feats : list row) (calls : list readop) (obs : readobs).

Definition IDK : str := [73;68]%N.
Definition P : str := [112]%N.

Definition tables_of (st : ist) : tables := mkTables (s_rows st) (s_rels st) (s_dups st) (s_auto st).
Definition st_of (t : tables) : ist := mkSt (t_rows t) (t_rels t) (t_dups t) (t_auto t).

Definition is_read (s : stmt) : bool := match s with StWrite _ => false | _ => true end.

Definition verdict (c : case) : Z :=
  match c with
  | CCreate old new force emptied old_tables outcome after bytes_same =>
    match old, new with
    | [], _ | _, [] => V_OUT
    | _, _ =>
      let imp_old := import_gff call_table SCreateUnique [] (SList [KAttr IDK]) old empty_st in
      let imp_new := import_gff call_table SCreateUnique [] (SList [KAttr IDK]) new empty_st in
      match imp_old with
      | Err _ => V_OUT
      | Ok d_old0 =>
        (* delete() of every key removes all rows and all relations (each relation's child is a stored feature); the file, its
           schema, directives, dialect and counters stay - it is still a database and create_db must still refuse it *)
        let d_old := if emptied then mkSt [] [] (s_dups d_old0) (s_auto d_old0) else d_old0 in
        if negb (res_matches false (Ok d_old) old_tables) then V_BAD else
        let '(fs', out) := create_db_fs [(P, d_old)] P force imp_new in
        let out_ok := match out, outcome with Ok _, Ok _ => true | Err _, Err _ => true | _, _ => false end in
        let content_ok := match fs_get P fs', after with
                          | Some d, Ok t => st_matches false d t
                          | _, _ => false
                          end in
        (* refusal leaves the very bytes of the file alone *)
        let bytes_ok := if force then true else bytes_same in
        if out_ok && content_ok && bytes_ok then V_OK else V_BAD
      end
    end
  | CReads gtf feats calls o =>
    match feats with [] => V_OUT | _ =>
    match (if gtf then import_gtf call_table gtf_default SCreateUnique [] default_gtf_spec feats empty_st
           else import_gff call_table SCreateUnique [] (SList [KAttr IDK]) feats empty_st) with
    | Err _ => V_OUT
    | Ok d =>
      (* model: reads leave the disk state as it is *)
      let s := reads (opened d) calls in
      let same := if gtf then st_matches_set else st_matches false in
      if same (m_disk s) (ro_before o) && same (m_disk s) (ro_after o)
         && ro_meta_same o && ro_bytes_same o && forallb is_read (ro_trace o)
      then V_OK else V_BAD
    end
    end
  end.
