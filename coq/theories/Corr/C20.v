(* Corr/C20.v — concurrent create_db runs sharing a temp dir: every output equals the solitary
   output, the temp-file trace is a legal run of the model's directory discipline and follows the
   model's programs, the directory is clean afterwards; concurrent readers see the full content. *)
From GV Require Export Corr.Import Model.Conc.
Open Scope Z_scope.

Record procobs := mkProcObs {
  po_from_string : bool;                   (* input given as text with from_string=True *)
  po_noinfer : bool;                       (* GTF input, disable_infer_genes and disable_infer_transcripts both set *)
  po_exit_ok : bool;                       (* the child finished without an exception *)
  po_result : result tables;               (* its output database *)
  po_solitary : result tables }.           (* the same import run alone with a private temp dir *)

Inductive case :=
| CRun (procs : list procobs)
       (trace : list ev)                   (* temp-dir events of all children in global order *)
       (leftover : list str)               (* files in the shared temp dir when all have finished *)
| CReaders (direct : tables) (seen : list (result tables)).

Definition tables_eqb (a b : tables) : bool :=
  st_matches false (mkSt (t_rows a) (t_rels a) (t_dups a) (t_auto a)) b.

Definition result_same (a b : result tables) : bool :=
  match a, b with Ok x, Ok y => tables_eqb x y | _, _ => false end.

Fixpoint proj (p : nat) (es : list ev) : list bool :=      (* true = create, false = unlink *)
  match es with
  | [] => []
  | ECreate q _ :: r => if Nat.eqb p q then true :: proj p r else proj p r
  | EUnlink q _ :: r => if Nat.eqb p q then false :: proj p r else proj p r
  end.

(* Create/Unlink skeleton of the model's programs *)
Fixpoint skeleton (prog : list act) : list bool :=
  match prog with [] => [] | Create :: r => true :: skeleton r | Unlink :: r => false :: skeleton r | _ :: r => skeleton r end.
Definition prog_of (from_string noinfer : bool) : list act :=
  if noinfer then (if from_string then from_string_noinfer_prog [] else noinfer_prog)
  else if from_string then from_string_prog [] [] else import_prog [].

Fixpoint first_created (p : nat) (es : list ev) : option str :=
  match es with
  | [] => None
  | ECreate q n :: r => if Nat.eqb p q then Some n else first_created p r
  | _ :: r => first_created p r
  end.

Fixpoint indexed {A} (i : nat) (l : list A) : list (nat * A) := match l with [] => [] | x :: r => (i, x) :: indexed (S i) r end.

Definition verdict (c : case) : Z :=
  match c with
  | CRun procs trace leftover =>
    let ip := indexed 0 procs in
    let results_ok := forallb (fun q => po_exit_ok (snd q) && result_same (po_result (snd q)) (po_solitary (snd q))) ip in
    let programs_ok := forallb (fun q => list_eqb Bool.eqb (proj (fst q) trace) (skeleton (prog_of (po_from_string (snd q)) (po_noinfer (snd q))))) ip in
    match replay [] trace with
    | None => V_BAD                                  (* a name created while in use, or removed by somebody else *)
    | Some d =>
      let model_left := sort_strs (map fst d) in
      let dir_ok := lstr_eqb model_left (sort_strs leftover) in
      if negb (results_ok && programs_ok && dir_ok) then V_BAD
      else match leftover with [] => V_OK | _ => V_BAD end
    end
  | CReaders direct seen =>
    if forallb (fun r => match r with Ok t => tables_eqb direct t | Err _ => false end) seen then V_OK else V_BAD
  end.
