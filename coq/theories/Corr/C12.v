(* Corr/C12.v — correspondence for C12: the implementation's bins()/Feature.bin
   results are compared, inside Coq, with the model (= spec, by Properties/C12). *)
From GV Require Export Base.Prelude Model.Bins.
Open Scope Z_scope.

(* canonical form of a set of ints: sorted, maximal runs *)
Fixpoint insert_range (r : Z * Z) (l : list (Z * Z)) : list (Z * Z) :=
  match l with
  | [] => [r]
  | x :: l' => if fst r <=? fst x then r :: l else x :: insert_range r l'
  end.
Definition sort_ranges (l : list (Z * Z)) : list (Z * Z) := fold_right insert_range [] l.
Fixpoint merge_runs (cur : Z * Z) (l : list (Z * Z)) : list (Z * Z) :=
  match l with
  | [] => [cur]
  | x :: l' => if fst x <=? snd cur + 1 then merge_runs (fst cur, Z.max (snd cur) (snd x)) l'
               else cur :: merge_runs x l'
  end.
Definition canon (l : list (Z * Z)) : list (Z * Z) :=
  match sort_ranges (filter (fun r => fst r <=? snd r) l) with
  | [] => []
  | x :: l' => merge_runs x l'
  end.

Definition zz_eqb (a b : Z * Z) : bool := (fst a =? fst b) && (snd a =? snd b).

Definition bres_eqb (a b : bres) : bool :=
  match a, b with
  | RInt x, RInt y => x =? y
  | RSet x, RSet y => list_eqb zz_eqb (canon x) (canon y)
  | RErr, RErr => true
  | _, _ => false
  end.

Inductive case :=
| CBins (f : fmt) (s e : Z) (one : bool) (impl : bres)       (* bins.bins(s, e, fmt, one) *)
| CFeat (s e : option Z) (impl : option Z)                    (* Feature(start=s, end=e).bin *)
| CDict (s e : option Z) (impl : option Z).                   (* helpers._bin_from_dict *)

Definition verdict (c : case) : Z :=
  match c with
  | CBins f s e one impl => if bres_eqb (bins f s e one) impl then V_OK else V_BAD
  | CFeat s e impl => if option_eqb Z.eqb (feature_bin s e) impl then V_OK else V_BAD
  | CDict s e impl => if option_eqb Z.eqb (dict_bin s e) impl then V_OK else V_BAD
  end.
