(* Corr/C07.v — parse -> print on lines of the grammar. *)
From GV Require Export Corr.Parser.
Open Scope N_scope.

Inductive case :=
| CLine (st : style) (seqid source ftype : str) (s e : option Z) (score strand frame : str)
        (a : attrs) (extras : list str)
        (line : str)                       (* rendered by the harness's own renderer *)
        (impl : result fobs)               (* feature_from_line(line) *)
        (spaced : option (str * result fobs)).  (* space-separated rendering, strict=False *)

Definition no_blank (c : str) : bool := forallb (fun x => negb (is_space x)) c.
(* strict=False takes "a multi-line string with a single non-empty line" (docstring): an
   attribute column containing a str.splitlines() boundary is not a single line *)
Definition is_linebreak (c : N) : bool :=
  (c =? 10) || (c =? 11) || (c =? 12) || (c =? 13) || (c =? 28) || (c =? 29) || (c =? 30) || (c =? 133)
  || (c =? 8232) || (c =? 8233).

Definition verdict (c : case) : Z :=
  match c with
  | CLine st seqid source ftype s e score strand frame a extras line impl spaced =>
    let f := F seqid source ftype s e score strand frame a extras (canon_dialect st a) in
    if wf_feature st f then
      (* the harness's renderer, the Gallina writer [render_line] of the theorems and the model's
         printer must agree on the line *)
      let printed_ok := str_eqb (feature_str to_quote f) line && str_eqb (render_line st f) line in
      let model := feature_from_line isword line None true in
      let tie := match model, impl with
                 | Ok m, Ok o => fobs_matches to_quote m o
                 | Err _, Err _ => true
                 | _, _ => false
                 end in
      let spec := match impl with
                  | Ok o => fobs_matches to_quote f o && str_eqb (o_str o) line
                  | Err _ => false
                  end in
      let spaced_ok :=
        match spaced with
        | None => true
        | Some (sline, simpl) =>
          if forallb no_blank (feature_cols f) && match extras with [] => true | _ => false end
             && forallb (fun x => negb (is_linebreak x)) (reconstruct to_quote a (canon_dialect st a) true false) then
            match simpl, feature_from_line_nonstrict isword sline None true with
            | Ok o, Ok m => fobs_matches to_quote m o && fobs_matches to_quote f o
            | _, _ => false
            end
          else true
        end in
      if printed_ok && tie && spec && spaced_ok then V_OK else V_BAD
    else V_OUT
  end.
