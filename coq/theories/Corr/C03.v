(* Corr/C03.v — GTF import: derived gene/transcript extents and the three-level hierarchy of the
   implementation against the model of the GTF importer and against the declarative spec. *)
From GV Require Export Corr.Import Model.GtfSpec.
Open Scope Z_scope.

Inductive case := Case (g : gtfcfg) (strat : strategy)
                       (extra : list (str * list idkey))     (* further id_spec entries, e.g. the subfeature type keyed on exon_id *)
                       (feats : list row)
                       (feats2 : list row)    (* [] or a second batch, about other genes and transcripts, imported through update() on the same in-memory database *)
                       (impl : result tables).

Definition keys_of (k : str) (l : list row) : list str :=
  dedup_strs (flat_map (fun f => match first_val k f with Some v => [v] | None => [] end) l).

Definition in_domain (g : gtfcfg) (feats : list row) : bool :=
  match feats with [] => false | _ => true end &&
  forallb (gtf_line_ok g) feats &&
  (* explicit ids are unique *)
  (let ex := flat_map (fun f => match explicit_id g f with Some i => [i] | None => [] end) feats in
   Nat.eqb (length (dedup_strs ex)) (length ex)) &&
  (* one seqid/strand per transcript and per gene; ids of the two kinds are distinct (a transcript may occur under several genes) *)
  forallb (fun t => all_same (map r_seqid (subs_of g (g_tkey g) t feats)) && all_same (map r_strand (subs_of g (g_tkey g) t feats))
                    )
          (keys_of (g_tkey g) feats) &&
  forallb (fun gn => all_same (map r_seqid (subs_of g (g_gkey g) gn feats)) && all_same (map r_strand (subs_of g (g_gkey g) gn feats))
                     && negb (mem_str gn (keys_of (g_tkey g) feats)))
          (keys_of (g_gkey g) feats) &&
  negb (is_field_form (g_tkey g)) && negb (is_field_form (g_gkey g)) && negb (str_eqb (g_tkey g) (g_gkey g))
  && negb (str_eqb (g_sub g) GENE) && negb (str_eqb (g_sub g) TRANSCRIPT).

(* ---- the property, checked directly on what the implementation stored ---- *)
Definition has_explicit (g : gtfcfg) (feats : list row) (i : str) : bool :=
  existsb (fun f => match explicit_id g f with Some x => str_eqb x i | None => false end) feats.

Definition derived_ok (g : gtfcfg) (feats : list row) (t : tables) (key : str) (ft : str) (disabled : bool) (v : str) : bool :=
  match expected_extent g key v feats with
  | None => true                                           (* owns no subfeature: nothing is promised *)
  | Some (s, e, strand, seqid) =>
      let found := filter (fun r => str_eqb (r_id r) v) (t_rows t) in
      if has_explicit g feats v then Nat.eqb (length found) 1      (* the explicit line stays the single feature *)
      else if disabled then Nat.eqb (length found) 0
      else match found with
           | [r] => str_eqb (r_ftype r) ft && ozeqb (r_start r) (Some s) && ozeqb (r_end r) (Some e)
                    && str_eqb (r_seqid r) seqid && str_eqb (r_strand r) strand
           | _ => false
           end
  end.

Fixpoint zip_rel (g : gtfcfg) (feats : list row) (rows : list row) : list rel :=
  match feats, rows with
  | f :: fs, r :: rs => line_relations g f (r_id r) ++ zip_rel g fs rs
  | _, _ => []
  end.

(* F21: a gene all of whose subfeatures lack a transcript id is reached through no (transcript, gene) pair *)
Definition has_pair (g : gtfcfg) (feats : list row) (gn : str) : bool :=
  existsb (fun f => is_sub g f && match first_val (g_tkey g) f, first_val (g_gkey g) f with
                                  | Some _, Some x => str_eqb x gn | _, _ => false end) feats.
Definition orphan_gene (g : gtfcfg) (feats : list row) (gn : str) : bool :=
  match expected_extent g (g_gkey g) gn feats with Some _ => true | None => false end
  && negb (has_pair g feats gn) && negb (has_explicit g feats gn) && negb (g_no_genes g).
Definition f21_class (g : gtfcfg) (feats : list row) : bool :=
  existsb (orphan_gene g feats) (keys_of (g_gkey g) (filter (is_sub g) feats)).

Definition spec_ok (lenient : bool) (g : gtfcfg) (feats : list row) (skip gap : nat) (t : tables) : bool :=
  forallb (derived_ok g feats t (g_tkey g) TRANSCRIPT (g_no_transcripts g)) (keys_of (g_tkey g) (filter (is_sub g) feats))
  && forallb (fun gn => if lenient && orphan_gene g feats gn
                        then Nat.eqb (length (filter (fun r => str_eqb (r_id r) gn) (t_rows t))) 0
                        else derived_ok g feats t (g_gkey g) GENE (g_no_genes g) gn)
             (keys_of (g_gkey g) (filter (is_sub g) feats))
  (* line i <-> the row stored for it: the i-th row, or - for the lines of a second batch - the rows after everything the
     first import left ([skip] = number of lines of the first batch, [gap] = number of rows it derived) *)
  && rels_seteq (zip_rel g feats (firstn skip (t_rows t) ++ skipn (skip + gap) (t_rows t))) (t_rels t)
  (* never its own parent or child *)
  && forallb (fun x => negb (str_eqb (rel_parent x) (rel_child x))) (t_rels t).

Definition disjoint_ids (g : gtfcfg) (a b : list row) : bool :=
  let ids := fun l => keys_of (g_tkey g) l ++ keys_of (g_gkey g) l in
  negb (existsb (fun x => mem_str x (ids b)) (ids a)).

Definition verdict (c : case) : Z :=
  match c with
  | Case g strat extra feats feats2 impl =>
    if in_domain g (feats ++ feats2) && (match feats2 with [] => true | _ => disjoint_ids g feats feats2 end) then
      let spec := match gtf_spec g with SDict d => SDict (d ++ extra) | x => x end in
      let m1 := import_gtf call_table g strat [] spec feats empty_st in
      let m := match m1, feats2 with
               | Ok st1, _ :: _ => import_gtf call_table g strat [] spec feats2 st1
               | r, _ => r
               end in
      let gap := match m1, feats2 with Ok st1, _ :: _ => (length (s_rows st1) - length feats)%nat | _, _ => O end in
      let all := feats ++ feats2 in
      match m, impl with
      | Ok st, Ok t =>
          if st_matches_set st t then
            if spec_ok false g all (length feats) gap t then (if f21_class g all then V_FIXED else V_OK)
            else if f21_class g all && spec_ok true g all (length feats) gap t then V_KNOWN 21 else V_BAD
          else V_BAD
      | Err EOther, _ => V_OUT
      | Err e, Err e' => if err_eqb e e' then V_OK else V_BAD
      | _, _ => V_BAD
      end
    else V_OUT
  end.
