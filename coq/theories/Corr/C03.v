(* Corr/C03.v — GTF import: derived gene/transcript extents and the three-level hierarchy of the
   implementation against the model of the GTF importer and against the declarative spec. *)
From GV Require Export Corr.Import Model.GtfSpec.
Open Scope Z_scope.

Inductive case := Case (g : gtfcfg) (strat : strategy)
                       (extra : list (str * list idkey))     (* further id_spec entries, e.g. the subfeature type keyed on exon_id *)
                       (feats : list row) (impl : result tables).

Definition keys_of (k : str) (l : list row) : list str :=
  dedup_strs (flat_map (fun f => match first_val k f with Some v => [v] | None => [] end) l).

Definition in_domain (g : gtfcfg) (feats : list row) : bool :=
  match feats with [] => false | _ => true end &&
  forallb (gtf_line_ok g) feats &&
  (* explicit ids are unique *)
  (let ex := flat_map (fun f => match explicit_id g f with Some i => [i] | None => [] end) feats in
   Nat.eqb (length (dedup_strs ex)) (length ex)) &&
  (* one seqid/strand per transcript and per gene; one gene per transcript; ids of the two kinds are distinct *)
  forallb (fun t => all_same (map r_seqid (subs_of g (g_tkey g) t feats)) && all_same (map r_strand (subs_of g (g_tkey g) t feats))
                    && Nat.eqb (length (keys_of (g_gkey g) (filter (fun f => match first_val (g_tkey g) f with
                                                                          | Some x => str_eqb x t | None => false end) feats))) 1)
          (keys_of (g_tkey g) feats) &&
  forallb (fun gn => all_same (map r_seqid (subs_of g (g_gkey g) gn feats)) && all_same (map r_strand (subs_of g (g_gkey g) gn feats))
                     && negb (mem_str gn (keys_of (g_tkey g) feats)))
          (keys_of (g_gkey g) feats) &&
  negb (is_field_form (g_tkey g)) && negb (is_field_form (g_gkey g)) && negb (str_eqb (g_tkey g) (g_gkey g))
  && negb (str_eqb (g_sub g) GENE) && negb (str_eqb (g_sub g) TRANSCRIPT).

(* ---- the property, checked directly on what the implementation stored ---- *)
Definition has_explicit (g : gtfcfg) (feats : list row) (i : str) : bool :=
  existsb (fun f => match explicit_id g f with Some x => str_eqb x i | None => false end) feats.

Definition derived_ok (g : gtfcfg) (feats : list row) (t : tables) (key : str) (ft : str) (disabled : bool) (v : str) : bool :=
  match expected_extent g key v feats with
  | None => true                                           (* owns no subfeature: nothing is promised *)
  | Some (s, e, strand, seqid) =>
      let found := filter (fun r => str_eqb (r_id r) v) (t_rows t) in
      if has_explicit g feats v then Nat.eqb (length found) 1      (* the explicit line stays the single feature *)
      else if disabled then Nat.eqb (length found) 0
      else match found with
           | [r] => str_eqb (r_ftype r) ft && ozeqb (r_start r) (Some s) && ozeqb (r_end r) (Some e)
                    && str_eqb (r_seqid r) seqid && str_eqb (r_strand r) strand
           | _ => false
           end
  end.

Fixpoint zip_rel (g : gtfcfg) (feats : list row) (rows : list row) : list rel :=
  match feats, rows with
  | f :: fs, r :: rs => line_relations g f (r_id r) ++ zip_rel g fs rs
  | _, _ => []
  end.

(* F21: a gene all of whose subfeatures lack a transcript id is reached through no (transcript, gene) pair *)
Definition has_pair (g : gtfcfg) (feats : list row) (gn : str) : bool :=
  existsb (fun f => is_sub g f && match first_val (g_tkey g) f, first_val (g_gkey g) f with
                                  | Some _, Some x => str_eqb x gn | _, _ => false end) feats.
Definition orphan_gene (g : gtfcfg) (feats : list row) (gn : str) : bool :=
  match expected_extent g (g_gkey g) gn feats with Some _ => true | None => false end
  && negb (has_pair g feats gn) && negb (has_explicit g feats gn) && negb (g_no_genes g).
Definition f21_class (g : gtfcfg) (feats : list row) : bool :=
  existsb (orphan_gene g feats) (keys_of (g_gkey g) (filter (is_sub g) feats)).

Definition spec_ok (lenient : bool) (g : gtfcfg) (feats : list row) (t : tables) : bool :=
  forallb (derived_ok g feats t (g_tkey g) TRANSCRIPT (g_no_transcripts g)) (keys_of (g_tkey g) (filter (is_sub g) feats))
  && forallb (fun gn => if lenient && orphan_gene g feats gn
                        then Nat.eqb (length (filter (fun r => str_eqb (r_id r) gn) (t_rows t))) 0
                        else derived_ok g feats t (g_gkey g) GENE (g_no_genes g) gn)
             (keys_of (g_gkey g) (filter (is_sub g) feats))
  && rels_seteq (zip_rel g feats (t_rows t)) (t_rels t)
  (* never its own parent or child *)
  && forallb (fun x => negb (str_eqb (rel_parent x) (rel_child x))) (t_rels t).

Definition verdict (c : case) : Z :=
  match c with
  | Case g strat extra feats impl =>
    if in_domain g feats then
      let spec := match gtf_spec g with SDict d => SDict (d ++ extra) | x => x end in
      match import_gtf call_table g strat [] spec feats empty_st, impl with
      | Ok st, Ok t =>
          if st_matches_set st t then
            if spec_ok false g feats t then (if f21_class g feats then V_FIXED else V_OK)
            else if f21_class g feats && spec_ok true g feats t then V_KNOWN 21 else V_BAD
          else V_BAD
      | Err EOther, _ => V_OUT
      | Err e, Err e' => if err_eqb e e' then V_OK else V_BAD
      | _, _ => V_BAD
      end
    else V_OUT
  end.
