(* Corr/Import.v — shared correspondence vocabulary for the import properties (C02, C03, C04,
   C05, C10): configuration as the harness passes it, the table content the implementation
   ended up with, comparison with the model up to the orderings the properties leave open. *)
From GV Require Export Base.Prelude Base.PyStr Model.Bins Model.DB Model.Parser Model.Query Model.Import.
Open Scope Z_scope.

Definition Rw (id seqid source ftype : str) (s e : option Z) (score strand frame : str) (a : attrs)
              (extra : list str) (b : option Z) : row :=
  mkRow id seqid source ftype s e score strand frame a extra b.

Definition NAME : str := [78;97;109;101]%N.
Definition BAR : N := 124%N.

(* the id_spec callables the harness knows (props/imp.py CALLS, same numbering) *)
Definition call_table (n : nat) (f : row) : option str :=
  match n with
  | 0%nat => None
  | 1%nat => Some (AUTOINC ++ r_ftype f)
  | 2%nat => match dget NAME (r_attrs f) with Some (v :: _) => Some v | _ => None end
  | 3%nat => Some (AUTOINC ++ r_seqid f ++ [COLON] ++ r_ftype f)
  | 4%nat => Some []
  | 5%nat => Some (r_seqid f ++ [BAR] ++ r_ftype f)
  | _ => None
  end.

Definition attrs_eqb : attrs -> attrs -> bool := list_eqb (pair_eqb str_eqb lstr_eqb).
(* attribute values compared up to order but WITH multiplicity (merged features: list(set(v)) has no defined order, and no repeats) *)
Definition attrs_set_eqb (a b : attrs) : bool :=
  attrs_eqb (map (fun kv => (fst kv, sort_strs (snd kv))) a) (map (fun kv => (fst kv, sort_strs (snd kv))) b).

Definition row_eqb (vals_as_sets : bool) (a b : row) : bool :=
  str_eqb (r_id a) (r_id b) && str_eqb (r_seqid a) (r_seqid b) && str_eqb (r_source a) (r_source b)
  && str_eqb (r_ftype a) (r_ftype b) && ozeqb (r_start a) (r_start b) && ozeqb (r_end a) (r_end b)
  && str_eqb (r_score a) (r_score b) && str_eqb (r_strand a) (r_strand b) && str_eqb (r_frame a) (r_frame b)
  && (if vals_as_sets then attrs_set_eqb (r_attrs a) (r_attrs b) else attrs_eqb (r_attrs a) (r_attrs b))
  && lstr_eqb (r_extra a) (r_extra b) && ozeqb (r_bin a) (r_bin b).

Definition rels_seteq (a b : list rel) : bool :=
  forallb (fun x => has_rel x b) a && forallb (fun x => has_rel x a) b.

Definition pair_str_eqb (a b : str * str) : bool := str_eqb (fst a) (fst b) && str_eqb (snd a) (snd b).
Definition pairs_seteq (a b : list (str * str)) : bool :=
  forallb (fun x => existsb (pair_str_eqb x) b) a && forallb (fun x => existsb (pair_str_eqb x) a) b.
Definition cnt_eqb (a b : str * Z) : bool := str_eqb (fst a) (fst b) && (snd a =? snd b).
Definition counters_seteq (a b : counters) : bool :=
  forallb (fun x => existsb (cnt_eqb x) b) a && forallb (fun x => existsb (cnt_eqb x) a) b.

(* table content read back from the implementation *)
Record tables := mkTables { t_rows : list row; t_rels : list rel; t_dups : list (str * str); t_auto : counters }.
Definition Rl (p c : str) (l : Z) : rel := mkRel p c l.

Definition st_matches (vals_as_sets : bool) (st : ist) (t : tables) : bool :=
  list_eqb (row_eqb vals_as_sets) (s_rows st) (t_rows t) && rels_seteq (s_rels st) (t_rels t)
  && pairs_seteq (s_dups st) (t_dups t) && counters_seteq (s_auto st) (t_auto t).

Definition res_matches (vals_as_sets : bool) (m : result ist) (o : result tables) : bool :=
  match m, o with
  | Ok st, Ok t => st_matches vals_as_sets st t
  | Err e, Err e' => err_eqb e e'
  | _, _ => false
  end.

Fixpoint insert_row (x : row) (l : list row) : list row :=
  match l with [] => [x] | y :: l' => if str_ltb (r_id x) (r_id y) then x :: l else y :: insert_row x l' end.
Definition rows_by_id (l : list row) : list row := fold_right insert_row [] l.

Definition st_matches_set (st : ist) (t : tables) : bool :=
  list_eqb (row_eqb true) (rows_by_id (s_rows st)) (rows_by_id (t_rows t)) && rels_seteq (s_rels st) (t_rels t)
  && pairs_seteq (s_dups st) (t_dups t) && counters_seteq (s_auto st) (t_auto t).


Definition sorted_ids (l : list str) : list str := sort_strs l.
