(* Corr/C05.v — duplicate keys under the five merge strategies: the tables the implementation
   ends with against the model of the IntegrityError dispatch / _do_merge. *)
From GV Require Export Corr.Import.
From GV Require Model.GtfSpec.
Open Scope Z_scope.

Inductive case :=
| Case (strat : strategy) (force : list field) (feats : list row) (impl : result tables)
| CaseGtf (strat : strategy) (force : list field) (feats : list row) (impl : result tables)   (* GTF importer, inference off *)
(* "in create_db and in update alike": the first batch through create_db, the second through FeatureDB.update on the reopened file *)
| Case2 (gtf : bool) (strat : strategy) (force : list field) (feats1 feats2 : list row) (impl : result tables).

Definition IDK : str := [73;68]%N.
Definition id_clean (s : str) : bool := negb (existsb (fun c => N.eqb c 9 || N.eqb c 10 || N.eqb c 13) s).

Definition is_merge (s : strategy) : bool := match s with SMerge => true | _ => false end.

(* "no Parent link is lost or invented": whatever the strategy and the route (create_db, update), the relations table of a
   GFF3 database is the closure of the stored features' own Parent attributes - level 1: (p, id) for every Parent value p of
   the row stored under id; level 2: the compositions of two such links starting at a stored feature; nothing else *)
Definition parent_vals (r : row) : list str := match dget PARENT (r_attrs r) with Some l => l | None => [] end.
Definition rels_spec_ok (t : tables) : bool :=
  let rows := t_rows t in
  let l1 := flat_map (fun r => map (fun p => mkRel p (r_id r) 1) (parent_vals r)) rows in
  let l2 := flat_map (fun r => flat_map (fun y => map (fun z => mkRel (r_id r) (rel_child z) 2)
                                                    (filter (fun z => str_eqb (rel_parent z) (rel_child y)) l1))
                                        (filter (fun y => str_eqb (rel_parent y) (r_id r)) l1)) rows in
  forallb (fun x => existsb (rel_eqb x) (l1 ++ l2)) (t_rels t) && forallb (fun x => existsb (rel_eqb x) (t_rels t)) (l1 ++ l2).
Definition spec_of (o : result tables) : bool := match o with Ok t => rels_spec_ok t | Err _ => true end.

Definition verdict (c : case) : Z :=
  match c with
  | Case strat force feats impl =>
    match feats with [] => V_OUT | _ =>
    let m := import_gff call_table strat force (SList [KAttr IDK]) feats empty_st in
    match m with
    | Err EOther => V_OUT
    | _ =>
      if negb (match m with Ok st => forallb (fun r => id_clean (r_id r)) (s_rows st) | _ => true end) then V_OUT else
      if res_matches (is_merge strat) m impl && spec_of impl then V_OK else V_BAD
    end
    end
  | CaseGtf strat force feats impl =>
    match feats with [] => V_OUT | _ =>
    let g := mkGtf GtfSpec.TRANSCRIPT_ID GtfSpec.GENE_ID [101;120;111;110]%N true true in
    let m := import_gtf call_table g strat force GtfSpec.default_gtf_spec feats empty_st in
    match m with
    | Err EOther => V_OUT
    | _ =>
      if negb (match m with Ok st => forallb (fun r => id_clean (r_id r)) (s_rows st) | _ => true end) then V_OUT else
      if res_matches (is_merge strat) m impl then V_OK else V_BAD
    end
    end
  | Case2 gtf strat force feats1 feats2 impl =>
    match feats1, feats2 with [], _ => V_OUT | _, [] => V_OUT | _, _ =>
    let g := mkGtf GtfSpec.TRANSCRIPT_ID GtfSpec.GENE_ID [101;120;111;110]%N true true in
    let imp := fun fs st => if gtf then import_gtf call_table g strat force GtfSpec.default_gtf_spec fs st
                            else import_gff call_table strat force (SList [KAttr IDK]) fs st in
    match imp feats1 empty_st with
    | Err _ => V_OUT                                   (* the first batch alone is the plain Case *)
    | Ok st1 =>
        let m := imp feats2 st1 in
        match m with
        | Err EOther => V_OUT
        | _ =>
          if negb (match m with Ok st => forallb (fun r => id_clean (r_id r)) (s_rows st) | _ => true end) then V_OUT else
          if res_matches (is_merge strat) m impl && (gtf || spec_of impl) then V_OK else V_BAD
        end
    end
    end
  end.
