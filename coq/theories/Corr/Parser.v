(* Corr/Parser.v — shared correspondence vocabulary for C07/C08/C09: observables of the
   parser/printer as the implementation reports them, equality with the model. *)
From GV Require Export Base.Prelude Base.PyStr Base.Utf8 Base.WordTable Model.DB Model.Parser Model.Grammar.
Open Scope N_scope.

Definition attrs_eqb : attrs -> attrs -> bool := list_eqb (pair_eqb str_eqb lstr_eqb).

Definition dialect_eqb (a b : dialect) : bool :=
  Bool.eqb (d_leading a) (d_leading b) && Bool.eqb (d_trailing a) (d_trailing b)
  && Bool.eqb (d_quoted a) (d_quoted b) && str_eqb (d_fsep a) (d_fsep b) && str_eqb (d_kvsep a) (d_kvsep b)
  && str_eqb (d_mvsep a) (d_mvsep b) && str_eqb (d_fmt a) (d_fmt b) && Bool.eqb (d_repeated a) (d_repeated b)
  && lstr_eqb (d_order a) (d_order b).

Definition ozeqb := option_eqb Z.eqb.

(* what the implementation reports about a parsed Feature *)
Record fobs := mkFobs {
  o_cols : list str;             (* seqid source featuretype score strand frame *)
  o_start : option Z; o_end : option Z;
  o_attrs : attrs; o_extra : list str; o_dialect : dialect; o_str : str }.

Definition feature_cols (f : feature) : list str :=
  [f_seqid f; f_source f; f_ftype f; f_score f; f_strand f; f_frame f].

Definition fobs_matches (tq : str) (f : feature) (o : fobs) : bool :=
  lstr_eqb (feature_cols f) (o_cols o) && ozeqb (f_start f) (o_start o) && ozeqb (f_end f) (o_end o)
  && attrs_eqb (f_attrs f) (o_attrs o) && lstr_eqb (f_extra f) (o_extra o)
  && dialect_eqb (f_dialect f) (o_dialect o) && str_eqb (feature_str tq f) (o_str o).

(* D as a Python dict literal the harness passes: constructor shorthand *)
Definition Dl (lead trail quoted : bool) (fsep kvsep mvsep fmt : str) (rep : bool) (order : list str) : dialect :=
  mkDialect lead trail quoted fsep kvsep mvsep fmt rep order.

Definition F (seqid source ftype : str) (s e : option Z) (score strand frame : str) (a : attrs)
           (extra : list str) (D : dialect) : feature :=
  mkFeature seqid source ftype s e score strand frame a extra D true false.
