(* Corr/C11.v — filters, ordering and counts of the implementation against the model: exact
   membership, sortedness by the requested keys, input order for an unfiltered iteration. *)
From GV Require Export Corr.Import Model.Order.
Open Scope Z_scope.

Inductive query :=
| QOrd (ft : ftfilter) (strand : option str) (ks : list okey) (reverse : bool) (impl : result (list str))
| QCount (ft : option str) (impl : result Z)
| QTypes (impl : result (list str))
| QSeqids (impl : result (list str)).

(* [del]/[qs2]: ids deleted through FeatureDB.delete on the same object after [qs] were answered, and the answers after that *)
Inductive case := Case (rows : list orow) (qs : list query) (del : list str) (qs2 : list query).

Definition OR (r : row) (aj ej : str) (rowid : Z) : orow := mkORow r aj ej rowid.

Fixpoint find_orow (id : str) (l : list orow) : option orow :=
  match l with [] => None | r :: l' => if str_eqb (r_id (o_row r)) id then Some r else find_orow id l' end.

Fixpoint lookup_all (ids : list str) (l : list orow) : option (list orow) :=
  match ids with
  | [] => Some []
  | i :: ids' => match find_orow i l, lookup_all ids' l with Some r, Some rs => Some (r :: rs) | _, _ => None end
  end.

Definition oid (r : orow) : str := r_id (o_row r).

Definition ft_ok (ft : ftfilter) : bool := match ft with FList [] => false | FStr [] => false | _ => true end.

Definition verdict_q (rows : list orow) (q : query) : Z :=
  match q with
  | QOrd ft strand ks reverse impl =>
      if negb (ft_ok ft) || match strand with Some [] => true | _ => false end then V_OUT else
      match impl with
      | Err _ => V_BAD
      | Ok ids =>
          let m := ordered_query ft strand ks reverse rows in
          let members := lstr_eqb (sort_strs ids) (sort_strs (map oid m)) in
          let ordered :=
            match ks with
            | [] => match ft, strand with
                    | FNone, None => lstr_eqb ids (map oid rows)          (* full iteration: input order *)
                    | _, _ => true
                    end
            | _ => match lookup_all ids rows with
                   | Some rs => sortedb (directed ks reverse) rs
                   | None => false
                   end
            end in
          if members && ordered then V_OK else V_BAD
      end
  | QCount ft impl =>
      match impl with Ok n => if n =? count_of_type ft rows then V_OK else V_BAD | Err _ => V_BAD end
  | QTypes impl =>
      match impl with Ok l => if lstr_eqb (sort_strs l) (sort_strs (featuretypes rows)) then V_OK else V_BAD | Err _ => V_BAD end
  | QSeqids impl =>
      match impl with Ok l => if lstr_eqb (sort_strs l) (sort_strs (seqids rows)) then V_OK else V_BAD | Err _ => V_BAD end
  end.

Fixpoint nodup_strs (l : list str) : bool :=
  match l with [] => true | x :: l' => negb (mem_str x l') && nodup_strs l' end.

Definition verdict (c : case) : Z :=
  match c with
  | Case rows qs del qs2 =>
      if negb (nodup_strs (map oid rows)) then V_OUT else
      let rows2 := filter (fun r => negb (mem_str (oid r) del)) rows in
      let vs := map (verdict_q rows) qs ++ map (verdict_q rows2) qs2 in
      if existsb (Z.eqb V_BAD) vs then V_BAD else if existsb (Z.eqb V_OK) vs then V_OK else V_OUT
  end.
