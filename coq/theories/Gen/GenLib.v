(* Gen/GenLib.v — the few combinators the translator's output relies on. *)
From GV Require Import Base.Prelude Model.Bins.
Open Scope Z_scope.

(* control for a Python `for` loop whose body may `return` *)
Inductive ctl (St : Type) := Continue (s : St) | Return (r : bres).
Arguments Continue {St}. Arguments Return {St}.

Fixpoint for_loop {St} (xs : list Z) (st : St) (body : Z -> St -> ctl St) (after : St -> bres) : bres :=
  match xs with
  | [] => after st
  | x :: tl => match body x st with
               | Return r => r
               | Continue st' => for_loop tl st' body after
               end
  end.

(* constant dict with string keys; None = KeyError *)
Fixpoint dict_get (d : list (str * Z)) (k : str) : option Z :=
  match d with
  | [] => None
  | (k', v) :: d' => if str_eqb k k' then Some v else dict_get d' k
  end.

(* the view of a Feature that merge criteria and __len__ use (integer coordinates) *)
Record mfeat := { m_seqid : str; m_strand : str; m_ftype : str; m_start : Z; m_end : Z }.
