(* Model/File.v — create_db seen from C01: the dialect chosen for the file (peek + vote, or the
   supplied one), the second pass that parses every line with that dialect, and what
   all_features() hands back (rows in input order, carrying the database dialect and the
   FeatureDB's keep_order / sort_attribute_values switches).  Ids, merge strategies and relations
   are C04/C05/C02's subject and are not represented here.  Definitions only. *)
From GV Require Import Base.Prelude Base.PyStr Base.Utf8 Base.WordTable Model.DB Model.Parser Model.Dialect.
Open Scope N_scope.

Record icfg := mkCfg { c_checklines : nat; c_supplied : option dialect; c_keep_order : bool; c_sort_values : bool }.

Fixpoint sequence {A} (l : list (result A)) : result (list A) :=
  match l with
  | [] => Ok []
  | Ok a :: r => match sequence r with Ok s => Ok (a :: s) | Err e => Err e end
  | Err e :: _ => Err e
  end.

(* a line as the dialect inspection sees it: parsed with no dialect (inference path) *)
Definition line_voter_of (isw : N -> bool) (line : str) : result voter :=
  match feature_from_line isw line None false with
  | Ok f => Ok (mkVoter (map fst (f_attrs f)) (f_dialect f))
  | Err e => Err e
  end.

Definition file_dialect (isw : N -> bool) (cfg : icfg) (lines : list str) : result dialect :=
  match c_supplied cfg with
  | Some D => Ok D
  | None => match sequence (map (line_voter_of isw) (firstn (Datatypes.S (c_checklines cfg)) lines)) with
            | Ok vs => Ok (choose_dialect vs)
            | Err e => Err e
            end
  end.

(* the row as _feature_returner rebuilds it *)
Definition stored_feature (cfg : icfg) (D : dialect) (f : feature) : feature :=
  mkFeature (f_seqid f) (f_source f) (f_ftype f) (f_start f) (f_end f) (f_score f) (f_strand f) (f_frame f)
            (f_attrs f) (f_extra f) D (c_keep_order cfg) (c_sort_values cfg).

Definition import_model (isw : N -> bool) (cfg : icfg) (lines : list str) : result (dialect * list feature) :=
  match file_dialect isw cfg lines with
  | Err e => Err e
  | Ok D => match sequence (map (fun l => feature_from_line isw l (Some D) false) lines) with
            | Ok fs => Ok (D, map (stored_feature cfg D) fs)
            | Err e => Err e
            end
  end.

Definition printed (tq : str) (fs : list feature) : list str := map (feature_str tq) fs.

(* ---- the same annotation handed over as ready-made Feature objects (C13) ---- *)
Definition voter_of_feature (f : feature) : voter := mkVoter (map fst (f_attrs f)) (f_dialect f).

(* DataIterator over ready-made Feature objects (a list, or a one-shot iterator whose peeked items are chained back): the
   dialect is the supplied one, or the vote over the first checklines + 1 objects' own dialects; every object is yielded
   once, in order, carrying that dialect (and, out of a database, its switches) *)
Definition objects_model (cfg : icfg) (fs : list feature) : dialect * list feature :=
  let D := data_iterator_dialect (c_supplied cfg) (c_checklines cfg) (map voter_of_feature fs) in
  (D, map (stored_feature cfg D) fs).

