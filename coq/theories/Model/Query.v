(* Model/Query.v — FeatureDB.region and helpers.make_query (featuretype / limit / strand part),
   following the structure of the Python code.  Definitions only. *)
From GV Require Import Base.Prelude Base.PyStr Model.Bins Model.DB.
Open Scope Z_scope.

(* canonical form of a set of ints given as ranges: sorted maximal runs (also used by Corr) *)
Fixpoint insert_range (r : Z * Z) (l : list (Z * Z)) : list (Z * Z) :=
  match l with
  | [] => [r]
  | x :: l' => if fst r <=? fst x then r :: l else x :: insert_range r l'
  end.
Definition sort_ranges (l : list (Z * Z)) : list (Z * Z) := fold_right insert_range [] l.
Fixpoint merge_runs (cur : Z * Z) (l : list (Z * Z)) : list (Z * Z) :=
  match l with
  | [] => [cur]
  | x :: l' => if fst x <=? snd cur + 1 then merge_runs (fst cur, Z.max (snd cur) (snd x)) l'
               else cur :: merge_runs x l'
  end.
Definition canon (l : list (Z * Z)) : list (Z * Z) :=
  match sort_ranges (filter (fun r => fst r <=? snd r) l) with
  | [] => []
  | x :: l' => merge_runs x l'
  end.
Definition set_size (l : list (Z * Z)) : Z :=
  fold_right (fun r acc => snd r - fst r + 1 + acc) 0 (canon l).

(* featuretype argument: None | "str" | collection *)
Inductive ftfilter := FNone | FStr (s : str) | FList (l : list str).

(* ---- FeatureDB.region -------------------------------------------------------------- *)
Record region_args := mkRegion {
  ra_seqid : option str; ra_start : option Z; ra_end : option Z;
  ra_strand : option str; ra_ftype : ftfilter; ra_cw : bool }.

(* Python truthiness of an int-or-None *)
Definition truthy (z : option Z) : bool := match z with Some v => negb (v =? 0) | None => false end.

Definition three_disjunct (rs re : Z) (r : row) : bool :=
     (val_cmp Z.leb rs (r_start r) && val_cmp Z.geb re (r_start r))
  || (val_cmp Z.geb rs (r_start r) && val_cmp Z.leb re (r_end r))
  || (val_cmp Z.leb rs (r_end r) && val_cmp Z.geb re (r_end r)).

Definition bin_clause_ok (rs : list (Z * Z)) (r : row) : bool :=
  match r_bin r with Some b => in_ranges b rs | None => false end.

(* the bin clause region() adds: only for completely_within with both bounds, inside the
   binning range (strictly below 2^29), and fewer than 900 bins *)
Definition region_bin_set (a : region_args) : option (list (Z * Z)) :=
  match ra_start a, ra_end a with
  | Some s, Some e =>
      if ra_cw a && (s <? MAXC) && (e <? MAXC) then
        match bins Gff s e false with
        | RSet rs => if set_size rs <? 900 then Some rs else None
        | _ => None
        end
      else None
  | _, _ => None
  end.

Definition ft_region (f : ftfilter) (r : row) : result bool :=
  match f with
  | FNone => Ok true
  | FStr s => Ok (str_eqb (r_ftype r) s)
  | FList [] => Err EOther                       (* "AND ()" is an SQL syntax error *)
  | FList l => Ok (mem_str (r_ftype r) l)
  end.

Definition region_row (a : region_args) (r : row) : bool :=
  let cw := ra_cw a in
  (* non-within: `end, start = start, end` *)
  let start := if cw then ra_start a else ra_end a in
  let end_ := if cw then ra_end a else ra_start a in
  let seq_ok := match ra_seqid a with Some s => str_eqb (r_seqid r) s | None => true end in
  let pos_ok :=
    if truthy start && truthy end_ && negb cw then
      match start, end_ with Some s, Some e => three_disjunct s e r | _, _ => true end
    else
      (match start with
       | Some s => if truthy start then col_cmp (if cw then Z.geb else Z.ltb) (r_start r) s else true
       | None => true end)
      &&
      (match end_ with
       | Some e => if truthy end_ then col_cmp (if cw then Z.leb else Z.gtb) (r_end r) e else true
       | None => true end) in
  let bin_ok := match region_bin_set a with Some rs => bin_clause_ok rs r | None => true end in
  let str_ok := match ra_strand a with Some s => str_eqb (r_strand r) s | None => true end in
  seq_ok && pos_ok && bin_ok && str_ok.

(* position clause empty ("WHERE  AND ...") is an SQL syntax error *)
Definition region_has_position (a : region_args) : bool :=
  match ra_seqid a with Some _ => true | None => truthy (ra_start a) || truthy (ra_end a) end.

Definition region (d : db) (a : region_args) : result (list row) :=
  if negb (region_has_position a) then Err EOther else
  match ft_region (ra_ftype a) (mkRow [] [] [] [] None None [] [] [] [] [] None) with
  | Err e => Err e
  | Ok _ =>
    Ok (filter (fun r => region_row a r &&
                         match ft_region (ra_ftype a) r with Ok b => b | Err _ => false end) (d_rows d))
  end.

(* the argument forms of region(): string "seqid[:start-end[:strand]]", Feature, tuple.
   [strand]/[ftype]/[cw] are the separate keyword arguments. *)
Inductive region_form :=
| RString (s : str)
| RFeature (seqid : str) (start stop : option Z) (fstrand : str)
| RTuple (seqid : str) (start stop : option Z)
| RKw (seqid : option str) (start stop : option Z).

Definition colon : str := [58%N].
Definition dash : str := [45%N].

Definition region_of_form (f : region_form) (strand : option str) (ft : ftfilter) (cw : bool)
  : result region_args :=
  match f with
  | RKw seqid s e => Ok (mkRegion seqid s e strand ft cw)
  | RTuple seqid s e => Ok (mkRegion (Some seqid) s e strand ft cw)
  | RFeature seqid s e _fstrand => Ok (mkRegion (Some seqid) s e strand ft cw)   (* the feature's strand is ignored *)
  | RString str_ =>
      match split colon str_ with
      | [seqid] => Ok (mkRegion (Some seqid) None None strand ft cw)
      | seqid :: coords :: rest =>
          let strand' := match rest with [st] => Some st | _ => strand end in
          match split dash coords with
          | [a; b] =>
              match int_of_str a, int_of_str b with
              | Some s, Some e => Ok (mkRegion (Some seqid) (Some s) (Some e) strand' ft cw)
              | _, _ => Err EValue
              end
          | _ => Err EValue
          end
      | [] => Err EOther
      end
  end.

(* ---- helpers.make_query: featuretype, limit and strand clauses ------------------------ *)
Definition ft_query (f : ftfilter) (r : row) : bool :=
  match f with
  | FNone => true
  | FStr s => match s with [] => true | _ => str_eqb (r_ftype r) s end   (* `if featuretype:` *)
  | FList [] => true
  | FList l => mem_str (r_ftype r) l
  end.

Record limit_args := mkLimit { la_seqid : str; la_start : Z; la_end : Z }.

(* bin clause of make_query: fewer than 900 bins and the bounds inside the binning range *)
Definition limit_bin_set (l : limit_args) : option (list (Z * Z)) :=
  match bins Gff (la_start l) (la_end l) false with
  | RSet rs => if (set_size rs <? 900) && (1 <=? la_start l) && (la_end l <? MAXC) then Some rs else None
  | _ => None
  end.

Definition limit_row (l : limit_args) (cw : bool) (r : row) : bool :=
  str_eqb (r_seqid r) (la_seqid l) &&
  (if cw then col_cmp Z.geb (r_start r) (la_start l) && col_cmp Z.leb (r_end r) (la_end l)
   else col_cmp Z.leb (r_start r) (la_end l) && col_cmp Z.geb (r_end r) (la_start l)) &&
  match limit_bin_set l with Some rs => bin_clause_ok rs r | None => true end.

Definition strand_query (s : option str) (r : row) : bool :=
  match s with
  | Some [] => true | None => true                  (* `if strand:` *)
  | Some st => str_eqb (r_strand r) st
  end.

Inductive limit_form := LNone | LTuple (l : limit_args) | LString (s : str).

Definition limit_of_form (f : limit_form) : result (option limit_args) :=
  match f with
  | LNone => Ok None
  | LTuple l => Ok (Some l)
  | LString s =>
      match s with [] => Ok None | _ =>               (* `if limit:` *)
      match split colon s with
      | [seqid; ss] =>
          match split dash ss with
          | [a; b] => match int_of_str a, int_of_str b with
                      | Some x, Some y => Ok (Some (mkLimit seqid x y))
                      | _, _ => Err EValue end
          | _ => Err EValue
          end
      | _ => Err EValue
      end end
  end.

(* rows selected by the featuretype/limit/strand part of a make_query() query *)
Definition query_row (ft : ftfilter) (lim : option limit_args) (cw : bool) (strand : option str) (r : row) : bool :=
  ft_query ft r && match lim with Some l => limit_row l cw r | None => true end && strand_query strand r.

(* FeatureDB._relation: features joined to the relations table *)
Inductive reldir := Children | Parents.

Definition related (d : db) (dir : reldir) (id : str) (level : option Z) (r : row) : bool :=
  existsb (fun x =>
             match dir with
             | Children => str_eqb (rel_parent x) id && str_eqb (rel_child x) (r_id r)
             | Parents => str_eqb (rel_child x) id && str_eqb (rel_parent x) (r_id r)
             end && match level with Some l => rel_level x =? l | None => true end) (d_rels d).

Definition all_features (d : db) ft lim cw strand : list row :=
  filter (query_row ft lim cw strand) (d_rows d).

(* SELECT DISTINCT over full rows; ids are unique, so each matching row appears once *)
Definition relation (d : db) (dir : reldir) (id : str) (level : option Z) ft lim cw : list row :=
  filter (fun r => related d dir id level r && query_row ft lim cw None r) (d_rows d).
