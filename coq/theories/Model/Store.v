(* Model/Store.v — database files on a path (C19): create_db refuses an existing database unless
   force=True, force=True starts from nothing; read-style methods never change the file (merge()
   only draws ids from the open object's in-memory counters).  Definitions only. *)
From GV Require Import Base.Prelude Base.PyStr Model.Bins Model.DB Model.Parser Model.Import Model.Machine.
Open Scope Z_scope.

(* the file system, as far as gffutils databases are concerned: path -> committed content *)
Definition fsys := list (str * ist).

Fixpoint fs_get (p : str) (fs : fsys) : option ist :=
  match fs with [] => None | (q, d) :: r => if str_eqb p q then Some d else fs_get p r end.
Fixpoint fs_set (p : str) (d : ist) (fs : fsys) : fsys :=
  match fs with
  | [] => [(p, d)]
  | (q, d') :: r => if str_eqb p q then (q, d) :: r else (q, d') :: fs_set p d r
  end.

Definition empty_db : ist := mkSt [] [] [] [].

(* create_db(data, dbfn=p, force=...): [imp] is what the importer makes of the input starting from
   empty tables (Model/Import.v).  force unlinks first; otherwise _init_tables runs the schema
   script on the existing database and fails on the first CREATE TABLE, before any row is written.
   A failing import of a fresh file leaves the (committed) empty schema behind. *)
Definition create_db_fs (fs : fsys) (p : str) (force : bool) (imp : result ist) : fsys * result unit :=
  match fs_get p fs, force with
  | Some _, false => (fs, Err EOther)            (* sqlite3.OperationalError: table features already exists *)
  | _, _ => match imp with
            | Ok d => (fs_set p d fs, Ok tt)
            | Err e => (fs_set p empty_db fs, Err e)
            end
  end.

(* read-style calls: look-up, iteration, children, parents, region, interfeatures, create_introns,
   children_bp, bed12, counts are functions of the content; merge() (and children_bp(merge=True),
   which calls it) additionally increments in-memory counters for the ids of the features it makes up *)
Inductive readop :=
| RPure
| RMerge (bases : list str)
| RFailedWrite.   (* a write call (delete, add_relation) that raises before its commit: the statements it ran stay in the
                     connection's open transaction, nothing of them is on disk, and nothing after it may put them there *)

Definition read_step (s : mstate) (r : readop) : mstate :=
  match r with
  | RPure => s
  | RFailedWrite => s
  | RMerge bs => mkM (m_disk s) (fold_left (fun a b => snd (auto_incr b a)) bs (m_mem s)) (m_bak s)
  end.

Definition reads (s : mstate) (rs : list readop) : mstate := fold_left read_step rs s.
