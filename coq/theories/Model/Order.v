(* Model/Order.v — ORDER BY as helpers.make_query builds it: sort keys over the features table,
   SQLite's value ordering (NULL < INTEGER < TEXT, text by code point), one ASC/DESC suffix that
   binds to the last key only; featuretype/strand filters; counts and DISTINCT lists.
   Definitions only. *)
From GV Require Import Base.Prelude Base.PyStr Model.Bins Model.DB Model.Parser Model.Query.
Open Scope Z_scope.

Inductive cval := CNull | CInt (z : Z) | CText (s : str).

Fixpoint str_cmp (a b : str) : comparison :=
  match a, b with
  | [], [] => Eq
  | [], _ :: _ => Lt
  | _ :: _, [] => Gt
  | x :: a', y :: b' => match N.compare x y with Eq => str_cmp a' b' | c => c end
  end.

Definition cval_cmp (a b : cval) : comparison :=
  match a, b with
  | CNull, CNull => Eq
  | CNull, _ => Lt
  | _, CNull => Gt
  | CInt x, CInt y => Z.compare x y
  | CInt _, CText _ => Lt
  | CText _, CInt _ => Gt
  | CText x, CText y => str_cmp x y
  end.

Inductive okey := KSeqid | KSource | KFtype | KStart | KEnd | KScore | KStrand | KFrame | KAttributes | KExtra
                | KFileOrder | KLength.

(* a stored row with the two JSON text columns as stored and its rowid *)
Record orow := mkORow { o_row : row; o_ajson : str; o_ejson : str; o_rowid : Z }.

Definition oint (z : option Z) : cval := match z with Some v => CInt v | None => CNull end.

Definition key_val (k : okey) (r : orow) : cval :=
  match k with
  | KSeqid => CText (r_seqid (o_row r)) | KSource => CText (r_source (o_row r)) | KFtype => CText (r_ftype (o_row r))
  | KStart => oint (r_start (o_row r)) | KEnd => oint (r_end (o_row r))
  | KScore => CText (r_score (o_row r)) | KStrand => CText (r_strand (o_row r)) | KFrame => CText (r_frame (o_row r))
  | KAttributes => CText (o_ajson r) | KExtra => CText (o_ejson r)
  | KFileOrder => CInt (o_rowid r)
  | KLength => match r_start (o_row r), r_end (o_row r) with Some s, Some e => CInt (e - s) | _, _ => CNull end
  end.

(* keys with their direction: [true] = DESC *)
Fixpoint lex_cmp (keys : list (okey * bool)) (a b : orow) : comparison :=
  match keys with
  | [] => Eq
  | (k, desc) :: ks =>
      match (if desc then cval_cmp (key_val k b) (key_val k a) else cval_cmp (key_val k a) (key_val k b)) with
      | Eq => lex_cmp ks a b
      | c => c
      end
  end.

(* "ORDER BY k1,k2,...,kn DESC": the suffix applies to kn only *)
Fixpoint directed (ks : list okey) (reverse : bool) : list (okey * bool) :=
  match ks with
  | [] => []
  | [k] => [(k, reverse)]
  | k :: ks' => (k, false) :: directed ks' reverse
  end.

Definition le_by (keys : list (okey * bool)) (a b : orow) : bool :=
  match lex_cmp keys a b with Gt => false | _ => true end.

Fixpoint insert_sorted (keys : list (okey * bool)) (x : orow) (l : list orow) : list orow :=
  match l with
  | [] => [x]
  | y :: l' => if le_by keys x y then x :: l else y :: insert_sorted keys x l'
  end.
Definition sort_rows (keys : list (okey * bool)) (l : list orow) : list orow := fold_right (insert_sorted keys) [] l.

Fixpoint sortedb (keys : list (okey * bool)) (l : list orow) : bool :=
  match l with
  | a :: ((b :: _) as l') => le_by keys a b && sortedb keys l'
  | _ => true
  end.

(* the rows a featuretype/strand-filtered query selects *)
Definition selected (ft : ftfilter) (strand : option str) (l : list orow) : list orow :=
  filter (fun r => ft_query ft (o_row r) && strand_query strand (o_row r)) l.

(* all_features / features_of_type with order_by and reverse *)
Definition ordered_query (ft : ftfilter) (strand : option str) (ks : list okey) (reverse : bool) (l : list orow) : list orow :=
  match ks with
  | [] => selected ft strand l
  | _ => sort_rows (directed ks reverse) (selected ft strand l)
  end.

Definition count_of_type (ft : option str) (l : list orow) : Z :=
  Z.of_nat (length (filter (fun r => match ft with Some t => str_eqb (r_ftype (o_row r)) t | None => true end) l)).

Fixpoint distinct (l : list str) : list str :=
  match l with [] => [] | x :: l' => x :: filter (fun y => negb (str_eqb x y)) (distinct l') end.
Definition featuretypes (l : list orow) : list str := distinct (map (fun r => r_ftype (o_row r)) l).
Definition seqids (l : list orow) : list str := distinct (map (fun r => r_seqid (o_row r)) l).
