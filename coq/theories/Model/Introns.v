(* Model/Introns.v — create_introns / create_splice_sites over a database state: which features are the "transcripts"
   (first-level children of every grandparent_featuretype feature, or every parent_featuretype feature), which are
   their exons (first-level children of the exon type, ORDER BY start), and interfeatures applied to each.
   Definitions only. *)
From GV Require Import Base.Prelude Base.PyStr Model.Bins Model.DB Model.Parser Model.Import Model.Query Model.Order Model.Inter.
Open Scope Z_scope.

Fixpoint collect {A} (l : list (result (list A))) : result (list A) :=
  match l with
  | [] => Ok []
  | Ok x :: l' => match collect l' with Ok r => Ok (x ++ r) | Err e => Err e end
  | Err e :: _ => Err e
  end.

Definition of_type (ft : str) (st : ist) : list row := filter (fun r => str_eqb (r_ftype r) ft) (s_rows st).
(* children(x, level=1): the stored features related to x at level 1 (each once: the relations table has a primary key) *)
Definition children1 (st : ist) (pid : str) : list row :=
  filter (fun r => has_rel (mkRel pid (r_id r) 1) (s_rels st)) (s_rows st).
(* ORDER BY start *)
Definition by_start (l : list row) : list row :=
  map o_row (sort_rows (directed [KStart] false) (map (fun r => mkORow r [] [] 0) l)).
Definition exons_of (st : ist) (exon_ft : str) (t : row) : list row :=
  by_start (filter (fun r => str_eqb (r_ftype r) exon_ft) (children1 st (r_id t))).

Inductive via := ViaGrandparent (ft : str) | ViaParent (ft : str).
Definition transcripts (st : ist) (v : via) : list row :=
  match v with
  | ViaGrandparent g => flat_map (fun x => children1 st (r_id x)) (of_type g st)
  | ViaParent p => of_type p st
  end.

Definition create_introns (st : ist) (v : via) (exon_ft : str) (c : icfg) : result (list row) :=
  collect (map (fun t => interfeatures c (exons_of st exon_ft t)) (transcripts st v)).

(* both sides of every transcript, all left sites first *)
Definition create_splice_sites (st : ist) (v : via) (exon_ft : str) (merge numeric : bool) : result (list row) :=
  collect (map (fun t => splice_side true (r_strand t) merge numeric (exons_of st exon_ft t)) (transcripts st v)
           ++ map (fun t => splice_side false (r_strand t) merge numeric (exons_of st exon_ft t)) (transcripts st v)).

(* ---- vocabulary of the statements ---- *)
(* ascending start as SQLite orders the column (NULL first) *)
Definition start_le (a b : row) : Prop := cval_cmp (oint (r_start a)) (oint (r_start b)) <> Gt.

(* exons on one seqid, each separated from the next by at least one base *)
Fixpoint separated (fs : list row) : Prop :=
  match fs with
  | a :: ((b :: _) as l) =>
      r_seqid a = r_seqid b /\ (exists e s, r_end a = Some e /\ r_start b = Some s /\ e + 1 < s) /\ separated l
  | _ => True
  end.

