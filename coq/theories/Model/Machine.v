(* Model/Machine.v — FeatureDB as a state machine over a database file (C10, C19): update (which
   re-uses the GFF3 importer on the open database with the live in-memory counters), delete,
   add_relation, close + reopen, and the '.bak' copy.  Follows interface.py update/delete/
   add_relation and create.py _populate_from_lines/_update_relations/_finalize.  Definitions only. *)
From GV Require Import Base.Prelude Base.PyStr Model.Bins Model.DB Model.Parser Model.Import Model.GtfSpec.
Open Scope Z_scope.

(* update() routes by the dialect stored in the database: fixed for the life of the file *)
Inductive dbkind := KGff | KGtf.

(* create_db / update defaults of the GTF importer: transcript_id / gene_id, subfeature exon, inference on *)
Definition gtf_default : gtfcfg := mkGtf TRANSCRIPT_ID GENE_ID [101;120;111;110]%N false false.

Section Machine.
  Variable call : nat -> row -> option str.
  Variable kind : dbkind.

  (* one feature through the importer that update() picks, and the importer's _update_relations *)
  Definition step_imp (strat : strategy) (spec : idspec) (st : ist) (f : row) : result ist :=
    match kind with
    | KGff => step_gff call strat [] spec st f
    | KGtf => step_gtf call gtf_default strat [] spec st f
    end.
  Definition rel_imp (spec : idspec) (st : ist) : result ist :=
    match kind with
    | KGff => update_relations_gff st
    | KGtf => update_relations_gtf call gtf_default [] spec st
    end.

  (* m_disk: committed content of the file (s_auto = the autoincrements table);
     m_mem : FeatureDB._autoincrements of the open object; m_bak : content of <dbfn>.bak *)
  Record mstate := mkM { m_disk : ist; m_mem : counters; m_bak : option ist }.

  Inductive op :=
  | OpUpdate (fs : list row) (strat : strategy) (spec : idspec)
             (window : nat)                 (* checklines: the DataIterator peeks window+1 items *)
             (fail_at : option nat)         (* Some k: the feature source raises after yielding k items *)
             (backup : bool)
  | OpDelete (ids : list str) (backup : bool)
  | OpAddRel (p c : str) (l : Z)
             (retype : bool)                (* child_func sets the child's featuretype to "retyped" and the row is rewritten *)
  | OpReopen.

  (* counters reached when one step fails: _id_handler has already drawn from the counter when the
     INSERT fails *)
  Definition auto_after_failed_step (spec : idspec) (st : ist) (f : row) : counters :=
    match id_handler call spec f (s_auto st) with Ok (_, a) => a | Err _ => s_auto st end.

  Fixpoint run_track (strat : strategy) (spec : idspec) (fs : list row) (st : ist) : result ist * counters :=
    match fs with
    | [] => (Ok st, s_auto st)
    | f :: fs' => match step_imp strat spec st f with
                  | Ok st' => run_track strat spec fs' st'
                  | Err e => (Err e, auto_after_failed_step spec st f)
                  end
    end.

  (* _finalize: INSERT OR REPLACE every in-memory counter into the autoincrements table: the table
     then holds the in-memory entries and those old rows whose base has no in-memory entry *)
  Definition has_key (k : str) (m : counters) : bool := existsb (fun kn => str_eqb k (fst kn)) m.
  Definition persist (table mem : counters) : counters :=
    mem ++ filter (fun kn => negb (has_key (fst kn) mem)) table.

  Definition with_auto (st : ist) (a : counters) : ist := mkSt (s_rows st) (s_rels st) (s_dups st) a.

  Definition do_update (s : mstate) (fs : list row) (strat : strategy) (spec : idspec) (window : nat)
             (fail_at : option nat) (backup : bool) : mstate * result unit :=
    let bak := if backup then Some (m_disk s) else m_bak s in
    let unchanged := mkM (m_disk s) (m_mem s) bak in
    let avail := match fail_at with Some k => firstn k fs | None => fs end in
    let fails := match fail_at with Some k => Nat.leb k (length fs) | None => false end in
    (* the peek asks for window+1 items: a source that raises after k <= window items raises here *)
    if fails && Nat.leb (length avail) window then (unchanged, Err EOther)
    else match avail, fails with
    | [], false => (unchanged, Ok tt)                      (* `if not data._peek: return self` *)
    | _, _ =>
      let '(r, mem') := run_track strat spec avail (with_auto (m_disk s) (m_mem s)) in
      match r with
      | Err e => (mkM (m_disk s) mem' bak, Err e)          (* nothing committed: the creator's connection rolls back *)
      | Ok st' =>
        if fails then (mkM (m_disk s) mem' bak, Err EOther)
        else
          (* _populate_from_lines has committed; _update_relations works on the whole table (and, for GTF,
             draws further ids for the features it derives); _finalize then persists the counters *)
          match rel_imp spec st' with
          | Err e => (mkM (with_auto st' (s_auto (m_disk s))) mem' bak, Err e)
          | Ok st'' => (mkM (with_auto st'' (persist (s_auto (m_disk s)) (s_auto st''))) (s_auto st'') bak, Ok tt)
          end
      end
    end.

  Definition do_delete (s : mstate) (ids : list str) (backup : bool) : mstate * result unit :=
    let bak := if backup then Some (m_disk s) else m_bak s in
    let d := m_disk s in
    let rows := filter (fun r => negb (mem_str (r_id r) ids)) (s_rows d) in
    let rels := filter (fun x => negb (mem_str (rel_parent x) ids || mem_str (rel_child x) ids)) (s_rels d) in
    (mkM (mkSt rows rels (s_dups d) (s_auto d)) (m_mem s) bak, Ok tt).

  Definition RETYPED : str := [114;101;116;121;112;101;100]%N.

  Definition do_addrel (s : mstate) (p c : str) (l : Z) (retype : bool) : mstate * result unit :=
    let d := m_disk s in
    if negb (has_id p (s_rows d)) || negb (has_id c (s_rows d)) then (s, Err ENotFound)
    else if has_rel (mkRel p c l) (s_rels d) then (s, Err EIntegrity)
    else
      let rows := if retype then update_id c (fun r => set_bin (setf FFtype RETYPED r)) (s_rows d) else s_rows d in
      (mkM (mkSt rows (s_rels d ++ [mkRel p c l]) (s_dups d) (s_auto d)) (m_mem s) (m_bak s), Ok tt).

  Definition step (s : mstate) (o : op) : mstate * result unit :=
    match o with
    | OpUpdate fs strat spec window fail_at backup => do_update s fs strat spec window fail_at backup
    | OpDelete ids backup => do_delete s ids backup
    | OpAddRel p c l rt => do_addrel s p c l rt
    | OpReopen => (mkM (m_disk s) (s_auto (m_disk s)) (m_bak s), Ok tt)
    end.

  Fixpoint run (s : mstate) (ops : list op) : mstate :=
    match ops with [] => s | o :: ops' => run (fst (step s o)) ops' end.

  (* all intermediate states and outputs, for the correspondence *)
  Fixpoint trace (s : mstate) (ops : list op) : list (mstate * result unit) :=
    match ops with
    | [] => []
    | o :: ops' => let r := step s o in r :: trace (fst r) ops'
    end.

  (* a freshly created database, opened *)
  Definition opened (d : ist) : mstate := mkM d (s_auto d) None.
End Machine.
