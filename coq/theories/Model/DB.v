(* Model/DB.v — the relational state gffutils keeps in sqlite: the features table
   (in rowid order) and the relations table.  Definitions only. *)
From GV Require Import Base.Prelude Base.PyStr Model.Bins.
Open Scope Z_scope.

Definition attrs := list (str * list str).      (* insertion-ordered dict: key -> list of values *)

Record row := mkRow {
  r_id : str; r_seqid : str; r_source : str; r_ftype : str;
  r_start : option Z; r_end : option Z;          (* NULL for '.' *)
  r_score : str; r_strand : str; r_frame : str;
  r_attrs : attrs; r_extra : list str; r_bin : option Z }.

Record rel := mkRel { rel_parent : str; rel_child : str; rel_level : Z }.

Record db := mkDb { d_rows : list row; d_rels : list rel }.

(* bins stored with each row agree with the coordinates (an invariant of import, C01/C05/C10) *)
Definition bin_consistent (r : row) : bool := option_eqb Z.eqb (r_bin r) (feature_bin (r_start r) (r_end r)).

(* GFF grammar: start <= end; both coordinates present or both '.' *)
Definition row_ok (r : row) : bool :=
  match r_start r, r_end r with
  | Some s, Some e => s <=? e
  | None, None => true
  | _, _ => false
  end.

(* SQL comparison of a nullable integer column with a value: NULL is never true.  The WHERE
   clauses gffutils builds contain only AND/OR/IN over comparisons (no NOT), so collapsing
   SQL's three-valued logic to "is true" is exact for row selection. *)
Definition col_cmp (op : Z -> Z -> bool) (col : option Z) (v : Z) : bool :=
  match col with Some c => op c v | None => false end.
Definition val_cmp (op : Z -> Z -> bool) (v : Z) (col : option Z) : bool :=
  match col with Some c => op v c | None => false end.
