(* Model/Grammar.v — "a line written in one consistent dialect", as data: the style of a line,
   the canonical dialect a parser must infer from it, and the boolean well-formedness
   conditions under which parse/print are inverse (C07, C09, C01).  Definitions only. *)
From GV Require Import Base.Prelude Base.PyStr Base.Utf8 Base.WordTable Model.DB Model.Parser.
Open Scope N_scope.

Inductive kvstyle := KvEq | KvSpaceQuoted | KvSpaceBare.
Record style := mkStyle { st_kv : kvstyle; st_fsep : str; st_trailing : bool; st_repeated : bool }.

Definition multi (a : attrs) : bool := existsb (fun kv => match snd kv with _ :: _ :: _ => true | _ => false end) a.
Definition has_flag (a : attrs) : bool := existsb (fun kv => match snd kv with [] => true | _ => false end) a.

(* number of rendered parts *)
Definition nparts (st : style) (a : attrs) : nat :=
  length (if st_repeated st then expand_repeated a else a).

(* the dialect that describes a line of this style carrying these attributes — what
   inference must report (C09), and what makes printing reproduce the line (C07) *)
Definition canon_dialect (st : style) (a : attrs) : dialect :=
  match a with
  | [] => default_dialect
  | _ =>
    let quoted := match st_kv st with KvSpaceQuoted => true | _ => false end in
    let repeated := st_repeated st && multi a in
    mkDialect false (st_trailing st) quoted
      (if Nat.ltb 1 (nparts st a) then st_fsep st else [SEMI])
      (match st_kv st with KvEq => [EQ] | _ => [SP] end)
      [COMMA]
      (if quoted then GTF else GFF3)
      repeated
      (map fst (if st_repeated st then expand_repeated a else a))
  end.

(* ---- well-formedness ---- *)
Definition ascii_word (c : N) : bool :=
  ((48 <=? c) && (c <=? 57)) || ((65 <=? c) && (c <=? 90)) || (c =? 95) || ((97 <=? c) && (c <=? 122)).
Definition key_ok (k : str) : bool := match k with [] => false | _ => forallb ascii_word k end.

Definition no_edge_space (v : str) : bool :=
  match v with
  | [] => false
  | c :: _ => negb (is_space c) && negb (is_space (last v 0))
  end.

Definition free_of (bad : str) (v : str) : bool := forallb (fun c => negb (mem_char c bad)) v.

Definition val_ok (kv : kvstyle) (v : str) : bool :=
  no_edge_space v &&
  match kv with
  | KvEq => true                                   (* everything reserved is percent-encoded *)
  | KvSpaceQuoted => free_of [SEMI; COMMA; DQ; TAB; 10; 13] v
  | KvSpaceBare => free_of to_quote v && free_of [DQ] v
  end.

(* the rendered (joined) value must not look quoted in the unquoted styles *)
Definition joined_not_quoted (kv : kvstyle) (repeated : bool) (vs : list str) : bool :=
  match kv with
  | KvSpaceQuoted => true
  | _ =>
    if repeated then forallb (fun v => negb ((hd 0 v =? DQ) && (last v 0 =? DQ))) vs
    else match vs with
         | [] => true
         | v0 :: _ => negb ((hd 0 v0 =? DQ) && (last (last vs []) 0 =? DQ))
         end
  end.

Definition keys_unique (a : attrs) : bool :=
  (fix go (l : attrs) (seen : list str) : bool :=
     match l with [] => true | (k, _) :: l' => negb (mem_str k seen) && go l' (k :: seen) end) a [].

Definition fsep_ok (s : str) : bool :=
  str_eqb s [SEMI] || str_eqb s [SEMI; SP] || str_eqb s [SP; SEMI; SP].

Definition wf_attrs (st : style) (a : attrs) : bool :=
  fsep_ok (st_fsep st) && keys_unique a &&
  forallb (fun kv => key_ok (fst kv) && forallb (val_ok (st_kv st)) (snd kv)
                     && joined_not_quoted (st_kv st) (st_repeated st) (snd kv)) a &&
  (* GFF3 detection looks at the first part only: it must be key=value *)
  match st_kv st, a with
  | KvEq, (_, []) :: _ => false
  | _, _ => true
  end.

Definition col_ok (c : str) : bool := free_of [TAB; 10; 13] c && negb (match c with [] => true | _ => false end).

(* canonical decimal or "." : int(str) round-trips *)
Definition coord_ok (c : option Z) : bool := true.

Definition extras_ok (ex : list str) : bool := forallb (free_of [TAB; 10; 13]) ex &&
  (* a trailing empty extra column would be eaten by nothing, but an extra ending the line must
     not end in CR/LF (covered by free_of) *) true.

Definition wf_feature (st : style) (f : feature) : bool :=
  col_ok (f_seqid f) && col_ok (f_source f) && col_ok (f_ftype f) && col_ok (f_score f)
  && col_ok (f_strand f) && col_ok (f_frame f)
  && wf_attrs st (f_attrs f) && extras_ok (f_extra f)
  && f_keep_order f && negb (f_sort_values f).

(* ---- C08 domain: mappings of the property and the dialect families ---- *)
(* keys of the property: [A-Za-z_][A-Za-z0-9_.-]* *)
Definition key_first (c : N) : bool := ((65 <=? c) && (c <=? 90)) || (c =? 95) || ((97 <=? c) && (c <=? 122)).
Definition key_rest (c : N) : bool := key_first c || ((48 <=? c) && (c <=? 57)) || (c =? 46) || (c =? 45).
Definition prop_key (k : str) : bool := match k with c :: r => key_first c && forallb key_rest r | [] => false end.

Definition mapping_ok (m : attrs) : bool :=
  keys_unique m && forallb (fun kv => prop_key (fst kv) &&
                             match snd kv with [] => false | vs => forallb (fun v => match v with [] => false | _ => true end) vs end) m.

Definition is_control (c : N) : bool := (c <? 32) || ((127 <=? c) && (c <=? 159)).
Definition gtf_value_ok (v : str) : bool := forallb (fun c => negb (is_control c) && negb (mem_char c [SEMI; DQ; COMMA])) v.

Definition seps_ok (D : dialect) : bool :=
  fsep_ok (d_fsep D) && str_eqb (d_mvsep D) [COMMA] && negb (d_leading D).
Definition gff3_style (D : dialect) : bool :=
  seps_ok D && str_eqb (d_fmt D) GFF3 && (str_eqb (d_kvsep D) [EQ] || str_eqb (d_kvsep D) [SP]).
Definition gtf_standard (D : dialect) : bool :=
  seps_ok D && str_eqb (d_fmt D) GTF && str_eqb (d_kvsep D) [SP] && d_quoted D.
(* finding F16: fmt = gtf but not (kvsep " " and quoted) *)
Definition known_F16 (D : dialect) : bool :=
  seps_ok D && str_eqb (d_fmt D) GTF && negb (str_eqb (d_kvsep D) [SP] && d_quoted D)
  && (str_eqb (d_kvsep D) [EQ] || str_eqb (d_kvsep D) [SP]).


(* ---- the line as the WRITER of the file produced it (independent of _reconstruct): the
   rendering the property's "consistent dialect" speaks about.  C07/C01 state that parsing
   inverts this function and that printing reproduces it. ---- *)
Definition render_item (st : style) (kv : str * list str) : str :=
  let '(k, vs) := kv in
  match st_kv st with
  | KvEq => match vs with [] => k | _ => k ++ [EQ] ++ join [COMMA] (map (quote to_quote) vs) end
  | KvSpaceQuoted => k ++ [SP; DQ] ++ join [COMMA] vs ++ [DQ]
  | KvSpaceBare => match vs with [] => k | _ => k ++ [SP] ++ join [COMMA] vs end
  end.

Definition style_items (st : style) (a : attrs) : attrs := if st_repeated st then expand_repeated a else a.

Definition render_attrs (st : style) (a : attrs) : str :=
  match a with
  | [] => []
  | _ => join (st_fsep st) (map (render_item st) (style_items st a)) ++ (if st_trailing st then [SEMI] else [])
  end.

Definition render_fields (st : style) (f : feature) : list str :=
  [f_seqid f; f_source f; f_ftype f; coord_str (f_start f); coord_str (f_end f);
   f_score f; f_strand f; f_frame f; render_attrs st (f_attrs f)] ++ f_extra f.

Definition render_line (st : style) (f : feature) : str := join [TAB] (render_fields st f).

(* ---- a (file-level) dialect D "fits" a line of style st carrying attributes a: parsing the line
   with D and printing it with D (keep_order=True) are faithful.  D is typically the vote over
   the inspected window, whose [order] is the first-seen union of keys over several lines. ---- *)
Definition style_fmt (st : style) : str := match st_kv st with KvSpaceQuoted => GTF | _ => GFF3 end.
Definition style_kvsep (st : style) : str := match st_kv st with KvEq => [EQ] | _ => [SP] end.
Definition style_quoted (st : style) : bool := match st_kv st with KvSpaceQuoted => true | _ => false end.

Fixpoint sorted_b {A} (key : A -> N) (l : list A) : bool :=
  match l with
  | [] => true
  | x :: t => match t with [] => true | y :: _ => key x <=? key y end && sorted_b key t
  end.

Definition fits (st : style) (a : attrs) (D : dialect) : bool :=
  str_eqb (d_fmt D) (style_fmt st) && str_eqb (d_kvsep D) (style_kvsep st) && Bool.eqb (d_quoted D) (style_quoted st)
  && Bool.eqb (d_trailing D) (st_trailing st) && negb (d_leading D) && str_eqb (d_mvsep D) [COMMA]
  && (if Nat.ltb 1 (nparts st a) then str_eqb (d_fsep D) (st_fsep st) else fsep_ok (d_fsep D))
  && (negb (multi a) || Bool.eqb (d_repeated D) (st_repeated st))
  && sorted_b (fun it : str * list str => order_key (d_order D) (fst it)) (style_items st a).
