(* Model/Import.v — gffutils.create: _id_handler, the IntegrityError dispatch with the five
   merge strategies, _do_merge, the GFF3 and GTF importers' relation handling and
   _update_relations, on parsed features.  Follows the structure of the Python code;
   operations that raise return an explicit error.  Definitions only. *)
From GV Require Import Base.Prelude Base.PyStr Model.Bins Model.DB Model.Parser.
Open Scope Z_scope.

Inductive strategy := SError | SWarning | SReplace | SCreateUnique | SMerge.
Inductive field := FSeqid | FSource | FFtype | FScore | FStrand | FFrame.

Definition field_eqb (a b : field) : bool :=
  match a, b with
  | FSeqid, FSeqid | FSource, FSource | FFtype, FFtype | FScore, FScore | FStrand, FStrand | FFrame, FFrame => true
  | _, _ => false
  end.
Definition mem_field (f : field) (l : list field) : bool := existsb (field_eqb f) l.

Definition getf (fl : field) (r : row) : str :=
  match fl with
  | FSeqid => r_seqid r | FSource => r_source r | FFtype => r_ftype r
  | FScore => r_score r | FStrand => r_strand r | FFrame => r_frame r
  end.

Definition setf (fl : field) (v : str) (r : row) : row :=
  match fl with
  | FSeqid => mkRow (r_id r) v (r_source r) (r_ftype r) (r_start r) (r_end r) (r_score r) (r_strand r) (r_frame r) (r_attrs r) (r_extra r) (r_bin r)
  | FSource => mkRow (r_id r) (r_seqid r) v (r_ftype r) (r_start r) (r_end r) (r_score r) (r_strand r) (r_frame r) (r_attrs r) (r_extra r) (r_bin r)
  | FFtype => mkRow (r_id r) (r_seqid r) (r_source r) v (r_start r) (r_end r) (r_score r) (r_strand r) (r_frame r) (r_attrs r) (r_extra r) (r_bin r)
  | FScore => mkRow (r_id r) (r_seqid r) (r_source r) (r_ftype r) (r_start r) (r_end r) v (r_strand r) (r_frame r) (r_attrs r) (r_extra r) (r_bin r)
  | FStrand => mkRow (r_id r) (r_seqid r) (r_source r) (r_ftype r) (r_start r) (r_end r) (r_score r) v (r_frame r) (r_attrs r) (r_extra r) (r_bin r)
  | FFrame => mkRow (r_id r) (r_seqid r) (r_source r) (r_ftype r) (r_start r) (r_end r) (r_score r) (r_strand r) v (r_attrs r) (r_extra r) (r_bin r)
  end.

Definition set_id (id : str) (r : row) : row :=
  mkRow id (r_seqid r) (r_source r) (r_ftype r) (r_start r) (r_end r) (r_score r) (r_strand r) (r_frame r) (r_attrs r) (r_extra r) (r_bin r).
Definition set_attrs (a : attrs) (r : row) : row :=
  mkRow (r_id r) (r_seqid r) (r_source r) (r_ftype r) (r_start r) (r_end r) (r_score r) (r_strand r) (r_frame r) a (r_extra r) (r_bin r).
(* Feature.astuple() recomputes the bin from the coordinates at insertion time *)
Definition set_bin (r : row) : row :=
  mkRow (r_id r) (r_seqid r) (r_source r) (r_ftype r) (r_start r) (r_end r) (r_score r) (r_strand r) (r_frame r) (r_attrs r) (r_extra r)
        (feature_bin (r_start r) (r_end r)).

(* ---- id_spec ---- *)
Inductive idkey := KAttr (k : str) | KCall (n : nat).
Inductive idspec := SList (ks : list idkey) | SDict (d : list (str * list idkey)).

Definition counters := list (str * Z).
Fixpoint auto_get (k : str) (a : counters) : Z :=
  match a with [] => 0 | (k', n) :: a' => if str_eqb k k' then n else auto_get k a' end.
Fixpoint auto_set (k : str) (n : Z) (a : counters) : counters :=
  match a with
  | [] => [(k, n)]
  | (k', n') :: a' => if str_eqb k k' then (k', n) :: a' else (k', n') :: auto_set k n a'
  end.
Definition USCORE : N := 95%N.
Definition autoid (base : str) (n : Z) : str := base ++ [USCORE] ++ str_of_int n.
(* _increment_featuretype_autoid *)
Definition auto_incr (k : str) (a : counters) : str * counters :=
  let n := auto_get k a + 1 in (autoid k n, auto_set k n a).

Definition COLON : N := 58%N.
Definition AUTOINC : str := [97;117;116;111;105;110;99;114;101;109;101;110;116;58]%N.   (* "autoincrement:" *)

Definition is_field_form (k : str) : bool :=
  (Nat.ltb 3 (length k)) && (N.eqb (hd 0%N k) COLON) && (N.eqb (last k 0%N) COLON).
Definition inner (k : str) : str := removelast (tl k).

Definition field_named (s : str) : option field :=
  if str_eqb s [115;101;113;105;100]%N then Some FSeqid
  else if str_eqb s [115;111;117;114;99;101]%N then Some FSource
  else if str_eqb s [102;101;97;116;117;114;101;116;121;112;101]%N then Some FFtype
  else if str_eqb s [115;99;111;114;101]%N then Some FScore
  else if str_eqb s [115;116;114;97;110;100]%N then Some FStrand
  else if str_eqb s [102;114;97;109;101]%N then Some FFrame
  else None.

Section Importer.
  (* user callables of id_spec: an oracle, instantiated by the correspondence with the table
     the harness uses; None = the callable returned None *)
  Variable call : nat -> row -> option str.

  Fixpoint try_keys (ks : list idkey) (f : row) (a : counters) : result (str * counters) :=
    match ks with
    | [] => Ok (auto_incr (r_ftype f) a)
    | KCall n :: ks' =>
        match call n f with
        | Some (c :: s) =>
            let id := c :: s in
            if startswith id AUTOINC then Ok (auto_incr (skipn 14 id) a) else Ok (id, a)
        | _ => try_keys ks' f a              (* None or "" is false *)
        end
    | KAttr k :: ks' =>
        if is_field_form k then
          match field_named (inner k) with
          | Some fl => Ok (getf fl f, a)
          | None => Err EAttr                (* :start:/:end: (ints) and unknown names: outside the modelled domain *)
          end
        else match dget k (r_attrs f) with
             | Some (_ :: _ :: _) => Err EValue          (* several values: rejected *)
             | Some (v :: _) => Ok (v, a)
             | _ => try_keys ks' f a
             end
    end.

  Fixpoint dict_spec (d : list (str * list idkey)) (ft : str) : option (list idkey) :=
    match d with [] => None | (k, v) :: d' => if str_eqb ft k then Some v else dict_spec d' ft end.

  Definition id_handler (spec : idspec) (f : row) (a : counters) : result (str * counters) :=
    match spec with
    | SList ks => try_keys ks f a
    | SDict d => match dict_spec d (r_ftype f) with
                 | Some ks => try_keys ks f a
                 | None => Ok (auto_incr (r_ftype f) a)
                 end
    end.

  (* ---- tables ---- *)
  Record ist := mkSt { s_rows : list row; s_rels : list rel; s_dups : list (str * str); s_auto : counters }.

  Definition has_id (id : str) (rows : list row) : bool := existsb (fun r => str_eqb (r_id r) id) rows.
  Fixpoint find_id (id : str) (rows : list row) : option row :=
    match rows with [] => None | r :: rs => if str_eqb (r_id r) id then Some r else find_id id rs end.
  (* UPDATE ... WHERE id = ? : the row keeps its position (rowid) *)
  Definition update_id (id : str) (g : row -> row) (rows : list row) : list row :=
    map (fun r => if str_eqb (r_id r) id then g r else r) rows.

  Definition rel_eqb (a b : rel) : bool :=
    str_eqb (rel_parent a) (rel_parent b) && str_eqb (rel_child a) (rel_child b) && (rel_level a =? rel_level b).
  Definition has_rel (x : rel) (l : list rel) : bool := existsb (rel_eqb x) l.
  (* INSERT OR IGNORE *)
  Definition add_rel (l : list rel) (x : rel) : list rel := if has_rel x l then l else l ++ [x].
  Definition add_rels (l : list rel) (xs : list rel) : list rel := fold_left add_rel xs l.

  (* ---- _do_merge ---- *)
  Definition all_fields : list field := [FSeqid; FSource; FFtype; FScore; FStrand; FFrame].
  Definition ozeqb := option_eqb Z.eqb.
  Definition same_checked (force : list field) (a b : row) : bool :=
    ozeqb (r_start a) (r_start b) && ozeqb (r_end a) (r_end b) &&
    forallb (fun fl => mem_field fl force || str_eqb (getf fl a) (getf fl b)) all_fields.

  Fixpoint dedup_strs (l : list str) : list str :=
    match l with [] => [] | x :: l' => if mem_str x l' then dedup_strs l' else x :: dedup_strs l' end.
  (* list(set(v)): order unspecified in Python; the model and the comparison use the sorted form *)
  Definition as_set (l : list str) : list str := sort_strs (dedup_strs l).

  Definition candidates (st : ist) (id : str) : list row :=
    let news := map snd (filter (fun d => str_eqb (fst d) id) (s_dups st)) in
    filter (fun r => str_eqb (r_id r) id || mem_str (r_id r) news) (s_rows st).

  Definition merge_attrs (fa : attrs) (existing : list row) : attrs :=
    let merged := fold_left (fun m e => fold_left (fun m kv => dappend (fst kv) (snd kv) m) (r_attrs e) m) existing fa in
    map (fun kv => (fst kv, as_set (snd kv))) merged.

  Definition merged_field (fl : field) (f : row) (existing : list row) : str :=
    join [44%N] (as_set (getf fl f :: flat_map (fun e => split [44%N] (getf fl e)) existing)).

  Inductive outcome :=
  | OSkip (st : ist)                        (* "warning": the newcomer is ignored *)
  | OStored (st : ist) (id : str).          (* stored/merged; [id] is the key its Parent links belong to *)

  (* "create_unique": the next <key>_n that is not taken yet (a feature may carry an explicit id
     that looks like a generated one); more than |rows| retries are never needed *)
  Fixpoint fresh_auto (fuel : nat) (base : str) (rows : list row) (a : counters) : option (str * counters) :=
    let '(nid, a') := auto_incr base a in
    if has_id nid rows then match fuel with O => None | Datatypes.S f => fresh_auto f base rows a' end
    else Some (nid, a').

  Definition create_unique (st : ist) (f : row) (record_dup : bool) : result outcome :=
    match fresh_auto (length (s_rows st)) (r_id f) (s_rows st) (s_auto st) with
    | None => Err EOther
    | Some (nid, a) =>
        Ok (OStored (mkSt (s_rows st ++ [set_id nid f]) (s_rels st)
                          (if record_dup then s_dups st ++ [(r_id f, nid)] else s_dups st) a) nid)
    end.

  Definition do_merge (strat : strategy) (force : list field) (st : ist) (f : row) : result outcome :=
    match strat with
    | SError => Err EValue
    | SWarning => Ok (OSkip st)
    | SReplace =>
        (* the old row's level-1 parent links go with it; the row keeps its position *)
        Ok (OStored (mkSt (update_id (r_id f) (fun _ => f) (s_rows st))
                          (filter (fun x => negb (str_eqb (rel_child x) (r_id f) && (rel_level x =? 1))) (s_rels st))
                          (s_dups st) (s_auto st)) (r_id f))
    | SCreateUnique => create_unique st f false
    | SMerge =>
        let to_merge := filter (same_checked force f) (candidates st (r_id f)) in
        match rev to_merge with
        | [] => create_unique st f true
        | target :: _ =>
            let ma := merge_attrs (r_attrs f) to_merge in
            let upd := fun r => fold_left (fun r fl => setf fl (merged_field fl f to_merge) r) force (set_attrs ma r) in
            Ok (OStored (mkSt (update_id (r_id target) upd (s_rows st)) (s_rels st) (s_dups st) (s_auto st)) (r_id target))
        end
    end.

  Definition PARENT : str := [80;97;114;101;110;116]%N.

  (* one input feature through the GFF3 importer *)
  Definition store (strat : strategy) (force : list field) (spec : idspec) (st : ist) (f0 : row)
    : result outcome :=
    match id_handler spec f0 (s_auto st) with
    | Err e => Err e
    | Ok (id, a) =>
        let f := set_bin (set_id id f0) in
        let st := mkSt (s_rows st) (s_rels st) (s_dups st) a in
        if has_id id (s_rows st) then do_merge strat force st f
        else Ok (OStored (mkSt (s_rows st ++ [f]) (s_rels st) (s_dups st) a) id)
    end.

  (* GFF3 importer, 'replace' of the feature stored under [id]: besides its level-1 parent links (do_merge) the level-2
     rows derived from them go - those that end at it or run through it (parent among its level-1 parents and child
     among its level-1 children, both read before anything is deleted); _update_relations re-derives what still holds.
     (The GTF importer writes level-2 rows from each line's own gene id and keeps them.) *)
  Definition is_replace (s : strategy) : bool := match s with SReplace => true | _ => false end.
  Definition through_links (id : str) (rels : list rel) (x : rel) : bool :=
    let ps := map rel_parent (filter (fun y => str_eqb (rel_child y) id && (rel_level y =? 1)) rels) in
    let cs := map rel_child (filter (fun y => str_eqb (rel_parent y) id && (rel_level y =? 1)) rels) in
    (rel_level x =? 2) && (str_eqb (rel_child x) id || (mem_str (rel_parent x) ps && mem_str (rel_child x) cs)).

  Definition step_gff (strat : strategy) (force : list field) (spec : idspec) (st : ist) (f0 : row) : result ist :=
    match store strat force spec st f0 with
    | Err e => Err e
    | Ok (OSkip st') => Ok st'
    | Ok (OStored st' id) =>
        let parents := match dget PARENT (r_attrs f0) with Some ps => ps | None => [] end in
        let kept := if is_replace strat && has_id id (s_rows st)
                    then filter (fun x => negb (through_links id (s_rels st) x)) (s_rels st') else s_rels st' in
        Ok (mkSt (s_rows st') (add_rels kept (map (fun p => mkRel p id 1) parents)) (s_dups st') (s_auto st'))
    end.

  Fixpoint run_steps (step : ist -> row -> result ist) (fs : list row) (st : ist) : result ist :=
    match fs with
    | [] => Ok st
    | f :: fs' => match step st f with Ok st' => run_steps step fs' st' | Err e => Err e end
    end.

  (* ---- GFF3 _update_relations ---- *)
  (* SELECT child FROM relations WHERE parent = ? AND level = 1 *)
  Definition children_of (rels : list rel) (p : str) : list str :=
    map rel_child (filter (fun x => str_eqb (rel_parent x) p && (rel_level x =? 1)) rels).

  Definition has_linebreak (s : str) : bool := existsb (fun c => N.eqb c 10 || N.eqb c 13) s.
  Definition TABc : N := 9%N.

  (* "parent \t child \n" written to the temp file and read back with rstrip("\n").split("\t") *)
  Definition tmp_pair (p c : str) : result (str * str) :=
    if has_linebreak p || has_linebreak c then Err EOther
    else match split [TABc] (p ++ [TABc] ++ c) with
         | [a; b] => Ok (a, b)
         | _ => Err EValue
         end.

  Definition grand_pairs (st : ist) : list (str * str) :=
    flat_map (fun r => let id := r_id r in
                       flat_map (fun c => map (fun g => (id, g)) (children_of (s_rels st) c))
                                (children_of (s_rels st) id))
             (s_rows st).

  Fixpoint read_pairs (ps : list (str * str)) : result (list (str * str)) :=
    match ps with
    | [] => Ok []
    | (p, c) :: ps' => match tmp_pair p c, read_pairs ps' with
                       | Ok x, Ok l => Ok (x :: l)
                       | Err e, _ => Err e
                       | _, Err e => Err e
                       end
    end.

  Definition update_relations_gff (st : ist) : result ist :=
    match read_pairs (grand_pairs st) with
    | Err e => Err e
    | Ok ps => Ok (mkSt (s_rows st) (add_rels (s_rels st) (map (fun pc => mkRel (fst pc) (snd pc) 2) ps))
                        (s_dups st) (s_auto st))
    end.

  Definition empty_st : ist := mkSt [] [] [] [].

  Definition import_gff (strat : strategy) (force : list field) (spec : idspec) (fs : list row) (st : ist) : result ist :=
    match fs with
    | [] => Err EValue                        (* EmptyInputError (a ValueError subclass?) — classified by the harness *)
    | _ => match run_steps (step_gff strat force spec) fs st with
           | Err e => Err e
           | Ok st' => update_relations_gff st'
           end
    end.

  (* ================= GTF importer ================= *)
  Record gtfcfg := mkGtf { g_tkey : str; g_gkey : str; g_sub : str; g_no_genes : bool; g_no_transcripts : bool }.

  (* relations of one GTF line stored under [id] *)
  Definition gtf_relations (g : gtfcfg) (f0 : row) (id : str) : list rel :=
    let parent := match dget (g_tkey g) (r_attrs f0) with Some (p :: _) => Some p | _ => None end in
    let r1 := match parent with Some p => if str_eqb p id then [] else [mkRel p id 1] | None => [] end in
    let r2 := match dget (g_gkey g) (r_attrs f0) with
              | Some (gp :: _) =>
                  (if str_eqb id gp || match parent with Some p => str_eqb id p | None => false end then [] else [mkRel gp id 2])
                  ++ match parent with Some p => if str_eqb p gp then [] else [mkRel gp p 1] | None => [] end
              | _ => []
              end in
    r1 ++ r2.

  Definition step_gtf (g : gtfcfg) (strat : strategy) (force : list field) (spec : idspec) (st : ist) (f0 : row) : result ist :=
    match store strat force spec st f0 with
    | Err e => Err e
    | Ok (OSkip st') => Ok st'
    | Ok (OStored st' id) =>
        Ok (mkSt (s_rows st') (add_rels (s_rels st') (gtf_relations g f0 id)) (s_dups st') (s_auto st'))
    end.

  Definition pair_eqb2 (a b : str * str) : bool := str_eqb (fst a) (fst b) && str_eqb (snd a) (snd b).
  Fixpoint dedup_pairs (l : list (str * str)) : list (str * str) :=
    match l with [] => [] | x :: l' => if existsb (pair_eqb2 x) l' then dedup_pairs l' else x :: dedup_pairs l' end.
  Fixpoint insert_pair (x : str * str) (l : list (str * str)) : list (str * str) :=
    match l with [] => [x] | y :: l' => if str_ltb (snd x) (snd y) then x :: l else y :: insert_pair x l' end.

  (* (transcript, gene) pairs: level-1 parents of stored subfeatures, joined to their level-1 parents, by gene *)
  Definition tg_pairs (g : gtfcfg) (st : ist) : list (str * str) :=
    let is_sub := fun c => existsb (fun r => str_eqb (r_id r) c && str_eqb (r_ftype r) (g_sub g)) (s_rows st) in
    let ts := dedup_strs (map rel_parent (filter (fun x => (rel_level x =? 1) && is_sub (rel_child x)) (s_rels st))) in
    let ps := flat_map (fun t => map (fun x => (t, rel_parent x))
                                     (filter (fun x => (rel_level x =? 1) && str_eqb (rel_child x) t) (s_rels st))) ts in
    fold_right insert_pair [] (dedup_pairs ps).

  Definition omin (a b : option Z) : option Z :=
    match a, b with Some x, Some y => Some (Z.min x y) | Some x, None => Some x | None, y => y end.
  Definition omax (a b : option Z) : option Z :=
    match a, b with Some x, Some y => Some (Z.max x y) | Some x, None => Some x | None, y => y end.

  (* SELECT MIN(start), MAX(end), strand, seqid ... WHERE parent = ? AND featuretype == ? *)
  Definition extent (g : gtfcfg) (st : ist) (p : str) : option (Z * Z * str * str) :=
    let kids := filter (fun r => str_eqb (r_ftype r) (g_sub g)
                                 && existsb (fun x => str_eqb (rel_parent x) p && str_eqb (rel_child x) (r_id r)) (s_rels st))
                       (s_rows st) in
    match kids with
    | [] => None
    | k :: _ =>
        match fold_right omin None (map r_start kids), fold_right omax None (map r_end kids) with
        | Some s, Some e => Some (s, e, r_strand k, r_seqid k)
        | _, _ => None
        end
    end.

  Definition DOTs : str := [46%N].
  Definition DERIVED : str := [103;102;102;117;116;105;108;115;95;100;101;114;105;118;101;100]%N.   (* gffutils_derived *)
  Definition TRANSCRIPT : str := [116;114;97;110;115;99;114;105;112;116]%N.
  Definition GENE : str := [103;101;110;101]%N.

  Definition text_clean (s : str) : bool := negb (existsb (fun c => N.eqb c 9 || N.eqb c 10 || N.eqb c 13) s).

  (* the derived features in the order they are written to the temp file *)
  Fixpoint derive (g : gtfcfg) (st : ist) (ps : list (str * str)) (last_gene : option str) : result (list row) :=
    match ps with
    | [] => Ok []
    | (t, gn) :: ps' =>
        let mk := fun (ft : str) (a : attrs) (x : Z * Z * str * str) =>
                    let '(s, e, strand, seqid) := x in
                    mkRow [] seqid DERIVED ft (Some s) (Some e) DOTs strand DOTs a [] None in
        let tr := if g_no_transcripts g then Ok []
                  else match extent g st t with
                       | Some x => Ok [mk TRANSCRIPT [(g_tkey g, [t]); (g_gkey g, [gn])] x]
                       | None => Err EType    (* bins(None, None): only for '.' coordinates - the pairs come from subfeature children *)
                       end in
        let ge := if g_no_genes g then Ok []
                  else if match last_gene with Some l => str_eqb l gn | None => false end then Ok []
                  else match extent g st gn with
                       | Some x => Ok [mk GENE [(g_gkey g, [gn])] x]
                       | None => Ok []        (* no subfeature is filed under this gene id: nothing to infer (F26) *)
                       end in
        match tr, ge, derive g st ps' (Some gn) with
        | Ok a, Ok b, Ok c => Ok (a ++ b ++ c)
        | Err e, _, _ => Err e
        | _, Err e, _ => Err e
        | _, _, Err e => Err e
        end
    end.

  Definition derived_clean (r : row) : bool :=
    text_clean (r_seqid r) && text_clean (r_strand r) && forallb (fun kv => forallb text_clean (snd kv)) (r_attrs r)
    && negb (match r_seqid r with [] => true | _ => false end) && negb (match r_strand r with [] => true | _ => false end).

  (* a derived feature arrives: plain insert, or _do_merge(f, "merge") followed by an UPDATE of the
     attributes only (a no-op when a fresh <id>_n was generated: the feature is then dropped, but
     the counter and the duplicates table keep the trace) *)
  Definition insert_derived (force : list field) (spec : idspec) (st : ist) (f0 : row) : result ist :=
    if negb (derived_clean f0) then Err EOther else
    match id_handler spec f0 (s_auto st) with
    | Err e => Err e
    | Ok (id, a) =>
        let f := set_bin (set_id id f0) in
        let st := mkSt (s_rows st) (s_rels st) (s_dups st) a in
        if has_id id (s_rows st) then
          let to_merge := filter (same_checked force f) (candidates st id) in
          match rev to_merge with
          | [] => match fresh_auto (length (s_rows st)) id (s_rows st) a with
                  | None => Err EOther
                  | Some (nid, a') => Ok (mkSt (s_rows st) (s_rels st) (s_dups st ++ [(id, nid)]) a')
                  end
          | target :: _ =>
              Ok (mkSt (update_id (r_id target) (set_attrs (merge_attrs (r_attrs f) to_merge)) (s_rows st))
                       (s_rels st) (s_dups st) a)
          end
        else Ok (mkSt (s_rows st ++ [f]) (s_rels st) (s_dups st) a)
    end.

  Definition update_relations_gtf (g : gtfcfg) (force : list field) (spec : idspec) (st : ist) : result ist :=
    if g_no_genes g && g_no_transcripts g then Ok st else
    match derive g st (tg_pairs g st) None with
    | Err e => Err e
    | Ok ds => run_steps (insert_derived force spec) ds st
    end.

  Definition import_gtf (g : gtfcfg) (strat : strategy) (force : list field) (spec : idspec) (fs : list row) (st : ist) : result ist :=
    match fs with
    | [] => Err EValue
    | _ => match run_steps (step_gtf g strat force spec) fs st with
           | Err e => Err e
           | Ok st' => update_relations_gtf g force spec st'
           end
    end.
End Importer.

(* every stored row's bin agrees with its coordinates (C12: "the bin stored with every imported feature equals bins(start, end)";
   the standing hypothesis of the C06 theorems about bin pre-filters) *)
Definition bins_ok (st : ist) : Prop := forall r, In r (s_rows st) -> bin_consistent r = true.

(* "no Parent link lost or invented", level 1: the level-1 rows are exactly the Parent values of the stored rows, each filed
   under the key its row is stored under (C05_parent_links_exact) *)
Definition parent_vals (r : row) : list str := vals PARENT (r_attrs r).
Definition links_of (rows : list row) : list rel := flat_map (fun r => map (fun p => mkRel p (r_id r) 1) (parent_vals r)) rows.
Definition l1_exact (st : ist) : Prop :=
  forall x, rel_level x = 1 -> (In x (s_rels st) <-> In x (links_of (s_rows st))).

