(* Model/GtfSpec.v — what C03 says a GTF import must contain, computed directly from the input
   lines: derived transcript/gene extents and the three-level hierarchy.  Definitions only. *)
From GV Require Import Base.Prelude Base.PyStr Model.Bins Model.DB Model.Parser Model.Import.
Open Scope Z_scope.

Definition first_val (k : str) (f : row) : option str :=
  match dget k (r_attrs f) with Some (v :: _) => Some v | _ => None end.

Definition GENE_ID : str := [103;101;110;101;95;105;100]%N.
Definition TRANSCRIPT_ID : str := [116;114;97;110;115;99;114;105;112;116;95;105;100]%N.
Definition default_gtf_spec : idspec := SDict [(GENE, [KAttr GENE_ID]); (TRANSCRIPT, [KAttr TRANSCRIPT_ID])].
(* the id_spec that goes with custom keys (equal to the default for the standard keys) *)
Definition gtf_spec (g : gtfcfg) : idspec := SDict [(GENE, [KAttr (g_gkey g)]); (TRANSCRIPT, [KAttr (g_tkey g)])].

(* the key a line gets under the default GTF id_spec, when it is an explicit gene/transcript line *)
Definition explicit_id (g : gtfcfg) (f : row) : option str :=
  if str_eqb (r_ftype f) GENE then first_val (g_gkey g) f
  else if str_eqb (r_ftype f) TRANSCRIPT then first_val (g_tkey g) f
  else None.

Definition is_sub (g : gtfcfg) (f : row) : bool := str_eqb (r_ftype f) (g_sub g).

Definition subs_of (g : gtfcfg) (key : str) (v : str) (feats : list row) : list row :=
  filter (fun f => is_sub g f && match first_val key f with Some x => str_eqb x v | None => false end) feats.

Definition min_start (l : list row) : option Z := fold_right omin None (map r_start l).
Definition max_end (l : list row) : option Z := fold_right omax None (map r_end l).

(* expected derived feature for id [v] (transcript when key = tkey, gene when key = gkey) *)
Definition expected_extent (g : gtfcfg) (key v : str) (feats : list row) : option (Z * Z * str * str) :=
  match subs_of g key v feats with
  | [] => None
  | (k :: _) as kids => match min_start kids, max_end kids with
                      | Some s, Some e => Some (s, e, r_strand k, r_seqid k)
                      | _, _ => None
                      end
  end.

(* relation triples the property prescribes for one line *)
Definition line_relations (g : gtfcfg) (f : row) (id : str) : list rel :=
  match explicit_id g f with
  | Some _ =>
      (* an explicit transcript is a level-1 child of its gene; an explicit gene relates to nothing *)
      if str_eqb (r_ftype f) TRANSCRIPT then
        match first_val (g_gkey g) f with Some gn => if str_eqb gn id then [] else [mkRel gn id 1] | None => [] end
      else []
  | None =>
      match first_val (g_tkey g) f, first_val (g_gkey g) f with
      | Some t, Some gn => [mkRel t id 1; mkRel gn id 2; mkRel gn t 1]
      | Some t, None => [mkRel t id 1]
      | None, Some gn => [mkRel gn id 2]
      | None, None => []
      end
  end.

(* C03's domain: the standard keys, ordinary lines carry both ids or the gene id only, every transcript's and gene's
   subfeatures sit on one seqid and strand with integer coordinates, a transcript has one gene *)
Definition all_same (l : list str) : bool := match l with [] => true | x :: l' => forallb (str_eqb x) l' end.
Definition gtf_line_ok (g : gtfcfg) (f : row) : bool :=
  match explicit_id g f with
  | Some i => text_clean i && negb (match i with [] => true | _ => false end)
  | None =>
      negb (str_eqb (r_ftype f) GENE) && negb (str_eqb (r_ftype f) TRANSCRIPT) &&
      match first_val (g_tkey g) f, first_val (g_gkey g) f with
      | Some t, Some gn => text_clean t && text_clean gn && negb (str_eqb t gn)
                           && negb (match t with [] => true | _ => false end) && negb (match gn with [] => true | _ => false end)
      | None, Some gn => text_clean gn && negb (match gn with [] => true | _ => false end)   (* a line with the gene id only *)
      | _, _ => false
      end
      && match r_start f, r_end f with Some s, Some e => s <=? e | _, _ => false end
      && text_clean (r_seqid f) && text_clean (r_strand f)
  end.

(* ---- the derived features and the keys they are stored under (C03 end to end) ---- *)
Definition mk_derived (ft : str) (a : attrs) (x : Z * Z * str * str) : row :=
  let '(s, e, strand, seqid) := x in mkRow [] seqid DERIVED ft (Some s) (Some e) DOTs strand DOTs a [] None.
Definition t_row (g : gtfcfg) (t gn : str) (x : Z * Z * str * str) : row :=
  mk_derived TRANSCRIPT [(g_tkey g, [t]); (g_gkey g, [gn])] x.
Definition g_row (g : gtfcfg) (gn : str) (x : Z * Z * str * str) : row := mk_derived GENE [(g_gkey g, [gn])] x.

(* the key a derived row is stored under *)
Definition did (g : gtfcfg) (d : row) : str :=
  match first_val (if str_eqb (r_ftype d) GENE then g_gkey g else g_tkey g) d with Some v => v | None => [] end.

Definition appended (g : gtfcfg) (ds : list row) : list row := map (fun d => set_bin (set_id (did g d) d)) ds.

(* ---- ordinary lines and the keys the populate phase gives them: <featuretype>_<n>, counted per featuretype ---- *)
Definition ordinary (f : row) : Prop := str_eqb (r_ftype f) GENE = false /\ str_eqb (r_ftype f) TRANSCRIPT = false.

(* the keys the lines get: <featuretype>_<n>, counted per featuretype *)
Fixpoint assign (fs : list row) (a : counters) : list (row * str) :=
  match fs with
  | [] => []
  | f :: r => (f, fst (auto_incr (r_ftype f) a)) :: assign r (snd (auto_incr (r_ftype f) a))
  end.
Fixpoint last_auto (fs : list row) (a : counters) : counters :=
  match fs with [] => a | f :: r => last_auto r (snd (auto_incr (r_ftype f) a)) end.

Definition place (p : row * str) : row := set_bin (set_id (snd p) (fst p)).


(* every stored row has both coordinates (no '.' start or end) *)
Definition coords_ok (st : ist) : Prop := forall r, In r (s_rows st) -> r_start r <> None /\ r_end r <> None.
