(* Model/Conc.v — concurrent imports sharing one temporary directory (C20).  Every import is a
   straight-line program over the directory: create a temp file under a name that is fresh with
   respect to the directory AT THAT MOMENT (the O_EXCL contract of tempfile.NamedTemporaryFile,
   an oracle), write to it, read it back, unlink it.  A schedule is any interleaving.  What each
   process reads back is what goes into its database.  Definitions only. *)
From GV Require Import Base.Prelude.
Open Scope Z_scope.

Inductive act := Create | Write (d : Z) | ReadBack | Unlink.

Record proc := mkProc {
  p_prog : list act;               (* what is left to do *)
  p_cur : list nat;                (* names of its live temp files, most recent first *)
  p_got : list (list Z) }.         (* everything it has read back so far *)

(* directory entries: name, creating process, content *)
Definition dirent := (nat * nat * list Z)%type.
Record world := mkWorld { w_dir : list dirent; w_procs : nat -> proc }.

Definition names (d : list dirent) : list nat := map (fun e => fst (fst e)) d.

Fixpoint dir_get (n : nat) (d : list dirent) : option (list Z) :=
  match d with [] => None | (m, _, c) :: r => if Nat.eqb n m then Some c else dir_get n r end.
Fixpoint dir_append (n : nat) (x : Z) (d : list dirent) : list dirent :=
  match d with [] => [] | (m, o, c) :: r => if Nat.eqb n m then (m, o, c ++ [x]) :: r else (m, o, c) :: dir_append n x r end.
Definition dir_remove (n : nat) (d : list dirent) : list dirent := filter (fun e => negb (Nat.eqb n (fst (fst e)))) d.

Definition set_proc (ps : nat -> proc) (i : nat) (p : proc) : nat -> proc := fun j => if Nat.eqb j i then p else ps j.

Section Conc.
  (* the name NamedTemporaryFile picks: any function, as long as the name is not in use *)
  Variable fresh : list nat -> nat.

  (* process i performs its next action; Write/ReadBack/Unlink concern its most recent temp file *)
  Definition step (w : world) (i : nat) : world :=
    let p := w_procs w i in
    match p_prog p with
    | [] => w
    | a :: rest =>
      match a, p_cur p with
      | Create, cur =>
          let n := fresh (names (w_dir w)) in
          mkWorld (w_dir w ++ [(n, i, [])]) (set_proc (w_procs w) i (mkProc rest (n :: cur) (p_got p)))
      | Write x, n :: cur => mkWorld (dir_append n x (w_dir w)) (set_proc (w_procs w) i (mkProc rest (n :: cur) (p_got p)))
      | ReadBack, n :: cur =>
          let c := match dir_get n (w_dir w) with Some c => c | None => [] end in
          mkWorld (w_dir w) (set_proc (w_procs w) i (mkProc rest (n :: cur) (p_got p ++ [c])))
      | Unlink, n :: cur => mkWorld (dir_remove n (w_dir w)) (set_proc (w_procs w) i (mkProc rest cur (p_got p)))
      | _, [] => mkWorld (w_dir w) (set_proc (w_procs w) i (mkProc rest [] (p_got p)))   (* no live file: skipped *)
      end
    end.

  Definition run (w : world) (sched : list nat) : world := fold_left step sched w.
End Conc.

(* the same program run alone: [live] = contents of its live temp files, most recent first *)
Fixpoint solo (prog : list act) (live : list (list Z)) (got : list (list Z)) : list (list Z) :=
  match prog with
  | [] => got
  | Create :: r => solo r ([] :: live) got
  | Write x :: r => solo r (match live with c :: l => (c ++ [x]) :: l | [] => [] end) got
  | ReadBack :: r => solo r live (match live with c :: _ => got ++ [c] | [] => got end)
  | Unlink :: r => solo r (tl live) got
  end.

(* how many temp files does the program leave behind? *)
Fixpoint leaves (prog : list act) (live : nat) : nat :=
  match prog with
  | [] => live
  | Create :: r => leaves r (S live)
  | Unlink :: r => leaves r (Nat.pred live)
  | _ :: r => leaves r live
  end.

(* the importers' use of the directory *)
Definition import_prog (data : list Z) : list act := Create :: map Write data ++ [ReadBack; Unlink].
(* DataIterator(from_string=True) first copies the text into a temp file, which is removed together
   with the iterator once the import is over *)
Definition from_string_prog (text data : list Z) : list act := Create :: map Write text ++ import_prog data ++ [Unlink].
(* a GTF import with both kinds of inference switched off derives nothing and uses no intermediate file *)
Definition noinfer_prog : list act := [].
Definition from_string_noinfer_prog (text : list Z) : list act := Create :: map Write text ++ [Unlink].
(* before the repair of finding F15 nothing removed that copy *)
Definition from_string_prog_F15 (text data : list Z) : list act := Create :: map Write text ++ import_prog data.

(* ---- traces observed on the running code: who created / unlinked which name, in global order ---- *)
Inductive ev := ECreate (p : nat) (name : str) | EUnlink (p : nat) (name : str).

Fixpoint owner_of (n : str) (d : list (str * nat)) : option nat :=
  match d with [] => None | (m, o) :: r => if str_eqb n m then Some o else owner_of n r end.

(* replay a trace against the directory discipline of the model: a name is created only while it is
   not in use, and removed only by the process that created it *)
Fixpoint replay (d : list (str * nat)) (es : list ev) : option (list (str * nat)) :=
  match es with
  | [] => Some d
  | ECreate p n :: r => match owner_of n d with Some _ => None | None => replay (d ++ [(n, p)]) r end
  | EUnlink p n :: r => match owner_of n d with
                        | Some o => if Nat.eqb o p then replay (filter (fun e => negb (str_eqb n (fst e))) d) r else None
                        | None => None
                        end
  end.
