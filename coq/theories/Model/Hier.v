(* Model/Hier.v — the GFF3 Parent graph of an input as data: ids, Parent lists, the domain of
   C02 (unique, clean ids) and the declarative children/parents relations.  Definitions only. *)
From GV Require Import Base.Prelude Base.PyStr Model.Bins Model.DB Model.Parser Model.Query Model.Import.
Open Scope Z_scope.

(* ids that survive the tab/newline separated temp file of _update_relations unchanged *)
Definition id_clean (s : str) : bool := negb (existsb (fun c => N.eqb c 9 || N.eqb c 10 || N.eqb c 13) s).

Definition IDK : str := [73;68]%N.
Definition id_of (f : row) : option str := match dget IDK (r_attrs f) with Some [v] => Some v | _ => None end.
Definition parents_of (f : row) : list str := match dget PARENT (r_attrs f) with Some ps => ps | None => [] end.

Fixpoint nodup_strs (l : list str) : bool :=
  match l with [] => true | x :: l' => negb (mem_str x l') && nodup_strs l' end.

Definition in_domain (feats : list row) : bool :=
  match feats with [] => false | _ => true end &&
  forallb (fun f => match id_of f with Some i => id_clean i && negb (match i with [] => true | _ => false end) | None => false end
                    && forallb id_clean (parents_of f)) feats &&
  nodup_strs (flat_map (fun f => match id_of f with Some i => [i] | None => [] end) feats).

(* ---- the Parent graph, directly from the input ---- *)
Definition fid (f : row) : str := match id_of f with Some i => i | None => [] end.
Definition child1 (feats : list row) (x : str) : list row := filter (fun f => mem_str x (parents_of f)) feats.
Definition child2 (feats : list row) (x : str) : list row :=
  filter (fun z => existsb (fun y => mem_str (fid y) (parents_of z)) (child1 feats x)) feats.
Definition parent1 (feats : list row) (y : row) : list row := filter (fun f => mem_str (fid f) (parents_of y)) feats.
Definition parent2 (feats : list row) (z : str) : list row :=
  match find (fun f => str_eqb (fid f) z) feats with
  | None => []
  | Some zf => filter (fun x => existsb (fun y => mem_str (fid x) (parents_of y)) (parent1 feats zf)) feats
  end.

Definition spec_rel (feats : list row) (dir : reldir) (x : str) (level : option Z) : list row :=
  let stored := existsb (fun f => str_eqb (fid f) x) feats in
  match dir with
  | Children =>
      let l1 := child1 feats x in
      let l2 := if stored then child2 feats x else [] in
      match level with
      | Some 1 => l1 | Some 2 => l2
      | Some _ => []
      | None => filter (fun f => existsb (fun g => str_eqb (fid f) (fid g)) (l1 ++ l2)) feats
      end
  | Parents =>
      let l1 := match find (fun f => str_eqb (fid f) x) feats with Some xf => parent1 feats xf | None => [] end in
      let l2 := parent2 feats x in
      match level with
      | Some 1 => l1 | Some 2 => l2
      | Some _ => []
      | None => filter (fun f => existsb (fun g => str_eqb (fid f) (fid g)) (l1 ++ l2)) feats
      end
  end.

(* ---- the relation table over histories of imports (C02_history_closed) ---- *)
Definition closed2 (st : ist) : Prop :=
  forall x z, In (mkRel x z 2) (s_rels st) -> exists y, In (mkRel x y 1) (s_rels st) /\ In (mkRel y z 1) (s_rels st).
Definition complete2 (st : ist) : Prop :=
  forall x y z, In x (map r_id (s_rows st)) -> In (mkRel x y 1) (s_rels st) -> In (mkRel y z 1) (s_rels st) ->
  In (mkRel x z 2) (s_rels st).
Definition levels12 (st : ist) : Prop := forall x, In x (s_rels st) -> rel_level x = 1 \/ rel_level x = 2.
Definition clean_state (st : ist) : Prop :=
  (forall r, In r (s_rows st) -> id_clean (r_id r) = true) /\ (forall x, In x (s_rels st) -> id_clean (rel_child x) = true).

(* ids and Parent values free of TAB / CR / LF: the domain in which the temp-file round trip of _update_relations is exact *)
Definition clean_b (st : ist) : bool :=
  forallb (fun r => id_clean (r_id r)) (s_rows st) && forallb (fun x => id_clean (rel_child x)) (s_rels st).

(* a history: create_db, then update() calls, each with its own strategy; it stays in the domain (clean_b after every
   import) and every batch is non-empty (an empty update returns before the importer runs) *)
Fixpoint imports (call : nat -> row -> option str) (force : list field) (spec : idspec) (bs : list (strategy * list row)) (st : ist) : result ist :=
  match bs with
  | [] => Ok st
  | (strat, fs) :: r =>
      match import_gff call strat force spec fs st with
      | Ok st1 => if clean_b st1 then imports call force spec r st1 else Err EOther
      | Err e => Err e
      end
  end.

