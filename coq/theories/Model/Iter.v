(* Model/Iter.v — gffutils.iterators: text-mode line reading, line classification (directives,
   comments, blanks, FASTA), the generator's suspension point (peek), the directives list object
   shared between the iterator and create_db, one-shot iterators and the chain-back of peeked
   items, transform/skip, inspect() counts.  Definitions only. *)
From GV Require Import Base.Prelude Base.PyStr.
Open Scope N_scope.

(* ---- reading a text file line by line (universal newlines), then line.rstrip("\n\r") ---- *)
Fixpoint lines_go (s cur : str) : list str :=
  match s with
  | [] => match cur with [] => [] | _ => [rev cur] end
  | 13 :: 10 :: s' => rev cur :: lines_go s' []
  | 13 :: s' => rev cur :: lines_go s' []
  | 10 :: s' => rev cur :: lines_go s' []
  | c :: s' => lines_go s' (c :: cur)
  end.
Definition file_lines (text : str) : list str := lines_go text [].

Definition HASH : N := 35.  Definition GT : N := 62.
Definition FASTA_MARK : str := [35;35;70;65;83;84;65].      (* "##FASTA" *)

Inductive lkind := LFasta | LDirective (d : str) | LSkip | LFeature.

Definition classify_line (line : str) : lkind :=
  if str_eqb line FASTA_MARK || startswith line [GT] then LFasta
  else if startswith line [HASH; HASH] then LDirective (skipn 2 line)
  else if startswith line [HASH] || match line with [] => true | _ => false end then LSkip
  else LFeature.

Inductive item := IFeat (line : str) | IDir (d : str).

(* what one complete run of _custom_iter sees, in order *)
Fixpoint scan (lines : list str) : list item :=
  match lines with
  | [] => []
  | l :: ls => match classify_line l with
               | LFasta => []
               | LDirective d => IDir d :: scan ls
               | LSkip => scan ls
               | LFeature => IFeat l :: scan ls
               end
  end.

Definition feats_of (its : list item) : list str := flat_map (fun i => match i with IFeat l => [l] | IDir _ => [] end) its.
Definition dirs_of (its : list item) : list str := flat_map (fun i => match i with IDir d => [d] | IFeat _ => [] end) its.

(* a generator abandoned right after it has yielded its (n+1)-th feature has processed exactly this prefix *)
Fixpoint upto_feature (n : nat) (its : list item) : list item :=
  match its with
  | [] => []
  | IDir d :: r => IDir d :: upto_feature n r
  | IFeat l :: r => IFeat l :: match n with O => [] | S m => upto_feature m r end
  end.

(* _FileIterator.peek(n): a fresh _custom_iter, n+1 features *)
Definition file_peek (n : nat) (lines : list str) : list str := feats_of (upto_feature n (scan lines)).

(* ---- the directives list: one Python list object shared by the iterator and the _DBCreator ---- *)
Inductive restart := ClearInPlace | Rebind.      (* how _custom_iter resets self.directives *)

(* create_db: DataIterator(...) peeks (filling list object A); create_db hands A to the creator; the import
   then iterates the same iterator once more, completely.  Returns (what the creator holds, what the iterator holds). *)
Definition directives_flow (mode : restart) (peeks : bool) (checklines : nat) (lines : list str) : list str * list str :=
  let a_after_peek := if peeks then dirs_of (upto_feature checklines (scan lines)) else [] in
  let all := dirs_of (scan lines) in
  match mode with
  | ClearInPlace => (all, all)
  | Rebind => (a_after_peek, all)
  end.

(* ---- one-shot iterators and peeking (_FeatureIterator) ---- *)
Section Items.
  Variable A : Type.
  Inductive source := SList (l : list A) | SIter (l : list A).     (* re-iterable list | one-shot iterator with these items left *)

  (* peek(n): take n+1 items; a one-shot iterator gets them chained back in front *)
  Definition feat_peek (n : nat) (d : source) : list A * source :=
    match d with
    | SList l => (firstn (S n) l, SList l)
    | SIter l => (firstn (S n) l, SIter (firstn (S n) l ++ skipn (S n) l))
    end.
  Definition contents (d : source) : list A := match d with SList l => l | SIter l => l end.

  (* __iter__: transform applied to each item in order, false results skipped; the transform may be stateful *)
  Variables St B : Type.
  Fixpoint iterate (t : St -> A -> St * option B) (s : St) (l : list A) : St * list B :=
    match l with
    | [] => (s, [])
    | x :: l' => let '(s1, r) := t s x in
                 let '(s2, out) := iterate t s1 l' in
                 (s2, match r with Some y => y :: out | None => out end)
    end.
End Items.
Arguments SList {A}. Arguments SIter {A}. Arguments feat_peek {A}. Arguments contents {A}. Arguments iterate {A St B}.

(* ---- inspect(): counts over the first [limit] features (limit 0/None = all) ---- *)
Fixpoint count_occ_str (x : str) (l : list str) : nat :=
  match l with [] => O | y :: l' => (if str_eqb x y then 1 else 0) + count_occ_str x l' end.
Definition limited {A} (limit : option nat) (l : list A) : list A :=
  match limit with Some (S n) => firstn (S n) l | _ => l end.
