(* Model/Inter.v — FeatureDB.interfeatures, create_introns, create_splice_sites.  Follows the
   running loop of the Python code (the reused dict initialised from the first feature of each
   seqid block, coordinate fix-up, suppression of empty gaps).  Definitions only. *)
From GV Require Import Base.Prelude Base.PyStr Model.Bins Model.DB Model.Parser Model.Query Model.Import Model.Attrs.
Open Scope Z_scope.

Definition INTER : str := [105;110;116;101;114;95]%N.     (* "inter_" *)
Definition USC : N := 95%N.
Definition DASH : N := 45%N.
Definition IDk : str := [73;68]%N.

Record icfg := mkICfg { ic_newft : option str; ic_merge : bool; ic_numeric : bool; ic_update : attrs }.

(* the feature built for the gap between [last] and [f]; [first] is the feature the dict was initialised from *)
Definition gap_feature (c : icfg) (first last f : row) : result (option row) :=
  match r_end last, r_start f with
  | Some le, Some fs =>
      let s := le + 1 in let e := fs - 1 in
      if e <? s then Ok None else
      let ft := match ic_newft c with Some t => t | None => INTER ++ r_ftype last ++ [USC] ++ r_ftype f end in
      let strand := if str_eqb (r_strand last) (r_strand f) then r_strand f else [46%N] in
      match (if ic_merge c then merge_attributes (ic_numeric c) (r_attrs last) (r_attrs f) else Ok []) with
      | Err e => Err e
      | Ok a =>
          let a := fold_left (fun d kv => dset (fst kv) (snd kv) d) (ic_update c) a in
          let a := match dget IDk a with
                   | Some ((_ :: _ :: _) as ids) => dset IDk [join [DASH] ids] a
                   | _ => a
                   end in
          Ok (Some (set_bin (mkRow (r_id first) (r_seqid first) DERIVED ft (Some s) (Some e) (r_score first) strand (r_frame first) a [] None)))
      end
  | _, _ => Err EType
  end.

Fixpoint inter_go (c : icfg) (first last : row) (fs : list row) : result (list row) :=
  match fs with
  | [] => Ok []
  | f :: fs' =>
      if negb (str_eqb (r_seqid f) (r_seqid last)) then inter_go c f f fs'
      else match gap_feature c first last f, inter_go c first f fs' with
           | Ok (Some g), Ok l => Ok (g :: l)
           | Ok None, Ok l => Ok l
           | Err e, _ => Err e
           | _, Err e => Err e
           end
  end.

Definition interfeatures (c : icfg) (fs : list row) : result (list row) :=
  match fs with [] => Ok [] | f :: fs' => inter_go c f f fs' end.

(* ---- the declarative reading: one feature per consecutive pair with at least one base between ---- *)
Fixpoint gaps (fs : list row) : list (row * row) :=
  match fs with
  | a :: ((b :: _) as l) =>
      (if str_eqb (r_seqid a) (r_seqid b) &&
          match r_end a, r_start b with Some e, Some s => 1 <? s - e | _, _ => false end
       then [(a, b)] else []) ++ gaps l
  | _ => []
  end.

(* ---- splice sites ---- *)
Definition FIVE : str := [102;105;118;101;95;112;114;105;109;101;95;99;105;115;95;115;112;108;105;99;101;95;115;105;116;101]%N.
Definition THREE : str := [116;104;114;101;101;95;112;114;105;109;101;95;99;105;115;95;115;112;108;105;99;101;95;115;105;116;101]%N.
Definition SPLICE : str := [115;112;108;105;99;101;95;115;105;116;101]%N.
Definition PLUSs : str := [43%N].  Definition MINUSs : str := [45%N].

Definition site_type (left : bool) (strand : str) : str :=
  if str_eqb strand PLUSs then (if left then FIVE else THREE)
  else if str_eqb strand MINUSs then (if left then THREE else FIVE)
  else SPLICE.

(* one side of one transcript: the introns between its start-ordered exons, cut to two bases, relabelled *)
Definition splice_side (left : bool) (tstrand : str) (merge numeric : bool) (exons : list row) : result (list row) :=
  let ft := site_type left tstrand in
  match interfeatures (mkICfg (Some ft) merge numeric []) exons with
  | Err e => Err e
  | Ok introns =>
      fold_right (fun i acc =>
        match acc, dget IDk (r_attrs i), r_start i, r_end i with
        | Ok l, Some (id0 :: _), Some s, Some e =>
            let (s', e') := if left then (s, s + 1) else (e - 1, e) in
            Ok (mkRow (r_id i) (r_seqid i) (r_source i) (r_ftype i) (Some s') (Some e') (r_score i) (r_strand i) (r_frame i)
                      (dset IDk [ft ++ [USC] ++ id0] (r_attrs i)) (r_extra i) (feature_bin (Some s') (Some e')) :: l)
        | Ok _, _, _, _ => Err EKey            (* exons without an ID attribute: KeyError *)
        | Err e, _, _, _ => Err e
        end) (Ok []) introns
  end.
