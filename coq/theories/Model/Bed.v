(* Model/Bed.v — coordinate conventions of the exports: len(feature), Feature.sequence (pyfaidx as
   a slice of the record), FeatureDB.bed12 and convert.to_bed12.  Definitions only. *)
From GV Require Import Base.Prelude Base.PyStr Model.Bins Model.DB Model.Parser.
Open Scope Z_scope.

(* Feature.__len__ *)
Definition feature_len (r : row) : result Z :=
  match r_start r, r_end r with Some s, Some e => Ok (e - s + 1) | _, _ => Err EType end.

(* ---- sequence ---- *)
(* pyfaidx.complement_map: ACTGNactgnYRWSKMDVHBXyrwskmdvhbx <-> TGACNtgacnRYWSMKHBDVXrywsmkhbdvx
   (IUPAC ambiguity codes included; W S N X are their own complement) *)
Definition comp (c : N) : N :=
  match c with
  | 65 => 84 | 67 => 71 | 84 => 65 | 71 => 67 | 97 => 116 | 99 => 103 | 116 => 97 | 103 => 99
  | 89 => 82 | 82 => 89 | 75 => 77 | 77 => 75 | 68 => 72 | 86 => 66 | 72 => 68 | 66 => 86
  | 121 => 114 | 114 => 121 | 107 => 109 | 109 => 107 | 100 => 104 | 118 => 98 | 104 => 100 | 98 => 118
  | x => x
  end%N.
Definition revcomp (s : str) : str := rev (map comp s).

(* fasta[chrom][start-1 : stop] *)
Definition slice (seq : str) (s e : Z) : str := firstn (Z.to_nat (e - (s - 1))) (skipn (Z.to_nat (s - 1)) seq).
Definition sequence (seq : str) (s e : Z) (strand : str) (use_strand : bool) : str :=
  let sub := slice seq s e in
  if use_strand && str_eqb strand [45%N] then revcomp sub else sub.

(* ---- bed12 ---- *)
Definition TABs : str := [9%N].
Definition zs (z : Z) : str := str_of_int z.
Definition comma_join (l : list Z) : str := join [44%N] (map zs l).

Definition first_start (l : list row) : option Z := match l with r :: _ => r_start r | [] => None end.
Definition last_end (l : list row) : option Z := match rev l with r :: _ => r_end r | [] => None end.

Definition strip_spaces (s : str) : str := strip (remove_char 32%N s).

Inductive thickmode := ThickBy (kids : list row) | ThinBy (kids : list row) | NoThick.

(* [feat]: the transcript; [blocks], the kids of [mode]: its children of the block / thick / thin types ordered by start *)
Definition bed12 (feat : row) (blocks : list row) (mode : thickmode) (name : option (list str)) (color : option str) : result str :=
  match r_start feat, r_end feat with
  | Some fs, Some fe =>
    let exons := match blocks with [] => [feat] | _ => blocks end in
    match first_start exons, last_end exons, forallb (fun x => match r_start x, r_end x with Some _, Some _ => true | _, _ => false end) exons with
    | Some first, Some last, true =>
      if negb (first =? fs) then Err EValue else
      if negb (last =? fe) then Err EValue else
      let chromStart := fs - 1 in
      let nm := match name with
                | None => Ok [46%N]                      (* KeyError -> "." *)
                | Some (n :: _) => Ok n
                | Some [] => Err EIndex
                end in
      match nm with
      | Err e => Err e
      | Ok nm =>
        let score := if str_eqb (r_score feat) [46%N] then [48%N] else r_score feat in
        let sizes := map (fun x => match r_start x, r_end x with Some s, Some e => e - s + 1 | _, _ => 0 end) exons in
        let starts := map (fun x => match r_start x with Some s => s - 1 - chromStart | None => 0 end) exons in
        let thick :=
          match mode with
          | NoThick => None
          | ThickBy [] | ThinBy [] => Some (fs, fe)
          | ThickBy ks => match first_start ks, last_end ks with Some a, Some b => Some (a - 1, b) | _, _ => None end
          | ThinBy ks => match ks with
                         | k0 :: _ => match r_end k0, (match rev ks with kl :: _ => r_start kl | [] => None end) with
                                      | Some a, Some b => Some (a, b - 1) | _, _ => None end
                         | [] => None
                         end
          end in
        match thick with
        | None => Err EOther
        | Some (ts, te) =>
          let col := match color with None => [48;44;48;44;48]%N | Some c => strip_spaces c end in
          Ok (join TABs [r_seqid feat; zs chromStart; zs fe; nm; score; r_strand feat; zs ts; zs te; col;
                         zs (Z.of_nat (length exons)); comma_join sizes; comma_join starts])
        end
      end
    | _, _, _ => Err EType
    end
  | _, _ => Err EType
  end.

(* convert.to_bed12 *)
Definition to_bed12 (feat : row) (children : list row) (name : option (list str)) : result str :=
  match r_start feat, r_end feat, forallb (fun x => match r_start x, r_end x with Some _, Some _ => true | _, _ => false end) children with
  | Some fs, Some fe, true =>
      match (match name with None => Ok [46%N] | Some (n :: _) => Ok n | Some [] => Err EIndex end) with
      | Err e => Err e
      | Ok nm =>
        let sizes := map (fun x => match r_start x, r_end x with Some s, Some e => e - s + 1 | _, _ => 0 end) children in
        let starts := map (fun x => match r_start x with Some s => s - fs | None => 0 end) children in
        Ok (join TABs [r_seqid feat; zs (fs - 1); zs fe; nm; r_score feat; r_strand feat; zs fs; zs fe; [48;44;48;44;48]%N;
                       zs (Z.of_nat (length children)); comma_join sizes; comma_join starts] ++ [10%N])
      end
  | _, _, _ => Err EType
  end.
