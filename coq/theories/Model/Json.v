(* Model/Json.v — the JSON storage form, as text: helpers._jsonify = simplejson.dumps(obj, separators=(",",":"))
   (ensure_ascii: everything outside space..~ is written as \uXXXX, code points above U+FFFF as a surrogate pair)
   and helpers._unjsonify = simplejson.loads, restricted to the two shapes gffutils stores:
   attribute mappings  {"key":["v",...],...}  and the dialect dictionary (booleans, strings, one list of strings).
   The decoder is a tokenizer (structural recursion over the text, strict mode: raw control characters rejected,
   \uD8xx\uDCxx pairs combined, a lone surrogate escape kept) followed by a token state machine.  Anything
   outside the sub-grammar (numbers, null, nested containers) gives None.  Definitions only. *)
From GV Require Import Base.Prelude Base.PyStr Model.Parser.
Open Scope N_scope.

(* ---- encoder ---- *)
Definition jhexd (d : N) : N := if d <? 10 then 48 + d else 87 + d.          (* lower case *)
Definition jhex4 (n : N) : list N :=
  [jhexd (n / 4096); jhexd ((n / 256) mod 16); jhexd ((n / 16) mod 16); jhexd (n mod 16)].
Definition uesc (n : N) : list N := 92 :: 117 :: jhex4 n.
Definition esc_char (c : N) : list N :=
  if c =? 34 then [92; 34] else if c =? 92 then [92; 92]
  else if c =? 10 then [92; 110] else if c =? 13 then [92; 114] else if c =? 9 then [92; 116]
  else if c =? 8 then [92; 98] else if c =? 12 then [92; 102]
  else if (32 <=? c) && (c <=? 126) then [c]
  else if c <? 65536 then uesc c
  else uesc (55296 + (c - 65536) / 1024) ++ uesc (56320 + (c - 65536) mod 1024).
Definition qstr (s : list N) : list N := 34 :: flat_map esc_char s ++ [34].

(* the member values gffutils stores *)
Inductive jval := JS (s : list N) | JB (b : bool) | JL (l : list (list N)).
Definition jobj := list (list N * jval).

Fixpoint jjoin (l : list (list N)) : list N :=
  match l with [] => [] | [x] => x | x :: r => x ++ 44 :: jjoin r end.
Definition J_TRUE : list N := [116; 114; 117; 101].
Definition J_FALSE : list N := [102; 97; 108; 115; 101].
Definition dump_val (v : jval) : list N :=
  match v with
  | JS s => qstr s
  | JB b => if b then J_TRUE else J_FALSE
  | JL l => 91 :: jjoin (map qstr l) ++ [93]
  end.
Definition dump_member (kv : list N * jval) : list N := qstr (fst kv) ++ 58 :: dump_val (snd kv).
Definition dumps (o : jobj) : list N := 123 :: jjoin (map dump_member o) ++ [125].

(* ---- decoder: tokens ---- *)
Inductive tok := TLBrace | TRBrace | TLBrack | TRBrack | TColon | TComma | TTrue | TFalse | TStr (s : list N).

Definition unhexd (c : N) : option N :=
  if (48 <=? c) && (c <=? 57) then Some (c - 48)
  else if (97 <=? c) && (c <=? 102) then Some (c - 87)
  else if (65 <=? c) && (c <=? 70) then Some (c - 55)
  else None.
Definition unhex4 (a b c d : N) : option N :=
  match unhexd a, unhexd b, unhexd c, unhexd d with
  | Some x, Some y, Some z, Some w => Some (x * 4096 + y * 256 + z * 16 + w)
  | _, _, _, _ => None
  end.
Definition is_hi (u : N) : bool := (55296 <=? u) && (u <=? 56319).
Definition is_lo (u : N) : bool := (56320 <=? u) && (u <=? 57343).
Definition combine (hi lo : N) : N := 65536 + (hi - 55296) * 1024 + (lo - 56320).
Definition simple_esc (e : N) : option N :=
  if e =? 34 then Some 34 else if e =? 92 then Some 92 else if e =? 47 then Some 47
  else if e =? 98 then Some 8 else if e =? 102 then Some 12 else if e =? 110 then Some 10
  else if e =? 114 then Some 13 else if e =? 116 then Some 9 else None.
Definition jspace (c : N) : bool := (c =? 32) || (c =? 9) || (c =? 10) || (c =? 13).

Definition otcons (t : tok) (r : option (list tok)) : option (list tok) :=
  match r with Some l => Some (t :: l) | None => None end.

(* mode None: between tokens; mode (Some acc): inside a string, acc = decoded characters so far, reversed *)
Fixpoint lex (mode : option (list N)) (l : list N) {struct l} : option (list tok) :=
  match mode with
  | None =>
      match l with
      | [] => Some []
      | c :: r =>
          if jspace c then lex None r
          else if c =? 123 then otcons TLBrace (lex None r)
          else if c =? 125 then otcons TRBrace (lex None r)
          else if c =? 91 then otcons TLBrack (lex None r)
          else if c =? 93 then otcons TRBrack (lex None r)
          else if c =? 58 then otcons TColon (lex None r)
          else if c =? 44 then otcons TComma (lex None r)
          else if c =? 34 then lex (Some []) r
          else if c =? 116 then
            match r with
            | c1 :: c2 :: c3 :: r' => if (c1 =? 114) && (c2 =? 117) && (c3 =? 101) then otcons TTrue (lex None r') else None
            | _ => None
            end
          else if c =? 102 then
            match r with
            | c1 :: c2 :: c3 :: c4 :: r' =>
                if (c1 =? 97) && (c2 =? 108) && (c3 =? 115) && (c4 =? 101) then otcons TFalse (lex None r') else None
            | _ => None
            end
          else None
      end
  | Some acc =>
      match l with
      | [] => None                                               (* unterminated string *)
      | c :: r =>
          if c =? 34 then otcons (TStr (rev acc)) (lex None r)
          else if c =? 92 then
            match r with
            | [] => None
            | e :: r1 =>
                if e =? 117 then
                  match r1 with
                  | a :: b :: x :: d :: r2 =>
                      match unhex4 a b x d with
                      | None => None
                      | Some u =>
                          if is_hi u then
                            match r2 with
                            | b1 :: u1 :: a2 :: b2 :: x2 :: d2 :: r3 =>
                                if (b1 =? 92) && (u1 =? 117) then
                                  match unhex4 a2 b2 x2 d2 with
                                  | None => None
                                  | Some u2 => if is_lo u2 then lex (Some (combine u u2 :: acc)) r3
                                               else lex (Some (u :: acc)) r2
                                  end
                                else lex (Some (u :: acc)) r2
                            | _ => lex (Some (u :: acc)) r2
                            end
                          else lex (Some (u :: acc)) r2
                      end
                  | _ => None
                  end
                else match simple_esc e with
                     | Some x => lex (Some (x :: acc)) r1
                     | None => None
                     end
            end
          else if c <? 32 then None                              (* strict: raw control character *)
          else lex (Some (c :: acc)) r
      end
  end.

(* ---- decoder: token state machine for  { "k" : value , ... }  with dict semantics for repeated keys ---- *)
Fixpoint oset (k : list N) (v : jval) (o : jobj) : jobj :=
  match o with
  | [] => [(k, v)]
  | (k', v') :: o' => if str_eqb k k' then (k', v) :: o' else (k', v') :: oset k v o'
  end.

Inductive pst :=
| PStart | PObj0 (o : jobj) | PKey (o : jobj) (k : list N) | PColon (o : jobj) (k : list N)
| PList0 (o : jobj) (k : list N) | PListS (o : jobj) (k : list N) (vs : list (list N))
| PListC (o : jobj) (k : list N) (vs : list (list N))
| PVal (o : jobj) | PComma (o : jobj) | PDone (o : jobj).

Definition pstep (s : pst) (t : tok) : option pst :=
  match s, t with
  | PStart, TLBrace => Some (PObj0 [])
  | PObj0 o, TRBrace => Some (PDone o)
  | PObj0 o, TStr k => Some (PKey o k)
  | PComma o, TStr k => Some (PKey o k)
  | PKey o k, TColon => Some (PColon o k)
  | PColon o k, TStr s => Some (PVal (oset k (JS s) o))
  | PColon o k, TTrue => Some (PVal (oset k (JB true) o))
  | PColon o k, TFalse => Some (PVal (oset k (JB false) o))
  | PColon o k, TLBrack => Some (PList0 o k)
  | PList0 o k, TRBrack => Some (PVal (oset k (JL []) o))
  | PList0 o k, TStr s => Some (PListS o k [s])
  | PListS o k vs, TComma => Some (PListC o k vs)
  | PListS o k vs, TRBrack => Some (PVal (oset k (JL (rev vs)) o))
  | PListC o k vs, TStr s => Some (PListS o k (s :: vs))
  | PVal o, TComma => Some (PComma o)
  | PVal o, TRBrace => Some (PDone o)
  | _, _ => None
  end.

Fixpoint prun (s : pst) (ts : list tok) : option pst :=
  match ts with
  | [] => Some s
  | t :: r => match pstep s t with Some s' => prun s' r | None => None end
  end.

Definition loads (text : list N) : option jobj :=
  match lex None text with
  | Some ts => match prun PStart ts with Some (PDone o) => Some o | _ => None end
  | None => None
  end.

(* ---- the two stored shapes ---- *)
Definition attrs_obj (a : list (list N * list (list N))) : jobj := map (fun kv => (fst kv, JL (snd kv))) a.
(* Attributes(obj): every value goes through __setitem__; a string is wrapped, a list kept, a boolean is no string *)
Fixpoint obj_attrs (o : jobj) : option (list (list N * list (list N))) :=
  match o with
  | [] => Some []
  | (k, v) :: r =>
      match v, obj_attrs r with
      | JL l, Some a => Some ((k, l) :: a)
      | JS s, Some a => Some ((k, [s]) :: a)
      | _, _ => None
      end
  end.
Definition dumps_attrs (a : list (list N * list (list N))) : list N := dumps (attrs_obj a).
Definition loads_attrs (t : list N) : option (list (list N * list (list N))) :=
  match loads t with Some o => obj_attrs o | None => None end.

(* dialect dictionary, keys in the order parser._split_keyvals / constants.dialect create them *)
Definition K_LEADING : list N := [108;101;97;100;105;110;103;32;115;101;109;105;99;111;108;111;110].
Definition K_TRAILING : list N := [116;114;97;105;108;105;110;103;32;115;101;109;105;99;111;108;111;110].
Definition K_QUOTED : list N := [113;117;111;116;101;100;32;71;70;70;50;32;118;97;108;117;101;115].
Definition K_FSEP : list N := [102;105;101;108;100;32;115;101;112;97;114;97;116;111;114].
Definition K_KVSEP : list N := [107;101;121;118;97;108;32;115;101;112;97;114;97;116;111;114].
Definition K_MVSEP : list N := [109;117;108;116;105;118;97;108;32;115;101;112;97;114;97;116;111;114].
Definition K_FMT : list N := [102;109;116].
Definition K_REPEATED : list N := [114;101;112;101;97;116;101;100;32;107;101;121;115].
Definition K_ORDER : list N := [111;114;100;101;114].

Definition dialect_obj (d : dialect) : jobj :=
  [(K_LEADING, JB (d_leading d)); (K_TRAILING, JB (d_trailing d)); (K_QUOTED, JB (d_quoted d));
   (K_FSEP, JS (d_fsep d)); (K_KVSEP, JS (d_kvsep d)); (K_MVSEP, JS (d_mvsep d)); (K_FMT, JS (d_fmt d));
   (K_REPEATED, JB (d_repeated d)); (K_ORDER, JL (d_order d))].

Fixpoint oget (k : list N) (o : jobj) : option jval :=
  match o with [] => None | (k', v) :: r => if str_eqb k k' then Some v else oget k r end.
Definition obj_dialect (o : jobj) : option dialect :=
  match oget K_LEADING o, oget K_TRAILING o, oget K_QUOTED o, oget K_FSEP o, oget K_KVSEP o, oget K_MVSEP o,
        oget K_FMT o, oget K_REPEATED o, oget K_ORDER o with
  | Some (JB a), Some (JB b), Some (JB c), Some (JS f), Some (JS kv), Some (JS mv), Some (JS fm), Some (JB r), Some (JL ord) =>
      Some (mkDialect a b c f kv mv fm r ord)
  | _, _, _, _, _, _, _, _, _ => None
  end.
Definition dumps_dialect (d : dialect) : list N := dumps (dialect_obj d).
Definition loads_dialect (t : list N) : option dialect :=
  match loads t with Some o => obj_dialect o | None => None end.

(* ---- the domain of the round-trip theorems ---- *)
(* code points; no high surrogate directly followed by a low one (every sequence of Unicode scalar values qualifies) *)
Definition cp (c : N) : Prop := c < 1114112.
(* Unicode scalar values: what "any Unicode content" ranges over *)
Definition scalar (c : N) : bool := (c <? 55296) || ((57344 <=? c) && (c <? 1114112)).
Fixpoint no_pair (s : list N) : bool :=
  match s with
  | c :: r => match r with c2 :: _ => negb (is_hi c && is_lo c2) | [] => true end && no_pair r
  | [] => true
  end.
Definition str_ok (s : list N) : Prop := Forall cp s /\ no_pair s = true.
Definition attrs_ok (a : list (list N * list (list N))) : Prop :=
  Forall (fun kv => str_ok (fst kv) /\ Forall str_ok (snd kv)) a.
Definition dialect_ok (d : dialect) : Prop :=
  str_ok (d_fsep d) /\ str_ok (d_kvsep d) /\ str_ok (d_mvsep d) /\ str_ok (d_fmt d) /\ Forall str_ok (d_order d).
