(* Model/Attrs.v — helpers.merge_attributes (incl. numeric_sort over decimal strings) and the
   Attributes container's list wrapping.  Definitions only. *)
From GV Require Import Base.Prelude Base.PyStr Model.Bins Model.DB Model.Parser Model.Import.
Open Scope Z_scope.

(* ---- the part of float() that numeric_sort needs ----
   Dec m k  = the decimal m * 10^-k (strings of the form [-]digits[.digits], at most 15 digits, where
              distinct decimals are distinct doubles and order is preserved);
   NonNum   = float() certainly raises ValueError (an ASCII character that no float literal contains);
   Unknown  = anything else (exponents, inf/nan, underscores, whitespace, non-ASCII digits ...): outside the model *)
Inductive numclass := Dec (m : Z) (k : nat) | NonNum | Unknown.

(* characters a numeric literal other than inf/infinity/nan is made of *)
Definition float_alphabet (c : N) : bool :=
  is_digit c || N.eqb c 43 || N.eqb c 45 || N.eqb c 46 || N.eqb c 95 || N.eqb c 101 || N.eqb c 69.
(* float() strips whitespace and knows non-ASCII digits and spaces: outside the model *)
Definition float_exotic (c : N) : bool := N.leb c 32 || N.leb 127 c.
Definition INF_WORDS : list str := [[105;110;102]; [105;110;102;105;110;105;116;121]; [110;97;110]]%N.

Fixpoint all_digits_b (s : str) : bool := match s with [] => true | c :: s' => is_digit c && all_digits_b s' end.

Definition classify (s : str) : numclass :=
  if existsb float_exotic s then Unknown else
  let unsigned := match s with 45%N :: r => r | 43%N :: r => r | _ => s end in
  if existsb (str_eqb (map ascii_lower unsigned)) INF_WORDS then Unknown else
  if negb (forallb float_alphabet s) then NonNum else
  (* a float literal (other than inf/nan) starts, after its sign, with a digit or the point: "", "+", "e1", "_1" raise *)
  if negb (match unsigned with c :: _ => is_digit c || N.eqb c 46 | [] => false end) then NonNum else
  let '(neg, body) := match s with 45%N :: r => (true, r) | _ => (false, s) end in
  let parts := split [46%N] body in
  match parts with
  | [ip] => if all_digits_b ip && negb (match ip with [] => true | _ => false end) && Nat.leb (length ip) 15
            then match digits_val ip 0 with Some v => Dec (if neg then - v else v) 0 | None => Unknown end else Unknown
  | [ip; fp] => if all_digits_b ip && all_digits_b fp && negb (match ip with [] => true | _ => false end)
                   && negb (match fp with [] => true | _ => false end) && Nat.leb (length ip + length fp) 15
                then match digits_val (ip ++ fp) 0 with Some v => Dec (if neg then - v else v) (length fp) | None => Unknown end
                else Unknown
  | _ => Unknown
  end.

(* compare m1*10^-k1 with m2*10^-k2 *)
Definition dec_cmp (m1 : Z) (k1 : nat) (m2 : Z) (k2 : nat) : comparison :=
  Z.compare (m1 * 10 ^ Z.of_nat k2) (m2 * 10 ^ Z.of_nat k1).

Fixpoint str_cmp (a b : str) : comparison :=
  match a, b with
  | [], [] => Eq | [], _ :: _ => Lt | _ :: _, [] => Gt
  | x :: a', y :: b' => match N.compare x y with Eq => str_cmp a' b' | c => c end
  end.

(* sorted([(float(v), v) ...]) : by value, then by the string *)
Definition num_le (a b : (Z * nat) * str) : bool :=
  match dec_cmp (fst (fst a)) (snd (fst a)) (fst (fst b)) (snd (fst b)) with
  | Lt => true | Gt => false
  | Eq => match str_cmp (snd a) (snd b) with Gt => false | _ => true end
  end.
Fixpoint num_insert (x : (Z * nat) * str) (l : list ((Z * nat) * str)) :=
  match l with [] => [x] | y :: l' => if num_le x y then x :: l else y :: num_insert x l' end.

Fixpoint all_dec (vs : list str) : option (list ((Z * nat) * str)) :=
  match vs with
  | [] => Some []
  | v :: vs' => match classify v, all_dec vs' with Dec m k, Some l => Some (((m, k), v) :: l) | _, _ => None end
  end.

(* Ok (sorted values) | Err EOther when a value's float() behaviour is outside the model *)
Definition sort_values (numeric : bool) (vs : list str) : result (list str) :=
  let set := as_set vs in
  if negb numeric then Ok set else
  if existsb (fun v => match classify v with Unknown => true | _ => false end) set then Err EOther else
  match all_dec set with
  | Some l => Ok (map snd (fold_right num_insert [] l))
  | None => Ok set                                  (* some value is not a number: ValueError -> plain sort *)
  end.

(* merge_attributes(attr1, attr2, numeric_sort) *)
Definition merge_attributes (numeric : bool) (a1 a2 : attrs) : result attrs :=
  let new_d := fold_left (fun d kv => dset (fst kv) (snd kv) d) a2 a1 in
  let new_d := fold_left (fun d kv => if dhas (fst kv) a2 then dappend (fst kv) (snd kv) d else d) a1 new_d in
  fold_right (fun kv acc => match sort_values numeric (snd kv), acc with
                            | Ok vs, Ok l => Ok ((fst kv, vs) :: l)
                            | Err e, _ => Err e
                            | _, Err e => Err e
                            end) (Ok []) new_d.

(* ---- vocabulary of C17_merge_numeric_ascending ---- *)
(* the numeric reading of a value *)
Definition dec_le (a b : str) : Prop :=
  match classify a, classify b with
  | Dec m1 k1, Dec m2 k2 => m1 * 10 ^ Z.of_nat k2 <= m2 * 10 ^ Z.of_nat k1
  | _, _ => False
  end.

