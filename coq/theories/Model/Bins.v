(* Model/Bins.v — hand-written model of gffutils.bins.bins and its declarative
   specification (UCSC 5-level binning).  No proofs here. *)
From GV Require Import Base.Prelude.
Open Scope Z_scope.

(* result of bins(): an int (one=True) or a set, kept as a list of closed ranges *)
Inductive bres := RInt (b : Z) | RSet (ranges : list (Z * Z)) | RErr.

Inductive fmt := Gff | Bed.
Definition coord_off (f : fmt) : Z := match f with Gff => 1 | Bed => 0 end.

Definition MAXC : Z := 536870912. (* 2^29 *)

(* (offset, shift) per level, finest first *)
Definition levels : list (Z * Z) := [(4681,17);(585,20);(73,23);(9,26);(1,29)].

(* number of bins at the level with shift sh: 2^(29-sh) *)
Definition level_size (sh : Z) : Z := 2 ^ (29 - sh).

Definition in_range (f : fmt) (start stop : Z) : bool :=
  (coord_off f <=? start) && (start <? MAXC) && (0 <=? stop) && (stop <? MAXC).

Fixpoint one_loop (ls : list (Z*Z)) (s e : Z) : option Z :=
  match ls with
  | [] => None
  | (off, sh) :: tl =>
      if Z.shiftr s sh =? Z.shiftr e sh then Some (off + Z.shiftr s sh) else one_loop tl s e
  end.

(* ranges accumulated by the loop: the code prepends, so coarsest first, then {1} *)
Definition set_ranges (s e : Z) : list (Z*Z) :=
  rev (map (fun '(o, sh) => (o + Z.shiftr s sh, o + Z.shiftr e sh)) levels) ++ [(1,1)].

(* The model: what bins(start, stop, fmt, one) returns. *)
Definition bins (f : fmt) (start stop : Z) (one : bool) : bres :=
  if in_range f start stop then
    if one then
      match one_loop levels (start - coord_off f) stop with
      | Some b => RInt b
      | None => RSet (set_ranges (start - coord_off f) stop)   (* unreachable in range: see Proofs *)
      end
    else RSet (set_ranges (start - coord_off f) stop)
  else if one then RInt 1 else RSet [(1,1)].

Definition in_ranges (b : Z) (rs : list (Z*Z)) : bool :=
  existsb (fun '(lo, hi) => (lo <=? b) && (b <=? hi)) rs.

Definition bin_one (f : fmt) (start stop : Z) : Z :=
  match bins f start stop true with RInt b => b | _ => 0 end.

Definition bin_set_mem (f : fmt) (b start stop : Z) : bool :=
  match bins f start stop false with RSet rs => in_ranges b rs | _ => false end.

(* ---- specification vocabulary ---------------------------------------- *)
(* bin number b is the i-th bin of the level (off, sh) *)
Definition is_bin_of (b off sh i : Z) : Prop :=
  In (off, sh) levels /\ b = off + i /\ 0 <= i < level_size sh.

(* 0-based closed extent of bin i at shift sh: [i*2^sh, (i+1)*2^sh - 1] *)
Definition ext_lo (sh i : Z) : Z := i * 2 ^ sh.
Definition ext_hi (sh i : Z) : Z := (i + 1) * 2 ^ sh - 1.

(* ---- Feature.calc_bin / astuple / helpers._bin_from_dict ---------------- *)
(* coordinates are None ('.') or integers *)
(* Feature.calc_bin: bins.bins(start, end) where a TypeError (None coordinate reached by a
   comparison) gives None.  The first test `start >= MAX_CHROM_SIZE or ...` short-circuits, so a
   huge start with end=None still answers 1. *)
Definition feature_bin (start stop : option Z) : option Z :=
  match start, stop with
  | Some s, Some e => Some (bin_one Gff s e)
  | Some s, None => if s >=? MAXC then Some 1 else None
  | None, _ => None
  end.

(* helpers._bin_from_dict: int() of both fields first; '.' -> ValueError -> None *)
Definition dict_bin (start stop : option Z) : option Z :=
  match start, stop with
  | Some s, Some e => Some (bin_one Gff s e)
  | _, _ => None
  end.
