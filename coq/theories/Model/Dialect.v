(* Model/Dialect.v — helpers._choose_dialect (weighted vote per dialect key, first-seen key
   order), the peek window of DataIterator, and the format routing of create_db/update.
   Follows the structure of the Python code.  Definitions only. *)
From GV Require Import Base.Prelude Base.PyStr Base.Utf8 Base.WordTable Model.DB Model.Parser.
Open Scope N_scope.

Section Vote.
  Context {V : Type} (veqb : V -> V -> bool).

  (* count[k][v] = count[k].get(v, 0) + weight : a dict keeps the position of the first insertion *)
  Fixpoint tally_add (v : V) (w : N) (t : list (V * N)) : list (V * N) :=
    match t with
    | [] => [(v, w)]
    | (v', w') :: t' => if veqb v v' then (v', w' + w) :: t' else (v', w') :: tally_add v w t'
    end.
  Definition tally (obs : list (V * N)) : list (V * N) :=
    fold_left (fun t o => tally_add (fst o) (snd o) t) obs [].

  (* sorted(items, key=weight, reverse=True): stable, descending *)
  Fixpoint insert_desc (x : V * N) (l : list (V * N)) : list (V * N) :=
    match l with
    | [] => [x]
    | y :: l' => if snd y <=? snd x then x :: l else y :: insert_desc x l'
    end.
  Definition sort_desc (l : list (V * N)) : list (V * N) := fold_right insert_desc [] l.

  (* vs[0][0] *)
  Definition vote (obs : list (V * N)) (dflt : V) : V :=
    match sort_desc (tally obs) with (v, _) :: _ => v | [] => dflt end.
End Vote.

(* what _choose_dialect looks at in a feature *)
Record voter := mkVoter { v_keys : list str; v_dialect : dialect }.
Definition weight (f : voter) : N := N.of_nat (length (v_keys f)).

Definition obs_of {V} (field : dialect -> V) (fs : list voter) : list (V * N) :=
  map (fun f => (field (v_dialect f), weight f)) fs.

(* final_order: keys appended as they are first observed *)
Definition add_keys (acc : list str) (ks : list str) : list str :=
  fold_left (fun acc k => if mem_str k acc then acc else acc ++ [k]) ks acc.
Definition union_order (fs : list voter) : list str := fold_left (fun acc f => add_keys acc (v_keys f)) fs [].

Definition choose_dialect (fs : list voter) : dialect :=
  match fs with
  | [] => default_dialect
  | _ =>
    mkDialect (vote Bool.eqb (obs_of d_leading fs) false) (vote Bool.eqb (obs_of d_trailing fs) false)
              (vote Bool.eqb (obs_of d_quoted fs) false) (vote str_eqb (obs_of d_fsep fs) [])
              (vote str_eqb (obs_of d_kvsep fs) []) (vote str_eqb (obs_of d_mvsep fs) [])
              (vote str_eqb (obs_of d_fmt fs) []) (vote Bool.eqb (obs_of d_repeated fs) false)
              (union_order fs)
  end.

(* a feature line seen through the inference path (no dialect supplied at peek time) *)
Definition voter_of_attr_string (isw : N -> bool) (s : str) : voter :=
  let '(a, D) := split_infer isw s in mkVoter (map fst a) D.

(* DataIterator: a supplied dialect is used verbatim; otherwise the vote over the first
   checklines+1 features (peek(n) takes n+1 items) *)
Definition data_iterator_dialect (supplied : option dialect) (checklines : nat) (fs : list voter) : dialect :=
  match supplied with
  | Some D => D
  | None => choose_dialect (firstn (Datatypes.S checklines) fs)
  end.

(* create_db / FeatureDB.update: which importer runs *)
Inductive importer := ImpGFF | ImpGTF.
Definition route (force_gff : bool) (D : dialect) : result importer :=
  if force_gff || str_eqb (d_fmt D) GFF3 then Ok ImpGFF
  else if str_eqb (d_fmt D) GTF then Ok ImpGTF
  else Err EValue.
