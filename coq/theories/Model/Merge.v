(* Model/Merge.v — FeatureDB.merge: the single pass that accumulates a run while all criteria
   accept (run so far, feature); _finalize_merge; children_bp; merge_all.  The shipped criteria
   are the definitions generated from merge_criteria.py (Gen/GenCriteria.v).  Definitions only. *)
From GV Require Import Base.Prelude Base.PyStr Model.Bins Model.DB Model.Parser Model.Query Model.Import
  Gen.GenLib Gen.GenCriteria.
Open Scope Z_scope.

Inductive criterion :=
| CSeqid | CStrand | CFtype | CExact | COvEnd | COvStart | COvAny
| COvEndT (t : Z) | COvStartT (t : Z) | COvAnyT (t : Z)
| CMaxComps (n : nat)          (* custom: lambda acc, cur, comps: len(comps) < n *)
| CGapLe (d : Z).              (* custom: lambda acc, cur, comps: cur.start - acc.end <= d *)

Definition crit_eval (c : criterion) (acc cur : mfeat) (ncomps : nat) : bool :=
  match c with
  | CSeqid => gen_seqid acc cur | CStrand => gen_strand acc cur | CFtype => gen_feature_type acc cur
  | CExact => gen_exact_coordinates_only acc cur
  | COvEnd => gen_overlap_end_inclusive acc cur | COvStart => gen_overlap_start_inclusive acc cur
  | COvAny => gen_overlap_any_inclusive acc cur
  | COvEndT t => gen_overlap_end_threshold t acc cur | COvStartT t => gen_overlap_start_threshold t acc cur
  | COvAnyT t => gen_overlap_any_threshold t acc cur
  | CMaxComps n => Nat.ltb ncomps n
  | CGapLe d => (m_start cur - m_end acc <=? d)
  end.

Definition crits := list criterion.
Definition accept (cs : crits) (acc cur : mfeat) (n : nat) : bool := forallb (fun c => crit_eval c acc cur n) cs.

Definition default_criteria : crits := [CSeqid; COvEnd; CStrand; CFtype].

(* an input Feature object: identity (its id), the view the criteria see, source and frame *)
Record minput := mkIn { mi_id : str; mi_v : mfeat; mi_source : str; mi_frame : str }.

Inductive mout :=
| OSingle (i : minput)                                                   (* yielded unchanged, no children *)
| OMerged (id : str) (acc : mfeat) (frame : str) (children : list minput).  (* a new Feature *)

Definition COMMAc : N := 44%N.
Definition SEQFEAT : str := [115;101;113;117;101;110;99;101;95;102;101;97;116;117;114;101]%N.  (* sequence_feature *)

(* "Set mismatched properties to ambiguous values", min start, max end *)
Definition extend (acc : mfeat) (f : mfeat) : mfeat :=
  {| m_seqid := if mem_str (m_seqid f) (split [COMMAc] (m_seqid acc)) then m_seqid acc else m_seqid acc ++ [COMMAc] ++ m_seqid f;
     m_strand := if str_eqb (m_strand f) (m_strand acc) then m_strand acc else [46%N];
     m_ftype := if str_eqb (m_ftype f) (m_ftype acc) then m_ftype acc else SEQFEAT;
     m_start := if m_start f <? m_start acc then m_start f else m_start acc;
     m_end := if m_end acc <? m_end f then m_end f else m_end acc |}.
Definition extend_frame (fr : str) (f : minput) : str := if str_eqb (mi_frame f) fr then fr else [46%N].

Inductive mstate :=
| SNone
| SUnchecked (c : minput)                       (* current = c, children = [] *)
| SRun1 (c : minput)                            (* current = c itself, children = [c] *)
| SRunN (id : str) (acc : mfeat) (frame : str) (children : list minput).

Definition mstep (cs : crits) (sa : mstate * counters) (f : minput) : (mstate * counters) * list mout :=
  let '(st, a) := sa in
  let from_run1 := fun (c : minput) =>
    if accept cs (mi_v c) (mi_v f) 1 then
      let '(nid, a') := auto_incr (m_ftype (mi_v c)) a in
      ((SRunN nid (extend (mi_v c) (mi_v f)) (extend_frame (mi_frame c) f) [c; f], a'), [])
    else ((SUnchecked f, a), [OSingle c]) in
  match st with
  | SNone => if accept cs (mi_v f) (mi_v f) 0 then ((SRun1 f, a), []) else ((SNone, a), [OSingle f])
  | SUnchecked c => if accept cs (mi_v c) (mi_v c) 0 then from_run1 c else ((SUnchecked f, a), [OSingle c])
  | SRun1 c => from_run1 c
  | SRunN id acc fr ch =>
      if accept cs acc (mi_v f) (length ch) then ((SRunN id (extend acc (mi_v f)) (extend_frame fr f) (ch ++ [f]), a), [])
      else ((SUnchecked f, a), [OMerged id acc fr ch])
  end.

Definition mfinish (st : mstate) : list mout :=
  match st with
  | SNone => []
  | SUnchecked c => [OSingle c]
  | SRun1 c => [OSingle c]
  | SRunN id acc fr ch => [OMerged id acc fr ch]
  end.

Fixpoint mrun (cs : crits) (fs : list minput) (sa : mstate * counters) : list mout * counters :=
  match fs with
  | [] => (mfinish (fst sa), snd sa)
  | f :: fs' => let '(sa', out) := mstep cs sa f in
                let '(rest, a) := mrun cs fs' sa' in (out ++ rest, a)
  end.

Definition merge (cs : crits) (fs : list minput) (a : counters) : list mout * counters := mrun cs fs (SNone, a).

Definition members (o : mout) : list minput := match o with OSingle i => [i] | OMerged _ _ _ ch => ch end.
Definition out_view (o : mout) : mfeat := match o with OSingle i => mi_v i | OMerged _ acc _ _ => acc end.
Definition out_len (o : mout) : Z := m_end (out_view o) - m_start (out_view o) + 1.

(* children_bp *)
Definition children_bp (merge_first : bool) (cs : crits) (kids : list minput) : Z :=
  if merge_first then fold_right Z.add 0 (map out_len (fst (merge cs kids [])))
  else fold_right Z.add 0 (map (fun k => m_end (mi_v k) - m_start (mi_v k) + 1) kids).

(* size of the union of closed intervals (canon/set_size from Model/Query.v work on closed ranges) *)
Definition union_size (kids : list minput) : Z := set_size (map (fun k => (m_start (mi_v k), m_end (mi_v k))) kids).

(* the union taken per (seqid, strand, featuretype) class, which is what merging by the default
   criteria can mean: features of different classes are never joined *)
Definition same_class (a b : mfeat) : bool :=
  str_eqb (m_seqid a) (m_seqid b) && str_eqb (m_strand a) (m_strand b) && str_eqb (m_ftype a) (m_ftype b).
Fixpoint class_reps (kids : list minput) : list minput :=
  match kids with
  | [] => []
  | k :: l => k :: filter (fun x => negb (same_class (mi_v k) (mi_v x))) (class_reps l)
  end.
Definition union_size_by_class (kids : list minput) : Z :=
  fold_right Z.add 0 (map (fun rep => union_size (filter (fun x => same_class (mi_v rep) (mi_v x)) kids)) (class_reps kids)).

(* ---- merge_all (default merge_order, one featuretype group = everything) ---- *)
From GV Require Import Model.Order.

Definition minput_of_row (r : row) : option minput :=
  match r_start r, r_end r with
  | Some s, Some e => Some (mkIn (r_id r) {| m_seqid := r_seqid r; m_strand := r_strand r; m_ftype := r_ftype r;
                                              m_start := s; m_end := e |} (r_source r) (r_frame r))
  | _, _ => None
  end.

Definition IDKEY : str := [73;68]%N.

(* the row stored for a merged output: columns of the copy of the first child with the merged
   extent/ambiguous values, source = comma-joined set of the children's sources, attributes {ID: [id]} *)
Definition merged_row (first : row) (id : str) (acc : mfeat) (fr : str) (ch : list minput) : row :=
  set_bin (mkRow id (m_seqid acc) (join [COMMAc] (as_set (map mi_source ch))) (m_ftype acc) (Some (m_start acc)) (Some (m_end acc))
                 (r_score first) (m_strand acc) fr [(IDKEY, [id])] [] None).

Definition set_parent (pid : str) (r : row) : row := set_attrs (dset PARENT [pid] (r_attrs r)) r.

Definition apply_merged (exclude : bool) (st : ist) (o : mout) : result ist :=
  match o with
  | OSingle _ => Ok st
  | OMerged id acc fr ch =>
      match ch with
      | [] => Ok st
      | c0 :: _ =>
        match find_id (mi_id c0) (s_rows st) with
        | None => Err EOther
        | Some first =>
          if has_id id (s_rows st) then Err EIntegrity else
          let rows := s_rows st ++ [merged_row first id acc fr ch] in
          let kids := map mi_id ch in
          if exclude then
            Ok (mkSt (filter (fun r => negb (mem_str (r_id r) kids)) rows)
                     (filter (fun x => negb (mem_str (rel_parent x) kids || mem_str (rel_child x) kids)) (s_rels st))
                     (s_dups st) (s_auto st))
          else
            if existsb (fun k => has_rel (mkRel id k 1) (s_rels st)) kids then Err EIntegrity else
            Ok (mkSt (map (fun r => if mem_str (r_id r) kids then set_parent id r else r) rows)
                     (s_rels st ++ map (fun k => mkRel id k 1) kids) (s_dups st) (s_auto st))
        end
      end
  end.

Fixpoint apply_all (exclude : bool) (st : ist) (outs : list mout) : result ist :=
  match outs with
  | [] => Ok st
  | o :: l => match apply_merged exclude st o with Ok st' => apply_all exclude st' l | Err e => Err e end
  end.

(* [mem] = the FeatureDB object's in-memory counters, which merge() draws ids from *)
(* merge_all(merge_order, merge_criteria, featuretypes_groups=(None,)): one pass of merge() over the whole table in merge_order *)
Definition default_merge_order : list okey := [KSeqid; KFtype; KStrand; KStart].
Definition merge_all_with (order : list okey) (cs : crits) (exclude : bool) (st : ist) (mem : counters) : result (ist * counters) :=
  let orows := map (fun r => mkORow r [] [] 0) (s_rows st) in
  let sorted := sort_rows (directed order false) orows in
  let ins := flat_map (fun o => match minput_of_row (o_row o) with Some i => [i] | None => [] end) sorted in
  if negb (Nat.eqb (length ins) (length sorted)) then Err EType     (* '.' coordinates: len()/comparisons fail *)
  else let '(outs, mem') := merge cs ins mem in
       match apply_all exclude st outs with Ok st' => Ok (st', mem') | Err e => Err e end.
Definition merge_all (exclude : bool) (st : ist) (mem : counters) : result (ist * counters) :=
  merge_all_with default_merge_order default_criteria exclude st mem.

(* ---- counting covered positions (C16_children_bp_union) ---- *)
Fixpoint zrange (lo : Z) (n : nat) : list Z := match n with O => [] | S k => lo :: zrange (lo + 1) k end.
Definition zcount (P : Z -> bool) (lo hi : Z) : Z := Z.of_nat (length (filter P (zrange lo (Z.to_nat (hi - lo))))).

Definition in_kids (kids : list minput) (p : Z) : bool :=
  existsb (fun k => (m_start (mi_v k) <=? p) && (p <=? m_end (mi_v k))) kids.

(* ---- inputs of several classes (C16_default_runs_per_class) ---- *)
Definition class_of (v : mfeat) : str * str * str := (m_seqid v, m_strand v, m_ftype v).
Definition block_class (b : list minput) : str * str * str :=
  match b with f :: _ => class_of (mi_v f) | [] => ([], [], []) end.
(* the input cut at every change of class: maximal stretches of consecutive features of one class *)
Fixpoint group (fs : list minput) : list (list minput) :=
  match fs with
  | [] => []
  | f :: l => match group l with
              | (g :: b) :: r => if same_class (mi_v f) (mi_v g) then (f :: g :: b) :: r else [f] :: (g :: b) :: r
              | _ => [[f]]
              end
  end.

(* merge() applied to the blocks one after the other, the id counters running through *)
Fixpoint merge_blocks (cs : crits) (blocks : list (list minput)) (a : counters) : list (list mout) * counters :=
  match blocks with
  | [] => ([], a)
  | b :: r => let '(o, a1) := merge cs b a in
              let '(os, a2) := merge_blocks cs r a1 in (o :: os, a2)
  end.

(* ---- vocabulary of the merge_all statements ---- *)
(* what merge_all hands to merge(): the whole table in merge_order *)
Definition merge_inputs (order : list okey) (st : ist) : list minput :=
  flat_map (fun o => match minput_of_row (o_row o) with Some i => [i] | None => [] end)
           (sort_rows (directed order false) (map (fun r => mkORow r [] [] 0) (s_rows st))).

(* one level-1 relation (merged output, member) per member; the members' ids *)
Definition member_rels (outs : list mout) : list rel :=
  flat_map (fun o => match o with OMerged id _ _ ch => map (fun k => mkRel id (mi_id k) 1) ch | OSingle _ => [] end) outs.
Definition member_ids (outs : list mout) : list str :=
  flat_map (fun o => match o with OMerged _ _ _ ch => map mi_id ch | OSingle _ => [] end) outs.

