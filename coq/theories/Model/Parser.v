(* Model/Parser.v — gffutils.parser._split_keyvals (both paths), _reconstruct, the Quoter,
   feature_from_line and Feature.__str__.  Follows the structure of the Python code.
   Definitions only. *)
From GV Require Import Base.Prelude Base.PyStr Base.Utf8 Base.WordTable Model.DB.
Open Scope N_scope.

(* ---- characters ---- *)
Definition SEMI : N := 59.  Definition EQ : N := 61.  Definition SP : N := 32.
Definition COMMA : N := 44. Definition DQ : N := 34.  Definition TAB : N := 9.
Definition DOT : N := 46.   Definition PCT : N := 37.

(* ---- ordered dict (Attributes._d) ---- *)
Fixpoint dget (k : str) (d : attrs) : option (list str) :=
  match d with [] => None | (k', v) :: d' => if str_eqb k k' then Some v else dget k d' end.
Fixpoint dset (k : str) (v : list str) (d : attrs) : attrs :=
  match d with
  | [] => [(k, v)]
  | (k', v') :: d' => if str_eqb k k' then (k', v) :: d' else (k', v') :: dset k v d'
  end.
Definition dhas (k : str) (d : attrs) : bool := match dget k d with Some _ => true | None => false end.
Definition dappend (k : str) (vs : list str) (d : attrs) : attrs :=
  match dget k d with Some old => dset k (old ++ vs) d | None => dset k vs d end.
(* the values under a key ([] when absent) *)
Definition vals (k : str) (m : attrs) : list str := match dget k m with Some v => v | None => [] end.

(* ---- dialect ---- *)
Record dialect := mkDialect {
  d_leading : bool; d_trailing : bool; d_quoted : bool;
  d_fsep : str; d_kvsep : str; d_mvsep : str; d_fmt : str; d_repeated : bool; d_order : list str }.

Definition GFF3 : str := [103; 102; 102; 51].
Definition GTF : str := [103; 116; 102].

Definition default_dialect : dialect :=
  mkDialect false false false [SEMI] [EQ] [COMMA] GFF3 false
    [[73;68]; [78;97;109;101]; [103;101;110;101;95;105;100]; [116;114;97;110;115;99;114;105;112;116;95;105;100]].

(* ---- the Quoter: percent-encode the characters of _to_quote, upper-case hex ---- *)
Definition hexdigit (n : N) : N := if n <? 10 then 48 + n else 55 + n.
Definition quote_char (to_quote : str) (c : N) : str :=
  if mem_char c to_quote then [PCT; hexdigit (c / 16); hexdigit (c mod 16)] else [c].
Definition quote (to_quote : str) (s : str) : str := flat_map (quote_char to_quote) s.

(* parser._to_quote as a literal; Proofs/GenEquiv.v proves it equal to the value generated
   from parser.py *)
Definition to_quote : str :=
  [10; 9; 13; 37; 59; 61; 38; 44] ++ map N.of_nat (seq 0 32) ++ [127].

(* ---- _reconstruct ---- *)
Fixpoint index_of (k : str) (l : list str) (i : N) : option N :=
  match l with [] => None | x :: l' => if str_eqb k x then Some i else index_of k l' (i + 1) end.

(* sort key: index in dialect order, or 1e6 *)
Definition order_key (order : list str) (k : str) : N :=
  match index_of k order 0 with Some i => i | None => 1000000 end.

(* stable insertion sort by key (Python list.sort is stable) *)
Fixpoint insert_by {A} (key : A -> N) (x : A) (l : list A) : list A :=
  match l with
  | [] => [x]
  | y :: l' => if key x <=? key y then x :: l else y :: insert_by key x l'
  end.
Definition stable_sort_by {A} (key : A -> N) (l : list A) : list A :=
  fold_right (insert_by key) [] l.

(* sorted(list of str): code-point order *)
Fixpoint insert_str (x : str) (l : list str) : list str :=
  match l with [] => [x] | y :: l' => if str_ltb x y then x :: l else y :: insert_str x l' end.
Definition sort_strs (l : list str) : list str := fold_right insert_str [] l.
(* strictly ascending in code-point order (Python's str ordering): sorted AND duplicate-free *)
Fixpoint ascending (l : list str) : Prop :=
  match l with
  | a :: ((b :: _) as r) => str_ltb a b = true /\ ascending r
  | _ => True
  end.


Definition expand_repeated (items : attrs) : attrs :=
  flat_map (fun kv => match snd kv with
                      | _ :: _ :: _ => map (fun v => (fst kv, [v])) (snd kv)
                      | _ => [kv]
                      end) items.

Definition render_part (D : dialect) (sort_values : bool) (kv : str * list str) : str :=
  let '(key, val) := kv in
  match val with
  | [] => if str_eqb (d_fmt D) GTF then key ++ d_kvsep D ++ [DQ; DQ] else key
  | _ =>
    let val := if sort_values then sort_strs val else val in
    let val_str := join (d_mvsep D) val in
    match val_str with
    | [] => key
    | _ => let val_str := if d_quoted D then DQ :: val_str ++ [DQ] else val_str in
           key ++ d_kvsep D ++ val_str
    end
  end.

Definition reconstruct (tq : str) (keyvals : attrs) (D : dialect) (keep_order sort_values : bool) : str :=
  match keyvals with
  | [] => []
  | _ =>
    let attributes := if str_eqb (d_fmt D) GFF3 then map (fun kv => (fst kv, map (quote tq) (snd kv))) keyvals
                      else keyvals in
    let items := if d_repeated D then expand_repeated attributes else attributes in
    let items := if keep_order then stable_sort_by (fun kv => order_key (d_order D) (fst kv)) items else items in
    let parts_str := join (d_fsep D) (map (render_part D sort_values) items) in
    if d_trailing D then parts_str ++ [SEMI] else parts_str
  end.

(* ---- _split_keyvals ---- *)
Definition unquote_quals (D : dialect) (q : attrs) : attrs :=
  if str_eqb (d_fmt D) GFF3 then map (fun kv => (fst kv, map unquote (snd kv))) q else q.

(* item -> (key, val) as the three-way len() test does; [sep] joins the surplus pieces *)
Definition key_val (sep : str) (item : list str) : str * str :=
  match item with
  | [] => ([], [])                              (* unreachable: str.split never returns [] *)
  | [k] => (k, [])
  | [k; v] => (k, v)
  | k :: rest => (k, join sep rest)
  end.

Definition strip_quotes (v : str) : option str :=
  match v with
  | c :: _ => if (c =? DQ) && (last v 0 =? DQ) then Some (removelast (tl v)) else None
  | [] => None
  end.

(* ---------- path with a supplied dialect ---------- *)
Definition with_key_vals (D : dialect) (parts : list str) : list (str * str) :=
  if str_eqb (d_fmt D) GFF3 then
    map (fun p => key_val (d_kvsep D) (split (d_kvsep D) p)) parts
  else
    let fix go (first : bool) (ps : list str) : list (str * str) :=
      match ps with
      | [] => []
      | p :: ps' =>
        let p := if first && d_leading D then tl p else p in
        let pieces := split (d_kvsep D) (strip p) in
        (* (p[0], " ".join(p[1:])) — a 2-tuple, so the len()==2 branch is taken *)
        (hd [] pieces, join [SP] (tl pieces)) :: go false ps'
      end in
    go true parts.

Definition with_step (D : dialect) (q : attrs) (kv : str * str) : attrs :=
  let '(key, val) := kv in
  let q := if dhas key q then q else dset key [] q in
  let val := if d_quoted D then match strip_quotes val with Some v => v | None => val end else val in
  match val with
  | [] => q
  | _ => dappend key (split [COMMA] val) q
  end.

Definition wf_dialect (D : dialect) : bool :=
  negb (match d_fsep D with [] => true | _ => false end) && negb (match d_kvsep D with [] => true | _ => false end).

Definition split_with (D : dialect) (s : str) : result attrs :=
  match s with
  | [] => Ok []
  | _ =>
    if negb (wf_dialect D) then Err EValue else        (* str.split("") raises ValueError *)
    let s := if d_trailing D then rstrip_chars [SEMI] s else s in
    let parts := split (d_fsep D) s in
    Ok (unquote_quals D (fold_left (with_step D) (with_key_vals D parts) []))
  end.

(* ---------- inference path ---------- *)
(* gff3_kw_pat.match(s): \w+= at the start *)
Fixpoint kw_match_go (isw : N -> bool) (s : str) (seen : bool) : bool :=
  match s with
  | [] => false
  | c :: s' => if isw c then kw_match_go isw s' true else seen && (c =? EQ)
  end.
Definition kw_match (isw : N -> bool) (s : str) : bool := kw_match_go isw s false.

Definition choose_sep (s : str) : option str * list str :=
  let p1 := split [SP; SEMI; SP] s in
  match p1 with
  | _ :: _ :: _ => (Some [SP; SEMI; SP], p1)
  | _ =>
    let p2 := split [SEMI; SP] s in
    match p2 with
    | _ :: _ :: _ => (Some [SEMI; SP], p2)
    | _ =>
      let p3 := split [SEMI] s in
      match p3 with
      | _ :: _ :: _ => (Some [SEMI], p3)
      | _ => (None, p3)
      end
    end
  end.

Record istate := mkI { i_quals : attrs; i_repeated : bool; i_quoted : bool; i_order : list str }.

Definition infer_step (st : istate) (kv : str * str) : istate :=
  let '(key, val) := kv in
  let rep := i_repeated st || dhas key (i_quals st) in
  let q := if dhas key (i_quals st) then i_quals st else dset key [] (i_quals st) in
  let '(val, quoted) := match strip_quotes val with Some v => (v, true) | None => (val, i_quoted st) end in
  let q := match val with
           | [] => q
           | _ => if rep then dappend key [val] q
                  else let vals := split [COMMA] val in
                       if existsb (fun i => match i with c :: _ => c =? SP | [] => false end) vals
                       then dappend key [val] q else dappend key vals q
           end in
  mkI q rep quoted (i_order st ++ [key]).

Definition split_infer (isw : N -> bool) (s : str) : attrs * dialect :=
  match s with
  | [] => ([], default_dialect)
  | _ =>
    let trailing := last s 0 =? SEMI in
    let s := if trailing then removelast s else s in
    let '(sep, parts) := choose_sep s in
    let fsep := match sep with Some x => x | None => d_fsep default_dialect end in
    let is_gff3 := kw_match isw (hd [] parts) in
    let leading := negb is_gff3 && existsb (fun p => match p with c :: _ => c =? SEMI | [] => false end) parts in
    let key_vals :=
      if is_gff3 then map (fun p => key_val [EQ] (split [EQ] p)) parts
      else map (fun p => let p := match p with c :: p' => if c =? SEMI then p' else p | [] => p end in
                         let pieces := split [SP] (strip p) in
                         (hd [] pieces, join [SP] (tl pieces))) parts in
    let st := fold_left infer_step key_vals (mkI [] false false []) in
    let kvsep := if is_gff3 then [EQ] else [SP] in
    let fmt := if negb is_gff3 && i_quoted st then GTF else GFF3 in
    let D := mkDialect leading trailing (i_quoted st) fsep kvsep [COMMA] fmt (i_repeated st) (i_order st) in
    (unquote_quals D (i_quals st), D)
  end.

(* ---- Feature ---- *)
Record feature := mkFeature {
  f_seqid : str; f_source : str; f_ftype : str; f_start : option Z; f_end : option Z;
  f_score : str; f_strand : str; f_frame : str; f_attrs : attrs; f_extra : list str;
  f_dialect : dialect; f_keep_order : bool; f_sort_values : bool }.

(* start/end: "." or "" -> None, else int() (canonical decimals only; otherwise ValueError) *)
Definition coord_of (s : str) : result (option Z) :=
  if str_eqb s [DOT] || str_eqb s [] then Ok None
  else match int_of_str s with Some z => Ok (Some z) | None => Err EValue end.

Definition nth_str (l : list str) (n : nat) (dflt : str) : str := nth n l dflt.

(* fields -> Feature, as feature_from_line does after splitting: missing columns keep the
   constructor defaults "." *)
Definition feature_of_fields (isw : N -> bool) (fields : list str) (D : option dialect) (keep_order : bool)
  : result feature :=
  let attr_string := nth_str fields 8 [] in
  match (match D with
         | Some d => match split_with d attr_string with Ok a => Ok (a, d) | Err e => Err e end
         | None => Ok (split_infer isw attr_string)
         end) with
  | Err e => Err e
  | Ok (a, d) =>
    match coord_of (nth_str fields 3 [DOT]), coord_of (nth_str fields 4 [DOT]) with
    | Ok s, Ok e =>
      Ok (mkFeature (nth_str fields 0 [DOT]) (nth_str fields 1 [DOT]) (nth_str fields 2 [DOT]) s e
            (nth_str fields 5 [DOT]) (nth_str fields 6 [DOT]) (nth_str fields 7 [DOT]) a (skipn 9 fields)
            d keep_order false)
    | Err x, _ => Err x
    | _, Err x => Err x
    end
  end.

Definition feature_from_line (isw : N -> bool) (line : str) (D : option dialect) (keep_order : bool)
  : result feature :=
  feature_of_fields isw (split [TAB] (rstrip_nl line)) D keep_order.

(* strict=False: one non-empty stripped line; tabs if any, else split(None, 8) *)
Fixpoint splitlines_go (s cur : str) : list str :=
  match s with
  | [] => match cur with [] => [] | _ => [rev cur] end
  | c :: s' =>
    if (c =? 13) then
      match s' with
      | d :: s'' => if d =? 10 then rev cur :: splitlines_go s'' [] else rev cur :: splitlines_go s' []
      | [] => rev cur :: splitlines_go s' []
      end
    else if (c =? 10) || (c =? 11) || (c =? 12) || (c =? 28) || (c =? 29) || (c =? 30) || (c =? 133)
            || (c =? 8232) || (c =? 8233)
    then rev cur :: splitlines_go s' []
    else splitlines_go s' (c :: cur)
  end.
Definition splitlines (s : str) : list str := splitlines_go s [].

Definition feature_from_line_nonstrict (isw : N -> bool) (line : str) (D : option dialect) (keep_order : bool)
  : result feature :=
  match filter (fun l => match l with [] => false | _ => true end) (map strip (splitlines line)) with
  | [l] =>
    let fields := if mem_char TAB l then split [TAB] (rstrip_nl l) else split_ws 8 (rstrip_nl l) in
    feature_of_fields isw fields D keep_order
  | _ => Err EAssert
  end.

Definition coord_str (c : option Z) : str := match c with Some z => str_of_int z | None => [DOT] end.

(* Feature.__str__ *)
Definition feature_str (tq : str) (f : feature) : str :=
  let items := [f_seqid f; f_source f; f_ftype f; coord_str (f_start f); coord_str (f_end f);
                f_score f; f_strand f; f_frame f;
                reconstruct tq (f_attrs f) (f_dialect f) (f_keep_order f) (f_sort_values f)] in
  let items := match f_extra f with [] => items | ex => items ++ [join [TAB] ex] end in
  join [TAB] items.
