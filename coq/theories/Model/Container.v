(* Model/Container.v — attributes.Attributes: values are stored as sequences whatever was set
   (a scalar becomes a one-item list; lists and tuples are kept), the always_return_list switch only
   changes how one-item lists are viewed; the JSON storage form relative to the json library
   (an oracle); Feature equality and hash through the printed line.  Definitions only. *)
From GV Require Import Base.Prelude Base.PyStr Model.Bins Model.DB Model.Parser.
Open Scope Z_scope.

(* what a caller passes / gets back *)
Inductive pyval := VStr (s : str) | VList (l : list str) | VTuple (l : list str).
(* what Attributes._d holds *)
Inductive stored := SList (l : list str) | STuple (l : list str).

Definition cdict := list (str * stored).

Fixpoint cget (k : str) (d : cdict) : option stored :=
  match d with [] => None | (k', v) :: d' => if str_eqb k k' then Some v else cget k d' end.
Fixpoint cset (k : str) (v : stored) (d : cdict) : cdict :=
  match d with
  | [] => [(k, v)]
  | (k', v') :: d' => if str_eqb k k' then (k', v) :: d' else (k', v') :: cset k v d'
  end.

(* Attributes.__setitem__ (also reached through Feature.__setitem__) *)
Definition wrap (v : pyval) : stored :=
  match v with VStr s => SList [s] | VList l => SList l | VTuple l => STuple l end.
Definition setitem (d : cdict) (k : str) (v : pyval) : cdict := cset k (wrap v) d.
(* MutableMapping.setdefault / update / the constructor all go through __setitem__ *)
Definition setdefault (d : cdict) (k : str) (v : pyval) : cdict :=
  match cget k d with Some _ => d | None => setitem d k v end.

(* Attributes.__getitem__ under constants.always_return_list *)
Definition view (always : bool) (v : stored) : pyval :=
  match v with
  | SList [x] => if always then VList [x] else VStr x
  | SList l => VList l
  | STuple l => VTuple l
  end.
Definition getitem (always : bool) (d : cdict) (k : str) : result pyval :=
  match cget k d with Some v => Ok (view always v) | None => Err EKey end.

Definition seq_of (v : stored) : list str := match v with SList l => l | STuple l => l end.

(* ---- JSON storage form, relative to the json library ---- *)
Section Json.
  Variable json : Type.
  Variables (dumps : attrs -> json) (loads : json -> option attrs).
  Definition jsonify (a : attrs) : json := dumps a.
  (* _unjsonify(x, isattributes=True) = Attributes(json.loads(x)): every value goes through __setitem__ *)
  Definition unjsonify (j : json) : option attrs :=
    match loads j with
    | Some obj => Some (fold_left (fun d kv => dset (fst kv) (snd kv) d) obj [])
    | None => None
    end.
End Json.

(* ---- equality and hash ---- *)
Definition feature_eq (tq : str) (f g : feature) : bool := str_eqb (feature_str tq f) (feature_str tq g).
Section Hash.
  Variable H : str -> Z.          (* Python's hash() on str *)
  Definition feature_hash (tq : str) (f : feature) : Z := H (feature_str tq f).
End Hash.
