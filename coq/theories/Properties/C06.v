(* Properties/C06.v — region()/limit= queries return exactly the overlapping / contained
   features.  Statements only.  [region], [all_features], [relation] are the models of
   FeatureDB.region and of make_query-based calls (Model/Query.v); [spec_region] etc. are
   plain filters of the stored rows (Proofs/C06Proofs.v). *)
From GV Require Import Base.Prelude Base.PyStr Model.Bins Model.DB Model.Query Proofs.C06Proofs.
Open Scope Z_scope.

Theorem C06_region_overlap : forall d seqid S E strand ft,
  Forall (fun r => row_ok r = true) (d_rows d) -> 1 <= S <= E -> ft_given ft ->
  region d (mkRegion seqid (Some S) (Some E) strand ft false)
  = Ok (spec_region d seqid (overlaps S E) strand ft).
Proof. exact l_region_overlap. Qed.
Print Assumptions C06_region_overlap.

(* completely_within=True; for ALL coordinates, also on bin boundaries and at/after 2^29 *)
Theorem C06_region_within : forall d seqid S E strand ft,
  Forall (fun r => wf_row r = true) (d_rows d) -> 1 <= S <= E -> ft_given ft ->
  region d (mkRegion seqid (Some S) (Some E) strand ft true)
  = Ok (spec_region d seqid (within S E) strand ft).
Proof. exact l_region_within. Qed.
Print Assumptions C06_region_within.

Theorem C06_region_start_only : forall d seqid S strand ft cw, 1 <= S -> ft_given ft ->
  region d (mkRegion seqid (Some S) None strand ft cw)
  = Ok (spec_region d seqid (if cw then starts_from S else ends_after S) strand ft).
Proof. exact l_region_start_only. Qed.
Print Assumptions C06_region_start_only.

Theorem C06_region_end_only : forall d seqid E strand ft cw, 1 <= E -> ft_given ft ->
  region d (mkRegion seqid None (Some E) strand ft cw)
  = Ok (spec_region d seqid (if cw then ends_by E else starts_before E) strand ft).
Proof. exact l_region_end_only. Qed.
Print Assumptions C06_region_end_only.

Theorem C06_one_sided_meaning : forall S E r fs fe, r_start r = Some fs -> r_end r = Some fe ->
  (ends_after S r = true <-> fe > S) /\ (starts_before E r = true <-> fs < E).
Proof. exact l_one_sided_meaning. Qed.
Print Assumptions C06_one_sided_meaning.

(* Feature form = tuple form: the feature's own strand is not a restriction *)
Theorem C06_forms_feature_tuple : forall seqid s e fstrand strand ft cw,
  region_of_form (RFeature seqid s e fstrand) strand ft cw = region_of_form (RTuple seqid s e) strand ft cw.
Proof. exact l_forms_feature_tuple. Qed.
Print Assumptions C06_forms_feature_tuple.

Theorem C06_limit_all_features : forall d ft l cw strand,
  Forall (fun r => wf_row r = true) (d_rows d) -> 1 <= la_start l <= la_end l ->
  ft_query_given ft -> strand_given strand ->
  all_features d ft (Some l) cw strand
  = filter (fun r => ft_ok ft r && spec_limit l cw r && strand_ok strand r) (d_rows d).
Proof. exact l_limit_all_features. Qed.
Print Assumptions C06_limit_all_features.

Theorem C06_limit_relation : forall d dir id level ft l cw,
  Forall (fun r => wf_row r = true) (d_rows d) -> 1 <= la_start l <= la_end l -> ft_query_given ft ->
  relation d dir id level ft (Some l) cw
  = filter (fun r => related d dir id level r && (ft_ok ft r && spec_limit l cw r)) (d_rows d).
Proof. exact l_limit_relation. Qed.
Print Assumptions C06_limit_relation.

Theorem C06_region_once : forall d a rows,
  NoDup (map r_id (d_rows d)) -> region d a = Ok rows -> NoDup (map r_id rows).
Proof. exact l_region_once. Qed.
Print Assumptions C06_region_once.

(* string form = tuple form: "seqid:start-end" is parsed into (seqid, start, end), for region() ... *)
Theorem C06_forms_string_tuple : forall seqid s e strand ft cw, ~ In 58%N seqid -> 0 <= s -> 0 <= e ->
  region_of_form (RString (seqid ++ colon ++ str_of_int s ++ dash ++ str_of_int e)) strand ft cw
  = region_of_form (RTuple seqid (Some s) (Some e)) strand ft cw.
Proof. exact l_forms_string_tuple. Qed.
Print Assumptions C06_forms_string_tuple.

(* ... and for the limit= argument of all_features / features_of_type / children / parents *)
Theorem C06_limit_string_tuple : forall seqid s e, ~ In 58%N seqid -> 0 <= s -> 0 <= e ->
  limit_of_form (LString (seqid ++ colon ++ str_of_int s ++ dash ++ str_of_int e)) = limit_of_form (LTuple (mkLimit seqid s e)).
Proof. exact l_limit_string_tuple. Qed.
Print Assumptions C06_limit_string_tuple.
