(* placeholder: theorems are added below as they are proved *)
From GV Require Import Base.Prelude.
