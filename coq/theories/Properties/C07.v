(* Properties/C07.v — parsing a line of the grammar and printing it reproduces the line.
   Statements only; every proof is `exact`.  [render_line] (Model/Grammar.v) is the writer's
   rendering of a line in one consistent style; [wf_feature] is the boolean grammar condition;
   [isword] is CPython's \w table (Base/WordTable.v); the percent-quoting table is
   [gen_to_quote], regenerated from /repo/gffutils/parser.py on every run. *)
From GV Require Import Base.Prelude Base.PyStr Base.Utf8 Base.WordTable Model.DB Model.Parser Model.Grammar Gen.GenConst
  Proofs.GenConstEquiv Proofs.C07Parse Proofs.C07Proofs Proofs.C07Nonstrict.
Open Scope N_scope.

(* the attribute column: the inference path returns the attributes (decoded, in order) and the
   canonical dialect of the style -- for all 36 styles, any number of attributes and values,
   all unicode values allowed by the style *)
Theorem C07_parse_attrs : forall st a, wf_attrs st a = true ->
  split_infer isword (render_attrs st a) = (a, canon_dialect st a).
Proof. exact (l_parse_attrs isword isword_ascii isword_eq isword_sp). Qed.
Print Assumptions C07_parse_attrs.

(* printing the attributes with that dialect (keep_order=True) gives the column back *)
Theorem C07_print_attrs : forall st a, wf_attrs st a = true ->
  reconstruct gen_to_quote a (canon_dialect st a) true false = render_attrs st a.
Proof. rewrite gen_to_quote_eq. exact l_print_attrs. Qed.
Print Assumptions C07_print_attrs.

(* the whole line: feature_from_line yields the line's eight columns, coordinates ('.' -> None),
   attributes, extra columns and dialect ... *)
Theorem C07_parse_line : forall st f, wf_feature st f = true -> f_dialect f = canon_dialect st (f_attrs f) ->
  feature_from_line isword (render_line st f) None true = Ok f.
Proof. exact (l_parse_line isword isword_ascii isword_eq isword_sp). Qed.
Print Assumptions C07_parse_line.

(* ... and str(feature) is the line, byte for byte (extras, '.' coordinates, empty column) *)
Theorem C07_print_identity : forall st f g, wf_feature st f = true -> f_dialect f = canon_dialect st (f_attrs f) ->
  feature_from_line isword (render_line st f) None true = Ok g ->
  feature_str gen_to_quote g = render_line st f.
Proof.
  rewrite gen_to_quote_eq. intros st f g Hwf Hcan Hparse.
  rewrite (l_parse_line isword isword_ascii isword_eq isword_sp st f Hwf Hcan) in Hparse.
  inversion Hparse. subst g. exact (l_print_line st f Hwf Hcan).
Qed.
Print Assumptions C07_print_identity.

(* strict=False: the nine-column line written with runs of blanks (any white space that is neither a
   line break nor a tab) instead of tabs - no blanks inside columns 1-8, no extra columns, an
   attribute column free of line-break characters - and surrounded by arbitrary white space
   including line breaks, parses to the same Feature *)
Theorem C07_nonstrict : forall st f gap pre post,
  wf_feature st f = true -> f_dialect f = canon_dialect st (f_attrs f) -> f_extra f = [] ->
  (forall w, In w [f_seqid f; f_source f; f_ftype f; f_score f; f_strand f; f_frame f] -> solid w) ->
  (forall x, f_start f = Some x -> (0 <= x)%Z) -> (forall x, f_end f = Some x -> (0 <= x)%Z) ->
  blank gap -> gap <> [] -> (forall c, In c gap -> is_lb c = false /\ c <> TAB) ->
  blank pre -> blank post ->
  (forall c, In c (render_attrs st (f_attrs f)) -> is_lb c = false) ->
  feature_from_line_nonstrict isword (spaced gap pre post st f) None true
  = feature_from_line isword (render_line st f) None true.
Proof.
  intros st f gap pre post Hwf Hcan. intros.
  rewrite (l_parse_line isword isword_ascii isword_eq isword_sp st f Hwf Hcan).
  apply (l_nonstrict isword isword_ascii isword_eq isword_sp); assumption.
Qed.
Print Assumptions C07_nonstrict.
