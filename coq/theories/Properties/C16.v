(* Properties/C16.v — merge().  Statements only; every proof is `exact`.
   [merge cs fs a] models FeatureDB.merge over the Feature objects [fs] (in the given order) with
   criteria [cs] and in-memory id counters [a]; the shipped criteria are the definitions
   regenerated from gffutils/merge_criteria.py on every run (Gen/GenCriteria.v). *)
From GV Require Import Base.Prelude Base.PyStr Model.Bins Model.DB Model.Parser Model.Query Model.Import Model.Merge
  Gen.GenLib Gen.GenCriteria Proofs.C16Proofs Proofs.C16Union Proofs.C16Classes Proofs.C16All.
From GV Require Import Model.Order.
Open Scope Z_scope.

(* every input is yielded unchanged (no children) or is a child of exactly one merged output, in
   input order — for ARBITRARY criteria *)
Theorem C16_partition : forall cs fs a, flat_map members (fst (merge cs fs a)) = fs.
Proof. exact l_partition. Qed.
Print Assumptions C16_partition.

(* a feature joins the current run exactly when every criterion accepts (run so far, feature) *)
Theorem C16_join_rule : forall cs id acc fr ch a f,
  mstep cs (SRunN id acc fr ch, a) f =
  if accept cs acc (mi_v f) (length ch)
  then ((SRunN id (extend acc (mi_v f)) (extend_frame fr f) (ch ++ [f]), a), [])
  else ((SUnchecked f, a), [OMerged id acc fr ch]).
Proof. exact l_join_rule. Qed.
Print Assumptions C16_join_rule.

(* merged outputs span min start .. max end of their children *)
Theorem C16_hull : forall cs fs a id acc fr ch, In (OMerged id acc fr ch) (fst (merge cs fs a)) -> hull acc ch.
Proof. exact l_hull. Qed.
Print Assumptions C16_hull.

(* merged outputs carry fresh, pairwise distinct ids, none of them handed out before *)
Theorem C16_fresh_ids : forall cs fs a, nonneg a ->
  NoDup (merged_ids (fst (merge cs fs a))) /\ forall id, In id (merged_ids (fst (merge cs fs a))) -> ~ issued a id.
Proof. exact l_fresh_ids. Qed.
Print Assumptions C16_fresh_ids.

(* default criteria, start-ordered features of one (seqid, strand, featuretype) class: the
   outputs' extents are the maximal runs of overlapping or adjacent intervals — consecutive
   outputs are separated by at least one uncovered base, and every base of an output lies in a
   member.  (Together with C16_partition and C16_hull: the interval union.) *)
Theorem C16_default_maximal_runs : forall sK tK fK, ~ In COMMAc sK -> forall fs a,
  (forall f, In f fs -> okf sK tK fK f) ->
  (match fs with [] => True | f :: _ => sorted_from (m_start (mi_v f)) fs end) ->
  sep (fst (merge default_criteria fs a)) /\ Forall out_covered (fst (merge default_criteria fs a)).
Proof. exact l_default_maximal_runs. Qed.
Print Assumptions C16_default_maximal_runs.

(* children_bp: without merging, the summed child lengths ... *)
Theorem C16_children_bp_sum : forall cs kids,
  children_bp false cs kids = fold_right Z.add 0 (map (fun k => m_end (mi_v k) - m_start (mi_v k) + 1) kids).
Proof. reflexivity. Qed.
Print Assumptions C16_children_bp_sum.

(* ... and with merge=True (default criteria, start-ordered children of one seqid/strand/featuretype, which is what
   children(order_by="start") of one featuretype under one parent yields): the size of their union, i.e. the number of
   integer positions covered by at least one child, counted over any window [lo, hi) that contains all of them *)
Theorem C16_children_bp_union : forall sK tK fK, ~ In COMMAc sK -> forall kids lo hi,
  (forall f, In f kids -> okf sK tK fK f) ->
  (match kids with [] => True | f :: _ => sorted_from (m_start (mi_v f)) kids end) ->
  (forall f, In f kids -> lo <= m_start (mi_v f) /\ m_end (mi_v f) < hi) -> lo <= hi ->
  children_bp true default_criteria kids = zcount (in_kids kids) lo hi.
Proof. exact l_children_bp_union. Qed.
Print Assumptions C16_children_bp_union.

(* "... per seqid, strand and type": inputs of SEVERAL classes.  [group fs] cuts the input at every change of
   (seqid, strand, featuretype); for ANY input of well-formed features (seqid without a comma, start <= end) whose
   stretches are each in start order, the outputs are - stretch by stretch, in order - a partition of the stretch
   into its maximal runs of overlapping or adjacent intervals (consecutive outputs separated by an uncovered base,
   every position of an output covered by a member).  Nothing is ever joined across a change of class. *)
Theorem C16_default_runs_per_class : forall fs a, (forall f, In f fs -> wf f) -> Forall start_sorted (group fs) ->
  exists outss, fst (merge default_criteria fs a) = concat outss /\
    Forall2 (fun b outs => flat_map members outs = b /\ sep outs /\ Forall out_covered outs) (group fs) outss.
Proof. exact l_default_runs_per_class. Qed.
Print Assumptions C16_default_runs_per_class.

(* the same as an equation: merge() of the whole input = merge() of the stretches one after the other (ids included,
   the counters running through) *)
Theorem C16_merge_splits_at_class_changes : forall blocks a, Forall block_ok blocks -> adjacent_differ blocks ->
  merge default_criteria (concat blocks) a =
  (concat (fst (merge_blocks default_criteria blocks a)), snd (merge_blocks default_criteria blocks a)).
Proof. exact l_merge_blocks. Qed.
Print Assumptions C16_merge_splits_at_class_changes.

(* when the input is sorted by class first - under any antisymmetric order R on classes, e.g. merge_all's
   ORDER BY seqid, featuretype, strand, start - every class is ONE stretch (so "per class" above is global), and start
   order among consecutive features of one class makes every stretch start-sorted.  F19 (known finding) is the case
   where children_bp sorts by start only and a class comes back. *)
Theorem C16_sorted_input_one_stretch_per_class : forall (R : str * str * str -> str * str * str -> Prop) fs,
  (forall a b, R a b -> R b a -> a = b) ->
  Sorted.StronglySorted R (map (fun f => class_of (mi_v f)) fs) -> class_start_chain fs ->
  NoDup (map block_class (group fs)) /\ Forall start_sorted (group fs).
Proof. exact l_sorted_one_stretch. Qed.
Print Assumptions C16_sorted_input_one_stretch_per_class.

(* ---- merge_all ---- *)
(* a merged output always has at least two members: "one new feature per MULTI-member run" *)
Theorem C16_merged_has_two_members : forall cs fs a id acc fr ch,
  In (OMerged id acc fr ch) (fst (merge cs fs a)) -> (2 <= length ch)%nat.
Proof. exact l_merged_two. Qed.
Print Assumptions C16_merged_has_two_members.

(* merge_all(exclude_components=False), any merge_order and criteria: merge() runs once over the whole table in
   merge_order ([merge_inputs]); the table gains exactly one row per merged output (keys in output order, after the old
   rows, which keep their keys and their order), the relations table gains exactly one level-1 row (output, member) per
   member, and nothing else changes (duplicates, persisted counters); the live counters are those merge() left *)
Theorem C16_merge_all_relates_members : forall order cs st mem st' mem', merge_all_with order cs false st mem = Ok (st', mem') ->
  let outs := fst (merge cs (merge_inputs order st) mem) in
  mem' = snd (merge cs (merge_inputs order st) mem) /\
  map r_id (s_rows st') = map r_id (s_rows st) ++ merged_ids outs /\
  s_rels st' = s_rels st ++ member_rels outs /\ s_dups st' = s_dups st /\ s_auto st' = s_auto st.
Proof. exact l_merge_all_keep. Qed.
Print Assumptions C16_merge_all_relates_members.

(* merge_all(exclude_components=True): every relation that mentions a member is deleted and no other; the members' rows
   are deleted and one row per merged output is added (when no fresh id collides with a member's id - C16_fresh_ids) *)
Theorem C16_merge_all_deletes_members : forall order cs st mem st' mem', merge_all_with order cs true st mem = Ok (st', mem') ->
  let outs := fst (merge cs (merge_inputs order st) mem) in
  mem' = snd (merge cs (merge_inputs order st) mem) /\
  s_rels st' = filter (fun x => negb (mem_str (rel_parent x) (member_ids outs) || mem_str (rel_child x) (member_ids outs))) (s_rels st) /\
  s_dups st' = s_dups st /\ s_auto st' = s_auto st /\
  ((forall id, In id (merged_ids outs) -> ~ In id (member_ids outs)) ->
   map r_id (s_rows st') = filter (fun i => negb (mem_str i (member_ids outs))) (map r_id (s_rows st)) ++ merged_ids outs).
Proof. exact l_merge_all_exclude. Qed.
Print Assumptions C16_merge_all_deletes_members.
