(* Properties/C03.v — GTF import.  Statements only; every proof is `exact`.
   [gtf_relations] = the relation triples _GTFDBCreator._populate_from_lines inserts for a line
   stored under [id]; [extent] = the MIN(start)/MAX(end) query of _update_relations; [derive] the
   derived features it writes; [insert_derived] their insertion (merge on collision). *)
From GV Require Import Base.Prelude Base.PyStr Model.Bins Model.DB Model.Parser Model.Import Model.GtfSpec
  Proofs.C03Proofs Proofs.C03End Proofs.C03Ids Proofs.C03Pop Proofs.C03Total.
Open Scope Z_scope.

(* no line is ever its own parent or child — for every line, key and configuration *)
Theorem C03_no_self_relation : forall g f id x, In x (gtf_relations g f id) -> rel_parent x <> rel_child x.
Proof. exact l_no_self_relation. Qed.
Print Assumptions C03_no_self_relation.

(* every other line carrying the ids: level-1 child of its transcript, level-2 child of its gene,
   and the transcript a level-1 child of the gene — exactly these three *)
Theorem C03_ordinary_line : forall g f id t gn,
  first_val (g_tkey g) f = Some t -> first_val (g_gkey g) f = Some gn -> id <> t -> id <> gn -> t <> gn ->
  gtf_relations g f id = [mkRel t id 1; mkRel gn id 2; mkRel gn t 1].
Proof. exact l_ordinary_line. Qed.
Print Assumptions C03_ordinary_line.

Theorem C03_transcript_line : forall g f t gn,
  first_val (g_tkey g) f = Some t -> first_val (g_gkey g) f = Some gn -> t <> gn ->
  gtf_relations g f t = [mkRel gn t 1].
Proof. exact l_transcript_line. Qed.
Print Assumptions C03_transcript_line.

Theorem C03_gene_line : forall g f gn,
  first_val (g_tkey g) f = None ->
  first_val (g_gkey g) f = Some gn -> gtf_relations g f gn = [].
Proof. exact l_gene_line. Qed.
Print Assumptions C03_gene_line.

(* the derived extent: exactly minimum start .. maximum end over the related subfeatures, on the
   seqid/strand of one of them (all of them agree in the property's domain) *)
Theorem C03_extent_min_max : forall g st p s e strand seqid, extent g st p = Some (s, e, strand, seqid) ->
  (exists k, In k (kids_of g st p) /\ r_start k = Some s) /\
  (forall k x, In k (kids_of g st p) -> r_start k = Some x -> s <= x) /\
  (exists k, In k (kids_of g st p) /\ r_end k = Some e) /\
  (forall k x, In k (kids_of g st p) -> r_end k = Some x -> x <= e) /\
  (exists k, In k (kids_of g st p) /\ r_strand k = strand /\ r_seqid k = seqid).
Proof. exact l_extent_min_max. Qed.
Print Assumptions C03_extent_min_max.

(* the derived ids ARE pairwise distinct (the hypothesis of the end-to-end theorems below) whenever every transcript has
   one gene and transcript ids differ from gene ids: the pair list is sorted by gene (ORDER BY gene), so derive writes each
   gene once, at the first pair of its block *)
Theorem C03_derived_ids_distinct : forall g st ds, str_eqb (g_gkey g) (g_tkey g) = false ->
  derive g st (tg_pairs g st) None = Ok ds ->
  NoDup (map fst (tg_pairs g st)) ->
  (forall t gn, In t (map fst (tg_pairs g st)) -> In gn (map snd (tg_pairs g st)) -> t <> gn) ->
  NoDup (map (did g) ds).
Proof. exact l_derived_ids_nodup. Qed.
Print Assumptions C03_derived_ids_distinct.

Section C03.
  Variable call : nat -> row -> option str.

  Theorem C03_both_disabled : forall g force spec st, g_no_genes g = true -> g_no_transcripts g = true ->
    update_relations_gtf call g force spec st = Ok st.
  Proof. exact (l_both_disabled call). Qed.

  Theorem C03_flags : forall g st ds, derive g st (tg_pairs g st) None = Ok ds ->
    (g_no_transcripts g = true -> forall d, In d ds -> r_ftype d = GENE) /\
    (g_no_genes g = true -> forall d, In d ds -> r_ftype d = TRANSCRIPT).
  Proof. exact l_flags. Qed.

  Theorem C03_derived_key : forall g t gn x a,
    is_field_form (g_tkey g) = false -> is_field_form (g_gkey g) = false -> str_eqb (g_gkey g) (g_tkey g) = false ->
    let '(s, e, strand, seqid) := x in
    id_handler call (gtf_spec g) (mkRow [] seqid DERIVED TRANSCRIPT (Some s) (Some e) DOTs strand DOTs
                                        [(g_tkey g, [t]); (g_gkey g, [gn])] [] None) a = Ok (t, a) /\
    id_handler call (gtf_spec g) (mkRow [] seqid DERIVED GENE (Some s) (Some e) DOTs strand DOTs
                                        [(g_gkey g, [gn])] [] None) a = Ok (gn, a).
  Proof. exact (l_derived_key call). Qed.

  Theorem C03_explicit_kept : forall force spec st f0 id a st',
    id_handler call spec f0 (s_auto st) = Ok (id, a) -> has_id id (s_rows st) = true ->
    insert_derived call force spec st f0 = Ok st' ->
    map r_id (s_rows st') = map r_id (s_rows st) /\ s_rels st' = s_rels st.
  Proof. exact (l_explicit_kept call). Qed.

  Theorem C03_derived_new : forall force spec st f0 id a,
    derived_clean f0 = true -> id_handler call spec f0 (s_auto st) = Ok (id, a) -> has_id id (s_rows st) = false ->
    insert_derived call force spec st f0 =
    Ok (mkSt (s_rows st ++ [set_bin (set_id id f0)]) (s_rels st) (s_dups st) a).
  Proof. exact (l_derived_new call). Qed.

  (* _update_relations end to end (at least one kind of inference on, keys as in the id_spec that goes with them, the
     derived ids new and pairwise distinct - an id already present is C03_explicit_kept's case): exactly the derived rows
     are appended, each under its transcript / gene id; relations, duplicates table and counters are untouched *)
  Theorem C03_inference_appends : forall g force st ds,
    is_field_form (g_tkey g) = false -> is_field_form (g_gkey g) = false -> str_eqb (g_gkey g) (g_tkey g) = false ->
    g_no_genes g && g_no_transcripts g = false ->
    derive g st (tg_pairs g st) None = Ok ds ->
    (forall d, In d ds -> derived_clean d = true) ->
    NoDup (map (did g) ds) -> (forall d, In d ds -> has_id (did g d) (s_rows st) = false) ->
    update_relations_gtf call g force (gtf_spec g) st =
    Ok (mkSt (s_rows st ++ appended g ds) (s_rels st) (s_dups st) (s_auto st)).
  Proof. exact (l_gtf_inference call). Qed.

  (* every (transcript, gene) pair found through a stored subfeature gets ONE derived transcript, retrievable by the
     transcript id, of type "transcript", carrying both ids, spanning what the extent query answers - by
     C03_extent_min_max exactly min start .. max end of the transcript's subfeatures, on their strand and seqid *)
  Theorem C03_transcript_inferred : forall g st ds t gn, str_eqb (g_gkey g) (g_tkey g) = false -> g_no_transcripts g = false ->
    derive g st (tg_pairs g st) None = Ok ds -> NoDup (map r_id (s_rows st)) -> NoDup (map (did g) ds) ->
    (forall d, In d ds -> has_id (did g d) (s_rows st) = false) -> In (t, gn) (tg_pairs g st) ->
    exists x, extent g st t = Some x /\
      find_id t (s_rows st ++ appended g ds) = Some (set_bin (set_id t (t_row g t gn x))) /\
      NoDup (map r_id (s_rows st ++ appended g ds)).
  Proof. exact l_transcript_inferred_one. Qed.

  (* ... and its gene - when at least one subfeature is filed under that gene id - ONE derived gene spanning all the gene's
     subfeatures (a gene id that only a transcript line names has no extent and is skipped: F26) *)
  Theorem C03_gene_inferred : forall g st ds t gn x, g_no_genes g = false ->
    derive g st (tg_pairs g st) None = Ok ds -> NoDup (map r_id (s_rows st)) -> NoDup (map (did g) ds) ->
    (forall d, In d ds -> has_id (did g d) (s_rows st) = false) -> In (t, gn) (tg_pairs g st) ->
    extent g st gn = Some x ->
    find_id gn (s_rows st ++ appended g ds) = Some (set_bin (set_id gn (g_row g gn x))).
  Proof. exact l_gene_inferred. Qed.

  (* nothing else is derived: every appended row is the transcript or gene row of such a pair *)
  Theorem C03_nothing_else_derived : forall g st ds d, derive g st (tg_pairs g st) None = Ok ds -> In d ds ->
    exists t gn x, In (t, gn) (tg_pairs g st) /\
      ((d = t_row g t gn x /\ extent g st t = Some x) \/ (d = g_row g gn x /\ extent g st gn = Some x)).
  Proof. exact l_nothing_else. Qed.
End C03.
Print Assumptions C03_both_disabled. Print Assumptions C03_flags. Print Assumptions C03_derived_key.
Print Assumptions C03_explicit_kept. Print Assumptions C03_derived_new.
Print Assumptions C03_inference_appends. Print Assumptions C03_transcript_inferred. Print Assumptions C03_gene_inferred.
Print Assumptions C03_nothing_else_derived.

(* THE WHOLE IMPORT, FROM THE INPUT LINES.  A GTF file of ordinary lines (any featuretypes other than gene/transcript, any
   number, any order), each carrying a transcript id and a gene id, both kinds of inference on, imported into an empty
   database with the id_spec that goes with the keys.  Domain (all checkable on the input): the generated line keys
   <featuretype>_<n> (= assign fs []), the transcript ids and the gene ids are three disjoint sets, and a transcript has one
   gene.  Then, if the import succeeds:
   - every line is stored once, in order, under its generated key, followed by the derived features (nothing else);
   - keys are unique;
   - every transcript id owning at least one subfeature line is retrievable and IS the derived transcript: type
     "transcript", both ids as attributes, spanning exactly [expected_extent] = minimum start .. maximum end of its
     subfeature lines, on the seqid/strand of the first of them;
   - every gene id owning at least one subfeature line likewise is the derived gene spanning all its subfeature lines. *)
Theorem C03_import_end_to_end : forall call g strat force fs,
  is_field_form (g_tkey g) = false -> is_field_form (g_gkey g) = false -> str_eqb (g_gkey g) (g_tkey g) = false ->
  g_no_genes g = false /\ g_no_transcripts g = false ->
  (forall f, In f fs -> ordinary f) ->
  (forall f, In f fs -> exists t gn, first_val (g_tkey g) f = Some t /\ first_val (g_gkey g) f = Some gn /\ t <> gn) ->
  (forall p f, In p (assign fs []) -> In f fs ->
     first_val (g_tkey g) f <> Some (snd p) /\ first_val (g_gkey g) f <> Some (snd p)) ->
  (forall f f' v, In f fs -> In f' fs -> first_val (g_tkey g) f = Some v -> first_val (g_gkey g) f' <> Some v) ->
  (forall f f', In f fs -> In f' fs -> first_val (g_tkey g) f = first_val (g_tkey g) f' ->
     first_val (g_gkey g) f = first_val (g_gkey g) f') ->
  forall st', fs <> [] ->
  import_gtf call g strat force (gtf_spec g) fs empty_st = Ok st' ->
  exists ds,
    s_rows st' = map place (assign fs []) ++ appended g ds /\
    NoDup (map r_id (s_rows st')) /\
    (forall t x, expected_extent g (g_tkey g) t fs = Some x ->
       exists gn, (exists f, In f fs /\ first_val (g_tkey g) f = Some t /\ first_val (g_gkey g) f = Some gn) /\
                  find_id t (s_rows st') = Some (set_bin (set_id t (t_row g t gn x)))) /\
    (forall gn x, expected_extent g (g_gkey g) gn fs = Some x ->
       find_id gn (s_rows st') = Some (set_bin (set_id gn (g_row g gn x)))) /\
    (* the three-level hierarchy, exactly: every line a level-1 child of its transcript and a level-2 child of its gene,
       each transcript a level-1 child of its gene - and no other relation *)
    (forall x, In x (s_rels st') <->
       exists p t gn, In p (assign fs []) /\ first_val (g_tkey g) (fst p) = Some t /\ first_val (g_gkey g) (fst p) = Some gn /\
                      (x = mkRel t (snd p) 1 \/ x = mkRel gn (snd p) 2 \/ x = mkRel gn t 1)).
Proof. exact l_import_gtf_end_to_end. Qed.
Print Assumptions C03_import_end_to_end.

(* the derivation phase never aborts an import (true since the repair of F26): on any stored state whose rows have both
   coordinates - whatever mixture of lines, explicit gene/transcript lines, genes named only by a transcript line, earlier
   imports - every (transcript, gene) pair's transcript owns a stored subfeature and so has an extent, and a gene id under
   which no subfeature is filed is skipped: [derive] returns a list of derived rows, for all four flag combinations *)
Theorem C03_derivation_total : forall g st, coords_ok st -> exists ds, derive g st (tg_pairs g st) None = Ok ds.
Proof. exact l_derivation_total. Qed.
Print Assumptions C03_derivation_total.
