(* Properties/C05.v — duplicate keys under the five merge strategies.  Statements only; every
   proof is `exact`.  [step_gff] is the model of one iteration of the importer's loop
   (Model/Import.v): [f0] arrives, _id_handler gives it key [id] (counters become [a]), and [id]
   is already stored. *)
From GV Require Import Base.Prelude Base.PyStr Model.Bins Model.DB Model.Parser Model.Import Proofs.C05Proofs Proofs.C05Inv Proofs.C05Links.
Open Scope Z_scope.

Section C05.
  Variable call : nat -> row -> option str.
  Variables (force : list field) (spec : idspec) (st : ist) (f0 : row) (id : str) (a : counters).
  Hypothesis Hid : id_handler call spec f0 (s_auto st) = Ok (id, a).
  Hypothesis Hdup : has_id id (s_rows st) = true.
  Notation f := (set_bin (set_id id f0)).
  Notation st_a := (mkSt (s_rows st) (s_rels st) (s_dups st) a).

  Theorem C05_error : step_gff call SError force spec st f0 = Err EValue.
  Proof. exact (l_error call force spec st f0 id a Hid Hdup). Qed.

  Theorem C05_warning_first : step_gff call SWarning force spec st f0 = Ok st_a.
  Proof. exact (l_warning call force spec st f0 id a Hid Hdup). Qed.

  Theorem C05_replace_last : forall st', step_gff call SReplace force spec st f0 = Ok st' ->
    find_id id (s_rows st') = Some f /\ length (s_rows st') = length (s_rows st) /\
    forall r, In r (s_rows st) -> r_id r <> id -> In r (s_rows st').
  Proof. exact (l_replace_lookup call force spec st f0 id a Hid Hdup). Qed.

  Theorem C05_replace_relations : step_gff call SReplace force spec st f0 =
    Ok (mkSt (update_id id (fun _ => f) (s_rows st))
             (* the replaced version's links go: its level-1 parent links and the level-2 rows that end at it or run
                through it ([through_links], read off the table before anything is deleted); everything else stays, the
                newcomer's Parent links are added *)
             (add_rels (filter (fun x => negb (through_links id (s_rels st) x))
                               (filter (fun x => negb (str_eqb (rel_child x) id && (rel_level x =? 1))) (s_rels st)))
                       (parent_links f0 id))
             (s_dups st) a).
  Proof. exact (l_replace call force spec st f0 id a Hid Hdup). Qed.

  Theorem C05_create_unique_all : forall st', step_gff call SCreateUnique force spec st f0 = Ok st' ->
    exists nid a', fresh_auto (length (s_rows st)) id (s_rows st) a = Some (nid, a') /\
      has_id nid (s_rows st) = false /\
      s_rows st' = s_rows st ++ [set_id nid f] /\
      s_rels st' = add_rels (s_rels st) (parent_links f0 nid) /\
      s_dups st' = s_dups st /\ s_auto st' = a'.
  Proof. exact (l_create_unique call force spec st f0 id a Hid Hdup). Qed.

  Theorem C05_create_unique_numbering :
    has_id (autoid id (auto_get id a + 1)) (s_rows st) = false ->
    exists st', step_gff call SCreateUnique force spec st f0 = Ok st' /\
      s_rows st' = s_rows st ++ [set_id (autoid id (auto_get id a + 1)) f] /\
      auto_get id (s_auto st') = auto_get id a + 1.
  Proof. exact (l_create_unique_numbering call force spec st f0 id a Hid Hdup). Qed.

  Notation cands := (filter (same_checked force f) (candidates st_a id)).

  Theorem C05_merge_new_key : forall st', cands = [] -> step_gff call SMerge force spec st f0 = Ok st' ->
    exists nid a', has_id nid (s_rows st) = false /\
      s_rows st' = s_rows st ++ [set_id nid f] /\
      s_rels st' = add_rels (s_rels st) (parent_links f0 nid) /\
      s_dups st' = s_dups st ++ [(id, nid)] /\ s_auto st' = a'.
  Proof. exact (l_merge_new call force spec st f0 id a Hid Hdup). Qed.

  Theorem C05_merge_into : forall st' target rest, rev cands = target :: rest ->
    step_gff call SMerge force spec st f0 = Ok st' ->
    s_rows st' = update_id (r_id target)
                   (fun r => fold_left (fun r fl => setf fl (merged_field fl f cands) r) force
                                       (set_attrs (merge_attrs (r_attrs f) cands) r)) (s_rows st) /\
    s_rels st' = add_rels (s_rels st) (parent_links f0 (r_id target)) /\
    s_dups st' = s_dups st /\ s_auto st' = a /\ length (s_rows st') = length (s_rows st).
  Proof. exact (l_merge_into call force spec st f0 id a Hid Hdup). Qed.
End C05.
Print Assumptions C05_error. Print Assumptions C05_warning_first. Print Assumptions C05_replace_last.
Print Assumptions C05_replace_relations. Print Assumptions C05_create_unique_all.
Print Assumptions C05_create_unique_numbering. Print Assumptions C05_merge_new_key. Print Assumptions C05_merge_into.

(* merged attribute values: per key exactly the union, without repeats *)
Theorem C05_merge_union : forall k fa existing v,
  In v (vals k (merge_attrs fa existing)) <->
  In v (vals k fa) \/ exists e vs, In e existing /\ In (k, vs) (r_attrs e) /\ In v vs.
Proof. exact l_merge_attrs_union. Qed.
Print Assumptions C05_merge_union.

Theorem C05_no_repeats : forall l, NoDup (as_set l).
Proof. exact l_as_set_NoDup. Qed.
Print Assumptions C05_no_repeats.

(* exempt columns: the comma-joined sorted set of the values seen (stored value split first) *)
Theorem C05_force_fields : forall fl f existing,
  merged_field fl f existing = join [44%N] (as_set (getf fl f :: flat_map (fun e => split [44%N] (getf fl e)) existing)).
Proof. exact l_merged_field. Qed.
Print Assumptions C05_force_fields.

(* merge_strategy='merge', over a whole import (any inputs, id_spec, force_merge_fields, from empty
   tables): at every point at most ONE of the candidates for a key agrees with a newcomer on the compared
   columns - the candidates are pairwise different there - so the arbitrary order in which Python's
   set() presents them cannot influence the result.  (Only for such merge-only imports: in a history that mixes
   strategies two stored candidates can agree with a newcomer, and then which of them is updated follows the set order.) *)
Theorem C05_merge_candidates_distinct : forall call force spec fs st' key f,
  run_steps (step_gff call SMerge force spec) fs empty_st = Ok st' ->
  (length (filter (same_checked force f) (candidates st' key)) <= 1)%nat.
Proof. exact l_merge_candidates_distinct. Qed.
Print Assumptions C05_merge_candidates_distinct.

(* "No ... Parent link is lost or invented beyond that, in create_db and in update alike" - level 1, as an invariant of EVERY
   step under EVERY strategy from ANY stored state: the level-1 rows of the relations table are exactly the Parent values of
   the stored rows, each filed under the key its row is stored under (l1_exact).  For 'merge' the step needs what
   C05_merge_candidates_distinct provides (at most one candidate agrees with a newcomer); keys are unique (C04_unique) and
   attribute keys are unique within a row (they come from a mapping).  Level 2 is C02_history_closed. *)
Theorem C05_parent_links_exact : forall call force spec strat st f0 st',
  step_gff call strat force spec st f0 = Ok st' ->
  NoDup (map r_id (s_rows st)) -> (forall r, In r (s_rows st) -> NoDup (map fst (r_attrs r))) ->
  (strat = SMerge -> forall id f, (length (filter (same_checked force f) (candidates st id)) <= 1)%nat) ->
  l1_exact st -> l1_exact st'.
Proof. exact l_step_links. Qed.
Print Assumptions C05_parent_links_exact.
