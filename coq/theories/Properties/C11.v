(* Properties/C11.v — filters, ordering, counts.  Statements only; every proof is `exact`.
   [ordered_query ft strand ks reverse rows] models all_features/features_of_type with a
   featuretype (string or collection), a strand, order_by = ks (a single column given as a
   string is the one-element list) and reverse; [directed ks reverse] are the keys with the
   single ASC/DESC suffix bound to the last one, as make_query writes it. *)
From GV Require Import Base.Prelude Base.PyStr Model.Bins Model.DB Model.Parser Model.Query Model.Order Proofs.C11Proofs.
From Coq Require Import Permutation Sorted.
Open Scope Z_scope.

(* exactly the stored features that match ... *)
Theorem C11_filter_exact : forall ft strand ks reverse l r, In r (ordered_query ft strand ks reverse l) <->
  In r l /\ ft_query ft (o_row r) = true /\ strand_query strand (o_row r) = true.
Proof. exact l_ordered_exact. Qed.
Print Assumptions C11_filter_exact.

(* ... each once ... *)
Theorem C11_once : forall ft strand ks reverse l, NoDup l -> NoDup (ordered_query ft strand ks reverse l).
Proof. exact l_ordered_once. Qed.
Print Assumptions C11_once.

(* ... sorted by the requested columns: every earlier row <= every later row, lexicographically,
   for all 12 columns incl. 'length' and 'file_order' *)
Theorem C11_sorted : forall ft strand k ks reverse l,
  StronglySorted (leP (directed (k :: ks) reverse)) (ordered_query ft strand (k :: ks) reverse l).
Proof. exact l_ordered_sorted. Qed.
Print Assumptions C11_sorted.

(* single column: ascending, or descending with reverse; NULL < integers < text, text by code point *)
Theorem C11_single_key_meaning : forall k reverse a b, le_by (directed [k] reverse) a b = true <->
  (if reverse then cval_cmp (key_val k b) (key_val k a) else cval_cmp (key_val k a) (key_val k b)) <> Gt.
Proof. exact l_single_key_meaning. Qed.
Print Assumptions C11_single_key_meaning.

(* the order relation is a total preorder (so "sorted" determines the result up to ties) *)
Theorem C11_order_total : forall keys a b, le_by keys a b = false -> le_by keys b a = true.
Proof. exact le_total. Qed.
Print Assumptions C11_order_total.
Theorem C11_order_trans : forall keys a b c, le_by keys a b = true -> le_by keys b c = true -> le_by keys a c = true.
Proof. exact le_trans. Qed.
Print Assumptions C11_order_trans.

(* the sort itself neither drops nor invents rows *)
Theorem C11_sort_permutation : forall keys l, Permutation (sort_rows keys l) l.
Proof. exact l_sort_perm. Qed.
Print Assumptions C11_sort_permutation.

(* no order_by, no filter: input order *)
Theorem C11_file_order : forall reverse l, ordered_query FNone None [] reverse l = l.
Proof. exact l_file_order. Qed.
Print Assumptions C11_file_order.

(* count_features_of_type = the number iterated *)
Theorem C11_count_all : forall l, count_of_type None l = Z.of_nat (length l).
Proof. exact l_count_all. Qed.
Print Assumptions C11_count_all.
Theorem C11_count_type : forall t ks reverse l, t <> [] ->
  count_of_type (Some t) l = Z.of_nat (length (ordered_query (FStr t) None ks reverse l)).
Proof. exact l_count_type. Qed.
Print Assumptions C11_count_type.

(* featuretypes()/seqids(): exactly the distinct values present, each once *)
Theorem C11_featuretypes : forall l t, In t (featuretypes l) <-> exists r, In r l /\ r_ftype (o_row r) = t.
Proof. exact l_featuretypes. Qed.
Print Assumptions C11_featuretypes.
Theorem C11_seqids : forall l s, In s (seqids l) <-> exists r, In r l /\ r_seqid (o_row r) = s.
Proof. exact l_seqids. Qed.
Print Assumptions C11_seqids.
Theorem C11_distinct_once : forall l, NoDup (featuretypes l) /\ NoDup (seqids l).
Proof. exact l_distinct_once. Qed.
Print Assumptions C11_distinct_once.
