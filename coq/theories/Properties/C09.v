(* Properties/C09.v — dialect inference recovers the dialect the input was written in; the
   vote is the weighted majority with ties to the value seen first; a supplied dialect is used
   verbatim; the format decides the importer.  Statements only; every proof is `exact`. *)
From GV Require Import Base.Prelude Base.PyStr Base.Utf8 Base.WordTable Model.DB Model.Parser Model.Grammar Model.Dialect
  Model.Json Proofs.C07Parse Proofs.C07Proofs Proofs.C09Proofs Proofs.JsonProofs.
Open Scope N_scope.

(* one line: the inferred dialect is the canonical dialect of the style the line was written in:
   format, key/value separator, quoting, trailing semicolon, field separator (when >= 2 parts make
   it observable), repeated-keys flag (when a key repeats), keys in first-seen order *)
Theorem C09_line_dialect : forall st a, wf_attrs st a = true ->
  snd (split_infer isword (render_attrs st a)) = canon_dialect st a.
Proof. intros st a H. rewrite (l_parse_attrs isword isword_ascii isword_eq isword_sp st a H). reflexivity. Qed.
Print Assumptions C09_line_dialect.

Theorem C09_canon_fields : forall st a, (2 <= nparts st a)%nat ->
  d_leading (canon_dialect st a) = false /\ d_trailing (canon_dialect st a) = st_trailing st /\
  d_quoted (canon_dialect st a) = style_quoted st /\ d_fsep (canon_dialect st a) = st_fsep st /\
  d_kvsep (canon_dialect st a) = style_kvsep st /\ d_mvsep (canon_dialect st a) = [COMMA] /\
  d_fmt (canon_dialect st a) = style_fmt st /\ d_repeated (canon_dialect st a) = (st_repeated st && multi a) /\ a <> [].
Proof. exact (canon_fields isword). Qed.
Print Assumptions C09_canon_fields.

(* the vote, for any value type with a decidable equality: the chosen value has maximal total
   weight; every distinct value first seen EARLIER has strictly less, every one seen LATER at most
   as much (weights are attribute counts; zero-weight lines still count as "seen") *)
Theorem C09_vote : forall (V : Type) (veqb : V -> V -> bool), (forall a b, veqb a b = true <-> a = b) ->
  forall obs d, obs <> [] ->
  exists l1 l2, dedupe veqb (map fst obs) = l1 ++ vote veqb obs d :: l2
    /\ (forall v, In v l1 -> total veqb v obs < total veqb (vote veqb obs d) obs)
    /\ (forall v, In v l2 -> total veqb v obs <= total veqb (vote veqb obs d) obs).
Proof. exact @vote_spec. Qed.
Print Assumptions C09_vote.

Theorem C09_vote_consistent : forall (V : Type) (veqb : V -> V -> bool), (forall a b, veqb a b = true <-> a = b) ->
  forall obs d v, (forall x w, In (x, w) obs -> w <> 0 -> x = v) -> (exists w, In (v, w) obs /\ w <> 0) -> vote veqb obs d = v.
Proof. exact @vote_consistent. Qed.
Print Assumptions C09_vote_consistent.

(* the key order of the chosen dialect: first-seen union of the attribute keys, each once *)
Theorem C09_order : forall fs, d_order (choose_dialect fs) =
  match fs with [] => d_order default_dialect | _ => dedupe str_eqb (flat_map v_keys fs) end.
Proof. intros [|f fs]; [reflexivity|]. unfold choose_dialect. cbn [d_order]. exact (l_union_order (f :: fs)). Qed.
Print Assumptions C09_order.

Theorem C09_order_props : forall fs, NoDup (union_order fs) /\ forall k, In k (union_order fs) <-> exists f, In f fs /\ In k (v_keys f).
Proof. exact l_union_order_props. Qed.
Print Assumptions C09_order_props.

(* a file (window) written consistently in one style: every separator, the format, quoting and
   the trailing semicolon of that style are recovered *)
Theorem C09_file_consistent : forall st (als : list attrs), als <> [] ->
  (forall a, In a als -> wf_attrs st a = true /\ (2 <= nparts st a)%nat) ->
  let D := choose_dialect (map (line_voter isword st) als) in
  d_fmt D = style_fmt st /\ d_fsep D = st_fsep st /\ d_kvsep D = style_kvsep st /\ d_quoted D = style_quoted st /\
  d_trailing D = st_trailing st /\ d_leading D = false /\ d_mvsep D = [COMMA] /\
  d_order D = dedupe str_eqb (flat_map (map fst) als) /\
  (st_repeated st = false -> d_repeated D = false) /\
  ((forall a, In a als -> multi a = true) -> d_repeated D = st_repeated st).
Proof. exact (l_file_consistent isword isword_ascii isword_eq isword_sp). Qed.
Print Assumptions C09_file_consistent.

Theorem C09_empty : choose_dialect [] = default_dialect.
Proof. exact l_choose_empty. Qed.
Print Assumptions C09_empty.

(* DataIterator: supplied dialect verbatim; otherwise the vote over the first checklines+1 features *)
Theorem C09_supplied : forall D n fs, data_iterator_dialect (Some D) n fs = D.
Proof. exact l_supplied. Qed.
Print Assumptions C09_supplied.

Theorem C09_window : forall n fs, data_iterator_dialect None n fs = choose_dialect (firstn (S n) fs).
Proof. exact l_window. Qed.
Print Assumptions C09_window.

(* the format decides the importer *)
Theorem C09_route_gff : forall force D, route force D = Ok ImpGFF <-> (force = true \/ d_fmt D = GFF3).
Proof. exact l_route. Qed.
Print Assumptions C09_route_gff.

Theorem C09_route_gtf : forall force D, route force D = Ok ImpGTF <-> (force = false /\ d_fmt D = GTF).
Proof. exact l_route_gtf. Qed.
Print Assumptions C09_route_gtf.

(* FeatureDB.dialect: the dialect dictionary written to the meta table as JSON text reads back as the same dialect
   (booleans, separators, format and key order) *)
Theorem C09_dialect_persists : forall d, dialect_ok d -> loads_dialect (dumps_dialect d) = Some d.
Proof. exact l_dialect_roundtrip. Qed.
Print Assumptions C09_dialect_persists.
