(* Properties/C13.v — input forms and peeking.  Statements only; every proof is `exact`.
   [feat_peek] models _FeatureIterator.peek (take n+1, chain back iff one-shot), [iterate] models
   _BaseIterator.__iter__ with a possibly stateful transform. *)
From GV Require Import Base.Prelude Base.PyStr Base.Utf8 Base.WordTable Model.DB Model.Parser Model.Grammar Model.Dialect Model.File
  Model.Iter Proofs.C07Parse Proofs.C07Proofs Proofs.C01Proofs Proofs.C13Proofs Proofs.C13Forms.

Theorem C13_peek_lossless : forall (A : Type) n (d : source A),
  fst (feat_peek n d) = firstn (S n) (contents d) /\ contents (snd (feat_peek n d)) = contents d.
Proof. exact l_peek_lossless. Qed.
Print Assumptions C13_peek_lossless.

Theorem C13_forms_equal : forall (A : Type) n m (l : list A),
  contents (snd (feat_peek n (SList l))) = contents (snd (feat_peek m (SIter l))).
Proof. exact l_forms_equal. Qed.
Print Assumptions C13_forms_equal.

Theorem C13_peek_twice : forall (A : Type) n m (d : source A), contents (snd (feat_peek m (snd (feat_peek n d)))) = contents d.
Proof. exact l_peek_twice. Qed.
Print Assumptions C13_peek_twice.

Theorem C13_transform_calls : forall (A B St : Type) (t : St -> A -> St * option B) l s,
  fst (iterate t s l) = fold_left (fun s x => fst (t s x)) l s.
Proof. exact l_transform_calls. Qed.
Print Assumptions C13_transform_calls.

Theorem C13_transform_output : forall (A B St : Type) (t : St -> A -> St * option B) l s,
  snd (iterate t s l) = flat_map (fun r => match r with Some y => [y] | None => [] end) (results A B St t s l).
Proof. exact l_transform_output. Qed.
Print Assumptions C13_transform_output.

Theorem C13_transform_once : forall (A B St : Type) (t : St -> A -> St * option B) l s, length (results A B St t s l) = length l.
Proof. exact l_transform_once. Qed.
Print Assumptions C13_transform_once.

Theorem C13_no_transform : forall (A : Type) (l : list A), snd (iterate (fun (s : unit) x => (s, Some x)) tt l) = l.
Proof. exact @l_identity_transform. Qed.
Print Assumptions C13_no_transform.

Theorem C13_inspect_count : forall (A : Type) (limit : option nat) (l : list A),
  length (limited limit l) = match limit with Some (S n) => Nat.min (S n) (length l) | _ => length l end.
Proof. exact @l_inspect_count. Qed.
Print Assumptions C13_inspect_count.

(* "The same annotation supplied as a path ... or a list of Features ... yields the same feature sequence": for every file in
   one consistent style that fits its chosen dialect (C01's domain), every checklines value, supplied or voted dialect, and
   every keep_order / sort_attribute_values setting, what DataIterator makes of the FILE ([import_model]: peek, vote, second
   pass with the chosen dialect) is what it makes of the ready-made OBJECTS ([objects_model]: vote over the objects' own
   dialects, every object yielded once in order with the chosen dialect) - the same dialect and the same features. *)
Theorem C13_path_equals_objects : forall st cfg fs,
  (forall f, In f fs -> wf_feature st f = true /\ f_dialect f = canon_dialect st (f_attrs f)) ->
  (forall f, In f fs -> fits st (f_attrs f) (chosen st cfg fs) = true) ->
  import_model isword cfg (map (render_line st) fs) = Ok (objects_model cfg fs).
Proof.
  intros st cfg fs Hall Hfits.
  exact (l_path_equals_objects isword isword_ascii isword_eq isword_sp st cfg fs Hall (fun f Hf => fits_prop _ _ _ (Hfits f Hf))).
Qed.
Print Assumptions C13_path_equals_objects.

(* ... and a one-shot iterator of those objects, peeked for any number of items (twice, when create_db re-uses the iterator),
   yields what the list yields *)
Theorem C13_oneshot_equals_list : forall cfg n m (fs : list feature),
  objects_model cfg (contents (snd (feat_peek m (snd (feat_peek n (SIter fs)))))) = objects_model cfg fs.
Proof. intros cfg n m fs. rewrite l_peek_twice. reflexivity. Qed.
Print Assumptions C13_oneshot_equals_list.
