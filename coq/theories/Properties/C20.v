(* Properties/C20.v — concurrent imports sharing a temporary directory.  Statements only; every
   proof is `exact`.  PARTIAL: these theorems are about the interleaving model of Model/Conc.v,
   under the oracle hypothesis that a temp-file name is never one that is in use in the directory
   at the moment of creation (the O_EXCL contract of tempfile.NamedTemporaryFile).  Real overlap -
   processes, the kernel, sqlite - is runtime behaviour the model cannot exhibit; it is decided by
   the correspondence (driven schedules, free-running soaks, temp-file traces replayed against the
   model's directory discipline). *)
From GV Require Import Base.Prelude Model.Conc Proofs.C20Proofs.
Open Scope Z_scope.

Section P.
  Variable fresh : list nat -> nat.
  Hypothesis fresh_spec : forall l, ~ In (fresh l) l.

  (* for all process counts, programs and schedules: a finished process has read back exactly what
     it reads when it runs alone *)
  Theorem C20_independent : forall progs sched i,
    p_prog (w_procs (run fresh (initial progs) sched) i) = [] ->
    p_got (w_procs (run fresh (initial progs) sched) i) = solo (progs i) [] [].
  Proof. exact (l_independent fresh fresh_spec). Qed.

  (* when all are done and every program removes what it creates, the directory is empty again *)
  Theorem C20_tempdir_clean : forall progs sched,
    (forall i, leaves (progs i) 0 = 0%nat) ->
    (forall i, p_prog (w_procs (run fresh (initial progs) sched) i) = []) ->
    w_dir (run fresh (initial progs) sched) = [].
  Proof. exact (l_tempdir_clean fresh fresh_spec). Qed.

  (* live temp-file names are pairwise distinct and never shared between processes, at every moment *)
  Theorem C20_names_exclusive : forall progs sched,
    NoDup (names (w_dir (run fresh (initial progs) sched))) /\
    forall i j n, In n (p_cur (w_procs (run fresh (initial progs) sched) i)) ->
                  In n (p_cur (w_procs (run fresh (initial progs) sched) j)) -> i = j.
  Proof. exact (l_names_exclusive fresh fresh_spec). Qed.
End P.
Print Assumptions C20_independent.
Print Assumptions C20_tempdir_clean.
Print Assumptions C20_names_exclusive.

(* the importers' use of the directory is balanced, and alone they read back what they wrote *)
Theorem C20_import_balanced : forall data, leaves (import_prog data) 0 = 0%nat.
Proof. exact l_import_balanced. Qed.
Print Assumptions C20_import_balanced.

Theorem C20_import_solo : forall data, solo (import_prog data) [] [] = [data].
Proof. exact l_import_solo. Qed.
Print Assumptions C20_import_solo.

(* from_string input: the temp copy of the text is removed as well ... *)
Theorem C20_from_string_balanced : forall text data, leaves (from_string_prog text data) 0 = 0%nat.
Proof. exact l_from_string_balanced. Qed.
Print Assumptions C20_from_string_balanced.

(* ... which the code did not do before the repair of finding F15 (DataIterator(from_string=True)
   left its NamedTemporaryFile behind): the pre-fix program provably leaves one file *)
Theorem C20_from_string_F15_refuted : forall text data, leaves (from_string_prog_F15 text data) 0 = 1%nat.
Proof. exact l_from_string_F15_leaves_one. Qed.
Print Assumptions C20_from_string_F15_refuted.
