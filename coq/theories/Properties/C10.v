(* Properties/C10.v — laws of the update / delete / add_relation / reopen machine
   (Model/Machine.v), for every state, operation and history.  Statements only; every proof is
   `exact`.  The property itself is a refinement claim ("equal those of a reference model applying
   the same steps"): the reference model is this machine and the correspondence over histories is
   what ties it to interface.py; the theorems below say what the machine guarantees. *)
From GV Require Import Base.Prelude Base.PyStr Model.Bins Model.DB Model.Parser Model.Import Model.GtfSpec Model.Machine
  Proofs.C04Proofs Proofs.C10Proofs Proofs.C10Bridge.
Open Scope Z_scope.

Section P.
  Variable call : nat -> row -> option str.     (* user id_spec callables: any *)
  Variable kind : dbkind.                        (* GFF3- or GTF-dialect database: update() routes by the stored dialect *)

  (* delete removes the named features ... *)
  Theorem C10_delete_rows : forall s ids b r,
    In r (s_rows (m_disk (fst (step call kind s (OpDelete ids b))))) <-> In r (s_rows (m_disk s)) /\ ~ In (r_id r) ids.
  Proof. exact (l_delete_rows call kind). Qed.

  (* ... every relation mentioning them ... *)
  Theorem C10_delete_rels : forall s ids b x,
    In x (s_rels (m_disk (fst (step call kind s (OpDelete ids b))))) <->
    In x (s_rels (m_disk s)) /\ ~ In (rel_parent x) ids /\ ~ In (rel_child x) ids.
  Proof. exact (l_delete_rels call kind). Qed.

  (* ... and nothing else (order of the surviving rows, duplicates table, persisted and live counters) *)
  Theorem C10_delete_nothing_else : forall s ids b,
    let s' := fst (step call kind s (OpDelete ids b)) in
    s_dups (m_disk s') = s_dups (m_disk s) /\ s_auto (m_disk s') = s_auto (m_disk s) /\ m_mem s' = m_mem s /\
    snd (step call kind s (OpDelete ids b)) = Ok tt /\
    (forall r1 r2 l1 l2 l3, s_rows (m_disk s') = l1 ++ r1 :: l2 ++ r2 :: l3 ->
       exists k1 k2 k3, s_rows (m_disk s) = k1 ++ r1 :: k2 ++ r2 :: k3).
  Proof. exact (l_delete_rest call kind). Qed.

  (* update with no features changes nothing *)
  Theorem C10_update_empty : forall s strat spec w b,
    m_disk (fst (step call kind s (OpUpdate [] strat spec w None b))) = m_disk s /\
    m_mem (fst (step call kind s (OpUpdate [] strat spec w None b))) = m_mem s /\
    snd (step call kind s (OpUpdate [] strat spec w None b)) = Ok tt.
  Proof. exact (l_update_empty call kind). Qed.

  (* with make_backup the .bak holds the complete pre-operation database: for every update -
     whatever the features, the strategy, and EVERY position at which the source may fail - and
     every delete *)
  Theorem C10_backup_update : forall s fs strat spec w fail,
    m_bak (fst (step call kind s (OpUpdate fs strat spec w fail true))) = Some (m_disk s).
  Proof. exact (l_backup_update call kind). Qed.

  Theorem C10_backup_delete : forall s ids, m_bak (fst (step call kind s (OpDelete ids true))) = Some (m_disk s).
  Proof. exact (l_backup_delete call kind). Qed.

  Theorem C10_backup_kept : forall s o,
    (match o with OpUpdate _ _ _ _ _ b => b = false | OpDelete _ b => b = false | _ => True end) ->
    m_bak (fst (step call kind s o)) = m_bak s.
  Proof. exact (l_backup_kept call kind). Qed.

  (* an update whose feature source fails leaves the file untouched, at every failure position *)
  Theorem C10_failed_source_atomic : forall s fs strat spec w k b, (k <= length fs)%nat ->
    m_disk (fst (step call kind s (OpUpdate fs strat spec w (Some k) b))) = m_disk s /\
    exists e, snd (step call kind s (OpUpdate fs strat spec w (Some k) b)) = Err e.
  Proof. exact (l_failed_source_atomic call kind). Qed.

  Theorem C10_failed_populate_atomic : forall s fs strat spec w b e,
    fst (run_track call kind strat spec fs (with_auto (m_disk s) (m_mem s))) = Err e ->
    m_disk (fst (step call kind s (OpUpdate fs strat spec w None b))) = m_disk s.
  Proof. exact (l_failed_populate_atomic call kind). Qed.

  (* close + reopen: same content; the live counters are the persisted ones *)
  Theorem C10_reopen : forall s, m_disk (fst (step call kind s OpReopen)) = m_disk s /\ m_mem (fst (step call kind s OpReopen)) = s_auto (m_disk s).
  Proof. exact (l_reopen call kind). Qed.

  (* primary keys stay unique through every history: a generated key never equals a stored one *)
  Theorem C10_ids_unique : forall ops s, NoDup (ids (m_disk s)) -> NoDup (ids (m_disk (run call kind s ops))).
  Proof. exact (l_history_ids_unique call kind). Qed.

  (* numbering continues from the live counters: the first id-less feature of an update is stored
     under <featuretype>_(counter + 1) *)
  Theorem C10_continues_numbering : forall s k f strat,
    is_field_form k = false -> dget k (r_attrs f) = None ->
    has_id (autoid (r_ftype f) (auto_get (r_ftype f) (m_mem s) + 1)) (s_rows (m_disk s)) = false ->
    exists st', step_gff call strat [] (SList [KAttr k]) (with_auto (m_disk s) (m_mem s)) f = Ok st' /\
      In (autoid (r_ftype f) (auto_get (r_ftype f) (m_mem s) + 1)) (ids st') /\
      auto_get (r_ftype f) (s_auto st') = auto_get (r_ftype f) (m_mem s) + 1.
  Proof. exact (l_update_continues_numbering call). Qed.
  (* numbering continues across updates AND reopenings: over every history the persisted counters only
     grow (base by base) and never run ahead of the open object's counters, so a number once written to
     the autoincrements table is never handed out again *)
  Theorem C10_counters_monotone : forall ops s, cle (s_auto (m_disk s)) (m_mem s) ->
    cle (s_auto (m_disk (run call kind s ops))) (m_mem (run call kind s ops)) /\
    cle (s_auto (m_disk s)) (s_auto (m_disk (run call kind s ops))).
  Proof. exact (l_history_counters call kind). Qed.

  (* every generated id draws from a counter that only moves up *)
  Theorem C10_step_counters_up : forall strat force spec st f st',
    step_gff call strat force spec st f = Ok st' -> cle (s_auto st) (s_auto st').
  Proof. exact (step_gff_cle call). Qed.
  (* add_relation(parent, child, level, child_func): refused - and then nothing at all has changed - unless both features
     are stored and the triple is new ... *)
  Theorem C10_add_relation_refused : forall s p c l rt e, snd (step call kind s (OpAddRel p c l rt)) = Err e ->
    fst (step call kind s (OpAddRel p c l rt)) = s /\
    (has_id p (s_rows (m_disk s)) = false \/ has_id c (s_rows (m_disk s)) = false \/ has_rel (mkRel p c l) (s_rels (m_disk s)) = true).
  Proof. exact (l_addrel_refused call kind). Qed.

  (* ... otherwise exactly that one triple is appended, the child's row is rewritten in place only when a child_func is
     given, and nothing else moves: other rows, duplicates, persisted and live counters, backup *)
  Theorem C10_add_relation_exact : forall s p c l rt, snd (step call kind s (OpAddRel p c l rt)) = Ok tt ->
    let s' := fst (step call kind s (OpAddRel p c l rt)) in
    has_id p (s_rows (m_disk s)) = true /\ has_id c (s_rows (m_disk s)) = true /\ has_rel (mkRel p c l) (s_rels (m_disk s)) = false /\
    s_rels (m_disk s') = s_rels (m_disk s) ++ [mkRel p c l] /\
    s_rows (m_disk s') = (if rt then update_id c (fun r => set_bin (setf FFtype RETYPED r)) (s_rows (m_disk s)) else s_rows (m_disk s)) /\
    s_dups (m_disk s') = s_dups (m_disk s) /\ s_auto (m_disk s') = s_auto (m_disk s) /\ m_mem s' = m_mem s /\ m_bak s' = m_bak s.
  Proof. exact (l_addrel_done call kind). Qed.

  Theorem C10_add_relation_keys : forall s p c l rt, ids (m_disk (fst (step call kind s (OpAddRel p c l rt)))) = ids (m_disk s).
  Proof. exact (l_addrel_ids call kind). Qed.

End P.
Print Assumptions C10_add_relation_refused. Print Assumptions C10_add_relation_exact. Print Assumptions C10_add_relation_keys.
Print Assumptions C10_delete_rows.
Print Assumptions C10_delete_rels.
Print Assumptions C10_delete_nothing_else.
Print Assumptions C10_update_empty.
Print Assumptions C10_backup_update.
Print Assumptions C10_backup_delete.
Print Assumptions C10_backup_kept.
Print Assumptions C10_failed_source_atomic.
Print Assumptions C10_failed_populate_atomic.
Print Assumptions C10_reopen.
Print Assumptions C10_ids_unique.
Print Assumptions C10_continues_numbering.
Print Assumptions C10_counters_monotone.
Print Assumptions C10_step_counters_up.

(* "update adds or merges features and their first- and second-level relations": a successful update() step of the machine IS
   the importer (create_db's own code path) run on the file's tables with the open object's live counters; the file then holds
   the importer's tables and the persisted counters, the object the new counters, the backup the pre-operation content.  So
   everything proved about import_gff / import_gtf - keys unique (C04_unique), the strategies (the C05 theorems), Parent links exact
   (C05_parent_links_exact), level-2 closure over histories (C02_history_closed), bins consistent (C12_import_gff_bins, C12_import_gtf_bins), GTF
   inference (the C03 theorems) - holds of update steps inside arbitrary machine histories *)
Theorem C10_update_is_import_gff : forall call s fs strat spec w backup st'', fs <> [] ->
  import_gff call strat [] spec fs (with_auto (m_disk s) (m_mem s)) = Ok st'' ->
  do_update call KGff s fs strat spec w None backup =
  (mkM (with_auto st'' (persist (s_auto (m_disk s)) (s_auto st''))) (s_auto st'') (if backup then Some (m_disk s) else m_bak s), Ok tt).
Proof. exact l_update_is_import_gff. Qed.
Print Assumptions C10_update_is_import_gff.

Theorem C10_update_is_import_gtf : forall call s fs strat spec w backup st'', fs <> [] ->
  import_gtf call gtf_default strat [] spec fs (with_auto (m_disk s) (m_mem s)) = Ok st'' ->
  do_update call KGtf s fs strat spec w None backup =
  (mkM (with_auto st'' (persist (s_auto (m_disk s)) (s_auto st''))) (s_auto st'') (if backup then Some (m_disk s) else m_bak s), Ok tt).
Proof. exact l_update_is_import_gtf. Qed.
Print Assumptions C10_update_is_import_gtf.
