(* Properties/C04.v — primary keys.  Statements only; every proof is `exact`.
   [try_keys]/[id_handler] model _DBCreator._id_handler, [import_gff] the importer,
   [find_id] FeatureDB.__getitem__; [call] is the user's callable (any function). *)
From GV Require Import Base.Prelude Base.PyStr Model.Bins Model.DB Model.Parser Model.Import Proofs.C04Proofs.
Open Scope Z_scope.

Section C04.
  Variable call : nat -> row -> option str.

  (* the value of the first listed attribute that is present ... *)
  Theorem C04_attr_single : forall k ks f a v, is_field_form k = false -> dget k (r_attrs f) = Some [v] ->
    try_keys call (KAttr k :: ks) f a = Ok (v, a).
  Proof. exact (l_attr_single call). Qed.
  Theorem C04_attr_absent_next : forall k ks f a, is_field_form k = false ->
    dget k (r_attrs f) = None \/ dget k (r_attrs f) = Some [] ->
    try_keys call (KAttr k :: ks) f a = try_keys call ks f a.
  Proof. exact (l_attr_absent call). Qed.
  (* ... several values are rejected, never silently truncated *)
  Theorem C04_multi_rejected : forall k ks f a v1 v2 vs, is_field_form k = false ->
    dget k (r_attrs f) = Some (v1 :: v2 :: vs) -> try_keys call (KAttr k :: ks) f a = Err EValue.
  Proof. exact (l_attr_multi call). Qed.
  (* ':seqid:'-style specs name a column *)
  Theorem C04_field_form : forall k ks f a fl, is_field_form k = true -> field_named (inner k) = Some fl ->
    try_keys call (KAttr k :: ks) f a = Ok (getf fl f, a).
  Proof. exact (l_field call). Qed.
  (* callables: None/'' -> next key; a string -> that key; 'autoincrement:X' -> X_<n> *)
  Theorem C04_call_none : forall n ks f a, call n f = None \/ call n f = Some [] ->
    try_keys call (KCall n :: ks) f a = try_keys call ks f a.
  Proof. exact (l_call_none call). Qed.
  Theorem C04_call_string : forall n ks f a c s, call n f = Some (c :: s) -> startswith (c :: s) AUTOINC = false ->
    try_keys call (KCall n :: ks) f a = Ok (c :: s, a).
  Proof. exact (l_call_string call). Qed.
  Theorem C04_call_autoincrement : forall n ks f a x, call n f = Some (AUTOINC ++ x) ->
    try_keys call (KCall n :: ks) f a = Ok (auto_incr x a).
  Proof. exact (l_call_autoincrement call). Qed.
  (* dict specs: the per-featuretype entry, else <featuretype>_<n>; an exhausted list likewise *)
  Theorem C04_dict_entry : forall d f a ks, dict_spec d (r_ftype f) = Some ks ->
    id_handler call (SDict d) f a = try_keys call ks f a.
  Proof. exact (l_dict_entry call). Qed.
  Theorem C04_dict_missing : forall d f a, dict_spec d (r_ftype f) = None ->
    id_handler call (SDict d) f a = Ok (auto_incr (r_ftype f) a).
  Proof. exact (l_dict_missing call). Qed.
  Theorem C04_fallthrough : forall f a, try_keys call [] f a = Ok (auto_incr (r_ftype f) a).
  Proof. exact (l_keys_exhausted call). Qed.

  (* keys are unique in the result of EVERY import: any input, id_spec, strategy, force fields,
     starting from any database with unique keys (so also for update()) *)
  Theorem C04_unique : forall strat force spec fs st st', NoDup (map r_id (s_rows st)) ->
    import_gff call strat force spec fs st = Ok st' -> NoDup (map r_id (s_rows st')).
  Proof. exact (l_ids_unique call). Qed.
End C04.
Print Assumptions C04_attr_single. Print Assumptions C04_attr_absent_next. Print Assumptions C04_multi_rejected.
Print Assumptions C04_field_form. Print Assumptions C04_call_none. Print Assumptions C04_call_string.
Print Assumptions C04_call_autoincrement. Print Assumptions C04_dict_entry. Print Assumptions C04_dict_missing.
Print Assumptions C04_fallthrough. Print Assumptions C04_unique.

(* counting: the request numbered i for base k gets k_<c>, c = previous counter + number of requests for k so far *)
Theorem C04_auto_numbering : forall bs a i k, nth_error bs i = Some k ->
  nth_error (requests bs a) i = Some (autoid k (auto_get k a + count_before k (firstn (S i) bs))).
Proof. exact l_auto_numbering. Qed.
Print Assumptions C04_auto_numbering.

(* generated keys determine base and number: two requests never produce the same key *)
Theorem C04_autoid_injective : forall b n b' n', 0 <= n -> 0 <= n' -> autoid b n = autoid b' n' -> b = b' /\ n = n'.
Proof. exact l_autoid_injective. Qed.
Print Assumptions C04_autoid_injective.

(* db[key]: exactly the feature stored under key; an absent key is reported *)
Theorem C04_lookup_exact : forall rows r, NoDup (map r_id rows) -> In r rows -> find_id (r_id r) rows = Some r.
Proof. exact l_lookup_exact. Qed.
Print Assumptions C04_lookup_exact.
Theorem C04_lookup_sound : forall id rows r, find_id id rows = Some r -> In r rows /\ r_id r = id.
Proof. exact l_find_some. Qed.
Print Assumptions C04_lookup_sound.
Theorem C04_lookup_absent : forall id rows, find_id id rows = None <-> ~ In id (map r_id rows).
Proof. exact l_find_none. Qed.
Print Assumptions C04_lookup_absent.
