(* Properties/C14.v — directives, comments, blanks, FASTA.  Statements only; every proof is `exact`.
   [scan lines] = what one complete pass of _FileIterator._custom_iter sees; [directives_flow] = the
   directives list object that create_db shares with the iterator. *)
From GV Require Import Base.Prelude Base.PyStr Model.Iter Proofs.C14Proofs.
Open Scope N_scope.

Theorem C14_lines_by_kind : forall ls, (forall l, In l ls -> not_fasta l) -> scan ls = flat_map item_of_line ls.
Proof. exact l_scan_no_fasta. Qed.
Print Assumptions C14_lines_by_kind.

Theorem C14_nothing_after_fasta : forall pre x post, (forall l, In l pre -> not_fasta l) -> classify_line x = LFasta ->
  scan (pre ++ x :: post) = scan pre.
Proof. exact l_scan_stops_at_fasta. Qed.
Print Assumptions C14_nothing_after_fasta.

Theorem C14_directive_line : forall l, startswith l [HASH; HASH] = true -> str_eqb l FASTA_MARK = false ->
  classify_line l = LDirective (skipn 2 l).
Proof. exact l_classify_directive. Qed.
Print Assumptions C14_directive_line.

Theorem C14_comment_line : forall l, startswith l [HASH] = true -> startswith l [HASH; HASH] = false -> classify_line l = LSkip.
Proof. exact l_classify_comment. Qed.
Print Assumptions C14_comment_line.

Theorem C14_blank_line : classify_line [] = LSkip.
Proof. exact l_classify_blank. Qed.
Print Assumptions C14_blank_line.

Theorem C14_fasta_lines : classify_line FASTA_MARK = LFasta /\ forall l, classify_line (GT :: l) = LFasta.
Proof. exact l_classify_fasta. Qed.
Print Assumptions C14_fasta_lines.

Theorem C14_peek_features : forall its n, feats_of (upto_feature n its) = firstn (S n) (feats_of its).
Proof. exact l_peek_features. Qed.
Print Assumptions C14_peek_features.

Theorem C14_peek_directives_prefix : forall its n, exists rest, dirs_of its = dirs_of (upto_feature n its) ++ rest.
Proof. exact l_peek_directives_prefix. Qed.
Print Assumptions C14_peek_directives_prefix.

Theorem C14_db_directives : forall peeks checklines lines,
  fst (directives_flow ClearInPlace peeks checklines lines) = dirs_of (scan lines) /\
  snd (directives_flow ClearInPlace peeks checklines lines) = dirs_of (scan lines).
Proof. exact l_db_directives. Qed.
Print Assumptions C14_db_directives.

Theorem C14_rebind_refuted : exists lines checklines,
  fst (directives_flow Rebind true checklines lines) <> dirs_of (scan lines).
Proof. exact l_rebind_refuted. Qed.
Print Assumptions C14_rebind_refuted.
