(* Properties/C17.v — attribute container, JSON storage form, merge_attributes, equality.
   Statements only; every proof is `exact`. *)
From GV Require Import Base.Prelude Base.PyStr Model.Bins Model.DB Model.Parser Model.Import Model.Attrs Model.Container
  Model.Json Proofs.C05Proofs Proofs.C17Proofs Proofs.JsonProofs Proofs.SortedStrs Proofs.C17Numeric.
From Coq Require Import Sorting.Permutation Sorting.Sorted.
Open Scope Z_scope.

(* however a value is set, a sequence is stored: a scalar becomes a one-item list, lists/tuples are kept *)
Theorem C17_set_scalar : forall d k s, cget k (setitem d k (VStr s)) = Some (SList [s]).
Proof. exact l_set_scalar. Qed.
Print Assumptions C17_set_scalar.
Theorem C17_set_list : forall d k l, cget k (setitem d k (VList l)) = Some (SList l).
Proof. exact l_set_list. Qed.
Print Assumptions C17_set_list.
Theorem C17_set_tuple : forall d k l, cget k (setitem d k (VTuple l)) = Some (STuple l).
Proof. exact l_set_tuple. Qed.
Print Assumptions C17_set_tuple.
Theorem C17_set_other_key : forall d k k' v, str_eqb k k' = false -> cget k (setitem d k' v) = cget k d.
Proof. exact l_set_other. Qed.
Print Assumptions C17_set_other_key.

(* always_return_list only changes how one-item lists are viewed *)
Theorem C17_view_switch : forall v, view true v = view false v \/
  exists x, v = SList [x] /\ view true v = VList [x] /\ view false v = VStr x.
Proof. exact l_view_switch. Qed.
Print Assumptions C17_view_switch.
Theorem C17_with_list_is_stored : forall v,
  match view true v with VList l => seq_of v = l | VTuple l => seq_of v = l | VStr _ => False end.
Proof. exact l_with_list_is_stored. Qed.
Print Assumptions C17_with_list_is_stored.

(* attributes -> JSON text -> attributes is the identity incl. key order, for ANY content, given the
   json library's own round trip [loads (dumps a) = Some a] (an oracle assumption, observed by the correspondence) *)
Theorem C17_json_identity : forall (json : Type) (dumps : attrs -> json) (loads : json -> option attrs),
  (forall a, loads (dumps a) = Some a) ->
  forall a, NoDup (map fst a) -> unjsonify json loads (jsonify json dumps a) = Some a.
Proof. exact l_json_identity. Qed.
Print Assumptions C17_json_identity.

(* ... and with the json library modelled as text (Model/Json.v: simplejson.dumps with separators (",",":") and
   ensure_ascii, simplejson.loads in strict mode): the stored text decodes to the same mapping, same key order, for
   every mapping whose strings are code points below 0x110000 with no high surrogate directly followed by a low one *)
Theorem C17_json_text_roundtrip : forall a, attrs_ok a -> NoDup (map fst a) -> loads_attrs (dumps_attrs a) = Some a.
Proof. exact l_attrs_roundtrip. Qed.
Print Assumptions C17_json_text_roundtrip.

(* in particular for any Unicode content (sequences of Unicode scalar values) *)
Theorem C17_json_unicode_roundtrip : forall a,
  forallb (fun kv => forallb scalar (fst kv) && forallb (forallb scalar) (snd kv)) a = true -> NoDup (map fst a) ->
  loads_attrs (dumps_attrs a) = Some a.
Proof. exact l_unicode_roundtrip. Qed.
Print Assumptions C17_json_unicode_roundtrip.

(* the side condition is necessary: a str holding the two halves of a surrogate pair as separate code points (not
   Unicode content; unreachable from parsed input) comes back as one character *)
Theorem C17_json_surrogate_halves_collapse :
  loads_attrs (dumps_attrs [([107%N], [[55357%N; 56832%N]])]) = Some [([107%N], [[128512%N]])].
Proof. exact l_pair_collapses. Qed.
Print Assumptions C17_json_surrogate_halves_collapse.

(* the stored text is pure ASCII whatever the content (ensure_ascii): what sqlite receives never depends on an encoding *)
Theorem C17_json_text_ascii : forall a,
  Forall (fun kv => Forall (fun c => (c < 1114112)%N) (fst kv) /\ Forall (Forall (fun c => (c < 1114112)%N)) (snd kv)) a ->
  Forall (fun c => (c < 128)%N) (dumps_attrs a).
Proof. exact l_dumps_attrs_ascii. Qed.
Print Assumptions C17_json_text_ascii.

(* merge_attributes: per key exactly the union of both arguments' values (numeric_sort on or off) ... *)
Theorem C17_merge_attributes_union : forall numeric a1 a2 m, NoDup (map fst a1) -> NoDup (map fst a2) ->
  merge_attributes numeric a1 a2 = Ok m ->
  forall k v, In v (vals k m) <-> In v (vals k a1) \/ In v (vals k a2).
Proof. exact l_merge_attributes_union. Qed.
Print Assumptions C17_merge_attributes_union.
(* ... sorted and duplicate-free *)
Theorem C17_merge_attributes_sorted : forall a1 a2, exists m, merge_attributes false a1 a2 = Ok m /\
  m = map (fun kv => (fst kv, as_set (snd kv))) (premerge a1 a2).
Proof. exact l_merge_attributes_sorted. Qed.
Print Assumptions C17_merge_attributes_sorted.

(* ... and "sorted" means what it says: every value list of the result is strictly ascending in Python's str order (code
   points) - sorted and duplicate-free *)
Theorem C17_merge_values_ascending : forall a1 a2 m, merge_attributes false a1 a2 = Ok m ->
  forall k vs, In (k, vs) m -> ascending vs.
Proof. exact l_merge_values_ascending. Qed.
Print Assumptions C17_merge_values_ascending.

(* numeric_sort=True: a key all of whose (distinct) values are decimals - [classify], the modelled part of float(): up to
   15 digits with an optional sign and fraction - comes out as exactly those values in non-decreasing NUMERIC order
   ([dec_le]: m1 * 10^-k1 <= m2 * 10^-k2), every earlier value <= every later one *)
Theorem C17_numeric_values_sorted : forall vs l out, all_dec (as_set vs) = Some l -> sort_values true vs = Ok out ->
  Permutation out (as_set vs) /\ StronglySorted dec_le out.
Proof. exact l_numeric_sorted. Qed.
Print Assumptions C17_numeric_values_sorted.

Theorem C17_merge_numeric_ascending : forall a1 a2 m k vs, merge_attributes true a1 a2 = Ok m -> In (k, vs) m ->
  (forall v, In v vs -> exists n d, classify v = Dec n d) -> StronglySorted dec_le vs.
Proof. exact l_merge_numeric_ascending. Qed.
Print Assumptions C17_merge_numeric_ascending.

(* two Features compare equal exactly when their printed lines are equal; equal Features hash alike *)
Theorem C17_eq_iff_print : forall tq f g, feature_eq tq f g = true <-> feature_str tq f = feature_str tq g.
Proof. exact l_eq_iff_print. Qed.
Print Assumptions C17_eq_iff_print.
Theorem C17_hash_coherent : forall (H : str -> Z) tq f g, feature_eq tq f g = true -> feature_hash H tq f = feature_hash H tq g.
Proof. exact l_hash_coherent. Qed.
Print Assumptions C17_hash_coherent.
